(* C08SelProofs.v — the mdat selected as File.Mdat is the same top-level box in both decode modes. *)
From V.lib Require Import Base.
From V.c08 Require Import C08Model C08Spec C08ReadProofs C08HeaderProofs C08TreeProofs C08SelModel.

Lemma mdat_size_after m : mdat_size (after_size m) = mdat_size m.
Proof.
  unfold after_size, mdat_size. cbn [lazyDataSize Data LargeSize snd].
  destruct (LargeSize m); cbn [orb]; [reflexivity|].
  destruct (maxNormalPayloadSize <? (if 0 <? lazyDataSize m then lazyDataSize m else lenN (Data m))); reflexivity.
Qed.

Lemma payload_size_after m : payload_size (after_size m) = payload_size m.
Proof. unfold payload_size. rewrite mdat_size_after. reflexivity. Qed.

Lemma after_size_idem m : after_size (after_size m) = after_size m.
Proof. unfold after_size at 1. rewrite mdat_size_after. reflexivity. Qed.

Lemma mdat_view_after m : mdat_view (after_size m) = mdat_view m.
Proof. unfold mdat_view. rewrite after_size_idem, mdat_size_after. reflexivity. Qed.

(* sizes of the two representations of one box of the file *)
Lemma mdat_size_both file pos large payloadLen :
  pos + hdr_len large + payloadLen <= lenN file -> lenN file < 9223372036854775808 ->
  (large = true \/ 8 + payloadLen < 4294967296) ->
  mdat_size (mdat_lazy pos large payloadLen) = (hdr_len large + payloadLen, large)
  /\ mdat_size (mdat_mem file pos large payloadLen) = (hdr_len large + payloadLen, large).
Proof.
  intros Hb Hfl Hsz.
  destruct (mdat_size_views file pos large payloadLen Hb Hfl Hsz) as [H1 H2].
  split.
  - rewrite (surjective_pairing (mdat_size _)), H1. f_equal.
    unfold mdat_size, mdat_lazy. cbn [lazyDataSize Data LargeSize snd].
    change (lenN (@nil N)) with 0.
    replace (if 0 <? payloadLen then payloadLen else 0) with payloadLen
      by (destruct (0 <? payloadLen) eqn:E; lia).
    unfold maxNormalPayloadSize. destruct large; cbn [orb]; [reflexivity|].
    destruct Hsz as [Hsz|Hsz]; [discriminate|]. lia.
  - rewrite (surjective_pairing (mdat_size _)), H2. f_equal.
    unfold mdat_size, mdat_mem. cbn [lazyDataSize Data LargeSize snd]. fold (hdr_len large).
    change (0 <? 0) with false. cbn match. rewrite sub_length by lia.
    unfold maxNormalPayloadSize. destruct large; cbn [orb]; [reflexivity|].
    destruct Hsz as [Hsz|Hsz]; [discriminate|]. lia.
Qed.

Lemma payload_size_both file pos large payloadLen :
  pos + hdr_len large + payloadLen <= lenN file -> lenN file < 9223372036854775808 ->
  (large = true \/ 8 + payloadLen < 4294967296) ->
  payload_size (mdat_lazy pos large payloadLen) = payloadLen
  /\ payload_size (mdat_mem file pos large payloadLen) = payloadLen.
Proof.
  intros Hb Hfl Hsz.
  destruct (mdat_size_both file pos large payloadLen Hb Hfl Hsz) as [H1 H2].
  unfold payload_size. rewrite H1, H2. unfold u64z, two64.
  split; destruct large; cbn [hdr_len]; rewrite Z.mod_small by lia; lia.
Qed.

Lemma mdat_view_both file pos large payloadLen :
  pos + hdr_len large + payloadLen <= lenN file -> lenN file < 9223372036854775808 ->
  (large = true \/ 8 + payloadLen < 4294967296) ->
  mdat_view (mdat_lazy pos large payloadLen) = mdat_view (mdat_mem file pos large payloadLen).
Proof.
  intros Hb Hfl Hsz.
  destruct (mdat_size_both file pos large payloadLen Hb Hfl Hsz) as [H1 H2].
  unfold mdat_view, after_size. rewrite H1, H2. reflexivity.
Qed.

(* the two modes' current selections denote the same box *)
Definition sel_rel (a b : option mdat) : Prop :=
  match a, b with
  | None, None => True
  | Some x, Some y => mdat_view x = mdat_view y /\ payload_size x = payload_size y
  | _, _ => False
  end.

Definition res_rel (a b : res (option mdat)) : Prop :=
  match a, b with
  | Ok x, Ok y => sel_rel x y
  | Err, Err => True
  | _, _ => False
  end.

Lemma step_rel cn cl mn ml sn sl :
  sel_rel cn cl -> mdat_view mn = mdat_view ml -> payload_size mn = payload_size ml ->
  res_rel (file_mdat_step cn (TMdat mn sn)) (file_mdat_step cl (TMdat ml sl)).
Proof.
  intros Hr Hv Hp. unfold file_mdat_step.
  destruct cn as [x|], cl as [y|]; cbn [sel_rel] in Hr; try contradiction.
  - destruct Hr as [Hxv Hxp]. rewrite Hxp, Hp.
    destruct ((0 <? payload_size y) && (0 <? payload_size ml)); [exact I|].
    destruct (payload_size y =? 0); cbn [res_rel sel_rel]; rewrite !mdat_view_after, !payload_size_after; auto.
  - cbn [res_rel sel_rel]. auto.
Qed.

Lemma file_mdat_rel file : lenN file < 9223372036854775808 ->
  forall bs pos cn cl, sel_rel cn cl -> layout_at file pos bs = true ->
  res_rel (file_mdat cn (views false file pos bs)) (file_mdat cl (views true file pos bs)).
Proof.
  intros Hfl. induction bs as [|b t IH]; intros pos cn cl Hr Hl.
  - cbn. exact Hr.
  - cbn [layout_at] in Hl. apply andb_prop in Hl. destruct Hl as [Hl Ht].
    apply andb_prop in Hl. destruct Hl as [Hh Hb]. apply N.leb_le in Hb.
    assert (Hsz : blarge b = true \/ 8 + bplen b < 4294967296).
    { unfold header_at_n in Hh. apply andb_prop in Hh. destruct Hh as [Hh _].
      apply andb_prop in Hh. destruct Hh as [_ Hh]. apply orb_prop in Hh.
      destruct Hh as [Hh|Hh]; [left; exact Hh | right; apply N.ltb_lt; exact Hh]. }
    cbn [views file_mdat].
    destruct (eqb_list (bname b) name_mdat).
    + destruct (payload_size_both file pos (blarge b) (bplen b) Hb Hfl Hsz) as [P1 P2].
      pose proof (mdat_view_both file pos (blarge b) (bplen b) Hb Hfl Hsz) as V.
      pose proof (step_rel cn cl (mdat_mem file pos (blarge b) (bplen b)) (mdat_lazy pos (blarge b) (bplen b))
                    (hdr_len (blarge b) + bplen b) (hdr_len (blarge b) + bplen b) Hr (eq_sym V)
                    (eq_trans P2 (eq_sym P1))) as S.
      destruct (file_mdat_step cn (TMdat (mdat_mem file pos (blarge b) (bplen b)) (hdr_len (blarge b) + bplen b))) as [x| | |];
      destruct (file_mdat_step cl (TMdat (mdat_lazy pos (blarge b) (bplen b)) (hdr_len (blarge b) + bplen b))) as [y| | |];
        cbn [res_rel] in S; try contradiction; cbn [rbind].
      * replace (pos + (hdr_len (blarge b) + bplen b)) with (pos + hdr_len (blarge b) + bplen b) by lia.
        apply IH; assumption.
      * exact I.
    + cbn [file_mdat_step rbind].
      replace (pos + (hdr_len (blarge b) + bplen b)) with (pos + hdr_len (blarge b) + bplen b) by lia.
      apply IH; assumption.
Qed.

(* DecodeFile in both modes on a file that is exactly a sequence of boxes: either both reject it (two
   non-empty mdat boxes) or both select the same top-level mdat (same StartPos, LargeSize, Size() and
   PayloadAbsoluteOffset()), or both select none *)
Lemma file_mdat_equal file zeof bs orc1 orc2 :
  lenN file < 9223372036854775808 ->
  layout_at file 0 bs = true ->
  res_rel (decode_file_mdat (S (length bs)) false file zeof (mkRS 0 orc1))
          (decode_file_mdat (S (length bs)) true file zeof (mkRS 0 orc2))
  /\ decode_file_mdat (S (length bs)) true file zeof (mkRS 0 orc2) = file_mdat None (views true file 0 bs).
Proof.
  intros Hfl Hl. unfold decode_file_mdat.
  rewrite (decode_file_top_ok false file zeof Hfl bs 0 orc1 Hl).
  rewrite (decode_file_top_ok true file zeof Hfl bs 0 orc2 Hl). cbn [rbind].
  split; [|reflexivity]. apply file_mdat_rel; [assumption|exact I|assumption].
Qed.

(* ---- characterisation: the one non-empty mdat is File.Mdat, whatever empty mdat boxes and other boxes
   come before or after it; a second non-empty one is an error *)
Definition key (m : mdat) : (N * bool * N * N) * N := (mdat_view m, payload_size m).

Lemma key_after m : key (after_size m) = key m.
Proof. unfold key. rewrite mdat_view_after, payload_size_after. reflexivity. Qed.

Definition nonempty_mdat (b : topbox) : bool :=
  match b with TMdat m _ => 0 <? payload_size m | TBox _ _ _ => false end.

Lemma file_mdat_keeps : forall bs y,
  0 < payload_size y -> forallb (fun b => negb (nonempty_mdat b)) bs = true ->
  exists z, file_mdat (Some y) bs = Ok (Some z) /\ key z = key y.
Proof.
  induction bs as [|b t IH]; intros y Hy Hall.
  - cbn. exists y. auto.
  - cbn [forallb] in Hall. apply andb_prop in Hall. destruct Hall as [Hb Ht].
    cbn [file_mdat]. destruct b as [nm sp sz|m sz]; cbn [file_mdat_step rbind].
    + apply IH; assumption.
    + cbn [nonempty_mdat] in Hb. apply negb_true_iff in Hb. rewrite Hb.
      rewrite andb_false_r.
      replace (payload_size y =? 0) with false by lia. cbn [rbind].
      destruct (IH (after_size y)) as [z [Hz Hk]]; try assumption.
      { rewrite payload_size_after. exact Hy. }
      exists z. split; [exact Hz|]. rewrite Hk. apply key_after.
Qed.

Lemma file_mdat_second_nonempty : forall bs y,
  0 < payload_size y -> existsb nonempty_mdat bs = true -> file_mdat (Some y) bs = Err.
Proof.
  induction bs as [|b t IH]; intros y Hy Hex; [discriminate|].
  cbn [existsb] in Hex. cbn [file_mdat].
  destruct b as [nm sp sz|m sz]; cbn [file_mdat_step rbind nonempty_mdat] in *.
  - apply IH; assumption.
  - replace (0 <? payload_size y) with true by lia. cbn [andb].
    destruct (0 <? payload_size m) eqn:Em; [reflexivity|].
    replace (payload_size y =? 0) with false by lia. cbn [rbind orb] in *.
    apply IH; [rewrite payload_size_after; exact Hy | exact Hex].
Qed.

Lemma file_mdat_reaches : forall pre cur m sz rest,
  forallb (fun b => negb (nonempty_mdat b)) pre = true ->
  match cur with Some c => payload_size c = 0 | None => True end ->
  0 < payload_size m ->
  exists m', key m' = key m /\ file_mdat cur (pre ++ TMdat m sz :: rest) = file_mdat (Some m') rest.
Proof.
  induction pre as [|b t IH]; intros cur m sz rest Hall Hc Hm.
  - cbn [app file_mdat file_mdat_step]. destruct cur as [c|].
    + rewrite Hc. cbn [N.ltb N.compare andb N.eqb rbind]. exists (after_size m). split; [apply key_after|reflexivity].
    + cbn [rbind]. exists m. auto.
  - cbn [forallb] in Hall. apply andb_prop in Hall. destruct Hall as [Hb Ht].
    cbn [app file_mdat]. destruct b as [nm sp sz'|m0 sz']; cbn [file_mdat_step].
    + cbn [rbind]. apply IH; assumption.
    + cbn [nonempty_mdat] in Hb. apply negb_true_iff in Hb. apply N.ltb_ge in Hb.
      assert (H0 : payload_size m0 = 0) by lia.
      destruct cur as [c|].
      * rewrite Hc, H0. cbn [N.ltb N.compare andb N.eqb rbind].
        apply IH; try assumption. rewrite payload_size_after. exact H0.
      * cbn [rbind]. apply IH; assumption.
Qed.

(* exactly one non-empty mdat: it is selected; a second one: error *)
Lemma file_mdat_spec pre m sz rest :
  forallb (fun b => negb (nonempty_mdat b)) pre = true -> 0 < payload_size m ->
  (forallb (fun b => negb (nonempty_mdat b)) rest = true ->
     exists z, file_mdat None (pre ++ TMdat m sz :: rest) = Ok (Some z) /\ key z = key m)
  /\ (existsb nonempty_mdat rest = true -> file_mdat None (pre ++ TMdat m sz :: rest) = Err).
Proof.
  intros Hpre Hm.
  destruct (file_mdat_reaches pre None m sz rest Hpre I Hm) as [m' [Hk E]].
  assert (Hm' : 0 < payload_size m').
  { pose proof (f_equal snd Hk) as Hp. unfold key in Hp. cbn [snd] in Hp. rewrite Hp. exact Hm. }
  split; intros Hrest; rewrite E.
  - destruct (file_mdat_keeps rest m' Hm' Hrest) as [z [Hz Hkz]].
    exists z. split; [exact Hz|]. rewrite Hkz. exact Hk.
  - apply file_mdat_second_nonempty; assumption.
Qed.

(* with the DataLength() reading of "empty" the lazily decoded media mdat is replaced by a later empty mdat *)
Lemma file_mdat_datalength_refuted :
  exists file bs,
    layout_at file 0 bs = true /\
    option_map mdat_view (match file_mdat_dl None (views false file 0 bs) with Ok r => r | _ => None end)
    <> option_map mdat_view (match file_mdat_dl None (views true file 0 bs) with Ok r => r | _ => None end).
Proof.
  exists [0;0;0;10;109;100;97;116;1;2; 0;0;0;8;109;100;97;116], [mkBD name_mdat false 2; mkBD name_mdat false 0].
  split; [vm_compute; reflexivity|]. vm_compute. discriminate.
Qed.
