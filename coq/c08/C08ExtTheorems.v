(* C08ExtTheorems.v — second round of C08 theorems: fragmented files (Segments / Fragments / moof-mdat pairing
   in both decode modes), File.Encode of a lazily decoded file and the lazy writer, multi-track files.
   Each theorem is closed by `exact <lemma>` and followed by Print Assumptions. *)
From V.lib Require Import Base.
From V.c08 Require Import C08Model C08Spec C08SelModel C08FragModel C08FragProofs C08EncModel C08EncProofs
     C08CopyProofs C08InterProofs C08SwModel C08SwProofs C08LwProofs.

(* DecodeFile = top-level walk + the per-box checks of the loop + File.AddChild (isFragmented, Init, File.Mdat,
   Sidxs, Segments, Fragments with Moof / Mdat / Emsgs / Children, Mfra, lastBoxType), with or without
   DecStartOnMoof, whatever the common decoder returned for the non-mdat boxes (ax: stts entry count of moov,
   anchor and references of sidx).  For every file that is exactly a sequence of boxes (any types, 8/16-byte
   headers, empty mdat boxes, mdat boxes anywhere): decoding in memory and decoding lazily end in the same
   outcome class (ok / error / panic) and build the same File as seen through the API of the mdat handles
   (StartPos, LargeSize, Size(), PayloadAbsoluteOffset(), Size()-HeaderSize()): same segments at the same
   positions, same fragments, the same mdat box attached to the same moof. *)
Theorem C08_frag_tree_equal :
  forall file zeof bs orc1 orc2 onmoof ax,
  lenN file < 9223372036854775808 ->
  layout_at file 0 bs = true ->
  map_res (map_fstate mkey) (decode_file_frag (S (length bs)) false file zeof onmoof ax (mkRS 0 orc1))
  = map_res (map_fstate mkey) (decode_file_frag (S (length bs)) true file zeof onmoof ax (mkRS 0 orc2))
  /\ decode_file_frag (S (length bs)) true file zeof onmoof ax (mkRS 0 orc2)
     = frag_run mdat payload_size after_size onmoof ax fs0 (map of_top (views true file 0 bs)).
Proof. exact frag_tree_equal. Qed.
Print Assumptions C08_frag_tree_equal.

(* which mdat goes with which moof: after any prefix that left no segment and no top-level sidx (ftyp, a
   fragmented moov, free ...), a run (moof mdat)+ gives ONE segment starting at the first moof with one
   fragment per pair: fragment i starts at moof i, holds moof i and the mdat that immediately follows it
   (whatever its representation, header size or payload size - empty mdat boxes included). *)
Theorem C08_frag_pairing :
  forall ax mpos msz (m : mdat) dsz ps s,
  fs_sidxs s = [] -> fs_segs s = [] ->
  exists s', frag_run mdat payload_size after_size false ax s (pairs_boxes mdat ((mpos, msz, m, dsz) :: ps)) = Ok s'
    /\ fs_segs s' = [mkSeg false mpos 0 (rev (map (pair_frag mdat after_size) ((mpos, msz, m, dsz) :: ps)))]
    /\ fs_mdat s' = fs_mdat s /\ fs_frag s' = true.
Proof. exact (pairs_run0 mdat payload_size after_size). Qed.
Print Assumptions C08_frag_pairing.

(* satisfiable, non-trivial: ftyp moov(fragmented) moof mdat(16-byte header, 2 bytes) moof mdat(empty), lazy mode:
   one segment at 17, fragments at 17 and 43, the second fragment's mdat is the empty box at 51 (not lazy) *)
Example C08_frag_hyps :
  let file := [0;0;0;8;102;116;121;112; 0;0;0;9;109;111;111;118;7;
               0;0;0;8;109;111;111;102; 0;0;0;1;109;100;97;116;0;0;0;0;0;0;0;18;1;2;
               0;0;0;8;109;111;111;102; 0;0;0;8;109;100;97;116] in
  let bs := [mkBD n_ftyp false 0; mkBD n_moov false 1; mkBD n_moof false 0; mkBD name_mdat true 2;
             mkBD n_moof false 0; mkBD name_mdat false 0] in
  let ax := fun p => if p =? 8 then AMoov (Some 0) else ANone in
  layout_at file 0 bs = true /\
  match decode_file_frag 7 true file true false ax (mkRS 0 [1;2;3]) with
  | Ok s => fs_frag s = true /\ fs_mdat s = None /\
            map (fun sg => (sg_start sg, map (fun fr => (fr_start fr, fr_moof fr, option_map mkey (fr_mdat fr),
                                                         option_map mdat_is_lazy (fr_mdat fr)))
                                             (sg_frags sg))) (fs_segs (fin_state s))
            = [(17, [(17, Some 17, Some (25, true, 18, 41, 2), Some true);
                     (43, Some 43, Some (51, false, 8, 59, 0), Some false)])]
  | _ => False
  end.
Proof. vm_compute. repeat split; reflexivity. Qed.

(* File.Encode (progressive file, or any file in EncModeBoxTree: every top-level child in order; boxes other
   than mdat opaque and re-encoded to their own bytes): the in-memory decoding writes the file back; the lazy
   decoding writes the file with every mdat payload left out (header only, no error); header followed by
   CopyData of the whole payload, for every mdat with a payload, writes the file back - for every short-read
   schedule of the reader. *)
Theorem C08_file_encode :
  forall file zeof orcs bs,
  lenN file < 9223372036854775808 ->
  layout_at file 0 bs = true ->
  encode_tops file (views false file 0 bs) = Ok file
  /\ encode_tops file (views true file 0 bs) = Ok (elide file 0 bs)
  /\ encode_tops_splice file zeof orcs (views true file 0 bs) = Ok file.
Proof. exact file_encode. Qed.
Print Assumptions C08_file_encode.

Example C08_file_encode_hyps :
  let file := [0;0;0;8;102;114;101;101; 0;0;0;1;109;100;97;116;0;0;0;0;0;0;0;18;1;2; 0;0;0;9;109;111;111;118;7] in
  let bs := [mkBD [102;114;101;101] false 0; mkBD name_mdat true 2; mkBD [109;111;111;118] false 1] in
  layout_at file 0 bs = true /\
  elide file 0 bs = [0;0;0;8;102;114;101;101; 0;0;0;1;109;100;97;116;0;0;0;0;0;0;0;18; 0;0;0;9;109;111;111;118;7].
Proof. vm_compute. repeat split; reflexivity. Qed.

(* the lazy writer (examples/segmenter -lazy: Fragment.AddSampleToTrack accumulates lazyDataSize, Encode writes
   the header, CopySampleData the payload): for ANY payload p written after the header of an mdat prepared
   for lenN p bytes, header ++ p is a well-formed mdat box (canonical 8- or 16-byte header announcing exactly
   lenN p payload bytes) whose payload is p. *)
Theorem C08_lazy_writer :
  forall p sp, lenN p < 9223372036854775792 ->
  let large := 4294967296 - 1 - 8 <? lenN p in
  exists h, mdat_encode (mdat_for_writing sp (lenN p)) = Ok h
    /\ lenN h = hdr_len large
    /\ header_at (h ++ p) 0 large (lenN p) = true
    /\ box_in_file (h ++ p) 0 large (lenN p) = true
    /\ lenN (h ++ p) = hdr_len large + lenN p
    /\ sub (h ++ p) (hdr_len large) (lenN p) = p.
Proof. exact lazy_writer. Qed.
Print Assumptions C08_lazy_writer.

(* CopySampleData for every track of a multi-track file: no hypothesis relates the chunks of different tracks,
   nor the order of the chunk offsets of one track *)
Theorem C08_copy_samples_multitrack :
  forall file startPos large payloadLen (tracks : list (stbl * list chunk * N * N)) ws zeof orc,
  box_in_file file startPos large payloadLen = true ->
  forallb (track_ok startPos large payloadLen) tracks = true ->
  Forall (fun t => let '(tb, chunks, a, b) := t in
            copy_sample_data true file zeof (mdat_mem file startPos large payloadLen) (Some (mkRS 0 orc)) tb chunks a b ws
            = Ok (expected_samples file tb chunks a b)
            /\ copy_sample_data true file zeof (mdat_lazy startPos large payloadLen) (Some (mkRS 0 orc)) tb chunks a b ws
            = Ok (expected_samples file tb chunks a b)) tracks.
Proof. exact copy_samples_multitrack. Qed.
Print Assumptions C08_copy_samples_multitrack.

(* satisfiable with DECREASING chunk offsets and another track's chunks in between: track 1 has chunks at 13
   (samples 1,2) and 8 (sample 3); track 2 has its chunk at 10 (between them).  Work buffer of 2 bytes,
   one-byte reads. *)
Example C08_interleaved_hyps :
  let file := [0;0;0;17;109;100;97;116; 31;32; 91;92;93; 11;12;21;22] in
  let tb1 := mkStbl [2;2;2] 0 [13;8] in
  let ch1 := [mkChunk 1 1 2; mkChunk 2 3 1] in
  let tb2 := mkStbl [1;2] 0 [10] in
  let ch2 := [mkChunk 1 1 2] in
  box_in_file file 0 false 9 = true /\
  forallb (track_ok 0 false 9) [(tb1, ch1, 1, 3); (tb2, ch2, 2, 2)] = true /\
  expected_samples file tb1 ch1 1 3 = [11;12;21;22;31;32] /\
  expected_samples file tb2 ch2 2 2 = [92;93] /\
  copy_sample_data true file true (mdat_lazy 0 false 9) (Some (mkRS 0 [1;1;1;1;1;1])) tb1 ch1 1 3 [0;0] = Ok [11;12;21;22;31;32].
Proof. vm_compute. repeat split; reflexivity. Qed.

(* ---- round 4: the SliceWriter encode path (MdatBox.EncodeSW / EncodeHeaderWithSizeSW / File.EncodeSW on a
   bits.FixedSliceWriter: fixed buffer, a write that does not fit is skipped and sets the accumulated error) ---- *)

(* MdatBox.EncodeSW against MdatBox.Encode, for ANY mdat box (lazy or not, any LargeSize flag, any sizes) and ANY
   writer state (capacity, bytes already written, error already accumulated or not):
   (1) no earlier error and the bytes Encode writes fit: no error, exactly those bytes are appended;
   (2) they do not fit: error, and what was appended is a PROPER prefix of them (whole header fields);
   (3) Encode refuses: EncodeSW refuses and writes nothing;  (4) an earlier accumulated error is returned;
   (5) Encode has no other outcome. *)
Theorem C08_encode_sw_equal :
  forall m w,
  (forall bs, mdat_encode m = Ok bs -> sw_err w = false -> lenN (sw_out w) + lenN bs <= sw_cap w ->
     mdat_encode_sw m w = (true, mkSW (sw_cap w) (sw_out w ++ bs) false))
  /\ (forall bs, mdat_encode m = Ok bs -> sw_cap w < lenN (sw_out w) + lenN bs ->
     exists pre rest, bs = pre ++ rest /\ rest <> [] /\
       mdat_encode_sw m w = (false, mkSW (sw_cap w) (sw_out w ++ pre) true))
  /\ (mdat_encode m = Err -> mdat_encode_sw m w = (false, w))
  /\ (sw_err w = true -> fst (mdat_encode_sw m w) = false)
  /\ (mdat_encode m = Err \/ exists bs, mdat_encode m = Ok bs).
Proof. exact encode_sw_equal. Qed.
Print Assumptions C08_encode_sw_equal.

(* the clause "encoding a lazily decoded media-data box writes exactly its header" on the SliceWriter path: for
   every mdat box lying in a file, EncodeSW of the lazily decoded box appends exactly the original header bytes
   and needs only HeaderSize() bytes of room (Size() counts the payload it does not write); with less room it
   fails; EncodeSW of the in-memory box appends header ++ payload = the original box and needs Size() bytes. *)
Theorem C08_lazy_encode_sw :
  forall file startPos large payloadLen w,
  box_in_file file startPos large payloadLen = true ->
  header_at file startPos large payloadLen = true ->
  sw_err w = false ->
  (lenN (sw_out w) + hdr_len large <= sw_cap w ->
     mdat_encode_sw (mdat_lazy startPos large payloadLen) w
     = (true, mkSW (sw_cap w) (sw_out w ++ sub file startPos (hdr_len large)) false))
  /\ (sw_cap w < lenN (sw_out w) + hdr_len large ->
     fst (mdat_encode_sw (mdat_lazy startPos large payloadLen) w) = false)
  /\ (lenN (sw_out w) + hdr_len large + payloadLen <= sw_cap w ->
     mdat_encode_sw (mdat_mem file startPos large payloadLen) w
     = (true, mkSW (sw_cap w) (sw_out w ++ sub file startPos (hdr_len large) ++ sub file (startPos + hdr_len large) payloadLen) false))
  /\ (sw_cap w < lenN (sw_out w) + hdr_len large + payloadLen ->
     fst (mdat_encode_sw (mdat_mem file startPos large payloadLen) w) = false)
  /\ sub file startPos (hdr_len large) ++ sub file (startPos + hdr_len large) payloadLen
     = sub file startPos (hdr_len large + payloadLen).
Proof. exact lazy_encode_sw'. Qed.
Print Assumptions C08_lazy_encode_sw.

(* File.EncodeSW (progressive file / EncModeBoxTree; boxes other than mdat opaque) of both decodings of a file that
   is a sequence of boxes, into a writer with no earlier error: the in-memory decoding appends the file and needs
   lenN file bytes (= File.Size()); the lazy decoding appends the file with every mdat payload left out and needs
   only that many bytes (so a writer of File.Size() bytes always suffices); with less room: error. *)
Theorem C08_file_encode_sw :
  forall file bs w,
  lenN file < 9223372036854775808 ->
  layout_at file 0 bs = true -> sw_err w = false -> lenN (sw_out w) <= sw_cap w ->
  (lenN (sw_out w) + lenN file <= sw_cap w ->
     encode_tops_sw file (views false file 0 bs) w = (true, mkSW (sw_cap w) (sw_out w ++ file) false))
  /\ (lenN (sw_out w) + lenN (elide file 0 bs) <= sw_cap w ->
     encode_tops_sw file (views true file 0 bs) w = (true, mkSW (sw_cap w) (sw_out w ++ elide file 0 bs) false))
  /\ lenN (elide file 0 bs) <= lenN file
  /\ (sw_cap w < lenN (sw_out w) + lenN file -> fst (encode_tops_sw file (views false file 0 bs) w) = false)
  /\ (sw_cap w < lenN (sw_out w) + lenN (elide file 0 bs) -> fst (encode_tops_sw file (views true file 0 bs) w) = false).
Proof. exact file_encode_sw'. Qed.
Print Assumptions C08_file_encode_sw.

(* satisfiable, non-trivial: free + mdat(16-byte header, 2 bytes) + moov, a writer of 40 bytes already holding 3:
   the lazy decoding appends 33 bytes (header only), the in-memory one the 35 bytes of the file; a writer with
   room for 34 bytes takes the lazy File but not the in-memory one; EncodeSW of the lazy mdat alone into a writer
   with 15 free bytes fails after the size-1 marker and the type (8 bytes: a proper prefix of the header). *)
Example C08_encode_sw_hyps :
  let file := [0;0;0;8;102;114;101;101; 0;0;0;1;109;100;97;116;0;0;0;0;0;0;0;18;1;2; 0;0;0;9;109;111;111;118;7] in
  let bs := [mkBD [102;114;101;101] false 0; mkBD name_mdat true 2; mkBD [109;111;111;118] false 1] in
  let w := mkSW 40 [90;90;90] false in
  layout_at file 0 bs = true /\ box_in_file file 8 true 2 = true /\ header_at file 8 true 2 = true /\
  encode_tops_sw file (views true file 0 bs) w = (true, mkSW 40 ([90;90;90] ++ elide file 0 bs) false) /\
  encode_tops_sw file (views false file 0 bs) w = (true, mkSW 40 ([90;90;90] ++ file) false) /\
  fst (encode_tops_sw file (views false file 0 bs) (mkSW 37 [90;90;90] false)) = false /\
  fst (encode_tops_sw file (views true file 0 bs) (mkSW 37 [90;90;90] false)) = true /\
  mdat_encode_sw (mdat_lazy 8 true 2) (mkSW 18 [90;90;90] false) = (false, mkSW 18 [90;90;90;0;0;0;1;109;100;97;116] true) /\
  mdat_encode_sw (mdat_lazy 8 true 2) (mkSW 19 [90;90;90] false)
  = (true, mkSW 19 ([90;90;90] ++ sub file 8 16) false).
Proof. vm_compute. repeat split; reflexivity. Qed.

(* ---- round 4: the lazy writer end to end (closes the gap between C08_lazy_writer, which took ANY payload, and
   C08_copy_samples) ---- *)

(* the number of bytes of samples a..b (as laid out by the chunk run) is the sum of their table sizes *)
Theorem C08_expected_samples_len :
  forall file startPos large payloadLen tb chunks a b,
  box_in_file file startPos large payloadLen = true ->
  chunks_cover a b chunks = true ->
  chunks_in_payload tb startPos large payloadLen chunks = true ->
  lenN (expected_samples file tb chunks a b) = sumN (sizes_from tb a (N.to_nat (b + 1 - a))).
Proof. exact expected_samples_len. Qed.
Print Assumptions C08_expected_samples_len.

(* examples/segmenter -lazy for one fragment of one track: Fragment.AddSampleToTrack for samples a..b
   (lazyDataSize += uint64(size), uint64 arithmetic), Encode of the fragment's mdat (header only), then
   File.CopySampleData(a..b) from the input (decoded lazily or in memory), every work buffer, every short-read
   schedule: the accumulated size IS the number of bytes copied, so header ++ copied bytes is a well-formed mdat box
   (8-byte header up to 2^32-9 payload bytes, 16-byte header above) whose payload is exactly the bytes of samples
   a..b.  Hypotheses: those of C08_copy_samples, and the total below 2^63-16. *)
Theorem C08_lazy_writer_end_to_end :
  forall file startPos large payloadLen tb chunks a b ws zeof orc sp,
  box_in_file file startPos large payloadLen = true ->
  chunks_cover a b chunks = true ->
  chunks_in_payload tb startPos large payloadLen chunks = true ->
  sumN (sizes_from tb a (N.to_nat (b + 1 - a))) < 9223372036854775792 ->
  let total := lazy_size_after (sizes_from tb a (N.to_nat (b + 1 - a))) in
  let largeW := 4294967296 - 1 - 8 <? total in
  exists h p,
    mdat_encode (mdat_for_writing sp total) = Ok h
    /\ copy_sample_data true file zeof (mdat_lazy startPos large payloadLen) (Some (mkRS 0 orc)) tb chunks a b ws = Ok p
    /\ copy_sample_data true file zeof (mdat_mem file startPos large payloadLen) (Some (mkRS 0 orc)) tb chunks a b ws = Ok p
    /\ p = expected_samples file tb chunks a b
    /\ lenN p = total
    /\ total = sumN (sizes_from tb a (N.to_nat (b + 1 - a)))
    /\ lenN h = hdr_len largeW
    /\ header_at (h ++ p) 0 largeW total = true
    /\ box_in_file (h ++ p) 0 largeW total = true
    /\ sub (h ++ p) (hdr_len largeW) total = p.
Proof. exact lazy_writer_end_to_end. Qed.
Print Assumptions C08_lazy_writer_end_to_end.

(* satisfiable, non-trivial: samples 2..3 (2 + 3 bytes) of a 3-sample track spanning a chunk boundary: the prepared
   mdat announces 5 payload bytes, the written box is 00 00 00 0d "mdat" 2 3 4 5 6 *)
Example C08_lazy_writer_end_to_end_hyps :
  let file := [0;0;0;14;109;100;97;116;1;2;3;4;5;6] in
  let tb := mkStbl [1;2;3] 0 [8;11] in
  let chunks := [mkChunk 1 1 2; mkChunk 2 3 1] in
  box_in_file file 0 false 6 = true /\ chunks_cover 2 3 chunks = true /\
  chunks_in_payload tb 0 false 6 chunks = true /\
  lazy_size_after (sizes_from tb 2 2) = 5 /\
  mdat_encode (mdat_for_writing 0 5) = Ok [0;0;0;13;109;100;97;116] /\
  copy_sample_data true file true (mdat_lazy 0 false 6) (Some (mkRS 0 [1;1])) tb chunks 2 3 [0;0] = Ok [2;3;4;5;6].
Proof. vm_compute. repeat split; reflexivity. Qed.
