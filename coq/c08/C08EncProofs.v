(* C08EncProofs.v — File.Encode of the two decodings of a file; header + copied payload = the original. *)
From V.lib Require Import Base.
From V.c08 Require Import C08Model C08Spec C08ReadProofs C08HeaderProofs C08TreeProofs C08SelModel C08SelProofs C08EncModel.

Lemma sub_rest {A} (l : list A) pos k : pos + k <= lenN l ->
  sub l pos k ++ sub l (pos + k) (lenN l - (pos + k)) = sub l pos (lenN l - pos).
Proof. intros H. rewrite sub_app. f_equal. lia. Qed.

Lemma layout_head file pos b t : layout_at file pos (b :: t) = true ->
  header_at_n file pos (bname b) (blarge b) (bplen b) = true
  /\ pos + hdr_len (blarge b) + bplen b <= lenN file
  /\ layout_at file (pos + hdr_len (blarge b) + bplen b) t = true
  /\ (blarge b = true \/ 8 + bplen b < 4294967296).
Proof.
  cbn [layout_at]. intros Hl. apply andb_prop in Hl. destruct Hl as [Hl Ht].
  apply andb_prop in Hl. destruct Hl as [Hh Hb]. apply N.leb_le in Hb.
  repeat split; try assumption.
  unfold header_at_n in Hh. apply andb_prop in Hh. destruct Hh as [Hh _].
  apply andb_prop in Hh. destruct Hh as [_ Hh]. apply orb_prop in Hh.
  destruct Hh as [Hh|Hh]; [left; exact Hh | right; apply N.ltb_lt; exact Hh].
Qed.

Lemma header_at_mdat file pos name large plen :
  header_at_n file pos name large plen = true -> eqb_list name name_mdat = true ->
  header_at file pos large plen = true.
Proof.
  intros Hh Hn. apply eqb_list_eq in Hn. subst name. unfold header_at_n in Hh. unfold header_at.
  apply andb_prop in Hh. destruct Hh as [Hh _]. exact Hh.
Qed.

Lemma pao_both file pos large plen :
  pos + hdr_len large + plen <= lenN file -> lenN file < 9223372036854775808 ->
  (large = true \/ 8 + plen < 4294967296) ->
  payload_abs_offset (after_size (mdat_lazy pos large plen)) = pos + hdr_len large
  /\ payload_abs_offset (after_size (mdat_mem file pos large plen)) = pos + hdr_len large.
Proof.
  intros Hb Hfl Hsz. destruct (mdat_size_both file pos large plen Hb Hfl Hsz) as [H1 H2].
  unfold payload_abs_offset, after_size, header_size. cbn [LargeSize StartPos]. rewrite H1, H2. cbn [snd].
  cbn [mdat_lazy mdat_mem StartPos]. fold (hdr_len large). unfold u64.
  assert (hdr_len large <= 16) by (destruct large; cbn; lia).
  rewrite N.mod_small by lia. auto.
Qed.

(* one mdat box of the layout: Encode and the writer pattern, both representations *)
Lemma enc_mdat_ok file zeof orcs pos large plen :
  pos + hdr_len large + plen <= lenN file -> lenN file < 9223372036854775808 ->
  (large = true \/ 8 + plen < 4294967296) -> header_at file pos large plen = true ->
  let sz := hdr_len large + plen in
  encode_top file (TMdat (mdat_mem file pos large plen) sz) = Ok (sub file pos sz)
  /\ encode_top file (TMdat (mdat_lazy pos large plen) sz) = Ok (sub file pos (hdr_len large))
  /\ encode_top_splice file zeof orcs (TMdat (mdat_lazy pos large plen) sz) = Ok (sub file pos sz)
  /\ (0 < plen -> encode_top_splice file zeof orcs (TMdat (mdat_mem file pos large plen) sz)
                  = Ok (sub file pos sz ++ sub file (pos + hdr_len large) plen)).
Proof.
  intros Hb Hfl Hsz Hh sz.
  assert (Hbox : box_in_file file pos large plen = true) by (unfold box_in_file; lia).
  destruct (header_plus_payload file pos large plen Hbox Hh) as (E1 & E2 & E3 & _).
  destruct (payload_size_both file pos large plen Hb Hfl Hsz) as [P1 P2].
  destruct (pao_both file pos large plen Hb Hfl Hsz) as [A1 A2].
  cbn [encode_top]. repeat split; try assumption.
  - cbn [encode_top_splice]. rewrite E1. cbn [rbind]. rewrite P1, A1.
    destruct (plen =? 0) eqn:Ez.
    + apply N.eqb_eq in Ez. subst sz. rewrite Ez. rewrite N.add_0_r. reflexivity.
    + apply N.eqb_neq in Ez.
      assert (Hv : valid_range pos large plen (Z.of_N (pos + hdr_len large)) (Z.of_N plen) = true)
        by (unfold valid_range; lia).
      destruct (read_equal file pos large plen _ _ zeof (orcs pos) Hbox Hv) as (_ & _ & _ & C).
      cbn [mdat_lazy StartPos] in *. rewrite C. cbn [rbind]. rewrite !N2Z.id. subst sz. rewrite <- E2. reflexivity.
  - intros Hpl. cbn [encode_top_splice]. rewrite E3. cbn [rbind]. rewrite P2, A2.
    replace (plen =? 0) with false by lia.
    assert (Hv : valid_range pos large plen (Z.of_N (pos + hdr_len large)) (Z.of_N plen) = true)
      by (unfold valid_range; lia).
    destruct (read_equal file pos large plen _ _ zeof (orcs pos) Hbox Hv) as (_ & _ & C & _).
    cbn [mdat_mem StartPos] in *. rewrite C. cbn [rbind]. rewrite !N2Z.id. reflexivity.
Qed.

(* File.Encode of the in-memory decoding reproduces the file; of the lazy decoding it writes the file with
   every mdat payload left out; the writer pattern on the lazy decoding reproduces the file *)
Lemma file_encode_at file zeof orcs : lenN file < 9223372036854775808 -> forall bs pos,
  layout_at file pos bs = true ->
  encode_tops file (views false file pos bs) = Ok (sub file pos (lenN file - pos))
  /\ encode_tops file (views true file pos bs) = Ok (elide file pos bs)
  /\ encode_tops_splice file zeof orcs (views true file pos bs) = Ok (sub file pos (lenN file - pos)).
Proof.
  intros Hfl. induction bs as [|b t IH]; intros pos Hl.
  - cbn [layout_at] in Hl. apply N.eqb_eq in Hl. subst pos. rewrite N.sub_diag, sub_0. cbn. auto.
  - destruct (layout_head file pos b t Hl) as (Hh & Hb & Ht & Hsz).
    destruct (IH _ Ht) as (I1 & I2 & I3).
    cbn [views encode_tops encode_tops_splice elide].
    replace (pos + (hdr_len (blarge b) + bplen b)) with (pos + hdr_len (blarge b) + bplen b) by lia.
    rewrite I1, I2, I3.
    assert (R : sub file pos (hdr_len (blarge b) + bplen b)
                ++ sub file (pos + hdr_len (blarge b) + bplen b) (lenN file - (pos + hdr_len (blarge b) + bplen b))
                = sub file pos (lenN file - pos)).
    { rewrite <- N.add_assoc. apply sub_rest. lia. }
    destruct (eqb_list (bname b) name_mdat) eqn:En.
    + pose proof (header_at_mdat _ _ _ _ _ Hh En) as Hm.
      destruct (enc_mdat_ok file zeof orcs pos (blarge b) (bplen b) Hb Hfl Hsz Hm) as (E1 & E2 & E3 & _).
      rewrite E1, E2, E3. cbn [rbind]. rewrite R. auto.
    + cbn [encode_top encode_top_splice rbind]. rewrite R. auto.
Qed.

Lemma file_encode file zeof orcs bs : lenN file < 9223372036854775808 ->
  layout_at file 0 bs = true ->
  encode_tops file (views false file 0 bs) = Ok file
  /\ encode_tops file (views true file 0 bs) = Ok (elide file 0 bs)
  /\ encode_tops_splice file zeof orcs (views true file 0 bs) = Ok file.
Proof.
  intros Hfl Hl. destruct (file_encode_at file zeof orcs Hfl bs 0 Hl) as (A & B & C).
  assert (E : sub file 0 (lenN file - 0) = file).
  { unfold sub, lenN. rewrite N.sub_0_r, Nat2N.id. cbn [N.to_nat skipn]. apply firstn_all. }
  rewrite E in A, C. auto.
Qed.

(* ------------------------------------------------------------------ the lazy writer *)
(* An mdat box prepared for `lenN p` bytes written separately: Encode writes a canonical header announcing
   exactly that payload (16-byte header iff the payload does not fit 32 bits), so header ++ p is a well-formed
   mdat box of the announced size with payload p - whatever p is (CopySampleData's output, see
   C08_copy_samples, when lazyDataSize was accumulated from the same sample sizes). *)
Lemma lazy_writer p sp : lenN p < 9223372036854775792 ->
  let large := 4294967296 - 1 - 8 <? lenN p in
  exists h, mdat_encode (mdat_for_writing sp (lenN p)) = Ok h
    /\ lenN h = hdr_len large
    /\ header_at (h ++ p) 0 large (lenN p) = true
    /\ box_in_file (h ++ p) 0 large (lenN p) = true
    /\ lenN (h ++ p) = hdr_len large + lenN p
    /\ sub (h ++ p) (hdr_len large) (lenN p) = p.
Proof.
  intros Hp large. unfold mdat_encode, mdat_for_writing, mdat_size. cbn [lazyDataSize Data LargeSize orb].
  change (lenN (@nil N)) with 0.
  replace (if 0 <? lenN p then lenN p else 0) with (lenN p) by (destruct (0 <? lenN p) eqn:E; lia).
  unfold maxNormalPayloadSize. fold large.
  assert (Hu : u64 (8 + lenN p + (if large then 8 else 0)) = hdr_len large + lenN p).
  { unfold u64. destruct large; cbn [hdr_len]; rewrite N.mod_small by lia; lia. }
  rewrite Hu. unfold encode_header_with_size.
  assert (Hcase : (large = true) \/ (large = false /\ 8 + lenN p < 4294967296)).
  { subst large. destruct (4294967296 - 1 - 8 <? lenN p) eqn:E; [left; reflexivity|right; split; [reflexivity|lia]]. }
  assert (Hsubp : forall h : list N, sub (h ++ p) (lenN h) (lenN p) = p).
  { intros h. unfold sub, lenN. rewrite !Nat2N.id. rewrite skipn_app, skipn_all, Nat.sub_diag. cbn [app skipn].
    apply firstn_all. }
  assert (Hsubh : forall h : list N, sub (h ++ p) 0 (lenN h) = h).
  { intros h. unfold sub, lenN. rewrite !Nat2N.id. cbn [N.to_nat skipn]. rewrite firstn_app, Nat.sub_diag.
    cbn [firstn]. rewrite app_nil_r. apply firstn_all. }
  destruct Hcase as [Hc|[Hc Hs]]; rewrite Hc in *; cbn [negb andb hdr_len] in *.
  - eexists. split; [cbn [rbind]; rewrite app_nil_r; reflexivity|].
    set (h := be32 1 ++ name_mdat ++ be64 (16 + lenN p)).
    assert (Hlh : lenN h = 16) by reflexivity.
    split; [exact Hlh|]. split.
    + unfold header_at. cbn [orb hdr_len]. rewrite andb_true_r. rewrite <- Hlh, Hsubh.
      unfold canonical_header. subst h. clear. induction (be32 1 ++ name_mdat ++ be64 (16 + lenN p)) as [|x l IH];
        [reflexivity|]. cbn [eqb_list]. rewrite N.eqb_refl. exact IH.
    + split; [unfold box_in_file; rewrite lenN_app, Hlh; cbn [hdr_len]; lia|].
      split; [rewrite lenN_app, Hlh; reflexivity|]. rewrite <- Hlh. apply Hsubp.
  - replace (4294967296 <=? 8 + lenN p) with false by lia.
    eexists. split; [cbn [rbind]; rewrite app_nil_r; reflexivity|].
    set (h := be32 (u32 (8 + lenN p)) ++ name_mdat).
    assert (Hlh : lenN h = 8) by reflexivity.
    split; [exact Hlh|]. split.
    + unfold header_at. cbn [orb hdr_len]. replace (8 + lenN p <? 4294967296) with true by lia.
      rewrite andb_true_r. rewrite <- Hlh, Hsubh.
      unfold canonical_header. subst h. unfold u32. rewrite N.mod_small by lia.
      clear. induction (be32 (8 + lenN p) ++ name_mdat) as [|x l IH];
        [reflexivity|]. cbn [eqb_list]. rewrite N.eqb_refl. exact IH.
    + split; [unfold box_in_file; rewrite lenN_app, Hlh; cbn [hdr_len]; lia|].
      split; [rewrite lenN_app, Hlh; reflexivity|]. rewrite <- Hlh. apply Hsubp.
Qed.
