(* C08CopyProofs.v — File.CopySampleData: in both modes the bytes written are the concatenation of
   the bytes of samples a..b (loop invariant: written ++ workSpace[0..workPos) = prefix). *)
From V.lib Require Import Base.
From V.c08 Require Import C08Model C08Spec C08ReadProofs.

(* ------------------------------------------------------------------ seqN / sizes *)
Lemma seqN_app from j k : seqN from (j + k) = seqN from j ++ seqN (from + N.of_nat j) k.
Proof.
  revert from. induction j as [|j IH]; intros from.
  - cbn [Nat.add seqN app]. now rewrite N.add_0_r.
  - cbn [Nat.add seqN app]. rewrite IH.
    replace (from + 1 + N.of_nat j) with (from + N.of_nat (S j)) by lia. reflexivity.
Qed.

Lemma sizes_from_app tb from j k :
  sizes_from tb from (j + k) = sizes_from tb from j ++ sizes_from tb (from + N.of_nat j) k.
Proof. unfold sizes_from. now rewrite seqN_app, map_app. Qed.

Lemma sum_sizes_split tb from j k :
  sumN (sizes_from tb from (j + k))
  = sumN (sizes_from tb from j) + sumN (sizes_from tb (from + N.of_nat j) k).
Proof. now rewrite sizes_from_app, sumN_app. Qed.

Lemma get_sample_size_ok tb i : 1 <= i -> get_sample_size tb i = Ok (size_of tb i).
Proof.
  intros H. unfold get_sample_size, size_of.
  destruct (lenN (sample_sizes tb) <? i); [reflexivity|].
  replace (i =? 0) with false by lia. reflexivity.
Qed.

Lemma sum_sizes_ok tb : forall count from,
  1 <= from -> sum_sizes tb from count = Ok (sumN (sizes_from tb from count)).
Proof.
  induction count as [|c IH]; intros from H; [reflexivity|].
  cbn [sum_sizes]. rewrite get_sample_size_ok by exact H. cbn [rbind].
  rewrite IH by lia. reflexivity.
Qed.

(* ------------------------------------------------------------------ the table part of one iteration *)
(* s0 / e: first and last sample copied from chunk c *)
Definition seg_first (c : chunk) (first : bool) (a : N) : N := if first then a else cstart c.
Definition seg_last (c : chunk) (last : bool) (b : N) : N := if last then b else cstart c + cn c - 1.

Lemma chunk_seg_ok tb c first last a b pstart pend :
  chunk_in_payload tb pstart pend c = true ->
  pend < 9223372036854775808 ->
  1 <= cstart c ->
  cstart c <= seg_first c first a ->
  seg_first c first a <= seg_last c last b + 1 ->
  seg_last c last b + 1 <= cstart c + cn c ->
  (last = false -> cstart c + cn c <= 4294967296) ->
  chunk_seg tb c first last a b
  = Ok (chunk_offset_of tb c + sumN (sizes_from tb (cstart c) (N.to_nat (seg_first c first a - cstart c))),
        sumN (sizes_from tb (seg_first c first a) (N.to_nat (seg_last c last b + 1 - seg_first c first a)))).
Proof.
  unfold chunk_in_payload. intros Hp Hpend Hf H1 H2 H3 H4.
  unfold chunk_seg, get_chunk_offset. fold (chunk_offset_of tb c).
  replace ((cnr c =? 0) || (lenN (chunk_offsets tb) <? cnr c)) with false by lia.
  set (off := chunk_offset_of tb c) in *.
  set (f := cstart c) in *. set (n := cn c) in *.
  assert (Htot : off + sumN (sizes_from tb f (N.to_nat n)) <= pend) by lia.
  assert (Hu32 : last = false -> u32 (f + n + 4294967295) = f + n - 1).
  { intros ->. specialize (H4 eq_refl). unfold seg_last in H2, H3. fold f n in H2, H3. unfold u32.
    replace (f + n + 4294967295) with (f + n - 1 + 1 * 4294967296) by lia.
    rewrite N.mod_add by lia. apply N.mod_small. lia. }
  (* the skipped prefix is part of the chunk *)
  assert (Hpre : forall k, f <= k -> k <= f + n ->
            sumN (sizes_from tb f (N.to_nat (k - f))) <= sumN (sizes_from tb f (N.to_nat n))).
  { intros k Hk1 Hk2. replace (N.to_nat n) with (N.to_nat (k - f) + N.to_nat (f + n - k))%nat by lia.
    rewrite sum_sizes_split. lia. }
  destruct first; cbn [seg_first] in *.
  - rewrite sum_sizes_ok by exact Hf. cbn [rbind].
    assert (Hs : sumN (sizes_from tb f (N.to_nat (a - f))) <= sumN (sizes_from tb f (N.to_nat n)))
      by (apply Hpre; unfold seg_last in *; destruct last; lia).
    unfold u64. rewrite N.mod_small by lia.
    rewrite sum_sizes_ok by lia. cbn [rbind].
    destruct last; cbn [seg_last] in *; [reflexivity|].
    rewrite Hu32 by reflexivity. fold f n. reflexivity.
  - cbn [rbind]. rewrite sum_sizes_ok by exact Hf. cbn [rbind].
    rewrite N.sub_diag. cbn [N.to_nat sizes_from seqN map sumN]. rewrite N.add_0_r.
    destruct last; cbn [seg_last] in *; [reflexivity|].
    rewrite Hu32 by reflexivity. fold f n. reflexivity.
Qed.

(* ------------------------------------------------------------------ spec side: one chunk *)
Lemma concat_map_nil {A B} (l : list A) (g : A -> list B) :
  (forall x, In x l -> g x = []) -> concat (map g l) = [].
Proof.
  induction l as [|x t IH]; intros H; [reflexivity|].
  cbn [map concat]. rewrite H by (left; reflexivity). rewrite IH; [reflexivity|].
  intros y Hy. apply H. right. exact Hy.
Qed.

Lemma in_seqN k from count : In k (seqN from count) -> from <= k < from + N.of_nat count.
Proof.
  revert from. induction count as [|c IH]; intros from H; [destruct H|].
  cbn [seqN] in H. destruct H as [<- | H]; [lia|]. apply IH in H. lia.
Qed.

Lemma concat_map_ext_in {A B} (l : list A) (g h : A -> list B) :
  (forall x, In x l -> g x = h x) -> concat (map g l) = concat (map h l).
Proof. intros H. f_equal. apply map_ext_in. exact H. Qed.

(* consecutive samples of a chunk are adjacent in the file *)
Lemma chunk_mid file tb c : forall m k0,
  cstart c <= k0 ->
  concat (map (sample_bytes file tb c) (seqN k0 m))
  = sub file (sample_offset tb c k0) (sumN (sizes_from tb k0 m)).
Proof.
  induction m as [|m IH]; intros k0 Hk; [reflexivity|].
  cbn [seqN map concat sizes_from sumN]. rewrite IH by lia.
  unfold sample_bytes at 1.
  replace (sample_offset tb c (k0 + 1)) with (sample_offset tb c k0 + size_of tb k0).
  - fold (sizes_from tb (k0 + 1) m). apply sub_app.
  - unfold sample_offset.
    replace (N.to_nat (k0 + 1 - cstart c)) with (N.to_nat (k0 - cstart c) + 1)%nat by lia.
    rewrite sum_sizes_split. cbn [sizes_from seqN map sumN].
    replace (cstart c + N.of_nat (N.to_nat (k0 - cstart c))) with k0 by lia. lia.
Qed.

Lemma chunk_expected_eq file tb a b c s0 e :
  cstart c <= s0 -> s0 <= e + 1 -> e + 1 <= cstart c + cn c ->
  (forall k, cstart c <= k < cstart c + cn c -> ((a <=? k) && (k <=? b) = true <-> s0 <= k <= e)) ->
  chunk_expected file tb a b c
  = sub file (sample_offset tb c s0) (sumN (sizes_from tb s0 (N.to_nat (e + 1 - s0)))).
Proof.
  intros H1 H2 H3 Hin. unfold chunk_expected.
  replace (N.to_nat (cn c))
    with (N.to_nat (s0 - cstart c) + (N.to_nat (e + 1 - s0) + N.to_nat (cstart c + cn c - (e + 1))))%nat by lia.
  rewrite !seqN_app, !map_app, !concat_app.
  replace (cstart c + N.of_nat (N.to_nat (s0 - cstart c))) with s0 by lia.
  replace (s0 + N.of_nat (N.to_nat (e + 1 - s0))) with (e + 1) by lia.
  rewrite concat_map_nil.
  2:{ intros k Hk. apply in_seqN in Hk.
      destruct ((a <=? k) && (k <=? b)) eqn:E; [|reflexivity].
      apply Hin in E; lia. }
  rewrite (concat_map_nil (seqN (e + 1) _)).
  2:{ intros k Hk. apply in_seqN in Hk.
      destruct ((a <=? k) && (k <=? b)) eqn:E; [|reflexivity].
      apply Hin in E; lia. }
  rewrite app_nil_r. cbn [app].
  rewrite (concat_map_ext_in _ _ (sample_bytes file tb c)).
  2:{ intros k Hk. apply in_seqN in Hk.
      destruct ((a <=? k) && (k <=? b)) eqn:E; [reflexivity|].
      assert (Hk' : (a <=? k) && (k <=? b) = true) by (apply Hin; lia). congruence. }
  apply chunk_mid. exact H1.
Qed.

(* ------------------------------------------------------------------ the work buffer *)
Lemma buf_write_length buf pos d :
  (N.to_nat pos + length d <= length buf)%nat -> length (buf_write buf pos d) = length buf.
Proof.
  intros H. unfold buf_write. rewrite !app_length, firstn_length, skipn_length. lia.
Qed.

Lemma buf_write_firstn buf pos d :
  (N.to_nat pos <= length buf)%nat ->
  firstn (N.to_nat pos + length d) (buf_write buf pos d) = firstn (N.to_nat pos) buf ++ d.
Proof.
  intros H. unfold buf_write. rewrite app_assoc.
  rewrite firstn_app.
  replace (N.to_nat pos + length d - length (firstn (N.to_nat pos) buf ++ d))%nat with 0%nat
    by (rewrite app_length, firstn_length; lia).
  cbn [firstn]. rewrite app_nil_r. apply firstn_all2.
  rewrite app_length, firstn_length. lia.
Qed.

Lemma buf_write_nil buf pos : buf_write buf pos [] = buf.
Proof. unfold buf_write. cbn [app length]. rewrite Nat.add_0_r. apply firstn_skipn. Qed.

(* what has logically been written: w's content plus the pending part of the work buffer *)
Definition flushed (st : mstate) : list N := ms_out st ++ firstn (N.to_nat (ms_pos st)) (ms_buf st).

Definition inv (workLen : N) (st : mstate) : Prop :=
  ms_pos st <= workLen /\ lenN (ms_buf st) = workLen.

Lemma rs_read_zero file zeof r :
  rpos r < lenN file -> rs_read file zeof r 0 = ([], false, r).
Proof.
  intros H. unfold rs_read. change (0 =? 0) with true. cbn [andb].
  destruct zeof; cbn [negb]; [|reflexivity].
  replace (lenN file <=? rpos r) with false by lia. reflexivity.
Qed.

Lemma work_loop_ok file zeof workLen : 0 < workLen -> forall fuel st nrLeft,
  inv workLen st ->
  rpos (ms_rs st) + nrLeft <= lenN file ->
  (2 * N.to_nat nrLeft + (if (ms_pos st =? workLen)%N then 1 else 0) < fuel)%nat ->
  exists st', work_loop true fuel file zeof workLen st nrLeft = Ok st'
              /\ inv workLen st'
              /\ flushed st' = flushed st ++ sub file (rpos (ms_rs st)) nrLeft.
Proof.
  intros Hw. induction fuel as [|f IH]; intros st nrLeft [Hpos Hlen] Hin Hf; [lia|].
  cbn [work_loop andb].
  destruct (nrLeft =? 0) eqn:E0.
  { apply N.eqb_eq in E0. subst nrLeft. exists st. split; [reflexivity|]. split; [now split|].
    rewrite sub_0, app_nil_r. reflexivity. }
  apply N.eqb_neq in E0.
  destruct st as [r buf pos out]. cbn [ms_rs ms_buf ms_pos ms_out] in *.
  set (endp := N.min workLen (pos + nrLeft)).
  assert (Hend : pos <= endp /\ endp <= workLen /\ endp <= pos + nrLeft) by (unfold endp; lia).
  replace (endp <? pos) with false by lia.
  destruct (N.eq_dec pos workLen) as [Hfull | Hnfull].
  - (* the buffer is exactly full: zero-length read, flush *)
    replace (endp - pos) with 0 by lia.
    rewrite rs_read_zero by lia.
    change (lenN (@nil N)) with 0. rewrite buf_write_nil, N.sub_0_r, N.add_0_r.
    replace (nrLeft =? 0) with false by lia.
    replace (pos =? workLen) with true by lia.
    destruct (IH (mkMS r buf 0 (out ++ buf)) nrLeft) as (st' & H1 & H2 & H3).
    + split; cbn [ms_pos ms_buf]; [lia|exact Hlen].
    + exact Hin.
    + cbn [ms_pos]. replace (0 =? workLen) with false by lia.
      replace (pos =? workLen) with true in Hf by lia. lia.
    + exists st'. split; [exact H1|]. split; [exact H2|].
      rewrite H3. unfold flushed. cbn [ms_out ms_pos ms_buf ms_rs N.to_nat firstn].
      rewrite app_nil_r. f_equal. f_equal. symmetry. apply firstn_all2.
      unfold lenN in Hlen. lia.
  - (* a real read of 1..(endp - pos) bytes *)
    destruct (rs_read_ok file zeof r (endp - pos)) as (k & orc1 & Hr & Hk1 & Hk2 & Hk3); [lia|lia|].
    rewrite Hr. rewrite sub_length by lia.
    set (d := sub file (rpos r) k).
    assert (Hd : length d = N.to_nat k).
    { assert (L := sub_length file (rpos r) k Hk3). unfold lenN in L. fold d in L. lia. }
    assert (Hlen' : lenN (buf_write buf pos d) = workLen).
    { unfold lenN in *. rewrite buf_write_length; lia. }
    assert (Hfl : firstn (N.to_nat (pos + k)) (buf_write buf pos d) = firstn (N.to_nat pos) buf ++ d).
    { replace (N.to_nat (pos + k)) with (N.to_nat pos + length d)%nat by lia.
      apply buf_write_firstn. unfold lenN in Hlen. lia. }
    destruct (nrLeft - k =? 0) eqn:E1.
    + apply N.eqb_eq in E1. assert (k = nrLeft) by lia. subst k.
      eexists. split; [reflexivity|]. split; [split; cbn [ms_pos ms_buf]; [lia|exact Hlen']|].
      unfold flushed. cbn [ms_out ms_pos ms_buf ms_rs]. rewrite Hfl. now rewrite app_assoc.
    + apply N.eqb_neq in E1.
      destruct (pos + k =? workLen) eqn:E2.
      * apply N.eqb_eq in E2.
        destruct (IH (mkMS (mkRS (rpos r + k) orc1) (buf_write buf pos d) 0 (out ++ buf_write buf pos d))
                     (nrLeft - k)) as (st' & H1 & H2 & H3).
        -- split; cbn [ms_pos ms_buf]; [lia|exact Hlen'].
        -- cbn [ms_rs rpos]. lia.
        -- cbn [ms_pos]. replace (0 =? workLen) with false by lia. lia.
        -- exists st'. split; [exact H1|]. split; [exact H2|].
           rewrite H3. unfold flushed. cbn [ms_out ms_pos ms_buf ms_rs rpos N.to_nat firstn].
           rewrite app_nil_r.
           assert (Hall : buf_write buf pos d = firstn (N.to_nat pos) buf ++ d).
           { rewrite <- Hfl. symmetry. apply firstn_all2. unfold lenN in Hlen'. lia. }
           rewrite Hall. rewrite <- !app_assoc. f_equal. f_equal.
           fold d. unfold d. rewrite sub_app. f_equal. lia.
      * apply N.eqb_neq in E2.
        destruct (IH (mkMS (mkRS (rpos r + k) orc1) (buf_write buf pos d) (pos + k) out)
                     (nrLeft - k)) as (st' & H1 & H2 & H3).
        -- split; cbn [ms_pos ms_buf]; [lia|exact Hlen'].
        -- cbn [ms_rs rpos]. lia.
        -- cbn [ms_pos]. replace (pos + k =? workLen) with false by lia. lia.
        -- exists st'. split; [exact H1|]. split; [exact H2|].
           rewrite H3. unfold flushed. cbn [ms_out ms_pos ms_buf ms_rs rpos].
           rewrite Hfl. rewrite <- !app_assoc. f_equal. f_equal.
           unfold d. rewrite sub_app. f_equal. lia.
Qed.

(* ------------------------------------------------------------------ the data part of one iteration *)
Lemma move_seg_lazy_ok file zeof startPos large payloadLen workLen st off size :
  0 < payloadLen -> lenN file < 9223372036854775808 ->
  inv workLen st -> off + size <= lenN file ->
  exists st', move_seg true file zeof (mdat_lazy startPos large payloadLen) workLen (off, size) st = Ok st'
              /\ inv workLen st' /\ flushed st' = flushed st ++ sub file off size.
Proof.
  intros Hpl Hfl [Hpos Hlen] Hin. unfold move_seg, is_lazy, mdat_lazy. cbn [lazyDataSize].
  replace (0 <? payloadLen) with true by lia.
  unfold i64n. replace (off <? 9223372036854775808) with true by lia.
  unfold rs_seek_start. replace (Z.of_N off <? 0)%Z with false by lia. cbn [rbind].
  rewrite N2Z.id.
  destruct (workLen =? 0) eqn:E.
  - apply N.eqb_eq in E.
    destruct (copy_n_ok file zeof (mkRS off (rorc (ms_rs st))) (Z.of_N size)) as (o' & Hc);
      [lia|cbn [rpos]; lia|].
    rewrite Hc. cbn [rbind]. rewrite N2Z.id. cbn [rpos].
    eexists. split; [reflexivity|]. split; [split; cbn [ms_pos ms_buf]; assumption|].
    unfold flushed. cbn [ms_out ms_pos ms_buf].
    replace (ms_pos st) with 0 by lia. cbn [N.to_nat firstn]. now rewrite !app_nil_r.
  - apply N.eqb_neq in E.
    destruct (work_loop_ok file zeof workLen ltac:(lia) (S (S (2 * N.to_nat size)))
                (mkMS (mkRS off (rorc (ms_rs st))) (ms_buf st) (ms_pos st) (ms_out st)) size)
      as (st' & H1 & H2 & H3).
    + split; cbn [ms_pos ms_buf]; assumption.
    + cbn [ms_rs rpos]. exact Hin.
    + cbn [ms_pos]. destruct (ms_pos st =? workLen); lia.
    + exists st'. split; [exact H1|]. split; [exact H2|]. rewrite H3. reflexivity.
Qed.

Lemma move_seg_mem_ok file zeof startPos large payloadLen workLen st off size :
  box_in_file file startPos large payloadLen = true ->
  ms_pos st = 0 ->
  startPos + hdr_len large <= off -> off + size <= startPos + hdr_len large + payloadLen ->
  exists st', move_seg true file zeof (mdat_mem file startPos large payloadLen) workLen (off, size) st = Ok st'
              /\ ms_pos st' = 0 /\ flushed st' = flushed st ++ sub file off size.
Proof.
  unfold box_in_file. intros Hb Hp H1 H2.
  unfold move_seg, is_lazy, mdat_mem, payload_abs_offset, header_size.
  cbn [lazyDataSize StartPos LargeSize Data]. fold (hdr_len large).
  assert (Hh : hdr_len large = 8 \/ hdr_len large = 16) by (destruct large; cbn; lia).
  change (0 <? 0) with false. cbn match.
  set (ps := startPos + hdr_len large) in *.
  replace (u64 ps) with ps by (unfold u64; rewrite N.mod_small; lia).
  replace (u64z (Z.of_N off - Z.of_N ps)) with (off - ps)
    by (unfold u64z, two64; rewrite Z.mod_small by lia; lia).
  replace (u64 (off - ps + size)) with (off - ps + size) by (unfold u64; rewrite N.mod_small; lia).
  rewrite sub_length by lia.
  replace ((off - ps + size <? off - ps) || (payloadLen <? off - ps + size)) with false by lia.
  eexists. split; [reflexivity|]. split; [exact Hp|].
  unfold flushed. cbn [ms_out ms_pos ms_buf]. rewrite Hp. cbn [N.to_nat firstn]. rewrite !app_nil_r.
  f_equal. rewrite sub_sub by lia. f_equal; lia.
Qed.

(* ------------------------------------------------------------------ the chunk loop *)
Lemma run_ok_start b : forall chunks c rest, chunks = c :: rest -> run_ok b chunks = true -> cstart c <= b.
Proof.
  induction chunks as [|c0 t IH]; intros c rest E H; [discriminate|].
  injection E as -> ->. cbn [run_ok] in H. destruct rest as [|c' rest'].
  - lia.
  - apply andb_true_iff in H. destruct H as [H1 H2].
    specialize (IH c' rest' eq_refl H2). lia.
Qed.

Section ChunkLoop.
  Variables (file : list N) (zeof : bool) (m : mdat) (tb : stbl) (workLen a b ps pe : N).
  Variable P : mstate -> Prop.
  Hypothesis Hpe : pe < 9223372036854775808.
  Hypothesis Hab : a <= b.
  Hypothesis Hb32 : b < 4294967295.
  Hypothesis move_ok : forall st off size, P st -> ps <= off -> off + size <= pe ->
    exists st', move_seg true file zeof m workLen (off, size) st = Ok st'
                /\ P st' /\ flushed st' = flushed st ++ sub file off size.

  Lemma chunks_loop_ok : forall (chunks : list chunk) (first : bool) (st : mstate),
    P st ->
    run_ok b chunks = true ->
    forallb (chunk_in_payload tb ps pe) chunks = true ->
    match chunks with
    | c :: _ => 1 <= cstart c /\ (if first then cstart c <= a /\ a < cstart c + cn c else a <= cstart c)
    | [] => True
    end ->
    exists st', chunks_loop true file zeof m tb workLen a b chunks first st = Ok st'
                /\ P st' /\ flushed st' = flushed st ++ expected_samples file tb chunks a b.
  Proof.
    induction chunks as [|c rest IH]; intros first st HP Hrun Hpay Hfirst; [discriminate|].
    cbn [forallb] in Hpay. apply andb_true_iff in Hpay. destruct Hpay as [Hpc Hprest].
    destruct Hfirst as [Hf1 Hfa].
    set (last := match rest with [] => true | _ :: _ => false end).
    assert (Hlast : if last then cstart c <= b /\ b < cstart c + cn c
                    else cstart c + cn c <= b /\ exists c' r', rest = c' :: r' /\ cstart c' = cstart c + cn c
                                                               /\ run_ok b rest = true).
    { cbn [run_ok] in Hrun. unfold last. destruct rest as [|c' r'].
      - lia.
      - apply andb_true_iff in Hrun. destruct Hrun as [E Hr]. apply N.eqb_eq in E.
        pose proof (run_ok_start b (c' :: r') c' r' eq_refl Hr). split; [lia|].
        exists c', r'. repeat split; assumption. }
    assert (A1 : cstart c <= seg_first c first a) by (unfold seg_first; destruct first; lia).
    assert (A2 : seg_first c first a <= seg_last c last b + 1).
    { unfold seg_first, seg_last. destruct first, last; lia. }
    assert (A3 : seg_last c last b + 1 <= cstart c + cn c).
    { unfold seg_last. destruct last; lia. }
    assert (A4 : last = false -> cstart c + cn c <= 4294967296).
    { intros E. rewrite E in Hlast. lia. }
    cbn [chunks_loop]. fold last.
    rewrite (chunk_seg_ok tb c first last a b ps pe Hpc Hpe Hf1 A1 A2 A3 A4). cbn [rbind].
    (* the segment lies inside the payload *)
    set (s0 := seg_first c first a) in *. set (e := seg_last c last b) in *.
    assert (Hsplit : sumN (sizes_from tb (cstart c) (N.to_nat (cn c)))
                     = sumN (sizes_from tb (cstart c) (N.to_nat (s0 - cstart c)))
                       + sumN (sizes_from tb s0 (N.to_nat (e + 1 - s0)))
                       + sumN (sizes_from tb (e + 1) (N.to_nat (cstart c + cn c - (e + 1))))).
    { replace (N.to_nat (cn c))
        with (N.to_nat (s0 - cstart c) + (N.to_nat (e + 1 - s0) + N.to_nat (cstart c + cn c - (e + 1))))%nat by lia.
      rewrite !sum_sizes_split.
      replace (cstart c + N.of_nat (N.to_nat (s0 - cstart c))) with s0 by lia.
      replace (s0 + N.of_nat (N.to_nat (e + 1 - s0))) with (e + 1) by lia. lia. }
    unfold chunk_in_payload in Hpc.
    destruct (move_ok st (chunk_offset_of tb c + sumN (sizes_from tb (cstart c) (N.to_nat (s0 - cstart c))))
                      (sumN (sizes_from tb s0 (N.to_nat (e + 1 - s0)))) HP) as (st1 & M1 & M2 & M3); [lia|lia|].
    rewrite M1. cbn [rbind].
    assert (Hexp : chunk_expected file tb a b c
                   = sub file (chunk_offset_of tb c + sumN (sizes_from tb (cstart c) (N.to_nat (s0 - cstart c))))
                         (sumN (sizes_from tb s0 (N.to_nat (e + 1 - s0))))).
    { rewrite (chunk_expected_eq file tb a b c s0 e A1 A2 A3); [reflexivity|].
      intros k Hk. unfold s0, e, seg_first, seg_last. destruct first, last; lia. }
    unfold expected_samples. cbn [map concat]. rewrite Hexp.
    destruct rest as [|c' r'].
    - cbn [chunks_loop map concat]. exists st1. split; [reflexivity|]. split; [exact M2|].
      rewrite M3, app_nil_r. reflexivity.
    - unfold last in Hlast. destruct Hlast as [Hle (c2 & r2 & E & Hc2 & Hr2)].
      injection E as <- <-.
      destruct (IH false st1 M2 Hr2 Hprest) as (st2 & L1 & L2 & L3).
      { split; [lia|]. destruct first; lia. }
      exists st2. split; [exact L1|]. split; [exact L2|].
      rewrite L3, M3. unfold expected_samples. now rewrite <- app_assoc.
  Qed.
End ChunkLoop.

(* ------------------------------------------------------------------ CopySampleData *)

Lemma copy_samples file startPos large payloadLen tb chunks a b ws zeof orc :
  box_in_file file startPos large payloadLen = true ->
  chunks_cover a b chunks = true ->
  chunks_in_payload tb startPos large payloadLen chunks = true ->
  copy_sample_data true file zeof (mdat_mem file startPos large payloadLen) (Some (mkRS 0 orc)) tb chunks a b ws
  = Ok (expected_samples file tb chunks a b)
  /\ copy_sample_data true file zeof (mdat_lazy startPos large payloadLen) (Some (mkRS 0 orc)) tb chunks a b ws
  = Ok (expected_samples file tb chunks a b).
Proof.
  intros Hb Hc Hp. unfold chunks_cover in Hc. unfold chunks_in_payload in Hp.
  assert (Hb' := Hb). unfold box_in_file in Hb'.
  destruct chunks as [|c rest]; [discriminate|].
  assert (Hc1 : 1 <= cstart c /\ cstart c <= a /\ a < cstart c + cn c /\ a <= b /\ b < 4294967295
                /\ run_ok b (c :: rest) = true).
  { repeat (apply andb_true_iff in Hc; destruct Hc as [Hc ?]). repeat split; try lia; assumption. }
  destruct Hc1 as (C1 & C2 & C3 & C4 & C5 & C6).
  set (ps := startPos + hdr_len large) in *.
  assert (Hpe : ps + payloadLen < 9223372036854775808) by lia.
  assert (Hfin : forall st, (if 0 <? ms_pos st then Ok (ms_out st ++ firstn (N.to_nat (ms_pos st)) (ms_buf st))
                             else Ok (ms_out st)) = Ok (flushed st)).
  { intros st. unfold flushed. destruct (0 <? ms_pos st) eqn:E; [reflexivity|].
    replace (ms_pos st) with 0 by lia. cbn [N.to_nat firstn]. now rewrite app_nil_r. }
  assert (Hmem : copy_sample_data true file zeof (mdat_mem file startPos large payloadLen)
                   (Some (mkRS 0 orc)) tb (c :: rest) a b ws = Ok (expected_samples file tb (c :: rest) a b)).
  { unfold copy_sample_data.
    replace (if is_lazy (mdat_mem file startPos large payloadLen) then Some (mkRS 0 orc) else Some (mkRS 0 orc))
      with (Some (mkRS 0 orc)) by (destruct (is_lazy _); reflexivity).
    destruct (chunks_loop_ok file zeof (mdat_mem file startPos large payloadLen) tb (lenN ws) a b ps (ps + payloadLen)
                (fun st => ms_pos st = 0) Hpe C4 C5
                (fun st off size HP H1 H2 =>
                   move_seg_mem_ok file zeof startPos large payloadLen (lenN ws) st off size Hb HP H1 H2)
                (c :: rest) true (mkMS (mkRS 0 orc) ws 0 []) eq_refl C6 Hp)
      as (st' & L1 & L2 & L3); [split; [exact C1|split; assumption]|].
    rewrite L1. cbn [rbind]. rewrite Hfin, L3. reflexivity. }
  split; [exact Hmem|].
  destruct (N.eq_dec payloadLen 0) as [E0 | Hpl].
  - (* an mdat without payload is never lazy: the lazily decoded box is the in-memory box *)
    replace (mdat_lazy startPos large payloadLen) with (mdat_mem file startPos large payloadLen);
      [exact Hmem|].
    unfold mdat_mem, mdat_lazy. subst payloadLen. reflexivity.
  - unfold copy_sample_data.
    replace (is_lazy (mdat_lazy startPos large payloadLen)) with true
      by (unfold is_lazy, mdat_lazy; cbn [lazyDataSize]; lia).
    destruct (chunks_loop_ok file zeof (mdat_lazy startPos large payloadLen) tb (lenN ws) a b ps (ps + payloadLen)
                (inv (lenN ws)) Hpe C4 C5
                (fun st off size HP H1 H2 =>
                   move_seg_lazy_ok file zeof startPos large payloadLen (lenN ws) st off size
                     ltac:(lia) ltac:(lia) HP ltac:(lia))
                (c :: rest) true (mkMS (mkRS 0 orc) ws 0 []))
      as (st' & L1 & L2 & L3).
    + split; cbn [ms_pos ms_buf]; [lia|reflexivity].
    + exact C6.
    + exact Hp.
    + split; [exact C1|split; assumption].
    + rewrite L1. cbn [rbind]. rewrite Hfin, L3. reflexivity.
Qed.

(* the pinned refill loop (`for {`) reads once even when nothing is left *)
Lemma zero_size_at_eof_refuted :
  exists file startPos large payloadLen tb chunks a b ws orc,
    box_in_file file startPos large payloadLen = true /\
    chunks_cover a b chunks = true /\
    chunks_in_payload tb startPos large payloadLen chunks = true /\
    copy_sample_data false file true (mdat_lazy startPos large payloadLen) (Some (mkRS 0 orc)) tb chunks a b ws = Err /\
    copy_sample_data false file true (mdat_mem file startPos large payloadLen) (Some (mkRS 0 orc)) tb chunks a b ws
    = Ok (expected_samples file tb chunks a b).
Proof.
  exists [0;0;0;9;109;100;97;116;7], 0, false, 1, (mkStbl [1;0] 0 [8;9]), [mkChunk 2 2 1], 2, 2, [0], [].
  vm_compute. repeat split; reflexivity.
Qed.
