(* C08ReadProofs.v — ReadData / CopyData: both modes return the file slice on every valid range. *)
From V.lib Require Import Base.
From V.c08 Require Import C08Model C08Spec.

(* ------------------------------------------------------------------ sub *)
Lemma skipn_add {A} (a b : nat) (l : list A) : skipn (a + b) l = skipn b (skipn a l).
Proof.
  revert l. induction a as [|a IH]; intros l; [reflexivity|].
  destruct l as [|x t]; cbn [Nat.add skipn]; [now rewrite skipn_nil|apply IH].
Qed.

Lemma firstn_add {A} (a b : nat) (l : list A) :
  firstn (a + b) l = firstn a l ++ firstn b (skipn a l).
Proof.
  revert l. induction a as [|a IH]; intros l; [reflexivity|].
  destruct l as [|x t]; cbn [Nat.add firstn skipn app]; [now rewrite firstn_nil|].
  now rewrite IH.
Qed.

Lemma sub_app {A} (l : list A) a k j : sub l a k ++ sub l (a + k) j = sub l a (k + j).
Proof.
  unfold sub. rewrite !N2Nat.inj_add, skipn_add, firstn_add. reflexivity.
Qed.

Lemma sub_length {A} (l : list A) a k : a + k <= lenN l -> lenN (sub l a k) = k.
Proof.
  unfold sub, lenN. intros H. rewrite firstn_length, skipn_length. lia.
Qed.

Lemma sub_length_le {A} (l : list A) a k : lenN (sub l a k) <= k.
Proof. unfold sub, lenN. rewrite firstn_length. lia. Qed.

Lemma sub_0 {A} (l : list A) a : sub l a 0 = [].
Proof. reflexivity. Qed.

Lemma firstn_firstn_le {A} (a b : nat) (l : list A) : (a <= b)%nat -> firstn a (firstn b l) = firstn a l.
Proof. intros H. rewrite firstn_firstn. now rewrite Nat.min_l. Qed.

Lemma skipn_firstn_sub {A} (a b : nat) (l : list A) :
  skipn a (firstn b l) = firstn (b - a) (skipn a l).
Proof.
  revert b l. induction a as [|a IH]; intros b l.
  - now rewrite Nat.sub_0_r.
  - destruct b as [|b]; [reflexivity|].
    destruct l as [|x t]; [cbn [firstn skipn]; now rewrite firstn_nil|].
    cbn [firstn skipn Nat.sub]. apply IH.
Qed.

Lemma sub_sub {A} (l : list A) a plen off sz :
  off + sz <= plen -> sub (sub l a plen) off sz = sub l (a + off) sz.
Proof.
  intros H. unfold sub.
  rewrite skipn_firstn_sub, firstn_firstn_le by lia.
  now rewrite N2Nat.inj_add, skipn_add.
Qed.

Lemma sub_all_le {A} (l : list A) a k : lenN l <= a -> sub l a k = [].
Proof.
  unfold sub, lenN. intros H. rewrite skipn_all2 by lia. now rewrite firstn_nil.
Qed.

(* ------------------------------------------------------------------ the reader *)
Lemma rs_read_ok file zeof r want :
  0 < want -> rpos r < lenN file ->
  exists k orc', rs_read file zeof r want = (sub file (rpos r) k, false, mkRS (rpos r + k) orc')
                 /\ 1 <= k /\ k <= want /\ rpos r + k <= lenN file.
Proof.
  intros Hw Hp. unfold rs_read.
  replace (want =? 0) with false by lia. cbn [andb].
  replace (lenN file <=? rpos r) with false by lia.
  destruct (rorc r) as [|o t].
  - exists (N.min want (lenN file - rpos r)), []. split; [reflexivity|lia].
  - exists (N.max 1 (N.min o (N.min want (lenN file - rpos r)))), t. split; [reflexivity|].
    destruct (N.min_spec want (lenN file - rpos r)) as [[? ->] | [? ->]];
    match goal with |- context [N.min o ?x] => destruct (N.min_spec o x) as [[? ->] | [? ->]] end;
    match goal with |- context [N.max 1 ?x] => destruct (N.max_spec 1 x) as [[? ->] | [? ->]] end; lia.
Qed.

Lemma read_full_loop_ok file zeof : forall fuel r left ny,
  rpos r + left <= lenN file -> (N.to_nat left < fuel)%nat ->
  exists orc', read_full_loop fuel file zeof r left ny
               = RfOk (sub file (rpos r) left, mkRS (rpos r + left) orc').
Proof.
  induction fuel as [|f IH]; intros r left ny Hin Hf; [lia|].
  cbn [read_full_loop].
  destruct (left =? 0) eqn:E.
  - apply N.eqb_eq in E. subst left. exists (rorc r). rewrite N.add_0_r. now destruct r.
  - apply N.eqb_neq in E.
    destruct (rs_read_ok file zeof r left) as (k & orc1 & Hr & Hk1 & Hk2 & Hk3); [lia|lia|].
    rewrite Hr. rewrite sub_length by lia.
    destruct (IH (mkRS (rpos r + k) orc1) (left - k) false) as (orc2 & Hrec);
      [cbn [rpos]; lia|lia|].
    rewrite Hrec. cbn [rpos]. exists orc2.
    rewrite sub_app.
    replace (k + (left - k)) with left by lia.
    replace (rpos r + k + (left - k)) with (rpos r + left) by lia. reflexivity.
Qed.

Lemma read_full_ok file zeof r size :
  rpos r + size <= lenN file ->
  exists orc', read_full file zeof r size = RfOk (sub file (rpos r) size, mkRS (rpos r + size) orc').
Proof. intros H. unfold read_full. apply read_full_loop_ok; [exact H|lia]. Qed.

Lemma copy_n_loop_ok file zeof : forall fuel r left,
  rpos r + left <= lenN file -> (N.to_nat left < fuel)%nat ->
  exists orc', copy_n_loop fuel file zeof r left
               = Ok (sub file (rpos r) left, mkRS (rpos r + left) orc').
Proof.
  induction fuel as [|f IH]; intros r left Hin Hf; [lia|].
  cbn [copy_n_loop].
  destruct (left =? 0) eqn:E.
  - apply N.eqb_eq in E. subst left. exists (rorc r). rewrite N.add_0_r. now destruct r.
  - apply N.eqb_neq in E.
    destruct (rs_read_ok file zeof r (N.min 32768 left)) as (k & orc1 & Hr & Hk1 & Hk2 & Hk3); [lia|lia|].
    rewrite Hr. rewrite sub_length by lia.
    destruct (IH (mkRS (rpos r + k) orc1) (left - k)) as (orc2 & Hrec);
      [cbn [rpos]; lia|lia|].
    rewrite Hrec. cbn [rpos rbind]. exists orc2.
    rewrite sub_app.
    replace (k + (left - k)) with left by lia.
    replace (rpos r + k + (left - k)) with (rpos r + left) by lia. reflexivity.
Qed.

Lemma copy_n_ok file zeof r (n : Z) :
  (0 <= n)%Z -> rpos r + Z.to_N n <= lenN file ->
  exists orc', copy_n file zeof r n
               = Ok (sub file (rpos r) (Z.to_N n), mkRS (rpos r + Z.to_N n) orc').
Proof.
  intros Hn H. unfold copy_n.
  destruct (n <=? 0)%Z eqn:E.
  - assert (n = 0%Z) by lia. subst n. exists (rorc r). cbn. rewrite N.add_0_r. now destruct r.
  - apply copy_n_loop_ok; [exact H|lia].
Qed.

Lemma mem_slice_ok strict file startPos large payloadLen start size :
  box_in_file file startPos large payloadLen = true ->
  valid_range startPos large payloadLen start size = true ->
  (strict = true \/ (start + size < Z.of_N (startPos + hdr_len large + payloadLen))%Z) ->
  mem_slice strict (mdat_mem file startPos large payloadLen) start size
  = Ok (sub file (Z.to_N start) (Z.to_N size)).
Proof.
  unfold box_in_file, valid_range. intros Hb Hv Hs.
  unfold mem_slice, payload_abs_offset, header_size, mdat_mem. cbn [StartPos LargeSize Data].
  fold (hdr_len large).
  assert (Hh : hdr_len large = 8 \/ hdr_len large = 16) by (destruct large; cbn; lia).
  set (ps := startPos + hdr_len large) in *.
  assert (Hps : u64 ps = ps) by (unfold u64; apply N.mod_small; lia).
  rewrite Hps.
  assert (Hst : u64z start = Z.to_N start).
  { unfold u64z, two64. rewrite Z.mod_small by lia. reflexivity. }
  assert (Hsz : u64z size = Z.to_N size).
  { unfold u64z, two64. rewrite Z.mod_small by lia. reflexivity. }
  rewrite Hst, Hsz.
  assert (Hoff : u64z (Z.of_N (Z.to_N start) - Z.of_N ps) = Z.to_N start - ps).
  { unfold u64z, two64. rewrite Z.mod_small by lia. lia. }
  rewrite Hoff.
  assert (Hend : u64 (Z.to_N start - ps + Z.to_N size) = Z.to_N start - ps + Z.to_N size).
  { unfold u64. apply N.mod_small. lia. }
  rewrite Hend.
  rewrite sub_length by lia.
  replace (payloadLen <=? Z.to_N start - ps) with false by lia.
  replace (if strict then payloadLen <? Z.to_N start - ps + Z.to_N size
           else payloadLen <=? Z.to_N start - ps + Z.to_N size) with false
    by (destruct Hs as [-> | Hs]; [|destruct strict]; lia).
  cbn [orb].
  replace (Z.to_N start - ps + Z.to_N size <? Z.to_N start - ps) with false by lia.
  replace (payloadLen <? Z.to_N start - ps + Z.to_N size) with false by lia.
  rewrite sub_sub by lia. f_equal. f_equal; lia.
Qed.

(* the full statement, repaired text *)
Lemma read_equal file startPos large payloadLen start size zeof orc :
  box_in_file file startPos large payloadLen = true ->
  valid_range startPos large payloadLen start size = true ->
  let want := Ok (sub file (Z.to_N start) (Z.to_N size)) in
  read_data true file zeof (mdat_mem file startPos large payloadLen) start size (Some (mkRS 0 orc)) = want
  /\ read_data true file zeof (mdat_lazy startPos large payloadLen) start size (Some (mkRS 0 orc)) = want
  /\ copy_data true file zeof (mdat_mem file startPos large payloadLen) start size (Some (mkRS 0 orc)) = want
  /\ copy_data true file zeof (mdat_lazy startPos large payloadLen) start size (Some (mkRS 0 orc)) = want.
Proof.
  intros Hb Hv want.
  pose proof (mem_slice_ok true file startPos large payloadLen start size Hb Hv (or_introl eq_refl)) as Hm.
  unfold box_in_file, valid_range in Hb, Hv.
  assert (Hh : hdr_len large = 8 \/ hdr_len large = 16) by (destruct large; cbn; lia).
  assert (Hpl : 0 < payloadLen) by lia.
  assert (Hin : Z.to_N start + Z.to_N size <= lenN file) by lia.
  split; [|split; [|split]].
  - unfold read_data, mdat_mem. cbn [lazyDataSize]. exact Hm.
  - unfold read_data, mdat_lazy. cbn [lazyDataSize].
    replace (0 <? payloadLen) with true by lia.
    unfold rs_seek_start. replace (start <? 0)%Z with false by lia. cbn [rbind rorc].
    replace (size <? 0)%Z with false by lia.
    destruct (read_full_ok file zeof (mkRS (Z.to_N start) orc) (Z.to_N size)) as (o' & Hr);
      [cbn [rpos]; exact Hin|].
    rewrite Hr. reflexivity.
  - unfold copy_data, mdat_mem. cbn [lazyDataSize]. exact Hm.
  - unfold copy_data, mdat_lazy. cbn [lazyDataSize].
    replace (0 <? payloadLen) with true by lia.
    unfold rs_seek_start. replace (start <? 0)%Z with false by lia. cbn [rbind rorc].
    destruct (copy_n_ok file zeof (mkRS (Z.to_N start) orc) size) as (o' & Hr);
      [lia|cbn [rpos]; exact Hin|].
    rewrite Hr. reflexivity.
Qed.

(* the pinned text: refuted at the last byte, holds strictly inside *)
Lemma last_byte_refuted :
  exists file startPos large payloadLen start size,
    box_in_file file startPos large payloadLen = true /\
    valid_range startPos large payloadLen start size = true /\
    read_data false file false (mdat_mem file startPos large payloadLen) start size None = Err /\
    copy_data false file false (mdat_mem file startPos large payloadLen) start size None = Err /\
    read_data false file false (mdat_lazy startPos large payloadLen) start size (Some (mkRS 0 []))
    = Ok (sub file (Z.to_N start) (Z.to_N size)).
Proof.
  exists [0;0;0;12;109;100;97;116;1;2;3;4], 0, false, 4, 10%Z, 2%Z.
  vm_compute. repeat split; reflexivity.
Qed.

Lemma read_equal_pinned_interior file startPos large payloadLen start size zeof orc :
  box_in_file file startPos large payloadLen = true ->
  valid_range startPos large payloadLen start size = true ->
  (start + size < Z.of_N (startPos + hdr_len large + payloadLen))%Z ->
  read_data false file zeof (mdat_mem file startPos large payloadLen) start size (Some (mkRS 0 orc))
  = Ok (sub file (Z.to_N start) (Z.to_N size))
  /\ copy_data false file zeof (mdat_mem file startPos large payloadLen) start size (Some (mkRS 0 orc))
  = Ok (sub file (Z.to_N start) (Z.to_N size)).
Proof.
  intros Hb Hv Hlt.
  pose proof (mem_slice_ok false file startPos large payloadLen start size Hb Hv (or_intror Hlt)) as Hm.
  split; [unfold read_data|unfold copy_data]; unfold mdat_mem; cbn [lazyDataSize]; exact Hm.
Qed.
