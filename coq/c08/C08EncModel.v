(* C08EncModel.v — File.Encode of a decoded progressive file (and of a fragmented file in EncModeBoxTree):
       for _, b := range f.Children { err := b.Encode(w) ... }
   on the top-level view of C08Model.decode_file_top, in both decode modes, and the "lazy writer" pattern used
   with lazily decoded / lazily sized mdat boxes (mp4ff-crop, examples/segmenter -lazy): Encode the box
   (= its header only), then copy the payload with CopyData / CopySampleData.
   Boxes other than mdat are opaque: their Encode is taken to reproduce the bytes they were decoded from
   (that is properties C01/C02, not C08).  Definitions only. *)
From V.lib Require Import Base.
From V.c08 Require Import C08Model C08Spec C08SelModel.

Definition encode_top (file : list N) (t : topbox) : res (list N) :=
  match t with
  | TBox _ sp size => Ok (sub file sp size)
  | TMdat m _ => mdat_encode m
  end.

Fixpoint encode_tops (file : list N) (ts : list topbox) : res (list N) :=
  match ts with
  | [] => Ok []
  | t :: r => do a <- encode_top file t; do b <- encode_tops file r; Ok (a ++ b)
  end.

(* header, then - when the box has a payload - CopyData(PayloadAbsoluteOffset(), Size()-HeaderSize(), rs, w);
   orcs gives the short-read schedule of the reader for the copy of the box starting at a position *)
Definition encode_top_splice (file : list N) (zeof : bool) (orcs : N -> list N) (t : topbox) : res (list N) :=
  match t with
  | TBox _ sp size => Ok (sub file sp size)
  | TMdat m _ =>
      do h <- mdat_encode m;
      if payload_size m =? 0 then Ok h
      else
        do p <- copy_data true file zeof m (Z.of_N (payload_abs_offset (after_size m))) (Z.of_N (payload_size m))
                          (Some (mkRS 0 (orcs (StartPos m))));
        Ok (h ++ p)
  end.

Fixpoint encode_tops_splice (file : list N) (zeof : bool) (orcs : N -> list N) (ts : list topbox) : res (list N) :=
  match ts with
  | [] => Ok []
  | t :: r => do a <- encode_top_splice file zeof orcs t; do b <- encode_tops_splice file zeof orcs r; Ok (a ++ b)
  end.

(* the file with the payload of every mdat box left out *)
Fixpoint elide (file : list N) (pos : N) (bs : list boxdesc) : list N :=
  match bs with
  | [] => []
  | b :: t =>
      let size := hdr_len (blarge b) + bplen b in
      (if eqb_list (bname b) name_mdat then sub file pos (hdr_len (blarge b)) else sub file pos size)
      ++ elide file (pos + size) t
  end.

(* the mdat box a writer prepares for `total` payload bytes to be written separately
   (Fragment.AddSample / AddSampleToTrack: lazyDataSize += size) *)
Definition mdat_for_writing (startPos total : N) : mdat := mkMdat startPos [] total false.
