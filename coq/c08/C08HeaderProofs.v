(* C08HeaderProofs.v — decoding one mdat box in both modes, and Encode of the lazily decoded box. *)
From V.lib Require Import Base.
From V.c08 Require Import C08Model C08Spec C08ReadProofs.

Lemma eqb_list_eq a b : eqb_list a b = true -> a = b.
Proof.
  revert b. induction a as [|x a IH]; intros [|y b] H; cbn [eqb_list] in H; try discriminate; [reflexivity|].
  apply andb_true_iff in H. destruct H as [H1 H2]. apply N.eqb_eq in H1. subst. f_equal. now apply IH.
Qed.

Lemma get_be32 x : x < 4294967296 -> get_be (be32 x) = x.
Proof. intros H. unfold be32, get_be. cbn [fold_left]. lia. Qed.

Lemma get_be64 x : x < 18446744073709551616 -> get_be (be64 x) = x.
Proof.
  intros H. unfold be64, be32, get_be. cbn [fold_left app].
  set (hi := x / 4294967296). set (lo := x mod 4294967296).
  assert (hi < 4294967296) by (unfold hi; lia).
  assert (lo < 4294967296) by (unfold lo; lia).
  assert (x = hi * 4294967296 + lo) by (unfold hi, lo; lia).
  lia.
Qed.

Lemma sub_split {A} (l : list A) a k j : sub l a (k + j) = sub l a k ++ sub l (a + k) j.
Proof. symmetry. apply sub_app. Qed.

Lemma app_len_inv {A} (a b c d : list A) : a ++ b = c ++ d -> length a = length c -> a = c /\ b = d.
Proof.
  revert c. induction a as [|x a IH]; intros [|y c] H L; cbn in *; try discriminate; [now split|].
  injection H as -> H. destruct (IH c H) as [-> ->]; [lia|now split].
Qed.

Lemma decode_header_ok file zeof startPos large payloadLen orc :
  box_in_file file startPos large payloadLen = true ->
  header_at file startPos large payloadLen = true ->
  exists orc',
    decode_header file zeof (mkRS startPos orc)
    = RfOk (mkHdr name_mdat (hdr_len large + payloadLen) (hdr_len large),
            mkRS (startPos + hdr_len large) orc').
Proof.
  unfold box_in_file, header_at. intros Hb Hh.
  apply andb_true_iff in Hh. destruct Hh as [Hh Hsz]. apply eqb_list_eq in Hh.
  unfold decode_header.
  destruct (read_full_ok file zeof (mkRS startPos orc) 8) as (o1 & H1);
    [cbn [rpos]; destruct large; cbn [hdr_len] in *; lia|].
  rewrite H1. cbn [rpos].
  destruct large; cbn [hdr_len canonical_header] in *.
  - (* 64-bit size *)
    change 16 with (8 + 8) in Hh at 1. rewrite sub_split in Hh.
    change (be32 1 ++ name_mdat ++ be64 (16 + payloadLen))
      with ((be32 1 ++ name_mdat) ++ be64 (16 + payloadLen)) in Hh.
    apply app_len_inv in Hh.
    2:{ change (length (be32 1 ++ name_mdat)) with 8%nat.
        assert (L := sub_length file startPos 8). unfold lenN in *. lia. }
    destruct Hh as [Ha Hb2]. rewrite Ha.
    change (get_be (firstn 4 (be32 1 ++ name_mdat))) with 1.
    change (1 =? 1) with true. cbn match.
    destruct (read_full_ok file zeof (mkRS (startPos + 8) o1) 8) as (o2 & H2); [cbn [rpos]; lia|].
    rewrite H2. cbn [rpos]. rewrite Hb2, get_be64 by lia.
    replace (16 + payloadLen <? 16) with false by lia.
    exists o2. change (skipn 4 (be32 1 ++ name_mdat)) with name_mdat.
    replace (startPos + 8 + 8) with (startPos + 16) by lia. reflexivity.
  - rewrite Hh.
    assert (Hg : get_be (firstn 4 (be32 (8 + payloadLen) ++ name_mdat)) = 8 + payloadLen).
    { change (firstn 4 (be32 (8 + payloadLen) ++ name_mdat)) with (be32 (8 + payloadLen)).
      apply get_be32. cbn [orb] in Hsz. lia. }
    rewrite Hg.
    replace (8 + payloadLen =? 1) with false by lia.
    replace (8 + payloadLen =? 0) with false by lia.
    replace (8 + payloadLen <? 8) with false by lia.
    exists o1. reflexivity.
Qed.

(* both decodings succeed, give the boxes used in C08_read_equal, and leave the reader at the box end *)
Lemma decode_equal file zeof startPos large payloadLen orc :
  box_in_file file startPos large payloadLen = true ->
  header_at file startPos large payloadLen = true ->
  exists o1 o2,
    decode_box_mdat false file zeof startPos (mkRS startPos orc)
    = RfOk (mdat_mem file startPos large payloadLen, mkRS (startPos + hdr_len large + payloadLen) o1)
    /\ decode_box_mdat true file zeof startPos (mkRS startPos orc)
    = RfOk (mdat_lazy startPos large payloadLen, mkRS (startPos + hdr_len large + payloadLen) o2).
Proof.
  intros Hb Hh.
  destruct (decode_header_ok file zeof startPos large payloadLen orc Hb Hh) as (o & Hd).
  unfold box_in_file in Hb.
  assert (Hl : hdr_len large = 8 \/ hdr_len large = 16) by (destruct large; cbn; lia).
  exists o, o. unfold decode_box_mdat. rewrite Hd. split.
  - unfold decode_mdat, read_box_body. cbn [hlen hsize rpos rorc].
    destruct (hdr_len large =? hdr_len large + payloadLen) eqn:E.
    + assert (payloadLen = 0) by lia. subst payloadLen. cbn [rbind].
      unfold mdat_mem. fold (hdr_len large). rewrite sub_0, N.add_0_r.
      replace (8 <? hdr_len large) with large by (destruct large; reflexivity). reflexivity.
    + replace (hdr_len large + payloadLen - hdr_len large) with payloadLen by lia.
      rewrite N.min_l by lia. rewrite sub_length by lia. rewrite N.eqb_refl. cbn [rbind].
      unfold mdat_mem. fold (hdr_len large).
      replace (8 <? hdr_len large) with large by (destruct large; reflexivity). reflexivity.
  - unfold decode_mdat_lazily, rs_seek_cur, i64n. cbn [hlen hsize rpos rorc].
    replace (hdr_len large + payloadLen <? 9223372036854775808) with true by lia.
    replace (Z.of_N (startPos + hdr_len large) + (Z.of_N (hdr_len large + payloadLen) - Z.of_N (hdr_len large)) <? 0)%Z
      with false by lia.
    replace (9223372036854775807 <? Z.of_N (startPos + hdr_len large) + (Z.of_N (hdr_len large + payloadLen) - Z.of_N (hdr_len large)))%Z
      with false by lia.
    cbn [orb].
    unfold mdat_lazy.
    replace (8 <? hdr_len large) with large by (destruct large; reflexivity).
    repeat f_equal; lia.
Qed.

(* Encode of the lazily decoded box writes exactly the header bytes of the original box; Size,
   StartPos, HeaderSize agree between the two boxes *)
Lemma header_plus_payload file startPos large payloadLen :
  box_in_file file startPos large payloadLen = true ->
  header_at file startPos large payloadLen = true ->
  mdat_encode (mdat_lazy startPos large payloadLen) = Ok (sub file startPos (hdr_len large))
  /\ sub file startPos (hdr_len large) ++ sub file (startPos + hdr_len large) payloadLen
     = sub file startPos (hdr_len large + payloadLen)
  /\ mdat_encode (mdat_mem file startPos large payloadLen) = Ok (sub file startPos (hdr_len large + payloadLen))
  /\ mdat_size (mdat_lazy startPos large payloadLen) = (hdr_len large + payloadLen, large)
  /\ mdat_size (mdat_mem file startPos large payloadLen) = (hdr_len large + payloadLen, large).
Proof.
  unfold box_in_file, header_at. intros Hb Hh.
  apply andb_true_iff in Hh. destruct Hh as [Hh Hsz]. apply eqb_list_eq in Hh.
  assert (Hl : hdr_len large = 8 \/ hdr_len large = 16) by (destruct large; cbn; lia).
  assert (S1 : mdat_size (mdat_lazy startPos large payloadLen) = (hdr_len large + payloadLen, large)).
  { unfold mdat_size, mdat_lazy. cbn [lazyDataSize Data LargeSize].
    change (lenN (@nil N)) with 0.
    replace (if 0 <? payloadLen then payloadLen else 0) with payloadLen
      by (destruct (0 <? payloadLen) eqn:E; lia).
    unfold maxNormalPayloadSize, u64.
    destruct large; cbn [orb hdr_len] in *.
    - rewrite N.mod_small by lia. f_equal. lia.
    - replace (4294967296 - 1 - 8 <? payloadLen) with false by lia.
      rewrite N.mod_small by lia. f_equal. lia. }
  assert (S2 : mdat_size (mdat_mem file startPos large payloadLen) = (hdr_len large + payloadLen, large)).
  { unfold mdat_size, mdat_mem. cbn [lazyDataSize Data LargeSize]. fold (hdr_len large).
    change (0 <? 0) with false. cbn match. rewrite sub_length by lia.
    unfold maxNormalPayloadSize, u64.
    destruct large; cbn [orb hdr_len] in *.
    - rewrite N.mod_small by lia. f_equal. lia.
    - replace (4294967296 - 1 - 8 <? payloadLen) with false by lia.
      rewrite N.mod_small by lia. f_equal. lia. }
  assert (E : encode_header_with_size (hdr_len large + payloadLen) large = Ok (sub file startPos (hdr_len large))).
  { rewrite Hh. unfold encode_header_with_size, canonical_header.
    destruct large; cbn [negb andb orb hdr_len] in *.
    - reflexivity.
    - replace (4294967296 <=? 8 + payloadLen) with false by lia.
      unfold u32. rewrite N.mod_small by lia. reflexivity. }
  split; [|split; [|split; [|split]]]; try assumption.
  - unfold mdat_encode. rewrite S1, E. cbn [rbind mdat_lazy Data]. now rewrite app_nil_r.
  - apply sub_app.
  - unfold mdat_encode. rewrite S2, E. cbn [rbind]. unfold mdat_mem. cbn [Data]. fold (hdr_len large).
    f_equal. apply sub_app.
Qed.
