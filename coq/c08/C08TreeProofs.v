(* C08TreeProofs.v — DecodeFile's top-level walk gives the same boxes, sizes and positions in both modes. *)
From V.lib Require Import Base.
From V.c08 Require Import C08Model C08Spec C08ReadProofs C08HeaderProofs.

Lemma decode_header_ok_n file zeof pos name large payloadLen orc :
  pos + hdr_len large + payloadLen <= lenN file -> lenN file < 9223372036854775808 ->
  header_at_n file pos name large payloadLen = true ->
  exists orc',
    decode_header file zeof (mkRS pos orc)
    = RfOk (mkHdr name (hdr_len large + payloadLen) (hdr_len large), mkRS (pos + hdr_len large) orc').
Proof.
  unfold header_at_n. intros Hb Hfl Hh.
  apply andb_true_iff in Hh. destruct Hh as [Hh Hn4].
  apply andb_true_iff in Hh. destruct Hh as [Hh Hsz]. apply eqb_list_eq in Hh.
  apply Nat.eqb_eq in Hn4.
  destruct name as [|n1 [|n2 [|n3 [|n4 [|? ?]]]]]; try discriminate. clear Hn4.
  unfold decode_header.
  destruct (read_full_ok file zeof (mkRS pos orc) 8) as (o1 & H1);
    [cbn [rpos]; destruct large; cbn [hdr_len] in *; lia|].
  rewrite H1. cbn [rpos].
  destruct large; cbn [hdr_len canonical_header_n] in *.
  - change 16 with (8 + 8) in Hh at 1. rewrite sub_split in Hh.
    change (be32 1 ++ [n1; n2; n3; n4] ++ be64 (16 + payloadLen))
      with ((be32 1 ++ [n1; n2; n3; n4]) ++ be64 (16 + payloadLen)) in Hh.
    apply app_len_inv in Hh.
    2:{ change (length (be32 1 ++ [n1; n2; n3; n4])) with 8%nat.
        assert (L := sub_length file pos 8). unfold lenN in *. lia. }
    destruct Hh as [Ha Hb2]. rewrite Ha.
    change (get_be (firstn 4 (be32 1 ++ [n1; n2; n3; n4]))) with 1.
    change (1 =? 1) with true. cbn match.
    destruct (read_full_ok file zeof (mkRS (pos + 8) o1) 8) as (o2 & H2); [cbn [rpos]; lia|].
    rewrite H2. cbn [rpos]. rewrite Hb2, get_be64 by lia.
    replace (16 + payloadLen <? 16) with false by lia.
    exists o2. change (skipn 4 (be32 1 ++ [n1; n2; n3; n4])) with [n1; n2; n3; n4].
    replace (pos + 8 + 8) with (pos + 16) by lia. reflexivity.
  - rewrite Hh.
    assert (Hg : get_be (firstn 4 (be32 (8 + payloadLen) ++ [n1; n2; n3; n4])) = 8 + payloadLen).
    { change (firstn 4 (be32 (8 + payloadLen) ++ [n1; n2; n3; n4])) with (be32 (8 + payloadLen)).
      apply get_be32. cbn [orb] in Hsz. lia. }
    rewrite Hg.
    replace (8 + payloadLen =? 1) with false by lia.
    replace (8 + payloadLen =? 0) with false by lia.
    replace (8 + payloadLen <? 8) with false by lia.
    exists o1. reflexivity.
Qed.

Lemma mdat_size_views file pos large payloadLen :
  pos + hdr_len large + payloadLen <= lenN file -> lenN file < 9223372036854775808 ->
  (large = true \/ 8 + payloadLen < 4294967296) ->
  fst (mdat_size (mdat_lazy pos large payloadLen)) = hdr_len large + payloadLen
  /\ fst (mdat_size (mdat_mem file pos large payloadLen)) = hdr_len large + payloadLen.
Proof.
  intros Hb Hfl Hsz.
  assert (Hl : hdr_len large = 8 \/ hdr_len large = 16) by (destruct large; cbn; lia).
  split.
  - unfold mdat_size, mdat_lazy. cbn [lazyDataSize Data LargeSize fst].
    change (lenN (@nil N)) with 0.
    replace (if 0 <? payloadLen then payloadLen else 0) with payloadLen
      by (destruct (0 <? payloadLen) eqn:E; lia).
    unfold maxNormalPayloadSize, u64.
    destruct large; cbn [orb hdr_len] in *.
    + rewrite N.mod_small by lia. lia.
    + replace (4294967296 - 1 - 8 <? payloadLen) with false by lia.
      rewrite N.mod_small by lia. lia.
  - unfold mdat_size, mdat_mem. cbn [lazyDataSize Data LargeSize fst]. fold (hdr_len large).
    change (0 <? 0) with false. cbn match. rewrite sub_length by lia.
    unfold maxNormalPayloadSize, u64.
    destruct large; cbn [orb hdr_len] in *.
    + rewrite N.mod_small by lia. lia.
    + replace (4294967296 - 1 - 8 <? payloadLen) with false by lia.
      rewrite N.mod_small by lia. lia.
Qed.

Lemma decode_box_top_ok lazy file zeof pos b orc :
  pos + hdr_len (blarge b) + bplen b <= lenN file -> lenN file < 9223372036854775808 ->
  header_at_n file pos (bname b) (blarge b) (bplen b) = true ->
  exists o t,
    decode_box_top lazy file zeof pos (mkRS pos orc)
    = RfOk (t, mkRS (pos + hdr_len (blarge b) + bplen b) o)
    /\ views lazy file pos [b] = [t]
    /\ match t with TBox _ _ s => s | TMdat _ s => s end = hdr_len (blarge b) + bplen b.
Proof.
  intros Hb Hfl Hh. destruct b as [name large plen]. cbn [bname blarge bplen] in *.
  destruct (decode_header_ok_n file zeof pos name large plen orc Hb Hfl Hh) as (o & Hd).
  assert (Hl : hdr_len large = 8 \/ hdr_len large = 16) by (destruct large; cbn; lia).
  assert (Hsz : large = true \/ 8 + plen < 4294967296).
  { unfold header_at_n in Hh. destruct large; [now left|right].
    apply andb_true_iff in Hh. destruct Hh as [Hh _]. apply andb_true_iff in Hh. destruct Hh as [_ Hh].
    cbn [orb] in Hh. lia. }
  destruct (mdat_size_views file pos large plen Hb Hfl Hsz) as [S1 S2].
  unfold decode_box_top. rewrite Hd. cbn [hname hsize hlen views bname blarge bplen].
  destruct (eqb_list name name_mdat) eqn:En.
  - destruct lazy.
    + unfold decode_mdat_lazily, rs_seek_cur, i64n. cbn [hlen hsize rpos rorc].
      replace (hdr_len large + plen <? 9223372036854775808) with true by lia.
      replace (Z.of_N (pos + hdr_len large) + (Z.of_N (hdr_len large + plen) - Z.of_N (hdr_len large)) <? 0)%Z
        with false by lia.
      replace (9223372036854775807 <? Z.of_N (pos + hdr_len large) + (Z.of_N (hdr_len large + plen) - Z.of_N (hdr_len large)))%Z
        with false by lia.
      cbn [orb].
      replace (hdr_len large + plen - hdr_len large) with plen by lia.
      replace (8 <? hdr_len large) with large by (destruct large; reflexivity).
      fold (mdat_lazy pos large plen). rewrite S1.
      eexists o, _. split; [|split; reflexivity].
      f_equal. f_equal. f_equal. lia.
    + unfold decode_mdat, read_box_body. cbn [hlen hsize rpos rorc].
      destruct (hdr_len large =? hdr_len large + plen) eqn:E.
      * assert (plen = 0) by lia. subst plen. cbn [rbind].
        replace (8 <? hdr_len large) with large by (destruct large; reflexivity).
        assert (Hm : mkMdat pos [] 0 large = mdat_mem file pos large 0).
        { unfold mdat_mem. fold (hdr_len large). now rewrite sub_0. }
        rewrite Hm, S2. eexists o, _. split; [|split; reflexivity].
        f_equal. f_equal. f_equal. lia.
      * replace (hdr_len large + plen - hdr_len large) with plen by lia.
        rewrite N.min_l by lia. rewrite sub_length by lia. rewrite N.eqb_refl. cbn [rbind].
        replace (8 <? hdr_len large) with large by (destruct large; reflexivity).
        fold (hdr_len large). 
        change (mkMdat pos (sub file (pos + hdr_len large) plen) 0 large) with (mdat_mem file pos large plen).
        rewrite S2. eexists o, _. split; [|split; reflexivity]. reflexivity.
  - unfold read_box_body. cbn [hlen hsize rpos rorc].
    destruct (hdr_len large =? hdr_len large + plen) eqn:E.
    + eexists o, _. split; [|split; reflexivity].
      f_equal. f_equal. f_equal. lia.
    + replace (hdr_len large + plen - hdr_len large) with plen by lia.
      rewrite N.min_l by lia. rewrite sub_length by lia. rewrite N.eqb_refl.
      eexists o, _. split; [|split; reflexivity]. reflexivity.
Qed.

Lemma decode_box_top_eof lazy file zeof orc :
  decode_box_top lazy file zeof (lenN file) (mkRS (lenN file) orc) = RfEOF.
Proof.
  unfold decode_box_top, decode_header, read_full. cbn [N.to_nat read_full_loop].
  change (8 =? 0) with false. cbn match.
  unfold rs_read. change (8 =? 0) with false. cbn [andb rpos].
  rewrite N.leb_refl. reflexivity.
Qed.

Lemma decode_file_top_ok lazy file zeof : lenN file < 9223372036854775808 ->
  forall bs pos orc,
  layout_at file pos bs = true ->
  decode_file_top (S (length bs)) lazy file zeof pos (mkRS pos orc) = Ok (views lazy file pos bs).
Proof.
  intros Hfl. induction bs as [|b t IH]; intros pos orc Hl.
  - cbn [layout_at] in Hl. apply N.eqb_eq in Hl. subst pos.
    cbn [length decode_file_top]. now rewrite decode_box_top_eof.
  - cbn [layout_at] in Hl. apply andb_true_iff in Hl. destruct Hl as [Hl Hrest].
    apply andb_true_iff in Hl. destruct Hl as [Hh Hin].
    destruct (decode_box_top_ok lazy file zeof pos b orc ltac:(lia) Hfl Hh) as (o & tb & Hd & Hv & Hs).
    change (length (b :: t)) with (S (length t)).
    remember (S (length t)) as fu eqn:Efu. cbn [decode_file_top]. rewrite Hd, Hs. subst fu.
    unfold u64. rewrite N.mod_small by lia.
    replace (pos + (hdr_len (blarge b) + bplen b)) with (pos + hdr_len (blarge b) + bplen b) by lia.
    rewrite IH by exact Hrest. cbn [rbind].
    cbn [views] in Hv |- *. injection Hv as Hv. rewrite Hv.
    replace (pos + (hdr_len (blarge b) + bplen b)) with (pos + hdr_len (blarge b) + bplen b) by lia.
    reflexivity.
Qed.

Lemma views_erase file : forall bs pos,
  map erase (views false file pos bs) = map erase (views true file pos bs).
Proof.
  induction bs as [|b t IH]; intros pos; [reflexivity|].
  cbn [views map]. rewrite IH. f_equal.
  destruct (eqb_list (bname b) name_mdat); reflexivity.
Qed.

(* both walks succeed, and agree on type, position, size (and LargeSize of mdat) of every top-level box *)
Lemma tree_equal file zeof bs orc1 orc2 :
  lenN file < 9223372036854775808 ->
  layout_at file 0 bs = true ->
  exists t1 t2,
    decode_file_top (S (length bs)) false file zeof 0 (mkRS 0 orc1) = Ok t1
    /\ decode_file_top (S (length bs)) true file zeof 0 (mkRS 0 orc2) = Ok t2
    /\ t1 = views false file 0 bs /\ t2 = views true file 0 bs
    /\ map erase t1 = map erase t2.
Proof.
  intros Hfl Hl. exists (views false file 0 bs), (views true file 0 bs).
  repeat split; try (apply decode_file_top_ok; assumption). apply views_erase.
Qed.
