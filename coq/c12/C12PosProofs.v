(* C12PosProofs.v — the positions the assembly records (MediaSegment.StartPos, Fragment.StartPos) are the
   positions of the boxes in the stream: for every layout of C12Bytes.layout_ok, segment i starts where
   init ++ top-level sidx boxes ++ segments 0..i-1 end, and fragment j of it where additionally the styp / sidx
   boxes of the segment and its fragments 0..j-1 end.  Positions are the loop's own running uint64 sum (posn). *)
From V.lib Require Import Base.
From V.c12 Require Import C12Model C12Spec C12PartProofs C12EncProofs C12Bytes C12BytesProofs.

(* boxStartPos of DecodeFile's loop after the boxes l: pos = u64 (pos + size) from 0 *)
Definition posn (l : list topbox) : N := fold_left (fun p b => u64 (p + b_size b)) l 0.

Lemma posn_snoc l b : posn (l ++ [b]) = u64 (posn l + b_size b).
Proof. unfold posn. rewrite fold_left_app. reflexivity. Qed.

Definition seg_head (s : segment) : list topbox := opt_list (sg_styp s) ++ map sx_box (sg_sidxs s).

Lemma seg_boxes_head s : seg_boxes s = seg_head s ++ seg_fragment_boxes s.
Proof. unfold seg_boxes, seg_head. rewrite <- app_assoc. reflexivity. Qed.

Definition frs_boxes (frs : list fragment) : list topbox := concat (map fr_children frs).

Fixpoint frags_pos (st : list topbox) (frs : list fragment) : Prop :=
  match frs with
  | [] => True
  | fr :: t => fr_start fr = posn st /\ frags_pos (st ++ fr_children fr) t
  end.

Fixpoint segs_pos (st : list topbox) (segs : list segment) : Prop :=
  match segs with
  | [] => True
  | s :: t => sg_start s = posn st /\ frags_pos (st ++ seg_head s) (sg_frags s) /\ segs_pos (st ++ seg_boxes s) t
  end.

Definition hdr (f : file) : list topbox := init_boxes f ++ map sx_box (f_sidxs f).
Definition PosInv (f : file) : Prop := segs_pos (hdr f) (f_segs f).

Lemma body_hdr f : body f = hdr f ++ asb (f_segs f).
Proof. unfold body, hdr. rewrite <- app_assoc. reflexivity. Qed.

Lemma frags_pos_snoc frs : forall st fr,
  frags_pos st (frs ++ [fr]) <-> frags_pos st frs /\ fr_start fr = posn (st ++ frs_boxes frs).
Proof.
  induction frs as [|x t IH]; intros st fr.
  - cbn. rewrite app_nil_r. tauto.
  - cbn [app frags_pos]. rewrite IH. unfold frs_boxes. cbn [map concat]. rewrite <- app_assoc. tauto.
Qed.

Lemma segs_pos_snoc segs : forall st s,
  segs_pos st (segs ++ [s]) <->
  segs_pos st segs /\ sg_start s = posn (st ++ asb segs) /\ frags_pos (st ++ asb segs ++ seg_head s) (sg_frags s).
Proof.
  induction segs as [|x t IH]; intros st s.
  - cbn. rewrite !app_nil_r. tauto.
  - cbn [app segs_pos]. rewrite IH. unfold asb. cbn [map concat]. rewrite <- !app_assoc. tauto.
Qed.

(* the children of the last fragment do not matter *)
Lemma frags_pos_last_children frs : forall st fr fr',
  fr_start fr' = fr_start fr -> frags_pos st (frs ++ [fr]) -> frags_pos st (frs ++ [fr']).
Proof. intros st fr fr' E. rewrite !frags_pos_snoc. rewrite E. tauto. Qed.

(* ---------------------------------------------------------------- one AddChild *)
Lemma pos_add_segment f styp pos :
  PosInv f -> pos = posn (body f) -> PosInv (add_segment f (new_segment styp pos)).
Proof.
  intros I E. unfold PosInv, add_segment, hdr, init_boxes in *. cbn [f_init f_sidxs f_segs].
  apply segs_pos_snoc. split; [exact I|]. cbn [new_segment sg_start sg_frags frags_pos]. split; [|exact Logic.I].
  rewrite E, body_hdr. reflexivity.
Qed.

Lemma body_add_segment_none f pos : body (add_segment f (new_segment None pos)) = body f.
Proof. rewrite body_add_segment. apply app_nil_r. Qed.

(* the box goes into the last fragment of the last segment, after a fragment was opened at pos if needed *)
Lemma pos_push f1 s s1 fr b pos :
  PosInv f1 -> pos = posn (body f1) ->
  last_opt (f_segs f1) = Some s ->
  (s1 = s \/ s1 = seg_add_fragment s (new_fragment pos)) ->
  last_opt (sg_frags s1) = Some fr ->
  PosInv (set_segs f1 (set_last (f_segs f1) (seg_set_last_fragment s1 (frag_add_child fr b)))).
Proof.
  intros I E L Hs1 Lf. unfold PosInv in *.
  assert (Hh : hdr (set_segs f1 (set_last (f_segs f1) (seg_set_last_fragment s1 (frag_add_child fr b)))) = hdr f1) by reflexivity.
  rewrite Hh. cbn [set_segs f_segs]. unfold set_last.
  rewrite (last_opt_some _ _ L) in I. apply segs_pos_snoc in I. destruct I as (I1 & I2 & I3).
  apply segs_pos_snoc. split; [exact I1|].
  assert (Eh : seg_head (seg_set_last_fragment s1 (frag_add_child fr b)) = seg_head s)
    by (destruct Hs1 as [-> | ->]; reflexivity).
  assert (Es : sg_start (seg_set_last_fragment s1 (frag_add_child fr b)) = sg_start s)
    by (destruct Hs1 as [-> | ->]; reflexivity).
  rewrite Eh, Es. split; [exact I2|].
  cbn [seg_set_last_fragment sg_frags]. unfold set_last.
  assert (Ffr : fr_start (frag_add_child fr b) = fr_start fr) by (unfold frag_add_child; destruct (b_kind b); reflexivity).
  destruct Hs1 as [-> | ->].
  - rewrite (last_opt_some _ _ Lf) in I3. eapply frags_pos_last_children; [|exact I3]. exact Ffr.
  - cbn [seg_add_fragment sg_frags] in *. rewrite last_opt_snoc in Lf. injection Lf as <-.
    rewrite removelast_last. apply frags_pos_snoc. split; [exact I3|].
    rewrite Ffr. cbn [new_fragment fr_start]. rewrite E, body_hdr.
    rewrite (last_opt_some _ _ L) at 1. rewrite asb_snoc, seg_boxes_head. unfold seg_fragment_boxes, frs_boxes.
    rewrite <- !app_assoc. reflexivity.
Qed.

Lemma pos_media f b pos f' :
  (b_kind b = KMoof \/ b_kind b = KEmsg) -> PosInv f -> pos = posn (body f) ->
  add_child_switch f b pos = Ok f' -> PosInv f'.
Proof.
  intros K I E. unfold add_child_switch. destruct K as [K | K]; rewrite K.
  - destruct (start_segment_if_needed (set_fragmented f) pos) as [f1| | |] eqn:S; cbn [rbind]; try discriminate.
    apply start_segment_cases in S.
    assert (I1 : PosInv f1 /\ pos = posn (body f1)).
    { destruct S as [-> | ->].
      - split; [exact I|exact E].
      - split; [apply (pos_add_segment (set_fragmented f)); [exact I|exact E]|].
        rewrite body_add_segment_none. exact E. }
    destruct I1 as [I1 E1].
    destruct (last_opt (f_segs f1)) as [s|] eqn:L; [|discriminate].
    set (s1 := match last_opt (sg_frags s) with
               | Some lf => if is_some (fr_moof lf) then seg_add_fragment s (new_fragment pos) else s
               | None => seg_add_fragment s (new_fragment pos) end).
    assert (H1 : s1 = s \/ s1 = seg_add_fragment s (new_fragment pos)).
    { subst s1. destruct (last_opt (sg_frags s)) as [lf|]; [destruct (is_some (fr_moof lf))|]; auto. }
    destruct (last_opt (sg_frags s1)) as [fr|] eqn:Lf; [|discriminate].
    intros [= <-]. exact (pos_push _ _ _ _ _ _ I1 E1 L H1 Lf).
  - destruct (start_segment_if_needed f pos) as [f1| | |] eqn:S; cbn [rbind]; try discriminate.
    apply start_segment_cases in S.
    assert (I1 : PosInv f1 /\ pos = posn (body f1)).
    { destruct S as [-> | ->].
      - split; [exact I|exact E].
      - split; [apply pos_add_segment; [exact I|exact E]|]. rewrite body_add_segment_none. exact E. }
    destruct I1 as [I1 E1].
    destruct (last_opt (f_segs f1)) as [s|] eqn:L; [|discriminate].
    set (s1 := if is_nil (sg_frags s) then seg_add_fragment s (new_fragment pos) else s).
    assert (H1 : s1 = s \/ s1 = seg_add_fragment s (new_fragment pos)).
    { subst s1. destruct (is_nil (sg_frags s)); auto. }
    destruct (last_opt (sg_frags s1)) as [fr|] eqn:Lf; [|discriminate].
    intros [= <-]. exact (pos_push _ _ _ _ _ _ I1 E1 L H1 Lf).
Qed.

Lemma pos_mdat f b pos f' :
  b_kind b = KMdat -> f_fragmented f = true -> PosInv f -> pos = posn (body f) ->
  add_child_switch f b pos = Ok f' -> PosInv f'.
Proof.
  intros K Fr I E. unfold add_child_switch. rewrite K, Fr. cbn [negb].
  destruct (last_opt (f_segs f)) as [s|] eqn:L; [|discriminate].
  destruct (last_opt (sg_frags s)) as [fr|] eqn:Lf; [|discriminate].
  intros [= <-]. exact (pos_push _ _ _ _ _ _ I E L (or_introl eq_refl) Lf).
Qed.

Lemma pos_styp f b pos f' :
  b_kind b = KStyp -> PosInv f -> pos = posn (body f) -> add_child_switch f b pos = Ok f' -> PosInv f'.
Proof.
  intros K I E. unfold add_child_switch. rewrite K. intros [= <-]. apply pos_add_segment; assumption.
Qed.

Lemma pos_nosegs f : f_segs f = [] -> PosInv f.
Proof. intros H. unfold PosInv. rewrite H. exact Logic.I. Qed.

Lemma pos_sidx_seg f b pos f' s :
  b_kind b = KSidx -> last_opt (f_segs f) = Some s -> sg_frags s = [] -> PosInv f ->
  add_child_switch f b pos = Ok f' -> PosInv f'.
Proof.
  intros K L Hn I. unfold add_child_switch. rewrite K, L. intros [= <-]. unfold PosInv in *.
  cbn [set_segs f_segs]. change (hdr (set_segs f _)) with (hdr f). unfold set_last.
  rewrite (last_opt_some _ _ L) in I. apply segs_pos_snoc in I. destruct I as (I1 & I2 & _).
  apply segs_pos_snoc. split; [exact I1|]. cbn [seg_add_sidx sg_start sg_frags]. rewrite Hn. split; [exact I2|exact Logic.I].
Qed.

Lemma pos_mfra f b pos f' : b_kind b = KMfra -> PosInv f -> add_child_switch f b pos = Ok f' -> PosInv f'.
Proof. intros K I. unfold add_child_switch. rewrite K. intros [= <-]. exact I. Qed.

(* ---------------------------------------------------------------- along the automaton *)
Lemma Linv_body st f pre : Linv st f pre -> st <> L1 -> st <> L4 -> body f = pre.
Proof.
  destruct st; cbn; intros I H1 H4; try congruence.
  - destruct I as (-> & Hi & _ & Hs & Hg & _). unfold body, init_boxes, asb. rewrite Hi, Hs, Hg. reflexivity.
  - exact (proj1 I).
  - exact (proj1 I).
  - exact (proj1 I).
Qed.

Lemma pos_step_switch st f b pos f' pre st' :
  Linv st f pre -> PosInv f -> pos = posn pre -> lstep st b = Some st' ->
  add_child_switch f b pos = Ok f' -> PosInv f'.
Proof.
  intros I P E St A.
  destruct st.
  - (* L0 *)
    assert (Hs : f_segs f = []) by (destruct I as (_ & _ & _ & _ & Hg & _); exact Hg).
    assert (Hb : body f = pre) by (apply (Linv_body L0); [exact I|discriminate|discriminate]).
    destruct (b_kind b) eqn:K; try (unfold lstep in St; rewrite K in St; discriminate).
    + unfold add_child_switch in A. rewrite K in A. injection A as <-. apply pos_nosegs. exact Hs.
    + apply (pos_styp f b pos f' K P); [congruence|exact A].
    + unfold lstep in St; rewrite K in St. destruct (b_stts_empty b) eqn:Eb; [|discriminate].
      unfold add_child_switch in A. rewrite K, Eb in A. injection A as <-. apply pos_nosegs. exact Hs.
    + unfold add_child_switch in A. rewrite K, Hs in A. cbn [last_opt] in A. injection A as <-. apply pos_nosegs. reflexivity.
    + apply (pos_media f b pos f' (or_introl K) P); [congruence|exact A].
    + apply (pos_media f b pos f' (or_intror K) P); [congruence|exact A].
    + exact (pos_mfra _ _ _ _ K P A).
  - (* L1 *)
    destruct I as (ft & _ & _ & _ & _ & Hg & _).
    destruct (b_kind b) eqn:K; try (unfold lstep in St; rewrite K in St; discriminate).
    unfold lstep in St; rewrite K in St. destruct (b_stts_empty b) eqn:Eb; [|discriminate].
    unfold add_child_switch in A. rewrite K, Eb in A. injection A as <-. apply pos_nosegs. exact Hg.
  - (* L2 *)
    assert (Hb : body f = pre) by exact (proj1 I).
    assert (Hs : f_segs f = []) by exact (proj1 (proj2 I)).
    destruct (b_kind b) eqn:K; try (unfold lstep in St; rewrite K in St; discriminate).
    + apply (pos_styp f b pos f' K P); [congruence|exact A].
    + unfold add_child_switch in A. rewrite K, Hs in A. cbn [last_opt] in A. injection A as <-. apply pos_nosegs. reflexivity.
    + apply (pos_media f b pos f' (or_introl K) P); [congruence|exact A].
    + apply (pos_media f b pos f' (or_intror K) P); [congruence|exact A].
    + exact (pos_mfra _ _ _ _ K P A).
  - (* L3s *)
    destruct I as (Hb & _ & Hf & s & L & Hn).
    destruct (b_kind b) eqn:K; try (unfold lstep in St; rewrite K in St; discriminate).
    + apply (pos_styp f b pos f' K P); [congruence|exact A].
    + exact (pos_sidx_seg _ _ _ _ _ K L Hn P A).
    + apply (pos_media f b pos f' (or_introl K) P); [congruence|exact A].
    + apply (pos_media f b pos f' (or_intror K) P); [congruence|exact A].
    + exact (pos_mfra _ _ _ _ K P A).
  - (* L3m *)
    destruct I as (Hb & _ & Hf & _).
    destruct (b_kind b) eqn:K; try (unfold lstep in St; rewrite K in St; discriminate).
    + apply (pos_styp f b pos f' K P); [congruence|exact A].
    + apply (pos_media f b pos f' (or_introl K) P); [congruence|exact A].
    + apply (pos_mdat f b pos f' K Hf P); [congruence|exact A].
    + apply (pos_media f b pos f' (or_intror K) P); [congruence|exact A].
    + exact (pos_mfra _ _ _ _ K P A).
  - unfold lstep in St. destruct (b_kind b); discriminate.
Qed.

Lemma PosInv_children f ch :
  PosInv f ->
  PosInv (mkFile (f_ftyp f) (f_moov f) (f_mdat f) (f_init f) (f_sidxs f) (f_tfra f) (f_mfra f) (f_segs f) ch
                 (f_fragmented f) (f_start_on_moof f)).
Proof. exact (fun H => H). Qed.

Lemma add_children_pos bs : forall st f pos f' pre st',
  Linv st f pre -> PosInv f -> pos = posn pre -> lrun st bs = Some st' -> add_children f pos bs = Ok f' -> PosInv f'.
Proof.
  induction bs as [|b t IH]; intros st f pos f' pre st' I P E R A.
  - cbn in A. injection A as <-. exact P.
  - cbn [lrun] in R. destruct (lstep st b) as [st1|] eqn:St; [|discriminate].
    cbn [add_children] in A. destruct (add_child f b pos) as [f1| | |] eqn:A1; cbn [rbind] in A; try discriminate.
    pose proof (step_add_child _ _ _ _ _ _ _ I St A1) as I1.
    assert (P1 : PosInv f1).
    { unfold add_child in A1. destruct (add_child_switch f b pos) as [f2| | |] eqn:A2; cbn [rbind] in A1; try discriminate.
      injection A1 as <-. apply PosInv_children. exact (pos_step_switch _ _ _ _ _ _ _ I P E St A2). }
    apply (IH _ _ _ _ _ _ I1 P1 (eq_sym (eq_trans (posn_snoc pre b) (f_equal (fun p => u64 (p + b_size b)) (eq_sym E)))) R A).
Qed.

Lemma assemble_pos o bs f : assemble o bs = Ok f -> layout_ok bs = true -> PosInv f.
Proof.
  intros A Hl. destruct (assemble_inv _ _ _ A) as (tf & f0 & _ & D & ->).
  apply decode_loop_add_children in D. unfold layout_ok in Hl.
  destruct (lrun L0 bs) as [st'|] eqn:R; [|discriminate].
  assert (P0 : PosInv (empty_file (o_start_on_moof o) tf)) by (apply pos_nosegs; reflexivity).
  exact (add_children_pos _ _ _ _ _ _ _ (Linv_empty _ _) P0 eq_refl R D).
Qed.

(* ---------------------------------------------------------------- read off by index *)
Lemma frags_pos_nth frs : forall st j fr,
  frags_pos st frs -> nth_error frs j = Some fr -> fr_start fr = posn (st ++ frs_boxes (firstn j frs)).
Proof.
  induction frs as [|x t IH]; intros st j fr P H; [destruct j; discriminate|].
  destruct P as [P1 P2]. destruct j as [|j].
  - injection H as <-. cbn. rewrite app_nil_r. exact P1.
  - cbn [nth_error] in H. rewrite (IH _ _ _ P2 H). unfold frs_boxes. cbn [firstn map concat]. rewrite <- app_assoc. reflexivity.
Qed.

Lemma segs_pos_nth segs : forall st i s,
  segs_pos st segs -> nth_error segs i = Some s ->
  sg_start s = posn (st ++ asb (firstn i segs)) /\
  forall j fr, nth_error (sg_frags s) j = Some fr ->
    fr_start fr = posn (st ++ asb (firstn i segs) ++ seg_head s ++ frs_boxes (firstn j (sg_frags s))).
Proof.
  induction segs as [|x t IH]; intros st i s P H; [destruct i; discriminate|].
  destruct P as (P1 & P2 & P3). destruct i as [|i].
  - injection H as <-. cbn [firstn asb map concat]. unfold asb. cbn [map concat]. rewrite app_nil_r. split; [exact P1|].
    intros j fr Hj. rewrite (frags_pos_nth _ _ _ _ P2 Hj), <- app_assoc. reflexivity.
  - cbn [nth_error] in H. destruct (IH _ _ _ P3 H) as [Q1 Q2]. unfold asb in *. cbn [firstn map concat].
    rewrite <- !app_assoc in *. split; [exact Q1|]. intros j fr Hj. rewrite (Q2 j fr Hj). rewrite <- !app_assoc. reflexivity.
Qed.

(* without wrap-around: the running position is the sum of the sizes *)
Lemma posn_mod l : posn l = sumN (map b_size l) mod 18446744073709551616.
Proof.
  induction l as [|b l IH] using rev_ind; [reflexivity|].
  rewrite posn_snoc, IH, map_app, sumN_app. cbn [map sumN]. unfold u64. rewrite N.add_0_r.
  rewrite N.add_mod_idemp_l by discriminate. reflexivity.
Qed.

Lemma posn_small l : sumN (map b_size l) < 18446744073709551616 -> posn l = sumN (map b_size l).
Proof. intros H. rewrite posn_mod. apply N.mod_small. exact H. Qed.
