(* C12Sidx.v — executable model of File.UpdateSidx, findReferenceTrak, findSegmentData, fillSidx,
   insertSidx (mp4/file.go), MediaSegment.Size / FirstBox (mp4/mediasegment.go), Fragment.Size and
   SidxBox.Size, on the assembled file of C12Model.  Definitions only.
   uint32 accumulations and conversions are written with u32, the int64/uint64 conversions of
   the presentation time with an explicit mod 2^64. *)
From V.lib Require Import Base.
From V.c12 Require Import C12Model.

(* SidxBox.Size(): boxHeaderSize + 4 + 20 + 8*version + 12*len(refs) *)
Definition sidx_size (version nrefs : N) : N := 8 + 4 + 20 + 8 * version + 12 * nrefs.

(* Fragment.Size / MediaSegment.Size (all sidx boxes of the segment are counted) *)
Definition frag_size (fr : fragment) : N := sumN (map b_size (fr_children fr)).
Definition seg_size (s : segment) : N :=
  match sg_styp s with Some b => b_size b | None => 0 end
  + sumN (map (fun sx => b_size (sx_box sx)) (sg_sidxs s))
  + sumN (map frag_size (sg_frags s)).

(* findReferenceTrak: first video track, else first audio track, else the first track *)
Definition find_reference_trak (traks : list trak) : res trak :=
  match find (fun k => k_handler k =? 0) traks with
  | Some k => Ok k
  | None =>
      match find (fun k => k_handler k =? 1) traks with
      | Some k => Ok k
      | None => match traks with k :: _ => Ok k | [] => Panic end
      end
  end.

Record seg_data := mkSD { sd_start : N; sd_pt : N; sd_base : N; sd_dur : N; sd_size : N }.

(* state of the loops of findSegmentData over one segment: baseTime, firstCompositionTimeOffset, dur,
   haveBaseTime, haveFirstSample (the two flags exist since repo commit 48b8dea) *)
Record sd_acc := mkAcc { a_base : N; a_cto : Z; a_dur : N; a_seen : bool; a_first : bool }.
Definition acc0 : sd_acc := mkAcc 0 0%Z 0 false false.

(* `wrap`: the accumulator width.  The pinned text (before repo commit 85561e1) accumulated the
   duration in a uint32 (wrap = u32) and cast Size() to uint32; the repaired text accumulates in a
   uint64 and returns an error when the size needs more than 31 bits or the duration more than 32. *)
Definition dur_fold (wrap : N -> N) (t : traf) (d : N) : N :=
  fold_left (fun d x => wrap (d + x)) (concat (t_truns t)) d.

(* The text before repo commit 48b8dea: base time and composition offset are looked for in the FIRST
   fragment of the segment only (fIdx == 0), the offset in the first sample of the first trun only
   (i == 0 && j == 0).  t_cto0 is the offset of the first sample of the traf: for a non-empty first
   trun that is the same sample. *)
Definition traf_step_w (wrap : N -> N) (ref_id : N) (first_frag : bool) (a : sd_acc) (t : traf) : sd_acc :=
  if t_track t =? ref_id then
    let base := if first_frag then t_base t else a_base a in
    let cto := if first_frag then
                 match t_truns t with
                 | (_ :: _) :: _ => t_cto0 t          (* fIdx == 0 && i == 0 && j == 0 *)
                 | _ => a_cto a
                 end
               else a_cto a in
    mkAcc base cto (dur_fold wrap t (a_dur a)) (a_seen a) (a_first a)
  else a.

Fixpoint frags_step_w (wrap : N -> N) (ref_id : N) (first_frag : bool) (a : sd_acc) (frs : list fragment) : res sd_acc :=
  match frs with
  | [] => Ok a
  | fr :: t =>
      match fr_moof fr with
      | None => Err                                     (* "fragment without moof box" *)
      | Some m => frags_step_w wrap ref_id false (fold_left (traf_step_w wrap ref_id first_frag) (b_trafs m) a) t
      end
  end.

(* The current text (48b8dea): the first traf of the reference track in the segment gives the base time
   (haveBaseTime); the first SAMPLE of the reference track in the segment - whichever fragment, traf and
   trun hold it - gives the base time of its traf and its composition offset (haveFirstSample). *)
Definition traf_has_sample (t : traf) : bool := negb (is_nil (concat (t_truns t))).

Definition traf_step_r (wrap : N -> N) (ref_id : N) (a : sd_acc) (t : traf) : sd_acc :=
  if t_track t =? ref_id then
    let base1 := if a_seen a then a_base a else t_base t in          (* if !haveBaseTime *)
    let here := negb (a_first a) && traf_has_sample t in             (* the sample loop meets !haveFirstSample *)
    mkAcc (if here then t_base t else base1)
          (if here then t_cto0 t else a_cto a)
          (dur_fold wrap t (a_dur a))
          true
          (a_first a || traf_has_sample t)
  else a.

Fixpoint frags_step_r (wrap : N -> N) (ref_id : N) (a : sd_acc) (frs : list fragment) : res sd_acc :=
  match frs with
  | [] => Ok a
  | fr :: t =>
      match fr_moof fr with
      | None => Err                                     (* "fragment without moof box" *)
      | Some m => frags_step_r wrap ref_id (fold_left (traf_step_r wrap ref_id) (b_trafs m) a) t
      end
  end.

Definition traf_step := traf_step_r u64.
Definition frags_step := frags_step_r u64.

Definition two64 : Z := 18446744073709551616%Z.

Definition MAX_REF_SIZE : N := 2147483647.      (* 0x7fffffff *)
Definition MAX_REF_DUR : N := 4294967295.       (* 0xffffffff *)

(* one iteration of findSegmentData's outer loop (repaired text) *)
Definition seg_data_of (ref_id : N) (s : segment) : res seg_data :=
  do a <- frags_step ref_id acc0 (sg_frags s);
  let seg_sz := u64 (seg_size s) in                     (* seg.Size(): uint64 *)
  if MAX_REF_SIZE <? seg_sz then Err                    (* "segment size ... does not fit the 31-bit referenced_size" *)
  else if MAX_REF_DUR <? a_dur a then Err               (* "segment duration ... does not fit the 32-bit subsegment_duration" *)
  else
  Ok (mkSD (sg_start s)
           (Z.to_N ((Z.of_N (a_base a) + a_cto a) mod two64))   (* uint64(int64(baseTime) + cto) *)
           (a_base a) (u32 (a_dur a)) (u32 seg_sz)).

(* the pinned text: dur uint32, size: uint32(seg.Size()), no error *)
Definition seg_data_of_pinned (ref_id : N) (s : segment) : res seg_data :=
  do a <- frags_step_w u32 ref_id true acc0 (sg_frags s);
  Ok (mkSD (sg_start s)
           (Z.to_N ((Z.of_N (a_base a) + a_cto a) mod two64))
           (a_base a) (a_dur a) (u32 (seg_size s))).

(* the text between 85561e1 and 48b8dea: errors instead of wraps, presentation time from the first fragment only *)
Definition seg_data_of_eptold (ref_id : N) (s : segment) : res seg_data :=
  do a <- frags_step_w u64 ref_id true acc0 (sg_frags s);
  let seg_sz := u64 (seg_size s) in
  if MAX_REF_SIZE <? seg_sz then Err
  else if MAX_REF_DUR <? a_dur a then Err
  else
  Ok (mkSD (sg_start s)
           (Z.to_N ((Z.of_N (a_base a) + a_cto a) mod two64))
           (a_base a) (u32 (a_dur a)) (u32 seg_sz)).

Fixpoint find_segment_data_g (one : N -> segment -> res seg_data) (ref_id : N) (segs : list segment) : res (list seg_data) :=
  match segs with
  | [] => Ok []
  | s :: t => do d <- one ref_id s; do r <- find_segment_data_g one ref_id t; Ok (d :: r)
  end.

Definition find_segment_data := find_segment_data_g seg_data_of.
Definition find_segment_data_pinned := find_segment_data_g seg_data_of_pinned.
Definition find_segment_data_eptold := find_segment_data_g seg_data_of_eptold.

(* SidxBox.EncodeSW / DecodeSidxSR on the first word of a reference:
   sw.WriteUint32(uint32(ref.ReferenceType)<<31 | ref.ReferencedSize);  type = work >> 31, size = work & 0x7fffffff *)
Definition enc_ref_word (r : sref) : N := N.lor (u32 (r_type r * 2147483648)) (r_size r).
Definition dec_ref_word (w : N) : N * N := (w / 2147483648, w mod 2147483648).

(* fillSidx: the fields of the refilled box (old: the box being refilled) *)
Definition fill_sidx (old : topbox) (rt : trak) (sds : list seg_data) (nz : bool) (first_offset : N) : topbox :=
  let ept := if nz then match sds with d :: _ => sd_pt d | [] => 0 end else 0 in
  let refs := map (fun d => mkRef 0 (sd_size d) (sd_dur d)) sds in
  mkBox KSidx (b_tag old) (sidx_size 1 (lenN refs)) 8 first_offset refs false [] false [] []
        1 (k_id rt) (k_timescale rt) ept.

(* MediaSegment.FirstBox *)
Definition first_box (s : segment) : res topbox :=
  match sg_styp s with
  | Some b => Ok b
  | None =>
      match sg_sidxs s with
      | sx :: _ => Ok (sx_box sx)
      | [] =>
          match sg_frags s with
          | fr :: _ => match fr_children fr with b :: _ => Ok b | [] => Err end
          | [] => Err
          end
      end
  end.

(* index of the first child that is the given box (Go: interface/pointer equality; model: tag) *)
Fixpoint index_of (tag : N) (l : list topbox) (i : nat) : option nat :=
  match l with
  | [] => None
  | b :: t => if b_tag b =? tag then Some i else index_of tag t (S i)
  end.

Fixpoint replace_tag (nb : topbox) (l : list topbox) : list topbox :=
  match l with
  | [] => []
  | b :: t => if b_tag b =? b_tag nb then nb :: t else b :: replace_tag nb t
  end.

Definition set_sidxs_children (f : file) (sxs : list sidx) (ch : list topbox) : file :=
  mkFile (f_ftyp f) (f_moov f) (f_mdat f) (f_init f) sxs (f_tfra f) (f_mfra f)
         (f_segs f) ch (f_fragmented f) (f_start_on_moof f).

Definition blank_sidx (tag : N) : topbox :=
  mkBox KSidx tag 0 8 0 [] false [] false [] [] 0 0 0 0.

(* File.UpdateSidx(addIfNotExists, nonZeroEPT); newtag: identity of the SidxBox created when none exists *)
Definition update_sidx_g (fsd : N -> list segment -> res (list seg_data)) (f : file) (add nz : bool) (newtag : N) : res file :=
  if negb (f_fragmented f) then Err
  else match f_init f, f_moov f with
  | None, _ => Err
  | Some _, None => Panic
  | Some _, Some moov =>
      if is_nil (f_segs f) then Err
      else
        let exists_ := negb (is_nil (f_sidxs f)) in
        if negb exists_ && negb add then Ok f
        else
          do rt <- find_reference_trak (b_traks moov);
          if negb (k_trex rt) then Err
          else
            do sds <- fsd (k_id rt) (f_segs f);
            match f_sidxs f with
            | sx :: rest =>
                (* first_offset 0 from fillSidx, then the sizes of the further top-level sidx boxes *)
                let fo := sumN (map (fun s => b_size (sx_box s)) rest) in
                let nb := fill_sidx (sx_box sx) rt sds nz fo in
                Ok (set_sidxs_children f (mkSidx nb (sx_anchor sx) :: rest) (replace_tag nb (f_children f)))
            | [] =>
                let nb := fill_sidx (blank_sidx newtag) rt sds nz 0 in
                match f_segs f with
                | [] => Err
                | s0 :: _ =>
                    match first_box s0 with
                    | Ok fb =>
                        match index_of (b_tag fb) (f_children f) 0 with
                        | Some (S i) =>
                            Ok (set_sidxs_children f [mkSidx nb 0]
                                  (firstn (S i) (f_children f) ++ nb :: skipn (S i) (f_children f)))
                        | _ => Err                     (* mediaStartIdx == 0 *)
                        end
                    | _ => Err
                    end
                end
            end
  end.

Definition update_sidx := update_sidx_g find_segment_data.
Definition update_sidx_pinned := update_sidx_g find_segment_data_pinned.
Definition update_sidx_eptold := update_sidx_g find_segment_data_eptold.
