(* C12Bytes.v — byte level of "decode, then File.Encode in the default segment mode".  Definitions only.

   1. `layout_ok`: the top-level layouts that segment-mode encoding reproduces box for box, as a
      six-state automaton over the kinds of the boxes:
          [ftyp] moov(fragmented)  sidx*  ( styp sidx* | emsg | moof | mdat )*  [mfra]
      (also without any init part: a bare media segment).  Everything else is reordered or dropped
      by File.Encode (C12BytesProofs: reencode_*_refuted).
   2. the bytes: every top-level box `b` of the input has, under its tag, the bytes it occupied in
      the input (`bi_in`), the bytes box.Encode writes for the decoded box while nothing has touched
      it (`bi_enc`; that bi_enc = bi_in is C01's per-box statement, a hypothesis here), and for a
      moof `bi_doff`: Some off when the moof holds exactly ONE trun in all its trafs and that trun
      has the data-offset-present flag, off being the byte offset of that data_offset field in the
      moof.  Fragment.Encode calls SetTrunDataOffsets, which for a decoded fragment (all write order
      numbers 0) returns early when there are several truns and otherwise overwrites the data offset
      of the only trun with moof.Size() + mdat.HeaderSize() (mp4/fragment.go:333-362): the model
      patches these four bytes. *)
From V.lib Require Import Base.
From V.c05 Require Import C05CodecModel.
From V.c12 Require Import C12Model.

(* ---------------------------------------------------------------- layouts *)
Inductive lst := L0 | L1 | L2 | L3s | L3m | L4.

Definition lstep (st : lst) (b : topbox) : option lst :=
  match st, b_kind b with
  | L0, KFtyp => Some L1
  | L0, KMoov | L1, KMoov => if b_stts_empty b then Some L2 else None
  | L0, KSidx | L2, KSidx => Some L2
  | L3s, KSidx => Some L3s
  | (L0 | L2 | L3s | L3m), KStyp => Some L3s
  | (L0 | L2 | L3s | L3m), (KEmsg | KMoof) => Some L3m
  | L3m, KMdat => Some L3m
  | (L0 | L2 | L3s | L3m), KMfra => Some L4
  | _, _ => None
  end.

Fixpoint lrun (st : lst) (bs : list topbox) : option lst :=
  match bs with
  | [] => Some st
  | b :: t => match lstep st b with Some st' => lrun st' t | None => None end
  end.

Definition layout_ok (bs : list topbox) : bool :=
  match lrun L0 bs with
  | Some L1 => false          (* a lone ftyp *)
  | Some _ => true
  | None => false
  end.

(* ---------------------------------------------------------------- bytes *)
Record binfo := mkBI { bi_in : list N; bi_enc : list N; bi_doff : option N }.

Definition patch32 (bytes : list N) (off v : N) : list N :=
  firstn (N.to_nat off) bytes ++ be32 v ++ skipn (N.to_nat off + 4) bytes.

Section Env.
Variable env : N -> binfo.     (* by tag *)

Definition enc0 (b : topbox) : list N := bi_enc (env (b_tag b)).
Definition in0 (b : topbox) : list N := bi_in (env (b_tag b)).

(* trun.DataOffset = int32(moof.Size() + mdat.HeaderSize()), written as uint32(int32) *)
Definition new_doff (m d : topbox) : N := u32 (b_size m + b_hdr d).

(* one child of a fragment, as Fragment.Encode writes it after SetTrunDataOffsets *)
Definition enc_child (fr : fragment) (b : topbox) : list N :=
  match fr_moof fr, fr_mdat fr, bi_doff (env (b_tag b)) with
  | Some m, Some d, Some off =>
      if kind_eqb (b_kind b) KMoof && (b_tag b =? b_tag m) then patch32 (enc0 b) off (new_doff m d) else enc0 b
  | _, _, _ => enc0 b
  end.

Definition frag_bytes (fr : fragment) : res (list (list N)) :=
  match fr_moof fr, fr_mdat fr with
  | Some _, Some _ => Ok (map (enc_child fr) (fr_children fr))
  | _, _ => Err
  end.

Fixpoint frags_bytes (frs : list fragment) : res (list (list N)) :=
  match frs with
  | [] => Ok []
  | fr :: t => do a <- frag_bytes fr; do r <- frags_bytes t; Ok (a ++ r)
  end.

Definition seg_bytes (s : segment) : res (list (list N)) :=
  do frs <- frags_bytes (sg_frags s);
  Ok (map enc0 (opt_list (sg_styp s)) ++ map enc0 (map sx_box (sg_sidxs s)) ++ frs).

Fixpoint segs_bytes (ss : list segment) : res (list (list N)) :=
  match ss with
  | [] => Ok []
  | s :: t => do a <- seg_bytes s; do r <- segs_bytes t; Ok (a ++ r)
  end.

(* File.Encode, fragmented, EncModeSegment, EncOptimize none: the byte strings of the boxes written, in order *)
Definition file_bytes (f : file) : res (list (list N)) :=
  do s <- segs_bytes (f_segs f);
  Ok (map enc0 (match f_init f with Some cs => cs | None => [] end) ++ map enc0 (map sx_box (f_sidxs f)) ++ s ++
      map enc0 (opt_list (f_mfra f))).

(* C01's statement for one box, as a boolean: the decoded box encodes to the bytes it came from *)
Fixpoint bytes_eqb (a b : list N) : bool :=
  match a, b with
  | [], [] => true
  | x :: a', y :: b' => (x =? y) && bytes_eqb a' b'
  | _, _ => false
  end.

Definition stable (b : topbox) : bool := bytes_eqb (enc0 b) (in0 b).

(* a moof directly followed by an mdat: if the moof holds a single trun with a data offset, that offset
   already is what SetTrunDataOffsets computes (re-writing it changes nothing) *)
Definition pair_ok (m d : topbox) : bool :=
  if kind_eqb (b_kind m) KMoof && kind_eqb (b_kind d) KMdat then
    match bi_doff (env (b_tag m)) with
    | Some off => bytes_eqb (patch32 (in0 m) off (new_doff m d)) (in0 m)
    | None => true
    end
  else true.

(* every adjacent pair of the input sequence *)
Fixpoint doffs_ok (bs : list topbox) : bool :=
  match bs with
  | [] => true
  | m :: t => (match t with d :: _ => pair_ok m d | [] => true end) && doffs_ok t
  end.
End Env.

(* decode + segment-mode encode, from boxes to bytes *)
Definition reencode (env : N -> binfo) (o : opts) (bs : list topbox) : res (list N) :=
  do f <- assemble o bs;
  do bl <- file_bytes env f;
  Ok (concat bl).
