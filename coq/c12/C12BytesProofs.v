(* C12BytesProofs.v — decode + File.Encode (segment mode) is the identity on the layouts of
   C12Bytes.layout_ok: box for box (reencode_boxes) and, when every box re-encodes to its own bytes
   and single-trun fragments carry the data offset SetTrunDataOffsets computes, byte for byte
   (reencode_identical).  Outside layout_ok the encoder reorders or drops boxes (…_refuted). *)
From V.lib Require Import Base.
From V.c05 Require Import C05CodecModel.
From V.c12 Require Import C12Model C12Spec C12PartProofs C12EncProofs C12Bytes.

Definition asb (segs : list segment) : list topbox := concat (map seg_boxes segs).
Definition body (f : file) : list topbox := init_boxes f ++ map sx_box (f_sidxs f) ++ asb (f_segs f).
Definition emitted (f : file) : list topbox := body f ++ opt_list (f_mfra f).

Lemma emitted_eq f :
  init_boxes f ++ map sx_box (f_sidxs f) ++ concat (map seg_boxes (f_segs f)) ++ opt_list (f_mfra f) = emitted f.
Proof. unfold emitted, body, asb. rewrite <- !app_assoc. reflexivity. Qed.

(* ---------------------------------------------------------------- segment level *)
Lemma sb_add_fragment s pos : seg_boxes (seg_add_fragment s (new_fragment pos)) = seg_boxes s.
Proof. unfold seg_boxes. rewrite sfb_add_fragment. reflexivity. Qed.

Lemma sb_set_last s fr b :
  last_opt (sg_frags s) = Some fr ->
  seg_boxes (seg_set_last_fragment s (frag_add_child fr b)) = seg_boxes s ++ [b].
Proof.
  intros H. unfold seg_boxes. rewrite (sfb_set_last _ _ _ H). cbn [seg_set_last_fragment sg_styp sg_sidxs].
  rewrite <- !app_assoc. reflexivity.
Qed.

Lemma sb_add_sidx s sx : sg_frags s = [] -> seg_boxes (seg_add_sidx s sx) = seg_boxes s ++ [sx_box sx].
Proof.
  intros H. unfold seg_boxes, seg_fragment_boxes, seg_add_sidx. cbn [sg_styp sg_sidxs sg_frags]. rewrite H.
  cbn [map concat]. rewrite map_app, !app_nil_r, <- app_assoc. reflexivity.
Qed.

Lemma asb_snoc segs s : asb (segs ++ [s]) = asb segs ++ seg_boxes s.
Proof. apply concat_map_snoc. Qed.

Lemma asb_set_last segs s s' : last_opt segs = Some s -> asb (set_last segs s') = asb (removelast segs) ++ seg_boxes s'.
Proof. intros _. unfold set_last. apply asb_snoc. Qed.

Lemma asb_last segs s : last_opt segs = Some s -> asb segs = asb (removelast segs) ++ seg_boxes s.
Proof. intros H. rewrite (last_opt_some _ _ H) at 1. apply asb_snoc. Qed.

Lemma body_set_last f s s' x :
  last_opt (f_segs f) = Some s -> seg_boxes s' = seg_boxes s ++ x ->
  body (set_segs f (set_last (f_segs f) s')) = body f ++ x.
Proof.
  intros L E. unfold body, set_segs, init_boxes. cbn [f_init f_sidxs f_segs].
  rewrite (asb_set_last _ _ _ L), E, (asb_last _ _ L), <- !app_assoc. reflexivity.
Qed.

Lemma body_push f1 s s1 fr b :
  last_opt (f_segs f1) = Some s -> seg_boxes s1 = seg_boxes s -> last_opt (sg_frags s1) = Some fr ->
  body (set_segs f1 (set_last (f_segs f1) (seg_set_last_fragment s1 (frag_add_child fr b)))) = body f1 ++ [b].
Proof. intros L E Lf. apply (body_set_last _ _ _ _ L). rewrite (sb_set_last _ _ _ Lf), E. reflexivity. Qed.

Lemma body_add_segment f styp pos :
  body (add_segment f (new_segment styp pos)) = body f ++ opt_list styp.
Proof.
  unfold body, add_segment, init_boxes. cbn [f_init f_sidxs f_segs]. rewrite asb_snoc.
  unfold seg_boxes, new_segment, seg_fragment_boxes. cbn. rewrite app_nil_r, <- !app_assoc. reflexivity.
Qed.

Lemma last_opt_nonnil {A} (l : list A) x : last_opt l = Some x -> l <> [].
Proof. intros H E. rewrite E in H. discriminate. Qed.

(* ---------------------------------------------------------------- what one AddChild appends *)
Lemma emit_styp f b pos f' :
  b_kind b = KStyp -> add_child_switch f b pos = Ok f' ->
  body f' = body f ++ [b] /\ f_mfra f' = f_mfra f /\ f_fragmented f' = true /\
  exists s, last_opt (f_segs f') = Some s /\ sg_frags s = [].
Proof.
  intros K. unfold add_child_switch. rewrite K. intros [= <-]. rewrite body_add_segment.
  repeat split. exists (new_segment (Some b) pos). split; [apply last_opt_snoc|reflexivity].
Qed.

Lemma emit_media f b pos f' :
  (b_kind b = KMoof \/ b_kind b = KEmsg) -> (f_segs f = [] \/ f_fragmented f = true) ->
  add_child_switch f b pos = Ok f' ->
  body f' = body f ++ [b] /\ f_mfra f' = f_mfra f /\ f_fragmented f' = true /\ f_segs f' <> [].
Proof.
  intros K Hf. unfold add_child_switch. destruct K as [K | K]; rewrite K.
  - destruct (start_segment_if_needed (set_fragmented f) pos) as [f1| | |] eqn:S; cbn [rbind]; try discriminate.
    apply start_segment_cases in S.
    assert (F1 : f_fragmented f1 = true) by (destruct S as [-> | ->]; reflexivity).
    assert (B1 : body f1 = body f) by (destruct S as [-> | ->]; [reflexivity|rewrite body_add_segment; apply app_nil_r]).
    assert (M1 : f_mfra f1 = f_mfra f) by (destruct S as [-> | ->]; reflexivity).
    destruct (last_opt (f_segs f1)) as [s|] eqn:L; [|discriminate].
    set (s1 := match last_opt (sg_frags s) with
               | Some lf => if is_some (fr_moof lf) then seg_add_fragment s (new_fragment pos) else s
               | None => seg_add_fragment s (new_fragment pos) end).
    assert (E1 : seg_boxes s1 = seg_boxes s).
    { subst s1. destruct (last_opt (sg_frags s)) as [lf|]; [destruct (is_some (fr_moof lf))|];
        try reflexivity; apply sb_add_fragment. }
    destruct (last_opt (sg_frags s1)) as [fr|] eqn:Lf; [|discriminate].
    intros [= <-]. rewrite (body_push _ _ _ _ _ L E1 Lf), B1. unfold set_segs. cbn [f_mfra f_fragmented f_segs].
    repeat split; auto. apply set_last_nonnil.
  - destruct (start_segment_if_needed f pos) as [f1| | |] eqn:S; cbn [rbind]; try discriminate.
    assert (F1 : f_fragmented f1 = true).
    { unfold start_segment_if_needed, seg_start in S. injection S as <-.
      destruct Hf as [Hn | Hfr].
      - rewrite Hn. cbn [is_nil]. rewrite orb_true_r. reflexivity.
      - destruct (seg_start_switch f pos || is_nil (f_segs f)); [reflexivity|exact Hfr]. }
    apply start_segment_cases in S.
    assert (B1 : body f1 = body f) by (destruct S as [-> | ->]; [reflexivity|rewrite body_add_segment; apply app_nil_r]).
    assert (M1 : f_mfra f1 = f_mfra f) by (destruct S as [-> | ->]; reflexivity).
    destruct (last_opt (f_segs f1)) as [s|] eqn:L; [|discriminate].
    set (s1 := if is_nil (sg_frags s) then seg_add_fragment s (new_fragment pos) else s).
    assert (E1 : seg_boxes s1 = seg_boxes s).
    { subst s1. destruct (is_nil (sg_frags s)); try reflexivity; apply sb_add_fragment. }
    destruct (last_opt (sg_frags s1)) as [fr|] eqn:Lf; [|discriminate].
    intros [= <-]. rewrite (body_push _ _ _ _ _ L E1 Lf), B1. unfold set_segs. cbn [f_mfra f_fragmented f_segs].
    repeat split; auto. apply set_last_nonnil.
Qed.

Lemma emit_mdat f b pos f' :
  b_kind b = KMdat -> f_fragmented f = true -> add_child_switch f b pos = Ok f' ->
  body f' = body f ++ [b] /\ f_mfra f' = f_mfra f /\ f_fragmented f' = true /\ f_segs f' <> [].
Proof.
  intros K Fr. unfold add_child_switch. rewrite K, Fr. cbn [negb].
  destruct (last_opt (f_segs f)) as [s|] eqn:L; [|discriminate].
  destruct (last_opt (sg_frags s)) as [fr|] eqn:Lf; [|discriminate].
  intros [= <-]. rewrite (body_push _ _ _ _ _ L eq_refl Lf). unfold set_segs. cbn [f_mfra f_fragmented f_segs].
  repeat split; auto. apply set_last_nonnil.
Qed.

Lemma emit_sidx_top f b pos f' :
  b_kind b = KSidx -> f_segs f = [] -> add_child_switch f b pos = Ok f' ->
  body f' = body f ++ [b] /\ f_segs f' = [] /\ f_mfra f' = f_mfra f.
Proof.
  intros K Hs. unfold add_child_switch. rewrite K, Hs. cbn [last_opt]. intros [= <-].
  unfold body, init_boxes, asb. cbn [f_init f_sidxs f_segs f_mfra]. rewrite Hs. cbn [map concat].
  rewrite map_app, !app_nil_r, <- app_assoc. auto.
Qed.

Lemma emit_sidx_seg f b pos f' s :
  b_kind b = KSidx -> last_opt (f_segs f) = Some s -> sg_frags s = [] -> add_child_switch f b pos = Ok f' ->
  body f' = body f ++ [b] /\ f_mfra f' = f_mfra f /\ f_fragmented f' = f_fragmented f /\
  exists s', last_opt (f_segs f') = Some s' /\ sg_frags s' = [].
Proof.
  intros K L Hn. unfold add_child_switch. rewrite K, L. intros [= <-].
  rewrite (body_set_last _ _ _ [b] L) by (rewrite (sb_add_sidx _ _ Hn); reflexivity).
  unfold set_segs. cbn [f_mfra f_fragmented f_segs]. repeat split.
  eexists. split; [apply last_opt_snoc|]. exact Hn.
Qed.

Lemma emit_mfra f b pos f' :
  b_kind b = KMfra -> add_child_switch f b pos = Ok f' -> body f' = body f /\ f_mfra f' = Some b.
Proof. intros K. unfold add_child_switch. rewrite K. intros [= <-]. split; reflexivity. Qed.

(* ---------------------------------------------------------------- the invariant of the automaton *)
Definition Linv (st : lst) (f : file) (pre : list topbox) : Prop :=
  match st with
  | L0 => pre = [] /\ f_init f = None /\ f_ftyp f = None /\ f_sidxs f = [] /\ f_segs f = [] /\ f_mfra f = None
  | L1 => exists ft, pre = [ft] /\ f_ftyp f = Some ft /\ f_init f = None /\ f_sidxs f = [] /\ f_segs f = [] /\ f_mfra f = None
  | L2 => body f = pre /\ f_segs f = [] /\ f_mfra f = None
  | L3s => body f = pre /\ f_mfra f = None /\ f_fragmented f = true /\ exists s, last_opt (f_segs f) = Some s /\ sg_frags s = []
  | L3m => body f = pre /\ f_mfra f = None /\ f_fragmented f = true /\ f_segs f <> []
  | L4 => body f ++ opt_list (f_mfra f) = pre
  end.

Lemma Linv_L0_L2 f pre : Linv L0 f pre -> Linv L2 f pre.
Proof.
  intros (-> & Hi & _ & Hs & Hg & Hm). cbn. unfold body, init_boxes, asb. rewrite Hi, Hs, Hg. auto.
Qed.

(* from the states in which no mfra has been seen and the rules for sidx / styp / emsg / moof / mdat / mfra apply *)
Lemma step_from_L2 f b pos f' pre st' :
  Linv L2 f pre -> lstep L2 b = Some st' -> add_child_switch f b pos = Ok f' -> Linv st' f' (pre ++ [b]).
Proof.
  intros (Hb & Hs & Hm) St A. unfold lstep in St. destruct (b_kind b) eqn:K; try discriminate; injection St as <-.
  - destruct (emit_styp _ _ _ _ K A) as (B & M & F & E). cbn. rewrite B, M, Hb. auto.
  - destruct (emit_sidx_top _ _ _ _ K Hs A) as (B & S & M). cbn. rewrite B, M, Hb. auto.
  - destruct (emit_media _ _ _ _ (or_introl K) (or_introl Hs) A) as (B & M & F & S). cbn. rewrite B, M, Hb. auto.
  - destruct (emit_media _ _ _ _ (or_intror K) (or_introl Hs) A) as (B & M & F & S). cbn. rewrite B, M, Hb. auto.
  - destruct (emit_mfra _ _ _ _ K A) as (B & M). cbn. rewrite B, M, Hb. reflexivity.
Qed.

Lemma step_from_L3 (sidx_ok : bool) f b pos f' pre st' :
  Linv (if sidx_ok then L3s else L3m) f pre -> lstep (if sidx_ok then L3s else L3m) b = Some st' ->
  add_child_switch f b pos = Ok f' -> Linv st' f' (pre ++ [b]).
Proof.
  intros I St A.
  assert (Hc : body f = pre /\ f_mfra f = None /\ f_fragmented f = true /\ f_segs f <> []).
  { destruct sidx_ok; cbn in I.
    - destruct I as (B & M & F & s & L & _). repeat split; auto. exact (last_opt_nonnil _ _ L).
    - exact I. }
  destruct Hc as (Hb & Hm & Hf & Hs).
  destruct (b_kind b) eqn:K; try (destruct sidx_ok; unfold lstep in St; rewrite K in St; discriminate).
  - (* styp *) assert (st' = L3s) by (destruct sidx_ok; unfold lstep in St; rewrite K in St; congruence). subst st'.
    destruct (emit_styp _ _ _ _ K A) as (B & M & F & E). cbn. rewrite B, M, Hb. auto.
  - (* sidx: only directly after a styp / the sidx boxes that follow it *)
    destruct sidx_ok; unfold lstep in St; rewrite K in St; [|discriminate]. injection St as <-.
    cbn in I. destruct I as (_ & _ & _ & s & L & Hn).
    destruct (emit_sidx_seg _ _ _ _ _ K L Hn A) as (B & M & F & E). cbn. rewrite B, M, F, Hb. auto.
  - (* moof *) assert (st' = L3m) by (destruct sidx_ok; unfold lstep in St; rewrite K in St; congruence). subst st'.
    destruct (emit_media _ _ _ _ (or_introl K) (or_intror Hf) A) as (B & M & F & S). cbn. rewrite B, M, Hb. auto.
  - (* mdat *) destruct sidx_ok; unfold lstep in St; rewrite K in St; [discriminate|]. injection St as <-.
    destruct (emit_mdat _ _ _ _ K Hf A) as (B & M & F & S). cbn. rewrite B, M, Hb. auto.
  - (* emsg *) assert (st' = L3m) by (destruct sidx_ok; unfold lstep in St; rewrite K in St; congruence). subst st'.
    destruct (emit_media _ _ _ _ (or_intror K) (or_intror Hf) A) as (B & M & F & S). cbn. rewrite B, M, Hb. auto.
  - (* mfra *) assert (st' = L4) by (destruct sidx_ok; unfold lstep in St; rewrite K in St; congruence). subst st'.
    destruct (emit_mfra _ _ _ _ K A) as (B & M). cbn. rewrite B, M, Hb. reflexivity.
Qed.

Lemma step_switch st f b pos f' pre st' :
  Linv st f pre -> lstep st b = Some st' -> add_child_switch f b pos = Ok f' -> Linv st' f' (pre ++ [b]).
Proof.
  intros I St A. destruct st.
  - (* L0 *)
    destruct (b_kind b) eqn:K; try (unfold lstep in St; rewrite K in St; discriminate).
    + (* ftyp *) unfold lstep in St; rewrite K in St. injection St as <-.
      destruct I as (-> & Hi & _ & Hs & Hg & Hm). unfold add_child_switch in A. rewrite K in A. injection A as <-.
      cbn. exists b. repeat split; auto.
    + apply (step_from_L2 f b pos f' pre st' (Linv_L0_L2 _ _ I)); [|exact A]. unfold lstep in *. rewrite K in *. exact St.
    + (* moov *) unfold lstep in St; rewrite K in St. destruct (b_stts_empty b) eqn:E; [|discriminate]. injection St as <-.
      destruct I as (-> & Hi & Hft & Hs & Hg & Hm). unfold add_child_switch in A. rewrite K, E in A. injection A as <-.
      cbn. unfold body, init_boxes, asb. cbn [f_init f_sidxs f_segs f_mfra]. rewrite Hft, Hs, Hg. cbn. auto.
    + apply (step_from_L2 f b pos f' pre st' (Linv_L0_L2 _ _ I)); [|exact A]. unfold lstep in *. rewrite K in *. exact St.
    + apply (step_from_L2 f b pos f' pre st' (Linv_L0_L2 _ _ I)); [|exact A]. unfold lstep in *. rewrite K in *. exact St.
    + apply (step_from_L2 f b pos f' pre st' (Linv_L0_L2 _ _ I)); [|exact A]. unfold lstep in *. rewrite K in *. exact St.
    + apply (step_from_L2 f b pos f' pre st' (Linv_L0_L2 _ _ I)); [|exact A]. unfold lstep in *. rewrite K in *. exact St.
  - (* L1 *)
    destruct (b_kind b) eqn:K; try (unfold lstep in St; rewrite K in St; discriminate).
    unfold lstep in St; rewrite K in St. destruct (b_stts_empty b) eqn:E; [|discriminate]. injection St as <-.
    destruct I as (ft & -> & Hft & Hi & Hs & Hg & Hm). unfold add_child_switch in A. rewrite K, E in A. injection A as <-.
    cbn. unfold body, init_boxes, asb. cbn [f_init f_sidxs f_segs f_mfra]. rewrite Hft, Hs, Hg. cbn. auto.
  - exact (step_from_L2 _ _ _ _ _ _ I St A).
  - exact (step_from_L3 true _ _ _ _ _ _ I St A).
  - exact (step_from_L3 false _ _ _ _ _ _ I St A).
  - unfold lstep in St. destruct (b_kind b); discriminate.
Qed.

Lemma Linv_children st f pre ch :
  Linv st f pre ->
  Linv st (mkFile (f_ftyp f) (f_moov f) (f_mdat f) (f_init f) (f_sidxs f) (f_tfra f) (f_mfra f) (f_segs f) ch
                  (f_fragmented f) (f_start_on_moof f)) pre.
Proof. destruct st; exact (fun H => H). Qed.

Lemma step_add_child st f b pos f' pre st' :
  Linv st f pre -> lstep st b = Some st' -> add_child f b pos = Ok f' -> Linv st' f' (pre ++ [b]).
Proof.
  intros I St. unfold add_child. destruct (add_child_switch f b pos) as [f1| | |] eqn:A; cbn [rbind]; try discriminate.
  intros [= <-]. apply Linv_children. exact (step_switch _ _ _ _ _ _ _ I St A).
Qed.

Lemma add_children_layout bs : forall st f pos f' pre st',
  Linv st f pre -> lrun st bs = Some st' -> add_children f pos bs = Ok f' -> Linv st' f' (pre ++ bs).
Proof.
  induction bs as [|b t IH]; intros st f pos f' pre st' I R A.
  - cbn in R, A. injection R as <-. injection A as <-. rewrite app_nil_r. exact I.
  - cbn [lrun] in R. destruct (lstep st b) as [st1|] eqn:St; [|discriminate].
    cbn [add_children] in A. destruct (add_child f b pos) as [f1| | |] eqn:A1; cbn [rbind] in A; try discriminate.
    pose proof (step_add_child _ _ _ _ _ _ _ I St A1) as I1.
    specialize (IH _ _ _ _ _ _ I1 R A). rewrite <- app_assoc in IH. exact IH.
Qed.

Lemma Linv_empty som tf : Linv L0 (empty_file som tf) [].
Proof. cbn. auto 10. Qed.

(* ---------------------------------------------------------------- box for box *)
Lemma assemble_emitted o bs f : assemble o bs = Ok f -> layout_ok bs = true -> emitted f = bs.
Proof.
  intros A Hl. destruct (assemble_inv _ _ _ A) as (tf & f0 & _ & D & ->).
  apply decode_loop_add_children in D. unfold layout_ok in Hl.
  destruct (lrun L0 bs) as [st'|] eqn:R; [|discriminate].
  pose proof (add_children_layout _ _ _ _ _ _ _ (Linv_empty _ _) R D) as I. cbn [app] in I.
  assert (E : emitted (clear_tfra f0) = emitted f0) by reflexivity. rewrite E. clear E.
  unfold emitted. destruct st'; cbn in I; try discriminate.
  - destruct I as (-> & Hi & _ & Hs & Hg & Hm). unfold body, init_boxes, asb. rewrite Hi, Hs, Hg, Hm. reflexivity.
  - destruct I as (B & _ & M). rewrite B, M. apply app_nil_r.
  - destruct I as (B & M & _). rewrite B, M. apply app_nil_r.
  - destruct I as (B & M & _). rewrite B, M. apply app_nil_r.
  - exact I.
Qed.

Lemma reencode_boxes o bs f out :
  assemble o bs = Ok f -> layout_ok bs = true -> encode_segment_mode f = Ok out -> out = bs.
Proof.
  intros A Hl E. rewrite (encode_segment_mode_ok _ _ E), emitted_eq. exact (assemble_emitted _ _ _ A Hl).
Qed.

(* ---------------------------------------------------------------- byte for byte *)
From V.c12 Require Import C12ShapeProofs.

Lemma bytes_eqb_eq a : forall b, bytes_eqb a b = true -> a = b.
Proof.
  induction a as [|x a IH]; intros [|y b]; cbn; try discriminate; [reflexivity|].
  intros H. apply andb_true_iff in H. destruct H as [H1 H2]. apply N.eqb_eq in H1. subst. f_equal. auto.
Qed.

Lemma doffs_ok_mid env xs m d ys : doffs_ok env (xs ++ m :: d :: ys) = true -> pair_ok env m d = true.
Proof.
  induction xs as [|x xs IH]; cbn [app doffs_ok]; intros H; apply andb_true_iff in H; destruct H as [H1 H2].
  - exact H1.
  - apply IH. exact H2.
Qed.

Lemma In_concat_split {A} (ll : list (list A)) l : In l ll -> exists a b, concat ll = a ++ l ++ b.
Proof.
  induction ll as [|h t IH]; [contradiction|]. intros [-> | H].
  - exists [], (concat t). reflexivity.
  - destruct (IH H) as (a & b & E). exists (h ++ a), b. cbn [concat]. rewrite E, <- app_assoc. reflexivity.
Qed.

Lemma frag_in_emitted f s fr :
  In s (f_segs f) -> In fr (sg_frags s) -> exists a b, emitted f = a ++ fr_children fr ++ b.
Proof.
  intros Hs Hf.
  destruct (In_concat_split (map fr_children (sg_frags s)) (fr_children fr) (in_map _ _ _ Hf)) as (a1 & b1 & E1).
  destruct (In_concat_split (map seg_boxes (f_segs f)) (seg_boxes s) (in_map _ _ _ Hs)) as (a2 & b2 & E2).
  unfold emitted, body, asb. rewrite E2. unfold seg_boxes, seg_fragment_boxes. rewrite E1.
  exists (init_boxes f ++ map sx_box (f_sidxs f) ++ a2 ++ opt_list (sg_styp s) ++ map sx_box (sg_sidxs s) ++ a1),
         (b1 ++ b2 ++ opt_list (f_mfra f)).
  rewrite <- !app_assoc. reflexivity.
Qed.

Section Bytes.
Variable env : N -> binfo.

Lemma enc_child_in fr m d b :
  fr_moof fr = Some m -> fr_mdat fr = Some d -> b_kind m = KMoof -> b_kind d = KMdat ->
  pair_ok env m d = true -> enc0 env b = in0 env b -> enc_child env fr b = in0 env b.
Proof.
  intros Hm Hd Km Kd P S. unfold enc_child. rewrite Hm, Hd.
  destruct (bi_doff (env (b_tag b))) as [off|] eqn:Eo; [|exact S].
  destruct (kind_eqb (b_kind b) KMoof && (b_tag b =? b_tag m)) eqn:C; [|exact S].
  apply andb_true_iff in C. destruct C as [_ C]. apply N.eqb_eq in C.
  unfold pair_ok in P. rewrite Km, Kd in P. cbn [kind_eqb andb] in P.
  unfold in0, enc0 in *. rewrite C in *. rewrite Eo in P. rewrite S. apply bytes_eqb_eq. exact P.
Qed.

Definition frag_good (fr : fragment) : Prop := frag_bytes env fr = Ok (map (in0 env) (fr_children fr)).

Lemma frags_bytes_good frs :
  Forall frag_good frs -> frags_bytes env frs = Ok (map (in0 env) (concat (map fr_children frs))).
Proof.
  induction 1 as [|fr t H _ IH]; [reflexivity|]. cbn [frags_bytes map concat]. rewrite H, IH. cbn [rbind].
  rewrite map_app. reflexivity.
Qed.

Lemma segs_bytes_good segs :
  Forall (fun s => Forall frag_good (sg_frags s)) segs ->
  (forall b, In b (asb segs) -> enc0 env b = in0 env b) ->
  segs_bytes env segs = Ok (map (in0 env) (asb segs)).
Proof.
  induction 1 as [|s t H _ IH]; intros St; [reflexivity|]. cbn [segs_bytes]. unfold seg_bytes.
  rewrite (frags_bytes_good _ H). cbn [rbind]. rewrite IH.
  2:{ intros b Hb. apply St. unfold asb. cbn [map concat]. apply in_or_app. right. exact Hb. }
  cbn [rbind]. unfold asb. cbn [map concat]. unfold seg_boxes at 2, seg_fragment_boxes. rewrite !map_app. f_equal.
  assert (Hh : forall l, (forall b, In b l -> In b (seg_boxes s)) -> map (enc0 env) l = map (in0 env) l).
  { intros l Hl. apply map_ext_in. intros b Hb. apply St. unfold asb. cbn [map concat]. apply in_or_app. left. auto. }
  rewrite (Hh (opt_list (sg_styp s))), (Hh (map sx_box (sg_sidxs s))); [rewrite <- !app_assoc; reflexivity| |];
    intros b Hb; unfold seg_boxes; apply in_or_app; [right; apply in_or_app|]; left; exact Hb.
Qed.

Lemma file_bytes_good f :
  Forall (fun s => Forall frag_good (sg_frags s)) (f_segs f) ->
  (forall b, In b (emitted f) -> enc0 env b = in0 env b) ->
  file_bytes env f = Ok (map (in0 env) (emitted f)).
Proof.
  intros Hf St. unfold file_bytes. rewrite segs_bytes_good; [|exact Hf|].
  2:{ intros b Hb. apply St. unfold emitted, body. apply in_or_app. left. apply in_or_app. right. apply in_or_app. right. exact Hb. }
  cbn [rbind]. unfold emitted, body. rewrite !map_app. fold (init_boxes f).
  assert (Hh : forall l, (forall b, In b l -> In b (emitted f)) -> map (enc0 env) l = map (in0 env) l).
  { intros l Hl. apply map_ext_in. intros b Hb. apply St. auto. }
  rewrite (Hh (init_boxes f)), (Hh (map sx_box (f_sidxs f))), (Hh (opt_list (f_mfra f))).
  - rewrite <- !app_assoc. reflexivity.
  - intros b Hb. unfold emitted. apply in_or_app. right. exact Hb.
  - intros b Hb. unfold emitted, body. apply in_or_app. left. apply in_or_app. right. apply in_or_app. left. exact Hb.
  - intros b Hb. unfold emitted, body. apply in_or_app. left. apply in_or_app. left. exact Hb.
Qed.

Lemma stable_eq b : stable env b = true -> enc0 env b = in0 env b.
Proof. apply bytes_eqb_eq. Qed.

Lemma reencode_identical o bs f out :
  assemble o bs = Ok f -> layout_ok bs = true -> encode_segment_mode f = Ok out ->
  forallb (stable env) bs = true -> doffs_ok env bs = true ->
  out = bs /\ file_bytes env f = Ok (map (in0 env) bs) /\ reencode env o bs = Ok (concat (map (in0 env) bs)).
Proof.
  intros A Hl E Hst Hd. pose proof (assemble_emitted _ _ _ A Hl) as Em.
  split; [exact (reencode_boxes _ _ _ _ A Hl E)|].
  assert (St : forall b, In b (emitted f) -> enc0 env b = in0 env b).
  { rewrite Em. intros b Hb. apply stable_eq. rewrite forallb_forall in Hst. auto. }
  assert (Fb : file_bytes env f = Ok (map (in0 env) bs)).
  { rewrite <- Em. apply file_bytes_good; [|exact St].
    destruct (segment_mode_encode _ _ _ _ A E) as (_ & _ & Hc). pose proof (fragment_shape _ _ _ A) as Hsh.
    apply Forall_forall. intros s Hs. apply Forall_forall. intros fr Hfr.
    rewrite Forall_forall in Hc, Hsh. specialize (Hc s Hs). specialize (Hsh s Hs).
    rewrite Forall_forall in Hc, Hsh. destruct (Hc fr Hfr) as [Cm Cd]. specialize (Hsh fr Hfr).
    destruct (fr_moof fr) as [m|] eqn:Fm; [|discriminate]. destruct (fr_mdat fr) as [d|] eqn:Fd; [|discriminate].
    destruct Hsh as (es1 & es2 & _ & _ & Hch). rewrite Fm, Fd in Hch. destruct Hch as (Hch & Km & Kd).
    destruct (frag_in_emitted _ _ _ Hs Hfr) as (a & b & Ein). rewrite Em, Hch in Ein.
    assert (P : pair_ok env m d = true).
    { apply (doffs_ok_mid env (a ++ es1) m d (es2 ++ b)). rewrite Ein in Hd. rewrite <- !app_assoc in Hd |- *. exact Hd. }
    unfold frag_good, frag_bytes. rewrite Fm, Fd. f_equal. apply map_ext_in. intros c Hc'.
    apply (enc_child_in fr m d c Fm Fd Km Kd P). apply St. rewrite Em, Ein.
    apply in_or_app. right. apply in_or_app. left. rewrite <- Hch. exact Hc'. }
  split; [exact Fb|]. unfold reencode. rewrite A. cbn [rbind]. rewrite Fb. reflexivity.
Qed.
End Bytes.
