(* C12C01Proofs.v — the per-box hypothesis `stable` of C12_reencode_identical discharged by C01's box model
   (coq/c01, read-only): the bytes box.Encode writes for the box decoded from a byte string x are
   C01Model.raw_box false of C01Model.decode x; for x written by the library itself (the encoding of any exactly
   decoded tree: C01's fixpoint_full = C01_fixpoint) or for x whose decoded tree has no reason to differ
   (why_box = []: C01_fixpoint_partial) these are x again. *)
From V.lib Require Import Base.
From V.c05 Require Import C05CodecModel.
From V.c02 Require Import C02AggModel C02AggFragProofs C02AggScanProofs.
From V.c01 Require C01Model C01FixProofs C01WhyProofs.
From V.c12 Require Import C12Model C12Spec C12PartProofs C12EncProofs C12Bytes C12BytesProofs C12StreamProofs C12C01Model.

(* x is the encoding (Box.Encode of the Go code) of a tree that DecodeBoxSR returned for some input bs, exactly decoded:
   x went through the library once *)
Definition c01_written (x : list N) : Prop :=
  exists bs t, bytes_ok bs = true /\ C01Model.decode bs = Ok (t, []) /\ C01Model.exact_box t = true /\
               C01Model.raw_box false t = Ok x.

(* x decodes to a tree about which the model has nothing to report (exact, all captured reserved bytes have the
   encoder's values) *)
Definition c01_plain (x : list N) : Prop :=
  bytes_ok x = true /\ exists t, C01Model.decode x = Ok (t, []) /\ C01Model.why_box t = [].

Definition c01_box (x : list N) : Prop := c01_written x \/ c01_plain x.

Lemma c01_reenc_fix x : c01_box x -> c01_reenc x = x.
Proof.
  intros [(bs & t & Hok & Hd & Hex & Hr) | (Hok & t & Hd & Hw)].
  - destruct (C01FixProofs.fixpoint_full bs t Hok Hd Hex) as (enc & He & _ & _ & _ & _ & Hd2 & _ & Hr2 & _).
    rewrite Hr in He. injection He as <-. unfold c01_reenc. rewrite Hd2, Hr2. reflexivity.
  - destruct (C01WhyProofs.fixpoint_partial x t Hok Hd Hw) as (enc & He & _ & _ & ->).
    unfold c01_reenc. rewrite Hd, He. reflexivity.
Qed.

Lemma bytes_eqb_refl a : bytes_eqb a a = true.
Proof. induction a as [|x a IH]; [reflexivity|]. cbn [bytes_eqb]. rewrite N.eqb_refl, IH. reflexivity. Qed.

Lemma c01_stable inb doff bs :
  (forall b, In b bs -> c01_box (inb (b_tag b))) -> forallb (stable (c01_env inb doff)) bs = true.
Proof.
  intros H. apply forallb_forall. intros b Hb. unfold stable, enc0, in0, c01_env. cbn [bi_enc bi_in].
  rewrite (c01_reenc_fix _ (H b Hb)). apply bytes_eqb_refl.
Qed.

Lemma reencode_identical_c01 inb doff o bs f out :
  assemble o bs = Ok f -> layout_ok bs = true -> encode_segment_mode f = Ok out ->
  (forall b, In b bs -> c01_box (inb (b_tag b))) ->
  doffs_ok (c01_env inb doff) bs = true ->
  all_ok (map (fun b => inb (b_tag b)) bs) ->
  let stream := concat (map (fun b => inb (b_tag b)) bs) in
  scan (length bs) stream = Some (map (fun b => inb (b_tag b)) bs) /\
  out = bs /\
  reencode (c01_env inb doff) o bs = Ok stream.
Proof.
  intros A Hl E Hc Hd Hok. cbn zeta.
  assert (Ein : map (in0 (c01_env inb doff)) bs = map (fun b => inb (b_tag b)) bs) by reflexivity.
  rewrite <- Ein in *.
  destruct (reencode_stream (c01_env inb doff) o bs f out A Hl E (c01_stable inb doff bs Hc) Hd Hok)
    as (S1 & S2 & w & _ & _ & _ & S3).
  auto.
Qed.

(* ---------------------------------------------------------------- the hypotheses are satisfiable *)
(* `styp moof mdat` as written by the library (mp4.NewStyp, CreateFragment(7, 1) with two samples, the first with
   composition offset 3000; trun version 1, data offset 124 = 116 + 8 at byte 80 of the moof) *)
Definition x_styp : list N := [0; 0; 0; 20; 115; 116; 121; 112; 99; 109; 102; 115; 0; 0; 0; 0; 100; 97; 115; 104].
Definition x_moof : list N :=
  [0; 0; 0; 116; 109; 111; 111; 102; 0; 0; 0; 16; 109; 102; 104; 100; 0; 0; 0; 0; 0; 0; 0; 7; 0; 0; 0; 92; 116; 114; 97; 102;
   0; 0; 0; 16; 116; 102; 104; 100; 0; 2; 0; 0; 0; 0; 0; 1; 0; 0; 0; 16; 116; 102; 100; 116; 0; 0; 0; 0; 0; 1; 95; 144;
   0; 0; 0; 52; 116; 114; 117; 110; 1; 0; 15; 1; 0; 0; 0; 2; 0; 0; 0; 124; 0; 0; 3; 232; 0; 0; 0; 4; 2; 0; 0; 0; 0; 0; 11; 184;
   0; 0; 3; 232; 0; 0; 0; 4; 2; 0; 0; 0; 0; 0; 0; 0].
Definition x_mdat : list N := [0; 0; 0; 16; 109; 100; 97; 116; 1; 2; 3; 0; 1; 2; 3; 1].

Definition x_inb (tag : N) : list N := if tag =? 0 then x_styp else if tag =? 1 then x_moof else x_mdat.
Definition x_doff (tag : N) : option N := if tag =? 1 then Some 80 else None.
Definition x_boxes : list topbox :=
  number_from 0 [rb KStyp 20;
                 mkBox KMoof 0 116 8 0 [] false [] false [mkTraf 1 90000 [[1000; 1000]] 3000] [] 0 0 0 0;
                 rb KMdat 16].

Lemma c01_plain_by_compute x :
  bytes_ok x = true ->
  match C01Model.decode x with
  | Ok (t, []) => match C01Model.why_box t with [] => true | _ => false end
  | _ => false
  end = true -> c01_plain x.
Proof.
  intros Hok H. split; [exact Hok|].
  destruct (C01Model.decode x) as [[t r]| | |]; try discriminate. destruct r; [|discriminate].
  exists t. split; [reflexivity|]. destruct (C01Model.why_box t); [reflexivity|discriminate].
Qed.

Lemma reencode_c01_example :
  (forall b, In b x_boxes -> c01_box (x_inb (b_tag b))) /\
  layout_ok x_boxes = true /\ doffs_ok (c01_env x_inb x_doff) x_boxes = true /\
  all_ok (map (fun b => x_inb (b_tag b)) x_boxes) /\
  exists f out, assemble (mkOpts false false) x_boxes = Ok f /\ encode_segment_mode f = Ok out /\
                lenN (concat (map (fun b => x_inb (b_tag b)) x_boxes)) = 152.
Proof.
  split; [|split; [|split; [|split]]].
  - intros b Hb. right. cbn in Hb.
    destruct Hb as [<- | [<- | [<- | []]]]; apply c01_plain_by_compute; vm_compute; reflexivity.
  - vm_compute; reflexivity.
  - vm_compute; reflexivity.
  - cbn [x_boxes number_from map]. repeat constructor.
  - eexists _, _. split; [vm_compute; reflexivity|]. split; vm_compute; reflexivity.
Qed.
