(* C12SegBytesProofs.v — from the byte stream to the segment partition.  The stream is the concatenation of the
   bytes of the top-level boxes (each as long as its Size()); for a layout of C12Bytes.layout_ok the assembly's
   StartPos values are BYTE OFFSETS into that stream, the stream splits at them into the segments and their
   fragments, and the box that C05's byte-level reader (coq/c05 C05SegCodecModel.next_box / dec_top_box,
   read-only) decodes at the offset of a fragment's child is that child. *)
From V.lib Require Import Base.
From V.c05 Require Import C05CodecModel.
From V.c05 Require C05SegCodecModel.
From V.c02 Require Import C02AggModel C02AggScanProofs.
From V.c12 Require Import C12Model C12Spec C12PartProofs C12EncProofs C12Sidx C12SidxProofs C12Bytes C12BytesProofs C12PosProofs.

Section Env.
Variable env : N -> binfo.

Definition bytes_of (l : list topbox) : list N := concat (map (in0 env) l).
Definition sized (l : list topbox) : Prop := Forall (fun b => lenN (in0 env b) = b_size b) l.

Lemma bytes_of_app a b : bytes_of (a ++ b) = bytes_of a ++ bytes_of b.
Proof. unfold bytes_of. rewrite map_app, concat_app. reflexivity. Qed.

Lemma lenN_app {A} (a b : list A) : lenN (a ++ b) = lenN a + lenN b.
Proof. unfold lenN. rewrite app_length. lia. Qed.

Lemma lenN_bytes_of l : sized l -> lenN (bytes_of l) = sumN (map b_size l).
Proof.
  induction 1 as [|b l Hb _ IH]; [reflexivity|].
  unfold bytes_of in *. cbn [map concat sumN]. rewrite lenN_app, IH, Hb. reflexivity.
Qed.

Lemma skipn_lenN {A} (a b : list A) : skipn (N.to_nat (lenN a)) (a ++ b) = b.
Proof.
  unfold lenN. rewrite Nat2N.id. rewrite skipn_app, skipn_all, Nat.sub_diag. reflexivity.
Qed.

(* a prefix of a stream that does not wrap: the loop's running position is the byte offset *)
Lemma located bs pre rest :
  bs = pre ++ rest -> sized bs -> sumN (map b_size bs) < M64 ->
  posn pre = lenN (bytes_of pre) /\ skipn (N.to_nat (lenN (bytes_of pre))) (bytes_of bs) = bytes_of rest.
Proof.
  intros -> Hs Hlt. apply Forall_app in Hs. destruct Hs as [Hp _].
  rewrite map_app, sumN_app in Hlt. split.
  - rewrite (lenN_bytes_of _ Hp). apply posn_small. unfold M64 in Hlt. lia.
  - rewrite bytes_of_app. apply skipn_lenN.
Qed.
End Env.

Lemma split_nth {A} (l : list A) : forall n x, nth_error l n = Some x -> l = firstn n l ++ x :: skipn (S n) l.
Proof.
  induction l as [|a t IH]; intros [|n] x H; try discriminate.
  - injection H as <-. reflexivity.
  - cbn [nth_error] in H. cbn [firstn skipn app]. f_equal. exact (IH _ _ H).
Qed.

Lemma asb_app a b : asb (a ++ b) = asb a ++ asb b.
Proof. apply concat_map_app. Qed.

Lemma frs_boxes_app a b : frs_boxes (a ++ b) = frs_boxes a ++ frs_boxes b.
Proof. apply concat_map_app. Qed.

(* C05's reader is local: what it decodes from the bytes of one whole box it decodes from any stream that starts
   with these bytes *)
Lemma next_box_local x tail ty sz hl body :
  C05SegCodecModel.next_box x = Ok (ty, sz, hl, body, []) ->
  C05SegCodecModel.next_box (x ++ tail) = Ok (ty, sz, hl, body, tail).
Proof.
  unfold C05SegCodecModel.next_box, C05SegCodecModel.dec_header.
  destruct (rd32 x) as [[s l1]|] eqn:E1; cbn [rbind]; [|discriminate].
  rewrite (rd32_app _ tail _ _ E1).
  destruct l1 as [|a [|b [|c [|d l2]]]]; cbn [rbind]; try discriminate. cbn [app].
  assert (Hskip : forall (l : list N) n, lenN l <? n = false -> skipn (N.to_nat n) l = [] ->
                   firstn (N.to_nat n) (l ++ tail) = firstn (N.to_nat n) l /\ skipn (N.to_nat n) (l ++ tail) = tail /\
                   (lenN (l ++ tail) <? n = false)).
  { intros l n Hn Hk. apply N.ltb_ge in Hn. unfold lenN in Hn.
    assert (Hl : length l = N.to_nat n).
    { assert (length (skipn (N.to_nat n) l) = 0%nat) by (rewrite Hk; reflexivity).
      rewrite skipn_length in H. lia. }
    rewrite firstn_app, skipn_app, Hl, Nat.sub_diag. cbn [firstn skipn]. rewrite app_nil_r.
    rewrite <- Hl, skipn_all, firstn_all. repeat split.
    apply N.ltb_ge. unfold lenN. rewrite app_length. lia. }
  destruct (s =? 1).
  - destruct (rd64 l2) as [[big l3]|] eqn:E2; cbn [rbind]; [|discriminate]. rewrite (rd64_app _ tail _ _ E2).
    destruct (big <? 16); cbn [rbind]; [discriminate|].
    destruct (lenN l3 <? big - 16) eqn:Hn; [discriminate|]. intros [= <- <- <- <- Hk].
    destruct (Hskip _ _ Hn Hk) as (F & S & L). rewrite L, F, S. reflexivity.
  - destruct (s =? 0); cbn [rbind]; [discriminate|]. destruct (s <? 8); cbn [rbind]; [discriminate|].
    destruct (lenN l2 <? s - 8) eqn:Hn; [discriminate|]. intros [= <- <- <- <- Hk].
    destruct (Hskip _ _ Hn Hk) as (F & S & L). rewrite L, F, S. reflexivity.
Qed.

(* ---------------------------------------------------------------- the theorem *)
Lemma partition_bytes env o bs f :
  assemble o bs = Ok f -> layout_ok bs = true ->
  sized env bs -> sumN (map b_size bs) < M64 ->
  bs = hdr f ++ asb (f_segs f) ++ opt_list (f_mfra f) /\
  forall i s, nth_error (f_segs f) i = Some s ->
    let pre := hdr f ++ asb (firstn i (f_segs f)) in
    let post := asb (skipn (S i) (f_segs f)) ++ opt_list (f_mfra f) in
    bs = pre ++ seg_boxes s ++ post /\
    sg_start s = lenN (bytes_of env pre) /\
    skipn (N.to_nat (sg_start s)) (bytes_of env bs) = bytes_of env (seg_boxes s) ++ bytes_of env post /\
    forall j fr, nth_error (sg_frags s) j = Some fr ->
      let fpre := pre ++ seg_head s ++ frs_boxes (firstn j (sg_frags s)) in
      let fpost := frs_boxes (skipn (S j) (sg_frags s)) ++ post in
      bs = fpre ++ fr_children fr ++ fpost /\
      fr_start fr = lenN (bytes_of env fpre) /\
      forall k c, nth_error (fr_children fr) k = Some c ->
        let off := fr_start fr + sumN (map b_size (firstn k (fr_children fr))) in
        exists tail, skipn (N.to_nat off) (bytes_of env bs) = in0 env c ++ tail /\
          forall ty sz hl body,
            C05SegCodecModel.next_box (in0 env c) = Ok (ty, sz, hl, body, []) ->
            C05SegCodecModel.next_box (skipn (N.to_nat off) (bytes_of env bs)) = Ok (ty, sz, hl, body, tail).
Proof.
  intros A Hl Hs Hlt.
  pose proof (assemble_emitted _ _ _ A Hl) as Em. unfold emitted in Em. rewrite body_hdr, <- app_assoc in Em.
  pose proof (assemble_pos _ _ _ A Hl) as P. unfold PosInv in P.
  split; [symmetry; exact Em|].
  intros i s Hi. cbn zeta.
  pose proof (split_nth _ _ _ Hi) as Es.
  assert (E1 : bs = (hdr f ++ asb (firstn i (f_segs f))) ++ seg_boxes s ++ asb (skipn (S i) (f_segs f)) ++ opt_list (f_mfra f)).
  { rewrite <- Em. rewrite Es at 1. rewrite asb_app. unfold asb at 2. cbn [map concat]. fold (asb (skipn (S i) (f_segs f))).
    rewrite <- !app_assoc. reflexivity. }
  destruct (segs_pos_nth _ _ _ _ P Hi) as [Q1 Q2].
  destruct (located env bs _ _ E1 Hs Hlt) as [L1 L2].
  split; [exact E1|]. split; [rewrite Q1; exact L1|]. split.
  { rewrite Q1, L1, L2, bytes_of_app. reflexivity. }
  intros j fr Hj.
  pose proof (split_nth _ _ _ Hj) as Ef.
  assert (E2 : bs = (hdr f ++ asb (firstn i (f_segs f)) ++ seg_head s ++ frs_boxes (firstn j (sg_frags s))) ++
                    fr_children fr ++ frs_boxes (skipn (S j) (sg_frags s)) ++ asb (skipn (S i) (f_segs f)) ++ opt_list (f_mfra f)).
  { rewrite E1 at 1. rewrite seg_boxes_head. unfold seg_fragment_boxes. fold (frs_boxes (sg_frags s)).
    rewrite Ef at 1. rewrite frs_boxes_app. unfold frs_boxes at 2. cbn [map concat]. fold (frs_boxes (skipn (S j) (sg_frags s))).
    rewrite <- !app_assoc. reflexivity. }
  destruct (located env bs _ _ E2 Hs Hlt) as [M1 M2].
  rewrite <- !app_assoc. split; [rewrite E2 at 1; rewrite <- !app_assoc; reflexivity|].
  rewrite (Q2 j fr Hj). split; [exact M1|].
  intros k c Hk.
  pose proof (split_nth _ _ _ Hk) as Ec.
  set (rest := frs_boxes (skipn (S j) (sg_frags s)) ++ asb (skipn (S i) (f_segs f)) ++ opt_list (f_mfra f)) in *.
  set (fpre := hdr f ++ asb (firstn i (f_segs f)) ++ seg_head s ++ frs_boxes (firstn j (sg_frags s))) in *.
  assert (E3 : bs = (fpre ++ firstn k (fr_children fr)) ++ [c] ++ skipn (S k) (fr_children fr) ++ rest).
  { rewrite E2 at 1. rewrite Ec at 1. rewrite <- !app_assoc. reflexivity. }
  destruct (located env bs _ _ E3 Hs Hlt) as [_ N2].
  assert (Hoff : posn fpre + sumN (map b_size (firstn k (fr_children fr))) = lenN (bytes_of env (fpre ++ firstn k (fr_children fr)))).
  { rewrite M1, bytes_of_app, lenN_app. f_equal. symmetry. apply lenN_bytes_of.
    rewrite E3 in Hs. unfold sized in Hs. apply Forall_app in Hs. destruct Hs as [Hs _].
    apply Forall_app in Hs. exact (proj2 Hs). }
  rewrite Hoff, N2. exists (bytes_of env (skipn (S k) (fr_children fr) ++ rest)).
  assert (Eb : bytes_of env ([c] ++ skipn (S k) (fr_children fr) ++ rest) =
               in0 env c ++ bytes_of env (skipn (S k) (fr_children fr) ++ rest)).
  { rewrite bytes_of_app. unfold bytes_of at 1. cbn [map concat]. rewrite app_nil_r. reflexivity. }
  rewrite Eb. split; [reflexivity|]. intros ty sz hl body Hn. apply next_box_local. exact Hn.
Qed.

(* ---------------------------------------------------------------- the moof/mdat pair of a fragment *)
Lemma skipn_add {A} (l : list A) : forall a b, skipn (a + b) l = skipn b (skipn a l).
Proof.
  induction l as [|x t IH]; intros a b.
  - rewrite !skipn_nil. reflexivity.
  - destruct a as [|a]; [reflexivity|]. cbn [Nat.add skipn]. apply IH.
Qed.

Lemma skipn_exact {A} (a b : list A) : skipn (length a) (a ++ b) = b.
Proof. rewrite skipn_app, skipn_all, Nat.sub_diag. reflexivity. Qed.

Lemma partition_bytes_pair env o bs f i s j fr m d :
  assemble o bs = Ok f -> layout_ok bs = true ->
  sized env bs -> sumN (map b_size bs) < M64 ->
  nth_error (f_segs f) i = Some s -> nth_error (sg_frags s) j = Some fr ->
  fr_moof fr = Some m -> fr_mdat fr = Some d ->
  exists es1 es2 tail,
    all_emsg es1 = true /\ all_emsg es2 = true /\ fr_children fr = es1 ++ m :: d :: es2 /\
    b_kind m = KMoof /\ b_kind d = KMdat /\
    let moff := fr_start fr + sumN (map b_size es1) in
    skipn (N.to_nat moff) (bytes_of env bs) = in0 env m ++ in0 env d ++ tail /\
    (forall ty sz hl body,
        C05SegCodecModel.next_box (in0 env m) = Ok (ty, sz, hl, body, []) ->
        C05SegCodecModel.next_box (skipn (N.to_nat moff) (bytes_of env bs)) = Ok (ty, sz, hl, body, in0 env d ++ tail)) /\
    (forall ty sz hl body,
        C05SegCodecModel.next_box (in0 env d) = Ok (ty, sz, hl, body, []) ->
        C05SegCodecModel.next_box (skipn (N.to_nat (moff + b_size m)) (bytes_of env bs)) = Ok (ty, sz, hl, body, tail)).
Proof.
  intros A Hl Hs Hlt Hi Hj Hm Hd.
  pose proof (C12ShapeProofs.fragment_shape _ _ _ A) as Sh.
  rewrite Forall_forall in Sh. pose proof (Sh s (nth_error_In _ _ Hi)) as Sh1.
  rewrite Forall_forall in Sh1. pose proof (Sh1 fr (nth_error_In _ _ Hj)) as (es1 & es2 & He1 & He2 & Hc).
  rewrite Hm, Hd in Hc. destruct Hc as (Hc & Km & Kd).
  destruct (partition_bytes env o bs f A Hl Hs Hlt) as [Hbs Hp].
  destruct (Hp i s Hi) as (E1 & _ & _ & Hf). destruct (Hf j fr Hj) as (E2 & _ & Hk).
  assert (N1 : nth_error (fr_children fr) (length es1) = Some m).
  { rewrite Hc, nth_error_app2, Nat.sub_diag by lia. reflexivity. }
  assert (N2 : nth_error (fr_children fr) (S (length es1)) = Some d).
  { rewrite Hc, nth_error_app2 by lia. replace (S (length es1) - length es1)%nat with 1%nat by lia. reflexivity. }
  destruct (Hk _ _ N1) as (t1 & S1 & D1). destruct (Hk _ _ N2) as (t2 & S2 & D2).
  assert (F1 : firstn (length es1) (fr_children fr) = es1).
  { rewrite Hc, firstn_app, firstn_all, Nat.sub_diag. cbn [firstn]. apply app_nil_r. }
  assert (F2 : firstn (S (length es1)) (fr_children fr) = es1 ++ [m]).
  { rewrite Hc, firstn_app, firstn_all2 by lia. replace (S (length es1) - length es1)%nat with 1%nat by lia. reflexivity. }
  rewrite F1 in S1, D1. rewrite F2, map_app, sumN_app in S2, D2. cbn [map sumN] in S2, D2.
  rewrite N.add_0_r, N.add_assoc in S2, D2.
  assert (Lm : lenN (in0 env m) = b_size m).
  { unfold sized in Hs. rewrite Forall_forall in Hs. apply Hs. rewrite E2, Hc.
    apply in_or_app. right. apply in_or_app. left. apply in_or_app. right. left. reflexivity. }
  assert (T1 : t1 = in0 env d ++ t2).
  { rewrite <- S2. rewrite N2Nat.inj_add, skipn_add, S1, <- Lm. unfold lenN. rewrite Nat2N.id. symmetry. apply skipn_exact. }
  exists es1, es2, t2. cbn zeta. rewrite <- T1. repeat split; auto.
Qed.
