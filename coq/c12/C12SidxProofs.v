(* C12SidxProofs.v — after UpdateSidx and segment-mode encoding the references of the first
   top-level sidx tile the media: reference i starts at the first byte of segment i, together they
   end where the media ends, durations are the summed sample durations of the reference track. *)
From V.lib Require Import Base.
From V.c12 Require Import C12Model C12Spec C12PartProofs C12EncProofs C12Sidx.

(* ---------------------------------------------------------------- spec side *)
(* summed sample durations of track `id` in a fragment / a segment (unbounded) *)
Definition traf_ref_dur (id : N) (t : traf) : N :=
  if t_track t =? id then sumN (concat (t_truns t)) else 0.
Definition frag_ref_dur (id : N) (fr : fragment) : N :=
  match fr_moof fr with Some m => sumN (map (traf_ref_dur id) (b_trafs m)) | None => 0 end.
Definition seg_ref_dur (id : N) (s : segment) : N := sumN (map (frag_ref_dur id) (sg_frags s)).

Definition sizes_of (l : list topbox) : N := sumN (map b_size l).

Lemma sizes_of_app a b : sizes_of (a ++ b) = sizes_of a + sizes_of b.
Proof. unfold sizes_of. rewrite map_app, sumN_app. reflexivity. Qed.

(* ---------------------------------------------------------------- sizes *)
Lemma sizes_concat (ll : list (list topbox)) : sizes_of (concat ll) = sumN (map sizes_of ll).
Proof.
  induction ll as [|l t IH]; [reflexivity|]. cbn [concat map sumN]. rewrite sizes_of_app, IH. reflexivity.
Qed.

Lemma seg_size_boxes s : seg_size s = sizes_of (seg_boxes s).
Proof.
  unfold seg_size, seg_boxes. rewrite !sizes_of_app.
  assert (E1 : match sg_styp s with Some b => b_size b | None => 0 end = sizes_of (opt_list (sg_styp s))).
  { unfold sizes_of. destruct (sg_styp s); cbn [opt_list map sumN]; lia. }
  assert (E2 : sumN (map (fun sx => b_size (sx_box sx)) (sg_sidxs s)) = sizes_of (map sx_box (sg_sidxs s))).
  { unfold sizes_of. rewrite map_map. reflexivity. }
  assert (E3 : sumN (map frag_size (sg_frags s)) = sizes_of (seg_fragment_boxes s)).
  { unfold seg_fragment_boxes. rewrite sizes_concat, map_map. reflexivity. }
  rewrite E1, E2, E3. lia.
Qed.

Lemma sizes_firstn_segs segs i :
  sumN (firstn i (map seg_size segs)) = sizes_of (concat (map seg_boxes (firstn i segs))).
Proof.
  rewrite sizes_concat, map_map, <- firstn_map. f_equal. f_equal.
  apply map_ext. intros s. apply seg_size_boxes.
Qed.

(* ---------------------------------------------------------------- durations *)
Definition M32 : N := 4294967296.

Lemma mod_lt_M32 x : x mod M32 < M32.
Proof. apply N.mod_lt. unfold M32. lia. Qed.

Lemma fold_u32' l : forall a, a < M32 -> fold_left (fun d x => u32 (d + x)) l a = (a + sumN l) mod M32.
Proof.
  induction l as [|x t IH]; intros a Ha.
  - cbn. rewrite N.add_0_r, N.mod_small; auto.
  - cbn [fold_left sumN]. unfold u32 at 2. change 4294967296 with M32. rewrite IH by apply mod_lt_M32.
    rewrite N.add_mod_idemp_l by (unfold M32; lia). f_equal. lia.
Qed.

Lemma traf_step_dur id ff a t :
  a_dur a < M32 ->
  a_dur (traf_step id ff a t) = (a_dur a + traf_ref_dur id t) mod M32.
Proof.
  intros Ha. unfold traf_step, traf_ref_dur. destruct (t_track t =? id).
  - cbn [a_dur]. apply fold_u32'. exact Ha.
  - rewrite N.add_0_r, N.mod_small; auto.
Qed.

Lemma trafs_fold_dur id ff ts : forall a,
  a_dur a < M32 ->
  a_dur (fold_left (traf_step id ff) ts a) = (a_dur a + sumN (map (traf_ref_dur id) ts)) mod M32.
Proof.
  induction ts as [|t r IH]; intros a Ha.
  - cbn. rewrite N.add_0_r, N.mod_small; auto.
  - cbn [fold_left map sumN]. rewrite IH.
    + rewrite traf_step_dur by exact Ha. rewrite N.add_mod_idemp_l by (unfold M32; lia). f_equal. lia.
    + rewrite traf_step_dur by exact Ha. apply mod_lt_M32.
Qed.

Lemma frags_step_dur id frs : forall ff a a',
  a_dur a < M32 ->
  frags_step id ff a frs = Ok a' ->
  a_dur a' = (a_dur a + sumN (map (frag_ref_dur id) frs)) mod M32.
Proof.
  induction frs as [|fr t IH]; intros ff a a' Ha.
  - cbn. intros [= <-]. rewrite N.add_0_r, N.mod_small; auto.
  - cbn [frags_step]. destruct (fr_moof fr) as [m|] eqn:Mf; [|discriminate].
    intros H. apply IH in H.
    + rewrite H, trafs_fold_dur by exact Ha. cbn [map sumN]. unfold frag_ref_dur at 2. rewrite Mf.
      rewrite N.add_mod_idemp_l by (unfold M32; lia). f_equal. lia.
    + rewrite trafs_fold_dur by exact Ha. apply mod_lt_M32.
Qed.

Lemma seg_data_of_facts id s d :
  seg_data_of id s = Ok d ->
  sd_size d = u32 (seg_size s) /\ sd_dur d = seg_ref_dur id s mod M32 /\ sd_start d = sg_start s.
Proof.
  unfold seg_data_of. destruct (frags_step id true (mkAcc 0 0%Z 0) (sg_frags s)) as [a| | |] eqn:E; cbn [rbind]; try discriminate.
  intros [= <-]. cbn. repeat split.
  apply frags_step_dur in E; [|cbn; unfold M32; lia]. cbn in E. exact E.
Qed.

Lemma find_segment_data_facts id segs : forall sds,
  find_segment_data id segs = Ok sds ->
  map sd_size sds = map (fun s => u32 (seg_size s)) segs /\
  map sd_dur sds = map (fun s => seg_ref_dur id s mod M32) segs.
Proof.
  induction segs as [|s t IH]; intros sds.
  - cbn. intros [= <-]. auto.
  - cbn [find_segment_data]. destruct (seg_data_of id s) as [d| | |] eqn:E; cbn [rbind]; try discriminate.
    destruct (find_segment_data id t) as [r| | |] eqn:F; cbn [rbind]; try discriminate.
    intros [= <-]. destruct (IH r eq_refl) as [I1 I2]. destruct (seg_data_of_facts _ _ _ E) as (S1 & S2 & _).
    cbn [map]. rewrite I1, I2, S1, S2. auto.
Qed.

(* ---------------------------------------------------------------- what UpdateSidx leaves *)
Lemma update_sidx_shape f add nz newtag f' :
  update_sidx f add nz newtag = Ok f' ->
  (add = true \/ f_sidxs f <> []) ->
  exists moov rt sds old anchor rest,
    f_moov f = Some moov /\
    find_reference_trak (b_traks moov) = Ok rt /\
    find_segment_data (k_id rt) (f_segs f) = Ok sds /\
    f_sidxs f' = mkSidx (fill_sidx old rt sds nz (sumN (map (fun s => b_size (sx_box s)) rest))) anchor :: rest /\
    f_segs f' = f_segs f /\ f_init f' = f_init f /\ f_mfra f' = f_mfra f /\ f_segs f <> [].
Proof.
  unfold update_sidx. destruct (negb (f_fragmented f)); [discriminate|].
  destruct (f_init f) as [ini|] eqn:Ei; [|discriminate].
  destruct (f_moov f) as [moov|] eqn:Em; [|discriminate].
  destruct (is_nil (f_segs f)) eqn:Sn; [discriminate|].
  assert (Hsegs : f_segs f <> []) by (intros E; rewrite E in Sn; discriminate).
  intros H Hdo.
  assert (Hgo : negb (negb (is_nil (f_sidxs f))) && negb add = false).
  { destruct Hdo as [-> | Hne]; [apply andb_false_r|]. destruct (f_sidxs f); [congruence|reflexivity]. }
  rewrite Hgo in H.
  destruct (find_reference_trak (b_traks moov)) as [rt| | |] eqn:R; cbn [rbind] in H; try discriminate.
  destruct (negb (k_trex rt)); [discriminate|].
  destruct (find_segment_data (k_id rt) (f_segs f)) as [sds| | |] eqn:F; cbn [rbind] in H; try discriminate.
  destruct (f_sidxs f) as [|sx rest] eqn:Sx.
  - destruct (f_segs f) as [|s0 t] eqn:Es; [discriminate|].
    destruct (first_box s0) as [fb| | |]; try discriminate.
    destruct (index_of (b_tag fb) (f_children f) 0) as [[|i]|]; try discriminate.
    injection H as <-. exists moov, rt, sds, (blank_sidx newtag), 0, []. cbn. repeat split; auto.
  - injection H as <-. exists moov, rt, sds, (sx_box sx), (sx_anchor sx), rest. cbn. repeat split; auto.
Qed.

(* ---------------------------------------------------------------- the tiling theorem *)
Definition anchor_in_output (f : file) (sx : sidx) : N :=
  sizes_of (init_boxes f) + b_size (sx_box sx) + b_first_offset (sx_box sx).

Lemma sidx_tiles f add nz newtag f' out :
  update_sidx f add nz newtag = Ok f' ->
  (add = true \/ f_sidxs f <> []) ->
  encode_segment_mode f' = Ok out ->
  Forall (fun s => seg_size s < 2147483648) (f_segs f) ->
  exists sx rest moov rt,
    f_sidxs f' = sx :: rest /\ f_moov f = Some moov /\ find_reference_trak (b_traks moov) = Ok rt /\
    let refs := b_refs (sx_box sx) in
    let segs := f_segs f' in
    length refs = length segs /\ segs = f_segs f /\ segs <> [] /\
    (forall i, (i <= length segs)%nat ->
       let before := init_boxes f' ++ map sx_box (f_sidxs f') ++ concat (map seg_boxes (firstn i segs)) in
       out = before ++ concat (map seg_boxes (skipn i segs)) ++ opt_list (f_mfra f') /\
       anchor_in_output f' sx + sumN (firstn i (map r_size refs)) = sizes_of before) /\
    map r_dur refs = map (fun s => seg_ref_dur (k_id rt) s mod M32) segs /\
    Forall (fun r => r_type r = 0) refs /\
    b_refid (sx_box sx) = k_id rt /\ b_timescale (sx_box sx) = k_timescale rt.
Proof.
  intros U Hdo E Hsz.
  destruct (update_sidx_shape _ _ _ _ _ U Hdo) as (moov & rt & sds & old & anc & rest & Hm & Hr & Hf & Hs & Hsegs & Hi & Hmf & Hne).
  destruct (find_segment_data_facts _ _ _ Hf) as [Fs Fd].
  exists (mkSidx (fill_sidx old rt sds nz (sumN (map (fun s => b_size (sx_box s)) rest))) anc), rest, moov, rt.
  split; [exact Hs|]. split; [exact Hm|]. split; [exact Hr|].
  cbn zeta. cbn [sx_box fill_sidx b_refs b_refid b_timescale].
  assert (Hsizes : map r_size (map (fun d => mkRef 0 (sd_size d) (sd_dur d)) sds) = map seg_size (f_segs f)).
  { rewrite map_map. cbn [r_size]. change (map (fun x => sd_size x) sds) with (map sd_size sds). rewrite Fs.
    apply map_ext_in. intros s Hin. rewrite Forall_forall in Hsz. specialize (Hsz s Hin).
    unfold u32. apply N.mod_small. lia. }
  rewrite Hsegs. split; [|split; [reflexivity|split; [exact Hne|split; [|split; [|split; [|split; reflexivity]]]]]].
  - rewrite map_length. apply (f_equal (@length _)) in Fs. rewrite !map_length in Fs. exact Fs.
  - intros i Hi'. split.
    + rewrite (encode_segment_mode_ok _ _ E), Hsegs.
      rewrite <- (firstn_skipn i (f_segs f)) at 1. rewrite concat_map_app, <- !app_assoc. reflexivity.
    + rewrite Hsizes, sizes_firstn_segs. rewrite !sizes_of_app. unfold anchor_in_output. rewrite Hs.
      cbn [map sx_box fill_sidx b_size b_first_offset].
      assert (Er : sizes_of (map sx_box rest) = sumN (map (fun s => b_size (sx_box s)) rest))
        by (unfold sizes_of; rewrite map_map; reflexivity).
      change (sizes_of (?x :: map sx_box rest)) with (b_size x + sizes_of (map sx_box rest)).
      cbn [fill_sidx b_size]. rewrite Er. unfold sizes_of. lia.
  - rewrite map_map. cbn [r_dur]. exact Fd.
  - apply Forall_forall. intros r Hin. apply in_map_iff in Hin. destruct Hin as (d & <- & _). reflexivity.
Qed.
