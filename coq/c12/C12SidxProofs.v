(* C12SidxProofs.v — after UpdateSidx and segment-mode encoding the references of the first
   top-level sidx tile the media: reference i starts at the first byte of segment i, together they
   end where the media ends, durations are the summed sample durations of the reference track. *)
From V.lib Require Import Base.
From V.c12 Require Import C12Model C12Spec C12PartProofs C12EncProofs C12Sidx.

(* ---------------------------------------------------------------- spec side *)
(* summed sample durations of track `id` in a fragment / a segment (unbounded) *)
Definition traf_ref_dur (id : N) (t : traf) : N :=
  if t_track t =? id then sumN (concat (t_truns t)) else 0.
Definition frag_ref_dur (id : N) (fr : fragment) : N :=
  match fr_moof fr with Some m => sumN (map (traf_ref_dur id) (b_trafs m)) | None => 0 end.
Definition seg_ref_dur (id : N) (s : segment) : N := sumN (map (frag_ref_dur id) (sg_frags s)).

Definition sizes_of (l : list topbox) : N := sumN (map b_size l).

Lemma sizes_of_app a b : sizes_of (a ++ b) = sizes_of a + sizes_of b.
Proof. unfold sizes_of. rewrite map_app, sumN_app. reflexivity. Qed.

(* ---------------------------------------------------------------- sizes *)
Lemma sizes_concat (ll : list (list topbox)) : sizes_of (concat ll) = sumN (map sizes_of ll).
Proof.
  induction ll as [|l t IH]; [reflexivity|]. cbn [concat map sumN]. rewrite sizes_of_app, IH. reflexivity.
Qed.

Lemma seg_size_boxes s : seg_size s = sizes_of (seg_boxes s).
Proof.
  unfold seg_size, seg_boxes. rewrite !sizes_of_app.
  assert (E1 : match sg_styp s with Some b => b_size b | None => 0 end = sizes_of (opt_list (sg_styp s))).
  { unfold sizes_of. destruct (sg_styp s); cbn [opt_list map sumN]; lia. }
  assert (E2 : sumN (map (fun sx => b_size (sx_box sx)) (sg_sidxs s)) = sizes_of (map sx_box (sg_sidxs s))).
  { unfold sizes_of. rewrite map_map. reflexivity. }
  assert (E3 : sumN (map frag_size (sg_frags s)) = sizes_of (seg_fragment_boxes s)).
  { unfold seg_fragment_boxes. rewrite sizes_concat, map_map. reflexivity. }
  rewrite E1, E2, E3. lia.
Qed.

Lemma sizes_firstn_segs segs i :
  sumN (firstn i (map seg_size segs)) = sizes_of (concat (map seg_boxes (firstn i segs))).
Proof.
  rewrite sizes_concat, map_map, <- firstn_map. f_equal. f_equal.
  apply map_ext. intros s. apply seg_size_boxes.
Qed.

(* ---------------------------------------------------------------- durations *)
Definition M32 : N := 4294967296.
Definition M64 : N := 18446744073709551616.
Definition M31 : N := 2147483648.

Definition wrapM (M : N) (x : N) : N := x mod M.

Section Wrap.
Variable M : N.
Hypothesis Mpos : 0 < M.

Lemma mod_lt_M x : x mod M < M.
Proof. apply N.mod_lt. lia. Qed.

Lemma fold_wrap l : forall a, a < M -> fold_left (fun d x => wrapM M (d + x)) l a = (a + sumN l) mod M.
Proof.
  induction l as [|x t IH]; intros a Ha.
  - cbn. rewrite N.add_0_r, N.mod_small; auto.
  - cbn [fold_left sumN]. unfold wrapM at 2. rewrite IH by apply mod_lt_M.
    rewrite N.add_mod_idemp_l by lia. f_equal. lia.
Qed.

Lemma dur_fold_wrap t a : a < M -> dur_fold (wrapM M) t a = (a + sumN (concat (t_truns t))) mod M.
Proof. intros Ha. unfold dur_fold. apply fold_wrap. exact Ha. Qed.

Lemma traf_step_dur id ff a t :
  a_dur a < M ->
  a_dur (traf_step_w (wrapM M) id ff a t) = (a_dur a + traf_ref_dur id t) mod M.
Proof.
  intros Ha. unfold traf_step_w, traf_ref_dur. destruct (t_track t =? id).
  - cbn [a_dur]. apply dur_fold_wrap. exact Ha.
  - rewrite N.add_0_r, N.mod_small; auto.
Qed.

Lemma trafs_fold_dur id ff ts : forall a,
  a_dur a < M ->
  a_dur (fold_left (traf_step_w (wrapM M) id ff) ts a) = (a_dur a + sumN (map (traf_ref_dur id) ts)) mod M.
Proof.
  induction ts as [|t r IH]; intros a Ha.
  - cbn. rewrite N.add_0_r, N.mod_small; auto.
  - cbn [fold_left map sumN]. rewrite IH.
    + rewrite traf_step_dur by exact Ha. rewrite N.add_mod_idemp_l by lia. f_equal. lia.
    + rewrite traf_step_dur by exact Ha. apply mod_lt_M.
Qed.

Lemma frags_step_dur id frs : forall ff a a',
  a_dur a < M ->
  frags_step_w (wrapM M) id ff a frs = Ok a' ->
  a_dur a' = (a_dur a + sumN (map (frag_ref_dur id) frs)) mod M.
Proof.
  induction frs as [|fr t IH]; intros ff a a' Ha.
  - cbn. intros [= <-]. rewrite N.add_0_r, N.mod_small; auto.
  - cbn [frags_step_w]. destruct (fr_moof fr) as [m|] eqn:Mf; [|discriminate].
    intros H. apply IH in H.
    + rewrite H, trafs_fold_dur by exact Ha. cbn [map sumN]. unfold frag_ref_dur at 2. rewrite Mf.
      rewrite N.add_mod_idemp_l by lia. f_equal. lia.
    + rewrite trafs_fold_dur by exact Ha. apply mod_lt_M.
Qed.

(* the same three for the current text (48b8dea) *)
Lemma traf_step_r_dur id a t :
  a_dur a < M ->
  a_dur (traf_step_r (wrapM M) id a t) = (a_dur a + traf_ref_dur id t) mod M.
Proof.
  intros Ha. unfold traf_step_r, traf_ref_dur. destruct (t_track t =? id).
  - cbn [a_dur]. apply dur_fold_wrap. exact Ha.
  - rewrite N.add_0_r, N.mod_small; auto.
Qed.

Lemma trafs_fold_r_dur id ts : forall a,
  a_dur a < M ->
  a_dur (fold_left (traf_step_r (wrapM M) id) ts a) = (a_dur a + sumN (map (traf_ref_dur id) ts)) mod M.
Proof.
  induction ts as [|t r IH]; intros a Ha.
  - cbn. rewrite N.add_0_r, N.mod_small; auto.
  - cbn [fold_left map sumN]. rewrite IH.
    + rewrite traf_step_r_dur by exact Ha. rewrite N.add_mod_idemp_l by lia. f_equal. lia.
    + rewrite traf_step_r_dur by exact Ha. apply mod_lt_M.
Qed.

Lemma frags_step_r_dur id frs : forall a a',
  a_dur a < M ->
  frags_step_r (wrapM M) id a frs = Ok a' ->
  a_dur a' = (a_dur a + sumN (map (frag_ref_dur id) frs)) mod M.
Proof.
  induction frs as [|fr t IH]; intros a a' Ha.
  - cbn. intros [= <-]. rewrite N.add_0_r, N.mod_small; auto.
  - cbn [frags_step_r]. destruct (fr_moof fr) as [m|] eqn:Mf; [|discriminate].
    intros H. apply IH in H.
    + rewrite H, trafs_fold_r_dur by exact Ha. cbn [map sumN]. unfold frag_ref_dur at 2. rewrite Mf.
      rewrite N.add_mod_idemp_l by lia. f_equal. lia.
    + rewrite trafs_fold_r_dur by exact Ha. apply mod_lt_M.
Qed.
End Wrap.

(* repaired text: no wrap survives: the size is the segment's (mod 2^64, the width of Size()) and below
   2^31, the duration is the reference track's sum (mod 2^64) and below 2^32 *)
Lemma seg_data_of_facts id s d :
  seg_data_of id s = Ok d ->
  sd_size d = seg_size s mod M64 /\ sd_size d < M31 /\ sd_dur d = seg_ref_dur id s mod M64 /\ sd_dur d < M32 /\ sd_start d = sg_start s.
Proof.
  unfold seg_data_of, frags_step.
  destruct (frags_step_r u64 id acc0 (sg_frags s)) as [a| | |] eqn:E; cbn [rbind]; try discriminate.
  destruct (MAX_REF_SIZE <? u64 (seg_size s)) eqn:Hs; [discriminate|].
  destruct (MAX_REF_DUR <? a_dur a) eqn:Hd; [discriminate|].
  intros [= <-]. cbn [sd_size sd_dur sd_start].
  apply N.ltb_ge in Hs. apply N.ltb_ge in Hd. unfold MAX_REF_SIZE in Hs. unfold MAX_REF_DUR in Hd.
  change u64 with (wrapM M64) in E.
  apply (frags_step_r_dur M64) in E; [|unfold M64; lia|cbn; unfold M64; lia]. cbn [a_dur] in E. rewrite N.add_0_l in E.
  unfold seg_ref_dur. rewrite <- E. unfold u32, u64 in *. fold M64 in Hs |- *. unfold M31, M32.
  rewrite !N.mod_small by lia. repeat split; lia.
Qed.

Lemma find_segment_data_facts id segs : forall sds,
  find_segment_data id segs = Ok sds ->
  Forall2 (fun d s => sd_size d = seg_size s mod M64 /\ sd_size d < M31 /\ sd_dur d = seg_ref_dur id s mod M64 /\ sd_dur d < M32) sds segs.
Proof.
  unfold find_segment_data. induction segs as [|s t IH]; intros sds.
  - cbn. intros [= <-]. constructor.
  - cbn [find_segment_data_g]. destruct (seg_data_of id s) as [d| | |] eqn:E; cbn [rbind]; try discriminate.
    destruct (find_segment_data_g seg_data_of id t) as [r| | |] eqn:F; cbn [rbind]; try discriminate.
    intros [= <-]. destruct (seg_data_of_facts _ _ _ E) as (S1 & S2 & S3 & S4 & _).
    constructor; [auto|]. apply IH. reflexivity.
Qed.

(* pinned text *)
Lemma seg_data_of_pinned_facts id s d :
  seg_data_of_pinned id s = Ok d ->
  (sd_size d = seg_size s mod M32) /\ (sd_dur d = seg_ref_dur id s mod M32).
Proof.
  unfold seg_data_of_pinned.
  destruct (frags_step_w u32 id true acc0 (sg_frags s)) as [a| | |] eqn:E; cbn [rbind]; try discriminate.
  intros [= <-]. cbn [sd_size sd_dur]. split; [reflexivity|].
  change u32 with (wrapM M32) in E.
  apply (frags_step_dur M32) in E; [|unfold M32; lia|cbn; unfold M32; lia]. cbn [a_dur] in E. rewrite N.add_0_l in E. exact E.
Qed.

(* ---------------------------------------------------------------- what UpdateSidx leaves *)
Lemma update_sidx_shape fsd f add nz newtag f' :
  update_sidx_g fsd f add nz newtag = Ok f' ->
  (add = true \/ f_sidxs f <> []) ->
  exists moov rt sds old anchor rest,
    f_moov f = Some moov /\
    find_reference_trak (b_traks moov) = Ok rt /\
    fsd (k_id rt) (f_segs f) = Ok sds /\
    f_sidxs f' = mkSidx (fill_sidx old rt sds nz (sumN (map (fun s => b_size (sx_box s)) rest))) anchor :: rest /\
    f_segs f' = f_segs f /\ f_init f' = f_init f /\ f_mfra f' = f_mfra f /\ f_segs f <> [].
Proof.
  unfold update_sidx_g. destruct (negb (f_fragmented f)); [discriminate|].
  destruct (f_init f) as [ini|] eqn:Ei; [|discriminate].
  destruct (f_moov f) as [moov|] eqn:Em; [|discriminate].
  destruct (is_nil (f_segs f)) eqn:Sn; [discriminate|].
  assert (Hsegs : f_segs f <> []) by (intros E; rewrite E in Sn; discriminate).
  intros H Hdo.
  assert (Hgo : negb (negb (is_nil (f_sidxs f))) && negb add = false).
  { destruct Hdo as [-> | Hne]; [apply andb_false_r|]. destruct (f_sidxs f); [congruence|reflexivity]. }
  rewrite Hgo in H.
  destruct (find_reference_trak (b_traks moov)) as [rt| | |] eqn:R; cbn [rbind] in H; try discriminate.
  destruct (negb (k_trex rt)); [discriminate|].
  destruct (fsd (k_id rt) (f_segs f)) as [sds| | |] eqn:F; cbn [rbind] in H; try discriminate.
  destruct (f_sidxs f) as [|sx rest] eqn:Sx.
  - destruct (f_segs f) as [|s0 t] eqn:Es; [discriminate|].
    destruct (first_box s0) as [fb| | |]; try discriminate.
    destruct (index_of (b_tag fb) (f_children f) 0) as [[|i]|]; try discriminate.
    injection H as <-. exists moov, rt, sds, (blank_sidx newtag), 0, []. cbn. repeat split; auto.
  - injection H as <-. exists moov, rt, sds, (sx_box sx), (sx_anchor sx), rest. cbn. repeat split; auto.
Qed.

(* ---------------------------------------------------------------- the tiling theorem *)
Definition anchor_in_output (f : file) (sx : sidx) : N :=
  sizes_of (init_boxes f) + b_size (sx_box sx) + b_first_offset (sx_box sx).

(* what a reader of the written reference word gets back *)
Lemma ref_word_roundtrip sz : sz < M31 -> dec_ref_word (enc_ref_word (mkRef 0 sz 0)) = (0, sz).
Proof.
  intros H. unfold dec_ref_word, enc_ref_word. cbn [r_type r_size]. change (u32 (0 * 2147483648)) with 0.
  rewrite N.lor_0_l. unfold M31 in H. rewrite N.div_small, N.mod_small by lia. reflexivity.
Qed.

Lemma enc_ref_word_dur t sz d d' : enc_ref_word (mkRef t sz d) = enc_ref_word (mkRef t sz d').
Proof. reflexivity. Qed.

Lemma Forall2_impl {A B} (P Q : A -> B -> Prop) l l' :
  (forall a b, P a b -> Q a b) -> Forall2 P l l' -> Forall2 Q l l'.
Proof. intros H. induction 1; constructor; auto. Qed.

Lemma Forall2_len {A B} (P : A -> B -> Prop) l l' : Forall2 P l l' -> length l = length l'.
Proof. induction 1; cbn; auto. Qed.

Lemma Forall2_map_l {A B C} (P : C -> B -> Prop) (g : A -> C) l l' :
  Forall2 (fun a b => P (g a) b) l l' -> Forall2 P (map g l) l'.
Proof. induction 1; cbn; constructor; auto. Qed.

Lemma Forall2_map_eq {A B} (g : A -> N) (h : B -> N) l l' :
  Forall2 (fun a b => g a = h b) l l' -> map g l = map h l'.
Proof. induction 1; cbn; [reflexivity|]. f_equal; auto. Qed.

Lemma sidx_tiles f add nz newtag f' out :
  update_sidx f add nz newtag = Ok f' ->
  (add = true \/ f_sidxs f <> []) ->
  encode_segment_mode f' = Ok out ->
  Forall (fun s => seg_size s < M64) (f_segs f) ->
  exists sx rest moov rt,
    f_sidxs f' = sx :: rest /\ f_moov f = Some moov /\ find_reference_trak (b_traks moov) = Ok rt /\
    let refs := b_refs (sx_box sx) in
    let segs := f_segs f' in
    length refs = length segs /\ segs = f_segs f /\ segs <> [] /\
    (forall i, (i <= length segs)%nat ->
       let before := init_boxes f' ++ map sx_box (f_sidxs f') ++ concat (map seg_boxes (firstn i segs)) in
       out = before ++ concat (map seg_boxes (skipn i segs)) ++ opt_list (f_mfra f') /\
       anchor_in_output f' sx + sumN (firstn i (map r_size refs)) = sizes_of before) /\
    Forall2 (fun r s => r_size r = seg_size s /\ r_size r < M31 /\ r_type r = 0 /\
                        dec_ref_word (enc_ref_word r) = (0, seg_size s) /\
                        r_dur r = seg_ref_dur (k_id rt) s mod M64 /\ r_dur r < M32) refs segs /\
    b_refid (sx_box sx) = k_id rt /\ b_timescale (sx_box sx) = k_timescale rt.
Proof.
  intros U Hdo E Hsz. unfold update_sidx in U.
  destruct (update_sidx_shape _ _ _ _ _ _ U Hdo) as (moov & rt & sds & old & anc & rest & Hm & Hr & Hf & Hs & Hsegs & Hi & Hmf & Hne).
  pose proof (find_segment_data_facts _ _ _ Hf) as F2.
  exists (mkSidx (fill_sidx old rt sds nz (sumN (map (fun s => b_size (sx_box s)) rest))) anc), rest, moov, rt.
  split; [exact Hs|]. split; [exact Hm|]. split; [exact Hr|].
  cbn zeta. cbn [sx_box fill_sidx b_refs b_refid b_timescale].
  assert (F3 : Forall2 (fun d s => sd_size d = seg_size s /\ sd_size d < M31 /\
                                   sd_dur d = seg_ref_dur (k_id rt) s mod M64 /\ sd_dur d < M32) sds (f_segs f)).
  { clear - F2 Hsz. induction F2 as [|d s ds ss H1 H2 IH]; [constructor|].
    inversion Hsz as [|? ? Hs1 Hs2]; subst. constructor; [|apply IH; exact Hs2].
    destruct H1 as (A & B & C & D). rewrite N.mod_small in A by exact Hs1. auto. }
  assert (Hsizes : map r_size (map (fun d => mkRef 0 (sd_size d) (sd_dur d)) sds) = map seg_size (f_segs f)).
  { rewrite map_map. cbn [r_size]. apply Forall2_map_eq. eapply Forall2_impl; [|exact F3]. cbn. intros; tauto. }
  rewrite Hsegs. split; [|split; [reflexivity|split; [exact Hne|split; [|split; [|split; reflexivity]]]]].
  - rewrite map_length. exact (Forall2_len _ _ _ F3).
  - intros i Hi'. split.
    + rewrite (encode_segment_mode_ok _ _ E), Hsegs.
      rewrite <- (firstn_skipn i (f_segs f)) at 1. rewrite concat_map_app, <- !app_assoc. reflexivity.
    + rewrite Hsizes, sizes_firstn_segs. rewrite !sizes_of_app. unfold anchor_in_output. rewrite Hs.
      cbn [map sx_box fill_sidx b_size b_first_offset].
      assert (Er : sizes_of (map sx_box rest) = sumN (map (fun s => b_size (sx_box s)) rest))
        by (unfold sizes_of; rewrite map_map; reflexivity).
      change (sizes_of (?x :: map sx_box rest)) with (b_size x + sizes_of (map sx_box rest)).
      cbn [fill_sidx b_size]. rewrite Er. unfold sizes_of. lia.
  - apply Forall2_map_l. eapply Forall2_impl; [|exact F3]. cbn [r_size r_type r_dur].
    intros d s (A & B & C & D). rewrite <- A.
    rewrite (enc_ref_word_dur 0 (sd_size d) (sd_dur d) 0), (ref_word_roundtrip _ B). auto 10.
Qed.

(* ---------------------------------------------------------------- the pinned text wrapped silently *)
(* ftyp moov moof mdat with an mdat of 2^31 bytes, resp. a sample of 3*10^9 ticks twice *)
Definition px (k : kind) (size : N) : topbox := mkBox k 0 size 8 0 [] false [] false [] [] 0 0 0 0.
Definition p_moov : topbox := mkBox KMoov 0 600 8 0 [] true [] false [] [mkTrak 1 0 10000000 true] 0 0 0 0.
Definition p_moof (durs : list N) : topbox :=
  mkBox KMoof 0 100 8 0 [] false [] false [mkTraf 1 0 [durs] 0] [] 0 0 0 0.
Definition p_big : list topbox := number_from 0 [px KFtyp 24; p_moov; p_moof [10]; px KMdat 2147483648].
Definition p_long : list topbox := number_from 0 [px KFtyp 24; p_moov; p_moof [3000000000; 3000000000]; px KMdat 16].

Definition first_ref (r : res file) : option (N * N * N) :=
  match r with
  | Ok f' => match f_sidxs f' with
             | sx :: _ => match b_refs (sx_box sx) with
                          | r :: _ => Some (dec_ref_word (enc_ref_word r), r_dur r)
                          | [] => None
                          end
             | [] => None
             end
  | _ => None
  end.

Lemma sidx_pinned_refuted :
  (exists f, assemble (mkOpts false false) p_big = Ok f /\ map seg_size (f_segs f) = [2147483748] /\
             first_ref (update_sidx_pinned f true false 9) = Some ((1, 100), 10) /\
             update_sidx f true false 9 = Err) /\
  (exists f, assemble (mkOpts false false) p_long = Ok f /\ map (seg_ref_dur 1) (f_segs f) = [6000000000] /\
             first_ref (update_sidx_pinned f true false 9) = Some ((0, 116), 1705032704) /\
             update_sidx f true false 9 = Err).
Proof.
  split; (eexists; split; [vm_compute; reflexivity|]); vm_compute; repeat split; reflexivity.
Qed.

(* ---------------------------------------------------------------- which track is the reference track *)
Lemma find_split {A} (p : A -> bool) l x :
  find p l = Some x -> exists before after, l = before ++ x :: after /\ p x = true /\ Forall (fun y => p y = false) before.
Proof.
  induction l as [|a t IH]; [discriminate|]. cbn [find]. destruct (p a) eqn:Pa.
  - intros [= <-]. exists [], t. auto.
  - intros H. destruct (IH H) as (b & c & -> & Px & Fb). exists (a :: b), c. repeat split; auto.
Qed.

Lemma find_none_all {A} (p : A -> bool) l : find p l = None -> Forall (fun y => p y = false) l.
Proof. intros H. apply Forall_forall. intros y Hy. exact (find_none p l H y Hy). Qed.

Lemma reference_track_spec (traks : list trak) :
  match find_reference_trak traks with
  | Ok rt =>
      exists before after, traks = before ++ rt :: after /\
        ((k_handler rt = 0 /\ Forall (fun k => k_handler k <> 0) before) \/
         (k_handler rt = 1 /\ Forall (fun k => k_handler k <> 0) traks /\ Forall (fun k => k_handler k <> 1) before) \/
         (before = [] /\ Forall (fun k => k_handler k <> 0 /\ k_handler k <> 1) traks))
  | Panic => traks = []
  | _ => False
  end.
Proof.
  unfold find_reference_trak.
  destruct (find (fun k => k_handler k =? 0) traks) as [v|] eqn:Fv.
  - destruct (find_split _ _ _ Fv) as (b & c & E & Pv & Fb). exists b, c. split; [exact E|]. left.
    split; [apply N.eqb_eq; exact Pv|]. eapply Forall_impl; [|exact Fb]. cbn. intros k Hk. apply N.eqb_neq. exact Hk.
  - pose proof (find_none_all _ _ Fv) as Nv.
    assert (Nv' : Forall (fun k => k_handler k <> 0) traks)
      by (eapply Forall_impl; [|exact Nv]; cbn; intros k Hk; apply N.eqb_neq; exact Hk).
    destruct (find (fun k => k_handler k =? 1) traks) as [a|] eqn:Fa.
    + destruct (find_split _ _ _ Fa) as (b & c & E & Pa & Fb). exists b, c. split; [exact E|]. right; left.
      split; [apply N.eqb_eq; exact Pa|]. split; [exact Nv'|].
      eapply Forall_impl; [|exact Fb]. cbn. intros k Hk. apply N.eqb_neq. exact Hk.
    + pose proof (find_none_all _ _ Fa) as Na. destruct traks as [|k t]; [reflexivity|].
      exists [], t. split; [reflexivity|]. right; right. split; [reflexivity|].
      apply Forall_forall. intros x Hx. rewrite Forall_forall in Nv', Na. split; [apply Nv'; exact Hx|].
      apply N.eqb_neq. apply Na. exact Hx.
Qed.
