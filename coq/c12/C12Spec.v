(* C12Spec.v — naive specifications the assembly model is proved against.  Written without
   looking at how File.AddChild keeps its state: plain list functions over the input boxes. *)
From V.lib Require Import Base.
From V.c12 Require Import C12Model.

(* A box that makes the file "fragmented" when it is added: styp, moof, an emsg (it is only
   accepted when it starts or continues a segment) and a moov whose stts is empty. *)
Definition is_marker (b : topbox) : bool :=
  match b_kind b with
  | KStyp | KMoof | KEmsg => true
  | KMoov => b_stts_empty b
  | _ => false
  end.

(* The media boxes (emsg/moof/mdat) of a top-level sequence that belong to fragments:
   all of them, except mdat boxes that come before anything marked the file as fragmented
   (those are the mdat of a progressive file).  `fragd`: already fragmented. *)
Fixpoint frag_media (fragd : bool) (bs : list topbox) : list topbox :=
  match bs with
  | [] => []
  | b :: t =>
      let fragd' := fragd || is_marker b in
      (if is_media b && fragd' then [b] else []) ++ frag_media fragd' t
  end.

(* no mdat before the first marker: then frag_media is just the media sub-sequence *)
Fixpoint no_progressive_mdat (bs : list topbox) : bool :=
  match bs with
  | [] => true
  | b :: t => if is_marker b then true
              else negb (kind_eqb (b_kind b) KMdat) && no_progressive_mdat t
  end.

(* ---------------------------------------------------------------- sidx boundaries *)
(* start offsets designated by one sidx: anchor, anchor+s0, anchor+s0+s1, ... for the references
   before the first reference of type 1 (a reference to another sidx stops that sidx) *)
Fixpoint ref_starts (refs : list sref) (start : N) : list N :=
  match refs with
  | [] => []
  | r :: t => if r_type r =? 1 then [] else start :: ref_starts t (u64 (start + r_size r))
  end.

Definition sidx_starts (sxs : list sidx) : list N :=
  concat (map (fun sx => ref_starts (b_refs (sx_box sx)) (sx_anchor sx)) sxs).

(* the k-th designated start is p *)
Definition sidx_designates (sxs : list sidx) (k : nat) (p : N) : bool :=
  match nth_error (sidx_starts sxs) k with
  | Some q => p =? q
  | None => false
  end.

(* ---------------------------------------------------------------- tagging *)
(* number the boxes 0,1,2,... in b_tag (what the harness does) *)
Definition set_tag (b : topbox) (t : N) : topbox :=
  mkBox (b_kind b) t (b_size b) (b_hdr b) (b_first_offset b) (b_refs b) (b_stts_empty b)
        (b_tfras b) (b_mfro b) (b_trafs b) (b_traks b) (b_version b) (b_refid b) (b_timescale b) (b_ept b).

Fixpoint number_from (n : N) (bs : list topbox) : list topbox :=
  match bs with
  | [] => []
  | b :: t => set_tag b n :: number_from (n + 1) t
  end.

(* ---------------------------------------------------------------- segment boundaries *)
(* What decides where segments start, stated over the input sequence with the least state:
   how many segments have started, the top-level sidx boxes seen before the first of them, and
   for the current segment: started by a styp?, has a fragment?, is that fragment still waiting
   for its moof (opened by an emsg)? *)
Record bstate := mkB { q_nseg : nat; q_sidxs : list sidx; q_styp : bool; q_has_frag : bool; q_open : bool }.

Definition bstate0 : bstate := mkB 0 [] false false false.

(* the delimiter in force designates `pos` as the start of segment number q_nseg *)
Definition designated (som : bool) (tf : option (list N)) (q : bstate) (pos : N) : bool :=
  match q_sidxs q with
  | _ :: _ => sidx_designates (q_sidxs q) (q_nseg q) pos      (* 1. top-level sidx references *)
  | [] =>
      match tf with
      | Some offs =>                                          (* 2. tfra entry number q_nseg *)
          match nth_error offs (q_nseg q) with Some o => pos =? o | None => false end
      | None =>
          if som then negb (q_styp q) && negb (q_open q)      (* 3. every moof, unless after styp / emsg *)
          else false                                          (* 4. only the first *)
      end
  end.

(* an emsg or moof at `pos` starts a segment: there is none yet, or the delimiter designates it *)
Definition media_starts (som : bool) (tf : option (list N)) (q : bstate) (pos : N) : bool :=
  (q_nseg q =? 0)%nat || designated som tf q pos.

Definition bstep (som : bool) (tf : option (list N)) (q : bstate) (b : topbox) (pos : N) : bstate * bool :=
  match b_kind b with
  | KStyp => (mkB (S (q_nseg q)) (q_sidxs q) true false false, true)
  | KSidx =>
      ((if (q_nseg q =? 0)%nat
        then mkB 0 (q_sidxs q ++ [mkSidx b (u64 (pos + b_first_offset b + b_size b))]) (q_styp q) (q_has_frag q) (q_open q)
        else q), false)
  | KEmsg =>
      let st := media_starts som tf q pos in
      let q1 := if st then mkB (S (q_nseg q)) (q_sidxs q) false false false else q in
      ((if q_has_frag q1 then q1 else mkB (q_nseg q1) (q_sidxs q1) (q_styp q1) true true), st)
  | KMoof =>
      let st := media_starts som tf q pos in
      let q1 := if st then mkB (S (q_nseg q)) (q_sidxs q) false false false else q in
      (mkB (q_nseg q1) (q_sidxs q1) (q_styp q1) true false, st)
  | _ => (q, false)
  end.

(* (position, started by a styp box) of every segment start, in order *)
Fixpoint boundaries (som : bool) (tf : option (list N)) (q : bstate) (pos : N) (bs : list topbox) : list (N * bool) :=
  match bs with
  | [] => []
  | b :: t =>
      let '(q', st) := bstep som tf q b pos in
      (if st then [(pos, kind_eqb (b_kind b) KStyp)] else []) ++ boundaries som tf q' (u64 (pos + b_size b)) t
  end.

(* ---------------------------------------------------------------- fragment shape *)
Definition all_emsg (l : list topbox) : bool := forallb (fun b => kind_eqb (b_kind b) KEmsg) l.

(* the children of a fragment are  emsg* [moof [mdat] emsg*]  and Moof / Mdat point at those boxes *)
Definition frag_shape (fr : fragment) : Prop :=
  exists es1 es2, all_emsg es1 = true /\ all_emsg es2 = true /\
    match fr_moof fr, fr_mdat fr with
    | None, None => fr_children fr = es1 /\ es2 = []
    | Some m, None => fr_children fr = es1 ++ m :: es2 /\ b_kind m = KMoof
    | Some m, Some d => fr_children fr = es1 ++ m :: d :: es2 /\ b_kind m = KMoof /\ b_kind d = KMdat
    | None, Some _ => False
    end.
