(* C12Spec.v — naive specifications the assembly model is proved against.  Written without
   looking at how File.AddChild keeps its state: plain list functions over the input boxes. *)
From V.lib Require Import Base.
From V.c12 Require Import C12Model.

(* A box that makes the file "fragmented" when it is added: styp, moof, an emsg (it is only
   accepted when it starts or continues a segment) and a moov whose stts is empty. *)
Definition is_marker (b : topbox) : bool :=
  match b_kind b with
  | KStyp | KMoof | KEmsg => true
  | KMoov => b_stts_empty b
  | _ => false
  end.

(* The media boxes (emsg/moof/mdat) of a top-level sequence that belong to fragments:
   all of them, except mdat boxes that come before anything marked the file as fragmented
   (those are the mdat of a progressive file).  `fragd`: already fragmented. *)
Fixpoint frag_media (fragd : bool) (bs : list topbox) : list topbox :=
  match bs with
  | [] => []
  | b :: t =>
      let fragd' := fragd || is_marker b in
      (if is_media b && fragd' then [b] else []) ++ frag_media fragd' t
  end.

(* no mdat before the first marker: then frag_media is just the media sub-sequence *)
Fixpoint no_progressive_mdat (bs : list topbox) : bool :=
  match bs with
  | [] => true
  | b :: t => if is_marker b then true
              else negb (kind_eqb (b_kind b) KMdat) && no_progressive_mdat t
  end.

(* ---------------------------------------------------------------- sidx boundaries *)
(* start offsets designated by one sidx: anchor, anchor+s0, anchor+s0+s1, ... for the references
   before the first reference of type 1 (a reference to another sidx stops that sidx) *)
Fixpoint ref_starts (refs : list sref) (start : N) : list N :=
  match refs with
  | [] => []
  | r :: t => if r_type r =? 1 then [] else start :: ref_starts t (u64 (start + r_size r))
  end.

Definition sidx_starts (sxs : list sidx) : list N :=
  concat (map (fun sx => ref_starts (b_refs (sx_box sx)) (sx_anchor sx)) sxs).

(* the k-th designated start is p *)
Definition sidx_designates (sxs : list sidx) (k : nat) (p : N) : bool :=
  match nth_error (sidx_starts sxs) k with
  | Some q => p =? q
  | None => false
  end.

(* ---------------------------------------------------------------- tagging *)
(* number the boxes 0,1,2,... in b_tag (what the harness does) *)
Definition set_tag (b : topbox) (t : N) : topbox :=
  mkBox (b_kind b) t (b_size b) (b_hdr b) (b_first_offset b) (b_refs b) (b_stts_empty b)
        (b_tfras b) (b_mfro b) (b_trafs b) (b_traks b) (b_version b) (b_refid b) (b_timescale b) (b_ept b).

Fixpoint number_from (n : N) (bs : list topbox) : list topbox :=
  match bs with
  | [] => []
  | b :: t => set_tag b n :: number_from (n + 1) t
  end.
