(* C12C01Model.v — the byte environment of C12Bytes computed from the input bytes by C01's box model (coq/c01,
   read-only): what box.Encode writes for the box that DecodeBoxSR returned for x.  Definitions only. *)
From V.lib Require Import Base.
From V.c01 Require C01Model.
From V.c12 Require Import C12Model C12Bytes.

(* DecodeBoxSR on x (the whole of x is the box), then Box.Encode of the result; [] when x is not a box of C01's model *)
Definition c01_reenc (x : list N) : list N :=
  match C01Model.decode x with
  | Ok (t, []) => match C01Model.raw_box false t with Ok e => e | _ => [] end
  | _ => []
  end.

(* the env of C12Bytes built from the input bytes alone *)
Definition c01_env (inb : N -> list N) (doff : N -> option N) (tag : N) : binfo :=
  mkBI (inb tag) (c01_reenc (inb tag)) (doff tag).

