(* C12EptProofs.v — what UpdateSidx writes as earliest_presentation_time (repo commit 48b8dea): the
   presentation time (tfdt base time of its traf + its composition offset, as uint64) of the first sample
   of the reference track in the first segment, whichever fragment, track fragment and trun hold it. *)
From V.lib Require Import Base.
From V.c12 Require Import C12Model C12Spec C12PartProofs C12EncProofs C12Sidx C12SidxProofs.

(* ---------------------------------------------------------------- spec side *)
Definition frag_trafs (fr : fragment) : list traf :=
  match fr_moof fr with Some m => b_trafs m | None => [] end.

(* the trafs of track `id` in a segment, in stream order *)
Definition ref_trafs (id : N) (s : segment) : list traf :=
  filter (fun t => t_track t =? id) (concat (map frag_trafs (sg_frags s))).

Definition pt_of (base : N) (cto : Z) : N := Z.to_N ((Z.of_N base + cto) mod two64).

(* the first traf of the track that holds a sample decides; a track without any sample in the segment
   has the base time of its first traf (offset 0); a segment without the track has 0 *)
Definition seg_pt (id : N) (s : segment) : N :=
  match find traf_has_sample (ref_trafs id s) with
  | Some t => pt_of (t_base t) (t_cto0 t)
  | None => match ref_trafs id s with t :: _ => pt_of (t_base t) 0 | [] => 0 end
  end.

(* ---------------------------------------------------------------- the loops *)
Definition acc_view (a : sd_acc) : N * Z * bool * bool := (a_base a, a_cto a, a_seen a, a_first a).

(* the time part of the accumulator after a list of trafs, as a function of the reference trafs among them *)
Definition time_after (v : N * Z * bool * bool) (rts : list traf) : N * Z * bool * bool :=
  let '(base, cto, seen, first) := v in
  if first then (base, cto, seen || negb (is_nil rts), true)
  else match find traf_has_sample rts with
       | Some t => (t_base t, t_cto0 t, true, true)
       | None => match rts with
                 | t :: _ => (if seen then base else t_base t, cto, true, false)
                 | [] => (base, cto, seen, false)
                 end
       end.

Lemma time_after_nil v : time_after v [] = v.
Proof. destruct v as [[[b c] s] f]. cbn. destruct f; [rewrite orb_false_r|]; reflexivity. Qed.

(* haveFirstSample implies haveBaseTime *)
Definition wf_view (v : N * Z * bool * bool) : Prop := let '(_, _, seen, first) := v in first = true -> seen = true.

Lemma time_after_wf v l : wf_view v -> wf_view (time_after v l).
Proof.
  destruct v as [[[b c] s] f]. unfold wf_view, time_after. destruct f.
  - intros H _. rewrite (H eq_refl). reflexivity.
  - intros _. destruct (find traf_has_sample l); [reflexivity|]. destruct l; [discriminate|reflexivity].
Qed.

Lemma traf_step_r_view wrap id a t :
  wf_view (acc_view a) ->
  acc_view (traf_step_r wrap id a t) = time_after (acc_view a) (filter (fun t => t_track t =? id) [t]).
Proof.
  intros W. unfold traf_step_r. cbn [filter]. destruct (t_track t =? id).
  - unfold acc_view, wf_view in *. cbn [a_base a_cto a_seen a_first time_after find].
    destruct (a_first a); cbn [negb andb orb is_nil].
    + rewrite (W eq_refl). reflexivity.
    + destruct (traf_has_sample t); cbn; reflexivity.
  - rewrite time_after_nil. reflexivity.
Qed.

Lemma time_after_app v l1 l2 : time_after (time_after v l1) l2 = time_after v (l1 ++ l2).
Proof.
  destruct v as [[[b c] s] f]. destruct f.
  - cbn [time_after]. f_equal. f_equal. destruct l1; cbn; [rewrite !orb_false_r; reflexivity|].
    rewrite !orb_true_r. reflexivity.
  - cbn [time_after]. induction l1 as [|t r IH].
    + cbn [find app]. reflexivity.
    + cbn [find app]. destruct (traf_has_sample t) eqn:Ht.
      * cbn [time_after]. rewrite orb_true_l. reflexivity.
      * (* t has no sample: what follows is decided by r ++ l2 from a state that has seen the track *)
        destruct (find traf_has_sample r) as [u|] eqn:Fr.
        -- cbn [time_after]. rewrite orb_true_l.
           assert (E : find traf_has_sample (r ++ l2) = Some u).
           { clear - Fr. induction r as [|x r IH]; [discriminate|]. cbn [find app] in *.
             destruct (traf_has_sample x); [exact Fr|apply IH; exact Fr]. }
           rewrite E. reflexivity.
        -- cbn [time_after].
           assert (E : find traf_has_sample (r ++ l2) = find traf_has_sample l2).
           { clear - Fr. induction r as [|x r IH]; [reflexivity|]. cbn [find app] in *.
             destruct (traf_has_sample x); [discriminate|apply IH; exact Fr]. }
           rewrite E. destruct (find traf_has_sample l2) as [u|]; [reflexivity|].
           destruct l2; reflexivity.
Qed.

Lemma trafs_fold_view wrap id ts : forall a,
  wf_view (acc_view a) ->
  acc_view (fold_left (traf_step_r wrap id) ts a) = time_after (acc_view a) (filter (fun t => t_track t =? id) ts).
Proof.
  induction ts as [|t r IH]; intros a W.
  - cbn [fold_left filter]. rewrite time_after_nil. reflexivity.
  - cbn [fold_left]. rewrite IH.
    + rewrite traf_step_r_view by exact W. rewrite time_after_app.
      change (t :: r) with ([t] ++ r). rewrite filter_app. reflexivity.
    + rewrite traf_step_r_view by exact W. apply time_after_wf. exact W.
Qed.

Lemma frags_step_r_view wrap id frs : forall a a',
  wf_view (acc_view a) ->
  frags_step_r wrap id a frs = Ok a' ->
  acc_view a' = time_after (acc_view a) (filter (fun t => t_track t =? id) (concat (map frag_trafs frs))).
Proof.
  induction frs as [|fr t IH]; intros a a' W.
  - cbn [frags_step_r map concat filter]. intros [= <-]. symmetry. apply time_after_nil.
  - cbn [frags_step_r map concat]. rewrite filter_app.
    assert (Et : frag_trafs fr = match fr_moof fr with Some m => b_trafs m | None => [] end) by reflexivity.
    destruct (fr_moof fr) as [m|] eqn:Mf; [|discriminate].
    intros H. apply IH in H.
    + rewrite H, trafs_fold_view by exact W. rewrite time_after_app, Et. reflexivity.
    + rewrite trafs_fold_view by exact W. apply time_after_wf. exact W.
Qed.

Lemma seg_data_of_pt id s d : seg_data_of id s = Ok d -> sd_pt d = seg_pt id s.
Proof.
  unfold seg_data_of, frags_step.
  destruct (frags_step_r u64 id acc0 (sg_frags s)) as [a| | |] eqn:E; cbn [rbind]; try discriminate.
  destruct (MAX_REF_SIZE <? u64 (seg_size s)); [discriminate|].
  destruct (MAX_REF_DUR <? a_dur a); [discriminate|].
  intros [= <-]. cbn [sd_pt]. apply frags_step_r_view in E; [|cbn; discriminate]. unfold seg_pt, ref_trafs.
  unfold acc_view in E. cbn [acc0 a_base a_cto a_seen a_first time_after] in E.
  destruct (find traf_has_sample (filter (fun t => t_track t =? id) (concat (map frag_trafs (sg_frags s))))) as [t|].
  - injection E as -> -> _ _. reflexivity.
  - destruct (filter (fun t => t_track t =? id) (concat (map frag_trafs (sg_frags s)))) as [|t r].
    + injection E as -> -> _ _. reflexivity.
    + injection E as -> -> _ _. reflexivity.
Qed.

(* ---------------------------------------------------------------- the theorem *)
Lemma sidx_ept f add nz newtag f' :
  update_sidx f add nz newtag = Ok f' ->
  (add = true \/ f_sidxs f <> []) ->
  exists sx rest moov rt s0 srest,
    f_sidxs f' = sx :: rest /\ f_moov f = Some moov /\ find_reference_trak (b_traks moov) = Ok rt /\
    f_segs f = s0 :: srest /\
    b_version (sx_box sx) = 1 /\
    b_ept (sx_box sx) = (if nz then seg_pt (k_id rt) s0 else 0) /\
    (* read off: the first traf of the reference track in the first segment that holds a sample *)
    (forall before t after,
        ref_trafs (k_id rt) s0 = before ++ t :: after ->
        forallb (fun u => negb (traf_has_sample u)) before = true -> traf_has_sample t = true ->
        seg_pt (k_id rt) s0 = pt_of (t_base t) (t_cto0 t)).
Proof.
  intros U Hdo. unfold update_sidx in U.
  destruct (update_sidx_shape _ _ _ _ _ _ U Hdo) as (moov & rt & sds & old & anc & rest & Hm & Hr & Hf & Hs & Hsegs & Hi & Hmf & Hne).
  destruct (f_segs f) as [|s0 srest] eqn:Es; [congruence|].
  unfold find_segment_data in Hf. cbn [find_segment_data_g] in Hf.
  destruct (seg_data_of (k_id rt) s0) as [d| | |] eqn:Ed; cbn [rbind] in Hf; try discriminate.
  destruct (find_segment_data_g seg_data_of (k_id rt) srest) as [r| | |]; cbn [rbind] in Hf; try discriminate.
  injection Hf as <-.
  eexists _, rest, moov, rt, s0, srest. split; [exact Hs|]. split; [exact Hm|]. split; [exact Hr|].
  split; [reflexivity|]. cbn [sx_box fill_sidx b_version b_ept]. split; [reflexivity|]. split.
  - rewrite (seg_data_of_pt _ _ _ Ed). reflexivity.
  - intros before t after E Hb Ht. unfold seg_pt. rewrite E.
    assert (F : find traf_has_sample (before ++ t :: after) = Some t).
    { clear - Hb Ht. induction before as [|x r IH]; cbn [app find].
      - rewrite Ht. reflexivity.
      - cbn [forallb] in Hb. apply andb_prop in Hb. destruct Hb as [Hx Hr].
        apply negb_true_iff in Hx. rewrite Hx. apply IH. exact Hr. }
    rewrite F. reflexivity.
Qed.

(* ---------------------------------------------------------------- the text before 48b8dea *)
(* ftyp moov(video 1, audio 2) styp moof(audio only) mdat moof(video: base 90000, first sample offset 3000) mdat:
   the first fragment lacks the reference track; and one fragment whose first trun is empty *)
Definition e_moov : topbox :=
  mkBox KMoov 0 600 8 0 [] true [] false [] [mkTrak 1 0 90000 true; mkTrak 2 1 48000 true] 0 0 0 0.
Definition e_moof (trafs : list traf) : topbox := mkBox KMoof 0 100 8 0 [] false [] false trafs [] 0 0 0 0.
Definition e_late : list topbox :=
  number_from 0 [px KFtyp 24; e_moov; px KStyp 24; e_moof [mkTraf 2 5000 [[1000]] 0]; px KMdat 12;
                 e_moof [mkTraf 1 90000 [[1000; 1000]] 3000]; px KMdat 16].
Definition e_trun2 : list topbox :=
  number_from 0 [px KFtyp 24; e_moov; px KStyp 24; e_moof [mkTraf 1 90000 [[]; [1000; 1000]] 3000]; px KMdat 16].
Definition e_neg : list topbox :=
  number_from 0 [px KFtyp 24; e_moov; px KStyp 24; e_moof [mkTraf 2 0 [[1000]] 0; mkTraf 1 90000 [[1000]] (-3000)]; px KMdat 16].

Definition ept_of (r : res file) : option N :=
  match r with
  | Ok f' => match f_sidxs f' with sx :: _ => Some (b_ept (sx_box sx)) | [] => None end
  | _ => None
  end.

Lemma sidx_ept_pinned_refuted :
  (exists f, assemble (mkOpts false false) e_late = Ok f /\ map (seg_pt 1) (f_segs f) = [93000] /\
             ept_of (update_sidx_eptold f true true 9) = Some 0 /\ ept_of (update_sidx f true true 9) = Some 93000) /\
  (exists f, assemble (mkOpts false false) e_trun2 = Ok f /\ map (seg_pt 1) (f_segs f) = [93000] /\
             ept_of (update_sidx_eptold f true true 9) = Some 90000 /\ ept_of (update_sidx f true true 9) = Some 93000) /\
  (exists f, assemble (mkOpts false false) e_neg = Ok f /\
             ept_of (update_sidx f true true 9) = Some 87000 /\ ept_of (update_sidx f true false 9) = Some 0).
Proof.
  repeat split; (eexists; split; [vm_compute; reflexivity|]); vm_compute; repeat split; reflexivity.
Qed.
