(* C12ShapeProofs.v — every fragment built by DecodeFile has the shape emsg* [moof [mdat] emsg*]:
   at most one moof, at most one mdat, the mdat directly after its moof. *)
From V.lib Require Import Base.
From V.c12 Require Import C12Model C12Spec C12PartProofs C12EncProofs.

Definition seg_shape (s : segment) : Prop := Forall frag_shape (sg_frags s).
Definition file_shape (f : file) : Prop := Forall seg_shape (f_segs f).

(* after a moof the current fragment ends with that moof and has no mdat yet *)
Definition after_moof (f : file) : Prop :=
  exists s fr es1 m, last_opt (f_segs f) = Some s /\ last_opt (sg_frags s) = Some fr /\
    all_emsg es1 = true /\ fr_children fr = es1 ++ [m] /\ fr_moof fr = Some m /\ fr_mdat fr = None /\ b_kind m = KMoof.

Definition linv (f : file) (last : option kind) : Prop :=
  file_shape f /\ (last = Some KMoof -> after_moof f).

Lemma last_opt_set_last' {A} (l : list A) y : last_opt (set_last l y) = Some y.
Proof. unfold set_last. apply last_opt_snoc. Qed.

Lemma all_emsg_snoc es b : all_emsg es = true -> b_kind b = KEmsg -> all_emsg (es ++ [b]) = true.
Proof. intros H K. unfold all_emsg in *. rewrite forallb_app, H. cbn. rewrite K. reflexivity. Qed.

Lemma shape_new pos : frag_shape (new_fragment pos).
Proof. exists [], []. cbn. auto. Qed.

Lemma shape_add_emsg fr b : frag_shape fr -> b_kind b = KEmsg -> frag_shape (frag_add_child fr b).
Proof.
  intros (es1 & es2 & H1 & H2 & H) K. unfold frag_shape, frag_add_child. rewrite K. cbn [fr_moof fr_mdat fr_children].
  destruct (fr_moof fr) as [m|], (fr_mdat fr) as [d|].
  - destruct H as (Hc & Km & Kd). exists es1, (es2 ++ [b]). rewrite Hc, <- app_assoc. cbn [app].
    repeat split; auto using all_emsg_snoc.
  - destruct H as (Hc & Km). exists es1, (es2 ++ [b]). rewrite Hc, <- app_assoc. cbn [app].
    repeat split; auto using all_emsg_snoc.
  - contradiction.
  - destruct H as (Hc & ->). exists (es1 ++ [b]), []. rewrite Hc. repeat split; auto using all_emsg_snoc.
Qed.

Lemma shape_add_moof fr b :
  frag_shape fr -> fr_moof fr = None -> b_kind b = KMoof ->
  frag_shape (frag_add_child fr b) /\
  exists es1, all_emsg es1 = true /\ fr_children (frag_add_child fr b) = es1 ++ [b] /\
              fr_moof (frag_add_child fr b) = Some b /\ fr_mdat (frag_add_child fr b) = None.
Proof.
  intros (es1 & es2 & H1 & H2 & H) M K. unfold frag_shape, frag_add_child. rewrite K. cbn [fr_moof fr_mdat fr_children].
  rewrite M in H. destruct (fr_mdat fr) as [d|]; [contradiction|]. destruct H as (Hc & ->).
  split.
  - exists es1, []. rewrite Hc. repeat split; auto.
  - exists es1. rewrite Hc. auto.
Qed.

Lemma Forall_snoc' {A} (P : A -> Prop) l x : Forall P l -> P x -> Forall P (l ++ [x]).
Proof. intros. apply Forall_app. auto. Qed.

Lemma seg_shape_set_last s fr' :
  seg_shape s -> frag_shape fr' -> seg_shape (seg_set_last_fragment s fr').
Proof. intros H H'. unfold seg_shape, seg_set_last_fragment. cbn [sg_frags]. apply Forall_set_last; auto. Qed.

Lemma seg_shape_add s pos : seg_shape s -> seg_shape (seg_add_fragment s (new_fragment pos)).
Proof. intros H. unfold seg_shape, seg_add_fragment. cbn [sg_frags]. apply Forall_snoc'; auto using shape_new. Qed.

Lemma file_shape_set_last f s' :
  file_shape f -> seg_shape s' -> file_shape (set_segs f (set_last (f_segs f) s')).
Proof. intros H H'. unfold file_shape, set_segs. cbn [f_segs]. apply Forall_set_last; auto. Qed.

Lemma file_shape_add_segment f styp pos : file_shape f -> file_shape (add_segment f (new_segment styp pos)).
Proof. intros H. unfold file_shape, add_segment. cbn [f_segs]. apply Forall_snoc'; auto. constructor. Qed.

Lemma file_shape_start f pos f1 : file_shape f -> start_segment_if_needed f pos = Ok f1 -> file_shape f1.
Proof.
  intros H S. apply start_segment_cases in S. destruct S as [-> | ->]; auto using file_shape_add_segment.
Qed.

Lemma last_frag_shape f s fr :
  file_shape f -> last_opt (f_segs f) = Some s -> last_opt (sg_frags s) = Some fr -> seg_shape s /\ frag_shape fr.
Proof.
  intros H L Lf. pose proof (Forall_last_opt _ _ _ H L) as Hs. split; [exact Hs|].
  exact (Forall_last_opt _ _ _ Hs Lf).
Qed.

(* one step of DecodeFile's loop *)
Lemma step_shape f b pos last f' :
  linv f last ->
  (kind_eqb (b_kind b) KMdat && negb (mdat_check f b last)) = false ->
  add_child_switch f b pos = Ok f' ->
  linv f' (Some (b_kind b)).
Proof.
  intros [HS HA] Hchk. unfold add_child_switch. destruct (b_kind b) eqn:K.
  - intros [= <-]. split; [exact HS|discriminate].
  - intros [= <-]. split; [apply file_shape_add_segment; exact HS|discriminate].
  - destruct (b_stts_empty b); intros [= <-]; (split; [exact HS|discriminate]).
  - destruct (last_opt (f_segs f)) as [s|] eqn:L; intros [= <-]; (split; [|discriminate]); [|exact HS].
    apply file_shape_set_last; [exact HS|]. exact (Forall_last_opt _ _ _ HS L).
  - (* moof *)
    destruct (start_segment_if_needed (set_fragmented f) pos) as [f1| | |] eqn:S; cbn [rbind]; try discriminate.
    assert (H1 : file_shape f1) by (eapply file_shape_start; [|exact S]; exact HS).
    destruct (last_opt (f_segs f1)) as [s|] eqn:L; [|discriminate].
    pose proof (Forall_last_opt _ _ _ H1 L) as Hs.
    set (s1 := match last_opt (sg_frags s) with
               | Some lf => if is_some (fr_moof lf) then seg_add_fragment s (new_fragment pos) else s
               | None => seg_add_fragment s (new_fragment pos) end).
    assert (Hs1 : seg_shape s1 /\ forall fr, last_opt (sg_frags s1) = Some fr -> fr_moof fr = None).
    { subst s1. destruct (last_opt (sg_frags s)) as [lf|] eqn:Ll.
      - destruct (fr_moof lf) eqn:Ml; cbn [is_some].
        + split; [apply seg_shape_add; exact Hs|]. unfold seg_add_fragment. cbn [sg_frags]. intros fr.
          rewrite last_opt_snoc. intros [= <-]. reflexivity.
        + split; [exact Hs|]. intros fr. rewrite Ll. intros [= <-]. exact Ml.
      - split; [apply seg_shape_add; exact Hs|]. unfold seg_add_fragment. cbn [sg_frags]. intros fr.
        rewrite last_opt_snoc. intros [= <-]. reflexivity. }
    destruct Hs1 as [Hs1 Hm]. destruct (last_opt (sg_frags s1)) as [fr|] eqn:Lf; [|discriminate].
    intros [= <-].
    destruct (shape_add_moof fr b (Forall_last_opt _ _ _ Hs1 Lf) (Hm _ eq_refl) K) as (Sh & es1 & E1 & E2 & E3 & E4).
    split.
    + apply file_shape_set_last; [exact H1|]. apply seg_shape_set_last; assumption.
    + intros _. exists (seg_set_last_fragment s1 (frag_add_child fr b)), (frag_add_child fr b), es1, b.
      unfold set_segs. cbn [f_segs]. rewrite last_opt_set_last'. cbn [sg_frags seg_set_last_fragment].
      rewrite last_opt_set_last'. repeat split; auto.
  - (* mdat *)
    cbn [kind_eqb andb] in Hchk. apply negb_false_iff in Hchk. unfold mdat_check in Hchk.
    destruct (f_fragmented f) eqn:Fr; cbn [negb].
    + destruct last as [[]|]; try discriminate.
      destruct (HA eq_refl) as (s & fr & es1 & m & L & Lf & E1 & E2 & E3 & E4 & Km).
      rewrite L, Lf. intros [= <-]. split; [|discriminate].
      apply file_shape_set_last; [exact HS|].
      destruct (last_frag_shape _ _ _ HS L Lf) as [Hs _]. apply seg_shape_set_last; [exact Hs|].
      exists es1, []. unfold frag_add_child. rewrite K. cbn [fr_moof fr_mdat fr_children]. rewrite E3, E2, <- app_assoc.
      cbn [app]. repeat split; auto.
    + destruct (match f_mdat f with Some m => mdat_payload m =? 0 | None => true end); intros [= <-];
        (split; [exact HS|discriminate]).
  - (* emsg *)
    destruct (start_segment_if_needed f pos) as [f1| | |] eqn:S; cbn [rbind]; try discriminate.
    assert (H1 : file_shape f1) by (eapply file_shape_start; [|exact S]; exact HS).
    destruct (last_opt (f_segs f1)) as [s|] eqn:L; [|discriminate].
    pose proof (Forall_last_opt _ _ _ H1 L) as Hs.
    set (s1 := if is_nil (sg_frags s) then seg_add_fragment s (new_fragment pos) else s).
    assert (Hs1 : seg_shape s1) by (subst s1; destruct (is_nil (sg_frags s)); auto using seg_shape_add).
    destruct (last_opt (sg_frags s1)) as [fr|] eqn:Lf; [|discriminate]. intros [= <-].
    split; [|discriminate].
    apply file_shape_set_last; [exact H1|]. apply seg_shape_set_last; [exact Hs1|].
    apply shape_add_emsg; [exact (Forall_last_opt _ _ _ Hs1 Lf)|exact K].
  - intros [= <-]. split; [exact HS|discriminate].
  - intros [= <-]. split; [exact HS|discriminate].
Qed.

Lemma add_child_shape f b pos last f' :
  linv f last ->
  (kind_eqb (b_kind b) KMdat && negb (mdat_check f b last)) = false ->
  add_child f b pos = Ok f' ->
  linv f' (Some (b_kind b)).
Proof.
  intros HL Hc. unfold add_child.
  destruct (add_child_switch f b pos) as [f1| | |] eqn:S; cbn [rbind]; try discriminate.
  intros [= <-]. destruct (step_shape _ _ _ _ _ HL Hc S) as [H1 H2].
  split; [exact H1|]. intros E. destruct (H2 E) as (s & fr & es1 & m & L & R).
  exists s, fr, es1, m. cbn [f_segs]. auto.
Qed.

Lemma decode_loop_shape bs : forall f pos last f',
  linv f last -> decode_loop f pos last bs = Ok f' -> file_shape f'.
Proof.
  induction bs as [|b t IH]; intros f pos last f' HL.
  - cbn. intros [= <-]. exact (proj1 HL).
  - cbn [decode_loop]. destruct (kind_eqb (b_kind b) KMdat && negb (mdat_check f b last)) eqn:C; [discriminate|].
    destruct (add_child f b pos) as [f1| | |] eqn:A; cbn [rbind]; try discriminate.
    apply IH. eapply add_child_shape; eauto.
Qed.

(* every fragment of a decoded file: emsg* [moof [mdat] emsg*] *)
Lemma fragment_shape o bs f :
  assemble o bs = Ok f -> Forall (fun s => Forall frag_shape (sg_frags s)) (f_segs f).
Proof.
  intros H. destruct (assemble_inv _ _ _ H) as (tf & f0 & _ & D & ->).
  apply decode_loop_shape in D; [exact D|].
  split; [constructor|discriminate].
Qed.
