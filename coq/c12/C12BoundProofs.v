(* C12BoundProofs.v — where segments start: the model's startSegmentIfNeeded / AddChild against
   the declarative boundary rules of C12Spec (sidx references / tfra entry / every moof / first only). *)
From V.lib Require Import Base.
From V.c12 Require Import C12Model C12Spec C12PartProofs.

(* ---------------------------------------------------------------- the sidx scan = k-th designated start *)
Definition hit (l : list N) (n : nat) (pos : N) : bool :=
  match nth_error l n with Some q => pos =? q | None => false end.

Lemma scan_refs_spec pos seg refs : forall start idx,
  scan_refs refs start idx pos seg =
    if (idx <=? seg) && hit (ref_starts refs start) (N.to_nat (seg - idx)) pos
    then (true, seg) else (false, idx + lenN (ref_starts refs start)).
Proof.
  induction refs as [|r t IH]; intros start idx.
  - cbn. unfold hit. destruct (N.to_nat (seg - idx)); cbn; rewrite andb_false_r; f_equal; lia.
  - cbn [scan_refs ref_starts]. destruct (r_type r =? 1).
    + unfold hit. destruct (N.to_nat (seg - idx)); cbn; rewrite andb_false_r; f_equal; lia.
    + destruct ((pos =? start) && (idx =? seg)) eqn:E.
      * apply andb_true_iff in E. destruct E as [E1 E2]. apply N.eqb_eq in E2. subst idx.
        rewrite N.leb_refl, N.sub_diag. unfold hit. cbn. rewrite E1. reflexivity.
      * rewrite IH. rewrite lenN_cons.
        destruct (N.leb_spec idx seg) as [Hle|Hgt].
        -- destruct (N.eq_dec idx seg) as [->|Hne].
           ++ rewrite N.sub_diag. unfold hit at 2. cbn [N.to_nat nth_error].
              rewrite N.eqb_refl, andb_true_r in E. rewrite E. cbn [andb].
              destruct (N.leb_spec (seg + 1) seg); [lia|]. cbn [andb]. f_equal. lia.
           ++ destruct (N.leb_spec (idx + 1) seg); [|lia]. cbn [andb].
              replace (N.to_nat (seg - idx)) with (S (N.to_nat (seg - (idx + 1)))) by lia.
              unfold hit. cbn [nth_error].
              destruct (match nth_error (ref_starts t (u64 (start + r_size r))) (N.to_nat (seg - (idx + 1))) with
                        | Some q => pos =? q | None => false end); [reflexivity|]. f_equal. lia.
        -- destruct (N.leb_spec (idx + 1) seg); [lia|]. cbn [andb]. f_equal. lia.
Qed.

Lemma hit_app1 l r n pos : (n < length l)%nat -> hit (l ++ r) n pos = hit l n pos.
Proof. intros H. unfold hit. rewrite nth_error_app1 by exact H. reflexivity. Qed.

Lemma hit_app2 l r n pos : (length l <= n)%nat -> hit (l ++ r) n pos = hit r (n - length l) pos.
Proof. intros H. unfold hit. rewrite nth_error_app2 by exact H. reflexivity. Qed.

Lemma hit_none l n pos : (length l <= n)%nat -> hit l n pos = false.
Proof. intros H. unfold hit. apply nth_error_None in H. rewrite H. reflexivity. Qed.

Lemma scan_sidxs_spec pos seg sxs : forall idx,
  scan_sidxs sxs idx pos seg = (idx <=? seg) && hit (sidx_starts sxs) (N.to_nat (seg - idx)) pos.
Proof.
  induction sxs as [|sx t IH]; intros idx.
  - cbn. unfold hit. destruct (N.to_nat (seg - idx)); cbn; rewrite andb_false_r; reflexivity.
  - cbn [scan_sidxs]. rewrite scan_refs_spec.
    change (sidx_starts (sx :: t)) with (ref_starts (b_refs (sx_box sx)) (sx_anchor sx) ++ sidx_starts t).
    set (l := ref_starts (b_refs (sx_box sx)) (sx_anchor sx)).
    destruct (N.leb_spec idx seg) as [Hle|Hgt]; cbn [andb].
    + destruct (Nat.lt_ge_cases (N.to_nat (seg - idx)) (length l)) as [Hlt|Hge].
      * rewrite hit_app1 by exact Hlt. destruct (hit l (N.to_nat (seg - idx)) pos); [reflexivity|].
        rewrite IH. destruct (N.leb_spec (idx + lenN l) seg); [unfold lenN in *; lia|]. reflexivity.
      * rewrite hit_app2 by exact Hge. rewrite (hit_none l) by exact Hge.
        rewrite IH. destruct (N.leb_spec (idx + lenN l) seg); [|unfold lenN in *; lia]. cbn [andb].
        f_equal. unfold lenN. lia.
    + rewrite IH. destruct (N.leb_spec (idx + lenN l) seg); [lia|]. reflexivity.
Qed.

Lemma scan_sidxs_designates sxs pos k :
  scan_sidxs sxs 0 pos (N.of_nat k) = sidx_designates sxs k pos.
Proof.
  rewrite scan_sidxs_spec. replace (0 <=? N.of_nat k) with true by (symmetry; apply N.leb_le; lia).
  rewrite N.sub_0_r, Nat2N.id. reflexivity.
Qed.

(* ---------------------------------------------------------------- refinement *)
Definition seg_view (s : segment) : N * bool := (sg_start s, is_some (sg_styp s)).
Definition segs_view (f : file) : list (N * bool) := map seg_view (f_segs f).

Definition cur_ok (q : bstate) (s : segment) : Prop :=
  q_styp q = is_some (sg_styp s) /\
  q_has_frag q = negb (is_nil (sg_frags s)) /\
  q_open q = match last_opt (sg_frags s) with Some fr => negb (is_some (fr_moof fr)) | None => false end.

Definition R (som : bool) (tf : option (list N)) (f : file) (q : bstate) : Prop :=
  q_nseg q = length (f_segs f) /\ q_sidxs q = f_sidxs f /\
  f_tfra f = tf /\ f_start_on_moof f = som /\
  match last_opt (f_segs f) with Some s => cur_ok q s | None => True end.

Lemma is_nil_length {A} (l : list A) : is_nil l = (length l =? 0)%nat.
Proof. destruct l; reflexivity. Qed.

Lemma seg_start_spec som tf f q pos : R som tf f q -> seg_start f pos = media_starts som tf q pos.
Proof.
  intros (Hn & Hs & Ht & Hm & Hc). unfold seg_start, media_starts, seg_start_switch, designated.
  rewrite Hn, Hs, Ht, Hm. unfold lenN.
  destruct (f_segs f) as [|s0 t] eqn:Es.
  - cbn [is_nil length Nat.eqb]. rewrite orb_true_r. reflexivity.
  - cbn [is_nil]. rewrite orb_false_r.
    assert (E0 : (length (s0 :: t) =? 0)%nat = false) by reflexivity. rewrite E0. cbn [orb].
    destruct (f_sidxs f) as [|sx r] eqn:Ex.
    + cbn [is_nil negb]. destruct tf as [offs|].
      * rewrite Nat2N.id. reflexivity.
      * destruct som; [|reflexivity].
        destruct (last_opt (s0 :: t)) as [s|] eqn:L.
        -- destruct Hc as (C1 & C2 & C3). rewrite C1, C3, negb_orb. reflexivity.
        -- apply last_opt_none in L. discriminate.
    + cbn [is_nil negb]. rewrite scan_sidxs_designates. reflexivity.
Qed.

Lemma segs_view_set_last f s s' :
  last_opt (f_segs f) = Some s -> seg_view s' = seg_view s ->
  map seg_view (set_last (f_segs f) s') = map seg_view (f_segs f).
Proof.
  intros L E. unfold set_last. rewrite (last_opt_some _ _ L) at 2. rewrite !map_app. cbn [map]. rewrite E. reflexivity.
Qed.

Lemma length_set_last {A} (l : list A) x y : last_opt l = Some x -> length (set_last l y) = length l.
Proof. intros L. unfold set_last. rewrite (last_opt_some _ _ L) at 2. rewrite !app_length. reflexivity. Qed.

Lemma last_opt_set_last {A} (l : list A) y : last_opt (set_last l y) = Some y.
Proof. unfold set_last. apply last_opt_snoc. Qed.

Lemma R_add_segment som tf f q styp pos :
  R som tf f q ->
  R som tf (add_segment f (new_segment styp pos)) (mkB (S (q_nseg q)) (q_sidxs q) (is_some styp) false false).
Proof.
  intros (Hn & Hs & Ht & Hm & _). unfold R, add_segment. cbn [f_segs f_sidxs f_tfra f_start_on_moof q_nseg q_sidxs].
  rewrite app_length, last_opt_snoc. cbn [length]. repeat split; auto; lia.
Qed.

(* pushing a box into the last fragment of the last segment (possibly after opening a fragment) *)
Lemma R_push som tf f1 q1 s s1 fr b :
  R som tf f1 q1 ->
  last_opt (f_segs f1) = Some s ->
  sg_start s1 = sg_start s -> sg_styp s1 = sg_styp s ->
  last_opt (sg_frags s1) = Some fr ->
  forall open', open' = negb (is_some (fr_moof (frag_add_child fr b))) ->
  R som tf (set_segs f1 (set_last (f_segs f1) (seg_set_last_fragment s1 (frag_add_child fr b))))
    (mkB (q_nseg q1) (q_sidxs q1) (q_styp q1) true open') /\
  segs_view (set_segs f1 (set_last (f_segs f1) (seg_set_last_fragment s1 (frag_add_child fr b)))) = segs_view f1.
Proof.
  intros (Hn & Hs & Ht & Hm & Hc) L E1 E2 Lf open' ->. rewrite L in Hc. destruct Hc as (C1 & _ & _).
  split.
  - unfold R, set_segs. cbn [f_segs f_sidxs f_tfra f_start_on_moof q_nseg q_sidxs q_styp q_has_frag q_open].
    rewrite (length_set_last _ _ _ L), last_opt_set_last. repeat split; auto.
    + cbn [sg_styp seg_set_last_fragment]. rewrite E2. exact C1.
    + cbn [sg_frags seg_set_last_fragment]. unfold set_last. destruct (removelast (sg_frags s1)); reflexivity.
    + cbn [sg_frags seg_set_last_fragment]. rewrite last_opt_set_last. reflexivity.
  - unfold segs_view, set_segs. cbn [f_segs]. apply (segs_view_set_last _ _ _ L).
    unfold seg_view. cbn [sg_start sg_styp seg_set_last_fragment]. rewrite E1, E2. reflexivity.
Qed.

Lemma start_step som tf f q pos :
  R som tf f q ->
  let st := media_starts som tf q pos in
  let f1 := if st then add_segment f (new_segment None pos) else f in
  let q1 := if st then mkB (S (q_nseg q)) (q_sidxs q) false false false else q in
  start_segment_if_needed f pos = Ok f1 /\ R som tf f1 q1 /\
  segs_view f1 = segs_view f ++ (if st then [(pos, false)] else []).
Proof.
  intros HR. cbn zeta. unfold start_segment_if_needed. rewrite (seg_start_spec _ _ _ _ pos HR).
  destruct (media_starts som tf q pos).
  - split; [reflexivity|]. split; [apply (R_add_segment _ _ _ _ None pos HR)|].
    unfold segs_view, add_segment. cbn [f_segs]. rewrite map_app. reflexivity.
  - rewrite app_nil_r. auto.
Qed.

Lemma R_set_fragmented som tf f q : R som tf f q -> R som tf (set_fragmented f) q.
Proof. auto. Qed.

Lemma add_child_switch_bound som tf f q b pos f' :
  R som tf f q -> add_child_switch f b pos = Ok f' ->
  let '(q', st) := bstep som tf q b pos in
  R som tf f' q' /\
  segs_view f' = segs_view f ++ (if st then [(pos, kind_eqb (b_kind b) KStyp)] else []).
Proof.
  intros HR. unfold add_child_switch, bstep. destruct (b_kind b) eqn:K; cbn [kind_eqb].
  - (* ftyp *) intros [= <-]. rewrite app_nil_r. split; [|reflexivity]. exact HR.
  - (* styp *) intros [= <-]. split; [apply (R_add_segment _ _ _ _ (Some b) pos HR)|].
    unfold segs_view, add_segment. cbn [f_segs]. rewrite map_app. reflexivity.
  - (* moov *) destruct (b_stts_empty b); intros [= <-]; rewrite app_nil_r; (split; [|reflexivity]); exact HR.
  - (* sidx *)
    destruct HR as (Hn & Hs & Ht & Hm & Hc).
    destruct (last_opt (f_segs f)) as [s|] eqn:L; intros [= <-]; rewrite app_nil_r.
    + assert (Hk : (q_nseg q =? 0)%nat = false).
      { rewrite Hn. destruct (f_segs f); [discriminate|reflexivity]. }
      rewrite Hk. split.
      * unfold R, set_segs. cbn [f_segs f_sidxs f_tfra f_start_on_moof].
        rewrite (length_set_last _ _ _ L), last_opt_set_last. destruct Hc as (C1 & C2 & C3).
        unfold cur_ok, seg_add_sidx. cbn [sg_styp sg_frags]. repeat split; auto.
      * unfold segs_view, set_segs. cbn [f_segs]. apply (segs_view_set_last _ _ _ L). reflexivity.
    + apply last_opt_none in L. assert (Hk : (q_nseg q =? 0)%nat = true) by (rewrite Hn, L; reflexivity).
      rewrite Hk. split; [|unfold segs_view; cbn [f_segs]; reflexivity].
      unfold R. cbn [f_segs f_sidxs f_tfra f_start_on_moof q_nseg q_sidxs]. rewrite L, Hs. cbn. repeat split; auto.
  - (* moof *)
    destruct (start_step som tf (set_fragmented f) q pos (R_set_fragmented _ _ _ _ HR)) as (S1 & R1 & V1).
    rewrite S1. cbn [rbind]. clear S1.
    set (st := media_starts som tf q pos) in *.
    set (f1 := if st then add_segment (set_fragmented f) (new_segment None pos) else set_fragmented f) in *.
    set (q1 := if st then mkB (S (q_nseg q)) (q_sidxs q) false false false else q) in *.
    destruct (last_opt (f_segs f1)) as [s|] eqn:L; [|discriminate].
    match goal with |- context [last_opt (sg_frags ?x)] => set (s1 := x) end.
    assert (E1 : sg_start s1 = sg_start s /\ sg_styp s1 = sg_styp s).
    { subst s1. destruct (last_opt (sg_frags s)) as [lf|]; [destruct (is_some (fr_moof lf))|]; auto. }
    destruct (last_opt (sg_frags s1)) as [fr|] eqn:Lf; [|discriminate]. intros [= <-].
    destruct (R_push _ _ _ _ _ _ _ b R1 L (proj1 E1) (proj2 E1) Lf false) as [R2 V2].
    { unfold frag_add_child. rewrite K. reflexivity. }
    split; [exact R2|]. rewrite V2, V1. reflexivity.
  - (* mdat *)
    destruct (negb (f_fragmented f)).
    + destruct (match f_mdat f with Some m => mdat_payload m =? 0 | None => true end); intros [= <-];
        rewrite app_nil_r; (split; [|reflexivity]); exact HR.
    + destruct (last_opt (f_segs f)) as [s|] eqn:L; [|discriminate].
      destruct (last_opt (sg_frags s)) as [fr|] eqn:Lf; [|discriminate]. intros [= <-]. rewrite app_nil_r.
      pose proof HR as HR'. unfold R in HR'. destruct HR' as (Hn & Hs & Ht & Hm & Hc). rewrite L in Hc. destruct Hc as (C1 & C2 & C3).
      destruct (R_push _ _ _ _ _ _ _ b HR L eq_refl eq_refl Lf (q_open q)) as [R2 V2].
      { rewrite C3, Lf. unfold frag_add_child. rewrite K. reflexivity. }
      split; [|exact V2].
      assert (Eq : q = mkB (q_nseg q) (q_sidxs q) (q_styp q) true (q_open q)).
      { destruct q as [a b0 c d e]. cbn in *. rewrite C2. destruct (sg_frags s); [discriminate|reflexivity]. }
      rewrite Eq. exact R2.
  - (* emsg *)
    destruct (start_step som tf f q pos HR) as (S1 & R1 & V1).
    rewrite S1. cbn [rbind]. clear S1.
    set (st := media_starts som tf q pos) in *.
    set (f1 := if st then add_segment f (new_segment None pos) else f) in *.
    set (q1 := if st then mkB (S (q_nseg q)) (q_sidxs q) false false false else q) in *.
    destruct (last_opt (f_segs f1)) as [s|] eqn:L; [|discriminate].
    pose proof R1 as R1'. unfold R in R1'. destruct R1' as (Hn & Hs & Ht & Hm & Hc). rewrite L in Hc. destruct Hc as (C1 & C2 & C3).
    destruct (is_nil (sg_frags s)) eqn:Nil.
    + (* a fragment is opened by the emsg *)
      cbn [negb] in C2. rewrite C2.
      assert (Lf : last_opt (sg_frags (seg_add_fragment s (new_fragment pos))) = Some (new_fragment pos))
        by (unfold seg_add_fragment; cbn [sg_frags]; apply last_opt_snoc).
      rewrite Lf. intros [= <-].
      destruct (R_push _ _ _ _ _ _ _ b R1 L (eq_refl : sg_start (seg_add_fragment s (new_fragment pos)) = _) eq_refl Lf true) as [R2 V2].
      { unfold frag_add_child. rewrite K. reflexivity. }
      split; [exact R2|]. rewrite V2, V1. reflexivity.
    + cbn [negb] in C2. rewrite C2.
      destruct (last_opt (sg_frags s)) as [fr|] eqn:Lf; [|discriminate]. intros [= <-].
      destruct (R_push _ _ _ _ _ _ _ b R1 L eq_refl eq_refl Lf (q_open q1)) as [R2 V2].
      { rewrite C3. unfold frag_add_child. rewrite K. reflexivity. }
      split; [|rewrite V2, V1; reflexivity].
      assert (Eq : q1 = mkB (q_nseg q1) (q_sidxs q1) (q_styp q1) true (q_open q1)).
      { destruct q1 as [a b0 c d e]. cbn in *. rewrite C2. reflexivity. }
      rewrite Eq. exact R2.
  - (* mfra *) intros [= <-]. rewrite app_nil_r. split; [|reflexivity]. exact HR.
  - (* other *) intros [= <-]. rewrite app_nil_r. split; [|reflexivity]. exact HR.
Qed.

Lemma add_child_bound som tf f q b pos f' :
  R som tf f q -> add_child f b pos = Ok f' ->
  R som tf f' (fst (bstep som tf q b pos)) /\
  segs_view f' = segs_view f ++ (if snd (bstep som tf q b pos) then [(pos, kind_eqb (b_kind b) KStyp)] else []).
Proof.
  intros HR. unfold add_child.
  destruct (add_child_switch f b pos) as [f1| | |] eqn:S; cbn [rbind]; try discriminate.
  intros [= <-]. pose proof (add_child_switch_bound _ _ _ _ _ _ _ HR S) as H.
  destruct (bstep som tf q b pos) as [q' st]. cbn [fst snd]. destruct H as [H1 H2].
  split; [|exact H2]. destruct H1 as (Hn & Hs & Ht & Hm & Hc). unfold R. cbn [f_segs f_sidxs f_tfra f_start_on_moof]. auto.
Qed.

Lemma add_children_bound som tf bs : forall f q pos f',
  R som tf f q -> add_children f pos bs = Ok f' ->
  segs_view f' = segs_view f ++ boundaries som tf q pos bs.
Proof.
  induction bs as [|b t IH]; intros f q pos f' HR.
  - cbn. intros [= <-]. rewrite app_nil_r. reflexivity.
  - cbn [add_children boundaries]. destruct (add_child f b pos) as [f1| | |] eqn:A; cbn [rbind]; try discriminate.
    intros H. destruct (add_child_bound _ _ _ _ _ _ _ HR A) as [R1 V1].
    destruct (bstep som tf q b pos) as [q' st]. cbn [fst snd] in *.
    rewrite (IH _ _ _ _ R1 H), V1, app_assoc. reflexivity.
Qed.

Lemma R_empty som tf : R som tf (empty_file som tf) bstate0.
Proof. unfold R. cbn. auto. Qed.

(* the boundary theorem *)
Lemma boundaries_thm o bs f tf :
  assemble o bs = Ok f ->
  find_tfra (o_ism o) bs = Ok tf ->
  map (fun s => (sg_start s, is_some (sg_styp s))) (f_segs f) = boundaries (o_start_on_moof o) tf bstate0 0 bs.
Proof.
  intros A T. destruct (assemble_inv _ _ _ A) as (tf' & f0 & T' & D & ->).
  rewrite T in T'. injection T' as <-.
  apply decode_loop_add_children in D.
  apply (add_children_bound _ _ _ _ _ _ _ (R_empty _ _)) in D. exact D.
Qed.

(* the four mechanisms spelled out: what `designated` means *)
Lemma designated_cases som tf q pos :
  designated som tf q pos = true <->
  (q_sidxs q <> [] /\ nth_error (sidx_starts (q_sidxs q)) (q_nseg q) = Some pos) \/
  (q_sidxs q = [] /\ exists offs, tf = Some offs /\ nth_error offs (q_nseg q) = Some pos) \/
  (q_sidxs q = [] /\ tf = None /\ som = true /\ q_styp q = false /\ q_open q = false).
Proof.
  unfold designated, sidx_designates. destruct (q_sidxs q) as [|sx r] eqn:Ex.
  - destruct tf as [offs|].
    + destruct (nth_error offs (q_nseg q)) as [o|] eqn:En; split.
      * intros H. apply N.eqb_eq in H. subst o. right. left. split; [reflexivity|]. exists offs. auto.
      * intros [[H _]|[(_ & offs' & [= <-] & Hn)|(_ & H & _)]]; [congruence| |discriminate].
        rewrite En in Hn. injection Hn as ->. apply N.eqb_refl.
      * discriminate.
      * intros [[H _]|[(_ & offs' & [= <-] & Hn)|(_ & H & _)]]; [congruence| |discriminate].
        rewrite En in Hn. discriminate.
    + destruct som; split.
      * intros H. apply andb_true_iff in H. destruct H as [H1 H2]. apply negb_true_iff in H1, H2.
        right. right. auto.
      * intros [[H _]|[(_ & offs' & H & _)|(_ & _ & _ & H1 & H2)]]; [congruence|discriminate|].
        rewrite H1, H2. reflexivity.
      * discriminate.
      * intros [[H _]|[(_ & offs' & H & _)|(_ & _ & H & _)]]; [congruence|discriminate|discriminate].
  - destruct (nth_error (sidx_starts (sx :: r)) (q_nseg q)) as [p|] eqn:En; split.
    + intros H. apply N.eqb_eq in H. subst p. left. split; [discriminate|reflexivity].
    + intros [[_ H]|[(H & _)|(H & _)]]; [|discriminate|discriminate]. injection H as ->. apply N.eqb_refl.
    + discriminate.
    + intros [[_ H]|[(H & _)|(H & _)]]; discriminate.
Qed.
