(* C12PartProofs.v — the partition theorem: the fragments of the assembled file hold exactly the
   media boxes of the input, in order. *)
From V.lib Require Import Base.
From V.c12 Require Import C12Model C12Spec.

(* ---------------------------------------------------------------- list helpers *)
Lemma last_opt_some {A} (l : list A) x : last_opt l = Some x -> l = removelast l ++ [x].
Proof.
  induction l as [|a t IH]; [discriminate|].
  destruct t as [|b t'].
  - cbn. intros [= ->]. reflexivity.
  - intros H. change (last_opt (a :: b :: t')) with (last_opt (b :: t')) in H.
    change (removelast (a :: b :: t')) with (a :: removelast (b :: t')).
    cbn [app]. f_equal. apply IH. exact H.
Qed.

Lemma last_opt_none {A} (l : list A) : last_opt l = None -> l = [].
Proof.
  induction l as [|a t IH]; [reflexivity|].
  destruct t as [|b t']; [discriminate|].
  intros H. change (last_opt (a :: b :: t')) with (last_opt (b :: t')) in H.
  apply IH in H. discriminate.
Qed.

Lemma last_opt_snoc {A} (l : list A) x : last_opt (l ++ [x]) = Some x.
Proof.
  induction l as [|a t IH]; [reflexivity|].
  cbn [app]. destruct (t ++ [x]) eqn:E.
  - destruct t; discriminate.
  - exact IH.
Qed.

Lemma set_last_spec {A} (l : list A) x y :
  last_opt l = Some x -> l = removelast l ++ [x] /\ set_last l y = removelast l ++ [y].
Proof. intros H. split; [apply last_opt_some; exact H | reflexivity]. Qed.

Lemma concat_map_app {A B} (g : A -> list B) (a b : list A) :
  concat (map g (a ++ b)) = concat (map g a) ++ concat (map g b).
Proof. rewrite map_app, concat_app. reflexivity. Qed.

Lemma concat_map_snoc {A B} (g : A -> list B) (a : list A) x :
  concat (map g (a ++ [x])) = concat (map g a) ++ g x.
Proof. rewrite concat_map_app. cbn. rewrite app_nil_r. reflexivity. Qed.

(* ---------------------------------------------------------------- fragment / segment level *)
Lemma frag_add_child_children fr b : fr_children (frag_add_child fr b) = fr_children fr ++ [b].
Proof. unfold frag_add_child. destruct (b_kind b); reflexivity. Qed.

Lemma sfb_add_fragment s pos :
  seg_fragment_boxes (seg_add_fragment s (new_fragment pos)) = seg_fragment_boxes s.
Proof.
  unfold seg_fragment_boxes, seg_add_fragment. cbn [sg_frags].
  rewrite concat_map_snoc. cbn. apply app_nil_r.
Qed.

Lemma sfb_set_last s fr b :
  last_opt (sg_frags s) = Some fr ->
  seg_fragment_boxes (seg_set_last_fragment s (frag_add_child fr b)) = seg_fragment_boxes s ++ [b].
Proof.
  intros H. unfold seg_fragment_boxes, seg_set_last_fragment. cbn [sg_frags].
  destruct (set_last_spec _ _ (frag_add_child fr b) H) as [E1 E2].
  rewrite E2. rewrite E1 at 2. rewrite !concat_map_snoc, frag_add_child_children.
  rewrite app_assoc. reflexivity.
Qed.

Lemma sfb_add_sidx s sx : seg_fragment_boxes (seg_add_sidx s sx) = seg_fragment_boxes s.
Proof. reflexivity. Qed.

Lemma ffb_set_last segs s s' :
  last_opt segs = Some s ->
  concat (map seg_fragment_boxes (set_last segs s')) =
  concat (map seg_fragment_boxes (removelast segs)) ++ seg_fragment_boxes s'.
Proof. intros H. unfold set_last. apply concat_map_snoc. Qed.

Lemma ffb_last segs s :
  last_opt segs = Some s ->
  concat (map seg_fragment_boxes segs) =
  concat (map seg_fragment_boxes (removelast segs)) ++ seg_fragment_boxes s.
Proof. intros H. rewrite (last_opt_some _ _ H) at 1. apply concat_map_snoc. Qed.

Lemma set_last_nonnil {A} (l : list A) x : set_last l x <> [].
Proof. unfold set_last. destruct (removelast l); discriminate. Qed.

(* ---------------------------------------------------------------- the invariant *)
(* segments exist only in a file already marked fragmented *)
Definition inv (f : file) : Prop := f_segs f <> [] -> f_fragmented f = true.

Definition step_media (fragd : bool) (b : topbox) : list topbox :=
  if is_media b && (fragd || is_marker b) then [b] else [].

Lemma start_segment_cases f pos f1 :
  start_segment_if_needed f pos = Ok f1 -> f1 = f \/ f1 = add_segment f (new_segment None pos).
Proof.
  unfold start_segment_if_needed. intros [= <-]. destruct (seg_start f pos); auto.
Qed.

Lemma ffb_add_segment f styp pos :
  file_fragment_boxes (add_segment f (new_segment styp pos)) = file_fragment_boxes f.
Proof.
  unfold add_segment, file_fragment_boxes. cbn [f_segs]. rewrite concat_map_snoc. cbn. apply app_nil_r.
Qed.

(* adding box b to the last fragment of the last segment (after possibly opening a fragment) *)
Lemma ffb_push f1 s s1 fr b :
  last_opt (f_segs f1) = Some s ->
  seg_fragment_boxes s1 = seg_fragment_boxes s ->
  last_opt (sg_frags s1) = Some fr ->
  file_fragment_boxes (set_segs f1 (set_last (f_segs f1) (seg_set_last_fragment s1 (frag_add_child fr b)))) =
  file_fragment_boxes f1 ++ [b].
Proof.
  intros L E Lf. unfold file_fragment_boxes, set_segs. cbn [f_segs].
  rewrite (ffb_set_last _ _ _ L), (sfb_set_last _ _ _ Lf), E, (ffb_last _ _ L), app_assoc. reflexivity.
Qed.

Lemma add_child_switch_step f b pos f' :
  inv f -> add_child_switch f b pos = Ok f' ->
  inv f' /\
  f_fragmented f' = f_fragmented f || is_marker b /\
  file_fragment_boxes f' = file_fragment_boxes f ++ step_media (f_fragmented f) b.
Proof.
  intros Hinv. unfold add_child_switch, step_media, is_media, is_marker.
  destruct (b_kind b) eqn:K.
  - (* ftyp *) intros [= <-]. cbn. rewrite orb_false_r, app_nil_r. unfold inv in *; cbn; auto.
  - (* styp *) intros [= <-]. rewrite ffb_add_segment. unfold add_segment, inv. cbn [f_segs f_fragmented andb].
    rewrite !app_nil_r, orb_true_r. auto.
  - (* moov *)
    destruct (b_stts_empty b); intros [= <-]; cbn; rewrite ?orb_false_r, ?orb_true_r, app_nil_r;
      unfold inv in *; cbn; auto.
  - (* sidx *)
    destruct (last_opt (f_segs f)) as [s|] eqn:L; intros [= <-].
    + unfold inv, set_segs, file_fragment_boxes in *. cbn [f_segs f_fragmented andb].
      rewrite (ffb_set_last _ _ _ L), sfb_add_sidx, <- (ffb_last _ _ L).
      rewrite orb_false_r, app_nil_r. repeat split; auto.
      intros _. apply Hinv. intros E. rewrite E in L. discriminate.
    + unfold inv in *. cbn. rewrite orb_false_r, app_nil_r. auto.
  - (* moof *)
    destruct (start_segment_if_needed (set_fragmented f) pos) as [f1| | |] eqn:S; cbn [rbind]; try discriminate.
    apply start_segment_cases in S.
    assert (F1 : f_fragmented f1 = true) by (destruct S as [-> | ->]; reflexivity).
    assert (B1 : file_fragment_boxes f1 = file_fragment_boxes f).
    { destruct S as [-> | ->]; [reflexivity|]. rewrite ffb_add_segment. reflexivity. }
    destruct (last_opt (f_segs f1)) as [s|] eqn:L; [|discriminate].
    set (s1 := match last_opt (sg_frags s) with
               | Some lf => if is_some (fr_moof lf) then seg_add_fragment s (new_fragment pos) else s
               | None => seg_add_fragment s (new_fragment pos) end).
    assert (E1 : seg_fragment_boxes s1 = seg_fragment_boxes s).
    { subst s1. destruct (last_opt (sg_frags s)) as [lf|]; [destruct (is_some (fr_moof lf))|];
        try reflexivity; apply sfb_add_fragment. }
    destruct (last_opt (sg_frags s1)) as [fr|] eqn:Lf; [|discriminate].
    intros [= <-]. rewrite (ffb_push _ _ _ _ _ L E1 Lf), B1.
    unfold inv, set_segs. cbn [f_segs f_fragmented andb]. rewrite F1, orb_true_r. auto.
  - (* mdat *)
    destruct (f_fragmented f) eqn:Fr; cbn [negb orb andb].
    + destruct (last_opt (f_segs f)) as [s|] eqn:L; [|discriminate].
      destruct (last_opt (sg_frags s)) as [fr|] eqn:Lf; [|discriminate].
      intros [= <-]. rewrite (ffb_push _ _ _ _ _ L eq_refl Lf).
      unfold inv, set_segs. cbn [f_segs f_fragmented]. auto.
    + assert (Hs : f_segs f = []).
      { destruct (f_segs f) eqn:E; [reflexivity|]. exfalso.
        assert (H : f_fragmented f = true) by (apply Hinv; rewrite E; discriminate).
        rewrite Fr in H. discriminate. }
      destruct (match f_mdat f with Some m => mdat_payload m =? 0 | None => true end);
        intros [= <-]; rewrite app_nil_r; unfold inv, file_fragment_boxes; cbn [f_segs f_fragmented];
        rewrite ?Hs; auto.
  - (* emsg *)
    destruct (start_segment_if_needed f pos) as [f1| | |] eqn:S; cbn [rbind]; try discriminate.
    apply start_segment_cases in S.
    assert (B1 : file_fragment_boxes f1 = file_fragment_boxes f).
    { destruct S as [-> | ->]; [reflexivity|]. rewrite ffb_add_segment. reflexivity. }
    destruct (last_opt (f_segs f1)) as [s|] eqn:L; [|discriminate].
    assert (F1 : f_fragmented f1 = true).
    { destruct S as [-> | ->]; [|reflexivity]. apply Hinv. intros E. rewrite E in L. discriminate. }
    set (s1 := if is_nil (sg_frags s) then seg_add_fragment s (new_fragment pos) else s).
    assert (E1 : seg_fragment_boxes s1 = seg_fragment_boxes s).
    { subst s1. destruct (is_nil (sg_frags s)); try reflexivity; apply sfb_add_fragment. }
    destruct (last_opt (sg_frags s1)) as [fr|] eqn:Lf; [|discriminate].
    intros [= <-]. rewrite (ffb_push _ _ _ _ _ L E1 Lf), B1.
    unfold inv, set_segs. cbn [f_segs f_fragmented andb]. rewrite F1, orb_true_r. auto.
  - (* mfra *) intros [= <-]. cbn. rewrite orb_false_r, app_nil_r. unfold inv in *; cbn; auto.
  - (* other *) intros [= <-]. rewrite orb_false_r, app_nil_r. auto.
Qed.

Lemma add_child_step f b pos f' :
  inv f -> add_child f b pos = Ok f' ->
  inv f' /\
  f_fragmented f' = f_fragmented f || is_marker b /\
  file_fragment_boxes f' = file_fragment_boxes f ++ step_media (f_fragmented f) b.
Proof.
  intros Hinv. unfold add_child.
  destruct (add_child_switch f b pos) as [f1| | |] eqn:S; cbn [rbind]; try discriminate.
  intros [= <-]. destruct (add_child_switch_step _ _ _ _ Hinv S) as (I & F & B).
  unfold inv, file_fragment_boxes in *. cbn [f_segs f_fragmented]. auto.
Qed.

Lemma frag_media_step fragd b t :
  frag_media fragd (b :: t) = step_media fragd b ++ frag_media (fragd || is_marker b) t.
Proof. reflexivity. Qed.

Lemma add_children_flat bs : forall f pos f',
  inv f -> add_children f pos bs = Ok f' ->
  inv f' /\ file_fragment_boxes f' = file_fragment_boxes f ++ frag_media (f_fragmented f) bs.
Proof.
  induction bs as [|b t IH]; intros f pos f' Hinv.
  - cbn. intros [= <-]. rewrite app_nil_r. auto.
  - cbn [add_children]. destruct (add_child f b pos) as [f1| | |] eqn:A; cbn [rbind]; try discriminate.
    intros H. destruct (add_child_step _ _ _ _ Hinv A) as (I1 & F1 & B1).
    destruct (IH _ _ _ I1 H) as (I2 & B2). split; [exact I2|].
    rewrite B2, B1, F1, frag_media_step, app_assoc. reflexivity.
Qed.

Lemma decode_loop_add_children bs : forall f pos last f',
  decode_loop f pos last bs = Ok f' -> add_children f pos bs = Ok f'.
Proof.
  induction bs as [|b t IH]; intros f pos last f'; [auto|].
  cbn [decode_loop add_children].
  destruct (kind_eqb (b_kind b) KMdat && negb (mdat_check f b last)); [discriminate|].
  destruct (add_child f b pos) as [f1| | |]; cbn [rbind]; try discriminate.
  apply IH.
Qed.

Lemma inv_empty som tf : inv (empty_file som tf).
Proof. intros H. exfalso. apply H. reflexivity. Qed.

Lemma assemble_inv o bs f :
  assemble o bs = Ok f ->
  exists tf f0, find_tfra (o_ism o) bs = Ok tf /\
                decode_loop (empty_file (o_start_on_moof o) tf) 0 None bs = Ok f0 /\ f = clear_tfra f0.
Proof.
  unfold assemble. destruct (find_tfra (o_ism o) bs) as [tf| | |]; cbn [rbind]; try discriminate.
  destruct (decode_loop _ 0 None bs) as [f0| | |] eqn:D; cbn [rbind]; try discriminate.
  intros [= <-]. eauto.
Qed.

(* the partition theorem *)
Lemma partition o bs f :
  assemble o bs = Ok f -> file_fragment_boxes f = frag_media false bs.
Proof.
  intros H. destruct (assemble_inv _ _ _ H) as (tf & f0 & _ & D & ->).
  apply decode_loop_add_children in D.
  destruct (add_children_flat _ _ _ _ (inv_empty _ _) D) as (_ & B).
  exact B.
Qed.

Lemma frag_media_true bs : frag_media true bs = filter is_media bs.
Proof.
  induction bs as [|b t IH]; [reflexivity|].
  cbn [frag_media filter orb]. rewrite andb_true_r, IH. destruct (is_media b); reflexivity.
Qed.

Lemma frag_media_no_progressive bs :
  no_progressive_mdat bs = true -> frag_media false bs = filter is_media bs.
Proof.
  induction bs as [|b t IH]; [reflexivity|].
  cbn [no_progressive_mdat frag_media filter orb].
  destruct (is_marker b) eqn:M.
  - intros _. rewrite frag_media_true, andb_true_r. destruct (is_media b); reflexivity.
  - intros H. apply andb_true_iff in H. destruct H as [Hk Ht].
    rewrite andb_false_r, (IH Ht). cbn [app].
    assert (is_media b = false) as ->; [|reflexivity].
    unfold is_media, is_marker in *. destruct (b_kind b); try reflexivity; discriminate.
Qed.

Lemma partition_fragmented o bs f :
  no_progressive_mdat bs = true ->
  assemble o bs = Ok f -> file_fragment_boxes f = filter is_media bs.
Proof. intros Hn H. rewrite (partition _ _ _ H). apply frag_media_no_progressive. exact Hn. Qed.

(* the same with the two-level flattening written out *)
Lemma ffb_flat f :
  concat (map fr_children (concat (map sg_frags (f_segs f)))) = file_fragment_boxes f.
Proof.
  unfold file_fragment_boxes, seg_fragment_boxes.
  induction (f_segs f) as [|s t IH]; [reflexivity|].
  cbn [map concat]. rewrite map_app, concat_app, IH. reflexivity.
Qed.

Lemma partition_flat o bs f :
  assemble o bs = Ok f ->
  concat (map fr_children (concat (map sg_frags (f_segs f)))) = frag_media false bs.
Proof. intros H. rewrite ffb_flat. exact (partition o bs f H). Qed.

Lemma partition_fragmented_flat o bs f :
  no_progressive_mdat bs = true ->
  assemble o bs = Ok f ->
  concat (map fr_children (concat (map sg_frags (f_segs f)))) = filter is_media bs.
Proof. intros Hn H. rewrite ffb_flat. exact (partition_fragmented o bs f Hn H). Qed.
