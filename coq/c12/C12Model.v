(* C12Model.v — executable Gallina model of the top-level assembly of a decoded mp4 file:
   mp4.DecodeFile's box loop, File.AddChild, File.startSegmentIfNeeded, File.findAndReadMfra
   (the part that selects the tfra), File.AddSidx / MediaSegment.AddSidx / AddFragment /
   Fragment.AddChild, and File.Encode in segment mode (mp4/file.go, mp4/mediasegment.go,
   mp4/fragment.go of the pinned tree).  Definitions only.

   A top-level box is abstracted to what the assembly code looks at: its kind, its Size(),
   and the few fields the code reads (sidx references, moov "stts is empty", mdat header size,
   tfra moof offsets).  `b_tag` is an opaque identity (the harness uses the index of the box in
   the file) that the model only copies around.

   Go slices are appended at the end; the model does the same (`l ++ [x]`).  A nil pointer
   dereference in Go is `Panic`, a returned error is `Err`.  Positions are Go uint64: the wrap is
   written explicitly (u64). *)
From V.lib Require Import Base.

Inductive kind := KFtyp | KStyp | KMoov | KSidx | KMoof | KMdat | KEmsg | KMfra | KOther.

Definition kind_eqb (a b : kind) : bool :=
  match a, b with
  | KFtyp, KFtyp | KStyp, KStyp | KMoov, KMoov | KSidx, KSidx | KMoof, KMoof
  | KMdat, KMdat | KEmsg, KEmsg | KMfra, KMfra | KOther, KOther => true
  | _, _ => false
  end.

(* one sidx reference: reference_type (1 bit), referenced_size (31 bit), subsegment_duration *)
Record sref := mkRef { r_type : N; r_size : N; r_dur : N }.

(* one tfra box: track id and the moof offsets of its entries *)
Record tfra := mkTfra { tf_track : N; tf_offsets : list N }.

(* one traf of a moof, as far as UpdateSidx looks at it (C12Sidx.v): track id,
   tfdt.BaseMediaDecodeTime, per trun the sample durations after AddSampleDefaultValues, and the
   composition time offset of the very first sample *)
Record traf := mkTraf { t_track : N; t_base : N; t_truns : list (list N); t_cto0 : Z }.

(* one trak of a moov, as far as UpdateSidx looks at it: tkhd.TrackID, hdlr handler type
   (0 = vide, 1 = soun, 2 = anything else), mdhd.Timescale, and whether mvex holds a trex for it *)
Record trak := mkTrak { k_id : N; k_handler : N; k_timescale : N; k_trex : bool }.

Record topbox := mkBox {
  b_kind : kind;
  b_tag : N;
  b_size : N;                 (* box.Size() *)
  b_hdr : N;                  (* mdat: HeaderSize() *)
  b_first_offset : N;         (* sidx: first_offset *)
  b_refs : list sref;         (* sidx: references *)
  b_stts_empty : bool;        (* moov: len(Trak.Mdia.Minf.Stbl.Stts.SampleCount) == 0 *)
  b_tfras : list tfra;        (* mfra: its tfra children *)
  b_mfro : bool;              (* mfra: last 16 bytes are an mfro whose ParentSize is the mfra size *)
  b_trafs : list traf;        (* moof *)
  b_traks : list trak;        (* moov *)
  b_version : N;              (* sidx: version, reference_ID, timescale, earliest_presentation_time *)
  b_refid : N;
  b_timescale : N;
  b_ept : N
}.

(* a decoded SidxBox: the box and the AnchorPoint computed by DecodeSidx from the start position *)
Record sidx := mkSidx { sx_box : topbox; sx_anchor : N }.

Record fragment := mkFrag {
  fr_start : N;
  fr_children : list topbox;
  fr_moof : option topbox;
  fr_mdat : option topbox
}.

Record segment := mkSeg {
  sg_styp : option topbox;
  sg_start : N;
  sg_sidxs : list sidx;
  sg_frags : list fragment
}.

Record file := mkFile {
  f_ftyp : option topbox;
  f_moov : option topbox;
  f_mdat : option topbox;
  f_init : option (list topbox);            (* Init.Children: [Ftyp (if not nil); Moov] *)
  f_sidxs : list sidx;                      (* f.Sidx != nil  <->  f_sidxs <> [] *)
  f_tfra : option (list N);                 (* f.tfra: moof offsets of the first tfra *)
  f_mfra : option topbox;
  f_segs : list segment;
  f_children : list topbox;
  f_fragmented : bool;
  f_start_on_moof : bool                    (* fileDecFlags & DecStartOnMoof *)
}.

Record opts := mkOpts { o_ism : bool; o_start_on_moof : bool }.

(* ---------------------------------------------------------------- small helpers *)
Fixpoint last_opt {A} (l : list A) : option A :=
  match l with
  | [] => None
  | [x] => Some x
  | _ :: t => last_opt t
  end.

Definition is_nil {A} (l : list A) : bool := match l with [] => true | _ => false end.
Definition is_some {A} (o : option A) : bool := match o with Some _ => true | None => false end.
Definition opt_list {A} (o : option A) : list A := match o with Some x => [x] | None => [] end.

(* replace the last element (a pointer in Go: updates through f.Segments[len-1]) *)
Definition set_last {A} (l : list A) (x : A) : list A := removelast l ++ [x].

(* ---------------------------------------------------------------- startSegmentIfNeeded *)
(* inner loop over sx.SidxRefs; returns (found, idx afterwards) *)
Fixpoint scan_refs (refs : list sref) (start idx pos seg : N) : bool * N :=
  match refs with
  | [] => (false, idx)
  | r :: t =>
      if r_type r =? 1 then (false, idx)                        (* continue sidxLoop *)
      else if (pos =? start) && (idx =? seg) then (true, idx)   (* break sidxLoop *)
      else scan_refs t (u64 (start + r_size r)) (idx + 1) pos seg
  end.

Fixpoint scan_sidxs (sxs : list sidx) (idx pos seg : N) : bool :=
  match sxs with
  | [] => false
  | sx :: t =>
      let '(found, idx') := scan_refs (b_refs (sx_box sx)) (sx_anchor sx) idx pos seg in
      if found then true else scan_sidxs t idx' pos seg
  end.

Definition new_segment (styp : option topbox) (pos : N) : segment := mkSeg styp pos [] [].

Definition add_segment (f : file) (s : segment) : file :=
  mkFile (f_ftyp f) (f_moov f) (f_mdat f) (f_init f) (f_sidxs f) (f_tfra f) (f_mfra f)
         (f_segs f ++ [s]) (f_children f) true (f_start_on_moof f).

(* the `switch` of startSegmentIfNeeded: which delimiter is in force and what it says *)
Definition seg_start_switch (f : file) (pos : N) : bool :=
  let segidx := lenN (f_segs f) in
  if negb (is_nil (f_sidxs f)) then scan_sidxs (f_sidxs f) 0 pos segidx
  else match f_tfra f with
       | Some offs =>
           match nth_error offs (N.to_nat segidx) with
           | Some o => pos =? o              (* segIdx < len(Entries) && boxStartPos == MoofOffset *)
           | None => false
           end
       | None =>
           if f_start_on_moof f then
             (* every moof, unless the current segment was started by a styp or the box continues a
                fragment opened by an emsg *)
             match last_opt (f_segs f) with
             | None => true
             | Some s =>
                 negb (is_some (sg_styp s) ||
                       match last_opt (sg_frags s) with
                       | Some fr => negb (is_some (fr_moof fr))
                       | None => false
                       end)
             end
           else (segidx =? 0)
       end.

(* the decision of startSegmentIfNeeded: the switch, then
   `if !segStart && len(f.Segments) == 0 { segStart = true }` *)
Definition seg_start (f : file) (pos : N) : bool :=
  seg_start_switch f pos || is_nil (f_segs f).

Definition start_segment_if_needed (f : file) (pos : N) : res file :=
  Ok (if seg_start f pos then add_segment f (new_segment None pos) else f).

(* ---------------------------------------------------------------- AddChild *)
Definition set_segs (f : file) (segs : list segment) : file :=
  mkFile (f_ftyp f) (f_moov f) (f_mdat f) (f_init f) (f_sidxs f) (f_tfra f) (f_mfra f)
         segs (f_children f) (f_fragmented f) (f_start_on_moof f).

Definition set_fragmented (f : file) : file :=
  mkFile (f_ftyp f) (f_moov f) (f_mdat f) (f_init f) (f_sidxs f) (f_tfra f) (f_mfra f)
         (f_segs f) (f_children f) true (f_start_on_moof f).

Definition seg_add_fragment (s : segment) (fr : fragment) : segment :=
  mkSeg (sg_styp s) (sg_start s) (sg_sidxs s) (sg_frags s ++ [fr]).

Definition seg_set_last_fragment (s : segment) (fr : fragment) : segment :=
  mkSeg (sg_styp s) (sg_start s) (sg_sidxs s) (set_last (sg_frags s) fr).

Definition seg_add_sidx (s : segment) (sx : sidx) : segment :=
  mkSeg (sg_styp s) (sg_start s) (sg_sidxs s ++ [sx]) (sg_frags s).

(* Fragment.AddChild *)
Definition frag_add_child (fr : fragment) (b : topbox) : fragment :=
  match b_kind b with
  | KMoof => mkFrag (fr_start fr) (fr_children fr ++ [b]) (Some b) (fr_mdat fr)
  | KMdat => mkFrag (fr_start fr) (fr_children fr ++ [b]) (fr_moof fr) (Some b)
  | _ => mkFrag (fr_start fr) (fr_children fr ++ [b]) (fr_moof fr) (fr_mdat fr)
  end.

Definition new_fragment (pos : N) : fragment := mkFrag pos [] None None.

Definition mdat_payload (b : topbox) : N := b_size b - b_hdr b.   (* uint64 subtraction; hdr <= size *)

(* the type switch of File.AddChild, without the final append to f.Children *)
Definition add_child_switch (f : file) (b : topbox) (pos : N) : res file :=
  match b_kind b with
  | KFtyp =>
      Ok (mkFile (Some b) (f_moov f) (f_mdat f) (f_init f) (f_sidxs f) (f_tfra f) (f_mfra f)
                 (f_segs f) (f_children f) (f_fragmented f) (f_start_on_moof f))
  | KMoov =>
      if b_stts_empty b then
        Ok (mkFile (f_ftyp f) (Some b) (f_mdat f) (Some (opt_list (f_ftyp f) ++ [b])) (f_sidxs f) (f_tfra f)
                   (f_mfra f) (f_segs f) (f_children f) true (f_start_on_moof f))
      else
        Ok (mkFile (f_ftyp f) (Some b) (f_mdat f) (f_init f) (f_sidxs f) (f_tfra f) (f_mfra f)
                   (f_segs f) (f_children f) (f_fragmented f) (f_start_on_moof f))
  | KSidx =>
      let sx := mkSidx b (u64 (pos + b_first_offset b + b_size b)) in
      match last_opt (f_segs f) with
      | None =>
          Ok (mkFile (f_ftyp f) (f_moov f) (f_mdat f) (f_init f) (f_sidxs f ++ [sx]) (f_tfra f)
                     (f_mfra f) (f_segs f) (f_children f) (f_fragmented f) (f_start_on_moof f))
      | Some s => Ok (set_segs f (set_last (f_segs f) (seg_add_sidx s sx)))
      end
  | KStyp => Ok (add_segment f (new_segment (Some b) pos))
  | KEmsg =>
      do f1 <- start_segment_if_needed f pos;
      match last_opt (f_segs f1) with
      | None => Panic                                    (* unreachable: a segment was started if there was none *)
      | Some s =>
          let s1 := if is_nil (sg_frags s) then seg_add_fragment s (new_fragment pos) else s in
          match last_opt (sg_frags s1) with
          | None => Panic                                (* unreachable *)
          | Some fr =>
              Ok (set_segs f1 (set_last (f_segs f1) (seg_set_last_fragment s1 (frag_add_child fr b))))
          end
      end
  | KMoof =>
      let f0 := set_fragmented f in
      do f1 <- start_segment_if_needed f0 pos;
      match last_opt (f_segs f1) with
      | None => Panic                                    (* unreachable: a segment was started if there was none *)
      | Some s =>
          let s1 := match last_opt (sg_frags s) with
                    | None => seg_add_fragment s (new_fragment pos)
                    | Some lf => if is_some (fr_moof lf) then seg_add_fragment s (new_fragment pos) else s
                    end in
          match last_opt (sg_frags s1) with
          | None => Panic                                (* unreachable *)
          | Some fr =>
              Ok (set_segs f1 (set_last (f_segs f1) (seg_set_last_fragment s1 (frag_add_child fr b))))
          end
      end
  | KMdat =>
      if negb (f_fragmented f) then
        let take := match f_mdat f with
                    | None => true
                    | Some m => mdat_payload m =? 0
                    end in
        if take then
          Ok (mkFile (f_ftyp f) (f_moov f) (Some b) (f_init f) (f_sidxs f) (f_tfra f) (f_mfra f)
                     (f_segs f) (f_children f) (f_fragmented f) (f_start_on_moof f))
        else Ok f
      else
        match last_opt (f_segs f) with
        | None => Panic                                  (* f.LastSegment() == nil *)
        | Some s =>
            match last_opt (sg_frags s) with
            | None => Panic                              (* currentFragment == nil *)
            | Some fr =>
                Ok (set_segs f (set_last (f_segs f) (seg_set_last_fragment s (frag_add_child fr b))))
            end
        end
  | KMfra =>
      Ok (mkFile (f_ftyp f) (f_moov f) (f_mdat f) (f_init f) (f_sidxs f) (f_tfra f) (Some b)
                 (f_segs f) (f_children f) (f_fragmented f) (f_start_on_moof f))
  | KOther => Ok f
  end.

Definition add_child (f : file) (b : topbox) (pos : N) : res file :=
  do f1 <- add_child_switch f b pos;
  Ok (mkFile (f_ftyp f1) (f_moov f1) (f_mdat f1) (f_init f1) (f_sidxs f1) (f_tfra f1) (f_mfra f1)
             (f_segs f1) (f_children f1 ++ [b]) (f_fragmented f1) (f_start_on_moof f1)).

(* ---------------------------------------------------------------- DecodeFile's loop *)
(* the checks DecodeFile makes on an mdat before AddChild; `last` is lastBoxType *)
Definition mdat_check (f : file) (b : topbox) (last : option kind) : bool :=
  if f_fragmented f then
    match last with Some KMoof => true | _ => false end
  else
    match f_mdat f with
    | None => true
    | Some m => negb ((0 <? mdat_payload m) && (0 <? mdat_payload b))
    end.

Fixpoint decode_loop (f : file) (pos : N) (last : option kind) (bs : list topbox) : res file :=
  match bs with
  | [] => Ok f
  | b :: t =>
      if kind_eqb (b_kind b) KMdat && negb (mdat_check f b last) then Err
      else
        do f1 <- add_child f b pos;
        decode_loop f1 (u64 (pos + b_size b)) (Some (b_kind b)) t
  end.

(* the same loop without DecodeFile's mdat checks: a plain sequence of AddChild calls with
   consecutive positions (what a caller assembling a File by hand gets) *)
Fixpoint add_children (f : file) (pos : N) (bs : list topbox) : res file :=
  match bs with
  | [] => Ok f
  | b :: t =>
      do f1 <- add_child f b pos;
      add_children f1 (u64 (pos + b_size b)) t
  end.

(* findAndReadMfra: with DecISMFlag, if the file ends with an mfro, the box of ParentSize bytes
   before the end must be an mfra; its first tfra is kept, the others are compared with it. *)
Fixpoint offsets_equal (a b : list N) : bool :=
  match a, b with
  | [], [] => true
  | x :: a', y :: b' => (x =? y) && offsets_equal a' b'
  | _, _ => false
  end.

Fixpoint check_tfras (first : tfra) (rest : list tfra) : bool :=
  match rest with
  | [] => true
  | t :: r =>
      if tf_track t =? tf_track first then false
      else if negb (length (tf_offsets t) =? length (tf_offsets first))%nat then false
      else if negb (offsets_equal (tf_offsets t) (tf_offsets first)) then false
      else check_tfras first r
  end.

Definition find_tfra (ism : bool) (bs : list topbox) : res (option (list N)) :=
  if negb ism then Ok None
  else if sumN (map b_size bs) <? 16 then Err          (* rs.Seek(-16, io.SeekEnd) fails *)
  else match last_opt bs with
       | None => Ok None
       | Some b =>
           if kind_eqb (b_kind b) KMfra && b_mfro b then
             match b_tfras b with
             | [] => Ok None                           (* mfra without tfra: no segment information *)
             | t0 :: rest => if check_tfras t0 rest then Ok (Some (tf_offsets t0)) else Err
             end
           else Ok None
       end.

Definition empty_file (som : bool) (tf : option (list N)) : file :=
  mkFile None None None None [] tf None [] [] false som.

(* DecodeFile; f.tfra is reset to nil at the end *)
Definition clear_tfra (f : file) : file :=
  mkFile (f_ftyp f) (f_moov f) (f_mdat f) (f_init f) (f_sidxs f) None (f_mfra f)
         (f_segs f) (f_children f) (f_fragmented f) (f_start_on_moof f).

Definition assemble (o : opts) (bs : list topbox) : res file :=
  do tf <- find_tfra (o_ism o) bs;
  do f <- decode_loop (empty_file (o_start_on_moof o) tf) 0 None bs;
  Ok (clear_tfra f).

(* ---------------------------------------------------------------- views used by the theorems *)
Definition seg_fragment_boxes (s : segment) : list topbox := concat (map fr_children (sg_frags s)).
Definition file_fragment_boxes (f : file) : list topbox := concat (map seg_fragment_boxes (f_segs f)).

Definition is_media (b : topbox) : bool :=
  match b_kind b with KEmsg | KMoof | KMdat => true | _ => false end.

(* ---------------------------------------------------------------- File.Encode, segment mode *)
(* Fragment.Encode: errors when Moof or Mdat is nil, otherwise its Children in order *)
Definition encode_fragment (fr : fragment) : res (list topbox) :=
  match fr_moof fr, fr_mdat fr with
  | Some _, Some _ => Ok (fr_children fr)
  | _, _ => Err
  end.

Fixpoint encode_fragments (frs : list fragment) : res (list topbox) :=
  match frs with
  | [] => Ok []
  | fr :: t => do a <- encode_fragment fr; do r <- encode_fragments t; Ok (a ++ r)
  end.

(* MediaSegment.Encode *)
Definition encode_segment (s : segment) : res (list topbox) :=
  do frs <- encode_fragments (sg_frags s);
  Ok (opt_list (sg_styp s) ++ map sx_box (sg_sidxs s) ++ frs).

Fixpoint encode_segments (ss : list segment) : res (list topbox) :=
  match ss with
  | [] => Ok []
  | s :: t => do a <- encode_segment s; do r <- encode_segments t; Ok (a ++ r)
  end.

(* InitSegment.Encode: its Children in order *)
Definition encode_init (cs : list topbox) : res (list topbox) := Ok cs.

(* File.Encode with isFragmented and FragEncMode == EncModeSegment (the default) *)
Definition encode_segment_mode (f : file) : res (list topbox) :=
  do i <- match f_init f with Some cs => encode_init cs | None => Ok [] end;
  do s <- encode_segments (f_segs f);
  Ok (i ++ map sx_box (f_sidxs f) ++ s ++ opt_list (f_mfra f)).

(* File.Encode *)
Definition encode_file (f : file) : res (list topbox) :=
  if f_fragmented f then encode_segment_mode f else Ok (f_children f).
