(* C12C05SimProofs.v — C12's assembly model and C05's segment decoder (coq/c05 C05SegModel, read-only) are two
   models of the same Go text (DecodeFile's loop + File.AddChild + startSegmentIfNeeded) over different box types.
   Here: an abstraction of C12's top-level boxes to C05's (to_tbox), a view of C12's file as C05's decoder state,
   and the simulation: for the default decode flags, whenever C12's decode_loop succeeds on a stream of
   styp/sidx/emsg/moof/mdat/other boxes, C05's seg_decode_loop on the abstracted stream succeeds with the view of
   C12's result.  Composed with C05_segment_decode: the fragments C12 assembles are, one for one, the encoded
   fragments of the stream with moof start and mdat payload positions equal to the stream positions. *)
From V.lib Require Import Base.
From V.c05 Require C05Model C05FragModel C05SegModel C05SegProofs C05SidxProofs.
From V.c12 Require Import C12Model C12Spec C12PartProofs C12Sidx C12SidxProofs.

Module S5 := C05SegModel.

Section Sim.
Variable trafs_of : N -> list C05FragModel.traf.   (* by tag: the trafs DecodeMoof holds for that moof *)
Variable payload_of : N -> list N.                  (* by tag: the payload of that mdat *)
Variable mpos : N -> N.                             (* by tag: where that box lies in the stream *)

Definition cv_ref (r : sref) : S5.sref := S5.mkSref (r_type r) (r_size r).

Definition seg_kind (b : topbox) : bool :=
  match b_kind b with KStyp | KSidx | KEmsg | KMoof | KMdat | KOther => true | _ => false end.

Definition to_tbox (b : topbox) : S5.tbox :=
  match b_kind b with
  | KStyp => S5.TX (S5.mkX S5.XStyp (b_size b) 0 [])
  | KSidx => S5.TX (S5.mkX S5.XSidx (b_size b) (b_first_offset b) (map cv_ref (b_refs b)))
  | KEmsg => S5.TX (S5.mkX S5.XEmsg (b_size b) 0 [])
  | KMoof => S5.TMoof (b_size b) (trafs_of (b_tag b))
  | KMdat => S5.TMdat (b_hdr b) (payload_of (b_tag b))
  | _ => S5.TX (S5.mkX S5.XOther (b_size b) 0 [])
  end.

(* an mdat's Size() is its header plus its payload *)
Definition mdat_ok (b : topbox) : Prop :=
  b_kind b = KMdat -> b_hdr b + lenN (payload_of (b_tag b)) = b_size b.

Lemma tb_size_to_tbox b : mdat_ok b -> S5.tb_size (to_tbox b) = b_size b.
Proof. intros H. unfold to_tbox, mdat_ok in *. destruct (b_kind b); cbn; auto. Qed.

Lemma mdat_payload_ok b : mdat_ok b -> b_kind b = KMdat -> mdat_payload b = lenN (payload_of (b_tag b)).
Proof. intros H K. unfold mdat_payload. specialize (H K). lia. Qed.

(* ---------------------------------------------------------------- the view *)
Definition vfrag (fr : fragment) : S5.dfr :=
  S5.mkDfr (option_map (fun m => (mpos (b_tag m), trafs_of (b_tag m))) (fr_moof fr))
           (option_map (fun d => (mpos (b_tag d) + b_hdr d, payload_of (b_tag d))) (fr_mdat fr)).
Definition vseg (s : segment) : S5.dseg := S5.mkDseg (is_some (sg_styp s)) (rev (map vfrag (sg_frags s))).
Definition vsidx (sx : sidx) : N * list S5.sref := (sx_anchor sx, map cv_ref (b_refs (sx_box sx))).
Definition view (f : file) : S5.fstate :=
  S5.mkFstate (f_fragmented f) (map vsidx (f_sidxs f)) (rev (map vseg (f_segs f)))
              (option_map (fun m => lenN (payload_of (b_tag m))) (f_mdat f)).

(* default decode flags: no tfra, no start-on-moof; a File.Mdat is an mdat whose payload is known *)
Definition plain (f : file) : Prop :=
  f_tfra f = None /\ f_start_on_moof f = false /\
  match f_mdat f with Some m => mdat_payload m = lenN (payload_of (b_tag m)) | None => True end.

(* ---------------------------------------------------------------- lists kept at the end vs at the front *)
Lemma rev_map_last {A B} (v : A -> B) l x : last_opt l = Some x -> rev (map v l) = v x :: rev (map v (removelast l)).
Proof. intros H. rewrite (last_opt_some _ _ H) at 1. rewrite map_app, rev_app_distr. reflexivity. Qed.

Lemma rev_map_set_last {A B} (v : A -> B) l y : rev (map v (set_last l y)) = v y :: rev (map v (removelast l)).
Proof. unfold set_last. rewrite map_app, rev_app_distr. reflexivity. Qed.

Lemma rev_map_snoc {A B} (v : A -> B) l y : rev (map v (l ++ [y])) = v y :: rev (map v l).
Proof. rewrite map_app, rev_app_distr. reflexivity. Qed.

Lemma lenN_rev_map {A B} (v : A -> B) l : lenN (rev (map v l)) = lenN l.
Proof. unfold lenN. rewrite rev_length, map_length. reflexivity. Qed.

Lemma is_nil_lenN {A} (l : list A) : is_nil l = (lenN l =? 0).
Proof. destruct l; [reflexivity|]. cbn [is_nil]. symmetry. apply N.eqb_neq. unfold lenN. cbn [length]. lia. Qed.

(* ---------------------------------------------------------------- startSegmentIfNeeded *)
Lemma scan_refs_cv refs : forall start idx pos seg,
  S5.scan_refs (map cv_ref refs) start idx pos seg = scan_refs refs start idx pos seg.
Proof.
  induction refs as [|r t IH]; intros; [reflexivity|]. cbn [map S5.scan_refs scan_refs cv_ref S5.sr_type S5.sr_size].
  destruct (r_type r =? 1); [reflexivity|]. destruct ((pos =? start) && (idx =? seg)); [reflexivity|]. apply IH.
Qed.

Lemma scan_sidxs_cv sxs : forall idx pos seg,
  S5.scan_sidxs (map vsidx sxs) idx pos seg = scan_sidxs sxs idx pos seg.
Proof.
  induction sxs as [|sx t IH]; intros; [reflexivity|]. cbn [map S5.scan_sidxs scan_sidxs vsidx].
  rewrite scan_refs_cv. destruct (scan_refs (b_refs (sx_box sx)) (sx_anchor sx) idx pos seg) as [found idx'].
  destruct found; [reflexivity|]. apply IH.
Qed.

Lemma view_add_segment f styp pos :
  view (add_segment f (new_segment styp pos)) =
  S5.mkFstate true (S5.fs_sidxs (view f)) (S5.mkDseg (is_some styp) [] :: S5.fs_segs (view f)) (S5.fs_mdat (view f)).
Proof. unfold view, add_segment. cbn [f_fragmented f_sidxs f_segs f_mdat]. rewrite rev_map_snoc. reflexivity. Qed.

Lemma view_start f pos f1 :
  f_tfra f = None -> f_start_on_moof f = false ->
  start_segment_if_needed f pos = Ok f1 -> view f1 = S5.start_if_needed (view f) pos.
Proof.
  intros Ht Hm. unfold start_segment_if_needed. intros [= <-].
  unfold S5.start_if_needed, seg_start, seg_start_switch. rewrite Ht, Hm.
  assert (Es : lenN (S5.fs_segs (view f)) = lenN (f_segs f)) by (unfold view; cbn [S5.fs_segs]; apply lenN_rev_map).
  rewrite Es, (is_nil_lenN (f_segs f)).
  assert (E : (match S5.fs_sidxs (view f) with
               | [] => lenN (f_segs f) =? 0
               | x :: r => S5.scan_sidxs (x :: r) 0 pos (lenN (f_segs f))
               end) = (if negb (is_nil (f_sidxs f)) then scan_sidxs (f_sidxs f) 0 pos (lenN (f_segs f)) else lenN (f_segs f) =? 0)).
  { unfold view. cbn [S5.fs_sidxs]. destruct (f_sidxs f) as [|sx rest]; [reflexivity|]. cbn [is_nil negb]. rewrite <- scan_sidxs_cv. reflexivity. }
  rewrite E.
  destruct ((if negb (is_nil (f_sidxs f)) then scan_sidxs (f_sidxs f) 0 pos (lenN (f_segs f)) else lenN (f_segs f) =? 0)
            || (lenN (f_segs f) =? 0)).
  - rewrite view_add_segment. reflexivity.
  - reflexivity.
Qed.

Lemma start_keeps f pos f1 :
  start_segment_if_needed f pos = Ok f1 ->
  f_tfra f1 = f_tfra f /\ f_start_on_moof f1 = f_start_on_moof f /\ f_mdat f1 = f_mdat f /\ f_sidxs f1 = f_sidxs f.
Proof. intros H. apply start_segment_cases in H. destruct H as [-> | ->]; repeat split; reflexivity. Qed.

(* the last segment replaced *)
Lemma view_set_last f s s' :
  last_opt (f_segs f) = Some s ->
  view (set_segs f (set_last (f_segs f) s')) =
  S5.mkFstate (f_fragmented f) (S5.fs_sidxs (view f)) (vseg s' :: rev (map vseg (removelast (f_segs f)))) (S5.fs_mdat (view f)).
Proof. intros _. unfold view, set_segs. cbn [f_fragmented f_sidxs f_segs f_mdat]. rewrite rev_map_set_last. reflexivity. Qed.

Lemma upd_view f s g :
  last_opt (f_segs f) = Some s ->
  S5.upd_last_seg (view f) g =
  Ok (S5.mkFstate (f_fragmented f) (S5.fs_sidxs (view f)) (g (vseg s) :: rev (map vseg (removelast (f_segs f)))) (S5.fs_mdat (view f))).
Proof. intros L. unfold S5.upd_last_seg, view. cbn [S5.fs_segs]. rewrite (rev_map_last _ _ _ L). reflexivity. Qed.

Lemma vfrag_add_other fr b :
  b_kind b <> KMoof -> b_kind b <> KMdat -> vfrag (frag_add_child fr b) = vfrag fr.
Proof. intros H1 H2. unfold frag_add_child. destruct (b_kind b); try congruence; reflexivity. Qed.

Lemma vseg_set_last_frag s fr' :
  vseg (seg_set_last_fragment s fr') = S5.mkDseg (is_some (sg_styp s)) (vfrag fr' :: rev (map vfrag (removelast (sg_frags s)))).
Proof. unfold vseg, seg_set_last_fragment. cbn [sg_styp sg_frags]. rewrite rev_map_set_last. reflexivity. Qed.

(* ---------------------------------------------------------------- one box *)
Definition last_moof (last : option kind) : bool := match last with Some KMoof => true | _ => false end.

Lemma sim_step f b pos last f' :
  plain f -> seg_kind b = true -> mdat_ok b -> mpos (b_tag b) = pos ->
  (kind_eqb (b_kind b) KMdat && negb (mdat_check f b last)) = false ->
  add_child f b pos = Ok f' ->
  S5.add_box (view f) pos (to_tbox b) (last_moof last) = Ok (view f') /\ plain f'.
Proof.
  intros (Ht & Hm & Hd) Hk Hmd Hp Hc A. unfold add_child in A.
  destruct (add_child_switch f b pos) as [f1| | |] eqn:A1; cbn [rbind] in A; try discriminate.
  injection A as <-.
  assert (Hv : forall g, view (mkFile (f_ftyp g) (f_moov g) (f_mdat g) (f_init g) (f_sidxs g) (f_tfra g) (f_mfra g)
                                      (f_segs g) (f_children g ++ [b]) (f_fragmented g) (f_start_on_moof g)) = view g)
    by reflexivity.
  assert (Hpl : forall g, plain g ->
                plain (mkFile (f_ftyp g) (f_moov g) (f_mdat g) (f_init g) (f_sidxs g) (f_tfra g) (f_mfra g)
                              (f_segs g) (f_children g ++ [b]) (f_fragmented g) (f_start_on_moof g)))
    by (intros g H; exact H).
  rewrite Hv. cut (S5.add_box (view f) pos (to_tbox b) (last_moof last) = Ok (view f1) /\ plain f1).
  { intros [H1 H2]. split; [exact H1|apply Hpl; exact H2]. }
  clear Hv Hpl. unfold add_child_switch in A1. unfold to_tbox, seg_kind in *.
  destruct (b_kind b) eqn:K; try discriminate.
  - (* styp *)
    injection A1 as <-. cbn [S5.add_box S5.x_kind]. rewrite view_add_segment. split; [reflexivity|]. exact (conj Ht (conj Hm Hd)).
  - (* sidx *)
    cbn [S5.add_box S5.x_kind S5.x_first S5.x_size S5.x_refs].
    destruct (last_opt (f_segs f)) as [s|] eqn:L.
    + injection A1 as <-. unfold view at 1. cbn [S5.fs_segs]. rewrite (rev_map_last _ _ _ L).
      split; [|exact (conj Ht (conj Hm Hd))]. f_equal. rewrite (view_set_last _ _ _ L). unfold view. cbn [S5.fs_sidxs S5.fs_mdat].
      rewrite (rev_map_last _ _ _ L). reflexivity.
    + apply last_opt_none in L. injection A1 as <-. unfold view. rewrite L. cbn [map rev S5.fs_segs S5.fs_fragmented S5.fs_sidxs S5.fs_mdat f_fragmented f_sidxs f_segs f_mdat].
      rewrite map_app. split; [reflexivity|]. exact (conj Ht (conj Hm Hd)).
  - (* moof *)
    cbn [S5.add_box].
    destruct (start_segment_if_needed (set_fragmented f) pos) as [f2| | |] eqn:S; cbn [rbind] in A1; try discriminate.
    pose proof (view_start (set_fragmented f) pos f2 Ht Hm S) as V2.
    destruct (start_keeps _ _ _ S) as (T2 & M2 & D2 & _).
    assert (P2 : plain f2) by (unfold plain; rewrite T2, M2, D2; exact (conj Ht (conj Hm Hd))).
    destruct (last_opt (f_segs f2)) as [s|] eqn:L; [|discriminate].
    set (s1 := match last_opt (sg_frags s) with
               | Some lf => if is_some (fr_moof lf) then seg_add_fragment s (new_fragment pos) else s
               | None => seg_add_fragment s (new_fragment pos) end) in *.
    destruct (last_opt (sg_frags s1)) as [fr|] eqn:Lf; [|discriminate].
    injection A1 as <-.
    assert (E0 : S5.mkFstate true (S5.fs_sidxs (view f)) (S5.fs_segs (view f)) (S5.fs_mdat (view f)) = view (set_fragmented f)) by reflexivity.
    rewrite E0, <- V2, (upd_view _ _ _ L), (view_set_last _ _ _ L). split; [|exact P2].
    f_equal. f_equal. f_equal. rewrite vseg_set_last_frag.
    assert (Vf : vfrag (frag_add_child fr b) = S5.mkDfr (Some (pos, trafs_of (b_tag b))) (S5.dr_mdat (vfrag fr))).
    { unfold frag_add_child. rewrite K. unfold vfrag. cbn [fr_moof fr_mdat option_map S5.dr_mdat]. rewrite Hp. reflexivity. }
    rewrite Vf. subst s1. unfold vseg at 1. cbn [S5.dg_frags S5.dg_styp].
    destruct (last_opt (sg_frags s)) as [lf|] eqn:Ll.
    + rewrite (rev_map_last _ _ _ Ll).
      destruct (is_some (fr_moof lf)) eqn:Im.
      * cbn [seg_add_fragment sg_frags sg_styp] in *. rewrite last_opt_snoc in Lf. injection Lf as <-.
        rewrite removelast_last. rewrite (rev_map_last _ _ _ Ll).
        unfold vfrag at 1. destruct (fr_moof lf); [|discriminate]. cbn [option_map S5.dr_moof]. reflexivity.
      * rewrite Ll in Lf. injection Lf as <-. unfold vfrag at 1. destruct (fr_moof lf); [discriminate|].
        cbn [option_map S5.dr_moof S5.dr_mdat]. reflexivity.
    + apply last_opt_none in Ll. rewrite Ll. cbn [map rev].
      cbn [seg_add_fragment sg_frags sg_styp] in *. rewrite Ll in Lf. cbn [app last_opt] in Lf. injection Lf as <-.
      rewrite Ll. reflexivity.
  - (* mdat *)
    cbn [kind_eqb andb] in Hc. apply negb_false_iff in Hc. unfold mdat_check in Hc.
    cbn [S5.add_box]. unfold view at 1. cbn [S5.fs_fragmented]. destruct (f_fragmented f) eqn:Fr; cbn [negb] in A1.
    + assert (Lm : last_moof last = true) by (unfold last_moof; destruct last as [[]|]; try discriminate; reflexivity).
      rewrite Lm. cbn [negb].
      destruct (last_opt (f_segs f)) as [s|] eqn:L; [|discriminate].
      destruct (last_opt (sg_frags s)) as [fr|] eqn:Lf; [|discriminate].
      injection A1 as <-.
      assert (Vs : S5.fs_segs (view f) = vseg s :: rev (map vseg (removelast (f_segs f))))
        by (unfold view; cbn [S5.fs_segs]; apply rev_map_last; exact L).
      rewrite Vs. unfold vseg at 1. cbn [S5.dg_frags S5.dg_styp].
      rewrite (rev_map_last _ _ _ Lf). split; [|exact (conj Ht (conj Hm Hd))].
      rewrite (view_set_last _ _ _ L), Fr, vseg_set_last_frag. f_equal. f_equal. f_equal. f_equal.
      unfold frag_add_child. rewrite K. unfold vfrag. cbn [fr_moof fr_mdat option_map S5.dr_moof]. rewrite Hp. reflexivity.
    + pose proof (mdat_payload_ok b Hmd K) as Pb.
      assert (Vm : S5.fs_mdat (view f) = option_map (fun m => lenN (payload_of (b_tag m))) (f_mdat f)) by reflexivity.
      rewrite Vm. clear Vm.
      destruct (f_mdat f) as [m|] eqn:Em; cbn [option_map].
      * rewrite <- Hd, <- Pb. apply negb_true_iff in Hc. rewrite Hc.
        destruct (mdat_payload m =? 0) eqn:Z.
        -- injection A1 as <-. unfold view. cbn [f_fragmented f_sidxs f_segs f_mdat option_map S5.fs_sidxs S5.fs_segs].
           rewrite ?Fr, <- ?Pb. split; [reflexivity|]. split; [exact Ht|]. split; [exact Hm|]. exact Pb.
        -- injection A1 as <-. split; [reflexivity|]. unfold plain. rewrite Em. exact (conj Ht (conj Hm Hd)).
      * injection A1 as <-. unfold view. cbn [f_fragmented f_sidxs f_segs f_mdat option_map S5.fs_sidxs S5.fs_segs].
        rewrite ?Fr. split; [reflexivity|]. split; [exact Ht|]. split; [exact Hm|]. exact Pb.
  - (* emsg *)
    cbn [S5.add_box S5.x_kind].
    destruct (start_segment_if_needed f pos) as [f2| | |] eqn:S; cbn [rbind] in A1; try discriminate.
    pose proof (view_start f pos f2 Ht Hm S) as V2.
    destruct (start_keeps _ _ _ S) as (T2 & M2 & D2 & _).
    assert (P2 : plain f2) by (unfold plain; rewrite T2, M2, D2; exact (conj Ht (conj Hm Hd))).
    destruct (last_opt (f_segs f2)) as [s|] eqn:L; [|discriminate].
    set (s1 := if is_nil (sg_frags s) then seg_add_fragment s (new_fragment pos) else s) in *.
    destruct (last_opt (sg_frags s1)) as [fr|] eqn:Lf; [|discriminate].
    injection A1 as <-.
    rewrite <- V2, (upd_view _ _ _ L), (view_set_last _ _ _ L).
    split; [|exact P2].
    f_equal. f_equal. f_equal. rewrite vseg_set_last_frag.
    rewrite vfrag_add_other by (rewrite K; discriminate).
    subst s1. unfold vseg at 1. cbn [S5.dg_frags S5.dg_styp].
    destruct (sg_frags s) as [|x t] eqn:Es.
    + cbn [is_nil seg_add_fragment sg_frags sg_styp app last_opt map rev] in *. rewrite Es in Lf. cbn [app last_opt] in Lf.
      injection Lf as <-. rewrite Es. reflexivity.
    + cbn [is_nil] in *. rewrite Es in Lf. rewrite Es. rewrite <- (rev_map_last _ _ _ Lf).
      destruct (rev (map vfrag (x :: t))) eqn:Er.
      * exfalso. apply (f_equal (@length _)) in Er. rewrite rev_length, map_length in Er. discriminate.
      * unfold vseg. rewrite Es, Er. reflexivity.
  - (* other *)
    injection A1 as <-. cbn [S5.add_box S5.x_kind]. split; [reflexivity|exact (conj Ht (conj Hm Hd))].
Qed.

(* ---------------------------------------------------------------- the loop *)
(* where the boxes lie, without wrap-around *)
Fixpoint positions_ok (pos : N) (bs : list topbox) : Prop :=
  match bs with
  | [] => True
  | b :: t => mpos (b_tag b) = pos /\ positions_ok (pos + b_size b) t
  end.

Lemma sim_loop bs : forall f pos last f',
  plain f -> forallb seg_kind bs = true -> Forall mdat_ok bs -> positions_ok pos bs ->
  pos + sumN (map b_size bs) < M64 ->
  decode_loop f pos last bs = Ok f' ->
  S5.seg_decode_loop (map to_tbox bs) (view f) pos (last_moof last) = Ok (view f').
Proof.
  induction bs as [|b t IH]; intros f pos last f' Pl Hk Hm Hp Hlt D.
  - cbn in D. injection D as <-. reflexivity.
  - cbn [decode_loop] in D. cbn [forallb] in Hk. apply andb_true_iff in Hk. destruct Hk as [Kb Kt].
    inversion Hm as [|? ? Mb Mt]; subst. destruct Hp as [Pb Pt]. cbn [map sumN] in Hlt.
    destruct (kind_eqb (b_kind b) KMdat && negb (mdat_check f b last)) eqn:C; [discriminate|].
    destruct (add_child f b pos) as [f1| | |] eqn:A; cbn [rbind] in D; try discriminate.
    destruct (sim_step _ _ _ _ _ Pl Kb Mb Pb C A) as [S1 P1].
    cbn [map S5.seg_decode_loop]. rewrite S1. cbn [rbind]. rewrite (tb_size_to_tbox _ Mb).
    assert (Eu : u64 (pos + b_size b) = pos + b_size b) by (unfold u64; apply N.mod_small; unfold M64 in Hlt; lia).
    rewrite Eu in D.
    assert (El : S5.is_moof (to_tbox b) = last_moof (Some (b_kind b))).
    { unfold to_tbox, last_moof. destruct (b_kind b); reflexivity. }
    rewrite El. apply IH; auto. lia.
Qed.

(* the File before the first box of the media stream: nothing, or an init segment was decoded (fragmented0) *)
Definition file0 (fragmented0 : bool) : file := mkFile None None None None [] None None [] [] fragmented0 false.

Lemma sim_decode bs fragmented0 pos0 f :
  forallb seg_kind bs = true -> Forall mdat_ok bs -> positions_ok pos0 bs ->
  pos0 + sumN (map b_size bs) < M64 ->
  decode_loop (file0 fragmented0) pos0 None bs = Ok f ->
  S5.seg_decode fragmented0 pos0 (map to_tbox bs) = Ok (view f).
Proof.
  intros Hk Hm Hp Hlt D. unfold S5.seg_decode.
  change (S5.mkFstate fragmented0 [] [] None) with (view (file0 fragmented0)).
  change false with (last_moof None). apply sim_loop; auto. unfold plain, file0. cbn. auto.
Qed.

(* composed with C05's theorem about the stream of a segment *)
Lemma c05_segment_decode head its bs fragmented0 pos0 f :
  S5.head_ok head = true -> forallb C05SegProofs.item_kinds its = true ->
  map to_tbox bs = S5.seg_stream head its ->
  forallb seg_kind bs = true -> Forall mdat_ok bs -> positions_ok pos0 bs ->
  pos0 + sumN (map b_size bs) < M64 ->
  decode_loop (file0 fragmented0) pos0 None bs = Ok f ->
  S5.file_frags (view f) = C05SegProofs.items_dfrs (pos0 + S5.xsum head) its.
Proof.
  intros Hh Hi Es Hk Hm Hp Hlt D.
  destruct (C05SegProofs.decode_stream head its fragmented0 pos0 Hh Hi) as (st & E & F).
  pose proof (sim_decode bs fragmented0 pos0 f Hk Hm Hp Hlt D) as S. rewrite Es, E in S. injection S as ->. exact F.
Qed.
End Sim.

(* ---------------------------------------------------------------- the hypotheses are satisfiable *)
(* `styp moof mdat` at position 100 behind an init segment, the moof/mdat being C05's witness fragment (one sample
   of one byte, moof of 100 bytes): C12's boxes, abstracted, are C05's stream of that segment *)
Definition sim_head : list S5.xbox := [S5.mkX S5.XStyp 24 0 []].
Definition sim_its : list S5.eitem := [S5.mkEitem [] C05SidxProofs.wit_fe [] [] []].
Definition sim_boxes : list topbox :=
  number_from 0 [mkBox KStyp 0 24 8 0 [] false [] false [] [] 0 0 0 0;
                 mkBox KMoof 0 100 8 0 [] false [] false [mkTraf 1 0 [[10]] 0] [] 0 0 0 0;
                 mkBox KMdat 0 9 8 0 [] false [] false [] [] 0 0 0 0].
Definition sim_trafs (_ : N) : list C05FragModel.traf := S5.wire_trafs C05SidxProofs.wit_fe.
Definition sim_payload (_ : N) : list N := [7].
Definition sim_pos (tag : N) : N := if tag =? 0 then 100 else if tag =? 1 then 124 else 224.

Lemma sim_example :
  S5.head_ok sim_head = true /\ forallb C05SegProofs.item_kinds sim_its = true /\
  map (to_tbox sim_trafs sim_payload) sim_boxes = S5.seg_stream sim_head sim_its /\
  forallb seg_kind sim_boxes = true /\ Forall (mdat_ok sim_payload) sim_boxes /\ positions_ok sim_pos 100 sim_boxes /\
  exists f, decode_loop (file0 true) 100 None sim_boxes = Ok f /\
            S5.file_frags (view sim_trafs sim_payload sim_pos f) =
              [S5.mkDfr (Some (124, sim_trafs 0)) (Some (232, [7]))].
Proof.
  split; [reflexivity|]. split; [reflexivity|]. split; [vm_compute; reflexivity|]. split; [reflexivity|].
  split; [repeat constructor; cbn; intros; try discriminate; reflexivity|]. split; [cbn; auto|].
  eexists. split; [vm_compute; reflexivity|]. vm_compute. reflexivity.
Qed.
