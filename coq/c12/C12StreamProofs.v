(* C12StreamProofs.v — decode + File.Encode on the byte stream: composition with C02's reader's view
   (coq/c02, read-only: box_ok / all_ok / scan / scan_all_ok), and the witnesses for every layout
   class that C12Bytes.layout_ok excludes. *)
From V.lib Require Import Base.
From V.c05 Require Import C05CodecModel.
From V.c02 Require Import C02AggModel C02AggFragProofs C02AggScanProofs.
From V.c12 Require Import C12Model C12Spec C12PartProofs C12EncProofs C12Bytes C12BytesProofs.

Lemma reencode_stream env o bs f out :
  assemble o bs = Ok f -> layout_ok bs = true -> encode_segment_mode f = Ok out ->
  forallb (stable env) bs = true -> doffs_ok env bs = true ->
  all_ok (map (in0 env) bs) ->
  let stream := concat (map (in0 env) bs) in
  scan (length bs) stream = Some (map (in0 env) bs) /\
  out = bs /\
  exists written, file_bytes env f = Ok written /\ written = map (in0 env) bs /\ concat written = stream /\
                  reencode env o bs = Ok stream.
Proof.
  intros A Hl E Hs Hd Hok. cbn zeta.
  destruct (reencode_identical env o bs f out A Hl E Hs Hd) as (Ho & Fb & Re).
  split. { rewrite <- (map_length (in0 env) bs). apply scan_all_ok. exact Hok. }
  split; [exact Ho|]. exists (map (in0 env) bs). auto.
Qed.

(* ---------------------------------------------------------------- what layout_ok excludes, and why *)
Definition rb (k : kind) (size : N) : topbox := mkBox k 0 size 8 0 [] false [] false [] [] 0 0 0 0.
Definition rmoov (frag : bool) : topbox := mkBox KMoov 0 600 8 0 [] frag [] false [] [mkTrak 1 0 1000 true] 0 0 0 0.

Definition tags_after (bs : list topbox) : res (list N) :=
  do f <- assemble (mkOpts false false) (number_from 0 bs);
  do out <- encode_segment_mode f;
  Ok (map b_tag out).

(* every one of these is accepted by DecodeFile and re-encoded without error, but not to itself *)
Lemma reencode_refuted :
  (* a free (or any unknown) top-level box is dropped *)
  tags_after [rb KFtyp 24; rmoov true; rb KOther 16; rb KMoof 100; rb KMdat 40] = Ok [0; 1; 3; 4] /\
  (* a sidx behind a fragment of its segment is moved in front of the segment's fragments *)
  tags_after [rb KFtyp 24; rmoov true; rb KStyp 24; rb KMoof 100; rb KMdat 40; rb KSidx 44; rb KMoof 100; rb KMdat 40]
    = Ok [0; 1; 2; 5; 3; 4; 6; 7] /\
  (* an mfra that is not the last box is moved to the end *)
  tags_after [rb KFtyp 24; rmoov true; rb KMoof 100; rb KMdat 40; rb KMfra 60; rb KMoof 100; rb KMdat 40]
    = Ok [0; 1; 2; 3; 5; 6; 4] /\
  (* an ftyp behind the moov is dropped; of two moov boxes the first is dropped *)
  tags_after [rmoov true; rb KFtyp 24; rb KMoof 100; rb KMdat 40] = Ok [0; 2; 3] /\
  tags_after [rb KFtyp 24; rmoov true; rmoov true; rb KMoof 100; rb KMdat 40] = Ok [0; 2; 3; 4] /\
  (* a sidx in front of the moov is moved behind it *)
  tags_after [rb KFtyp 24; rb KSidx 44; rmoov true; rb KMoof 100; rb KMdat 40] = Ok [0; 2; 1; 3; 4] /\
  (* a moov with sample tables (not an init segment) followed by fragments is dropped, with the ftyp *)
  tags_after [rb KFtyp 24; rmoov false; rb KMoof 100; rb KMdat 40] = Ok [2; 3] /\
  (* an mdat in front of the first fragment (no init segment) is dropped *)
  tags_after [rb KMdat 40; rb KStyp 24; rb KMoof 100; rb KMdat 40] = Ok [1; 2; 3].
Proof. vm_compute. repeat split; reflexivity. Qed.

(* a layout_ok file of stable boxes whose single trun points 4 bytes into the mdat payload (data offset
   132 = 120 + 8 + 4): Fragment.Encode rewrites the data offset to 128: the sample now starts 4 bytes early *)
Definition doff_moof_bytes (doff : N) : list N :=
  be32 120 ++ [109; 111; 111; 102] ++ repeat 0 88 ++ be32 doff ++ repeat 0 20.
Definition doff_env (t : N) : binfo :=
  if t =? 2 then mkBI (doff_moof_bytes 132) (doff_moof_bytes 132) (Some 96)
  else let b := be32 (8 + t) ++ [120; 120; 120; 120] ++ repeat t (N.to_nat t) in mkBI b b None.
Definition doff_boxes : list topbox := number_from 0 [rb KFtyp 8; rmoov true; rb KMoof 120; rb KMdat 11].

Lemma reencode_doff_refuted :
  layout_ok doff_boxes = true /\ forallb (stable doff_env) doff_boxes = true /\ doffs_ok doff_env doff_boxes = false /\
  exists out, reencode doff_env (mkOpts false false) doff_boxes = Ok out /\
              out <> concat (map (in0 doff_env) doff_boxes) /\
              firstn 4 (skipn (8 + 9 + 96) out) = be32 128 /\
              firstn 4 (skipn (8 + 9 + 96) (concat (map (in0 doff_env) doff_boxes))) = be32 132.
Proof.
  split; [reflexivity|]. split; [vm_compute; reflexivity|]. split; [vm_compute; reflexivity|].
  eexists. split; [vm_compute; reflexivity|]. split; [|split; vm_compute; reflexivity].
  intros H. apply (f_equal (fun l => nth 116 l 0)) in H. vm_compute in H. discriminate.
Qed.

(* the hypotheses of reencode_stream are satisfiable: ftyp moov sidx styp sidx emsg moof mdat emsg moof mdat mfra
   with the first fragment's data offset equal to moof size + 8, decoded with both flags set *)
Definition ok_env (t : N) : binfo :=
  if t =? 6 then mkBI (doff_moof_bytes 128) (doff_moof_bytes 128) (Some 96)
  else let b := be32 (8 + t) ++ [120; 120; 120; 120] ++ repeat t (N.to_nat t) in mkBI b b None.
Definition ok_boxes : list topbox :=
  number_from 0 [rb KFtyp 8; rmoov true; rb KSidx 10; rb KStyp 11; rb KSidx 12; rb KEmsg 13; rb KMoof 120; rb KMdat 15;
                 rb KEmsg 16; rb KMoof 17; rb KMdat 18; rb KMfra 19].

Lemma reencode_example :
  layout_ok ok_boxes = true /\ forallb (stable ok_env) ok_boxes = true /\ doffs_ok ok_env ok_boxes = true /\
  all_ok (map (in0 ok_env) ok_boxes) /\
  exists f out, assemble (mkOpts true true) ok_boxes = Ok f /\ encode_segment_mode f = Ok out /\
                length (f_segs f) = 1%nat /\ lenN (concat (map (in0 ok_env) ok_boxes)) = 268.
Proof.
  split; [reflexivity|]. split; [vm_compute; reflexivity|]. split; [vm_compute; reflexivity|].
  split. { unfold all_ok. repeat constructor. }
  eexists. eexists. split; [vm_compute; reflexivity|]. split; [vm_compute; reflexivity|]. split; vm_compute; reflexivity.
Qed.
