(* C12EncProofs.v — File.Encode in segment mode: what is written, in which order. *)
From V.lib Require Import Base.
From V.c12 Require Import C12Model C12Spec C12PartProofs.

Definition init_boxes (f : file) : list topbox := match f_init f with Some l => l | None => [] end.

(* what MediaSegment.Encode writes when no fragment is rejected *)
Definition seg_boxes (s : segment) : list topbox :=
  opt_list (sg_styp s) ++ map sx_box (sg_sidxs s) ++ seg_fragment_boxes s.

Definition nonmedia (b : topbox) : Prop := is_media b = false.

(* ---------------------------------------------------------------- encode = flattening *)
Lemma encode_fragments_ok frs out :
  encode_fragments frs = Ok out -> out = concat (map fr_children frs).
Proof.
  revert out. induction frs as [|fr t IH]; intros out.
  - cbn. intros [= <-]. reflexivity.
  - cbn [encode_fragments]. unfold encode_fragment.
    destruct (fr_moof fr); [|discriminate]. destruct (fr_mdat fr); [|discriminate]. cbn [rbind].
    destruct (encode_fragments t) as [r| | |]; cbn [rbind]; try discriminate.
    intros [= <-]. cbn [map concat]. f_equal. apply IH. reflexivity.
Qed.

Lemma encode_segments_ok ss out :
  encode_segments ss = Ok out -> out = concat (map seg_boxes ss).
Proof.
  revert out. induction ss as [|s t IH]; intros out.
  - cbn. intros [= <-]. reflexivity.
  - cbn [encode_segments]. unfold encode_segment.
    destruct (encode_fragments (sg_frags s)) as [frs| | |] eqn:E; cbn [rbind]; try discriminate.
    destruct (encode_segments t) as [r| | |]; cbn [rbind]; try discriminate.
    intros [= <-]. cbn [map concat]. unfold seg_boxes at 1, seg_fragment_boxes.
    rewrite (encode_fragments_ok _ _ E), (IH r eq_refl). reflexivity.
Qed.

(* every fragment must hold a moof and an mdat for Encode to succeed *)
Lemma encode_fragments_complete frs out :
  encode_fragments frs = Ok out ->
  Forall (fun fr => is_some (fr_moof fr) = true /\ is_some (fr_mdat fr) = true) frs.
Proof.
  revert out. induction frs as [|fr t IH]; intros out; [constructor|].
  cbn [encode_fragments]. unfold encode_fragment.
  destruct (fr_moof fr) eqn:M; [|discriminate]. destruct (fr_mdat fr) eqn:D; [|discriminate]. cbn [rbind].
  destruct (encode_fragments t) as [r| | |] eqn:E; cbn [rbind]; try discriminate.
  intros _. constructor; [rewrite M, D; auto | eapply IH; reflexivity].
Qed.

Lemma encode_segment_mode_ok f out :
  encode_segment_mode f = Ok out ->
  out = init_boxes f ++ map sx_box (f_sidxs f) ++ concat (map seg_boxes (f_segs f)) ++ opt_list (f_mfra f).
Proof.
  unfold encode_segment_mode, init_boxes, encode_init.
  destruct (f_init f); cbn [rbind];
    (destruct (encode_segments (f_segs f)) as [s| | |] eqn:E; cbn [rbind]; try discriminate;
     intros [= <-]; rewrite (encode_segments_ok _ _ E); reflexivity).
Qed.

(* ---------------------------------------------------------------- the non-media parts hold no media box *)
Definition nonmedia_ok (f : file) : Prop :=
  Forall nonmedia (opt_list (f_ftyp f)) /\
  Forall nonmedia (init_boxes f) /\
  Forall nonmedia (map sx_box (f_sidxs f)) /\
  Forall nonmedia (opt_list (f_mfra f)) /\
  Forall (fun s => Forall nonmedia (opt_list (sg_styp s)) /\ Forall nonmedia (map sx_box (sg_sidxs s))) (f_segs f).

Lemma Forall_snoc {A} (P : A -> Prop) l x : Forall P l -> P x -> Forall P (l ++ [x]).
Proof. intros. apply Forall_app. auto. Qed.

Lemma Forall_removelast {A} (P : A -> Prop) l : Forall P l -> Forall P (removelast l).
Proof.
  induction l as [|a t IH]; [auto|]. intros H. inversion H; subst.
  destruct t; [constructor|]. change (removelast (a :: a0 :: t)) with (a :: removelast (a0 :: t)).
  constructor; auto.
Qed.

Lemma Forall_set_last {A} (P : A -> Prop) l x : Forall P l -> P x -> Forall P (set_last l x).
Proof. intros. unfold set_last. apply Forall_snoc; [apply Forall_removelast|]; auto. Qed.

Lemma Forall_last_opt {A} (P : A -> Prop) l x : Forall P l -> last_opt l = Some x -> P x.
Proof.
  intros H L. rewrite (last_opt_some _ _ L) in H. apply Forall_app in H. destruct H as [_ H].
  inversion H; auto.
Qed.

Definition seg_nm (s : segment) : Prop :=
  Forall nonmedia (opt_list (sg_styp s)) /\ Forall nonmedia (map sx_box (sg_sidxs s)).

Lemma seg_nm_push s fr : seg_nm s -> seg_nm (seg_set_last_fragment s fr).
Proof. auto. Qed.
Lemma seg_nm_addfrag s fr : seg_nm s -> seg_nm (seg_add_fragment s fr).
Proof. auto. Qed.

Lemma nonmedia_ok_start f pos f1 :
  nonmedia_ok f -> start_segment_if_needed f pos = Ok f1 -> nonmedia_ok f1.
Proof.
  intros H S. apply start_segment_cases in S. destruct S as [-> | ->]; [exact H|].
  destruct H as (H0 & H1 & H2 & H3 & H4). unfold nonmedia_ok, add_segment, init_boxes in *. cbn.
  repeat split; auto. apply Forall_snoc; auto. split; constructor.
Qed.

Lemma nonmedia_ok_set_fragmented f : nonmedia_ok f -> nonmedia_ok (set_fragmented f).
Proof. auto. Qed.

Lemma nonmedia_ok_set_segs f segs :
  nonmedia_ok f -> Forall seg_nm segs -> nonmedia_ok (set_segs f segs).
Proof. intros (H0 & H1 & H2 & H3 & H4) H. unfold nonmedia_ok, set_segs, init_boxes in *. cbn. auto. Qed.

Lemma nonmedia_ok_segs f : nonmedia_ok f -> Forall seg_nm (f_segs f).
Proof. intros (H0 & H1 & H2 & H3 & H4). exact H4. Qed.

Lemma add_child_switch_nonmedia f b pos f' :
  nonmedia_ok f -> add_child_switch f b pos = Ok f' -> nonmedia_ok f'.
Proof.
  intros H. unfold add_child_switch. destruct (b_kind b) eqn:K.
  - (* ftyp *) intros [= <-]. destruct H as (H0 & H1 & H2 & H3 & H4).
    unfold nonmedia_ok, init_boxes in *. cbn. repeat split; auto.
    constructor; [|constructor]. unfold nonmedia, is_media. rewrite K. reflexivity.
  - (* styp *) intros [= <-]. destruct H as (H0 & H1 & H2 & H3 & H4).
    unfold nonmedia_ok, add_segment, init_boxes in *. cbn. repeat split; auto.
    apply Forall_snoc; auto. split; [|constructor]. constructor; [|constructor].
    unfold nonmedia, is_media. rewrite K. reflexivity.
  - (* moov *)
    destruct H as (H0 & H1 & H2 & H3 & H4).
    destruct (b_stts_empty b); intros [= <-]; unfold nonmedia_ok, init_boxes in *; cbn; repeat split; auto.
    apply Forall_snoc; auto. unfold nonmedia, is_media. rewrite K. reflexivity.
  - (* sidx *)
    assert (Nb : nonmedia b) by (unfold nonmedia, is_media; rewrite K; reflexivity).
    destruct (last_opt (f_segs f)) as [s|] eqn:L; intros [= <-].
    + apply nonmedia_ok_set_segs; [exact H|]. apply Forall_set_last; [apply nonmedia_ok_segs; exact H|].
      pose proof (Forall_last_opt _ _ _ (nonmedia_ok_segs _ H) L) as [S1 S2].
      split; [exact S1|]. unfold seg_add_sidx. cbn [sg_sidxs]. rewrite map_app. apply Forall_snoc; auto.
    + destruct H as (H0 & H1 & H2 & H3 & H4). unfold nonmedia_ok, init_boxes in *. cbn. repeat split; auto.
      rewrite map_app. apply Forall_snoc; auto.
  - (* moof *)
    destruct (start_segment_if_needed (set_fragmented f) pos) as [f1| | |] eqn:S; cbn [rbind]; try discriminate.
    pose proof (nonmedia_ok_start _ _ _ (nonmedia_ok_set_fragmented _ H) S) as H1.
    destruct (last_opt (f_segs f1)) as [s|] eqn:L; [|discriminate].
    match goal with |- context [last_opt (sg_frags ?x)] => set (s1 := x) end.
    destruct (last_opt (sg_frags s1)) as [fr|]; [|discriminate]. intros [= <-].
    apply nonmedia_ok_set_segs; [exact H1|]. apply Forall_set_last; [apply nonmedia_ok_segs; exact H1|].
    pose proof (Forall_last_opt _ _ _ (nonmedia_ok_segs _ H1) L) as Hs.
    apply seg_nm_push. subst s1.
    destruct (last_opt (sg_frags s)) as [lf|]; [destruct (is_some (fr_moof lf))|]; auto using seg_nm_addfrag.
  - (* mdat *)
    destruct (negb (f_fragmented f)).
    + destruct (match f_mdat f with Some m => mdat_payload m =? 0 | None => true end); intros [= <-]; [|exact H].
      destruct H as (H0 & H1 & H2 & H3 & H4). unfold nonmedia_ok, init_boxes in *. cbn. auto.
    + destruct (last_opt (f_segs f)) as [s|] eqn:L; [|discriminate].
      destruct (last_opt (sg_frags s)) as [fr|]; [|discriminate]. intros [= <-].
      apply nonmedia_ok_set_segs; [exact H|]. apply Forall_set_last; [apply nonmedia_ok_segs; exact H|].
      apply seg_nm_push. exact (Forall_last_opt _ _ _ (nonmedia_ok_segs _ H) L).
  - (* emsg *)
    destruct (start_segment_if_needed f pos) as [f1| | |] eqn:S; cbn [rbind]; try discriminate.
    pose proof (nonmedia_ok_start _ _ _ H S) as H1.
    destruct (last_opt (f_segs f1)) as [s|] eqn:L; [|discriminate].
    match goal with |- context [last_opt (sg_frags ?x)] => set (s1 := x) end.
    destruct (last_opt (sg_frags s1)) as [fr|]; [|discriminate]. intros [= <-].
    apply nonmedia_ok_set_segs; [exact H1|]. apply Forall_set_last; [apply nonmedia_ok_segs; exact H1|].
    pose proof (Forall_last_opt _ _ _ (nonmedia_ok_segs _ H1) L) as Hs.
    apply seg_nm_push. subst s1. destruct (is_nil (sg_frags s)); auto using seg_nm_addfrag.
  - (* mfra *) intros [= <-]. destruct H as (H0 & H1 & H2 & H3 & H4).
    unfold nonmedia_ok, init_boxes in *. cbn. repeat split; auto.
    constructor; [|constructor]. unfold nonmedia, is_media. rewrite K. reflexivity.
  - intros [= <-]. exact H.
Qed.

Lemma add_child_nonmedia f b pos f' : nonmedia_ok f -> add_child f b pos = Ok f' -> nonmedia_ok f'.
Proof.
  intros H. unfold add_child. destruct (add_child_switch f b pos) as [f1| | |] eqn:S; cbn [rbind]; try discriminate.
  intros [= <-]. apply (add_child_switch_nonmedia _ _ _ _ H) in S.
  destruct S as (H0 & H1 & H2 & H3 & H4). unfold nonmedia_ok, init_boxes in *. cbn. auto.
Qed.

Lemma add_children_nonmedia bs : forall f pos f',
  nonmedia_ok f -> add_children f pos bs = Ok f' -> nonmedia_ok f'.
Proof.
  induction bs as [|b t IH]; intros f pos f' H; cbn [add_children].
  - intros [= <-]. exact H.
  - destruct (add_child f b pos) as [f1| | |] eqn:A; cbn [rbind]; try discriminate.
    apply IH. eapply add_child_nonmedia; eauto.
Qed.

Lemma nonmedia_ok_empty som tf : nonmedia_ok (empty_file som tf).
Proof. unfold nonmedia_ok, init_boxes. cbn. repeat split; constructor. Qed.

Lemma assemble_nonmedia o bs f : assemble o bs = Ok f -> nonmedia_ok f.
Proof.
  intros H. destruct (assemble_inv _ _ _ H) as (tf & f0 & _ & D & ->).
  apply decode_loop_add_children in D.
  pose proof (add_children_nonmedia _ _ _ _ (nonmedia_ok_empty _ _) D) as (H0 & H1 & H2 & H3 & H4).
  unfold nonmedia_ok, clear_tfra, init_boxes in *. cbn. auto.
Qed.

(* ---------------------------------------------------------------- media sub-sequence of the output *)
Lemma filter_nonmedia l : Forall nonmedia l -> filter is_media l = [].
Proof.
  induction 1 as [|b t Hb _ IH]; [reflexivity|]. cbn [filter]. rewrite Hb. exact IH.
Qed.

Lemma frag_media_all_media bs : forall fragd, Forall (fun b => is_media b = true) (frag_media fragd bs).
Proof.
  induction bs as [|b t IH]; intros fragd; [constructor|].
  cbn [frag_media]. apply Forall_app. split; [|apply IH].
  destruct (is_media b) eqn:M; cbn [andb]; [|constructor].
  destruct (fragd || is_marker b); constructor; [exact M|constructor].
Qed.

Lemma filter_all_media l : Forall (fun b => is_media b = true) l -> filter is_media l = l.
Proof.
  induction 1 as [|b t Hb _ IH]; [reflexivity|]. cbn [filter]. rewrite Hb, IH. reflexivity.
Qed.

Lemma filter_concat {A} (p : A -> bool) (ll : list (list A)) :
  filter p (concat ll) = concat (map (filter p) ll).
Proof.
  induction ll as [|l t IH]; [reflexivity|]. cbn [concat map]. rewrite filter_app, IH. reflexivity.
Qed.

Lemma filter_seg_boxes segs :
  Forall seg_nm segs ->
  filter is_media (concat (map seg_boxes segs)) = filter is_media (concat (map seg_fragment_boxes segs)).
Proof.
  induction 1 as [|s t [H1 H2] _ IH]; [reflexivity|].
  cbn [map concat]. rewrite !filter_app, IH. unfold seg_boxes. rewrite !filter_app.
  rewrite (filter_nonmedia _ H1), (filter_nonmedia _ H2). reflexivity.
Qed.

(* File.Encode in segment mode: init boxes, top-level sidx boxes, per segment styp / sidx boxes /
   fragment children, then mfra; and the emsg/moof/mdat boxes written are exactly the input's,
   in order *)
Lemma segment_mode_encode o bs f out :
  assemble o bs = Ok f ->
  encode_segment_mode f = Ok out ->
  out = init_boxes f ++ map sx_box (f_sidxs f) ++ concat (map seg_boxes (f_segs f)) ++ opt_list (f_mfra f) /\
  filter is_media out = frag_media false bs /\
  Forall (fun s => Forall (fun fr => is_some (fr_moof fr) = true /\ is_some (fr_mdat fr) = true) (sg_frags s)) (f_segs f).
Proof.
  intros A E. pose proof (encode_segment_mode_ok _ _ E) as ->. split; [reflexivity|]. split.
  - destruct (assemble_nonmedia _ _ _ A) as (_ & H1 & H2 & H3 & H4).
    rewrite !filter_app, (filter_nonmedia _ H1), (filter_nonmedia _ H2), (filter_nonmedia _ H3), app_nil_r.
    cbn [app]. rewrite (filter_seg_boxes _ H4).
    change (concat (map seg_fragment_boxes (f_segs f))) with (file_fragment_boxes f).
    rewrite (partition _ _ _ A). apply filter_all_media, frag_media_all_media.
  - clear A. unfold encode_segment_mode in E.
    destruct (match f_init f with Some cs => encode_init cs | None => Ok [] end); cbn [rbind] in E; try discriminate.
    destruct (encode_segments (f_segs f)) as [r| | |] eqn:S; cbn [rbind] in E; try discriminate. clear E.
    revert r S. induction (f_segs f) as [|s t IH]; intros r S; [constructor|].
    cbn [encode_segments] in S. unfold encode_segment in S.
    destruct (encode_fragments (sg_frags s)) as [frs| | |] eqn:EF; cbn [rbind] in S; try discriminate.
    destruct (encode_segments t) as [r'| | |] eqn:ES; cbn [rbind] in S; try discriminate.
    constructor; [eapply encode_fragments_complete; eauto | eapply IH; reflexivity].
Qed.
