(* C12Theorems.v — the property theorems of C12 and nothing else. *)
From V.lib Require Import Base.
From V.c12 Require Import C12Model C12Spec C12PartProofs.

(* Every accepted top-level sequence: the children of the fragments of the segments, flattened in
   order, are exactly the emsg/moof/mdat boxes of the input in order (minus the mdat boxes of a
   progressive prefix) — each moof and each mdat lands in exactly one fragment of exactly one
   segment, nothing is duplicated, dropped or reordered. *)
Theorem C12_partition : forall (o : opts) (bs : list topbox) (f : file),
  assemble o bs = Ok f ->
  concat (map fr_children (concat (map sg_frags (f_segs f)))) = frag_media false bs.
Proof. exact partition_flat. Qed.
Print Assumptions C12_partition.

(* for a fragmented file (no mdat before the first styp/moof/emsg/fragmented moov) that is the
   whole emsg/moof/mdat sub-sequence *)
Theorem C12_partition_fragmented : forall (o : opts) (bs : list topbox) (f : file),
  no_progressive_mdat bs = true ->
  assemble o bs = Ok f ->
  concat (map fr_children (concat (map sg_frags (f_segs f)))) = filter is_media bs.
Proof. exact partition_fragmented_flat. Qed.
Print Assumptions C12_partition_fragmented.
