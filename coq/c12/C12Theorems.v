(* C12Theorems.v — the property theorems of C12 and nothing else. *)
From V.lib Require Import Base.
From V.c12 Require Import C12Model C12Spec C12Sidx C12PartProofs C12BoundProofs C12ShapeProofs C12EncProofs C12SidxProofs.

(* Every accepted top-level sequence, every flag combination: the children of the fragments of the
   segments, flattened in order, are exactly the emsg/moof/mdat boxes of the input in order (minus
   the mdat boxes of a progressive prefix) — each moof and each mdat lands in exactly one fragment
   of exactly one segment, nothing is duplicated, dropped or reordered. *)
Theorem C12_partition : forall (o : opts) (bs : list topbox) (f : file),
  assemble o bs = Ok f ->
  concat (map fr_children (concat (map sg_frags (f_segs f)))) = frag_media false bs.
Proof. exact partition_flat. Qed.
Print Assumptions C12_partition.

(* for a fragmented file (no mdat before the first styp/moof/emsg/fragmented moov) that is the
   whole emsg/moof/mdat sub-sequence *)
Theorem C12_partition_fragmented : forall (o : opts) (bs : list topbox) (f : file),
  no_progressive_mdat bs = true ->
  assemble o bs = Ok f ->
  concat (map fr_children (concat (map sg_frags (f_segs f)))) = filter is_media bs.
Proof. exact partition_fragmented_flat. Qed.
Print Assumptions C12_partition_fragmented.

(* ... and each fragment of a decoded file has the shape  emsg* [moof [mdat] emsg*]  with Moof / Mdat
   pointing at those boxes: at most one moof and one mdat per fragment, the mdat directly after its
   moof (a moof/mdat pair is never split over fragments or segments).  Together with
   C12_segment_mode_encode: in a file that re-encodes, every fragment has exactly one pair. *)
Theorem C12_fragment_shape : forall (o : opts) (bs : list topbox) (f : file),
  assemble o bs = Ok f -> Forall (fun s => Forall frag_shape (sg_frags s)) (f_segs f).
Proof. exact fragment_shape. Qed.
Print Assumptions C12_fragment_shape.

(* Where segments start: the (StartPos, has styp) list of the assembled segments is the list computed
   by the boundary rules of C12Spec over the input sequence: a segment starts at box i iff i is a
   styp, or i is an emsg/moof and either no segment exists yet or the delimiter in force designates
   its position (C12_boundary_rules: top-level sidx references / tfra entry / every moof / first only). *)
Theorem C12_boundaries : forall (o : opts) (bs : list topbox) (f : file) (tf : option (list N)),
  assemble o bs = Ok f ->
  find_tfra (o_ism o) bs = Ok tf ->
  map (fun s => (sg_start s, is_some (sg_styp s))) (f_segs f) = boundaries (o_start_on_moof o) tf bstate0 0 bs.
Proof. exact boundaries_thm. Qed.
Print Assumptions C12_boundaries.

(* the four mechanisms, case by case: position `pos` is designated as the start of segment number
   q_nseg iff (1) there are top-level sidx boxes and the q_nseg-th start offset they list (anchor +
   sizes of the preceding media references, a type-1 reference ends a sidx) is pos; or (2) there is
   none, the ISM flag found a tfra, and its entry number q_nseg has moof offset pos; or (3) neither,
   DecStartOnMoof is set, and the current segment was not started by a styp and has no fragment
   still waiting for its moof; (4) otherwise never (only the first emsg/moof starts a segment). *)
Theorem C12_boundary_rules : forall (som : bool) (tf : option (list N)) (q : bstate) (pos : N),
  designated som tf q pos = true <->
  (q_sidxs q <> [] /\ nth_error (sidx_starts (q_sidxs q)) (q_nseg q) = Some pos) \/
  (q_sidxs q = [] /\ exists offs, tf = Some offs /\ nth_error offs (q_nseg q) = Some pos) \/
  (q_sidxs q = [] /\ tf = None /\ som = true /\ q_styp q = false /\ q_open q = false).
Proof. exact designated_cases. Qed.
Print Assumptions C12_boundary_rules.

(* Re-encoding in segment mode, when it succeeds, writes the init boxes, the top-level sidx boxes,
   per segment styp / sidx boxes / the fragments' children, then mfra; the emsg/moof/mdat boxes
   written are exactly the input's in order; and success means every fragment holds a moof and an
   mdat.  (Byte identity of each written box with its input bytes is observed by the harness;
   it is C01's statement, not proved here.) *)
Theorem C12_segment_mode_encode : forall (o : opts) (bs : list topbox) (f : file) (out : list topbox),
  assemble o bs = Ok f ->
  encode_segment_mode f = Ok out ->
  out = init_boxes f ++ map sx_box (f_sidxs f) ++ concat (map seg_boxes (f_segs f)) ++ opt_list (f_mfra f) /\
  filter is_media out = frag_media false bs /\
  Forall (fun s => Forall (fun fr => is_some (fr_moof fr) = true /\ is_some (fr_mdat fr) = true) (sg_frags s)) (f_segs f).
Proof. exact segment_mode_encode. Qed.
Print Assumptions C12_segment_mode_encode.

(* After UpdateSidx (when it adds or refills an index) and segment-mode encoding: for every i, the
   output splits into `before` ++ segments i.. ++ mfra where `before` has exactly
   anchor + (sum of the first i referenced sizes) bytes — reference i starts at the first byte of
   segment i and (i = number of segments) the references end where the media ends; every reference
   has type 0, its referenced_size IS the segment's size and fits the 31-bit field (what a reader of
   the written word `type<<31 | size` gets back is (0, size of the segment)), its duration IS the
   summed sample durations of the reference track over all trafs of all fragments of the segment,
   in whatever order the trafs come and whether or not a fragment holds the reference track, and
   fits 32 bits; reference_ID / timescale are the reference track's.
   No bound on segment sizes or durations any more (repo commit 85561e1: UpdateSidx returns an error
   instead of wrapping; the guard `< 2^64` only says that Size() and the uint64 duration accumulator,
   whose wrap the model writes out, do not wrap: a file of 16 EiB).  Sizes are Size() values: that a
   box encodes to Size() bytes is C02's statement. *)
Theorem C12_sidx_tiles : forall (f : file) (add nz : bool) (newtag : N) (f' : file) (out : list topbox),
  update_sidx f add nz newtag = Ok f' ->
  (add = true \/ f_sidxs f <> []) ->
  encode_segment_mode f' = Ok out ->
  Forall (fun s => seg_size s < M64) (f_segs f) ->
  exists sx rest moov rt,
    f_sidxs f' = sx :: rest /\ f_moov f = Some moov /\ find_reference_trak (b_traks moov) = Ok rt /\
    let refs := b_refs (sx_box sx) in
    let segs := f_segs f' in
    length refs = length segs /\ segs = f_segs f /\ segs <> [] /\
    (forall i, (i <= length segs)%nat ->
       let before := init_boxes f' ++ map sx_box (f_sidxs f') ++ concat (map seg_boxes (firstn i segs)) in
       out = before ++ concat (map seg_boxes (skipn i segs)) ++ opt_list (f_mfra f') /\
       anchor_in_output f' sx + sumN (firstn i (map r_size refs)) = sizes_of before) /\
    Forall2 (fun r s => r_size r = seg_size s /\ r_size r < M31 /\ r_type r = 0 /\
                        dec_ref_word (enc_ref_word r) = (0, seg_size s) /\
                        r_dur r = seg_ref_dur (k_id rt) s mod M64 /\ r_dur r < M32) refs segs /\
    b_refid (sx_box sx) = k_id rt /\ b_timescale (sx_box sx) = k_timescale rt.
Proof. exact sidx_tiles. Qed.
Print Assumptions C12_sidx_tiles.

(* The text before 85561e1 (uint32 accumulator, uint32(seg.Size())): a segment of 2^31 + 100 bytes got
   a reference that reads back as type 1 (a reference to another sidx) of 100 bytes; two samples of
   3*10^9 ticks (5 minutes each at the 10 MHz Smooth Streaming timescale) a duration of 1705032704
   instead of 6*10^9; both without an error.  The repaired text returns an error for both files.
   Replayed on the real code: known_findings/C12.json C12-F6. *)
Theorem C12_sidx_pinned_refuted :
  (exists f, assemble (mkOpts false false) p_big = Ok f /\ map seg_size (f_segs f) = [2147483748] /\
             first_ref (update_sidx_pinned f true false 9) = Some ((1, 100), 10) /\
             update_sidx f true false 9 = Err) /\
  (exists f, assemble (mkOpts false false) p_long = Ok f /\ map (seg_ref_dur 1) (f_segs f) = [6000000000] /\
             first_ref (update_sidx_pinned f true false 9) = Some ((0, 116), 1705032704) /\
             update_sidx f true false 9 = Err).
Proof. exact sidx_pinned_refuted. Qed.
Print Assumptions C12_sidx_pinned_refuted.

(* Which track is "the reference track": the first video track of the moov, else the first audio
   track, else the first track - by position in the moov, not by track id; None of the three exists
   only for a moov without trak (Panic in the model: Go indexes Traks[0]). *)
Theorem C12_reference_track : forall (traks : list trak),
  match find_reference_trak traks with
  | Ok rt =>
      exists before after, traks = before ++ rt :: after /\
        ((k_handler rt = 0 /\ Forall (fun k => k_handler k <> 0) before) \/
         (k_handler rt = 1 /\ Forall (fun k => k_handler k <> 0) traks /\ Forall (fun k => k_handler k <> 1) before) \/
         (before = [] /\ Forall (fun k => k_handler k <> 0 /\ k_handler k <> 1) traks))
  | Panic => traks = []
  | _ => False
  end.
Proof. exact reference_track_spec. Qed.
Print Assumptions C12_reference_track.

(* ---------------------------------------------------------------- the hypotheses are satisfiable *)
(* ftyp moov styp moof mdat moof mdat styp moof mdat: two segments of 2 and 1 fragments, track 2 is video *)
Definition bx (k : kind) (size : N) : topbox := mkBox k 0 size 8 0 [] false [] false [] [] 0 0 0 0.
Definition ex_moov : topbox :=
  mkBox KMoov 0 600 8 0 [] true [] false [] [mkTrak 1 1 1000 true; mkTrak 2 0 2000 true] 0 0 0 0.
Definition ex_moof (base : N) (durs : list N) : topbox :=
  mkBox KMoof 0 100 8 0 [] false [] false [mkTraf 1 base [[5; 5]] 0; mkTraf 2 base [durs] 7] [] 0 0 0 0.
Definition ex_boxes : list topbox :=
  number_from 0 [bx KFtyp 24; ex_moov; bx KStyp 24; ex_moof 0 [10; 20]; bx KMdat 50; ex_moof 30 [30]; bx KMdat 40;
                 bx KStyp 24; ex_moof 60 [40; 2]; bx KMdat 60].

Example C12_example_partition :
  match assemble (mkOpts false false) ex_boxes with
  | Ok f => map (fun s => map (fun fr => map b_tag (fr_children fr)) (sg_frags s)) (f_segs f)
            = [[[3; 4]; [5; 6]]; [[8; 9]]]
            /\ map sg_start (f_segs f) = [624; 938]
  | _ => False
  end.
Proof. vm_compute. split; reflexivity. Qed.

(* a top-level sidx with two references (314 and 184 bytes) delimits the same file without styp boxes *)
Definition ex_sidx : topbox :=
  mkBox KSidx 0 64 8 0 [mkRef 0 290 60; mkRef 0 160 42] false [] false [] [] 1 2 2000 0.
Definition ex_boxes_sidx : list topbox :=
  number_from 0 [bx KFtyp 24; ex_moov; ex_sidx; ex_moof 0 [10; 20]; bx KMdat 50; ex_moof 30 [30]; bx KMdat 40;
                 ex_moof 60 [40; 2]; bx KMdat 60].

Example C12_example_boundaries :
  boundaries false None bstate0 0 ex_boxes = [(624, true); (938, true)] /\
  boundaries false None bstate0 0 ex_boxes_sidx = [(688, false); (978, false)] /\
  boundaries true None bstate0 0 (skipn 3 ex_boxes_sidx) = [(0, false); (150, false); (290, false)] /\
  match assemble (mkOpts false false) ex_boxes_sidx with
  | Ok f => map sg_start (f_segs f) = [688; 978]
  | _ => False
  end.
Proof. vm_compute. repeat split; reflexivity. Qed.

Example C12_example_tiles :
  match assemble (mkOpts false false) ex_boxes with
  | Ok f =>
      match update_sidx f true true 10 with
      | Ok f' =>
          match f_sidxs f', encode_segment_mode f' with
          | [sx], Ok out =>
              map (fun r => (r_size r, r_dur r)) (b_refs (sx_box sx)) = [(314, 60); (184, 42)] /\
              b_ept (sx_box sx) = 7 /\ b_refid (sx_box sx) = 2 /\
              anchor_in_output f' sx = 688 /\ map b_tag out = [0; 1; 10; 2; 3; 4; 5; 6; 7; 8; 9] /\
              sizes_of out = 688 + 314 + 184
          | _, _ => False
          end
      | _ => False
      end
  | _ => False
  end.
Proof. vm_compute. repeat split; reflexivity. Qed.
