(* C12Theorems.v — the property theorems of C12 and nothing else. *)
From V.lib Require Import Base.
From V.c05 Require Import C05CodecModel.
From V.c02 Require Import C02AggModel C02AggFragProofs C02AggScanProofs.
From V.c12 Require Import C12Model C12Spec C12Sidx C12PartProofs C12BoundProofs C12ShapeProofs C12EncProofs C12SidxProofs.
From V.c12 Require Import C12Bytes C12BytesProofs C12StreamProofs C12EptProofs C12C01Model C12C01Proofs.
From V.c05 Require C05SegCodecModel.
From V.c12 Require Import C12PosProofs C12SegBytesProofs.
From V.c05 Require C05Model C05FragModel C05SegModel C05SegProofs.
From V.c12 Require Import C12C05SimProofs.

(* Every accepted top-level sequence, every flag combination: the children of the fragments of the
   segments, flattened in order, are exactly the emsg/moof/mdat boxes of the input in order (minus
   the mdat boxes of a progressive prefix) — each moof and each mdat lands in exactly one fragment
   of exactly one segment, nothing is duplicated, dropped or reordered. *)
Theorem C12_partition : forall (o : opts) (bs : list topbox) (f : file),
  assemble o bs = Ok f ->
  concat (map fr_children (concat (map sg_frags (f_segs f)))) = frag_media false bs.
Proof. exact partition_flat. Qed.
Print Assumptions C12_partition.

(* for a fragmented file (no mdat before the first styp/moof/emsg/fragmented moov) that is the
   whole emsg/moof/mdat sub-sequence *)
Theorem C12_partition_fragmented : forall (o : opts) (bs : list topbox) (f : file),
  no_progressive_mdat bs = true ->
  assemble o bs = Ok f ->
  concat (map fr_children (concat (map sg_frags (f_segs f)))) = filter is_media bs.
Proof. exact partition_fragmented_flat. Qed.
Print Assumptions C12_partition_fragmented.

(* ... and each fragment of a decoded file has the shape  emsg* [moof [mdat] emsg*]  with Moof / Mdat
   pointing at those boxes: at most one moof and one mdat per fragment, the mdat directly after its
   moof (a moof/mdat pair is never split over fragments or segments).  Together with
   C12_segment_mode_encode: in a file that re-encodes, every fragment has exactly one pair. *)
Theorem C12_fragment_shape : forall (o : opts) (bs : list topbox) (f : file),
  assemble o bs = Ok f -> Forall (fun s => Forall frag_shape (sg_frags s)) (f_segs f).
Proof. exact fragment_shape. Qed.
Print Assumptions C12_fragment_shape.

(* Where segments start: the (StartPos, has styp) list of the assembled segments is the list computed
   by the boundary rules of C12Spec over the input sequence: a segment starts at box i iff i is a
   styp, or i is an emsg/moof and either no segment exists yet or the delimiter in force designates
   its position (C12_boundary_rules: top-level sidx references / tfra entry / every moof / first only). *)
Theorem C12_boundaries : forall (o : opts) (bs : list topbox) (f : file) (tf : option (list N)),
  assemble o bs = Ok f ->
  find_tfra (o_ism o) bs = Ok tf ->
  map (fun s => (sg_start s, is_some (sg_styp s))) (f_segs f) = boundaries (o_start_on_moof o) tf bstate0 0 bs.
Proof. exact boundaries_thm. Qed.
Print Assumptions C12_boundaries.

(* the four mechanisms, case by case: position `pos` is designated as the start of segment number
   q_nseg iff (1) there are top-level sidx boxes and the q_nseg-th start offset they list (anchor +
   sizes of the preceding media references, a type-1 reference ends a sidx) is pos; or (2) there is
   none, the ISM flag found a tfra, and its entry number q_nseg has moof offset pos; or (3) neither,
   DecStartOnMoof is set, and the current segment was not started by a styp and has no fragment
   still waiting for its moof; (4) otherwise never (only the first emsg/moof starts a segment). *)
Theorem C12_boundary_rules : forall (som : bool) (tf : option (list N)) (q : bstate) (pos : N),
  designated som tf q pos = true <->
  (q_sidxs q <> [] /\ nth_error (sidx_starts (q_sidxs q)) (q_nseg q) = Some pos) \/
  (q_sidxs q = [] /\ exists offs, tf = Some offs /\ nth_error offs (q_nseg q) = Some pos) \/
  (q_sidxs q = [] /\ tf = None /\ som = true /\ q_styp q = false /\ q_open q = false).
Proof. exact designated_cases. Qed.
Print Assumptions C12_boundary_rules.

(* Re-encoding in segment mode, when it succeeds, writes the init boxes, the top-level sidx boxes,
   per segment styp / sidx boxes / the fragments' children, then mfra; the emsg/moof/mdat boxes
   written are exactly the input's in order; and success means every fragment holds a moof and an
   mdat.  (Byte identity of each written box with its input bytes is observed by the harness;
   it is C01's statement, not proved here.) *)
Theorem C12_segment_mode_encode : forall (o : opts) (bs : list topbox) (f : file) (out : list topbox),
  assemble o bs = Ok f ->
  encode_segment_mode f = Ok out ->
  out = init_boxes f ++ map sx_box (f_sidxs f) ++ concat (map seg_boxes (f_segs f)) ++ opt_list (f_mfra f) /\
  filter is_media out = frag_media false bs /\
  Forall (fun s => Forall (fun fr => is_some (fr_moof fr) = true /\ is_some (fr_mdat fr) = true) (sg_frags s)) (f_segs f).
Proof. exact segment_mode_encode. Qed.
Print Assumptions C12_segment_mode_encode.

(* Re-encoding in the default segment mode is the identity, box for box: for EVERY accepted top-level
   sequence of the shape  [ftyp] moov(fragmented) sidx* ( styp sidx* | emsg | moof | mdat )* [mfra]
   (C12Bytes.layout_ok; also without the init part), whatever the decode flags and whichever delimiter
   (styp, sidx references, tfra, start-on-moof) cut it into segments, File.Encode writes exactly the
   input boxes in the input order.  An emsg before the first moof, several top-level sidx boxes, sidx
   boxes behind a styp, an mfra at the end are all inside. *)
Theorem C12_reencode_boxes : forall (o : opts) (bs : list topbox) (f : file) (out : list topbox),
  assemble o bs = Ok f -> layout_ok bs = true -> encode_segment_mode f = Ok out -> out = bs.
Proof. exact reencode_boxes. Qed.
Print Assumptions C12_reencode_boxes.

(* ... and byte for byte.  env gives, per box, its input bytes, the bytes its decoded form encodes to, and
   for a moof with a single trun the position of that trun's data_offset field.  Hypotheses: every box
   re-encodes to its own bytes (`stable`: C01's statement per box), every input box starts with a correct
   size field (`all_ok`: C02's box_ok), and (`doffs_ok`) the data offset of a single-trun fragment already
   is moof size + mdat header size, the value Fragment.Encode's SetTrunDataOffsets writes over it.  Then:
   following the size fields of the input stream splits it into exactly these boxes (C02's scan), and
   decode + File.Encode (segment mode, no UpdateSidx, no optimisation, mdat read eagerly) writes exactly
   these byte strings in this order: the output stream IS the input stream.  All decode flags. *)
Theorem C12_reencode_identical : forall (env : N -> binfo) (o : opts) (bs : list topbox) (f : file) (out : list topbox),
  assemble o bs = Ok f -> layout_ok bs = true -> encode_segment_mode f = Ok out ->
  forallb (stable env) bs = true -> doffs_ok env bs = true ->
  all_ok (map (in0 env) bs) ->
  let stream := concat (map (in0 env) bs) in
  scan (length bs) stream = Some (map (in0 env) bs) /\
  out = bs /\
  exists written, file_bytes env f = Ok written /\ written = map (in0 env) bs /\ concat written = stream /\
                  reencode env o bs = Ok stream.
Proof. exact reencode_stream. Qed.
Print Assumptions C12_reencode_identical.

(* The per-box hypothesis `stable` discharged by C01 (coq/c01, read-only).  The byte environment is COMPUTED from the
   input bytes: c01_env gives, for the box at a tag, what C01's model of Box.Encode writes for the tree C01's model of
   DecodeBoxSR returns for these bytes (c01_reenc).  c01_box x: x was written by the library (the Box.Encode output of any
   exactly decoded tree - C01_fixpoint makes it a fixed point) or x decodes to a tree with no reported reason to differ
   (C01_fixpoint_partial).  For every layout_ok stream of such boxes - ftyp, styp, moov, sidx, emsg, moof, mdat, mfra as far
   as C01 models their content, unknown boxes as raw bytes - decode + segment-mode Encode writes the input stream.  Left as
   hypotheses: doffs_ok (known finding C12-K1) and all_ok (size fields: C02). *)
Theorem C12_reencode_identical_c01 :
  forall (inb : N -> list N) (doff : N -> option N) (o : opts) (bs : list topbox) (f : file) (out : list topbox),
  assemble o bs = Ok f -> layout_ok bs = true -> encode_segment_mode f = Ok out ->
  (forall b, In b bs -> c01_box (inb (b_tag b))) ->
  doffs_ok (c01_env inb doff) bs = true ->
  all_ok (map (fun b => inb (b_tag b)) bs) ->
  let stream := concat (map (fun b => inb (b_tag b)) bs) in
  scan (length bs) stream = Some (map (fun b => inb (b_tag b)) bs) /\
  out = bs /\
  reencode (c01_env inb doff) o bs = Ok stream.
Proof. exact reencode_identical_c01. Qed.
Print Assumptions C12_reencode_identical_c01.

(* From the bytes to the segment partition.  The stream is the concatenation of the boxes' bytes, each as long as its
   Size() (`sized`), shorter than 2^64 bytes, of a layout_ok layout; ANY decode flags / delimiter.  Then the stream of boxes
   splits as  init ++ top-level sidx ++ segments ++ [mfra], and for segment i: MediaSegment.StartPos (sg_start) IS the number
   of bytes in front of the segment, the stream from that byte offset on is the segment's bytes followed by the rest; for its
   fragment j: Fragment.StartPos (fr_start) IS the number of bytes in front of the fragment's first child; and for child k of
   the fragment (emsg, moof, mdat): the stream at offset fr_start + sizes of the children before it starts with the child's
   bytes, and the box that C05's byte-level reader (C05SegCodecModel.next_box: DecodeHeader + the size check, composed
   read-only) decodes there is the box it decodes from the child's bytes alone - the abstract partition of C12_partition
   is a partition of the byte stream at the recorded positions. *)
Theorem C12_partition_bytes : forall (env : N -> binfo) (o : opts) (bs : list topbox) (f : file),
  assemble o bs = Ok f -> layout_ok bs = true ->
  sized env bs -> sumN (map b_size bs) < M64 ->
  bs = hdr f ++ asb (f_segs f) ++ opt_list (f_mfra f) /\
  forall i s, nth_error (f_segs f) i = Some s ->
    let pre := hdr f ++ asb (firstn i (f_segs f)) in
    let post := asb (skipn (S i) (f_segs f)) ++ opt_list (f_mfra f) in
    bs = pre ++ seg_boxes s ++ post /\
    sg_start s = lenN (bytes_of env pre) /\
    skipn (N.to_nat (sg_start s)) (bytes_of env bs) = bytes_of env (seg_boxes s) ++ bytes_of env post /\
    forall j fr, nth_error (sg_frags s) j = Some fr ->
      let fpre := pre ++ seg_head s ++ frs_boxes (firstn j (sg_frags s)) in
      let fpost := frs_boxes (skipn (S j) (sg_frags s)) ++ post in
      bs = fpre ++ fr_children fr ++ fpost /\
      fr_start fr = lenN (bytes_of env fpre) /\
      forall k c, nth_error (fr_children fr) k = Some c ->
        let off := fr_start fr + sumN (map b_size (firstn k (fr_children fr))) in
        exists tail, skipn (N.to_nat off) (bytes_of env bs) = in0 env c ++ tail /\
          forall ty sz hl body,
            C05SegCodecModel.next_box (in0 env c) = Ok (ty, sz, hl, body, []) ->
            C05SegCodecModel.next_box (skipn (N.to_nat off) (bytes_of env bs)) = Ok (ty, sz, hl, body, tail).
Proof. exact partition_bytes. Qed.
Print Assumptions C12_partition_bytes.

(* ... and for the moof/mdat pair of a fragment (Fragment.Moof / Fragment.Mdat): the children are emsg* moof mdat emsg*, the
   moof lies at byte offset StartPos + sizes of the leading emsg boxes, the mdat directly behind it, and C05's reader decodes
   exactly these two boxes there (for a moof: dec_top_box then yields the decoded trafs that C05's fragment theorems read) *)
Theorem C12_partition_bytes_pair :
  forall (env : N -> binfo) (o : opts) (bs : list topbox) (f : file) i s j fr m d,
  assemble o bs = Ok f -> layout_ok bs = true ->
  sized env bs -> sumN (map b_size bs) < M64 ->
  nth_error (f_segs f) i = Some s -> nth_error (sg_frags s) j = Some fr ->
  fr_moof fr = Some m -> fr_mdat fr = Some d ->
  exists es1 es2 tail,
    all_emsg es1 = true /\ all_emsg es2 = true /\ fr_children fr = es1 ++ m :: d :: es2 /\
    b_kind m = KMoof /\ b_kind d = KMdat /\
    let moff := fr_start fr + sumN (map b_size es1) in
    skipn (N.to_nat moff) (bytes_of env bs) = in0 env m ++ in0 env d ++ tail /\
    (forall ty sz hl body,
        C05SegCodecModel.next_box (in0 env m) = Ok (ty, sz, hl, body, []) ->
        C05SegCodecModel.next_box (skipn (N.to_nat moff) (bytes_of env bs)) = Ok (ty, sz, hl, body, in0 env d ++ tail)) /\
    (forall ty sz hl body,
        C05SegCodecModel.next_box (in0 env d) = Ok (ty, sz, hl, body, []) ->
        C05SegCodecModel.next_box (skipn (N.to_nat (moff + b_size m)) (bytes_of env bs)) = Ok (ty, sz, hl, body, tail)).
Proof. exact partition_bytes_pair. Qed.
Print Assumptions C12_partition_bytes_pair.

(* C12's assembly model and C05's segment decoder (coq/c05 C05SegModel.seg_decode, read-only) are two transcriptions of
   DecodeFile's loop over different box types; they agree.  to_tbox abstracts a C12 box to a C05 box (the decoded trafs of a
   moof, the payload of an mdat and the position of a box are supplied by tag), view reads a C12 File as a C05 decoder state
   (fragments: moof = (its position, its trafs), mdat = (its position + header size, its payload)).  Default decode flags,
   a stream of styp/sidx/emsg/moof/mdat/other boxes at consistent positions below 2^64, with or without an init segment in
   front: whenever C12's loop accepts, C05's accepts the abstracted stream with exactly the view of C12's result. *)
Theorem C12_c05_simulation :
  forall (trafs_of : N -> list C05FragModel.traf) (payload_of : N -> list N) (mpos : N -> N)
         (bs : list topbox) (fragmented0 : bool) (pos0 : N) (f : file),
  forallb seg_kind bs = true -> Forall (mdat_ok payload_of) bs -> positions_ok mpos pos0 bs ->
  pos0 + sumN (map b_size bs) < M64 ->
  decode_loop (file0 fragmented0) pos0 None bs = Ok f ->
  C05SegModel.seg_decode fragmented0 pos0 (map (to_tbox trafs_of payload_of) bs) = Ok (view trafs_of payload_of mpos f).
Proof. exact sim_decode. Qed.
Print Assumptions C12_c05_simulation.

(* ... hence, through C05_segment_decode (C05SegProofs.decode_stream): when the abstracted stream is the stream of a
   segment as C05 describes it (head = nothing or styp + sidx boxes; per encoded fragment: boxes before the moof, moof, mdat,
   boxes behind), the fragments C12 assembles are, one for one and in order, these encoded fragments, each with its moof at
   the moof's stream position and its mdat payload at the payload's stream position (items_dfrs): the partition C12 proves
   things about is the one C05's read-back theorems (C05_segment_roundtrip and its variants) start from. *)
Theorem C12_c05_segment_decode :
  forall (trafs_of : N -> list C05FragModel.traf) (payload_of : N -> list N) (mpos : N -> N)
         (head : list C05SegModel.xbox) (its : list C05SegModel.eitem)
         (bs : list topbox) (fragmented0 : bool) (pos0 : N) (f : file),
  C05SegModel.head_ok head = true -> forallb C05SegProofs.item_kinds its = true ->
  map (to_tbox trafs_of payload_of) bs = C05SegModel.seg_stream head its ->
  forallb seg_kind bs = true -> Forall (mdat_ok payload_of) bs -> positions_ok mpos pos0 bs ->
  pos0 + sumN (map b_size bs) < M64 ->
  decode_loop (file0 fragmented0) pos0 None bs = Ok f ->
  C05SegModel.file_frags (view trafs_of payload_of mpos f) = C05SegProofs.items_dfrs (pos0 + C05SegModel.xsum head) its.
Proof. exact c05_segment_decode. Qed.
Print Assumptions C12_c05_segment_decode.

(* Outside layout_ok File.Encode does NOT reproduce the file (each line: accepted, encoded without error,
   tags of the boxes written): a free box is dropped; a sidx behind a fragment moves in front of its
   segment's fragments; an mfra that is not last moves to the end; an ftyp behind the moov, the first of two
   moov boxes, a non-fragmented moov (with its ftyp) and an mdat in front of the first fragment are dropped;
   a sidx in front of the moov moves behind it. *)
Theorem C12_reencode_refuted :
  tags_after [rb KFtyp 24; rmoov true; rb KOther 16; rb KMoof 100; rb KMdat 40] = Ok [0; 1; 3; 4] /\
  tags_after [rb KFtyp 24; rmoov true; rb KStyp 24; rb KMoof 100; rb KMdat 40; rb KSidx 44; rb KMoof 100; rb KMdat 40]
    = Ok [0; 1; 2; 5; 3; 4; 6; 7] /\
  tags_after [rb KFtyp 24; rmoov true; rb KMoof 100; rb KMdat 40; rb KMfra 60; rb KMoof 100; rb KMdat 40]
    = Ok [0; 1; 2; 3; 5; 6; 4] /\
  tags_after [rmoov true; rb KFtyp 24; rb KMoof 100; rb KMdat 40] = Ok [0; 2; 3] /\
  tags_after [rb KFtyp 24; rmoov true; rmoov true; rb KMoof 100; rb KMdat 40] = Ok [0; 2; 3; 4] /\
  tags_after [rb KFtyp 24; rb KSidx 44; rmoov true; rb KMoof 100; rb KMdat 40] = Ok [0; 2; 1; 3; 4] /\
  tags_after [rb KFtyp 24; rmoov false; rb KMoof 100; rb KMdat 40] = Ok [2; 3] /\
  tags_after [rb KMdat 40; rb KStyp 24; rb KMoof 100; rb KMdat 40] = Ok [1; 2; 3].
Proof. exact reencode_refuted. Qed.
Print Assumptions C12_reencode_refuted.

(* Without doffs_ok: a layout_ok file of stable boxes whose only trun has data offset 132 (moof 120 + mdat
   header 8 + 4: the sample starts 4 bytes into the payload) is re-encoded with data offset 128: not
   byte-identical, and the sample now points 4 bytes early.  Real code: known_findings/C12.json C12-K1. *)
Theorem C12_reencode_doff_refuted :
  layout_ok doff_boxes = true /\ forallb (stable doff_env) doff_boxes = true /\ doffs_ok doff_env doff_boxes = false /\
  exists out, reencode doff_env (mkOpts false false) doff_boxes = Ok out /\
              out <> concat (map (in0 doff_env) doff_boxes) /\
              firstn 4 (skipn (8 + 9 + 96) out) = be32 128 /\
              firstn 4 (skipn (8 + 9 + 96) (concat (map (in0 doff_env) doff_boxes))) = be32 132.
Proof. exact reencode_doff_refuted. Qed.
Print Assumptions C12_reencode_doff_refuted.

(* After UpdateSidx (when it adds or refills an index) and segment-mode encoding: for every i, the
   output splits into `before` ++ segments i.. ++ mfra where `before` has exactly
   anchor + (sum of the first i referenced sizes) bytes — reference i starts at the first byte of
   segment i and (i = number of segments) the references end where the media ends; every reference
   has type 0, its referenced_size IS the segment's size and fits the 31-bit field (what a reader of
   the written word `type<<31 | size` gets back is (0, size of the segment)), its duration IS the
   summed sample durations of the reference track over all trafs of all fragments of the segment,
   in whatever order the trafs come and whether or not a fragment holds the reference track, and
   fits 32 bits; reference_ID / timescale are the reference track's.
   No bound on segment sizes or durations any more (repo commit 85561e1: UpdateSidx returns an error
   instead of wrapping; the guard `< 2^64` only says that Size() and the uint64 duration accumulator,
   whose wrap the model writes out, do not wrap: a file of 16 EiB).  Sizes are Size() values: that a
   box encodes to Size() bytes is C02's statement. *)
Theorem C12_sidx_tiles : forall (f : file) (add nz : bool) (newtag : N) (f' : file) (out : list topbox),
  update_sidx f add nz newtag = Ok f' ->
  (add = true \/ f_sidxs f <> []) ->
  encode_segment_mode f' = Ok out ->
  Forall (fun s => seg_size s < M64) (f_segs f) ->
  exists sx rest moov rt,
    f_sidxs f' = sx :: rest /\ f_moov f = Some moov /\ find_reference_trak (b_traks moov) = Ok rt /\
    let refs := b_refs (sx_box sx) in
    let segs := f_segs f' in
    length refs = length segs /\ segs = f_segs f /\ segs <> [] /\
    (forall i, (i <= length segs)%nat ->
       let before := init_boxes f' ++ map sx_box (f_sidxs f') ++ concat (map seg_boxes (firstn i segs)) in
       out = before ++ concat (map seg_boxes (skipn i segs)) ++ opt_list (f_mfra f') /\
       anchor_in_output f' sx + sumN (firstn i (map r_size refs)) = sizes_of before) /\
    Forall2 (fun r s => r_size r = seg_size s /\ r_size r < M31 /\ r_type r = 0 /\
                        dec_ref_word (enc_ref_word r) = (0, seg_size s) /\
                        r_dur r = seg_ref_dur (k_id rt) s mod M64 /\ r_dur r < M32) refs segs /\
    b_refid (sx_box sx) = k_id rt /\ b_timescale (sx_box sx) = k_timescale rt.
Proof. exact sidx_tiles. Qed.
Print Assumptions C12_sidx_tiles.

(* The text before 85561e1 (uint32 accumulator, uint32(seg.Size())): a segment of 2^31 + 100 bytes got
   a reference that reads back as type 1 (a reference to another sidx) of 100 bytes; two samples of
   3*10^9 ticks (5 minutes each at the 10 MHz Smooth Streaming timescale) a duration of 1705032704
   instead of 6*10^9; both without an error.  The repaired text returns an error for both files.
   Replayed on the real code: known_findings/C12.json C12-F6. *)
Theorem C12_sidx_pinned_refuted :
  (exists f, assemble (mkOpts false false) p_big = Ok f /\ map seg_size (f_segs f) = [2147483748] /\
             first_ref (update_sidx_pinned f true false 9) = Some ((1, 100), 10) /\
             update_sidx f true false 9 = Err) /\
  (exists f, assemble (mkOpts false false) p_long = Ok f /\ map (seg_ref_dur 1) (f_segs f) = [6000000000] /\
             first_ref (update_sidx_pinned f true false 9) = Some ((0, 116), 1705032704) /\
             update_sidx f true false 9 = Err).
Proof. exact sidx_pinned_refuted. Qed.
Print Assumptions C12_sidx_pinned_refuted.

(* earliest_presentation_time: exactly what UpdateSidx writes (repo commit 48b8dea).  Version 1 (64-bit field);
   0 unless nonZeroEPT; with nonZeroEPT seg_pt of the first segment: the presentation time - tfdt base time of
   its traf + its composition time offset (signed: trun version 1), as Go's uint64(int64(base) + cto), i.e.
   mod 2^64 - of the FIRST SAMPLE of the reference track in the first segment, in whichever fragment, track
   fragment and trun that sample sits (fragments without the reference track, trafs without samples and empty
   truns in front of it are skipped); if the track has trafs but no sample in the segment, the base time of the
   first of them; if the segment does not hold the track, 0.  Not claimed: that this is the minimum over all
   samples (it is when no later sample is presented before the first one, e.g. closed GOPs). *)
Theorem C12_sidx_ept : forall (f : file) (add nz : bool) (newtag : N) (f' : file),
  update_sidx f add nz newtag = Ok f' ->
  (add = true \/ f_sidxs f <> []) ->
  exists sx rest moov rt s0 srest,
    f_sidxs f' = sx :: rest /\ f_moov f = Some moov /\ find_reference_trak (b_traks moov) = Ok rt /\
    f_segs f = s0 :: srest /\
    b_version (sx_box sx) = 1 /\
    b_ept (sx_box sx) = (if nz then seg_pt (k_id rt) s0 else 0) /\
    (forall before t after,
        ref_trafs (k_id rt) s0 = before ++ t :: after ->
        forallb (fun u => negb (traf_has_sample u)) before = true -> traf_has_sample t = true ->
        seg_pt (k_id rt) s0 = pt_of (t_base t) (t_cto0 t)).
Proof. exact sidx_ept. Qed.
Print Assumptions C12_sidx_ept.

(* The text before 48b8dea looked at the first fragment and the first trun only.  `ftyp moov(video 1, audio 2) styp
   moof(audio) mdat moof(video: base 90000, first offset 3000) mdat`: it wrote 0 although a non-zero time was asked
   for (now 93000); a video traf whose first trun is empty: it wrote the DECODE time 90000 (now 93000); and a negative
   offset (-3000) gives 87000, nonZeroEPT = false gives 0.  Replayed on the real code: known_findings/C12.json C12-F7. *)
Theorem C12_sidx_ept_pinned_refuted :
  (exists f, assemble (mkOpts false false) e_late = Ok f /\ map (seg_pt 1) (f_segs f) = [93000] /\
             ept_of (update_sidx_eptold f true true 9) = Some 0 /\ ept_of (update_sidx f true true 9) = Some 93000) /\
  (exists f, assemble (mkOpts false false) e_trun2 = Ok f /\ map (seg_pt 1) (f_segs f) = [93000] /\
             ept_of (update_sidx_eptold f true true 9) = Some 90000 /\ ept_of (update_sidx f true true 9) = Some 93000) /\
  (exists f, assemble (mkOpts false false) e_neg = Ok f /\
             ept_of (update_sidx f true true 9) = Some 87000 /\ ept_of (update_sidx f true false 9) = Some 0).
Proof. exact sidx_ept_pinned_refuted. Qed.
Print Assumptions C12_sidx_ept_pinned_refuted.

(* Which track is "the reference track": the first video track of the moov, else the first audio
   track, else the first track - by position in the moov, not by track id; None of the three exists
   only for a moov without trak (Panic in the model: Go indexes Traks[0]). *)
Theorem C12_reference_track : forall (traks : list trak),
  match find_reference_trak traks with
  | Ok rt =>
      exists before after, traks = before ++ rt :: after /\
        ((k_handler rt = 0 /\ Forall (fun k => k_handler k <> 0) before) \/
         (k_handler rt = 1 /\ Forall (fun k => k_handler k <> 0) traks /\ Forall (fun k => k_handler k <> 1) before) \/
         (before = [] /\ Forall (fun k => k_handler k <> 0 /\ k_handler k <> 1) traks))
  | Panic => traks = []
  | _ => False
  end.
Proof. exact reference_track_spec. Qed.
Print Assumptions C12_reference_track.

(* ---------------------------------------------------------------- the hypotheses are satisfiable *)
(* ftyp moov styp moof mdat moof mdat styp moof mdat: two segments of 2 and 1 fragments, track 2 is video *)
Definition bx (k : kind) (size : N) : topbox := mkBox k 0 size 8 0 [] false [] false [] [] 0 0 0 0.
Definition ex_moov : topbox :=
  mkBox KMoov 0 600 8 0 [] true [] false [] [mkTrak 1 1 1000 true; mkTrak 2 0 2000 true] 0 0 0 0.
Definition ex_moof (base : N) (durs : list N) : topbox :=
  mkBox KMoof 0 100 8 0 [] false [] false [mkTraf 1 base [[5; 5]] 0; mkTraf 2 base [durs] 7] [] 0 0 0 0.
Definition ex_boxes : list topbox :=
  number_from 0 [bx KFtyp 24; ex_moov; bx KStyp 24; ex_moof 0 [10; 20]; bx KMdat 50; ex_moof 30 [30]; bx KMdat 40;
                 bx KStyp 24; ex_moof 60 [40; 2]; bx KMdat 60].

Example C12_example_partition :
  match assemble (mkOpts false false) ex_boxes with
  | Ok f => map (fun s => map (fun fr => map b_tag (fr_children fr)) (sg_frags s)) (f_segs f)
            = [[[3; 4]; [5; 6]]; [[8; 9]]]
            /\ map sg_start (f_segs f) = [624; 938]
  | _ => False
  end.
Proof. vm_compute. split; reflexivity. Qed.

(* a top-level sidx with two references (314 and 184 bytes) delimits the same file without styp boxes *)
Definition ex_sidx : topbox :=
  mkBox KSidx 0 64 8 0 [mkRef 0 290 60; mkRef 0 160 42] false [] false [] [] 1 2 2000 0.
Definition ex_boxes_sidx : list topbox :=
  number_from 0 [bx KFtyp 24; ex_moov; ex_sidx; ex_moof 0 [10; 20]; bx KMdat 50; ex_moof 30 [30]; bx KMdat 40;
                 ex_moof 60 [40; 2]; bx KMdat 60].

Example C12_example_boundaries :
  boundaries false None bstate0 0 ex_boxes = [(624, true); (938, true)] /\
  boundaries false None bstate0 0 ex_boxes_sidx = [(688, false); (978, false)] /\
  boundaries true None bstate0 0 (skipn 3 ex_boxes_sidx) = [(0, false); (150, false); (290, false)] /\
  match assemble (mkOpts false false) ex_boxes_sidx with
  | Ok f => map sg_start (f_segs f) = [688; 978]
  | _ => False
  end.
Proof. vm_compute. repeat split; reflexivity. Qed.

Example C12_example_tiles :
  match assemble (mkOpts false false) ex_boxes with
  | Ok f =>
      match update_sidx f true true 10 with
      | Ok f' =>
          match f_sidxs f', encode_segment_mode f' with
          | [sx], Ok out =>
              map (fun r => (r_size r, r_dur r)) (b_refs (sx_box sx)) = [(314, 60); (184, 42)] /\
              b_ept (sx_box sx) = 7 /\ b_refid (sx_box sx) = 2 /\
              anchor_in_output f' sx = 688 /\ map b_tag out = [0; 1; 10; 2; 3; 4; 5; 6; 7; 8; 9] /\
              sizes_of out = 688 + 314 + 184
          | _, _ => False
          end
      | _ => False
      end
  | _ => False
  end.
Proof. vm_compute. repeat split; reflexivity. Qed.

(* ftyp moov sidx styp sidx emsg moof mdat emsg moof mdat mfra, both decode flags set: satisfies every
   hypothesis of C12_reencode_identical *)
Example C12_example_reencode :
  layout_ok ok_boxes = true /\ forallb (stable ok_env) ok_boxes = true /\ doffs_ok ok_env ok_boxes = true /\
  all_ok (map (in0 ok_env) ok_boxes) /\
  exists f out, assemble (mkOpts true true) ok_boxes = Ok f /\ encode_segment_mode f = Ok out /\
                length (f_segs f) = 1%nat /\ lenN (concat (map (in0 ok_env) ok_boxes)) = 268.
Proof. exact reencode_example. Qed.

(* three tracks, the reference track (first video = id 7) is the LAST trak and its traf comes second / is absent *)
Example C12_example_reference_track :
  find_reference_trak [mkTrak 3 1 48000 true; mkTrak 9 2 1000 true; mkTrak 7 0 90000 true] = Ok (mkTrak 7 0 90000 true) /\
  seg_ref_dur 7 (mkSeg None 0 [] [mkFrag 0 [] (Some (mkBox KMoof 0 100 8 0 [] false [] false
                     [mkTraf 3 0 [[5; 5]] 0; mkTraf 7 0 [[10]; []; [20; 30]] 0] [] 0 0 0 0)) None;
                   mkFrag 0 [] (Some (mkBox KMoof 1 100 8 0 [] false [] false [mkTraf 9 0 [[1]] 0] [] 0 0 0 0)) None]) = 60.
Proof. split; reflexivity. Qed.

(* `styp moof mdat` exactly as the library writes them (NewStyp; CreateFragment(7, 1) + two samples, trun version 1 with a
   composition offset, data offset 124 at byte 80 of the moof): every hypothesis of C12_reencode_identical_c01 holds, each
   box is c01_plain by running C01's decoder on its bytes *)
Example C12_example_reencode_c01 :
  (forall b, In b x_boxes -> c01_box (x_inb (b_tag b))) /\
  layout_ok x_boxes = true /\ doffs_ok (c01_env x_inb x_doff) x_boxes = true /\
  all_ok (map (fun b => x_inb (b_tag b)) x_boxes) /\
  exists f out, assemble (mkOpts false false) x_boxes = Ok f /\ encode_segment_mode f = Ok out /\
                lenN (concat (map (fun b => x_inb (b_tag b)) x_boxes)) = 152.
Proof. exact reencode_c01_example. Qed.

(* the same `styp moof mdat` written by the library satisfies the hypotheses of C12_partition_bytes(_pair), and C05's reader
   decodes its moof (sequence number 7, one traf) and finds the mdat header of 8 bytes *)
Example C12_example_partition_bytes :
  sized (c01_env x_inb x_doff) x_boxes /\ sumN (map b_size x_boxes) = 152 /\ layout_ok x_boxes = true /\
  (exists body, C05SegCodecModel.next_box x_moof = Ok (C05SegCodecModel.T_MOOF, 116, 8, body, []) /\
     match C05SegCodecModel.dec_top_box C05SegCodecModel.T_MOOF 116 8 body with
     | Ok (C05SegCodecModel.BMoof 116 m) => C05SegCodecModel.dm_seq m = Some 7 /\ length (C05SegCodecModel.dm_trafs m) = 1%nat
     | _ => False
     end) /\
  (exists body, C05SegCodecModel.next_box x_mdat = Ok (C05SegCodecModel.T_MDAT, 16, 8, body, []) /\ body = [1; 2; 3; 0; 1; 2; 3; 1]).
Proof.
  split; [repeat constructor|]. split; [reflexivity|]. split; [reflexivity|]. split.
  - eexists. split; [vm_compute; reflexivity|]. vm_compute. split; reflexivity.
  - eexists. split; vm_compute; reflexivity.
Qed.

(* `styp moof mdat` at position 100 behind an init segment, moof/mdat = C05's witness fragment: all hypotheses of
   C12_c05_segment_decode hold; the one fragment has its moof at 124 and its payload at 232 *)
Example C12_example_c05 :
  C05SegModel.head_ok sim_head = true /\ forallb C05SegProofs.item_kinds sim_its = true /\
  map (to_tbox sim_trafs sim_payload) sim_boxes = C05SegModel.seg_stream sim_head sim_its /\
  forallb seg_kind sim_boxes = true /\ Forall (mdat_ok sim_payload) sim_boxes /\ positions_ok sim_pos 100 sim_boxes /\
  exists f, decode_loop (file0 true) 100 None sim_boxes = Ok f /\
            C05SegModel.file_frags (view sim_trafs sim_payload sim_pos f) =
              [C05SegModel.mkDfr (Some (124, sim_trafs 0)) (Some (232, [7]))].
Proof. exact sim_example. Qed.
