(* Extraction of the C12 models for the correspondence check. ExtrOcamlBasic only. *)
From V.lib Require Import Base.
From V.c12 Require Import C12Model C12Spec C12Sidx C12Bytes C12C01Model.
Require Import ExtrOcamlBasic.
Separate Extraction
  kind sref tfra traf topbox sidx fragment segment file opts
  assemble add_children empty_file encode_file encode_segment_mode
  frag_media sidx_starts
  update_sidx update_sidx_pinned seg_size enc_ref_word dec_ref_word u32
  binfo file_bytes reencode layout_ok c01_reenc.
