(* C02AggWfProofs.v — the predicates the extracted model evaluates on the correspondence cases (C02AggWfModel) ARE the
   hypotheses the aggregate theorems are stated with. *)
From V.lib Require Import Base.
From V.c05 Require Import C05Model C05FragModel C05CodecModel.
From V.c02 Require Import C02AggModel C02AggSencModel C02AggWfModel C02AggSizeProofs C02AggFragProofs C02AggFileProofs
  C02AggSencProofs.

Lemma x_wf_eq :
  (forall fr, x_afrag_wf fr = afrag_wf fr) /\ (forall s, x_aseg_wf s = aseg_wf s) /\ (forall i, x_obs_wf i = obs_wf i) /\
  (forall f, x_afile_wf f = afile_wf f) /\ (forall s, x_senc_ok s = senc_ok s).
Proof. repeat split; intros; reflexivity. Qed.
