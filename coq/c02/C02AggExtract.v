(* Extraction of the aggregate model of C02 for the correspondence check. ExtrOcamlBasic only. *)
From V.lib Require Import Base.
From V.c05 Require Import C05Model C05FragModel C05CodecModel.
From V.c02 Require Import C02AggModel C02AggSencModel C02AggCapModel C02AggWfModel.
Require Import ExtrOcamlBasic.
Separate Extraction
  nat sample trun tfhd tfdt mdat obox tchild mchild afrag aseg fchild afile aop aout
  afrag_step aseg_step ainit_step afile_step run_hist ob_wf afile_seg_mode
  senc senc_create senc_add senc_size senc_encode_w senc_encode_sw senc_info senc_decode senc_parse
  xop afrag_xstep aseg_xstep ainit_xstep afile_xstep payload_starts out_payload_starts
  x_afrag_wf x_aseg_wf x_obs_wf x_afile_wf x_senc_ok.
