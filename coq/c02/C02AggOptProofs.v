(* C02AggOptProofs.v — the two state changes of Fragment.Encode on the ordered tree:
   OptimizeTfhdTrun reaches a state it leaves alone (`optimised`), SetTrunDataOffsets changes data offsets only
   (`moof_dv`), keeps every size and is idempotent. *)
From V.lib Require Import Base.
From V.c05 Require Import C05Model C05FragModel C05CodecModel C05OptProofs.
From V.c02 Require Import C02AggModel C02AggSizeProofs.

(* ------------------------------------------------------------------ optimize: what a second run sees *)
Definition alleq_dur (ss : list sample) : bool :=
  match ss with [] => true | s0 :: _ => forallb (fun s => s_dur s =? s_dur s0) ss end.
Definition alleq_size (ss : list sample) : bool :=
  match ss with [] => true | s0 :: _ => forallb (fun s => s_size s =? s_size s0) ss end.
Definition alleq_flags (ss : list sample) : bool :=
  match ss with _ :: s1 :: _ => forallb (fun s => s_flags s =? s_flags s1) (tl ss) | _ => false end.
Definition all_cto0 (ss : list sample) : bool := forallb (fun s => Z.eqb (s_cto s) 0) ss.

(* nothing left for OptimizeTfhdTrun to do *)
Definition optimised (r : trun) : bool :=
  match tr_samples r with
  | [] => false
  | [_] => true
  | ss => negb (has_dur r && alleq_dur ss) && negb (has_size r && alleq_size ss)
          && negb (has_sflags r && alleq_flags ss)
          && negb (has_cto r && all_cto0 ss && ((N.of_nat (length ss) <=? MAX_BARE) || other_field r))
  end.

Lemma opt_dur_alt tf tr : opt_dur tf tr =
  match tr_samples tr with
  | [] => (tf, tr)
  | s0 :: _ => if has_dur tr && alleq_dur (tr_samples tr) then (tf_set_ddur tf (s_dur s0), tr_clear tr B_DUR) else (tf, tr)
  end.
Proof. unfold opt_dur, alleq_dur. destruct (tr_samples tr); reflexivity. Qed.

Lemma opt_size_alt tf tr : C05Model.opt_size tf tr =
  match tr_samples tr with
  | [] => (tf, tr)
  | s0 :: _ => if has_size tr && alleq_size (tr_samples tr) then (tf_set_dsize tf (s_size s0), tr_clear tr B_SIZE) else (tf, tr)
  end.
Proof. unfold C05Model.opt_size, alleq_size. destruct (tr_samples tr); reflexivity. Qed.

(* the four steps, as one record of facts about (tf', tr') = step tf tr *)
Record step_ok (bit : N) (tr tr' : trun) : Prop := {
  so_samples : tr_samples tr' = tr_samples tr;
  so_doff : tr_doff tr' = tr_doff tr;
  so_won : tr_won tr' = tr_won tr;
  so_version : tr_version tr' = tr_version tr;
  so_dur : bit <> B_DUR -> has_dur tr' = has_dur tr;
  so_size : bit <> B_SIZE -> has_size tr' = has_size tr;
  so_sflags : bit <> B_SFLAGS -> has_sflags tr' = has_sflags tr;
  so_cto : bit <> B_CTO -> has_cto tr' = has_cto tr;
  so_hdoff : has_doff tr' = has_doff tr }.

Lemma step_ok_refl bit tr : step_ok bit tr tr.
Proof. constructor; reflexivity. Qed.

Lemma opt_dur_step tf tr : step_ok B_DUR tr (snd (opt_dur tf tr)).
Proof.
  rewrite opt_dur_alt. destruct (tr_samples tr) eqn:E; [apply step_ok_refl|].
  destruct (has_dur tr && _); [|apply step_ok_refl]. cbn [snd].
  constructor; try reflexivity; intros; bits; try reflexivity; congruence.
Qed.

Lemma opt_size_step tf tr : step_ok B_SIZE tr (snd (C05Model.opt_size tf tr)).
Proof.
  rewrite opt_size_alt. destruct (tr_samples tr) eqn:E; [apply step_ok_refl|].
  destruct (has_size tr && _); [|apply step_ok_refl]. cbn [snd].
  constructor; try reflexivity; intros; bits; try reflexivity; congruence.
Qed.

Lemma opt_flags_step tf tr : step_ok B_SFLAGS tr (snd (opt_flags_gen true tf tr)).
Proof.
  unfold opt_flags_gen. destruct (tr_samples tr) as [|s0 [|s1 l]] eqn:E; try apply step_ok_refl.
  destruct (has_sflags tr && _); [|apply step_ok_refl].
  destruct (negb (s_flags s0 =? s_flags s1)); cbn [snd];
    (constructor; try reflexivity; intros; bits; try reflexivity; congruence).
Qed.

Lemma opt_cto_step tf tr : step_ok B_CTO tr (snd (opt_cto tf tr)).
Proof.
  unfold opt_cto. destruct (_ && _ && _); [|apply step_ok_refl]. cbn [snd].
  constructor; try reflexivity; intros; bits; try reflexivity; congruence.
Qed.

(* what each step establishes about its own bit *)
Lemma opt_dur_done tf tr : tr_samples tr <> [] ->
  has_dur (snd (opt_dur tf tr)) && alleq_dur (tr_samples tr) = false.
Proof.
  intros Hne. rewrite opt_dur_alt. destruct (tr_samples tr) eqn:E; [congruence|].
  destruct (has_dur tr && alleq_dur (s :: l)) eqn:C; cbn [snd]; [|exact C]. bits. reflexivity.
Qed.

Lemma opt_size_done tf tr : tr_samples tr <> [] ->
  has_size (snd (C05Model.opt_size tf tr)) && alleq_size (tr_samples tr) = false.
Proof.
  intros Hne. rewrite opt_size_alt. destruct (tr_samples tr) eqn:E; [congruence|].
  destruct (has_size tr && alleq_size (s :: l)) eqn:C; cbn [snd]; [|exact C]. bits. reflexivity.
Qed.

Lemma opt_flags_done tf tr :
  has_sflags (snd (opt_flags_gen true tf tr)) && alleq_flags (tr_samples tr) = false.
Proof.
  unfold opt_flags_gen, alleq_flags. destruct (tr_samples tr) as [|s0 [|s1 l]] eqn:E; try apply andb_false_r.
  destruct (has_sflags tr && forallb _ _) eqn:C; [|exact C].
  destruct (negb (s_flags s0 =? s_flags s1)); cbn [snd]; bits; reflexivity.
Qed.

(* the fourth block (repaired text, C05-F7): it leaves the field only when some offset is non-zero, or when the trun has
   more than MAX_BARE samples and no other per-sample field *)
Lemma opt_cto_done tf tr :
  has_cto (snd (opt_cto tf tr)) && all_cto0 (tr_samples tr)
  && ((N.of_nat (length (tr_samples tr)) <=? MAX_BARE) || other_field (snd (opt_cto tf tr))) = false.
Proof.
  unfold opt_cto, all_cto0. destruct (has_cto tr && forallb _ _ && _) eqn:C; cbn [snd]; [|exact C]. bits. reflexivity.
Qed.

(* (O1) the result of a successful optimisation is optimised *)
Lemma optimize_optimised tf tr tf' tr' : optimize tf tr = Ok (tf', tr') -> optimised tr' = true.
Proof.
  unfold optimize, FIXED_FSF, optimize_gen. destruct (tr_samples tr) as [|s0 [|s1 l]] eqn:E; [discriminate| |].
  - intros [= <- <-]. unfold optimised. rewrite E. reflexivity.
  - assert (Hne : tr_samples tr <> []) by (rewrite E; discriminate).
    pose proof (opt_dur_step tf tr) as S1. pose proof (opt_dur_done tf tr Hne) as D1.
    destruct (opt_dur tf tr) as [tf1 tr1]. cbn [snd] in *.
    assert (Hne1 : tr_samples tr1 <> []) by (rewrite (so_samples _ _ _ S1); exact Hne).
    pose proof (opt_size_step tf1 tr1) as S2. pose proof (opt_size_done tf1 tr1 Hne1) as D2.
    destruct (C05Model.opt_size tf1 tr1) as [tf2 tr2]. cbn [snd] in *.
    pose proof (opt_flags_step tf2 tr2) as S3. pose proof (opt_flags_done tf2 tr2) as D3.
    destruct (opt_flags_gen true tf2 tr2) as [tf3 tr3]. cbn [snd] in *.
    pose proof (opt_cto_step tf3 tr3) as S4. pose proof (opt_cto_done tf3 tr3) as D4.
    intros [= H]. rewrite H in S4, D4. cbn [snd] in *.
    assert (Es : tr_samples tr' = s0 :: s1 :: l).
    { rewrite (so_samples _ _ _ S4), (so_samples _ _ _ S3), (so_samples _ _ _ S2), (so_samples _ _ _ S1). exact E. }
    unfold optimised. rewrite Es.
    rewrite (so_dur _ _ _ S4), (so_dur _ _ _ S3), (so_dur _ _ _ S2) by (unfold B_DUR, B_SIZE, B_SFLAGS, B_CTO; discriminate).
    rewrite (so_size _ _ _ S4), (so_size _ _ _ S3) by (unfold B_DUR, B_SIZE, B_SFLAGS, B_CTO; discriminate).
    rewrite (so_sflags _ _ _ S4) by (unfold B_DUR, B_SIZE, B_SFLAGS, B_CTO; discriminate).
    rewrite (so_samples _ _ _ S3), (so_samples _ _ _ S2), (so_samples _ _ _ S1), E in D4.
    rewrite (so_samples _ _ _ S2), (so_samples _ _ _ S1), E in D3.
    rewrite (so_samples _ _ _ S1), E in D2. rewrite E in D1.
    rewrite D1, D2, D3, D4. reflexivity.
Qed.

(* (O2) an optimised trun is left alone, whatever the tfhd *)
Lemma optimised_fix tf tr : optimised tr = true -> optimize tf tr = Ok (tf, tr).
Proof.
  unfold optimised, optimize, FIXED_FSF, optimize_gen.
  destruct (tr_samples tr) as [|s0 [|s1 l]] eqn:E; [discriminate|reflexivity|].
  intros H. apply andb_true_iff in H. destruct H as [H H4]. apply andb_true_iff in H. destruct H as [H H3].
  apply andb_true_iff in H. destruct H as [H1 H2].
  apply negb_true_iff in H1, H2, H3, H4.
  rewrite opt_dur_alt, E, H1. rewrite opt_size_alt, E, H2.
  unfold opt_flags_gen. rewrite E. unfold alleq_flags in H3. rewrite H3.
  unfold opt_cto. unfold all_cto0 in H4. rewrite E, H4. reflexivity.
Qed.

(* (O3) the data offset plays no role *)
Lemma optimised_doff r d : optimised (tr_with_doff r d) = optimised r.
Proof. reflexivity. Qed.

(* the trun that comes out differs in flags and first-sample-flags only *)
Lemma optimize_keeps tf tr tf' tr' : optimize tf tr = Ok (tf', tr') ->
  tr_samples tr' = tr_samples tr /\ tr_doff tr' = tr_doff tr /\ tr_won tr' = tr_won tr /\ has_doff tr' = has_doff tr.
Proof.
  unfold optimize, FIXED_FSF, optimize_gen. destruct (tr_samples tr) as [|s0 [|s1 l]] eqn:E; [discriminate| |].
  - intros [= <- <-]. rewrite <- E. repeat split; reflexivity.
  - pose proof (opt_dur_step tf tr) as S1. destruct (opt_dur tf tr) as [tf1 tr1]. cbn [snd] in *.
    pose proof (opt_size_step tf1 tr1) as S2. destruct (C05Model.opt_size tf1 tr1) as [tf2 tr2]. cbn [snd] in *.
    pose proof (opt_flags_step tf2 tr2) as S3. destruct (opt_flags_gen true tf2 tr2) as [tf3 tr3]. cbn [snd] in *.
    pose proof (opt_cto_step tf3 tr3) as S4. intros [= H]. rewrite H in S4. cbn [snd] in *. rewrite <- E.
    repeat split.
    + rewrite (so_samples _ _ _ S4), (so_samples _ _ _ S3), (so_samples _ _ _ S2). apply (so_samples _ _ _ S1).
    + rewrite (so_doff _ _ _ S4), (so_doff _ _ _ S3), (so_doff _ _ _ S2). apply (so_doff _ _ _ S1).
    + rewrite (so_won _ _ _ S4), (so_won _ _ _ S3), (so_won _ _ _ S2). apply (so_won _ _ _ S1).
    + rewrite (so_hdoff _ _ _ S4), (so_hdoff _ _ _ S3), (so_hdoff _ _ _ S2). apply (so_hdoff _ _ _ S1).
Qed.

(* ------------------------------------------------------------------ traf: the pointers Tfhd and Trun *)
Lemma truns_upd_last_tfhd h t : atraf_truns (upd_last_tfhd h t) = atraf_truns t.
Proof.
  induction t as [|c rest IH]; [reflexivity|]. destruct c as [h0|d|r|o]; cbn [upd_last_tfhd].
  - destruct (last_tfhd rest); cbn [atraf_truns flat_map tc_truns app]; [exact IH|reflexivity].
  - cbn [atraf_truns flat_map tc_truns app]. exact IH.
  - cbn [atraf_truns flat_map tc_truns app]. f_equal. exact IH.
  - cbn [atraf_truns flat_map tc_truns app]. exact IH.
Qed.

Lemma truns_upd_first_trun r' t r rs : atraf_truns t = r :: rs -> atraf_truns (upd_first_trun r' t) = r' :: rs.
Proof.
  induction t as [|c rest IH]; [discriminate|]. destruct c as [h0|d|r0|o]; cbn [upd_first_trun atraf_truns flat_map tc_truns app];
    intros H; try (apply IH; exact H).
  injection H as _ <-. reflexivity.
Qed.

Lemma last_tfhd_upd_first_trun r' t : last_tfhd (upd_first_trun r' t) = last_tfhd t.
Proof.
  induction t as [|c rest IH]; [reflexivity|]. destruct c as [h0|d|r0|o]; cbn [upd_first_trun last_tfhd]; try rewrite IH; reflexivity.
Qed.

Lemma upd_first_trun_same t r rs : atraf_truns t = r :: rs -> upd_first_trun r t = t.
Proof.
  induction t as [|c rest IH]; [discriminate|]. destruct c as [h0|d|r0|o]; cbn [upd_first_trun atraf_truns flat_map tc_truns app];
    intros H; try (f_equal; apply IH; exact H).
  injection H as -> _. reflexivity.
Qed.

Lemma upd_last_tfhd_same t h : last_tfhd t = Some h -> upd_last_tfhd h t = t.
Proof.
  induction t as [|c rest IH]; [discriminate|]. destruct c as [h0|d|r0|o]; cbn [upd_last_tfhd last_tfhd];
    intros H; try (f_equal; apply IH; exact H).
  destruct (last_tfhd rest) as [x|] eqn:E.
  - f_equal. apply IH. exact H.
  - injection H as ->. reflexivity.
Qed.

Lemma wf_upd_first_trun r' t : atraf_wf (upd_first_trun r' t) = atraf_wf t.
Proof.
  induction t as [|c rest IH]; [reflexivity|]. destruct c as [h0|d|r0|o]; cbn [upd_first_trun atraf_wf forallb tc_wf];
    try (fold (atraf_wf (upd_first_trun r' rest)); fold (atraf_wf rest); rewrite IH); reflexivity.
Qed.

Lemma wf_upd_last_tfhd h t : atraf_wf (upd_last_tfhd h t) = atraf_wf t.
Proof.
  induction t as [|c rest IH]; [reflexivity|]. destruct c as [h0|d|r0|o]; cbn [upd_last_tfhd].
  - destruct (last_tfhd rest); cbn [atraf_wf forallb tc_wf]; [exact IH|reflexivity].
  - cbn [atraf_wf forallb tc_wf]. exact IH.
  - cbn [atraf_wf forallb tc_wf]. exact IH.
  - cbn [atraf_wf forallb tc_wf]. fold (atraf_wf (upd_last_tfhd h rest)). fold (atraf_wf rest). rewrite IH. reflexivity.
Qed.

Definition traf_optimised (t : atraf) : bool :=
  match atraf_truns t with [] => true | r :: _ => optimised r end.

(* (T1) *)
Lemma optimize_traf_optimised t t' : optimize_traf t = Ok t' -> traf_optimised t' = true.
Proof.
  unfold optimize_traf, traf_optimised. destruct (atraf_truns t) as [|r rs] eqn:E.
  - intros [= <-]. rewrite E. reflexivity.
  - destruct (last_tfhd t) as [h|].
    + destruct (optimize h r) as [[h' r']| | |] eqn:O; try discriminate. cbn [rbind fst snd]. intros [= <-].
      rewrite truns_upd_last_tfhd, (truns_upd_first_trun r' t r rs E). eapply optimize_optimised. exact O.
    + destruct (optimize NIL_TFHD r) as [[h' r']| | |] eqn:O; try discriminate. cbn [rbind fst snd].
      destruct (tf_flags h' =? 0); [|discriminate]. intros [= <-].
      rewrite (truns_upd_first_trun r' t r rs E). eapply optimize_optimised. exact O.
Qed.

(* (T2) *)
Lemma traf_optimised_fix t : traf_optimised t = true -> optimize_traf t = Ok t.
Proof.
  unfold optimize_traf, traf_optimised. destruct (atraf_truns t) as [|r rs] eqn:E; [reflexivity|]. intros H.
  destruct (last_tfhd t) as [h|] eqn:L.
  - rewrite (optimised_fix h r H). cbn [rbind fst snd].
    rewrite (upd_first_trun_same t r rs E), (upd_last_tfhd_same t h L). reflexivity.
  - rewrite (optimised_fix NIL_TFHD r H). cbn [rbind fst snd NIL_TFHD tf_flags N.eqb].
    rewrite (upd_first_trun_same t r rs E). reflexivity.
Qed.

Lemma optimize_traf_wf t t' : optimize_traf t = Ok t' -> atraf_wf t' = atraf_wf t.
Proof.
  unfold optimize_traf. destruct (atraf_truns t) as [|r rs] eqn:E; [intros [= <-]; reflexivity|].
  destruct (last_tfhd t) as [h|].
  - destruct (optimize h r) as [[h' r']| | |]; try discriminate. cbn [rbind fst snd]. intros [= <-].
    rewrite wf_upd_last_tfhd, wf_upd_first_trun. reflexivity.
  - destruct (optimize NIL_TFHD r) as [[h' r']| | |]; try discriminate. cbn [rbind fst snd].
    destruct (tf_flags h' =? 0); [|discriminate]. intros [= <-]. apply wf_upd_first_trun.
Qed.

(* ------------------------------------------------------------------ moof *)
Fixpoint moof_optimised (m : amoof) : bool :=
  match m with
  | [] => true
  | McTraf t :: _ => traf_optimised t
  | _ :: rest => moof_optimised rest
  end.

Lemma optimize_moof_optimised m : forall m', optimize_moof m = Ok m' -> moof_optimised m' = true.
Proof.
  induction m as [|c rest IH]; intros m' H.
  - injection H as <-. reflexivity.
  - destruct c as [s|t|o]; cbn [optimize_moof] in H.
    + destruct (optimize_moof rest) as [r| | |]; try discriminate. cbn [rbind] in H. injection H as <-.
      cbn [moof_optimised]. apply IH. reflexivity.
    + destruct (optimize_traf t) as [t'| | |] eqn:O; try discriminate. cbn [rbind] in H. injection H as <-.
      cbn [moof_optimised]. eapply optimize_traf_optimised. exact O.
    + destruct (optimize_moof rest) as [r| | |]; try discriminate. cbn [rbind] in H. injection H as <-.
      cbn [moof_optimised]. apply IH. reflexivity.
Qed.

Lemma moof_optimised_fix m : moof_optimised m = true -> optimize_moof m = Ok m.
Proof.
  induction m as [|c rest IH]; [reflexivity|]. destruct c as [s|t|o]; cbn [moof_optimised optimize_moof]; intros H.
  - rewrite (IH H). reflexivity.
  - rewrite (traf_optimised_fix t H). reflexivity.
  - rewrite (IH H). reflexivity.
Qed.

Lemma optimize_moof_wf m : forall m', optimize_moof m = Ok m' -> amoof_wf m' = amoof_wf m.
Proof.
  induction m as [|c rest IH]; intros m' H.
  - injection H as <-. reflexivity.
  - destruct c as [s|t|o]; cbn [optimize_moof] in H.
    + destruct (optimize_moof rest) as [r| | |]; try discriminate. cbn [rbind] in H. injection H as <-.
      cbn [amoof_wf forallb]. f_equal. apply IH. reflexivity.
    + destruct (optimize_traf t) as [t'| | |] eqn:O; try discriminate. cbn [rbind] in H. injection H as <-.
      cbn [amoof_wf forallb mc_wf]. rewrite (optimize_traf_wf t t' O). reflexivity.
    + destruct (optimize_moof rest) as [r| | |]; try discriminate. cbn [rbind] in H. injection H as <-.
      cbn [amoof_wf forallb]. f_equal. apply IH. reflexivity.
Qed.

(* ------------------------------------------------------------------ trees that differ in data offsets only *)
Definition dv (r r' : trun) : Prop := r' = tr_with_doff r (tr_doff r').

Lemma dv_refl r : dv r r.
Proof. unfold dv. destruct r; reflexivity. Qed.

Lemma dv_with r d : dv r (tr_with_doff r d).
Proof. reflexivity. Qed.

Lemma dv_size r r' : dv r r' -> trun_size r' = trun_size r.
Proof. intros ->. reflexivity. Qed.
Lemma dv_won r r' : dv r r' -> tr_won r' = tr_won r.
Proof. intros ->. reflexivity. Qed.
Lemma dv_sod r r' : dv r r' -> size_of_data r' = size_of_data r.
Proof. intros ->. reflexivity. Qed.
Lemma dv_optimised r r' : dv r r' -> optimised r' = optimised r.
Proof. intros ->. reflexivity. Qed.

Definition tc_dv (c c' : tchild) : Prop :=
  match c, c' with TcTrun r, TcTrun r' => dv r r' | _, _ => c' = c end.
Definition traf_dv (t t' : atraf) : Prop := Forall2 tc_dv t t'.
Definition mc_dv (c c' : mchild) : Prop :=
  match c, c' with McTraf t, McTraf t' => traf_dv t t' | _, _ => c' = c end.
Definition moof_dv (m m' : amoof) : Prop := Forall2 mc_dv m m'.

Lemma traf_dv_refl t : traf_dv t t.
Proof. induction t as [|c r IH]; constructor; [|exact IH]. destruct c; cbn [tc_dv]; try reflexivity. apply dv_refl. Qed.
Lemma moof_dv_refl m : moof_dv m m.
Proof. induction m as [|c r IH]; constructor; [|exact IH]. destruct c; cbn [mc_dv]; try reflexivity. apply traf_dv_refl. Qed.

Lemma traf_dv_sizes t t' : traf_dv t t' -> map tc_size t' = map tc_size t.
Proof.
  induction 1 as [|c c' r r' H _ IH]; [reflexivity|]. cbn [map]. rewrite IH. f_equal.
  destruct c, c'; cbn [tc_dv] in H; try discriminate H; try (injection H as H; subst; reflexivity). cbn [tc_size]. apply dv_size. exact H.
Qed.

Lemma traf_dv_size t t' : traf_dv t t' -> atraf_size t' = atraf_size t.
Proof. intros H. unfold atraf_size. rewrite (traf_dv_sizes t t' H). reflexivity. Qed.

Lemma traf_dv_wf t t' : traf_dv t t' -> atraf_wf t' = atraf_wf t.
Proof.
  induction 1 as [|c c' r r' H _ IH]; [reflexivity|]. cbn [atraf_wf forallb].
  fold (atraf_wf r'). fold (atraf_wf r). rewrite IH. f_equal.
  destruct c, c'; cbn [tc_dv] in H; try discriminate H; try (injection H as H; subst; reflexivity). reflexivity.
Qed.

Lemma traf_dv_truns t t' : traf_dv t t' -> Forall2 dv (atraf_truns t) (atraf_truns t').
Proof.
  induction 1 as [|c c' r r' H _ IH]; [constructor|]. unfold atraf_truns. cbn [flat_map].
  destruct c, c'; cbn [tc_dv] in H; try discriminate; try (injection H as <-); cbn [tc_truns app]; try exact IH.
  constructor; [exact H|exact IH].
Qed.

Lemma traf_dv_last_tfhd t t' : traf_dv t t' -> last_tfhd t' = last_tfhd t.
Proof.
  induction 1 as [|c c' r r' H _ IH]; [reflexivity|].
  destruct c, c'; cbn [tc_dv] in H; try discriminate; try (injection H as <-); cbn [last_tfhd]; rewrite ?IH; reflexivity.
Qed.

Lemma traf_dv_optimised t t' : traf_dv t t' -> traf_optimised t' = traf_optimised t.
Proof.
  intros H. apply traf_dv_truns in H. unfold traf_optimised. destruct H as [|r r' ? ? D _]; [reflexivity|].
  apply dv_optimised. exact D.
Qed.

Lemma moof_dv_sizes m m' : moof_dv m m' -> map mc_size m' = map mc_size m.
Proof.
  induction 1 as [|c c' r r' H _ IH]; [reflexivity|]. cbn [map]. rewrite IH. f_equal.
  destruct c, c'; cbn [mc_dv] in H; try discriminate H; try (injection H as H; subst; reflexivity). cbn [mc_size]. apply traf_dv_size. exact H.
Qed.

Lemma moof_dv_size m m' : moof_dv m m' -> amoof_size m' = amoof_size m.
Proof. intros H. unfold amoof_size. rewrite (moof_dv_sizes m m' H). reflexivity. Qed.

Lemma moof_dv_wf m m' : moof_dv m m' -> amoof_wf m' = amoof_wf m.
Proof.
  induction 1 as [|c c' r r' H _ IH]; [reflexivity|]. cbn [amoof_wf forallb].
  fold (amoof_wf r'). fold (amoof_wf r). rewrite IH. f_equal.
  destruct c, c'; cbn [mc_dv] in H; try discriminate H; try (injection H as H; subst; reflexivity). cbn [mc_wf]. apply traf_dv_wf. exact H.
Qed.

Lemma moof_dv_truns m m' : moof_dv m m' -> Forall2 dv (amoof_truns m) (amoof_truns m').
Proof.
  induction 1 as [|c c' r r' H _ IH]; [constructor|]. unfold amoof_truns. cbn [flat_map].
  destruct c, c'; cbn [mc_dv] in H; try discriminate; try (injection H as <-); cbn [mc_truns app]; try exact IH.
  apply Forall2_app; [apply traf_dv_truns; exact H|exact IH].
Qed.

Lemma moof_dv_optimised m m' : moof_dv m m' -> moof_optimised m' = moof_optimised m.
Proof.
  induction 1 as [|c c' r r' H _ IH]; [reflexivity|].
  destruct c, c'; cbn [mc_dv] in H; try discriminate; try (injection H as <-); cbn [moof_optimised]; try exact IH.
  apply traf_dv_optimised. exact H.
Qed.

(* ------------------------------------------------------------------ putting truns back *)
Lemma put_traf t : forall rs1 rest, Forall2 dv (atraf_truns t) rs1 ->
  snd (put_truns_traf t (rs1 ++ rest)) = rest /\ traf_dv t (fst (put_truns_traf t (rs1 ++ rest))) /\
  atraf_truns (fst (put_truns_traf t (rs1 ++ rest))) = rs1.
Proof.
  induction t as [|c tl IH]; intros rs1 rest H.
  - inversion H; subst. cbn [put_truns_traf fst snd app]. repeat split. constructor.
  - destruct c as [h|d|r|o]; unfold atraf_truns in H; cbn [flat_map tc_truns app] in H; cbn [put_truns_traf].
    + destruct (IH rs1 rest H) as (A & B & C). destruct (put_truns_traf tl (rs1 ++ rest)) as [t' k]. cbn [fst snd] in *.
      repeat split; [exact A|constructor; [reflexivity|exact B]|exact C].
    + destruct (IH rs1 rest H) as (A & B & C). destruct (put_truns_traf tl (rs1 ++ rest)) as [t' k]. cbn [fst snd] in *.
      repeat split; [exact A|constructor; [reflexivity|exact B]|exact C].
    + inversion H as [|? r' ? rs1' D F]; subst. cbn [app].
      destruct (IH rs1' rest F) as (A & B & C). destruct (put_truns_traf tl (rs1' ++ rest)) as [t' k]. cbn [fst snd] in *.
      repeat split; [exact A|constructor; [exact D|exact B]|].
      unfold atraf_truns. cbn [flat_map tc_truns app]. f_equal. exact C.
    + destruct (IH rs1 rest H) as (A & B & C). destruct (put_truns_traf tl (rs1 ++ rest)) as [t' k]. cbn [fst snd] in *.
      repeat split; [exact A|constructor; [reflexivity|exact B]|exact C].
Qed.

Lemma Forall2_app_split {A B} (R : A -> B -> Prop) l1 l2 l :
  Forall2 R (l1 ++ l2) l -> exists a b, l = a ++ b /\ Forall2 R l1 a /\ Forall2 R l2 b.
Proof.
  revert l. induction l1 as [|x t IH]; intros l H.
  - exists [], l. repeat split; [constructor|exact H].
  - inversion H as [|? y ? l' Hxy Ht]; subst. destruct (IH l' Ht) as (a & b & -> & Ha & Hb).
    exists (y :: a), b. repeat split; [constructor; assumption|exact Hb].
Qed.

Lemma put_moof m : forall rs1 rest, Forall2 dv (amoof_truns m) rs1 ->
  snd (put_truns_moof m (rs1 ++ rest)) = rest /\ moof_dv m (fst (put_truns_moof m (rs1 ++ rest))) /\
  amoof_truns (fst (put_truns_moof m (rs1 ++ rest))) = rs1.
Proof.
  induction m as [|c tl IH]; intros rs1 rest H.
  - inversion H; subst. cbn [put_truns_moof fst snd app]. repeat split. constructor.
  - destruct c as [s|t|o]; unfold amoof_truns in H; cbn [flat_map mc_truns app] in H; cbn [put_truns_moof].
    + destruct (IH rs1 rest H) as (A & B & C). destruct (put_truns_moof tl (rs1 ++ rest)) as [m' k]. cbn [fst snd] in *.
      repeat split; [exact A|constructor; [reflexivity|exact B]|exact C].
    + destruct (Forall2_app_split _ _ _ _ H) as (a & b & -> & Ha & Hb). rewrite <- app_assoc.
      destruct (put_traf t a (b ++ rest) Ha) as (A1 & B1 & C1).
      destruct (put_truns_traf t (a ++ b ++ rest)) as [t' k]. cbn [fst snd] in *. subst k.
      destruct (IH b rest Hb) as (A & B & C). destruct (put_truns_moof tl (b ++ rest)) as [m' k']. cbn [fst snd] in *.
      repeat split; [exact A|constructor; [exact B1|exact B]|].
      unfold amoof_truns. cbn [flat_map mc_truns]. fold (amoof_truns m'). rewrite C1, C. reflexivity.
    + destruct (IH rs1 rest H) as (A & B & C). destruct (put_truns_moof tl (rs1 ++ rest)) as [m' k]. cbn [fst snd] in *.
      repeat split; [exact A|constructor; [reflexivity|exact B]|exact C].
Qed.

Lemma put_traf_self t rest : put_truns_traf t (atraf_truns t ++ rest) = (t, rest).
Proof.
  induction t as [|c tl IH]; [reflexivity|]. destruct c as [h|d|r|o]; unfold atraf_truns; cbn [flat_map tc_truns app put_truns_traf];
    fold (atraf_truns tl); rewrite IH; reflexivity.
Qed.

Lemma put_moof_self m rest : put_truns_moof m (amoof_truns m ++ rest) = (m, rest).
Proof.
  induction m as [|c tl IH]; [reflexivity|]. destruct c as [s|t|o]; unfold amoof_truns; cbn [flat_map mc_truns app put_truns_moof];
    fold (amoof_truns tl).
  - rewrite IH. reflexivity.
  - rewrite <- app_assoc, put_traf_self, IH. reflexivity.
  - rewrite IH. reflexivity.
Qed.

(* ------------------------------------------------------------------ the offsets computed *)
Definition tagged_rel (x y : N * trun) : Prop := fst y = fst x /\ dv (snd x) (snd y).

Lemma tag_from_rel l l' : Forall2 dv l l' -> forall k, Forall2 tagged_rel (tag_from k l) (tag_from k l').
Proof.
  induction 1 as [|r r' t t' D _ IH]; intros k; cbn [tag_from]; constructor; [split; [reflexivity|exact D]|apply IH].
Qed.

Lemma insert_ix_rel x y l l' : tagged_rel x y -> Forall2 tagged_rel l l' ->
  Forall2 tagged_rel (insert_ix x l) (insert_ix y l').
Proof.
  intros Hxy H. induction H as [|a b t t' Hab Ht IH]; cbn [insert_ix]; [constructor; [exact Hxy|constructor]|].
  destruct Hxy as [Fxy Dxy]. destruct Hab as [Fab Dab]. rewrite (dv_won _ _ Dxy), (dv_won _ _ Dab).
  destruct (tr_won (snd x) <=? tr_won (snd a)).
  - constructor; [split; assumption|constructor; [split; assumption|assumption]].
  - constructor; [split; assumption|apply IH].
Qed.

Lemma sort_ix_rel l l' : Forall2 tagged_rel l l' -> Forall2 tagged_rel (sort_ix l) (sort_ix l').
Proof.
  induction 1 as [|a b t t' Hab _ IH]; [constructor|]. unfold sort_ix. cbn [fold_right].
  apply insert_ix_rel; [exact Hab|exact IH].
Qed.

Lemma assign_ix_rel l l' : Forall2 tagged_rel l l' -> forall off, assign_ix l' off = assign_ix l off.
Proof.
  induction 1 as [|a b t t' [F D] _ IH]; intros off; [reflexivity|]. cbn [assign_ix].
  rewrite F, (dv_sod _ _ D), IH. reflexivity.
Qed.

Lemma lookup_off_idem tbl w d : lookup_off tbl w (lookup_off tbl w d) = lookup_off tbl w d.
Proof.
  induction tbl as [|[k o] t IH]; [reflexivity|]. cbn [lookup_off]. destruct (k =? w); [reflexivity|exact IH].
Qed.

Lemma new_truns_dv_gen tbl l : forall k,
  Forall2 dv l (map (fun x => tr_with_doff (snd x) (lookup_off tbl (fst x) (tr_doff (snd x)))) (tag_from k l)).
Proof. induction l as [|r t IH]; intros k; cbn [tag_from map]; constructor; [apply dv_with|apply IH]. Qed.

Lemma new_truns_dv l base : Forall2 dv l (new_truns l base).
Proof. apply new_truns_dv_gen. Qed.

Lemma new_truns_idem_gen tbl l : forall k,
  map (fun x => tr_with_doff (snd x) (lookup_off tbl (fst x) (tr_doff (snd x))))
      (tag_from k (map (fun x => tr_with_doff (snd x) (lookup_off tbl (fst x) (tr_doff (snd x)))) (tag_from k l)))
  = map (fun x => tr_with_doff (snd x) (lookup_off tbl (fst x) (tr_doff (snd x)))) (tag_from k l).
Proof.
  induction l as [|r t IH]; intros k; [reflexivity|]. cbn [tag_from map fst snd]. f_equal; [|apply IH].
  unfold tr_with_doff. cbn [tr_version tr_flags tr_fsf tr_samples tr_won tr_doff]. rewrite lookup_off_idem. reflexivity.
Qed.

Lemma new_truns_idem l base : new_truns (new_truns l base) base = new_truns l base.
Proof.
  unfold new_truns at 1.
  pose proof (new_truns_dv l base) as D.
  rewrite (assign_ix_rel _ _ (sort_ix_rel _ _ (tag_from_rel _ _ D 0)) base).
  unfold new_truns. apply new_truns_idem_gen.
Qed.

Lemma Forall2_length_eq {A B} (R : A -> B -> Prop) l l' : Forall2 R l l' -> length l' = length l.
Proof. induction 1; cbn [length]; congruence. Qed.

Lemma existsb_won_dv l l' : Forall2 dv l l' ->
  existsb (fun r => negb (tr_won r =? 0)) l' = existsb (fun r => negb (tr_won r =? 0)) l.
Proof. induction 1 as [|r r' t t' D _ IH]; [reflexivity|]. cbn [existsb]. rewrite (dv_won _ _ D), IH. reflexivity. Qed.

(* ------------------------------------------------------------------ SetTrunDataOffsets *)
Lemma aset_offsets_dv m md m' md' : aset_offsets m md = (m', md') ->
  moof_dv m m' /\ (md' = md \/ md' = md_size_touch md).
Proof.
  unfold aset_offsets. destruct (negb _ && _).
  - intros [= <- <-]. split; [apply moof_dv_refl|left; reflexivity].
  - intros [= <- <-]. split; [|right; reflexivity].
    pose proof (new_truns_dv (amoof_truns m) (amoof_size m + md_header_size (md_size_touch md))) as D.
    destruct (put_moof m _ [] D) as (_ & B & _). rewrite app_nil_r in B. exact B.
Qed.

Lemma aset_offsets_idem m md m' md' : aset_offsets m md = (m', md') -> aset_offsets m' md' = (m', md').
Proof.
  unfold aset_offsets.
  destruct (negb (existsb (fun r => negb (tr_won r =? 0)) (amoof_truns m)) && (1 <? lenN (amoof_truns m))) eqn:C.
  - intros [= <- <-]. rewrite C. reflexivity.
  - intros [= <- <-].
    set (base := amoof_size m + md_header_size (md_size_touch md)).
    pose proof (new_truns_dv (amoof_truns m) base) as D.
    destruct (put_moof m _ [] D) as (_ & B & T). rewrite app_nil_r in B, T.
    set (m' := fst (put_truns_moof m (new_truns (amoof_truns m) base))) in *.
    rewrite T. rewrite (existsb_won_dv _ _ D).
    assert (L : lenN (new_truns (amoof_truns m) base) = lenN (amoof_truns m)).
    { unfold lenN. rewrite (Forall2_length_eq _ _ _ D). reflexivity. }
    rewrite L, C. rewrite md_touch_idem. rewrite (moof_dv_size m m' B). fold base.
    rewrite new_truns_idem. rewrite <- T at 1. rewrite <- (app_nil_r (amoof_truns m')).
    rewrite put_moof_self. reflexivity.
Qed.

(* ------------------------------------------------------------------ idempotence, as stated in the property *)
Lemma optimize_idem tf tr tf' tr' : optimize tf tr = Ok (tf', tr') -> optimize tf' tr' = Ok (tf', tr').
Proof. intros H. apply optimised_fix. eapply optimize_optimised. exact H. Qed.

Lemma optimize_traf_idem t t' : optimize_traf t = Ok t' -> optimize_traf t' = Ok t'.
Proof. intros H. apply traf_optimised_fix. eapply optimize_traf_optimised. exact H. Qed.

Lemma optimize_moof_idem m m' : optimize_moof m = Ok m' -> optimize_moof m' = Ok m'.
Proof. intros H. apply moof_optimised_fix. eapply optimize_moof_optimised. exact H. Qed.

(* ------------------------------------------------------------------ the C05 fragments inside this model *)
Lemma of_c05_traf_size t : tf_extra t = 0 -> td_version (tf_dt t) <= 1 -> atraf_size (of_c05_traf t) = traf_size t.
Proof.
  intros He Hv. unfold atraf_size, of_c05_traf, traf_size. cbn [map sumN tc_size].
  assert (M : map tc_size (map TcTrun (tf_truns t)) = map trun_size (tf_truns t)) by (rewrite map_map; reflexivity).
  rewrite M, He. unfold atfdt_size, tfdt_size.
  assert (Hc : td_version (tf_dt t) = 0 \/ td_version (tf_dt t) = 1) by lia.
  destruct Hc as [-> | ->]; cbn [N.eqb Pos.eqb]; lia.
Qed.

Lemma of_c05_moof_size seq fr :
  fr_moofx fr = 0 -> Forall (fun t => tf_extra t = 0 /\ td_version (tf_dt t) <= 1) (fr_trafs fr) ->
  amoof_size (of_c05_moof seq fr) = moof_size fr.
Proof.
  intros Hx Ht. unfold amoof_size, of_c05_moof, moof_size. cbn [map sumN mc_size]. rewrite Hx.
  assert (E : map mc_size (map (fun t => McTraf (of_c05_traf t)) (fr_trafs fr)) = map traf_size (fr_trafs fr)).
  { induction Ht as [|t l [H1 H2] _ IH]; [reflexivity|]. cbn [map mc_size]. rewrite IH, of_c05_traf_size by assumption. reflexivity. }
  rewrite E. lia.
Qed.

Lemma of_c05_truns seq fr : amoof_truns (of_c05_moof seq fr) = all_truns (fr_trafs fr).
Proof.
  unfold amoof_truns, of_c05_moof, all_truns. cbn [flat_map mc_truns app].
  induction (fr_trafs fr) as [|t l IH]; [reflexivity|]. cbn [map flat_map mc_truns]. rewrite IH. f_equal.
  unfold of_c05_traf, atraf_truns. cbn [flat_map tc_truns app]. induction (tf_truns t) as [|r rs IHr]; [reflexivity|].
  cbn [map flat_map tc_truns app]. rewrite IHr. reflexivity.
Qed.
