(* C02AggC05Proofs.v — the link to C05's SetTrunDataOffsets: on the fragments of C05FragModel (children tfhd, tfdt,
   truns; no other boxes) whose write order numbers are pairwise different - what the Add* operations make -
   this model's aset_offsets (table keyed by position, stable sort) computes exactly C05FragModel.set_offsets
   (table keyed by write order number).  C05's theorems about the data offsets therefore speak about this model. *)
From V.lib Require Import Base.
From Coq Require Import Permutation.
From V.c05 Require Import C05Model C05FragModel C05CodecModel.
From V.c02 Require Import C02AggModel C02AggSizeProofs C02AggOptProofs.

(* ------------------------------------------------------------------ the two sorts and the two tables *)
Lemma insert_ix_snd x l : map snd (insert_ix x l) = insert_won (snd x) (map snd l).
Proof.
  induction l as [|y t IH]; [reflexivity|]. cbn [insert_ix map insert_won].
  destruct (tr_won (snd x) <=? tr_won (snd y)); cbn [map]; [reflexivity|]. rewrite IH. reflexivity.
Qed.

Lemma sort_ix_snd l : map snd (sort_ix l) = sort_won (map snd l).
Proof.
  induction l as [|x t IH]; [reflexivity|]. unfold sort_ix, sort_won in *. cbn [fold_right map].
  rewrite insert_ix_snd, IH. reflexivity.
Qed.

Lemma tag_from_snd l : forall k, map snd (tag_from k l) = l.
Proof. induction l as [|r t IH]; intros k; [reflexivity|]. cbn [tag_from map snd]. rewrite IH. reflexivity. Qed.

Lemma insert_ix_perm x l : Permutation (insert_ix x l) (x :: l).
Proof.
  induction l as [|y t IH]; [apply Permutation_refl|]. cbn [insert_ix]. destruct (tr_won (snd x) <=? tr_won (snd y)).
  - apply Permutation_refl.
  - eapply Permutation_trans; [apply perm_skip; exact IH|apply perm_swap].
Qed.

Lemma sort_ix_perm l : Permutation (sort_ix l) l.
Proof.
  induction l as [|x t IH]; [apply Permutation_refl|]. unfold sort_ix in *. cbn [fold_right].
  eapply Permutation_trans; [apply insert_ix_perm|apply perm_skip; exact IH].
Qed.

Lemma tag_from_fst_lt l : forall k x, In x (tag_from k l) -> k <= fst x.
Proof.
  induction l as [|r t IH]; intros k x H; [contradiction|]. cbn [tag_from] in H. destruct H as [<-|H]; [cbn [fst]; lia|].
  specialize (IH (k + 1) x H). lia.
Qed.

Lemma tag_from_nodup l : forall k, NoDup (map fst (tag_from k l)).
Proof.
  induction l as [|r t IH]; intros k; [constructor|]. cbn [tag_from map fst]. constructor; [|apply IH].
  intros H. apply in_map_iff in H. destruct H as (x & Hx & Hin). pose proof (tag_from_fst_lt t (k + 1) x Hin). lia.
Qed.

(* looking up by position in the one table = looking up by write order number in the other *)
Lemma lookup_both S : NoDup (map fst S) -> NoDup (map (fun x => tr_won (snd x)) S) ->
  forall b i r d, In (i, r) S ->
  lookup_off (assign_ix S b) i d = lookup_off (assign_offsets (map snd S) b) (tr_won r) d.
Proof.
  induction S as [|[i0 r0] t IH]; intros N1 N2 b i r d Hin; [contradiction|].
  cbn [map fst snd] in N1, N2. inversion N1 as [|? ? Hn1 N1']; subst. inversion N2 as [|? ? Hn2 N2']; subst.
  cbn [assign_ix map snd fst assign_offsets lookup_off]. destruct Hin as [E|Hin].
  - injection E as <- <-. rewrite !N.eqb_refl. reflexivity.
  - assert (E1 : (i0 =? i) = false).
    { apply N.eqb_neq. intros ->. apply Hn1. apply in_map_iff. exists (i, r). split; [reflexivity|exact Hin]. }
    assert (E2 : (tr_won r0 =? tr_won r) = false).
    { apply N.eqb_neq. intros E. apply Hn2. apply in_map_iff. exists (i, r). split; [symmetry; exact E|exact Hin]. }
    rewrite E1, E2. apply IH; assumption.
Qed.

Lemma new_truns_c05 l base : NoDup (map tr_won l) ->
  new_truns l base =
  map (fun r => tr_with_doff r (lookup_off (assign_offsets (sort_won l) base) (tr_won r) (tr_doff r))) l.
Proof.
  intros Hn. unfold new_truns.
  set (T := tag_from 0 l). set (S := sort_ix T).
  assert (PS : Permutation S T) by apply sort_ix_perm.
  assert (N1 : NoDup (map fst S)).
  { eapply Permutation_NoDup; [apply Permutation_map, Permutation_sym, PS|apply tag_from_nodup]. }
  assert (N2 : NoDup (map (fun x => tr_won (snd x)) S)).
  { eapply Permutation_NoDup; [apply Permutation_map, Permutation_sym, PS|].
    replace (map (fun x => tr_won (snd x)) T) with (map tr_won (map snd T)) by (rewrite map_map; reflexivity).
    unfold T. rewrite tag_from_snd. exact Hn. }
  assert (HS : map snd S = sort_won l) by (unfold S, T; rewrite sort_ix_snd, tag_from_snd; reflexivity).
  rewrite <- HS.
  assert (G : forall x, In x T ->
            tr_with_doff (snd x) (lookup_off (assign_ix S base) (fst x) (tr_doff (snd x))) =
            tr_with_doff (snd x) (lookup_off (assign_offsets (map snd S) base) (tr_won (snd x)) (tr_doff (snd x)))).
  { intros [i r] Hin. cbn [fst snd]. f_equal. apply lookup_both; [exact N1|exact N2|].
    eapply Permutation_in; [apply Permutation_sym; exact PS|exact Hin]. }
  rewrite (map_ext_in _ _ T G).
  transitivity (map (fun r => tr_with_doff r (lookup_off (assign_offsets (map snd S) base) (tr_won r) (tr_doff r))) (map snd T)).
  - rewrite map_map. reflexivity.
  - unfold T. rewrite tag_from_snd. reflexivity.
Qed.

(* ------------------------------------------------------------------ putting the truns back into a C05 fragment *)
Lemma put_of_c05_traf (g : trun -> trun) t rest :
  put_truns_traf (of_c05_traf t) (map g (tf_truns t) ++ rest) =
  (of_c05_traf (mkTraf (tf_hd t) (tf_dt t) (map g (tf_truns t)) (tf_extra t)), rest).
Proof.
  unfold of_c05_traf. cbn [put_truns_traf tf_hd tf_dt tf_truns].
  assert (H : forall l, put_truns_traf (map TcTrun l) (map g l ++ rest) = (map TcTrun (map g l), rest)).
  { induction l as [|r tl IH]; [reflexivity|]. cbn [map app put_truns_traf]. rewrite IH. reflexivity. }
  rewrite H. reflexivity.
Qed.

Lemma put_of_c05_trafs (g : trun -> trun) ts : forall rest,
  put_truns_moof (map (fun t => McTraf (of_c05_traf t)) ts) (map g (all_truns ts) ++ rest) =
  (map (fun t => McTraf (of_c05_traf t)) (map (fun t => mkTraf (tf_hd t) (tf_dt t) (map g (tf_truns t)) (tf_extra t)) ts), rest).
Proof.
  induction ts as [|t tl IH]; intros rest; [reflexivity|]. unfold all_truns. cbn [flat_map map put_truns_moof].
  fold (all_truns tl). rewrite map_app, <- app_assoc, put_of_c05_traf, IH. reflexivity.
Qed.

(* ------------------------------------------------------------------ the link *)
Theorem aset_offsets_c05 seq fr :
  fr_moofx fr = 0 -> Forall (fun t => tf_extra t = 0 /\ td_version (tf_dt t) <= 1) (fr_trafs fr) ->
  NoDup (map tr_won (all_truns (fr_trafs fr))) ->
  aset_offsets (of_c05_moof seq fr) (fr_mdat fr) =
    (of_c05_moof seq (set_offsets fr), fr_mdat (set_offsets fr)).
Proof.
  intros Hx Ht Hn. unfold aset_offsets, set_offsets. rewrite of_c05_truns.
  destruct (negb (existsb (fun r => negb (tr_won r =? 0)) (all_truns (fr_trafs fr))) && (1 <? lenN (all_truns (fr_trafs fr))));
    [reflexivity|].
  rewrite (of_c05_moof_size seq fr Hx Ht).
  rewrite (new_truns_c05 _ _ Hn).
  set (tbl := assign_offsets (sort_won (all_truns (fr_trafs fr))) (moof_size fr + md_header_size (md_size_touch (fr_mdat fr)))).
  unfold of_c05_moof at 1. cbn [put_truns_moof].
  rewrite <- (app_nil_r (map _ (all_truns (fr_trafs fr)))).
  rewrite (put_of_c05_trafs (fun r => tr_with_doff r (lookup_off tbl (tr_won r) (tr_doff r))) (fr_trafs fr) []).
  cbn [fst]. unfold of_c05_moof, fr_with. cbn [fr_trafs fr_mdat]. reflexivity.
Qed.
