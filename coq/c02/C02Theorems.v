(* C02Theorems.v — the property theorems of C02 (Size() = bytes written = header size field, at every level)
   over the box model of C01.  Each is closed by `exact <lemma>` and followed by Print Assumptions. *)
From V.lib Require Import Base.
From V.c01 Require Import C01Codec C01Model.
From V.c02 Require Import C02Proofs C02Witness.

(* per leaf kind (all 14 value shapes at once): the bytes the encoder writes are Size() many, under the guard
   on versions / counts for which the separately written Size() and EncodeSW agree *)
Theorem C02_leaf : forall l b, raw_leaf l (dflt_rsv l) = Ok b -> leaf_size_guard l = true -> lenN b = size_leaf l.
Proof. exact leaf_size. Qed.
Print Assumptions C02_leaf.

(* at EVERY node of a tree: the encoder succeeds, writes size_box bytes and its first field is size_box;
   a container's size is 8 + the sum of its children's sizes (size_box, by definition = containerSize) *)
Theorem C02_tree : forall t, size_ok t = true -> forall enc, raw_box false t = Ok enc -> every node_ok t.
Proof. exact tree_size. Qed.
Print Assumptions C02_tree.

Theorem C02_container_sum : forall h cs, size_box (MCont h cs) = 8 + sumN (map size_box cs).
Proof. exact cont_sum. Qed.
Print Assumptions C02_container_sum.

(* both encode paths: whenever Encode / EncodeSW report success the bytes written are Size() many *)
Theorem C02_encode_w : forall t enc, size_ok t = true -> encode_w t = Ok enc ->
  lenN enc = size_box t /\ hdr_size_field enc = size_box t.
Proof. exact encode_w_size. Qed.
Print Assumptions C02_encode_w.

Theorem C02_encode_sw : forall t enc, size_ok t = true -> encode_sw t = Ok enc ->
  lenN enc = size_box t /\ hdr_size_field enc = size_box t.
Proof. exact encode_sw_size. Qed.
Print Assumptions C02_encode_sw.

(* and under the guard both paths do succeed and agree (not vacuous) *)
Theorem C02_encode_ok : forall t enc, size_ok t = true -> raw_box false t = Ok enc ->
  encode_w t = Ok enc /\ encode_sw t = Ok enc.
Proof. exact encode_ok. Qed.
Print Assumptions C02_encode_ok.

(* the encoders are functions of the tree: encoding twice gives identical bytes (the model has no state;
   the Go side of this claim -- Size() mutating LargeSize, Info -- is checked by the harness histories) *)

(* --- the guards are needed: Size() over-estimates silently --- *)
Theorem C02_tfdt_refuted : exists t enc, encode_w t = Ok enc /\ encode_sw t = Ok enc /\ lenN enc < size_box t.
Proof. exact tfdt_v2_refuted. Qed.
Print Assumptions C02_tfdt_refuted.

Theorem C02_sidx_refuted : exists t enc, encode_w t = Ok enc /\ lenN enc < size_box t.
Proof. exact sidx_v2_refuted. Qed.
Print Assumptions C02_sidx_refuted.

(* an unknown box decoded from a large-size header keeps the 16-byte-header size *)
Theorem C02_unknown_large_refuted : exists bs t enc,
  decode bs = Ok (t, []) /\ encode_w t = Ok enc /\ lenN enc < size_box t /\ hdr_size_field enc <> lenN enc.
Proof. exact unknown_large_refuted. Qed.
Print Assumptions C02_unknown_large_refuted.

Example C02_ex_moof : size_ok ex_tree = true /\ exists enc, raw_box false ex_tree = Ok enc /\ lenN enc = 120.
Proof. exact ex_tree_ok. Qed.
