(* C02Theorems.v — the property theorems of C02 (Size() = bytes written = header size field, at every level)
   over the box model of C01.  Each is closed by `exact <lemma>` and followed by Print Assumptions. *)
From V.lib Require Import Base.
From V.c01 Require Import C01Codec C01Model.
From V.c01 Require Import C01Witness C01RealFiles C01RealWitness.
From V.c02 Require Import C02Proofs C02Witness C02DecProofs.

(* per leaf kind (all 14 value shapes at once): the bytes the encoder writes are Size() many, under the guard
   leaf_size_guard (4-character names, counts below 2^32; no version is excluded any more) *)
Theorem C02_leaf : forall l b, raw_leaf l (dflt_rsv l) = Ok b -> leaf_size_guard l = true -> lenN b = size_leaf l.
Proof. exact leaf_size. Qed.
Print Assumptions C02_leaf.

(* at EVERY node of a tree: the encoder succeeds, writes size_box bytes and its first field is size_box;
   a container's size is 8 + the sum of its children's sizes (size_box, by definition = containerSize) *)
Theorem C02_tree : forall t, size_ok t = true -> forall enc, raw_box false t = Ok enc -> every node_ok t.
Proof. exact tree_size. Qed.
Print Assumptions C02_tree.

Theorem C02_container_sum : forall h cs, size_box (MCont h cs) = 8 + sumN (map size_box cs).
Proof. exact cont_sum. Qed.
Print Assumptions C02_container_sum.

(* both encode paths: whenever Encode / EncodeSW report success the bytes written are Size() many *)
Theorem C02_encode_w : forall t enc, size_ok t = true -> encode_w t = Ok enc ->
  lenN enc = size_box t /\ hdr_size_field enc = size_box t.
Proof. exact encode_w_size. Qed.
Print Assumptions C02_encode_w.

Theorem C02_encode_sw : forall t enc, size_ok t = true -> encode_sw t = Ok enc ->
  lenN enc = size_box t /\ hdr_size_field enc = size_box t.
Proof. exact encode_sw_size. Qed.
Print Assumptions C02_encode_sw.

(* and under the guard both paths do succeed and agree (not vacuous) *)
Theorem C02_encode_ok : forall t enc, size_ok t = true -> raw_box false t = Ok enc ->
  encode_w t = Ok enc /\ encode_sw t = Ok enc.
Proof. exact encode_ok. Qed.
Print Assumptions C02_encode_ok.

(* "every structure obtained from the decoder": NO hypothesis on the tree.  For every slice the model of DecodeBoxSR accepts
   (whatever follows the box) with an exact tree -- the header seen at decode is the one Size() gives, the guarded trun /
   senc / esds / wvtt / dac3 / dec3 forms; exact_box is evaluated on every correspondence case of a run -- the property holds
   at EVERY node: the encoder succeeds, writes Size() bytes, and the size field it writes first is Size().  What size_ok
   asks of a tree in C02_tree (4-character names, counts and sizes below 2^32, below 2^64 for a large header) is here an
   invariant of the decoder: it follows from dec_hdr and C01's fixed-point induction over the decoder's recursion. *)
Theorem C02_decoded :
  (forall bs t rest, bytes_ok bs = true -> decode bs = Ok (t, rest) -> exact_box t = true -> every node_ok t) /\
  (* ... and both API paths (Encode with its per-box writers, EncodeSW into one writer of Size() bytes) succeed on it with the
     same Size() bytes, which are as many as the decoder consumed *)
  (forall bs t rest, bytes_ok bs = true -> decode bs = Ok (t, rest) -> exact_box t = true ->
     exists enc, encode_w t = Ok enc /\ encode_sw t = Ok enc /\ lenN enc = size_box t /\ hdr_size_field enc = size_box t /\
                 lenN enc + lenN rest = lenN bs) /\
  (* the box loop of DecodeFileSR: every node of every top-level box of a decoded file *)
  (forall bs ts, bytes_ok bs = true -> decode_file bs = Ok ts -> forallb exact_box ts = true -> Forall (every node_ok) ts).
Proof. exact (conj decoded_tree (conj decoded_tree_api decoded_file)). Qed.
Print Assumptions C02_decoded.
(* (one theorem with three parts: each Print Assumptions over C01's fixed-point closure costs ~12 s of the quick tier) *)

Example C02_ex_decoded :
  bytes_ok (ex_moof_bytes ++ [0; 0; 0; 9]) = true /\ decode (ex_moof_bytes ++ [0; 0; 0; 9]) = Ok (ex_moof_tree, [0; 0; 0; 9]) /\
  exact_box ex_moof_tree = true /\
  bytes_ok w_unknown_large = true /\ decode w_unknown_large = Ok (treeof w_unknown_large, []) /\
  exact_box (treeof w_unknown_large) = true.
Proof. exact ex_decoded_ok. Qed.
Example C02_ex_decoded_file :
  bytes_ok rf_media_seg = true /\ decode_file rf_media_seg = Ok (seq_of rf_media_seg) /\
  forallb exact_box (seq_of rf_media_seg) = true /\ map box_name (seq_of rf_media_seg) = [n_styp; n_sidx; n_moof; n_mdat].
Proof. exact ex_decoded_file_ok. Qed.

(* the encoders are functions of the tree: encoding twice gives identical bytes (the model has no state;
   the Go side of this claim -- Size() mutating LargeSize, Info -- is checked by the harness histories) *)

(* --- witnesses of the repaired Size() defects (tfdt 4*Version, sidx 8*Version, unknown box with a large-size
   header): refuted on the pinned tree, theorems of the repaired one --- *)
Theorem C02_tfdt_v2_fixed : exists enc, encode_w t_tfdt_v2 = Ok enc /\ encode_sw t_tfdt_v2 = Ok enc /\
  lenN enc = size_box t_tfdt_v2 /\ hdr_size_field enc = lenN enc.
Proof. exact tfdt_v2_fixed. Qed.
Print Assumptions C02_tfdt_v2_fixed.

Theorem C02_sidx_v2_fixed : exists enc, encode_w t_sidx_v2 = Ok enc /\ lenN enc = size_box t_sidx_v2 /\
  hdr_size_field enc = lenN enc.
Proof. exact sidx_v2_fixed. Qed.
Print Assumptions C02_sidx_v2_fixed.

Theorem C02_unknown_large_fixed : exists t,
  decode w_unknown_large = Ok (t, []) /\ encode_w t = Ok w_unknown_large /\ lenN w_unknown_large = size_box t /\
  hdr_size_field w_unknown_large = size_box t.
Proof. exact unknown_large_fixed. Qed.
Print Assumptions C02_unknown_large_fixed.

(* finding C02-K3 (hdlr.Size() assumed a 4-character HandlerType), repaired by repo commit 3502d85: a two-character
   handler type is now sized as it is written; leaf_size_guard no longer mentions hdlr *)
Theorem C02_hdlr_fixed : exists enc, encode_w t_hdlr_bad = Ok enc /\ encode_sw t_hdlr_bad = Ok enc /\
  lenN enc = size_box t_hdlr_bad /\ hdr_size_field enc = lenN enc.
Proof. exact hdlr_fixed. Qed.
Print Assumptions C02_hdlr_fixed.

Example C02_ex_moof : size_ok ex_tree = true /\ exists enc, raw_box false ex_tree = Ok enc /\ lenN enc = 120.
Proof. exact ex_tree_ok. Qed.
