(* C02DecProofs.v — the property at EVERY node of EVERY tree the model of DecodeBoxSR / DecodeFileSR's box loop
   accepts as exact: no hypothesis on the tree itself (size_ok of C02_tree is not assumed; what it asked --
   4-character names, counts below 2^32, sizes below 2^32 / 2^64 -- is an invariant of the decoder, obtained
   here from C01's fixed-point induction (stable_all: the encoder succeeds with Size() bytes) and from what
   dec_hdr guarantees of the header every node was read from). *)
From V.lib Require Import Base.
From V.c01 Require Import C01Codec C01Model C01LeafProofs C01TableProofs C01TreeProofs C01WhyProofs C01SizeProofs
  C01LocalProofs C01StableProofs C01FixProofs.
From V.c02 Require Import C02Proofs.

(* ---------------------------------------------------------------- one node *)
(* the node itself: from the decode of the slice it came from *)
Lemma node_of_decode f bs t rest : bytes_ok bs = true -> decode_box f bs = Ok (t, rest) -> exact_box t = true ->
  node_ok t.
Proof.
  intros Hok H Hex.
  destruct (proj1 (stable_all f) _ _ _ Hok H Hex) as (enc & Henc & _ & Hsz & _).
  destruct (proj1 (fits_all f) _ _ _ Hok H Hex) as [Hfit _].
  destruct (decode_box_hdr _ _ _ _ H) as (h & r0 & Eh & Hbh).
  destruct (dec_hdr_spec _ _ _ Hok Eh) as (_ & Hle & _).
  destruct (dec_hdr_facts _ _ _ Hok Eh) as [Hn4 H64].
  exists enc. split; [exact Henc|]. split; [exact Hsz|].
  destruct (raw_starts _ _ _ Henc) as (tl & ->).
  destruct t as [h' l r|h' cs|h' p|h' l r cs]; cbn [box_hdr] in Hbh; subst h';
    cbn [hdr_of_raw size_box exact_box enc_fits] in *.
  - (* leaf *)
    apply andb_true_iff in Hex. destruct Hex as [Hh _]. unfold leaf_hdr. destruct (leaf_large l) eqn:El.
    + apply andb_true_iff in Hh. destruct Hh as [_ H2]. apply N.eqb_eq in H2.
      apply hdr_field_large; [rewrite (large_mdat _ El); reflexivity|lia].
    + cbn [orb] in Hfit. apply N.ltb_lt in Hfit.
      unfold hdr_exact in Hh. apply andb_true_iff in Hh. destruct Hh as [H1 H2]. apply N.eqb_eq in H1, H2.
      apply hdr_field_compact. lia.
  - (* container *)
    apply andb_true_iff in Hfit. destruct Hfit as [Hfit _]. apply N.ltb_lt in Hfit.
    apply hdr_field_compact. lia.
  - (* unknown box: Size() is the decoded header size, written with the header form it was read with *)
    destruct (8 <? h_len h) eqn:E8.
    + apply hdr_field_large; assumption.
    + cbn [orb] in Hfit. apply N.ltb_lt in Hfit. apply N.ltb_ge in E8.
      apply orb_true_iff in Hex. destruct Hex as [Hl|Hl]; apply N.eqb_eq in Hl; [|lia].
      apply hdr_field_compact. lia.
  - (* field prefix + children *)
    apply andb_true_iff in Hfit. destruct Hfit as [Hfit _]. apply N.ltb_lt in Hfit.
    apply andb_true_iff in Hex. destruct Hex as [Hex _]. apply andb_true_iff in Hex. destruct Hex as [Hh _].
    unfold hdr_exact in Hh. apply andb_true_iff in Hh. destruct Hh as [H1 H2]. apply N.eqb_eq in H1, H2.
    apply hdr_field_compact. lia.
Qed.

(* ---------------------------------------------------------------- every node: the decoder's recursion *)
Definition nbox (f : nat) : Prop :=
  forall bs t rest, bytes_ok bs = true -> decode_box f bs = Ok (t, rest) -> exact_box t = true -> every node_ok t.
Definition nchildren (f : nat) : Prop :=
  forall target pos used bs cs rest, bytes_ok bs = true ->
    decode_children f target pos used bs = Ok (cs, rest) -> forallb exact_box cs = true -> Forall (every node_ok) cs.
Definition nentries (f : nat) : Prop :=
  forall target pos bs cs rest, bytes_ok bs = true ->
    decode_entries f target pos bs = Ok (cs, rest) -> forallb exact_box cs = true -> Forall (every node_ok) cs.

Lemma nchildren_step f : nbox f -> nchildren f -> nchildren (S f).
Proof.
  intros IHb IHc target pos used bs cs rest Hok H Hex. cbn [decode_children] in H.
  destruct (target <? pos); [discriminate|]. destruct (pos =? target); [injection H as <- <-; constructor|].
  destruct (decode_box f bs) as [[c r]| | |] eqn:Eb; try discriminate.
  destruct (negb (pos + size_box c =? used + (lenN bs - lenN r))); [discriminate|].
  destruct (decode_children f target (pos + size_box c) (used + (lenN bs - lenN r)) r) as [[cs' r']| | |] eqn:Ec; try discriminate.
  injection H as <- <-. cbn [forallb] in *. apply andb_true_iff in Hex. destruct Hex as [Hc Hcs].
  destruct (proj1 (tree_both f) _ _ _ Hok Eb Hc) as (_ & _ & _ & Hokr).
  constructor; [exact (IHb _ _ _ Hok Eb Hc)|exact (IHc _ _ _ _ _ _ Hokr Ec Hcs)].
Qed.

Lemma nentries_step f : nbox f -> nentries f -> nentries (S f).
Proof.
  intros IHb IHe target pos bs cs rest Hok H Hex. cbn [decode_entries] in H.
  destruct (target <=? pos); [injection H as <- <-; constructor|].
  destruct (decode_box f bs) as [[c r]| | |] eqn:Eb; try discriminate.
  destruct (decode_entries f target (pos + size_box c) r) as [[cs' r']| | |] eqn:Ec; try discriminate.
  injection H as <- <-. cbn [forallb] in *. apply andb_true_iff in Hex. destruct Hex as [Hc Hcs].
  destruct (proj1 (tree_both f) _ _ _ Hok Eb Hc) as (_ & _ & _ & Hokr).
  constructor; [exact (IHb _ _ _ Hok Eb Hc)|exact (IHe _ _ _ _ _ Hokr Ec Hcs)].
Qed.

Lemma nbox_step f : nbox f -> nchildren f -> nentries f -> nbox (S f).
Proof.
  intros IHb IHc IHe bs t rest Hok H Hex.
  pose proof (node_of_decode _ _ _ _ Hok H Hex) as Hnode.
  cbn [decode_box] in H.
  destruct (dec_hdr bs) as [[h r]| | |] eqn:Eh; try discriminate.
  destruct (dec_hdr_spec _ _ _ Hok Eh) as (Hokr & _ & _).
  destruct ((lenN r + h_len h <? h_size h) && negb (bytes_eqb (h_name h) n_mdat)); [discriminate|].
  destruct (lookup (h_name h) leaf_table) as [d|] eqn:El.
  - destruct (d h r) as [[[l rsv] r']| | |] eqn:Ed; try discriminate. injection H as <- <-.
    cbn [every]. split; [exact Hnode|exact I].
  - destruct (pre_lookup h r) as [[d lk]|] eqn:Epre0.
    { pose proof (pre_lookup_some _ _ _ Epre0) as Epre.
      destruct (d h r) as [[[l rsv] r1]| | |] eqn:Ed; try discriminate.
      assert (Hokr1 : forall cs, exact_box (MPre h l rsv cs) = true -> bytes_ok r1 = true).
      { intros cs Hex'. destruct (lookup_in _ _ _ Epre) as (k & Hin & Hk).
        pose proof (proj1 (Forall_forall _ _) pre_table_ok _ Hin) as [Hloss _]. cbn [fst snd] in Hloss.
        cbn [exact_box] in Hex'. apply andb_true_iff in Hex'. destruct Hex' as [Hex' _].
        apply andb_true_iff in Hex'. destruct Hex' as [_ Hg].
        now destruct (Hloss _ _ _ _ _ Hokr Ed Hg) as (_ & _ & _ & ?). }
      assert (Hgoal : forall cs, exact_box (MPre h l rsv cs) = true -> node_ok (MPre h l rsv cs) ->
                (forallb exact_box cs = true -> Forall (every node_ok) cs) -> every node_ok (MPre h l rsv cs)).
      { intros cs Hex' Hn Hk. cbn [exact_box] in Hex'. apply andb_true_iff in Hex'. destruct Hex' as [_ Hcs].
        cbn [every]. split; [exact Hn|]. apply every_children. exact (Hk Hcs). }
      destruct lk as [off|start].
      - destruct (h_size h <? off); [discriminate|].
        destruct (decode_children f (h_size h - off) 0 0 r1) as [[cs r'']| | |] eqn:Ec; try discriminate.
        destruct (pre_count_ok l (lenN cs)); [|discriminate]. injection H as <- <-.
        apply Hgoal; [assumption|assumption|]. intros Hcs. exact (IHc _ _ _ _ _ _ (Hokr1 _ Hex) Ec Hcs).
      - destruct (decode_entries f (h_size h) start r1) as [[cs r'']| | |] eqn:Ec; try discriminate. injection H as <- <-.
        apply Hgoal; [assumption|assumption|]. intros Hcs. exact (IHe _ _ _ _ _ (Hokr1 _ Hex) Ec Hcs). }
    destruct (cont_like h r).
    + destruct (decode_children f (h_size h - 8) 0 0 r) as [[cs r'']| | |] eqn:Ec; try discriminate.
      destruct (bytes_eqb (h_name h) n_edts && negb (edts_ok cs)); [discriminate|]. injection H as <- <-.
      cbn [exact_box] in Hex. apply andb_true_iff in Hex. destruct Hex as [Hex _].
      apply andb_true_iff in Hex. destruct Hex as [Hex _]. apply andb_true_iff in Hex. destruct Hex as [_ Hcs].
      cbn [every]. split; [exact Hnode|]. apply every_children. exact (IHc _ _ _ _ _ _ Hokr Ec Hcs).
    + destruct (rdB (payload_len h) r) as [[p r'']| | |] eqn:Ep; try discriminate. injection H as <- <-.
      cbn [every]. split; [exact Hnode|exact I].
Qed.

Lemma nodes_all f : nbox f /\ nchildren f /\ nentries f.
Proof.
  induction f as [|f (IHb & IHc & IHe)].
  - split; [|split].
    + intros bs t rest _ H. discriminate H.
    + intros target pos used bs cs rest _ H. discriminate H.
    + intros target pos bs cs rest _ H. discriminate H.
  - split; [|split]; [now apply nbox_step|now apply nchildren_step|now apply nentries_step].
Qed.

(* ---------------------------------------------------------------- the statements *)
(* every slice DecodeBoxSR accepts (whatever follows the box) with an exact tree: at EVERY node the encoder succeeds,
   writes Size() bytes, and the size field it writes first is Size() *)
Lemma decoded_tree bs t rest : bytes_ok bs = true -> decode bs = Ok (t, rest) -> exact_box t = true -> every node_ok t.
Proof. intros Hok H Hex. exact (proj1 (nodes_all _) _ _ _ Hok H Hex). Qed.

(* ... and both API paths succeed on it with those bytes *)
Lemma decoded_tree_api bs t rest : bytes_ok bs = true -> decode bs = Ok (t, rest) -> exact_box t = true ->
  exists enc, encode_w t = Ok enc /\ encode_sw t = Ok enc /\ lenN enc = size_box t /\ hdr_size_field enc = size_box t /\
              lenN enc + lenN rest = lenN bs.
Proof.
  intros Hok H Hex. unfold decode in H.
  destruct (proj1 (stable_all _) _ _ _ Hok H Hex) as (enc & Henc & Hl & _ & _).
  destruct (proj1 (fits_all _) _ _ _ Hok H Hex) as [Hfit Hcaps].
  destruct (node_of_decode _ _ _ _ Hok H Hex) as (enc' & Henc' & Hsz & Hf).
  rewrite Henc in Henc'. injection Henc' as <-.
  exists enc. unfold encode_w, encode_sw. rewrite Hfit, Hcaps, Henc. cbn [andb].
  assert (Hle : (lenN enc <=? size_box t) = true) by (apply N.leb_le; lia). rewrite Hle.
  split; [reflexivity|]. split; [reflexivity|]. split; [exact Hsz|]. split; [exact Hf|exact Hl].
Qed.

(* the box loop of DecodeFileSR *)
Lemma decoded_seq f : forall bs ts, bytes_ok bs = true -> decode_seq f bs = Ok ts -> forallb exact_box ts = true ->
  Forall (every node_ok) ts.
Proof.
  induction f as [|f IH]; intros bs ts Hok H Hex; cbn [decode_seq] in H; [discriminate|].
  destruct bs as [|b0 bs0].
  { injection H as <-. constructor. }
  set (bs := b0 :: bs0) in *.
  destruct (decode bs) as [[t r]| | |] eqn:Ed; try discriminate.
  destruct (decode_seq f r) as [ts'| | |] eqn:Es; try discriminate. injection H as <-.
  cbn [forallb] in Hex. apply andb_true_iff in Hex. destruct Hex as [Ht Hts].
  pose proof (decoded_tree _ _ _ Hok Ed Ht) as Hn.
  unfold decode in Ed. destruct (proj1 (tree_both _) _ _ _ Hok Ed Ht) as (_ & _ & _ & Hokr).
  constructor; [exact Hn|exact (IH _ _ Hokr Es Hts)].
Qed.

Lemma decoded_file bs ts : bytes_ok bs = true -> decode_file bs = Ok ts -> forallb exact_box ts = true ->
  Forall (every node_ok) ts.
Proof. intros Hok H Hex. exact (decoded_seq _ _ _ Hok H Hex). Qed.
