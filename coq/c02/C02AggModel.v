(* C02AggModel.v — executable model of Size / Info / Encode / EncodeSW of the aggregates of mp4ff:
   Fragment (mp4/fragment.go), MoofBox.Encode (moof.go), TrafBox (traf.go, container.go), MdatBox (mdat.go),
   MediaSegment (mediasegment.go), InitSegment (initsegment.go), File (file.go), with the state changes the
   calls make: OptimizeTfhdTrun on the first traf's first trun (trun flags, tfhd defaults), SetTrunDataOffsets
   (trun data offsets), MdatBox.Size() (LargeSize), MediaSegment.Encode (Fragment.EncOptimize), File.Encode
   (MediaSegment.EncOptimize).  Definitions only.

   Built on the fragment model of C05 (records tfhd / tfdt / trun / mdat, their Size() formulas, the body
   encoders, OptimizeTfhdTrun = C05Model.optimize, the stable sort by write order).  Unlike C05 the children of
   moof and traf are kept in file order and boxes other than tfhd / tfdt / trun / mfhd / mdat are opaque: type,
   Size(), the bytes Encode writes and whether Encode reports an error (`obox`).  An opaque box is assumed to be
   stateless (its Size / Encode do not change it); `ob_wf` says that it writes Size() bytes and a correct header.

   Mirrors /repo after the fix commits 6b1f123 (MediaSegment writes and sizes ALL sidx boxes), 5f71df3 (File.Size
   follows FragEncMode), fb913b8, a7c3604 (see C05FragModel.v) and the EncodeHeader check `size >= 1<<32 -> error`.

   Go evaluates `EncodeHeaderWithSize("mdat", m.Size(), m.LargeSize, w)` with the call first (gc compiler):
   the LargeSize that is written is the one Size() has just set. *)
From V.lib Require Import Base.
From V.c05 Require Import C05Model C05FragModel C05CodecModel.

Definition TWO32 : N := 4294967296.

Definition TY_TFHD : list N := [116; 102; 104; 100].
Definition TY_TFDT : list N := [116; 102; 100; 116].
Definition TY_TRUN : list N := [116; 114; 117; 110].
Definition TY_TRAF : list N := [116; 114; 97; 102].
Definition TY_MOOF : list N := [109; 111; 111; 102].
Definition TY_MDAT : list N := [109; 100; 97; 116].

(* ------------------------------------------------------------------ headers *)
(* EncodeHeader / EncodeHeaderSW *)
Definition enc_hdr (ty : list N) (sz : N) : res (list N) :=
  if TWO32 <=? sz then Err else Ok (be32 sz ++ ty).

(* EncodeHeaderWithSize / ...SW *)
Definition enc_hdr_large (ty : list N) (sz : N) (large : bool) : res (list N) :=
  if negb large && (TWO32 <=? sz) then Err
  else Ok (if large then be32 1 ++ ty ++ be64 sz else be32 sz ++ ty).

(* what a reader of the output sees: the size field of the box that starts the byte string equals the length of
   the byte string (compact header, or size field 1 and a 64-bit largesize after the type) *)
Definition box_ok (b : list N) : bool :=
  match rd32 b with
  | Some (sz, rest) =>
      if sz =? 1 then
        match rest with
        | _ :: _ :: _ :: _ :: r2 => match rd64 r2 with Some (lg, _) => lg =? lenN b | None => false end
        | _ => false
        end
      else (sz =? lenN b) && (8 <=? sz)
  | None => false
  end.

(* ------------------------------------------------------------------ opaque boxes *)
Record obox := mkObox { ob_type : list N; ob_size : N; ob_bytes : list N; ob_err : bool }.

Definition ob_wf (o : obox) : bool := (lenN (ob_bytes o) =? ob_size o) && box_ok (ob_bytes o).

Definition enc_obox (o : obox) : res (list N) := if ob_err o then Err else Ok (ob_bytes o).

(* a loop `for _, c := range children { err := c.Encode(w); if err != nil { return err } }`:
   the byte strings of the boxes written, in order *)
Fixpoint enc_list {A} (f : A -> res (list N)) (l : list A) : res (list (list N)) :=
  match l with
  | [] => Ok []
  | x :: t => do a <- f x; do r <- enc_list f t; Ok (a :: r)
  end.

(* ------------------------------------------------------------------ tfhd, tfdt, trun, mfhd *)
Definition aenc_tfhd (h : tfhd) : res (list N) :=
  do hd <- enc_hdr TY_TFHD (tfhd_size h); Ok (hd ++ enc_tfhd_body h).

Definition enc_tfdt_body (d : tfdt) : list N :=
  be32 (u32 (td_version d * 16777216)) ++
  (if td_version d =? 0 then be32 (u32 (td_base d)) else be64 (u64 (td_base d))).

(* TfdtBox.Size(): 20 for every version but 0 (C05FragModel.tfdt_size is that for versions 0 and 1) *)
Definition atfdt_size (d : tfdt) : N := if td_version d =? 0 then 16 else 20.

Definition aenc_tfdt (d : tfdt) : res (list N) :=
  do hd <- enc_hdr TY_TFDT (atfdt_size d); Ok (hd ++ enc_tfdt_body d).

(* TrunBox.EncodeSW: the loop runs over SampleCount() = uint32(len(Samples)) samples *)
Definition trun_count (r : trun) : N := u32 (lenN (tr_samples r)).

Definition aenc_trun_body (t : trun) : list N :=
  be32 (u32 (tr_version t * 16777216 + tr_flags t)) ++
  be32 (trun_count t) ++
  (if has_doff t then be32 (i32_bits (tr_doff t)) else []) ++
  (if has_fsf t then be32 (tr_fsf t) else []) ++
  flat_map (enc_sample t) (firstn (N.to_nat (trun_count t)) (tr_samples t)).

(* error "trun data offset not set" *)
Definition aenc_trun (r : trun) : res (list N) :=
  do hd <- enc_hdr TY_TRUN (trun_size r);
  if doff_unset r then Err else Ok (hd ++ aenc_trun_body r).

(* ------------------------------------------------------------------ traf *)
Inductive tchild := TcTfhd (h : tfhd) | TcTfdt (d : tfdt) | TcTrun (r : trun) | TcOther (o : obox).
Definition atraf := list tchild.

Definition tc_size (c : tchild) : N :=
  match c with
  | TcTfhd h => tfhd_size h | TcTfdt d => atfdt_size d | TcTrun r => trun_size r | TcOther o => ob_size o
  end.

Definition tc_enc (c : tchild) : res (list N) :=
  match c with
  | TcTfhd h => aenc_tfhd h | TcTfdt d => aenc_tfdt d | TcTrun r => aenc_trun r | TcOther o => enc_obox o
  end.

(* containerSize *)
Definition atraf_size (t : atraf) : N := 8 + sumN (map tc_size t).

(* EncodeContainer *)
Definition atraf_enc (t : atraf) : res (list N) :=
  do hd <- enc_hdr TY_TRAF (atraf_size t);
  do cs <- enc_list tc_enc t;
  Ok (hd ++ concat cs).

(* t.Truns (all trun children, in order), t.Trun (the first), t.Tfhd (the LAST tfhd added) *)
Definition tc_truns (c : tchild) : list trun := match c with TcTrun r => [r] | _ => [] end.
Definition atraf_truns (t : atraf) : list trun := flat_map tc_truns t.

Fixpoint last_tfhd (t : atraf) : option tfhd :=
  match t with
  | [] => None
  | TcTfhd h :: rest => match last_tfhd rest with Some x => Some x | None => Some h end
  | _ :: rest => last_tfhd rest
  end.

Fixpoint upd_last_tfhd (h' : tfhd) (t : atraf) : atraf :=
  match t with
  | [] => []
  | TcTfhd h :: rest =>
      match last_tfhd rest with
      | Some _ => TcTfhd h :: upd_last_tfhd h' rest
      | None => TcTfhd h' :: rest
      end
  | c :: rest => c :: upd_last_tfhd h' rest
  end.

Fixpoint upd_first_trun (r' : trun) (t : atraf) : atraf :=
  match t with
  | [] => []
  | TcTrun _ :: rest => TcTrun r' :: rest
  | c :: rest => c :: upd_first_trun r' rest
  end.

Definition map_truns_traf (g : trun -> trun) (t : atraf) : atraf :=
  map (fun c => match c with TcTrun r => TcTrun (g r) | _ => c end) t.

(* TrafBox.OptimizeTfhdTrun on a traf that has a first trun r.  With t.Tfhd == nil the first write to the
   tfhd is a nil dereference: every such write sets a flag bit, so it shows on a dummy tfhd with Flags 0. *)
Definition NIL_TFHD : tfhd := mkTfhd 0 0 0 0 0 0 0.

Definition optimize_traf (t : atraf) : res atraf :=
  match atraf_truns t with
  | [] => Ok t                                        (* traf.Trun == nil: nothing to optimise (fb913b8) *)
  | r :: _ =>
      match last_tfhd t with
      | Some h =>
          do p <- optimize h r;
          Ok (upd_last_tfhd (fst p) (upd_first_trun (snd p) t))
      | None =>
          do p <- optimize NIL_TFHD r;
          if tf_flags (fst p) =? 0 then Ok (upd_first_trun (snd p) t) else Panic
      end
  end.

(* ------------------------------------------------------------------ moof *)
Inductive mchild := McMfhd (seq : N) | McTraf (t : atraf) | McOther (o : obox).
Definition amoof := list mchild.

Definition mc_size (c : mchild) : N :=
  match c with McMfhd _ => 16 | McTraf t => atraf_size t | McOther o => ob_size o end.

Definition mc_enc (c : mchild) : res (list N) :=
  match c with McMfhd s => Ok (enc_mfhd s) | McTraf t => atraf_enc t | McOther o => enc_obox o end.

Definition amoof_size (m : amoof) : N := 8 + sumN (map mc_size m).

Definition mc_truns (c : mchild) : list trun := match c with McTraf t => atraf_truns t | _ => [] end.
(* the truns of m.Trafs, traf by traf *)
Definition amoof_truns (m : amoof) : list trun := flat_map mc_truns m.

(* MoofBox.Encode: every trun of every traf is checked first *)
Definition amoof_enc (m : amoof) : res (list N) :=
  if existsb doff_unset (amoof_truns m) then Err
  else
    do hd <- enc_hdr TY_MOOF (amoof_size m);
    do cs <- enc_list mc_enc m;
    Ok (hd ++ concat cs).

Definition map_truns_moof (g : trun -> trun) (m : amoof) : amoof :=
  map (fun c => match c with McTraf t => McTraf (map_truns_traf g t) | _ => c end) m.

(* the optimisation of Fragment.Encode: m.Traf is the FIRST traf child *)
Fixpoint optimize_moof (m : amoof) : res amoof :=
  match m with
  | [] => Ok []                                       (* traf == nil *)
  | McTraf t :: rest => do t' <- optimize_traf t; Ok (McTraf t' :: rest)
  | c :: rest => do r <- optimize_moof rest; Ok (c :: r)
  end.

(* ------------------------------------------------------------------ mdat *)
(* MdatBox.Encode: header from Size() (which may set LargeSize), then Data or DataParts *)
Definition amd_enc (m : mdat) : mdat * res (list N) :=
  let m' := md_size_touch m in
  (m', do hd <- enc_hdr_large TY_MDAT (md_size m') (md_large m'); Ok (hd ++ md_written m')).

(* ------------------------------------------------------------------ SetTrunDataOffsets *)
(* put back, in child order, a list of truns (one per trun child) *)
Fixpoint put_truns_traf (t : atraf) (rs : list trun) : atraf * list trun :=
  match t with
  | [] => ([], rs)
  | TcTrun r :: rest =>
      match rs with
      | r' :: rs' => let '(t', k) := put_truns_traf rest rs' in (TcTrun r' :: t', k)
      | [] => (t, [])
      end
  | c :: rest => let '(t', k) := put_truns_traf rest rs in (c :: t', k)
  end.

Fixpoint put_truns_moof (m : amoof) (rs : list trun) : amoof * list trun :=
  match m with
  | [] => ([], rs)
  | McTraf t :: rest =>
      let '(t', k) := put_truns_traf t rs in
      let '(m', k') := put_truns_moof rest k in (McTraf t' :: m', k')
  | c :: rest => let '(m', k) := put_truns_moof rest rs in (c :: m', k)
  end.

(* the truns slice of SetTrunDataOffsets holds pointers: the model tags every trun with its position.
   sort.Slice by writeOrderNr: for up to 12 elements Go runs an insertion sort, which keeps equal keys in
   order; the stable insertion sort below is that (for more than 12 truns with EQUAL write order numbers Go's
   order is unspecified; the numbers made by the Add* operations are pairwise different) *)
Fixpoint tag_from (k : N) (l : list trun) : list (N * trun) :=
  match l with
  | [] => []
  | r :: t => (k, r) :: tag_from (k + 1) t
  end.

Fixpoint insert_ix (x : N * trun) (l : list (N * trun)) : list (N * trun) :=
  match l with
  | [] => [x]
  | y :: t => if tr_won (snd x) <=? tr_won (snd y) then x :: y :: t else y :: insert_ix x t
  end.
Definition sort_ix (l : list (N * trun)) : list (N * trun) := fold_right insert_ix [] l.

(* walking the sorted runs: (position, data offset) *)
Fixpoint assign_ix (l : list (N * trun)) (off : N) : list (N * Z) :=
  match l with
  | [] => []
  | x :: t => (fst x, i32 off) :: assign_ix t (u64 (off + size_of_data (snd x)))
  end.

Definition new_truns (truns : list trun) (base : N) : list trun :=
  let tbl := assign_ix (sort_ix (tag_from 0 truns)) base in
  map (fun x => tr_with_doff (snd x) (lookup_off tbl (fst x) (tr_doff (snd x)))) (tag_from 0 truns).

Definition aset_offsets (m : amoof) (md : mdat) : amoof * mdat :=
  let truns := amoof_truns m in
  let write_order_set := existsb (fun r => negb (tr_won r =? 0)) truns in
  if negb write_order_set && (1 <? lenN truns) then (m, md)
  else
    (* _ = f.Mdat.Size(): marks the mdat large-size when needed (a7c3604) *)
    let md' := md_size_touch md in
    (fst (put_truns_moof m (new_truns truns (amoof_size m + md_header_size md'))), md').

(* ------------------------------------------------------------------ Fragment *)
(* Children = pre ++ [moof] ++ mid ++ [mdat] ++ post (at most one moof and one mdat, moof first: what
   CreateFragment / CreateMultiTrackFragment / AddEmsg / DecodeFile produce); EncOptimize & OptimizeTrun *)
Record afrag := mkAfrag {
  af_pre : list obox; af_moof : option amoof; af_mid : list obox; af_mdat : option mdat; af_post : list obox;
  af_opt : bool }.

Definition af_set (fr : afrag) (m : option amoof) (md : option mdat) : afrag :=
  mkAfrag (af_pre fr) m (af_mid fr) md (af_post fr) (af_opt fr).
Definition af_set_opt (fr : afrag) (o : bool) : afrag :=
  mkAfrag (af_pre fr) (af_moof fr) (af_mid fr) (af_mdat fr) (af_post fr) o.

Definition obs_size (l : list obox) : N := sumN (map ob_size l).
Definition osize {A} (f : A -> N) (o : option A) : N := match o with Some x => f x | None => 0 end.

(* Fragment.Size(): the sum over Children; MdatBox.Size() sets LargeSize *)
Definition afrag_touch (fr : afrag) : afrag := af_set fr (af_moof fr) (option_map md_size_touch (af_mdat fr)).
Definition afrag_size (fr : afrag) : N :=
  obs_size (af_pre fr) + osize amoof_size (af_moof fr) + obs_size (af_mid fr)
  + osize md_size (af_mdat fr) + obs_size (af_post fr).

(* Fragment.Encode / EncodeSW: the state afterwards and the boxes written (top level, in order) *)
Definition afrag_encode (fr : afrag) : afrag * res (list (list N)) :=
  match af_moof fr with
  | None => (fr, Err)                                         (* moof not set in fragment *)
  | Some m =>
      match (if af_opt fr then optimize_moof m else Ok m) with
      | Ok m1 =>
          match af_mdat fr with
          | None => (af_set fr (Some m1) None, Err)           (* mdat not set in fragment *)
          | Some md =>
              let '(m2, md2) := aset_offsets m1 md in
              let fr2 := af_set fr (Some m2) (Some md2) in
              match enc_list enc_obox (af_pre fr) with
              | Ok b1 =>
                  match amoof_enc m2 with
                  | Ok b2 =>
                      match enc_list enc_obox (af_mid fr) with
                      | Ok b3 =>
                          let '(md3, r4) := amd_enc md2 in
                          let fr3 := af_set fr (Some m2) (Some md3) in
                          match r4 with
                          | Ok b4 =>
                              match enc_list enc_obox (af_post fr) with
                              | Ok b5 => (fr3, Ok (b1 ++ [b2] ++ b3 ++ [b4] ++ b5))
                              | _ => (fr3, Err)
                              end
                          | _ => (fr3, Err)
                          end
                      | _ => (fr2, Err)
                      end
                  | _ => (fr2, Err)
                  end
              | _ => (fr2, Err)
              end
          end
      | Panic => (fr, Panic)
      | _ => (fr, Err)                                        (* no samples in trun: nothing was changed *)
      end
  end.

(* ------------------------------------------------------------------ histories *)
Inductive aop := OpSize | OpInfo | OpEncode | OpEncodeSW.
Inductive aout := OutSize (n : N) | OutInfo | OutBytes (boxes : list (list N)) | OutErr | OutPanic.

Definition out_of (r : res (list (list N))) : aout :=
  match r with Ok b => OutBytes b | Panic => OutPanic | _ => OutErr end.

(* Info walks the same boxes as Size() and prints each box's Size(): for an mdat that sets LargeSize *)
Definition afrag_step (fr : afrag) (o : aop) : afrag * aout :=
  match o with
  | OpSize => (afrag_touch fr, OutSize (afrag_size fr))
  | OpInfo => (afrag_touch fr, OutInfo)
  | OpEncode | OpEncodeSW => let '(fr', r) := afrag_encode fr in (fr', out_of r)
  end.

(* a panic ends the history *)
Fixpoint run_hist {S} (step : S -> aop -> S * aout) (s : S) (ops : list aop) : list aout * S :=
  match ops with
  | [] => ([], s)
  | o :: rest =>
      let '(s', out) := step s o in
      match out with
      | OutPanic => ([OutPanic], s')
      | _ => let '(outs, s'') := run_hist step s' rest in (out :: outs, s'')
      end
  end.

(* ------------------------------------------------------------------ MediaSegment *)
Record aseg := mkAseg { sg_styp : option obox; sg_sidxs : list obox; sg_frags : list afrag; sg_opt : bool }.

Definition aseg_with_frags (s : aseg) (fs : list afrag) : aseg := mkAseg (sg_styp s) (sg_sidxs s) fs (sg_opt s).
Definition aseg_set_opt (s : aseg) (o : bool) : aseg := mkAseg (sg_styp s) (sg_sidxs s) (sg_frags s) o.

Definition aseg_touch (s : aseg) : aseg := aseg_with_frags s (map afrag_touch (sg_frags s)).
(* styp, ALL sidx boxes (6b1f123), fragments *)
Definition aseg_size (s : aseg) : N :=
  osize ob_size (sg_styp s) + obs_size (sg_sidxs s) + sumN (map afrag_size (sg_frags s)).

(* a loop `for _, x := range xs { err := x.Encode(w); if err != nil { return err } }` over stateful parts:
   the parts after the failing one are not reached *)
Fixpoint enc_seq {A} (enc : A -> A * res (list (list N))) (l : list A) : list A * res (list (list N)) :=
  match l with
  | [] => ([], Ok [])
  | a :: rest =>
      let '(a', r) := enc a in
      match r with
      | Ok b =>
          let '(rest', r2) := enc_seq enc rest in
          (a' :: rest', match r2 with Ok b2 => Ok (b ++ b2) | e => e end)
      | Panic => (a' :: rest, Panic)
      | _ => (a' :: rest, Err)
      end
  end.

(* `for _, f := range s.Fragments { f.EncOptimize = s.EncOptimize; err := f.Encode(w) ... }` *)
Definition enc_frags (opt : bool) (fs : list afrag) : list afrag * res (list (list N)) :=
  enc_seq (fun f => afrag_encode (af_set_opt f opt)) fs.

Definition opt_list {A} (o : option A) : list A := match o with Some x => [x] | None => [] end.

Definition aseg_encode (s : aseg) : aseg * res (list (list N)) :=
  match enc_list enc_obox (opt_list (sg_styp s) ++ sg_sidxs s) with
  | Ok b1 =>
      let '(fs', r) := enc_frags (sg_opt s) (sg_frags s) in
      (aseg_with_frags s fs', match r with Ok b2 => Ok (b1 ++ b2) | e => e end)
  | _ => (s, Err)
  end.

Definition aseg_step (s : aseg) (o : aop) : aseg * aout :=
  match o with
  | OpSize => (aseg_touch s, OutSize (aseg_size s))
  | OpInfo => (aseg_touch s, OutInfo)
  | OpEncode | OpEncodeSW => let '(s', r) := aseg_encode s in (s', out_of r)
  end.

(* ------------------------------------------------------------------ InitSegment *)
Definition ainit := list obox.
Definition ainit_size (i : ainit) : N := obs_size i.
Definition ainit_encode (i : ainit) : res (list (list N)) := enc_list enc_obox i.
Definition ainit_step (i : ainit) (o : aop) : ainit * aout :=
  match o with
  | OpSize => (i, OutSize (ainit_size i))
  | OpInfo => (i, OutInfo)
  | OpEncode | OpEncodeSW => (i, out_of (ainit_encode i))
  end.

(* ------------------------------------------------------------------ File *)
(* f.Children as Encode in box-tree mode / of a progressive file sees them: MoofBox.Encode and MdatBox.Encode
   directly (no optimisation, no SetTrunDataOffsets) *)
Inductive fchild := FcMoof (m : amoof) | FcMdat (md : mdat) | FcOther (o : obox).

Definition fc_size (c : fchild) : N :=
  match c with FcMoof m => amoof_size m | FcMdat md => md_size md | FcOther o => ob_size o end.
Definition fc_touch (c : fchild) : fchild := match c with FcMdat md => FcMdat (md_size_touch md) | _ => c end.

Definition fc_encode (c : fchild) : fchild * res (list (list N)) :=
  match c with
  | FcMoof m => (c, do b <- amoof_enc m; Ok [b])
  | FcMdat md => let '(md', r) := amd_enc md in (FcMdat md', do b <- r; Ok [b])
  | FcOther o => (c, do b <- enc_obox o; Ok [b])
  end.
Definition enc_children (cs : list fchild) : list fchild * res (list (list N)) := enc_seq fc_encode cs.

(* `for _, seg := range f.Segments { if f.EncOptimize&OptimizeTrun != 0 { seg.EncOptimize = f.EncOptimize }; seg.Encode }` *)
Definition enc_segs (fopt : bool) (ss : list aseg) : list aseg * res (list (list N)) :=
  enc_seq (fun s => aseg_encode (if fopt then aseg_set_opt s true else s)) ss.

(* fl_mode: FragEncMode (0 = EncModeSegment, 1 = EncModeBoxTree).  In Go the segments of a DECODED file and
   f.Children share their boxes (fl_shared = true); a file assembled with AddMediaSegment has the fragments'
   boxes in the segments only (fl_shared = false).  A File is encoded in ONE mode, and the model keeps up to date
   the view that mode reads.  File.Info always walks f.Children: in segment mode it reaches the mdat boxes of
   the segments only when they are shared. *)
Record afile := mkAfile {
  fl_fragmented : bool; fl_mode : N; fl_opt : bool; fl_shared : bool;
  fl_init : option ainit; fl_sidxs : list obox; fl_segs : list aseg; fl_mfra : option obox;
  fl_children : list fchild }.

Definition afile_seg_mode (f : afile) : bool := fl_fragmented f && (fl_mode f =? 0).

Definition afile_with (f : afile) (ss : list aseg) (cs : list fchild) : afile :=
  mkAfile (fl_fragmented f) (fl_mode f) (fl_opt f) (fl_shared f) (fl_init f) (fl_sidxs f) ss (fl_mfra f) cs.

(* File.Size() (5f71df3) *)
Definition afile_size (f : afile) : N :=
  if afile_seg_mode f then
    osize ainit_size (fl_init f) + obs_size (fl_sidxs f) + sumN (map aseg_size (fl_segs f))
    + osize ob_size (fl_mfra f)
  else sumN (map fc_size (fl_children f)).
Definition afile_touch (f : afile) : afile :=
  if afile_seg_mode f then afile_with f (map aseg_touch (fl_segs f)) (fl_children f)
  else afile_with f (fl_segs f) (map fc_touch (fl_children f)).

Definition afile_info (f : afile) : afile :=
  if afile_seg_mode f then (if fl_shared f then afile_with f (map aseg_touch (fl_segs f)) (fl_children f) else f)
  else afile_with f (fl_segs f) (map fc_touch (fl_children f)).

Definition afile_encode (f : afile) : afile * res (list (list N)) :=
  if fl_fragmented f && negb (fl_mode f =? 0) && negb (fl_mode f =? 1) then (f, Err)   (* unknown FragEncMode *)
  else if afile_seg_mode f then
    match enc_list enc_obox (match fl_init f with Some i => i | None => [] end ++ fl_sidxs f) with
    | Ok b1 =>
        let '(ss', r) := enc_segs (fl_opt f) (fl_segs f) in
        let f' := afile_with f ss' (fl_children f) in
        match r with
        | Ok b2 =>
            match enc_list enc_obox (opt_list (fl_mfra f)) with
            | Ok b3 => (f', Ok (b1 ++ b2 ++ b3))
            | _ => (f', Err)
            end
        | Panic => (f', Panic)
        | _ => (f', Err)
        end
    | _ => (f, Err)
    end
  else
    let '(cs', r) := enc_children (fl_children f) in (afile_with f (fl_segs f) cs', r).

Definition afile_step (f : afile) (o : aop) : afile * aout :=
  match o with
  | OpSize => (afile_touch f, OutSize (afile_size f))
  | OpInfo => (afile_info f, OutInfo)
  | OpEncode | OpEncodeSW => let '(f', r) := afile_encode f in (f', out_of r)
  end.

(* ------------------------------------------------------------------ embedding of the C05 fragments *)
(* a fragment of C05FragModel without extra boxes, in the child order the constructors make *)
Definition of_c05_traf (t : traf) : atraf :=
  TcTfhd (tf_hd t) :: TcTfdt (tf_dt t) :: map TcTrun (tf_truns t).
Definition of_c05_moof (seq : N) (fr : frag) : amoof := McMfhd seq :: map (fun t => McTraf (of_c05_traf t)) (fr_trafs fr).
Definition of_c05 (seq : N) (opt : bool) (fr : frag) : afrag :=
  mkAfrag [] (Some (of_c05_moof seq fr)) [] (Some (fr_mdat fr)) [] opt.
