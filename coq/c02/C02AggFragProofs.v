(* C02AggFragProofs.v — Fragment.Encode: bytes written = Size() afterwards (= beforehand without optimisation),
   the output is tiled by its size fields, a second Encode changes nothing and writes the same bytes;
   histories of Size / Info / Encode / EncodeSW. *)
From V.lib Require Import Base.
From V.c05 Require Import C05Model C05FragModel C05CodecModel.
From V.c02 Require Import C02AggModel C02AggSizeProofs C02AggOptProofs.

Definition oall {A} (f : A -> bool) (o : option A) : bool := match o with Some x => f x | None => true end.

Definition afrag_wf (fr : afrag) : bool :=
  obs_wf (af_pre fr) && oall amoof_wf (af_moof fr) && obs_wf (af_mid fr) && oall md_wf (af_mdat fr) && obs_wf (af_post fr).

Definition all_ok (boxes : list (list N)) : Prop := Forall (fun b => box_ok b = true) boxes.
Definition lens (boxes : list (list N)) : N := sumN (map (fun b => lenN b) boxes).

Lemma lens_app a b : lens (a ++ b) = lens a + lens b.
Proof. apply sumN_lens_app. Qed.
Lemma lens_concat boxes : lenN (concat boxes) = lens boxes.
Proof. apply lenN_concat. Qed.

(* ------------------------------------------------------------------ inversion of a successful Encode *)
Inductive enc_facts (fr fr' : afrag) (boxes : list (list N)) : Prop :=
| EncFacts (m m1 : amoof) (md : mdat) (m2 : amoof) (md2 : mdat)
    (b1 : list (list N)) (b2 : list N) (b3 : list (list N)) (b4 : list N) (b5 : list (list N))
    (ef_moof : af_moof fr = Some m)
    (ef_opt : (if af_opt fr then optimize_moof m else Ok m) = Ok m1)
    (ef_mdat : af_mdat fr = Some md)
    (ef_off : aset_offsets m1 md = (m2, md2))
    (ef_pre : enc_list enc_obox (af_pre fr) = Ok b1)
    (ef_menc : amoof_enc m2 = Ok b2)
    (ef_mid : enc_list enc_obox (af_mid fr) = Ok b3)
    (ef_denc : amd_enc md2 = (md_size_touch md2, Ok b4))
    (ef_post : enc_list enc_obox (af_post fr) = Ok b5)
    (ef_state : fr' = af_set fr (Some m2) (Some (md_size_touch md2)))
    (ef_boxes : boxes = b1 ++ [b2] ++ b3 ++ [b4] ++ b5).

Lemma amd_enc_fst m : fst (amd_enc m) = md_size_touch m.
Proof. reflexivity. Qed.

Lemma afrag_encode_inv fr fr' boxes : afrag_encode fr = (fr', Ok boxes) -> enc_facts fr fr' boxes.
Proof.
  unfold afrag_encode. destruct (af_moof fr) as [m|] eqn:Em; [|discriminate].
  destruct (if af_opt fr then optimize_moof m else Ok m) as [m1| | |] eqn:Eo; try discriminate.
  destruct (af_mdat fr) as [md|] eqn:Ed; [|discriminate].
  destruct (aset_offsets m1 md) as [m2 md2] eqn:Es.
  destruct (enc_list enc_obox (af_pre fr)) as [b1| | |] eqn:E1; try discriminate.
  destruct (amoof_enc m2) as [b2| | |] eqn:E2; try discriminate.
  destruct (enc_list enc_obox (af_mid fr)) as [b3| | |] eqn:E3; try discriminate.
  destruct (amd_enc md2) as [md3 r4] eqn:E4.
  assert (Hmd3 : md3 = md_size_touch md2) by (rewrite <- (amd_enc_fst md2), E4; reflexivity).
  destruct r4 as [b4| | |]; try discriminate.
  destruct (enc_list enc_obox (af_post fr)) as [b5| | |] eqn:E5; try discriminate.
  intros [= <- <-]. subst md3.
  exact (EncFacts fr _ _ m m1 md m2 md2 b1 b2 b3 b4 b5 Em Eo Ed Es E1 E2 E3 E4 E5 eq_refl eq_refl).
Qed.

(* and the other way round *)
Lemma afrag_encode_intro fr m m1 md m2 md2 b1 b2 b3 b4 b5 :
  af_moof fr = Some m -> (if af_opt fr then optimize_moof m else Ok m) = Ok m1 -> af_mdat fr = Some md ->
  aset_offsets m1 md = (m2, md2) -> enc_list enc_obox (af_pre fr) = Ok b1 -> amoof_enc m2 = Ok b2 ->
  enc_list enc_obox (af_mid fr) = Ok b3 -> amd_enc md2 = (md_size_touch md2, Ok b4) ->
  enc_list enc_obox (af_post fr) = Ok b5 ->
  afrag_encode fr = (af_set fr (Some m2) (Some (md_size_touch md2)), Ok (b1 ++ [b2] ++ b3 ++ [b4] ++ b5)).
Proof.
  intros Em Eo Ed Es E1 E2 E3 E4 E5. unfold afrag_encode. rewrite Em, Eo, Ed, Es, E1, E2, E3, E4, E5. reflexivity.
Qed.

(* ------------------------------------------------------------------ the size theorem *)
Lemma afrag_wf_parts fr : afrag_wf fr = true ->
  obs_wf (af_pre fr) = true /\ oall amoof_wf (af_moof fr) = true /\ obs_wf (af_mid fr) = true /\
  oall md_wf (af_mdat fr) = true /\ obs_wf (af_post fr) = true.
Proof.
  unfold afrag_wf. intros H. repeat (apply andb_true_iff in H; destruct H as [H ?]). repeat split; assumption.
Qed.

Lemma md_wf_after md md2 : (md2 = md \/ md2 = md_size_touch md) -> md_wf md = true -> md_wf md2 = true /\ md_size md2 = md_size md.
Proof. intros [->| ->] W; [split; [exact W|reflexivity]|]. rewrite md_wf_touch, md_size_touch_eq. split; [exact W|reflexivity]. Qed.

Theorem fragment_size fr fr' boxes :
  afrag_encode fr = (fr', Ok boxes) -> afrag_wf fr = true ->
  lenN (concat boxes) = afrag_size fr' /\ lens boxes = afrag_size fr' /\ all_ok boxes /\
  (af_opt fr = false -> afrag_size fr = afrag_size fr') /\ afrag_wf fr' = true.
Proof.
  intros H W. destruct (afrag_encode_inv fr fr' boxes H) as [m m1 md m2 md2 b1 b2 b3 b4 b5 Em Eo Ed Es E1 E2 E3 E4 E5 -> ->].
  destruct (afrag_wf_parts fr W) as (W1 & W2 & W3 & W4 & W5). rewrite Em in W2. rewrite Ed in W4. cbn [oall] in W2, W4.
  assert (Wm1 : amoof_wf m1 = true).
  { destruct (af_opt fr); [rewrite (optimize_moof_wf m m1 Eo); exact W2|injection Eo as <-; exact W2]. }
  destruct (aset_offsets_dv m1 md m2 md2 Es) as [D Hmd].
  assert (Wm2 : amoof_wf m2 = true) by (rewrite (moof_dv_wf m1 m2 D); exact Wm1).
  destruct (md_wf_after md md2 Hmd W4) as [Wd2 Sd2].
  destruct (enc_oboxes_ok _ _ E1 W1) as [L1 B1]. destruct (enc_oboxes_ok _ _ E3 W3) as [L3 B3].
  destruct (enc_oboxes_ok _ _ E5 W5) as [L5 B5].
  destruct (amoof_enc_ok m2 b2 E2 Wm2) as [L2 (kids & _ & T2)].
  destruct (amd_enc_ok md2 _ b4 E4 Wd2) as (_ & L4 & B4).
  assert (Hl : lens (b1 ++ [b2] ++ b3 ++ [b4] ++ b5) = afrag_size (af_set fr (Some m2) (Some (md_size_touch md2)))).
  { rewrite !lens_app. unfold afrag_size, lens. cbn [af_set af_pre af_moof af_mid af_mdat af_post osize map sumN].
    fold (lens b1). fold (lens b3). fold (lens b5). unfold lens. rewrite L1, L3, L5, L2, L4, md_size_touch_eq. lia. }
  split; [rewrite lens_concat; exact Hl|]. split; [exact Hl|]. split; [|split].
  - unfold all_ok. repeat (apply Forall_app; split); try assumption.
    + constructor; [eapply tiled_box_ok; exact T2|constructor].
    + constructor; [exact B4|constructor].
  - intros Ho. rewrite Ho in Eo. injection Eo as <-.
    unfold afrag_size. cbn [af_set af_pre af_moof af_mid af_mdat af_post]. rewrite Em, Ed. cbn [osize].
    rewrite (moof_dv_size m m2 D), md_size_touch_eq, Sd2. reflexivity.
  - unfold afrag_wf. cbn [af_set af_pre af_moof af_mid af_mdat af_post oall]. rewrite W1, Wm2, W3, W5, md_wf_touch, Wd2. reflexivity.
Qed.

(* the moof that was written: a tiled container whose traf children are tiled containers *)
Theorem fragment_moof_tiled fr fr' boxes :
  afrag_encode fr = (fr', Ok boxes) -> afrag_wf fr = true ->
  exists m2 b2 kids, af_moof fr' = Some m2 /\ In b2 boxes /\ lenN b2 = amoof_size m2 /\
    tiled_container TY_MOOF b2 kids /\
    Forall2 (fun c k => match c with
                        | McTraf t => lenN k = atraf_size t /\
                                      exists tk, enc_list tc_enc t = Ok tk /\ tiled_container TY_TRAF k tk
                        | _ => lenN k = mc_size c
                        end) m2 kids.
Proof.
  intros H W. destruct (afrag_encode_inv fr fr' boxes H) as [m m1 md m2 md2 b1 b2 b3 b4 b5 Em Eo Ed Es E1 E2 E3 E4 E5 -> ->].
  destruct (afrag_wf_parts fr W) as (W1 & W2 & W3 & W4 & W5). rewrite Em in W2. cbn [oall] in W2.
  assert (Wm1 : amoof_wf m1 = true).
  { destruct (af_opt fr); [rewrite (optimize_moof_wf m m1 Eo); exact W2|injection Eo as <-; exact W2]. }
  destruct (aset_offsets_dv m1 md m2 md2 Es) as [D _].
  assert (Wm2 : amoof_wf m2 = true) by (rewrite (moof_dv_wf m1 m2 D); exact Wm1).
  destruct (amoof_enc_ok m2 b2 E2 Wm2) as [L2 (kids & K & T2)].
  exists m2, b2, kids. split; [reflexivity|]. split; [apply in_or_app; right; left; reflexivity|].
  split; [exact L2|]. split; [exact T2|]. apply amoof_trafs_tiled; assumption.
Qed.

(* ------------------------------------------------------------------ a second Encode *)
Definition settled {S} (step : S -> aop -> S * aout) (s : S) (boxes : list (list N)) (n : N) : Prop :=
  step s OpEncode = (s, OutBytes boxes) /\ step s OpEncodeSW = (s, OutBytes boxes) /\
  step s OpSize = (s, OutSize n) /\ step s OpInfo = (s, OutInfo).

Lemma amd_enc_touched m b : amd_enc m = (md_size_touch m, Ok b) -> amd_enc (md_size_touch m) = (md_size_touch m, Ok b).
Proof. unfold amd_enc. cbv zeta. intros H. rewrite md_touch_idem. exact H. Qed.

Lemma afrag_encode_settles fr fr' boxes : afrag_encode fr = (fr', Ok boxes) -> afrag_encode fr' = (fr', Ok boxes).
Proof.
  intros H. destruct (afrag_encode_inv fr fr' boxes H) as [m m1 md m2 md2 b1 b2 b3 b4 b5 Em Eo Ed Es E1 E2 E3 E4 E5 -> ->].
  destruct (aset_offsets_dv m1 md m2 md2 Es) as [D Hmd].
  pose proof (aset_offsets_idem m1 md m2 md2 Es) as I.
  assert (O1 : moof_optimised m2 = true \/ af_opt fr = false).
  { destruct (af_opt fr); [left|right; reflexivity].
    rewrite (moof_dv_optimised m1 m2 D). eapply optimize_moof_optimised. exact Eo. }
  (* SetTrunDataOffsets on (m2, touch md2) *)
  assert (I2 : aset_offsets m2 (md_size_touch md2) = (m2, md_size_touch md2)).
  { destruct Hmd as [->| ->].
    - (* the early return: md2 = md, m2 = m1 by I; on the touched mdat the same branch is taken *)
      revert I. unfold aset_offsets.
      destruct (negb (existsb (fun r => negb (tr_won r =? 0)) (amoof_truns m2)) && (1 <? lenN (amoof_truns m2))); [reflexivity|].
      intros [= I1 I2]. rewrite !md_touch_idem. rewrite I1. reflexivity.
    - rewrite md_touch_idem. exact I. }
  pose proof (afrag_encode_intro (af_set fr (Some m2) (Some (md_size_touch md2))) m2 m2 (md_size_touch md2) m2 (md_size_touch md2)
                b1 b2 b3 b4 b5) as R.
  cbn [af_set af_pre af_moof af_mid af_mdat af_post af_opt] in R. rewrite md_touch_idem in R.
  apply R; try reflexivity; try assumption.
  - destruct O1 as [O1|O1]; [|rewrite O1; reflexivity]. destruct (af_opt fr); [|reflexivity]. apply moof_optimised_fix. exact O1.
  - apply amd_enc_touched. exact E4.
Qed.

Lemma afrag_touch_settled fr fr' boxes : afrag_encode fr = (fr', Ok boxes) -> afrag_touch fr' = fr'.
Proof.
  intros H. destruct (afrag_encode_inv fr fr' boxes H) as [m m1 md m2 md2 b1 b2 b3 b4 b5 Em Eo Ed Es E1 E2 E3 E4 E5 -> ->].
  unfold afrag_touch, af_set. cbn [af_pre af_moof af_mid af_mdat af_post af_opt option_map]. rewrite md_touch_idem. reflexivity.
Qed.

Theorem fragment_settles fr fr' boxes o :
  (o = OpEncode \/ o = OpEncodeSW) -> afrag_step fr o = (fr', OutBytes boxes) -> afrag_wf fr = true ->
  settled afrag_step fr' boxes (lenN (concat boxes)).
Proof.
  intros Ho H W.
  assert (E : afrag_encode fr = (fr', Ok boxes)).
  { destruct Ho as [-> | ->]; cbn [afrag_step] in H; destruct (afrag_encode fr) as [f r]; destruct r; cbn [out_of] in H;
      try discriminate; injection H as <- <-; reflexivity. }
  pose proof (afrag_encode_settles fr fr' boxes E) as S. pose proof (afrag_touch_settled fr fr' boxes E) as T.
  destruct (fragment_size fr fr' boxes E W) as (L & _).
  unfold settled. cbn [afrag_step]. rewrite S, T, L. cbn [out_of]. repeat split.
Qed.

(* ------------------------------------------------------------------ histories, for any aggregate *)
Definition expected (boxes : list (list N)) (n : N) (o : aop) : aout :=
  match o with OpSize => OutSize n | OpInfo => OutInfo | OpEncode | OpEncodeSW => OutBytes boxes end.

Lemma run_hist_settled {S} (step : S -> aop -> S * aout) s boxes n :
  settled step s boxes n -> forall ops, run_hist step s ops = (map (expected boxes n) ops, s).
Proof.
  intros (H1 & H2 & H3 & H4) ops. induction ops as [|o rest IH]; [reflexivity|].
  cbn [run_hist map]. destruct o; cbn [expected]; rewrite ?H1, ?H2, ?H3, ?H4, IH; reflexivity.
Qed.

Lemma run_hist_app {S} (step : S -> aop -> S * aout) ops1 : forall s ops2,
  ~ In OutPanic (fst (run_hist step s ops1)) ->
  run_hist step s (ops1 ++ ops2) =
    (fst (run_hist step s ops1) ++ fst (run_hist step (snd (run_hist step s ops1)) ops2),
     snd (run_hist step (snd (run_hist step s ops1)) ops2)).
Proof.
  induction ops1 as [|o rest IH]; intros s ops2 Hn.
  - cbn [run_hist app fst snd]. destruct (run_hist step s ops2); reflexivity.
  - cbn [app run_hist] in *. destruct (step s o) as [s' out]. destruct out; cbn [fst snd] in *;
      try (specialize (IH s' ops2); destruct (run_hist step s' rest) as [outs s'']; cbn [fst snd] in *;
           rewrite IH by (intros F; apply Hn; right; exact F);
           destruct (run_hist step s'' ops2); reflexivity).
    exfalso. apply Hn. left. reflexivity.
Qed.

(* the invariant over arbitrary histories: once an Encode / EncodeSW has succeeded, every later Size() is the
   number of bytes written, every later Encode / EncodeSW writes the same bytes, and nothing changes any more *)
Theorem fragment_history fr ops1 o ops2 fr1 fr2 boxes :
  snd (run_hist afrag_step fr ops1) = fr1 -> ~ In OutPanic (fst (run_hist afrag_step fr ops1)) ->
  (o = OpEncode \/ o = OpEncodeSW) -> afrag_step fr1 o = (fr2, OutBytes boxes) -> afrag_wf fr1 = true ->
  run_hist afrag_step fr (ops1 ++ o :: ops2) =
    (fst (run_hist afrag_step fr ops1) ++ OutBytes boxes :: map (expected boxes (lenN (concat boxes))) ops2, fr2).
Proof.
  intros H1 Hn Ho Hs W. rewrite run_hist_app by exact Hn. rewrite H1. cbn [run_hist]. rewrite Hs.
  rewrite (run_hist_settled afrag_step fr2 boxes _ (fragment_settles fr1 fr2 boxes o Ho Hs W)). reflexivity.
Qed.

(* well-formedness is an invariant of every operation *)
Lemma afrag_touch_wf fr : afrag_wf (afrag_touch fr) = afrag_wf fr.
Proof.
  unfold afrag_wf, afrag_touch, af_set. cbn [af_pre af_moof af_mid af_mdat af_post]. destruct (af_mdat fr); cbn [option_map oall];
    rewrite ?md_wf_touch; reflexivity.
Qed.
