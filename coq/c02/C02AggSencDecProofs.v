(* C02AggSencDecProofs.v — the SencBox states the decoders produce (DecodeSenc / DecodeSencSR, then optionally
   ParseReadBox): which of them have Size() = bytes written.
   - a box as the first phase leaves it (read, parsed or not) is exact: Size() (the remembered readBoxSize) bytes are
     written, with a correct size field - since repo commit 954ff09 also when sample_count is 0 and bytes follow
     (C02-K1 / K2 / K4, refuted for the text before it);
   - after a successful ParseReadBox the encoders write calcSize() bytes while Size() still answers readBoxSize:
     equal exactly when the second phase consumed all the bytes (`senc_parse_exact`), which the sub-sample path checks
     and, since repo commit 4cf4f8b, the path without sub-samples too: every decoded and parsed box is exact
     (senc_parsed_always_exact); the text before 4cf4f8b is refuted (C02-K5). *)
From V.lib Require Import Base.
From V.c05 Require Import C05CodecModel C05CodecProofs.
From V.c02 Require Import C02AggModel C02AggSizeProofs C02AggSencModel C02AggSencProofs.

(* ------------------------------------------------------------------ helpers *)
Lemma lenN_skipn {A} (k : nat) (l : list A) : lenN (skipn k l) = lenN l - N.of_nat k.
Proof. unfold lenN. rewrite skipn_length. lia. Qed.

Lemma lenN_firstn_le {A} (k : nat) (l : list A) : N.of_nat k <= lenN l -> lenN (firstn k l) = N.of_nat k.
Proof. intros H. apply lenN_firstn. unfold lenN in H. lia. Qed.

Lemma lenN_0_nil {A} (l : list A) : lenN l = 0 -> l = [].
Proof. destruct l; [reflexivity|]. unfold lenN. cbn [length]. lia. Qed.

Lemma sn_use_subs_flags s f : sn_use_subs (sn_with_flags s f) = N.testbit f B_SUBS.
Proof. reflexivity. Qed.

(* ------------------------------------------------------------------ the first phase *)
(* what DecodeSenc leaves *)
Definition decoded (hsize hlen : N) (payload : list N) (s : senc) : Prop :=
  senc_decode hsize hlen payload = Ok s /\ lenN payload + hlen = hsize.

Lemma decoded_fields hsize hlen payload s : decoded hsize hlen payload s ->
  sn_ivsize s = 0 /\ sn_ivs s = [] /\ sn_subs s = [] /\ sn_read s = 16 + lenN (sn_raw s) /\
  sn_np s = negb ((sn_count s =? 0) || (lenN (sn_raw s) =? 0)) /\
  (sn_use_subs s = true -> 2 * sn_count s <= lenN (sn_raw s)).
Proof.
  intros [H L]. unfold senc_decode in H.
  destruct (hsize <? 16); [discriminate|]. destruct (lenN payload <? 8) eqn:E8; [discriminate|].
  destruct (0 <? rd32_at payload 0 / 16777216); [discriminate|].
  set (raw := skipn 8 payload) in *.
  assert (Hraw : lenN raw = lenN payload - 8) by (unfold raw; rewrite lenN_skipn; lia). clearbody raw.
  destruct (N.testbit (rd32_at payload 0 mod 16777216) B_SUBS && (lenN raw <? 2 * rd32_at payload 4)) eqn:Ef; [discriminate|].
  injection H as <-. cbn [sn_ivsize sn_ivs sn_subs sn_read sn_raw sn_np sn_count]. apply N.ltb_ge in E8.
  repeat split. { lia. }
  unfold sn_use_subs. cbn [sn_flags]. intros Hf. rewrite Hf in Ef. cbn [andb] in Ef. apply N.ltb_ge in Ef. exact Ef.
Qed.

Lemma setflag_no_subs s : sn_subs s = [] -> senc_setflag s = s.
Proof. intros H. unfold senc_setflag. rewrite H. reflexivity. Qed.

(* the body EncodeSWNoHdr writes for a freshly decoded box is its rawData *)
Lemma decoded_body hsize hlen payload s : decoded hsize hlen payload s -> senc_body s = Ok (sn_raw s).
Proof.
  intros D. destruct (decoded_fields _ _ _ _ D) as (Hi & Hv & Hs & Hr & Hn & Hf).
  unfold senc_body, senc_body_gen. rewrite Hn.
  destruct (sn_count s =? 0) eqn:Ec; cbn [orb negb andb].
  - assert (H0 : (0 <? sn_read s) = true) by (apply N.ltb_lt; lia). rewrite H0. reflexivity.
  - destruct (lenN (sn_raw s) =? 0) eqn:El; cbn [negb]; [|reflexivity].
    apply N.eqb_eq in El. rewrite Hi. cbn [N.eqb andb].
    destruct (sn_use_subs s) eqn:Eu.
    + apply N.eqb_neq in Ec. specialize (Hf eq_refl). lia.
    + cbn [negb]. rewrite (lenN_0_nil _ El). reflexivity.
Qed.

Definition senc_written (r : res (list N)) (n : N) : Prop := exists b, r = Ok b /\ lenN b = n /\ box_ok b = true.

(* C02 for a SencBox as the decoders leave it: Size() = bytes written = size field, on both encode paths, and
   nothing is changed by Encode / EncodeSW / Info *)
Theorem senc_decoded_exact hsize hlen payload s : decoded hsize hlen payload s ->
  senc_size s = Ok (sn_read s) /\
  ((TWO32 <=? sn_read s) = true /\ snd (senc_encode_w s) = Err /\ snd (senc_encode_sw s) = Err
   \/ fst (senc_encode_w s) = s /\ fst (senc_encode_sw s) = s /\
      senc_written (snd (senc_encode_w s)) (sn_read s) /\ snd (senc_encode_sw s) = snd (senc_encode_w s)) /\
  senc_info s = Ok s.
Proof.
  intros D. destruct (decoded_fields _ _ _ _ D) as (Hi & Hv & Hs & Hr & Hn & Hf).
  assert (Hpos : (0 <? sn_read s) = true) by (apply N.ltb_lt; lia).
  assert (Hsz : senc_size s = Ok (sn_read s)) by (unfold senc_size; rewrite Hpos; reflexivity).
  split; [exact Hsz|]. pose proof (setflag_no_subs s Hs) as Hfix. split.
  - unfold senc_encode_w, senc_encode_sw. rewrite Hfix. unfold senc_all, senc_all_gen. fold senc_body.
    rewrite Hsz, (decoded_body _ _ _ _ D). cbn [rbind]. unfold enc_hdr.
    destruct (TWO32 <=? sn_read s) eqn:E; cbn [rbind snd fst]; [left; repeat split|]. right. apply N.leb_gt in E.
    set (b := (be32 (sn_read s) ++ TY_SENC) ++ be32 (u32 (sn_version s * 16777216 + sn_flags s)) ++ be32 (sn_count s) ++ sn_raw s).
    assert (Hlen : lenN b = sn_read s).
    { unfold b. rewrite !lenN_app, !lenN_be32. change (lenN TY_SENC) with 4. lia. }
    rewrite Hlen, N.ltb_irrefl. repeat split. exists b. repeat split; [exact Hlen|].
    unfold b in *. rewrite <- app_assoc in *. apply box_ok_compact; [reflexivity|exact E|lia|exact Hlen].
  - unfold senc_info. rewrite Hfix. destruct (sn_np s); [reflexivity|].
    unfold senc_index_bad. rewrite Hi, Hv, Hs. cbn [N.ltb N.compare andb orb].
    destruct (sn_use_subs s) eqn:Eu; [|reflexivity]. specialize (Hf eq_refl). cbn [andb].
    (* not readButNotParsed with the flag: the count is 0 (the decoder refused 2*count > len(raw) = 0 otherwise) *)
    change (lenN (@nil (list subsample))) with 0.
    destruct (0 <? sn_count s) eqn:Ec; [|reflexivity]. apply N.ltb_lt in Ec. exfalso.
    destruct (sn_count s =? 0) eqn:E0; [apply N.eqb_eq in E0; lia|]. cbn [orb] in Hn.
    destruct (lenN (sn_raw s) =? 0) eqn:El; [apply N.eqb_eq in El; lia|discriminate].
Qed.

(* the encoder text before 954ff09: a decoded box with sample_count 0 and bytes after it says Size() 20 and writes 16
   bytes (findings C02-K1, K2, K4; C01-K71, K78) *)
Lemma senc_zero_pinned_refuted : exists hsize hlen payload s b,
  decoded hsize hlen payload s /\ senc_size s = Ok 20 /\
  (do p <- senc_all_gen false s; Ok (snd p)) = Ok b /\ lenN b = 16.
Proof.
  exists 20, 8, [0; 0; 0; 0; 0; 0; 0; 0; 1; 2; 3; 4].
  eexists. eexists. split; [split; [vm_compute; reflexivity|reflexivity]|]. split; [reflexivity|]. split; reflexivity.
Qed.

(* ------------------------------------------------------------------ the second phase, path without sub-samples *)
Lemma rd_ivs_spec n piv : forall d, N.of_nat n * N.of_nat piv <= lenN d ->
  length (rd_ivs n piv d) = n /\ Forall (fun iv => lenN iv = N.of_nat piv) (rd_ivs n piv d).
Proof.
  induction n as [|n IH]; intros d H; [split; [reflexivity|constructor]|].
  cbn [rd_ivs]. destruct (IH (skipn piv d)) as [L F]. { rewrite lenN_skipn. lia. }
  split; [cbn [length]; rewrite L; reflexivity|]. constructor; [|exact F]. apply lenN_firstn_le. lia.
Qed.

(* ------------------------------------------------------------------ the second phase, sub-sample path *)
Lemma rd_patterns_length k : forall d, length (rd_patterns k d) = k.
Proof. induction k as [|k IH]; intros d; [reflexivity|]. cbn [rd_patterns length]. rewrite IH. reflexivity. Qed.

Lemma parse_samples_spec n piv : forall d ivs sss rest,
  parse_samples n piv d = Some (ivs, sss, rest) ->
  length sss = n /\ length ivs = (if 0 <? piv then n else 0%nat) /\ Forall (fun iv => lenN iv = piv) ivs /\
  lenN d = N.of_nat n * piv + sumN (map (fun l : list subsample => 2 + 6 * lenN l) sss) + lenN rest.
Proof.
  induction n as [|n IH]; intros d ivs sss rest H.
  - injection H as <- <- <-. split; [reflexivity|]. split; [destruct (0 <? piv); reflexivity|]. split; [constructor|].
    cbn [map sumN]. lia.
  - cbn [parse_samples] in H.
    destruct ((0 <? piv) && (lenN d <? piv)) eqn:E1; [discriminate|].
    set (d1 := skipn (N.to_nat piv) d) in *.
    destruct (lenN d1 <? 2) eqn:E2; [discriminate|].
    set (cnt := match d1 with a :: b :: _ => a * 256 + b | _ => 0 end) in *.
    set (d2 := skipn 2 d1) in *.
    destruct (lenN d2 <? cnt * 6) eqn:E3; [discriminate|].
    destruct (parse_samples n piv (skipn (N.to_nat (cnt * 6)) d2)) as [[[ivs' sss'] rest']|] eqn:Ep; [|discriminate].
    injection H as <- <- <-. destruct (IH _ _ _ _ Ep) as (L1 & L2 & F & S).
    apply N.ltb_ge in E2, E3.
    assert (Hpiv : piv <= lenN d).
    { destruct (0 <? piv) eqn:Ez; cbn [andb] in E1; [apply N.ltb_ge in E1; exact E1|apply N.ltb_ge in Ez; lia]. }
    assert (Hd1 : lenN d1 = lenN d - piv) by (unfold d1; rewrite lenN_skipn; lia).
    assert (Hd2 : lenN d2 = lenN d1 - 2) by (unfold d2; rewrite lenN_skipn; lia).
    rewrite lenN_skipn in S.
    assert (Hss : lenN (rd_patterns (N.to_nat cnt) d2) = cnt) by (unfold lenN; rewrite rd_patterns_length; lia).
    split; [cbn [length]; rewrite L1; reflexivity|]. split; [|split].
    + destruct (0 <? piv); [cbn [length]; rewrite L2; reflexivity|exact L2].
    + destruct (0 <? piv) eqn:Ez; [|exact F]. constructor; [|exact F].
      rewrite lenN_firstn_le; lia.
    + cbn [map sumN]. rewrite Hss. lia.
Qed.

(* ------------------------------------------------------------------ a parsed box *)
(* after a successful ParseReadBox on a decoded box: the parsed fields are consistent (one IV of perSampleIVSize
   bytes per sample when that is not 0, one sub-sample table per sample when the flag is set), and *)
Definition senc_parse_exact (s : senc) : bool :=
  sn_use_subs s || (sn_count s * sn_ivsize s =? lenN (sn_raw s)).

Definition sn_read0 (s : senc) : senc :=
  mkSenc (sn_version s) (sn_flags s) (sn_count s) (sn_ivsize s) (sn_ivs s) (sn_subs s) (sn_raw s) (sn_np s) 0.

Lemma body_read0 s : sn_count s <> 0 -> senc_body s = senc_body (sn_read0 s).
Proof.
  intros H. unfold senc_body, senc_body_gen, sn_read0, senc_index_bad, sn_use_subs, senc_sample_bytes, sn_use_subs.
  cbn [sn_np sn_count sn_read sn_raw sn_ivsize sn_flags sn_ivs sn_subs].
  apply N.eqb_neq in H. rewrite H. cbn [andb]. reflexivity.
Qed.

Record parsed_facts (s s' : senc) : Prop := {
  pf_np : sn_np s' = false; pf_count : sn_count s' = sn_count s; pf_raw : sn_raw s' = sn_raw s;
  pf_read : sn_read s' = sn_read s; pf_flags : sn_flags s' = sn_flags s; pf_version : sn_version s' = sn_version s;
  pf_ivs : ivs_ok s' = true; pf_subs : subs_ok s' = true; pf_flag : flag_ok s' = true;
  pf_len : 16 + sn_count s' * sn_ivsize s'
           + (if sn_use_subs s' then sumN (map (fun l : list subsample => 2 + 6 * lenN l) (sn_subs s')) else 0)
           = (if sn_use_subs s' then 16 + lenN (sn_raw s') else 16 + sn_count s' * sn_ivsize s');
  pf_fit : sn_count s' * sn_ivsize s' <= lenN (sn_raw s');
  pf_exact : lenN (sn_raw s') < 4294967296 -> sn_use_subs s' = true \/ sn_count s' * sn_ivsize s' = lenN (sn_raw s') }.

Lemma fill_facts s piv s1 : sn_ivs s = [] -> sn_use_subs s = true -> sn_np s = true ->
  senc_fill s piv = (s1, true) -> parsed_facts s (sn_parsed s1).
Proof.
  intros Hiv Hu Hnp H. unfold senc_fill in H.
  destruct (parse_samples (N.to_nat (sn_count s)) piv (sn_raw s)) as [[[ivs sss] rest]|] eqn:Ep; [|discriminate].
  destruct rest; [|discriminate]. injection H as <-.
  destruct (parse_samples_spec _ _ _ _ _ _ Ep) as (L1 & L2 & F & S). rewrite Hiv. cbn [app].
  assert (Hl1 : lenN sss = sn_count s) by (unfold lenN; rewrite L1; lia).
  constructor; cbn [sn_parsed sn_np sn_count sn_raw sn_read sn_flags sn_version sn_ivsize sn_ivs sn_subs]; try reflexivity.
  - unfold ivs_ok. cbn [sn_parsed sn_with_iv sn_ivsize sn_ivs sn_count]. destruct (0 <? piv) eqn:Ez; [|reflexivity].
    apply andb_true_iff. split; [apply N.eqb_eq; unfold lenN; rewrite L2; lia|].
    apply forallb_forall. intros iv Hin. apply N.eqb_eq. exact (proj1 (Forall_forall _ _) F iv Hin).
  - unfold subs_ok, sn_use_subs in *. cbn [sn_parsed sn_with_iv sn_flags sn_subs sn_count]. rewrite Hu. apply N.eqb_eq. exact Hl1.
  - unfold flag_ok, sn_use_subs in *. cbn [sn_parsed sn_with_iv sn_flags]. rewrite Hu. apply orb_true_r.
  - unfold sn_use_subs in *. cbn [sn_parsed sn_with_iv sn_flags]. rewrite Hu. change (lenN (@nil N)) with 0 in S. lia.
  - change (lenN (@nil N)) with 0 in S. lia.
  - intros _. left. unfold sn_use_subs in *. cbn [sn_parsed sn_with_iv sn_flags]. exact Hu.
Qed.

Lemma parse_facts hsize hlen payload s piv0 s' :
  decoded hsize hlen payload s -> piv0 < 256 -> senc_parse s piv0 = (s', Ok tt) -> parsed_facts s s'.
Proof.
  intros D Hp H. destruct (decoded_fields _ _ _ _ D) as (Hi & Hv & Hs & Hr & Hn & Hf).
  unfold senc_parse, senc_parse_gen in H. destruct (sn_np s) eqn:Enp; cbn [negb] in H; [|discriminate].
  assert (Hc : sn_count s <> 0).
  { intros E. rewrite E in Hn. cbn [N.eqb orb negb] in Hn. discriminate. }
  set (s0 := if piv0 =? 0 then s else sn_with_iv s piv0 (sn_ivs s)) in *.
  assert (H0 : sn_ivs s0 = [] /\ sn_use_subs s0 = sn_use_subs s /\ sn_np s0 = true /\ sn_count s0 = sn_count s /\
               sn_raw s0 = sn_raw s /\ sn_read s0 = sn_read s /\ sn_flags s0 = sn_flags s /\ sn_version s0 = sn_version s /\
               sn_subs s0 = []).
  { unfold s0. destruct (piv0 =? 0); repeat split; assumption. }
  destruct H0 as (A1 & A2 & A3 & A4 & A5 & A6 & A7 & A8 & A9).
  destruct (sn_use_subs s) eqn:Eu; cbn [negb] in H.
  - (* sub-sample path *)
    assert (Tr : forall t t', parsed_facts t t' -> sn_count t = sn_count s -> sn_raw t = sn_raw s -> sn_read t = sn_read s ->
                 sn_flags t = sn_flags s -> sn_version t = sn_version s -> parsed_facts s t').
    { intros t t' [] E1 E2 E3 E4 E5. constructor; try assumption; congruence. }
    (* a failed attempt leaves IVs empty, the flag, the count, the data as they were *)
    assert (Fail : forall t piv t1, senc_fill t piv = (t1, false) ->
              sn_ivs t1 = [] /\ sn_use_subs t1 = sn_use_subs t /\ sn_np t1 = sn_np t /\ sn_count t1 = sn_count t /\
              sn_raw t1 = sn_raw t /\ sn_read t1 = sn_read t /\ sn_flags t1 = sn_flags t /\ sn_version t1 = sn_version t).
    { intros t piv t1 E. unfold senc_fill in E.
      destruct (parse_samples _ piv (sn_raw t)) as [[[ivs sss] rest]|]; [destruct rest|]; injection E as <-; try discriminate;
        repeat split. }
    destruct (negb (piv0 =? 0)).
    + destruct (senc_fill s0 piv0) as [s1 ok] eqn:E1. destruct ok; [|discriminate]. injection H as <-.
      apply (Tr s0); try assumption. apply (fill_facts s0 piv0 s1); assumption.
    + destruct (senc_fill s0 0) as [s1 ok1] eqn:E1. destruct ok1.
      { injection H as <-. apply (Tr s0); try assumption. apply (fill_facts s0 0 s1); assumption. }
      destruct (Fail _ _ _ E1) as (B1 & B2 & B3 & B4 & B5 & B6 & B7 & B8).
      destruct (senc_fill s1 8) as [s2 ok2] eqn:E2. destruct ok2.
      { injection H as <-. apply (Tr s1); try congruence. apply (fill_facts s1 8 s2); congruence. }
      destruct (Fail _ _ _ E2) as (C1 & C2 & C3 & C4 & C5 & C6 & C7 & C8).
      destruct (senc_fill s2 16) as [s3 ok3] eqn:E3. destruct ok3; [|discriminate].
      injection H as <-. apply (Tr s2); try congruence. apply (fill_facts s2 16 s3); congruence.
  - (* no sub-samples *)
    assert (Ec : (sn_count s =? 0) = false) by (apply N.eqb_neq; exact Hc). rewrite Ec, andb_false_r in H.
    set (left := u32 (lenN (sn_raw s))) in *.
    set (piv := if piv0 =? 0 then u8 (left / sn_count s) else piv0) in *.
    destruct (negb (piv * sn_count s =? left)) eqn:El; [discriminate|]. apply negb_false_iff, N.eqb_eq in El.
    assert (Hleft : left <= lenN (sn_raw s)) by (unfold left, u32; apply N.mod_le; discriminate).
    destruct (piv =? 0) eqn:Ez.
    + injection H as <-. apply N.eqb_eq in Ez.
      constructor; cbn [sn_parsed sn_with_iv sn_np sn_count sn_raw sn_read sn_flags sn_version sn_ivsize sn_ivs sn_subs];
        rewrite ?A4, ?A5, ?A6, ?A7, ?A8, ?A9; try reflexivity.
      * unfold ivs_ok. cbn [sn_parsed sn_with_iv sn_ivsize]. rewrite Ez. reflexivity.
      * unfold subs_ok, sn_use_subs in *. cbn [sn_parsed sn_with_iv sn_flags sn_subs]. rewrite A7, Eu, A9. reflexivity.
      * unfold flag_ok, has_subs. cbn [sn_parsed sn_with_iv sn_subs]. rewrite A9. reflexivity.
      * unfold sn_use_subs in *. cbn [sn_parsed sn_with_iv sn_flags]. rewrite A7, Eu. lia.
      * rewrite Ez. lia.
      * intros Hlt. right. assert (Hu32 : left = lenN (sn_raw s)) by (unfold left, u32; apply N.mod_small; exact Hlt).
        rewrite N.mul_comm. rewrite <- Hu32. rewrite <- El, Ez. reflexivity.
    + destruct ((piv =? 8) || (piv =? 16)) eqn:E8; [|discriminate]. injection H as <-.
      destruct (rd_ivs_spec (N.to_nat (sn_count s)) (N.to_nat piv) (sn_raw s)) as [L F]. { lia. }
      constructor; cbn [sn_parsed sn_with_iv sn_np sn_count sn_raw sn_read sn_flags sn_version sn_ivsize sn_ivs sn_subs];
        rewrite ?A4, ?A5, ?A6, ?A7, ?A8, ?A9; try reflexivity.
      * unfold ivs_ok. cbn [sn_parsed sn_with_iv sn_ivsize sn_ivs sn_count]. rewrite A4. destruct (0 <? piv); [|reflexivity].
        apply andb_true_iff. split; [apply N.eqb_eq; unfold lenN; rewrite L; lia|].
        apply forallb_forall. intros iv Hin. apply N.eqb_eq. rewrite (proj1 (Forall_forall _ _) F iv Hin). lia.
      * unfold subs_ok, sn_use_subs in *. cbn [sn_parsed sn_with_iv sn_flags sn_subs]. rewrite A7, Eu, A9. reflexivity.
      * unfold flag_ok, has_subs. cbn [sn_parsed sn_with_iv sn_subs]. rewrite A9. reflexivity.
      * unfold sn_use_subs in *. cbn [sn_parsed sn_with_iv sn_flags]. rewrite A7, Eu. lia.
      * lia.
      * intros Hlt. right. assert (Hu32 : left = lenN (sn_raw s)) by (unfold left, u32; apply N.mod_small; exact Hlt).
        rewrite N.mul_comm. rewrite <- Hu32. exact El.
Qed.

(* The bytes a parsed box writes: 16 + count * perSampleIVSize + the sub-sample tables - calcSize() - while Size()
   answers the remembered readBoxSize = 16 + len(rawData). *)
Theorem senc_parsed_bytes hsize hlen payload s piv0 s' :
  decoded hsize hlen payload s -> piv0 < 256 -> senc_parse s piv0 = (s', Ok tt) ->
  senc_size s' = Ok (16 + lenN (sn_raw s')) /\ senc_setflag s' = s' /\
  exists body, senc_body s' = Ok body /\
    lenN body = (if sn_use_subs s' then lenN (sn_raw s') else sn_count s' * sn_ivsize s') /\
    lenN body <= lenN (sn_raw s').
Proof.
  intros D Hp H. pose proof (parse_facts _ _ _ _ _ _ D Hp H) as [].
  destruct (decoded_fields _ _ _ _ D) as (Hi & Hv & Hs & Hr & Hn & Hf).
  assert (Hc : sn_count s' <> 0).
  { rewrite pf_count0. intros E. unfold senc_parse, senc_parse_gen in H. destruct (sn_np s) eqn:Enp; [|discriminate].
    rewrite E in Hn. cbn [N.eqb orb negb] in Hn. discriminate. }
  split; [unfold senc_size; rewrite pf_read0, pf_raw0, Hr; assert (Hq : (0 <? 16 + lenN (sn_raw s)) = true) by (apply N.ltb_lt; lia);
          rewrite Hq; reflexivity|].
  split; [apply flag_ok_fix; exact pf_flag0|].
  assert (Hok : senc_ok (sn_read0 s') = true).
  { unfold senc_ok. change (flag_ok (sn_read0 s')) with (flag_ok s'). change (ivs_ok (sn_read0 s')) with (ivs_ok s').
    change (subs_ok (sn_read0 s')) with (subs_ok s'). change (sn_np (sn_read0 s')) with (sn_np s').
    change (sn_read (sn_read0 s')) with 0. rewrite pf_np0, pf_flag0, pf_ivs0, pf_subs0. reflexivity. }
  destruct (senc_ok_body _ Hok) as (n & body & Hn' & Hb & Hl). exists body.
  rewrite (body_read0 s' Hc). split; [exact Hb|].
  (* n is calcSize of the box *)
  unfold senc_size, sn_read0 in Hn'. cbn [sn_read N.ltb N.compare] in Hn'. unfold senc_calc in Hn'.
  unfold sn_use_subs in Hn'. cbn [sn_ivsize sn_flags sn_count sn_subs] in Hn'. fold (sn_use_subs s') in Hn'.
  assert (Hsb : subs_ok s' = true) by exact pf_subs0. unfold subs_ok in Hsb.
  destruct (sn_use_subs s') eqn:Eu.
  - apply N.eqb_eq in Hsb.
    destruct ((sn_ivsize s' =? 0) && negb true) eqn:E0; [rewrite andb_false_r in E0; discriminate|].
    assert (Hlt : (lenN (sn_subs s') <? sn_count s') = false) by (apply N.ltb_ge; lia). rewrite Hlt in Hn'. cbn [andb] in Hn'.
    rewrite (firstn_all_N _ _ Hsb) in Hn'. apply ok_inj in Hn'. subst n. split; lia.
  - destruct ((sn_ivsize s' =? 0) && negb false) eqn:E0.
    + apply ok_inj in Hn'. subst n. rewrite andb_true_r in E0. apply N.eqb_eq in E0. rewrite E0 in *. split; lia.
    + cbn [andb] in Hn'. apply ok_inj in Hn'. subst n. split; lia.
Qed.

(* the exact guard: a decoded and parsed box has Size() = bytes written if and only if senc_parse_exact; otherwise
   fewer bytes than Size() are written, under a size field that says Size() *)
Theorem senc_parsed_exact hsize hlen payload s piv0 s' :
  decoded hsize hlen payload s -> piv0 < 256 -> senc_parse s piv0 = (s', Ok tt) -> 16 + lenN (sn_raw s') < TWO32 ->
  exists b, senc_encode_w s' = (s', Ok b) /\ senc_encode_sw s' = (s', Ok b) /\
    senc_size s' = Ok (16 + lenN (sn_raw s')) /\ firstn 4 b = be32 (16 + lenN (sn_raw s')) /\
    lenN b <= 16 + lenN (sn_raw s') /\
    (lenN b = 16 + lenN (sn_raw s') <-> senc_parse_exact s' = true).
Proof.
  intros D Hp H Hsmall. destruct (senc_parsed_bytes _ _ _ _ _ _ D Hp H) as (Hsz & Hfix & body & Hb & Hl & Hle).
  set (n := 16 + lenN (sn_raw s')) in *.
  set (b := (be32 n ++ TY_SENC) ++ be32 (u32 (sn_version s' * 16777216 + sn_flags s')) ++ be32 (sn_count s') ++ body).
  assert (Hlen : lenN b = 16 + lenN body).
  { unfold b. rewrite !lenN_app, !lenN_be32. change (lenN TY_SENC) with 4. lia. }
  assert (Hall : senc_all s' = Ok (n, b)).
  { unfold senc_all, senc_all_gen. fold senc_body. rewrite Hsz, Hb. cbn [rbind]. unfold enc_hdr.
    assert (E : (TWO32 <=? n) = false) by (apply N.leb_gt; exact Hsmall). rewrite E. reflexivity. }
  exists b. unfold senc_encode_w, senc_encode_sw. rewrite Hfix, Hall. cbn [rbind fst snd].
  assert (Hfit : (n <? lenN b) = false) by (apply N.ltb_ge; lia). rewrite Hfit.
  split; [reflexivity|]. split; [reflexivity|]. split; [exact Hsz|]. split; [unfold b; reflexivity|]. split; [lia|].
  unfold senc_parse_exact. rewrite Hlen, Hl. destruct (sn_use_subs s'); cbn [orb].
  - split; [reflexivity|intros _; unfold n; lia].
  - rewrite N.eqb_eq. unfold n. lia.
Qed.

(* since 4cf4f8b the guard always holds: every box the two decoding phases accept writes exactly Size() bytes *)
Theorem senc_parsed_always_exact hsize hlen payload s piv0 s' :
  decoded hsize hlen payload s -> piv0 < 256 -> senc_parse s piv0 = (s', Ok tt) -> 16 + lenN (sn_raw s') < TWO32 ->
  senc_parse_exact s' = true /\
  exists b, senc_encode_w s' = (s', Ok b) /\ senc_encode_sw s' = (s', Ok b) /\
    senc_size s' = Ok (lenN b) /\ firstn 4 b = be32 (lenN b).
Proof.
  intros D Hp H Hs. pose proof (parse_facts _ _ _ _ _ _ D Hp H) as F.
  assert (E : senc_parse_exact s' = true).
  { unfold senc_parse_exact. destruct (pf_exact _ _ F) as [Hx|Hx];
      [unfold TWO32 in Hs; lia|rewrite Hx; reflexivity|rewrite Hx, N.eqb_refl; apply orb_true_r]. }
  split; [exact E|]. destruct (senc_parsed_exact _ _ _ _ _ _ D Hp H Hs) as (b & H1 & H2 & H3 & H4 & _ & H6).
  exists b. rewrite (proj2 H6 E). repeat split; assumption.
Qed.

(* C02-K5 (the text before 4cf4f8b): two samples, no sub-sample flag, 17 bytes of per-sample data; ParseReadBox(0) infers
   8-byte IVs and leaves one byte: Size() 33, 32 bytes written; now the second phase refuses the box *)
Lemma senc_parse_trailing_refuted : exists hsize hlen payload s s' b,
  decoded hsize hlen payload s /\ senc_parse_pinned s 0 = (s', Ok tt) /\ senc_parse_exact s' = false /\
  senc_size s' = Ok 33 /\ senc_encode_w s' = (s', Ok b) /\ lenN b = 32 /\ snd (senc_parse s 0) = Err.
Proof.
  exists 33, 8, ([0; 0; 0; 0; 0; 0; 0; 2] ++ repeat 7 17).
  eexists. eexists. eexists. split; [split; [vm_compute; reflexivity|reflexivity]|].
  split; [vm_compute; reflexivity|]. split; [reflexivity|]. split; [reflexivity|]. split; [vm_compute; reflexivity|].
  split; reflexivity.
Qed.

(* the hypotheses are satisfiable: two samples with 8-byte IVs and sub-samples, parsed with an unknown IV size *)
Lemma senc_parsed_example : exists s s',
  decoded 48 8 ([0; 0; 0; 2; 0; 0; 0; 2] ++ [1;2;3;4;5;6;7;8; 0;1; 0;5; 0;0;0;9] ++ [1;2;3;4;5;6;7;9; 0;1; 0;7; 0;0;1;0]) s /\
  senc_parse s 0 = (s', Ok tt) /\ senc_parse_exact s' = true /\ sn_ivsize s' = 8 /\ senc_size s' = Ok 48 /\
  exists b, senc_encode_w s' = (s', Ok b) /\ lenN b = 48.
Proof.
  eexists. eexists. split; [split; [vm_compute; reflexivity|reflexivity]|]. split; [vm_compute; reflexivity|].
  split; [reflexivity|]. split; [reflexivity|]. split; [reflexivity|]. eexists. split; [vm_compute; reflexivity|reflexivity].
Qed.
