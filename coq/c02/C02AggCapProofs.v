(* C02AggCapProofs.v — EncodeSW into a writer of any capacity: a success is the success of Encode (same state, same
   boxes) and leaves `capacity - bytes written` room; under well-formedness the bytes written are Size(), so every
   capacity >= Size() gives the same outcome, and a success with ANY capacity means exactly Size() bytes. *)
From V.lib Require Import Base.
From V.c05 Require Import C05Model C05FragModel C05CodecModel.
From V.c02 Require Import C02AggModel C02AggSizeProofs C02AggOptProofs C02AggFragProofs C02AggFileProofs C02AggCapModel.

Lemma lens_cons b bs : lens (b :: bs) = lenN b + lens bs.
Proof. reflexivity. Qed.
Lemma lens_nil : lens [] = 0.
Proof. reflexivity. Qed.
Lemma lens_one b : lens [b] = lenN b.
Proof. unfold lens. cbn [map sumN]. lia. Qed.
Lemma lens5 (b1 : list (list N)) b2 b3 b4 b5 :
  lens (b1 ++ [b2] ++ b3 ++ [b4] ++ b5) = lens b1 + lenN b2 + lens b3 + lenN b4 + lens b5.
Proof. rewrite !lens_app, !lens_one. lia. Qed.

(* ------------------------------------------------------------------ one box, a list of stateless boxes *)
Lemma sw_box_intro room r b : r = Ok b -> lenN b <= room -> sw_box room r = Ok (b, room - lenN b).
Proof.
  intros -> H. unfold sw_box, sw_put. apply N.ltb_ge in H. rewrite H. reflexivity.
Qed.

Lemma sw_box_inv room r b room' : sw_box room r = Ok (b, room') -> r = Ok b /\ room = room' + lenN b.
Proof.
  unfold sw_box, sw_put. destruct r as [x| | |]; try discriminate.
  destruct (room <? lenN x) eqn:E; [discriminate|]. intros [= <- <-]. apply N.ltb_ge in E. split; [reflexivity|lia].
Qed.

Lemma sw_list_intro {A} (f : A -> res (list N)) l : forall room bs,
  enc_list f l = Ok bs -> lens bs <= room -> sw_list f l room = Ok (bs, room - lens bs).
Proof.
  induction l as [|x t IH]; intros room bs H L.
  - injection H as <-. cbn [sw_list]. rewrite lens_nil, N.sub_0_r. reflexivity.
  - cbn [enc_list] in H. destruct (f x) as [a| | |] eqn:Ea; cbn [rbind] in H; try discriminate.
    destruct (enc_list f t) as [r| | |] eqn:Er; cbn [rbind] in H; try discriminate. injection H as <-.
    rewrite lens_cons in L. cbn [sw_list]. rewrite Ea, (sw_box_intro room (Ok a) a eq_refl) by lia.
    rewrite (IH (room - lenN a) r eq_refl) by lia. rewrite lens_cons. f_equal. f_equal. lia.
Qed.

Lemma sw_list_inv {A} (f : A -> res (list N)) l : forall room bs room',
  sw_list f l room = Ok (bs, room') -> enc_list f l = Ok bs /\ room = room' + lens bs.
Proof.
  induction l as [|x t IH]; intros room bs room' H.
  - injection H as <- <-. split; [reflexivity|]. rewrite lens_nil. lia.
  - cbn [sw_list] in H. destruct (sw_box room (f x)) as [[a room1]| | |] eqn:Eb; try discriminate.
    destruct (sw_list f t room1) as [[r room2]| | |] eqn:Er; try discriminate. injection H as <- <-.
    destruct (sw_box_inv _ _ _ _ Eb) as [Ea Hr]. destruct (IH _ _ _ Er) as [Et Hr2].
    cbn [enc_list]. rewrite Ea, Et. cbn [rbind]. split; [reflexivity|]. rewrite lens_cons. lia.
Qed.

(* ------------------------------------------------------------------ Fragment *)
Lemma afrag_sw_intro room fr fr' boxes :
  afrag_encode fr = (fr', Ok boxes) -> lens boxes <= room ->
  afrag_encode_sw room fr = (fr', Ok (boxes, room - lens boxes)).
Proof.
  intros H L. destruct (afrag_encode_inv fr fr' boxes H) as [m m1 md m2 md2 b1 b2 b3 b4 b5 Em Eo Ed Es E1 E2 E3 E4 E5 -> ->].
  rewrite lens5 in L. unfold afrag_encode_sw. rewrite Em, Eo, Ed, Es.
  rewrite (sw_list_intro enc_obox (af_pre fr) room b1 E1) by lia.
  rewrite (sw_box_intro _ _ b2 E2) by lia.
  rewrite (sw_list_intro enc_obox (af_mid fr) _ b3 E3) by lia.
  rewrite E4. rewrite (sw_box_intro _ (Ok b4) b4 eq_refl) by lia.
  rewrite (sw_list_intro enc_obox (af_post fr) _ b5 E5) by lia.
  rewrite lens5. f_equal. f_equal. f_equal. lia.
Qed.

Lemma afrag_sw_inv room fr fr' boxes room' :
  afrag_encode_sw room fr = (fr', Ok (boxes, room')) ->
  afrag_encode fr = (fr', Ok boxes) /\ room = room' + lens boxes.
Proof.
  unfold afrag_encode_sw. destruct (af_moof fr) as [m|] eqn:Em; [|discriminate].
  destruct (if af_opt fr then optimize_moof m else Ok m) as [m1| | |] eqn:Eo; try discriminate.
  destruct (af_mdat fr) as [md|] eqn:Ed; [|discriminate].
  destruct (aset_offsets m1 md) as [m2 md2] eqn:Es.
  destruct (sw_list enc_obox (af_pre fr) room) as [[b1 r1]| | |] eqn:E1; try discriminate.
  destruct (sw_box r1 (amoof_enc m2)) as [[b2 r2]| | |] eqn:E2; try discriminate.
  destruct (sw_list enc_obox (af_mid fr) r2) as [[b3 r3]| | |] eqn:E3; try discriminate.
  destruct (amd_enc md2) as [md3 e4] eqn:E4.
  assert (Hmd3 : md3 = md_size_touch md2) by (rewrite <- (amd_enc_fst md2), E4; reflexivity).
  destruct (sw_box r3 e4) as [[b4 r4]| | |] eqn:E4b; try discriminate.
  destruct (sw_list enc_obox (af_post fr) r4) as [[b5 r5]| | |] eqn:E5; try discriminate.
  intros [= <- <- <-]. subst md3.
  destruct (sw_list_inv _ _ _ _ _ E1) as [F1 R1]. destruct (sw_box_inv _ _ _ _ E2) as [F2 R2].
  destruct (sw_list_inv _ _ _ _ _ E3) as [F3 R3]. destruct (sw_box_inv _ _ _ _ E4b) as [F4 R4].
  destruct (sw_list_inv _ _ _ _ _ E5) as [F5 R5]. subst e4.
  split.
  - apply (afrag_encode_intro fr m m1 md m2 md2 b1 b2 b3 b4 b5); assumption.
  - repeat (rewrite lens_app || rewrite lens_cons || rewrite lens_nil). lia.
Qed.

(* ------------------------------------------------------------------ loops over stateful parts *)
Lemma sw_seq_intro {A} (enc : A -> A * res (list (list N))) (encsw : N -> A -> A * res (list (list N) * N))
  (intro1 : forall room a a' b, enc a = (a', Ok b) -> lens b <= room -> encsw room a = (a', Ok (b, room - lens b))) l :
  forall room l' bs,
  enc_seq enc l = (l', Ok bs) -> lens bs <= room -> sw_seq encsw l room = (l', Ok (bs, room - lens bs)).
Proof.
  induction l as [|a rest IH]; intros room l' bs H L.
  - injection H as <- <-. cbn [sw_seq]. rewrite lens_nil, N.sub_0_r. reflexivity.
  - cbn [enc_seq] in H. destruct (enc a) as [a' r] eqn:Ea. destruct r as [b| | |]; try (injection H as _ H; discriminate).
    destruct (enc_seq enc rest) as [rest' r2] eqn:Er. destruct r2 as [b2| | |]; try (injection H as _ H; discriminate).
    injection H as <- <-. rewrite lens_app in L. cbn [sw_seq].
    rewrite (intro1 room a a' b Ea) by lia. rewrite (IH (room - lens b) rest' b2 eq_refl) by lia.
    rewrite lens_app. f_equal. f_equal. f_equal. lia.
Qed.

Lemma sw_seq_inv {A} (enc : A -> A * res (list (list N))) (encsw : N -> A -> A * res (list (list N) * N))
  (inv1 : forall room a a' b room', encsw room a = (a', Ok (b, room')) -> enc a = (a', Ok b) /\ room = room' + lens b) l :
  forall room l' bs room',
  sw_seq encsw l room = (l', Ok (bs, room')) -> enc_seq enc l = (l', Ok bs) /\ room = room' + lens bs.
Proof.
  induction l as [|a rest IH]; intros room l' bs room' H.
  - injection H as <- <- <-. split; [reflexivity|]. rewrite lens_nil. lia.
  - cbn [sw_seq] in H. destruct (encsw room a) as [a' r] eqn:Ea. destruct r as [[b room1]| | |]; try (injection H as _ H; discriminate).
    destruct (sw_seq encsw rest room1) as [rest' r2] eqn:Er. destruct r2 as [[b2 room2]| | |]; try (injection H as _ H; discriminate).
    injection H as <- <- <-. destruct (inv1 _ _ _ _ _ Ea) as [Fa Ra]. destruct (IH _ _ _ _ Er) as [Fr Rr].
    cbn [enc_seq]. rewrite Fa, Fr. split; [reflexivity|]. rewrite lens_app. lia.
Qed.

(* ------------------------------------------------------------------ MediaSegment *)
Lemma aseg_sw_intro room s s' boxes :
  aseg_encode s = (s', Ok boxes) -> lens boxes <= room -> aseg_encode_sw room s = (s', Ok (boxes, room - lens boxes)).
Proof.
  intros H L. destruct (aseg_encode_inv s s' boxes H) as (b1 & fs' & b2 & E1 & E2 & -> & ->).
  rewrite lens_app in L. unfold aseg_encode_sw. rewrite (sw_list_intro enc_obox _ room b1 E1) by lia.
  unfold sw_frags. unfold enc_frags in E2.
  rewrite (sw_seq_intro (fun f => afrag_encode (af_set_opt f (sg_opt s))) (fun room f => afrag_encode_sw room (af_set_opt f (sg_opt s)))
             (fun room a a' b => afrag_sw_intro room (af_set_opt a (sg_opt s)) a' b) (sg_frags s) _ fs' b2 E2) by lia.
  rewrite lens_app. f_equal. f_equal. f_equal. lia.
Qed.

Lemma aseg_sw_inv room s s' boxes room' :
  aseg_encode_sw room s = (s', Ok (boxes, room')) -> aseg_encode s = (s', Ok boxes) /\ room = room' + lens boxes.
Proof.
  unfold aseg_encode_sw. destruct (sw_list enc_obox _ room) as [[b1 r1]| | |] eqn:E1; try discriminate.
  destruct (sw_frags (sg_opt s) (sg_frags s) r1) as [fs' r] eqn:E2. destruct r as [[b2 r2]| | |]; try discriminate.
  intros [= <- <- <-]. destruct (sw_list_inv _ _ _ _ _ E1) as [F1 R1].
  unfold sw_frags in E2.
  destruct (sw_seq_inv (fun f => afrag_encode (af_set_opt f (sg_opt s))) (fun room f => afrag_encode_sw room (af_set_opt f (sg_opt s)))
              (fun room a a' b room' => afrag_sw_inv room (af_set_opt a (sg_opt s)) a' b room') _ _ _ _ _ E2) as [F2 R2].
  unfold aseg_encode. rewrite F1. unfold enc_frags. rewrite F2. split; [reflexivity|]. rewrite lens_app. lia.
Qed.

(* ------------------------------------------------------------------ InitSegment *)
Lemma ainit_sw_intro room i boxes :
  ainit_encode i = Ok boxes -> lens boxes <= room -> ainit_encode_sw room i = Ok (boxes, room - lens boxes).
Proof. apply sw_list_intro. Qed.
Lemma ainit_sw_inv room i boxes room' :
  ainit_encode_sw room i = Ok (boxes, room') -> ainit_encode i = Ok boxes /\ room = room' + lens boxes.
Proof. apply sw_list_inv. Qed.

(* ------------------------------------------------------------------ File *)
Lemma fc_sw_intro room c c' b : fc_encode c = (c', Ok b) -> lens b <= room -> fc_encode_sw room c = (c', Ok (b, room - lens b)).
Proof.
  destruct c as [m|md|o]; cbn [fc_encode fc_encode_sw].
  - destruct (amoof_enc m) as [x| | |] eqn:E; cbn [rbind]; try discriminate. intros [= <- <-] L. rewrite lens_one in L.
    rewrite (sw_box_intro room (Ok x) x eq_refl L), lens_one. reflexivity.
  - destruct (amd_enc md) as [md' r] eqn:E. destruct r as [x| | |]; cbn [rbind]; try discriminate. intros [= <- <-] L.
    rewrite lens_one in L. rewrite (sw_box_intro room (Ok x) x eq_refl L), lens_one. reflexivity.
  - destruct (enc_obox o) as [x| | |] eqn:E; cbn [rbind]; try discriminate. intros [= <- <-] L. rewrite lens_one in L.
    rewrite (sw_box_intro room (Ok x) x eq_refl L), lens_one. reflexivity.
Qed.

Lemma fc_sw_inv room c c' b room' : fc_encode_sw room c = (c', Ok (b, room')) -> fc_encode c = (c', Ok b) /\ room = room' + lens b.
Proof.
  destruct c as [m|md|o]; cbn [fc_encode fc_encode_sw].
  - destruct (sw_box room (amoof_enc m)) as [[x r]| | |] eqn:E; try discriminate. intros [= <- <- <-].
    destruct (sw_box_inv _ _ _ _ E) as [-> R]. cbn [rbind]. rewrite lens_one. split; [reflexivity|exact R].
  - destruct (amd_enc md) as [md' e] eqn:Em. destruct (sw_box room e) as [[x r]| | |] eqn:E; try discriminate. intros [= <- <- <-].
    destruct (sw_box_inv _ _ _ _ E) as [-> R]. cbn [rbind]. rewrite lens_one. split; [reflexivity|exact R].
  - destruct (sw_box room (enc_obox o)) as [[x r]| | |] eqn:E; try discriminate. intros [= <- <- <-].
    destruct (sw_box_inv _ _ _ _ E) as [-> R]. cbn [rbind]. rewrite lens_one. split; [reflexivity|exact R].
Qed.

Lemma afile_sw_intro room f f' boxes :
  afile_encode f = (f', Ok boxes) -> lens boxes <= room -> afile_encode_sw room f = (f', Ok (boxes, room - lens boxes)).
Proof.
  unfold afile_encode, afile_encode_sw.
  destruct (fl_fragmented f && negb (fl_mode f =? 0) && negb (fl_mode f =? 1)); [discriminate|].
  destruct (afile_seg_mode f).
  - destruct (enc_list enc_obox _) as [b1| | |] eqn:E1; try discriminate.
    destruct (enc_segs (fl_opt f) (fl_segs f)) as [ss' r] eqn:E2. destruct r as [b2| | |]; try discriminate.
    destruct (enc_list enc_obox (opt_list (fl_mfra f))) as [b3| | |] eqn:E3; try discriminate.
    intros [= <- <-] L. rewrite !lens_app in L.
    rewrite (sw_list_intro enc_obox _ room b1 E1) by lia.
    unfold sw_segs. unfold enc_segs in E2.
    rewrite (sw_seq_intro (fun s => aseg_encode (if fl_opt f then aseg_set_opt s true else s))
               (fun room s => aseg_encode_sw room (if fl_opt f then aseg_set_opt s true else s))
               (fun room a a' b => aseg_sw_intro room (if fl_opt f then aseg_set_opt a true else a) a' b) (fl_segs f) _ ss' b2 E2) by lia.
    rewrite (sw_list_intro enc_obox _ _ b3 E3) by lia.
    rewrite !lens_app. f_equal. f_equal. f_equal. lia.
  - destruct (enc_children (fl_children f)) as [cs' r] eqn:E. intros [= <- ->] L. unfold enc_children in E.
    rewrite (sw_seq_intro fc_encode fc_encode_sw fc_sw_intro (fl_children f) room cs' boxes E L). reflexivity.
Qed.

Lemma afile_sw_inv room f f' boxes room' :
  afile_encode_sw room f = (f', Ok (boxes, room')) -> afile_encode f = (f', Ok boxes) /\ room = room' + lens boxes.
Proof.
  unfold afile_encode, afile_encode_sw.
  destruct (fl_fragmented f && negb (fl_mode f =? 0) && negb (fl_mode f =? 1)); [discriminate|].
  destruct (afile_seg_mode f).
  - destruct (sw_list enc_obox _ room) as [[b1 r1]| | |] eqn:E1; try discriminate.
    destruct (sw_segs (fl_opt f) (fl_segs f) r1) as [ss' r] eqn:E2. destruct r as [[b2 r2]| | |]; try discriminate.
    destruct (sw_list enc_obox (opt_list (fl_mfra f)) r2) as [[b3 r3]| | |] eqn:E3; try discriminate.
    intros [= <- <- <-]. destruct (sw_list_inv _ _ _ _ _ E1) as [F1 R1]. destruct (sw_list_inv _ _ _ _ _ E3) as [F3 R3].
    unfold sw_segs in E2.
    destruct (sw_seq_inv (fun s => aseg_encode (if fl_opt f then aseg_set_opt s true else s))
                (fun room s => aseg_encode_sw room (if fl_opt f then aseg_set_opt s true else s))
                (fun room a a' b room' => aseg_sw_inv room (if fl_opt f then aseg_set_opt a true else a) a' b room') _ _ _ _ _ E2) as [F2 R2].
    rewrite F1. unfold enc_segs. rewrite F2, F3. split; [reflexivity|]. rewrite !lens_app. lia.
  - destruct (sw_seq fc_encode_sw (fl_children f) room) as [cs' r] eqn:E. intros [= <- ->].
    destruct (sw_seq_inv fc_encode fc_encode_sw fc_sw_inv _ _ _ _ _ E) as [F R]. unfold enc_children. rewrite F.
    split; [reflexivity|exact R].
Qed.

(* ------------------------------------------------------------------ the capacity theorems *)
(* A success of EncodeSW with ANY capacity: it is the success of Encode, exactly Size() bytes were written (Size()
   taken afterwards), the room left is capacity - Size(), and EVERY capacity >= Size() - the exact one included -
   gives the same state and the same boxes. *)
Definition cap_independent {S} (size : S -> N) (enc : S -> S * res (list (list N)))
  (encsw : N -> S -> S * res (list (list N) * N)) (x : S) : Prop :=
  forall room x' boxes rest, encsw room x = (x', Ok (boxes, rest)) ->
    enc x = (x', Ok boxes) /\ lens boxes = size x' /\ room = rest + size x' /\
    forall room2, size x' <= room2 -> encsw room2 x = (x', Ok (boxes, room2 - size x')).

Theorem fragment_capacity fr : afrag_wf fr = true -> cap_independent afrag_size afrag_encode afrag_encode_sw fr.
Proof.
  intros W room fr' boxes rest H. destruct (afrag_sw_inv _ _ _ _ _ H) as [He Hr].
  destruct (fragment_size _ _ _ He W) as (_ & L & _). rewrite <- L. repeat split; try assumption.
  intros room2 H2. apply afrag_sw_intro; assumption.
Qed.

Theorem segment_capacity s : aseg_wf s = true -> cap_independent aseg_size aseg_encode aseg_encode_sw s.
Proof.
  intros W room s' boxes rest H. destruct (aseg_sw_inv _ _ _ _ _ H) as [He Hr].
  destruct (segment_size _ _ _ He W) as (_ & L & _). rewrite <- L. repeat split; try assumption.
  intros room2 H2. apply aseg_sw_intro; assumption.
Qed.

Theorem init_capacity i : obs_wf i = true ->
  cap_independent ainit_size (fun i => (i, ainit_encode i)) (fun room i => (i, ainit_encode_sw room i)) i.
Proof.
  intros W room i' boxes rest H. injection H as <- H. destruct (ainit_sw_inv _ _ _ _ H) as [He Hr].
  destruct (init_size _ _ He W) as (_ & L & _). rewrite <- L. rewrite He. repeat split; try assumption.
  intros room2 H2. rewrite (ainit_sw_intro room2 i boxes He H2). reflexivity.
Qed.

Theorem file_capacity f : afile_wf f = true -> cap_independent afile_size afile_encode afile_encode_sw f.
Proof.
  intros W room f' boxes rest H. destruct (afile_sw_inv _ _ _ _ _ H) as [He Hr].
  destruct (file_size _ _ _ He W) as (_ & L & _). rewrite <- L. repeat split; try assumption.
  intros room2 H2. apply afile_sw_intro; assumption.
Qed.

(* and the other way round: when Encode succeeds, EncodeSW into a writer of Size() bytes or more succeeds *)
Theorem fragment_capacity_complete fr fr' boxes room :
  afrag_encode fr = (fr', Ok boxes) -> afrag_wf fr = true -> afrag_size fr' <= room ->
  afrag_encode_sw room fr = (fr', Ok (boxes, room - afrag_size fr')).
Proof.
  intros H W L. destruct (fragment_size _ _ _ H W) as (_ & Hl & _). rewrite <- Hl in *. apply afrag_sw_intro; assumption.
Qed.

Theorem file_capacity_complete f f' boxes room :
  afile_encode f = (f', Ok boxes) -> afile_wf f = true -> afile_size f' <= room ->
  afile_encode_sw room f = (f', Ok (boxes, room - afile_size f')).
Proof.
  intros H W L. destruct (file_size _ _ _ H W) as (_ & Hl & _). rewrite <- Hl in *. apply afile_sw_intro; assumption.
Qed.

(* the statement is about the encoders, not a tautology of the model: for an opaque box that writes more than its
   Size() (what MetaBox.EncodeSW did for a QuickTime meta atom before repo commit 35ed2e5: 4 bytes more) the
   exact capacity fails and a roomy one succeeds with more than Size() bytes *)
Definition ob_over : obox := mkObox [109; 101; 116; 97] 12 ([0; 0; 0; 12; 109; 101; 116; 97] ++ [0; 0; 0; 0; 1; 2; 3; 4]) false.

Lemma capacity_refuted :
  ob_wf ob_over = false /\ ainit_size [ob_over] = 12 /\
  ainit_encode_sw 12 [ob_over] = Err /\
  exists boxes rest, ainit_encode_sw (12 + 64) [ob_over] = Ok (boxes, rest) /\ lens boxes = 16 /\ rest = 60.
Proof. split; [reflexivity|]. split; [reflexivity|]. split; [reflexivity|]. eexists; eexists. split; [reflexivity|]. split; reflexivity. Qed.
