(* C02AggSencModel.v — executable model of the one box the aggregate model keeps opaque although its Encode and
   Info change it: SencBox (mp4/senc.go): CreateSencBox, AddSample, setSubSamplesUsedFlag (run by Encode, EncodeSW
   and Info), Size() (readBoxSize overrides the computed size), calcSize, Encode (FixedSliceWriter of Size() bytes:
   overflow is an error, under-fill is silent), EncodeSW (into the caller's writer).  Definitions only.
   Mirrors /repo after the fix commits ecf1460 and 0b086ee (AddSample keeps one SubSamples entry per sample and
   refuses a sample without IV after samples with IVs; `senc_add_pinned` is the text before them) and 954ff09
   (a decoded box without samples writes its rawData back; `senc_body_pinned` is the text before it) and 4cf4f8b
   (ParseReadBox without sub-samples refuses left-over bytes; `senc_parse_pinned` is the text before it).
   Second part: the decoders DecodeSenc / DecodeSencSR (`senc_decode`) and the second decoding phase ParseReadBox /
   parseAndFillSamples (`senc_parse`), i.e. every SencBox state the decoders produce. *)
From V.lib Require Import Base.
From V.c05 Require Import C05CodecModel.
From V.c02 Require Import C02AggModel.

Definition TY_SENC : list N := [115; 101; 110; 99].
Definition be16 (x : N) : list N := [x / 256 mod 256; x mod 256].

(* SubSamplePattern: BytesOfClearData uint16, BytesOfProtectedData uint32 *)
Notation subsample := (N * N)%type (only parsing).

Record senc := mkSenc {
  sn_version : N; sn_flags : N; sn_count : N; sn_ivsize : N;
  sn_ivs : list (list N); sn_subs : list (list subsample);
  sn_raw : list N;                 (* rawData: the payload after the sample count, kept by the decoder *)
  sn_np : bool;                    (* readButNotParsed *)
  sn_read : N }.                   (* readBoxSize *)

Definition B_SUBS : N := 1.        (* UseSubSampleEncryption 0x2 *)
Definition sn_use_subs (s : senc) : bool := N.testbit (sn_flags s) B_SUBS.
Definition is_nil {A} (l : list A) : bool := match l with [] => true | _ => false end.

Definition sn_with_flags (s : senc) (f : N) : senc :=
  mkSenc (sn_version s) f (sn_count s) (sn_ivsize s) (sn_ivs s) (sn_subs s) (sn_raw s) (sn_np s) (sn_read s).

(* CreateSencBox *)
Definition senc_create : senc := mkSenc 0 0 0 0 [] [] [] false 0.

(* setSubSamplesUsedFlag *)
Definition senc_setflag (s : senc) : senc :=
  if existsb (fun l => negb (is_nil l)) (sn_subs s) then sn_with_flags s (N.setbit (sn_flags s) B_SUBS) else s.

(* AddSample(SencSample{IV, SubSamples}); fixed = false: the text before ecf1460 / 0b086ee *)
Definition senc_add_gen (fixed : bool) (s : senc) (iv : list N) (subs : list subsample) : res senc :=
  do s1 <- (match iv with
            | [] => if fixed && negb (sn_count s =? 0) && negb (is_nil (sn_ivs s)) then Err else Ok s
            | _ =>
                if sn_count s =? 0 then
                  Ok (mkSenc (sn_version s) (sn_flags s) (sn_count s) (u8 (lenN iv)) (sn_ivs s ++ [iv]) (sn_subs s)
                             (sn_raw s) (sn_np s) (sn_read s))
                else if negb (lenN iv =? sn_ivsize s) then Err          (* mix of IV lengths *)
                else Ok (mkSenc (sn_version s) (sn_flags s) (sn_count s) (sn_ivsize s) (sn_ivs s ++ [iv]) (sn_subs s)
                                (sn_raw s) (sn_np s) (sn_read s))
            end);
  let s2 :=
    if fixed then
      if negb (is_nil subs) || sn_use_subs s1 then
        let padded := sn_subs s1 ++ repeat [] (N.to_nat (sn_count s1) - length (sn_subs s1)) in
        mkSenc (sn_version s1) (if negb (is_nil subs) then N.setbit (sn_flags s1) B_SUBS else sn_flags s1)
               (sn_count s1) (sn_ivsize s1) (sn_ivs s1) (padded ++ [subs]) (sn_raw s1) (sn_np s1) (sn_read s1)
      else s1
    else
      if negb (is_nil subs) then
        mkSenc (sn_version s1) (N.setbit (sn_flags s1) B_SUBS) (sn_count s1) (sn_ivsize s1) (sn_ivs s1)
               (sn_subs s1 ++ [subs]) (sn_raw s1) (sn_np s1) (sn_read s1)
      else s1 in
  Ok (mkSenc (sn_version s2) (sn_flags s2) (u32 (sn_count s2 + 1)) (sn_ivsize s2) (sn_ivs s2) (sn_subs s2)
             (sn_raw s2) (sn_np s2) (sn_read s2)).

Definition senc_add := senc_add_gen true.
Definition senc_add_pinned := senc_add_gen false.

(* a history of AddSample calls; a refused sample leaves the box as it is *)
Fixpoint senc_adds (add : senc -> list N -> list subsample -> res senc) (s : senc)
  (l : list (list N * list subsample)) : senc :=
  match l with
  | [] => s
  | (iv, subs) :: rest => match add s iv subs with Ok s' => senc_adds add s' rest | _ => senc_adds add s rest end
  end.

(* calcSize: the loop indexes SubSamples[i] for i < SampleCount when the flag is set *)
Definition senc_calc (s : senc) : res N :=
  let ivs := sn_ivsize s in
  let flag := sn_use_subs s in
  if (ivs =? 0) && negb flag then Ok 16
  else if flag && (lenN (sn_subs s) <? sn_count s) then Panic
  else Ok (16 + sn_count s * ivs
           + (if flag then sumN (map (fun l => 2 + 6 * lenN l) (firstn (N.to_nat (sn_count s)) (sn_subs s))) else 0)).

(* Size() *)
Definition senc_size (s : senc) : res N := if 0 <? sn_read s then Ok (sn_read s) else senc_calc s.

Definition enc_subs (l : list subsample) : list N :=
  be16 (u16 (lenN l)) ++ flat_map (fun p => be16 (fst p) ++ be32 (snd p)) l.

(* what EncodeSWNoHdr writes for sample i *)
Definition senc_sample_bytes (s : senc) (i : nat) : list N :=
  (if 0 <? sn_ivsize s then nth i (sn_ivs s) [] else []) ++
  (if sn_use_subs s then enc_subs (nth i (sn_subs s) []) else []).

Definition senc_index_bad (s : senc) : bool :=
  ((0 <? sn_ivsize s) && (lenN (sn_ivs s) <? sn_count s)) || (sn_use_subs s && (lenN (sn_subs s) <? sn_count s)).

(* EncodeSWNoHdr after versionAndFlags and SampleCount; fixed = false: the text before 954ff09 *)
Definition senc_body_gen (fixed : bool) (s : senc) : res (list N) :=
  if sn_np s then Ok (sn_raw s)
  else if fixed && (sn_count s =? 0) && (0 <? sn_read s) then Ok (sn_raw s)   (* decoded, no samples: the bytes are kept *)
  else if (sn_ivsize s =? 0) && negb (sn_use_subs s) then Ok []
  else if senc_index_bad s then Panic                                            (* IVs[i] / SubSamples[i] *)
  else Ok (flat_map (senc_sample_bytes s) (seq 0 (N.to_nat (sn_count s)))).
Definition senc_body := senc_body_gen true.
Definition senc_body_pinned := senc_body_gen false.

Definition senc_all_gen (fixed : bool) (s : senc) : res (N * list N) :=
  do size <- senc_size s;
  do hd <- enc_hdr TY_SENC size;
  do body <- senc_body_gen fixed s;
  Ok (size, hd ++ be32 (u32 (sn_version s * 16777216 + sn_flags s)) ++ be32 (sn_count s) ++ body).
Definition senc_all := senc_all_gen true.

(* Encode(w): the flag is set first; a FixedSliceWriter of Size() bytes *)
Definition senc_encode_w (s : senc) : senc * res (list N) :=
  let s' := senc_setflag s in
  (s', do p <- senc_all s'; if fst p <? lenN (snd p) then Err else Ok (snd p)).

(* EncodeSW(sw) into a writer that is big enough *)
Definition senc_encode_sw (s : senc) : senc * res (list N) :=
  let s' := senc_setflag s in (s', do p <- senc_all s'; Ok (snd p)).

(* Info at detail level 1 (specificBoxLevels "all:1"): returns before the flag loop when the box has been read but
   not parsed; otherwise sets the flag and prints IVs[i] / SubSamples[i] of every sample *)
Definition senc_info (s : senc) : res senc :=
  if sn_np s then Ok s
  else let s' := senc_setflag s in if senc_index_bad s' then Panic else Ok s'.

(* the box as the aggregate model sees it *)
Definition senc_obox (s : senc) : obox :=
  match senc_size s, snd (senc_encode_w s) with
  | Ok n, Ok b => mkObox TY_SENC n b false
  | Ok n, _ => mkObox TY_SENC n [] true
  | _, _ => mkObox TY_SENC 0 [] true
  end.

(* ------------------------------------------------------------------ the decoders *)
(* DecodeSenc / DecodeSencSR on a box whose header announces `hsize` bytes with a header of `hlen` (8 or 16) bytes and
   whose payload is `payload` (hsize - hlen bytes).  Both decoders make the same checks (in a different order: every
   failure is an error) and leave the same SencBox. *)
Definition rd32_at (l : list N) (k : nat) : N :=
  match skipn k l with a :: b :: c :: d :: _ => ((a * 256 + b) * 256 + c) * 256 + d | _ => 0 end.

Definition senc_decode (hsize hlen : N) (payload : list N) : res senc :=
  if hsize <? 16 then Err
  else if lenN payload <? 8 then Err
  else
    let vf := rd32_at payload 0 in
    let version := vf / 16777216 in
    let flags := vf mod 16777216 in
    if 0 <? version then Err
    else
      let count := rd32_at payload 4 in
      let raw := skipn 8 payload in
      if N.testbit flags B_SUBS && (lenN raw <? 2 * count) then Err
      else Ok (mkSenc version flags count 0 [] [] raw (negb ((count =? 0) || (lenN raw =? 0))) (hsize - hlen + 8)).

(* parseAndFillSamples, the loop: n samples left, each an IV of piv bytes (when piv > 0), a 16-bit sub-sample count
   and that many 6-byte patterns; None: the data ends early *)
Definition rd_pattern (d : list N) : subsample :=
  match d with a :: b :: c :: e :: f :: g :: _ => (a * 256 + b, ((c * 256 + e) * 256 + f) * 256 + g) | _ => (0, 0) end.

Fixpoint rd_patterns (k : nat) (d : list N) : list subsample :=
  match k with
  | O => []
  | S k' => rd_pattern d :: rd_patterns k' (skipn 6 d)
  end.

Fixpoint parse_samples (n : nat) (piv : N) (d : list N) : option (list (list N) * list (list subsample) * list N) :=
  match n with
  | O => Some ([], [], d)
  | S n' =>
      if (0 <? piv) && (lenN d <? piv) then None
      else
        let iv := firstn (N.to_nat piv) d in
        let d1 := skipn (N.to_nat piv) d in
        if lenN d1 <? 2 then None
        else
          let cnt := match d1 with a :: b :: _ => a * 256 + b | _ => 0 end in
          let d2 := skipn 2 d1 in
          if lenN d2 <? cnt * 6 then None
          else
            let ss := rd_patterns (N.to_nat cnt) d2 in
            match parse_samples n' piv (skipn (N.to_nat (cnt * 6)) d2) with
            | Some (ivs, sss, rest) => Some ((if 0 <? piv then iv :: ivs else ivs), ss :: sss, rest)
            | None => None
            end
  end.

(* parseAndFillSamples: on failure (data ends early, or bytes are left over) IVs and SubSamples are reset; the
   per-sample IV size is stored either way *)
Definition senc_fill (s : senc) (piv : N) : senc * bool :=
  match parse_samples (N.to_nat (sn_count s)) piv (sn_raw s) with
  | Some (ivs, sss, []) =>
      (mkSenc (sn_version s) (sn_flags s) (sn_count s) piv (sn_ivs s ++ ivs) sss (sn_raw s) (sn_np s) (sn_read s), true)
  | _ => (mkSenc (sn_version s) (sn_flags s) (sn_count s) piv [] [] (sn_raw s) (sn_np s) (sn_read s), false)
  end.

Definition sn_parsed (s : senc) : senc :=
  mkSenc (sn_version s) (sn_flags s) (sn_count s) (sn_ivsize s) (sn_ivs s) (sn_subs s) (sn_raw s) false (sn_read s).
Definition sn_with_iv (s : senc) (ivsize : N) (ivs : list (list N)) : senc :=
  mkSenc (sn_version s) (sn_flags s) (sn_count s) ivsize ivs (sn_subs s) (sn_raw s) (sn_np s) (sn_read s).

(* the IVs of the no-sub-sample case: SampleCount reads of piv bytes (the caller has checked that they fit) *)
Fixpoint rd_ivs (n : nat) (piv : nat) (d : list N) : list (list N) :=
  match n with
  | O => []
  | S n' => firstn piv d :: rd_ivs n' piv (skipn piv d)
  end.

(* ParseReadBox(perSampleIVSize, saiz): the state afterwards and whether an error is returned.  nrBytesLeft is a
   uint32 and the inferred size a byte (the division cannot be by zero: a box with SampleCount 0 is never
   readButNotParsed after decoding; a hand-made one panics) *)
Definition senc_parse_gen (fixed : bool) (s : senc) (piv0 : N) : senc * res unit :=
  if negb (sn_np s) then (s, Err)                                     (* senc box already parsed *)
  else
    let s0 := if piv0 =? 0 then s else sn_with_iv s piv0 (sn_ivs s) in
    let left := u32 (lenN (sn_raw s)) in
    if negb (sn_use_subs s) then
      if (piv0 =? 0) && (sn_count s =? 0) then (s0, Panic)            (* integer divide by zero *)
      else
        let piv := if piv0 =? 0 then u8 (left / sn_count s) else piv0 in
        let s1 := sn_with_iv s0 piv (sn_ivs s0) in
        (* repo commit 4cf4f8b: the IVs must fill the data exactly (`!=`); before it only `>` was refused *)
        if (if fixed then negb (piv * sn_count s =? left) else left <? piv * sn_count s) then (s1, Err)
        else
          if piv =? 0 then (sn_parsed (sn_with_iv s1 piv []), Ok tt)
          else if (piv =? 8) || (piv =? 16) then
            (sn_parsed (sn_with_iv s1 piv (rd_ivs (N.to_nat (sn_count s)) (N.to_nat piv) (sn_raw s))), Ok tt)
          else (sn_with_iv s1 piv [], Err)                            (* strange derived PerSampleIVSize *)
    else if negb (piv0 =? 0) then
      let '(s1, ok) := senc_fill s0 piv0 in
      if ok then (sn_parsed s1, Ok tt) else (s1, Err)
    else
      let '(s1, ok1) := senc_fill s0 0 in
      if ok1 then (sn_parsed s1, Ok tt)
      else let '(s2, ok2) := senc_fill s1 8 in
           if ok2 then (sn_parsed s2, Ok tt)
           else let '(s3, ok3) := senc_fill s2 16 in
                if ok3 then (sn_parsed s3, Ok tt) else (s3, Err).
Definition senc_parse := senc_parse_gen true.
Definition senc_parse_pinned := senc_parse_gen false.
