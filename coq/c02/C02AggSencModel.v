(* C02AggSencModel.v — executable model of the one box the aggregate model keeps opaque although its Encode and
   Info change it: SencBox (mp4/senc.go): CreateSencBox, AddSample, setSubSamplesUsedFlag (run by Encode, EncodeSW
   and Info), Size() (readBoxSize overrides the computed size), calcSize, Encode (FixedSliceWriter of Size() bytes:
   overflow is an error, under-fill is silent), EncodeSW (into the caller's writer).  Definitions only.
   Mirrors /repo after the fix commits ecf1460 and 0b086ee (AddSample keeps one SubSamples entry per sample and
   refuses a sample without IV after samples with IVs); `senc_add_pinned` is the text before them. *)
From V.lib Require Import Base.
From V.c05 Require Import C05CodecModel.
From V.c02 Require Import C02AggModel.

Definition TY_SENC : list N := [115; 101; 110; 99].
Definition be16 (x : N) : list N := [x / 256 mod 256; x mod 256].

(* SubSamplePattern: BytesOfClearData uint16, BytesOfProtectedData uint32 *)
Notation subsample := (N * N)%type (only parsing).

Record senc := mkSenc {
  sn_version : N; sn_flags : N; sn_count : N; sn_ivsize : N;
  sn_ivs : list (list N); sn_subs : list (list subsample);
  sn_raw : option (list N);        (* readButNotParsed with rawData *)
  sn_read : N }.                   (* readBoxSize *)

Definition B_SUBS : N := 1.        (* UseSubSampleEncryption 0x2 *)
Definition sn_use_subs (s : senc) : bool := N.testbit (sn_flags s) B_SUBS.
Definition is_nil {A} (l : list A) : bool := match l with [] => true | _ => false end.

Definition sn_with_flags (s : senc) (f : N) : senc :=
  mkSenc (sn_version s) f (sn_count s) (sn_ivsize s) (sn_ivs s) (sn_subs s) (sn_raw s) (sn_read s).

(* CreateSencBox *)
Definition senc_create : senc := mkSenc 0 0 0 0 [] [] None 0.

(* setSubSamplesUsedFlag *)
Definition senc_setflag (s : senc) : senc :=
  if existsb (fun l => negb (is_nil l)) (sn_subs s) then sn_with_flags s (N.setbit (sn_flags s) B_SUBS) else s.

(* AddSample(SencSample{IV, SubSamples}); fixed = false: the text before ecf1460 / 0b086ee *)
Definition senc_add_gen (fixed : bool) (s : senc) (iv : list N) (subs : list subsample) : res senc :=
  do s1 <- (match iv with
            | [] => if fixed && negb (sn_count s =? 0) && negb (is_nil (sn_ivs s)) then Err else Ok s
            | _ =>
                if sn_count s =? 0 then
                  Ok (mkSenc (sn_version s) (sn_flags s) (sn_count s) (u8 (lenN iv)) (sn_ivs s ++ [iv]) (sn_subs s)
                             (sn_raw s) (sn_read s))
                else if negb (lenN iv =? sn_ivsize s) then Err          (* mix of IV lengths *)
                else Ok (mkSenc (sn_version s) (sn_flags s) (sn_count s) (sn_ivsize s) (sn_ivs s ++ [iv]) (sn_subs s)
                                (sn_raw s) (sn_read s))
            end);
  let s2 :=
    if fixed then
      if negb (is_nil subs) || sn_use_subs s1 then
        let padded := sn_subs s1 ++ repeat [] (N.to_nat (sn_count s1) - length (sn_subs s1)) in
        mkSenc (sn_version s1) (if negb (is_nil subs) then N.setbit (sn_flags s1) B_SUBS else sn_flags s1)
               (sn_count s1) (sn_ivsize s1) (sn_ivs s1) (padded ++ [subs]) (sn_raw s1) (sn_read s1)
      else s1
    else
      if negb (is_nil subs) then
        mkSenc (sn_version s1) (N.setbit (sn_flags s1) B_SUBS) (sn_count s1) (sn_ivsize s1) (sn_ivs s1)
               (sn_subs s1 ++ [subs]) (sn_raw s1) (sn_read s1)
      else s1 in
  Ok (mkSenc (sn_version s2) (sn_flags s2) (u32 (sn_count s2 + 1)) (sn_ivsize s2) (sn_ivs s2) (sn_subs s2)
             (sn_raw s2) (sn_read s2)).

Definition senc_add := senc_add_gen true.
Definition senc_add_pinned := senc_add_gen false.

(* a history of AddSample calls; a refused sample leaves the box as it is *)
Fixpoint senc_adds (add : senc -> list N -> list subsample -> res senc) (s : senc)
  (l : list (list N * list subsample)) : senc :=
  match l with
  | [] => s
  | (iv, subs) :: rest => match add s iv subs with Ok s' => senc_adds add s' rest | _ => senc_adds add s rest end
  end.

(* calcSize: the loop indexes SubSamples[i] for i < SampleCount when the flag is set *)
Definition senc_calc (s : senc) : res N :=
  let ivs := sn_ivsize s in
  let flag := sn_use_subs s in
  if (ivs =? 0) && negb flag then Ok 16
  else if flag && (lenN (sn_subs s) <? sn_count s) then Panic
  else Ok (16 + sn_count s * ivs
           + (if flag then sumN (map (fun l => 2 + 6 * lenN l) (firstn (N.to_nat (sn_count s)) (sn_subs s))) else 0)).

(* Size() *)
Definition senc_size (s : senc) : res N := if 0 <? sn_read s then Ok (sn_read s) else senc_calc s.

Definition enc_subs (l : list subsample) : list N :=
  be16 (u16 (lenN l)) ++ flat_map (fun p => be16 (fst p) ++ be32 (snd p)) l.

(* what EncodeSWNoHdr writes for sample i *)
Definition senc_sample_bytes (s : senc) (i : nat) : list N :=
  (if 0 <? sn_ivsize s then nth i (sn_ivs s) [] else []) ++
  (if sn_use_subs s then enc_subs (nth i (sn_subs s) []) else []).

Definition senc_index_bad (s : senc) : bool :=
  ((0 <? sn_ivsize s) && (lenN (sn_ivs s) <? sn_count s)) || (sn_use_subs s && (lenN (sn_subs s) <? sn_count s)).

(* EncodeSWNoHdr after versionAndFlags and SampleCount *)
Definition senc_body (s : senc) : res (list N) :=
  match sn_raw s with
  | Some d => Ok d
  | None =>
      if (sn_ivsize s =? 0) && negb (sn_use_subs s) then Ok []
      else if senc_index_bad s then Panic                                            (* IVs[i] / SubSamples[i] *)
      else Ok (flat_map (senc_sample_bytes s) (seq 0 (N.to_nat (sn_count s))))
  end.

Definition senc_all (s : senc) : res (N * list N) :=
  do size <- senc_size s;
  do hd <- enc_hdr TY_SENC size;
  do body <- senc_body s;
  Ok (size, hd ++ be32 (u32 (sn_version s * 16777216 + sn_flags s)) ++ be32 (sn_count s) ++ body).

(* Encode(w): the flag is set first; a FixedSliceWriter of Size() bytes *)
Definition senc_encode_w (s : senc) : senc * res (list N) :=
  let s' := senc_setflag s in
  (s', do p <- senc_all s'; if fst p <? lenN (snd p) then Err else Ok (snd p)).

(* EncodeSW(sw) into a writer that is big enough *)
Definition senc_encode_sw (s : senc) : senc * res (list N) :=
  let s' := senc_setflag s in (s', do p <- senc_all s'; Ok (snd p)).

(* Info at detail level 1 (specificBoxLevels "all:1"): returns before the flag loop when the box has been read but
   not parsed; otherwise sets the flag and prints IVs[i] / SubSamples[i] of every sample *)
Definition senc_info (s : senc) : res senc :=
  match sn_raw s with
  | Some _ => Ok s
  | None => let s' := senc_setflag s in if senc_index_bad s' then Panic else Ok s'
  end.

(* the box as the aggregate model sees it *)
Definition senc_obox (s : senc) : obox :=
  match senc_size s, snd (senc_encode_w s) with
  | Ok n, Ok b => mkObox TY_SENC n b false
  | Ok n, _ => mkObox TY_SENC n [] true
  | _, _ => mkObox TY_SENC 0 [] true
  end.
