(* C02Proofs.v — Size() = bytes written = header size field, for every leaf kind of the C01 model and at
   every node of a tree.  The statements are about raw_box false (what the Go encoders write) and are
   conditional on the exact guards under which the separately written Size() and EncodeSW agree. *)
From V.lib Require Import Base.
From Coq Require Import Permutation.
From V.c01 Require Import C01Codec C01Model C01LeafProofs C01TreeProofs.
From V.c01 Require Export C01SizeProofs.   (* leaf_size_guard, leaf_size: the leaf part, shared with C01's fixed point *)

Local Opaque zeros unity_matrix.

(* ---------------------------------------------------------------- header field of the written bytes *)
Lemma skipn_app_len {A} (x y : list A) n : length x = n -> skipn n (x ++ y) = y.
Proof. intros <-. induction x as [|a x IH]; [reflexivity|]. cbn [length skipn app]. exact IH. Qed.

Lemma hdr_field_compact name sz rest :
  8 <= sz < 4294967296 -> hdr_size_field (enc_hdr name sz ++ rest) = sz.
Proof.
  intros [Hlo Hhi]. unfold hdr_size_field, enc_hdr. rewrite <- app_assoc.
  rewrite rd_enc by (change (256 ^ N.of_nat 4) with 4294967296; lia).
  destruct sz as [|p]; [lia|]. destruct p; try reflexivity. lia.
Qed.

Lemma hdr_field_large name sz rest :
  lenN name = 4 -> sz < 18446744073709551616 -> hdr_size_field (enc_hdr_large name sz ++ rest) = sz.
Proof.
  intros Hn Hhi. unfold hdr_size_field, enc_hdr_large. repeat rewrite <- app_assoc.
  rewrite rd_enc by (cbn; lia).
  rewrite skipn_app_len by (unfold lenN in Hn; lia).
  now rewrite rd_enc by (change (256 ^ N.of_nat 8) with 18446744073709551616; lia).
Qed.

(* ---------------------------------------------------------------- trees *)
Section MboxInd.
  Variable P : mbox -> Prop.
  Hypothesis HL : forall h l r, P (MLeaf h l r).
  Hypothesis HC : forall h cs, Forall P cs -> P (MCont h cs).
  Hypothesis HU : forall h p, P (MUnknown h p).
  Hypothesis HP : forall h l r cs, Forall P cs -> P (MPre h l r cs).
  Fixpoint mbox_ind' (t : mbox) : P t :=
    match t with
    | MLeaf h l r => HL h l r
    | MCont h cs => HC h cs ((fix go (cs : list mbox) : Forall P cs :=
                                match cs with [] => Forall_nil _ | c :: t => Forall_cons _ (mbox_ind' c) (go t) end) cs)
    | MUnknown h p => HU h p
    | MPre h l r cs => HP h l r cs ((fix go (cs : list mbox) : Forall P cs :=
                                match cs with [] => Forall_nil _ | c :: t => Forall_cons _ (mbox_ind' c) (go t) end) cs)
    end.
End MboxInd.

Fixpoint size_ok (t : mbox) : bool :=
  match t with
  | MLeaf _ l _ => leaf_size_guard l && (if leaf_large l then true else size_leaf l <? 4294967296)
  | MCont h cs => (lenN (h_name h) =? 4) && (8 + sumN (map size_box cs) <? 4294967296) && forallb size_ok cs
  | MUnknown h p => (lenN (h_name h) =? 4) && (h_size h =? (if 8 <? h_len h then 16 else 8) + lenN p) &&
                    (h_size h <? (if 8 <? h_len h then 18446744073709551616 else 4294967296))
  | MPre _ l _ cs => leaf_size_guard l && negb (leaf_large l) &&
                     (size_leaf l + sumN (map size_box cs) <? 4294967296) && forallb size_ok cs
  end.

(* the property at one node: the encoder succeeds, writes Size() bytes, and the size field it writes first
   is Size() *)
Definition node_ok (t : mbox) : Prop :=
  exists enc, raw_box false t = Ok enc /\ lenN enc = size_box t /\ hdr_size_field enc = size_box t.

Fixpoint every (P : mbox -> Prop) (t : mbox) : Prop :=
  P t /\ match t with
         | MCont _ cs => fold_right (fun c acc => every P c /\ acc) True cs
         | MPre _ _ _ cs => fold_right (fun c acc => every P c /\ acc) True cs
         | _ => True
         end.

Lemma every_head P t : every P t -> P t.
Proof. destruct t; cbn [every]; tauto. Qed.

(* moov_order is a permutation *)
Lemma moov_add_perm {A} (f : A -> bool) cs c : Permutation (moov_add f cs c) (cs ++ [c]).
Proof.
  unfold moov_add. destruct (moov_cond f cs c); [|reflexivity].
  set (k := S (last_trak_idx f cs 0 0)).
  rewrite <- (firstn_skipn k cs) at 3. rewrite <- app_assoc.
  apply Permutation_app_head. apply Permutation_cons_append.
Qed.

Lemma moov_order_perm {A} (f : A -> bool) cs : forall acc,
  Permutation (fold_left (moov_add f) cs acc) (acc ++ cs).
Proof.
  induction cs as [|c t IH]; intros acc; cbn [fold_left].
  - now rewrite app_nil_r.
  - rewrite IH. rewrite moov_add_perm. now rewrite <- app_assoc.
Qed.

Definition elen (e : bool * res (list N)) : N := match snd e with Ok b => lenN b | _ => 0 end.

Lemma cat_encs_ok l enc : cat_encs l = Ok enc ->
  (forall e, In e l -> exists b, snd e = Ok b) /\ lenN enc = sumN (map elen l).
Proof.
  revert enc. induction l as [|e t IH]; intros enc H; cbn [cat_encs fold_right] in H.
  - injection H as <-. split; [intros e []|reflexivity].
  - fold (cat_encs t) in H. destruct (snd e) as [b| | |] eqn:Ee; try discriminate.
    destruct (cat_encs t) as [bt| | |] eqn:Et; try discriminate.
    cbn [rcat] in H. injection H as <-. destruct (IH _ eq_refl) as [Hall Hlen]. split.
    + intros e' [<-|Hin]; [now exists b|now apply Hall].
    + cbn [map sumN]. unfold elen at 1. rewrite Ee, lenN_app, Hlen. reflexivity.
Qed.

Lemma sumN_perm (l l' : list N) : Permutation l l' -> sumN l = sumN l'.
Proof. induction 1; cbn [sumN]; lia. Qed.

Lemma every_children P cs : Forall (every P) cs -> fold_right (fun c acc => every P c /\ acc) True cs.
Proof. induction 1; cbn [fold_right]; auto. Qed.

Lemma tree_size t : size_ok t = true -> forall enc, raw_box false t = Ok enc -> every node_ok t.
Proof.
  induction t as [h l r|h cs IH|h p|h l r cs IH] using mbox_ind'; intros Hs enc He; cbn [size_ok] in Hs.
  - (* leaf *)
    apply andb_true_iff in Hs. destruct Hs as [Hg Hfit]. cbn [every]. split; [|exact I].
    exists enc. cbn [raw_box size_box] in *. split; [assumption|].
    pose proof (leaf_size _ _ He Hg) as Hl. split; [assumption|].
    unfold raw_leaf in He. destruct (body_leaf l (dflt_rsv l)) as [b| | |]; try discriminate.
    injection He as <-. unfold leaf_hdr in *. destruct (leaf_large l) eqn:El.
    + destruct l; try discriminate El. cbn [leaf_size_guard] in Hg. apply N.ltb_lt in Hg.
      apply hdr_field_large; [reflexivity|]. cbn [size_leaf].
      destruct (large || (4294967287 <? lenN data)); lia.
    + apply N.ltb_lt in Hfit. apply hdr_field_compact. split; [|assumption].
      rewrite <- Hl. unfold enc_hdr. rewrite !lenN_app, lenN_be_enc, (leaf_name_len _ Hg). lia.
  - (* container *)
    apply andb_true_iff in Hs. destruct Hs as [Hs Hcs]. apply andb_true_iff in Hs. destruct Hs as [Hn Hfit].
    apply N.eqb_eq in Hn. apply N.ltb_lt in Hfit.
    rewrite raw_box_cont in He. cbv zeta in He.
    set (encs := map (genc false) cs) in *.
    set (encs' := if bytes_eqb (h_name h) n_moov then moov_order fst encs else encs) in *.
    assert (Hperm : Permutation encs' encs).
    { unfold encs'. destruct (bytes_eqb (h_name h) n_moov); [|reflexivity].
      unfold moov_order. now rewrite moov_order_perm. }
    assert (Hall : exists body, cat_encs encs' = Ok body /\
                     enc = enc_hdr (h_name h) (8 + sumN (map size_box cs)) ++ body).
    { destruct (cat_encs encs') as [body| | |] eqn:Eb.
      - exists body. split; [reflexivity|]. cbn [rcat] in He.
        destruct (bytes_eqb (h_name h) n_moof); [destruct (moof_pre cs); try discriminate|]; now injection He as <-.
      - cbn [rcat] in He. destruct (bytes_eqb (h_name h) n_moof); [destruct (moof_pre cs)|]; discriminate.
      - cbn [rcat] in He. destruct (bytes_eqb (h_name h) n_moof); [destruct (moof_pre cs)|]; discriminate.
      - cbn [rcat] in He. destruct (bytes_eqb (h_name h) n_moof); [destruct (moof_pre cs)|]; discriminate. }
    destruct Hall as (body & Hbody & ->).
    destruct (cat_encs_ok _ _ Hbody) as [Hok Hlen].
    (* every child encodes, and satisfies the property *)
    assert (Hok' : forall c, In c cs -> exists b, raw_box false c = Ok b).
    { intros c Hin. destruct (Hok (genc false c)) as (b & Hb).
      - eapply Permutation_in; [symmetry; exact Hperm|]. unfold encs. now apply in_map.
      - exists b. exact Hb. }
    assert (Hch : Forall (every node_ok) cs /\ sumN (map elen (map (genc false) cs)) = sumN (map size_box cs)).
    { clear - IH Hcs Hok'. induction cs as [|c t IHt]; [split; [constructor|reflexivity]|].
      cbn [forallb] in Hcs. apply andb_true_iff in Hcs. destruct Hcs as [Hc Ht].
      inversion IH as [|? ? IHc IHr]; subst.
      destruct (Hok' c (or_introl eq_refl)) as (b & Hb).
      pose proof (IHc Hc _ Hb) as Hev.
      destruct (IHt IHr Ht (fun c' Hin => Hok' c' (or_intror Hin))) as [Hf Hsum].
      split; [now constructor|]. cbn [map sumN]. rewrite Hsum. f_equal.
      unfold elen, genc. cbn [snd]. rewrite Hb. destruct (every_head _ _ Hev) as (e' & He' & Hl' & _).
      rewrite Hb in He'. now injection He' as <-. }
    fold encs in Hch.
    destruct Hch as [Hev Hsum].
    cbn [every]. split; [|now apply every_children].
    eexists. split.
    + rewrite raw_box_cont. cbv zeta. fold encs. fold encs'. rewrite Hbody. cbn [rcat].
      destruct (bytes_eqb (h_name h) n_moof); [|reflexivity].
      destruct (moof_pre cs); try discriminate; reflexivity.
    + cbn [size_box]. split.
      * unfold enc_hdr. rewrite !lenN_app, lenN_be_enc, Hn, Hlen.
        rewrite (sumN_perm _ _ (Permutation_map elen Hperm)), Hsum. lia.
      * apply hdr_field_compact. lia.
  - (* unknown *)
    apply andb_true_iff in Hs. destruct Hs as [Hs H2]. apply andb_true_iff in Hs. destruct Hs as [Hn H1].
    apply N.eqb_eq in H1, Hn. apply N.ltb_lt in H2.
    cbn [every]. split; [|exact I]. cbn [raw_box] in He. injection He as <-.
    eexists. split; [reflexivity|]. cbn [size_box]. destruct (8 <? h_len h); split.
    + unfold enc_hdr_large. rewrite !lenN_app, !lenN_be_enc, Hn. lia.
    + apply hdr_field_large; assumption.
    + unfold enc_hdr. rewrite !lenN_app, lenN_be_enc, Hn. lia.
    + apply hdr_field_compact. lia.
  - (* prefixed box *)
    apply andb_true_iff in Hs. destruct Hs as [Hs Hcs]. apply andb_true_iff in Hs. destruct Hs as [Hs Hfit].
    apply andb_true_iff in Hs. destruct Hs as [Hg Hnl]. apply negb_true_iff in Hnl. apply N.ltb_lt in Hfit.
    pose proof (leaf_name_len l Hg) as Hn.
    rewrite raw_box_pre in He.
    destruct (body_leaf l (dflt_rsv l)) as [b| | |] eqn:Eb; try discriminate.
    destruct (cat_encs (map (genc false) cs)) as [body| | |] eqn:Ebody; try discriminate.
    cbn [rcat] in He. injection He as <-.
    assert (Hlb : 8 + lenN b = size_leaf l).
    { assert (Hr : raw_leaf l (dflt_rsv l) = Ok (leaf_hdr l ++ b)) by (unfold raw_leaf; now rewrite Eb).
      pose proof (leaf_size _ _ Hr Hg) as Hl. unfold leaf_hdr in Hl. rewrite Hnl in Hl.
      unfold enc_hdr in Hl. rewrite !lenN_app, lenN_be_enc, Hn in Hl. lia. }
    destruct (cat_encs_ok _ _ Ebody) as [Hok Hlen].
    assert (Hok' : forall c, In c cs -> exists b, raw_box false c = Ok b).
    { intros c Hin. destruct (Hok (genc false c)) as (b' & Hb'); [now apply in_map|]. now exists b'. }
    assert (Hch : Forall (every node_ok) cs /\ sumN (map elen (map (genc false) cs)) = sumN (map size_box cs)).
    { clear - IH Hcs Hok'. induction cs as [|c t IHt]; [split; [constructor|reflexivity]|].
      cbn [forallb] in Hcs. apply andb_true_iff in Hcs. destruct Hcs as [Hc Ht].
      inversion IH as [|? ? IHc IHr]; subst.
      destruct (Hok' c (or_introl eq_refl)) as (b & Hb).
      pose proof (IHc Hc _ Hb) as Hev.
      destruct (IHt IHr Ht (fun c' Hin => Hok' c' (or_intror Hin))) as [Hf Hsum].
      split; [now constructor|]. cbn [map sumN]. rewrite Hsum. f_equal.
      unfold elen, genc. cbn [snd]. rewrite Hb. destruct (every_head _ _ Hev) as (e' & He' & Hl' & _).
      rewrite Hb in He'. now injection He' as <-. }
    destruct Hch as [Hev Hsum].
    cbn [every]. split; [|now apply every_children].
    eexists. split.
    + rewrite raw_box_pre, Eb, Ebody. reflexivity.
    + cbn [size_box]. split.
      * unfold enc_hdr. rewrite !lenN_app, lenN_be_enc, Hn, Hlen, Hsum. lia.
      * apply hdr_field_compact. lia.
Qed.

(* ---------------------------------------------------------------- the two encode paths *)
Lemma tree_size_top t enc : size_ok t = true -> raw_box false t = Ok enc ->
  lenN enc = size_box t /\ hdr_size_field enc = size_box t.
Proof.
  intros Hs He. destruct (every_head _ _ (tree_size t Hs enc He)) as (e' & He' & Hl & Hf).
  rewrite He in He'. injection He' as <-. now split.
Qed.

Lemma encode_w_size t enc : size_ok t = true -> encode_w t = Ok enc ->
  lenN enc = size_box t /\ hdr_size_field enc = size_box t.
Proof.
  intros Hs H. unfold encode_w in H. destruct (raw_box false t) as [b| | |] eqn:E; try discriminate.
  destruct (enc_fits t && caps_ok t); [|discriminate]. injection H as <-. now apply tree_size_top.
Qed.

Lemma encode_sw_size t enc : size_ok t = true -> encode_sw t = Ok enc ->
  lenN enc = size_box t /\ hdr_size_field enc = size_box t.
Proof.
  intros Hs H. unfold encode_sw in H. destruct (raw_box false t) as [b| | |] eqn:E; try discriminate.
  destruct (enc_fits t && (lenN b <=? size_box t)); [|discriminate]. injection H as <-. now apply tree_size_top.
Qed.

Lemma size_ok_fits t : size_ok t = true -> enc_fits t = true.
Proof.
  induction t as [h l r|h cs IH|h p|h l r cs IH] using mbox_ind'; cbn [size_ok enc_fits]; intros H.
  - apply andb_true_iff in H. destruct H as [_ H]. destruct (leaf_large l); [reflexivity|exact H].
  - apply andb_true_iff in H. destruct H as [H Hcs]. apply andb_true_iff in H. destruct H as [_ Hf].
    rewrite Hf. cbn [andb]. apply forallb_forall. intros c Hin.
    rewrite Forall_forall in IH. apply IH; [assumption|]. rewrite forallb_forall in Hcs. now apply Hcs.
  - apply andb_true_iff in H. destruct H as [_ H]. destruct (8 <? h_len h); [reflexivity|exact H].
  - apply andb_true_iff in H. destruct H as [H Hcs]. apply andb_true_iff in H. destruct H as [_ Hf].
    rewrite Hf. cbn [andb]. apply forallb_forall. intros c Hin.
    rewrite Forall_forall in IH. apply IH; [assumption|]. rewrite forallb_forall in Hcs. now apply Hcs.
Qed.

Lemma size_ok_caps t : size_ok t = true -> caps_ok t = true.
Proof.
  induction t as [h l r|h cs IH|h p|h l r cs IH] using mbox_ind'; cbn [size_ok caps_ok]; intros H.
  - apply andb_true_iff in H. destruct H as [Hg _].
    destruct (raw_leaf l (dflt_rsv l)) as [b| | |] eqn:E; try (destruct l; reflexivity).
    pose proof (leaf_size _ _ E Hg) as Hl. destruct l; try reflexivity; apply N.leb_le; lia.
  - apply andb_true_iff in H. destruct H as [_ Hcs]. apply forallb_forall. intros c Hin.
    rewrite Forall_forall in IH. apply IH; [assumption|]. rewrite forallb_forall in Hcs. now apply Hcs.
  - apply andb_true_iff in H. destruct H as [H _]. apply andb_true_iff in H. destruct H as [_ H].
    apply N.eqb_eq in H. apply N.leb_le. destruct (8 <? h_len h); lia.
  - apply andb_true_iff in H. destruct H as [_ Hcs]. apply forallb_forall. intros c Hin.
    rewrite Forall_forall in IH. apply IH; [assumption|]. rewrite forallb_forall in Hcs. now apply Hcs.
Qed.

Lemma encode_ok t enc : size_ok t = true -> raw_box false t = Ok enc ->
  encode_w t = Ok enc /\ encode_sw t = Ok enc.
Proof.
  intros Hs He. destruct (tree_size_top _ _ Hs He) as [Hl _].
  unfold encode_w, encode_sw. rewrite He, (size_ok_fits _ Hs), (size_ok_caps _ Hs). cbn [andb].
  replace (lenN enc <=? size_box t) with true by (symmetry; apply N.leb_le; lia). now split.
Qed.
