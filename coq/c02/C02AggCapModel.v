(* C02AggCapModel.v — EncodeSW of the aggregates into a bits.FixedSliceWriter of a given capacity.  Definitions only.

   Fragment.EncodeSW / MediaSegment.EncodeSW / InitSegment.EncodeSW / File.EncodeSW hand the caller's writer down
   to every box (`err := c.EncodeSW(sw); if err != nil { return err }`).  A FixedSliceWriter never grows: a write
   that does not fit latches ErrSliceWrite, later writes are dropped, and every box's EncodeSW ends with
   `return sw.AccError()`.  Seen at box granularity: `room` bytes are left; a box that fits is appended, a box
   that does not fit makes its EncodeSW return an error (the loop stops there: the state changes of the boxes
   that come later - MdatBox.Size() setting LargeSize - do not happen).  Nothing in the encoders looks at the
   capacity: the functions below are C02AggModel's afrag_encode / aseg_encode / ainit_encode / afile_encode with the
   remaining room threaded through, in the order of the Go loops. *)
From V.lib Require Import Base.
From V.c05 Require Import C05Model C05FragModel C05CodecModel.
From V.c02 Require Import C02AggModel.

Definition sw_put (room : N) (b : list N) : res N := if room <? lenN b then Err else Ok (room - lenN b).

(* one stateless box *)
Definition sw_box (room : N) (r : res (list N)) : res (list N * N) :=
  match r with
  | Ok b => match sw_put room b with Ok room' => Ok (b, room') | _ => Err end
  | Panic => Panic
  | _ => Err
  end.

(* a loop over stateless boxes *)
Fixpoint sw_list {A} (f : A -> res (list N)) (l : list A) (room : N) : res (list (list N) * N) :=
  match l with
  | [] => Ok ([], room)
  | x :: t =>
      match sw_box room (f x) with
      | Ok (a, room1) => match sw_list f t room1 with Ok (r, room2) => Ok (a :: r, room2) | e => e end
      | Panic => Panic
      | _ => Err
      end
  end.

(* Fragment.EncodeSW(sw) *)
Definition afrag_encode_sw (room : N) (fr : afrag) : afrag * res (list (list N) * N) :=
  match af_moof fr with
  | None => (fr, Err)
  | Some m =>
      match (if af_opt fr then optimize_moof m else Ok m) with
      | Ok m1 =>
          match af_mdat fr with
          | None => (af_set fr (Some m1) None, Err)
          | Some md =>
              let '(m2, md2) := aset_offsets m1 md in
              let fr2 := af_set fr (Some m2) (Some md2) in
              match sw_list enc_obox (af_pre fr) room with
              | Ok (b1, r1) =>
                  match sw_box r1 (amoof_enc m2) with
                  | Ok (b2, r2) =>
                      match sw_list enc_obox (af_mid fr) r2 with
                      | Ok (b3, r3) =>
                          let '(md3, e4) := amd_enc md2 in
                          let fr3 := af_set fr (Some m2) (Some md3) in
                          match sw_box r3 e4 with
                          | Ok (b4, r4) =>
                              match sw_list enc_obox (af_post fr) r4 with
                              | Ok (b5, r5) => (fr3, Ok (b1 ++ [b2] ++ b3 ++ [b4] ++ b5, r5))
                              | _ => (fr3, Err)
                              end
                          | _ => (fr3, Err)
                          end
                      | _ => (fr2, Err)
                      end
                  | _ => (fr2, Err)
                  end
              | _ => (fr2, Err)
              end
          end
      | Panic => (fr, Panic)
      | _ => (fr, Err)
      end
  end.

(* a loop over stateful parts sharing the writer *)
Fixpoint sw_seq {A} (enc : N -> A -> A * res (list (list N) * N)) (l : list A) (room : N)
  : list A * res (list (list N) * N) :=
  match l with
  | [] => ([], Ok ([], room))
  | a :: rest =>
      let '(a', r) := enc room a in
      match r with
      | Ok (b, room1) =>
          let '(rest', r2) := sw_seq enc rest room1 in
          (a' :: rest', match r2 with Ok (b2, room2) => Ok (b ++ b2, room2) | e => e end)
      | Panic => (a' :: rest, Panic)
      | _ => (a' :: rest, Err)
      end
  end.

Definition sw_frags (opt : bool) (fs : list afrag) (room : N) : list afrag * res (list (list N) * N) :=
  sw_seq (fun room f => afrag_encode_sw room (af_set_opt f opt)) fs room.

(* MediaSegment.EncodeSW(sw) *)
Definition aseg_encode_sw (room : N) (s : aseg) : aseg * res (list (list N) * N) :=
  match sw_list enc_obox (opt_list (sg_styp s) ++ sg_sidxs s) room with
  | Ok (b1, r1) =>
      let '(fs', r) := sw_frags (sg_opt s) (sg_frags s) r1 in
      (aseg_with_frags s fs', match r with Ok (b2, r2) => Ok (b1 ++ b2, r2) | e => e end)
  | _ => (s, Err)
  end.

(* InitSegment.EncodeSW(sw) *)
Definition ainit_encode_sw (room : N) (i : ainit) : res (list (list N) * N) := sw_list enc_obox i room.

Definition fc_encode_sw (room : N) (c : fchild) : fchild * res (list (list N) * N) :=
  match c with
  | FcMoof m => (c, match sw_box room (amoof_enc m) with Ok (b, r) => Ok ([b], r) | Panic => Panic | _ => Err end)
  | FcMdat md =>
      let '(md', e) := amd_enc md in
      (FcMdat md', match sw_box room e with Ok (b, r) => Ok ([b], r) | Panic => Panic | _ => Err end)
  | FcOther o => (c, match sw_box room (enc_obox o) with Ok (b, r) => Ok ([b], r) | Panic => Panic | _ => Err end)
  end.

Definition sw_segs (fopt : bool) (ss : list aseg) (room : N) : list aseg * res (list (list N) * N) :=
  sw_seq (fun room s => aseg_encode_sw room (if fopt then aseg_set_opt s true else s)) ss room.

(* File.EncodeSW(sw) *)
Definition afile_encode_sw (room : N) (f : afile) : afile * res (list (list N) * N) :=
  if fl_fragmented f && negb (fl_mode f =? 0) && negb (fl_mode f =? 1) then (f, Err)
  else if afile_seg_mode f then
    match sw_list enc_obox (match fl_init f with Some i => i | None => [] end ++ fl_sidxs f) room with
    | Ok (b1, r1) =>
        let '(ss', r) := sw_segs (fl_opt f) (fl_segs f) r1 in
        let f' := afile_with f ss' (fl_children f) in
        match r with
        | Ok (b2, r2) =>
            match sw_list enc_obox (opt_list (fl_mfra f)) r2 with
            | Ok (b3, r3) => (f', Ok (b1 ++ b2 ++ b3, r3))
            | _ => (f', Err)
            end
        | Panic => (f', Panic)
        | _ => (f', Err)
        end
    | _ => (f, Err)
    end
  else
    let '(cs', r) := sw_seq fc_encode_sw (fl_children f) room in (afile_with f (fl_segs f) cs', r).

(* ------------------------------------------------------------------ histories with sized writers *)
(* the caller sizes the writer from Size() (which is an operation of its own: MdatBox.Size() sets LargeSize):
   capacity = mul * Size() + add; the harness uses exact (1, 0), one spare byte (1, 1), 64 spare bytes (1, 64) and
   twice the size (2, 0).  XOp: the operations of C02AggModel (EncodeSW there has a writer that is never full). *)
Inductive xop := XOp (o : aop) | XSizedSW (mul add : N).

Definition out_of_sw (r : res (list (list N) * N)) : aout :=
  match r with Ok p => OutBytes (fst p) | Panic => OutPanic | _ => OutErr end.

Definition afrag_xstep (fr : afrag) (o : xop) : afrag * aout :=
  match o with
  | XOp o' => afrag_step fr o'
  | XSizedSW mul add =>
      let '(fr', r) := afrag_encode_sw (mul * afrag_size fr + add) (afrag_touch fr) in (fr', out_of_sw r)
  end.

Definition aseg_xstep (s : aseg) (o : xop) : aseg * aout :=
  match o with
  | XOp o' => aseg_step s o'
  | XSizedSW mul add =>
      let '(s', r) := aseg_encode_sw (mul * aseg_size s + add) (aseg_touch s) in (s', out_of_sw r)
  end.

Definition ainit_xstep (i : ainit) (o : xop) : ainit * aout :=
  match o with
  | XOp o' => ainit_step i o'
  | XSizedSW mul add => (i, out_of_sw (ainit_encode_sw (mul * ainit_size i + add) i))
  end.

Definition afile_xstep (f : afile) (o : xop) : afile * aout :=
  match o with
  | XOp o' => afile_step f o'
  | XSizedSW mul add =>
      let '(f', r) := afile_encode_sw (mul * afile_size f + add) (afile_touch f) in (f', out_of_sw r)
  end.

Fixpoint run_xhist {S} (step : S -> xop -> S * aout) (s : S) (ops : list xop) : list aout * S :=
  match ops with
  | [] => ([], s)
  | o :: rest =>
      let '(s', out) := step s o in
      match out with
      | OutPanic => ([OutPanic], s')
      | _ => let '(outs, s'') := run_xhist step s' rest in (out :: outs, s'')
      end
  end.

(* ------------------------------------------------------------------ progressive files: positions *)
(* a non-fragmented file is its Children in the order they were read or added (ftyp, moov, mdat, ...; or mdat
   first).  The chunk offsets in moov/.../stco|co64 are absolute file positions of sample data inside the mdat
   payload; File.Encode does not rewrite them (moov is one of the boxes C02AggModel keeps opaque and stateless).
   `payload_starts`: for every mdat child, the file position at which its payload begins, from the Size() and
   HeaderSize() values alone. *)
Fixpoint payload_starts (pos : N) (cs : list fchild) : list N :=
  match cs with
  | [] => []
  | FcMdat md :: rest => (pos + md_header_size md) :: payload_starts (pos + md_size md) rest
  | c :: rest => payload_starts (pos + fc_size c) rest
  end.

(* the same read off the output of File.Encode (one box per child, in order): the payload of a written mdat box
   begins where the box begins plus what the box is longer than the payload (its header) *)
Fixpoint out_payload_starts (pos : N) (cs : list fchild) (boxes : list (list N)) : list N :=
  match cs, boxes with
  | FcMdat md :: cs', b :: bs => (pos + (lenN b - lenN (md_written md))) :: out_payload_starts (pos + lenN b) cs' bs
  | _ :: cs', b :: bs => out_payload_starts (pos + lenN b) cs' bs
  | _, _ => []
  end.
