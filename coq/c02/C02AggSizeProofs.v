(* C02AggSizeProofs.v — bytes written = Size(), header size field = length of the box, container = header +
   children, for the boxes of the aggregate model (tfhd, tfdt, trun, mfhd, traf, moof, mdat). *)
From V.lib Require Import Base.
From V.c05 Require Import C05Model C05FragModel C05CodecModel C05CodecProofs.
From V.c02 Require Import C02AggModel.

(* ------------------------------------------------------------------ well-formedness of the opaque parts *)
Definition obs_wf (l : list obox) : bool := forallb ob_wf l.
Definition tc_wf (c : tchild) : bool := match c with TcOther o => ob_wf o | _ => true end.
Definition atraf_wf (t : atraf) : bool := forallb tc_wf t.
Definition mc_wf (c : mchild) : bool :=
  match c with McTraf t => atraf_wf t | McOther o => ob_wf o | McMfhd s => s <? TWO32 end.
Definition amoof_wf (m : amoof) : bool := forallb mc_wf m.
(* the mdat data is all in memory (nothing is written separately by the caller) and fits a Go slice *)
Definition md_wf (m : mdat) : bool := (md_lazy m =? 0) && (md_size m <? 18446744073709551616).

Lemma ok_inj {A} (a b : A) : Ok a = Ok b -> a = b.
Proof. intros [= H]. exact H. Qed.

(* ------------------------------------------------------------------ byte-level helpers *)
Lemma lenN_be32 x : lenN (be32 x) = 4.
Proof. reflexivity. Qed.
Lemma lenN_be64 x : lenN (be64 x) = 8.
Proof. reflexivity. Qed.

Lemma lenN_if_be32 (b : bool) x : lenN (if b then be32 x else []) = 4 * b2n b.
Proof. destruct b; reflexivity. Qed.

Lemma lenN_concat (l : list (list N)) : lenN (concat l) = sumN (map (fun b => lenN b) l).
Proof. induction l as [|a t IH]; [reflexivity|]. cbn [concat map sumN]. rewrite lenN_app, IH. reflexivity. Qed.

Lemma lenN_firstn {A} (n : nat) (l : list A) : (n <= length l)%nat -> lenN (firstn n l) = N.of_nat n.
Proof. intros H. unfold lenN. rewrite firstn_length. f_equal. lia. Qed.

Lemma enc_hdr_ok ty sz hd : enc_hdr ty sz = Ok hd -> hd = be32 sz ++ ty /\ sz < TWO32.
Proof.
  unfold enc_hdr. destruct (TWO32 <=? sz) eqn:E; [discriminate|]. intros [= <-]. split; [reflexivity|].
  apply N.leb_gt in E. exact E.
Qed.

(* a compact header followed by anything: the size field is read back *)
Lemma box_ok_compact sz (ty body : list N) :
  lenN ty = 4 -> sz < TWO32 -> 8 <= sz -> lenN (be32 sz ++ ty ++ body) = sz -> box_ok (be32 sz ++ ty ++ body) = true.
Proof.
  intros Hty Hlt Hge Hlen. unfold box_ok. rewrite rd32_be32 by exact Hlt.
  destruct (sz =? 1) eqn:E1; [apply N.eqb_eq in E1; lia|].
  rewrite Hlen. rewrite N.eqb_refl. cbn [andb]. apply N.leb_le. exact Hge.
Qed.

Lemma box_ok_large sz (ty body : list N) :
  lenN ty = 4 -> sz < 18446744073709551616 -> lenN (be32 1 ++ ty ++ be64 sz ++ body) = sz ->
  box_ok (be32 1 ++ ty ++ be64 sz ++ body) = true.
Proof.
  intros Hty Hlt Hlen. unfold box_ok. rewrite rd32_be32 by (unfold TWO32; lia).
  cbn [N.eqb Pos.eqb].
  destruct ty as [|a [|b [|c [|d [|e ty']]]]]; try (unfold lenN in Hty; cbn [length] in Hty; lia).
  cbn [app]. rewrite rd64_be64 by exact Hlt.
  change (a :: b :: c :: d :: be64 sz ++ body) with ([a; b; c; d] ++ be64 sz ++ body).
  rewrite Hlen. apply N.eqb_refl.
Qed.

(* ------------------------------------------------------------------ leaves *)
Lemma lenN_tfhd_body h : lenN (enc_tfhd_body h) + 8 = tfhd_size h.
Proof.
  unfold enc_tfhd_body, tfhd_size. rewrite !lenN_app, !lenN_be32, !lenN_if_be32.
  destruct (tf_has_bdo h); cbn [b2n]; rewrite ?lenN_be64, ?lenN_nil; lia.
Qed.

Lemma lenN_tfdt_body d : lenN (enc_tfdt_body d) + 8 = atfdt_size d.
Proof.
  unfold enc_tfdt_body, atfdt_size. rewrite lenN_app, lenN_be32.
  destruct (td_version d =? 0); rewrite ?lenN_be32, ?lenN_be64; lia.
Qed.

Lemma lenN_enc_sample t s :
  lenN (enc_sample t s) = 4 * b2n (has_dur t) + 4 * b2n (has_size t) + 4 * b2n (has_sflags t) + 4 * b2n (has_cto t).
Proof. unfold enc_sample. rewrite !lenN_app, !lenN_if_be32. lia. Qed.

Lemma lenN_flat_map_const {A} (f : A -> list N) k (l : list A) :
  (forall a, lenN (f a) = k) -> lenN (flat_map f l) = lenN l * k.
Proof.
  intros H. induction l as [|a t IH]; [reflexivity|]. cbn [flat_map]. rewrite lenN_app, H, IH, lenN_cons. lia.
Qed.

Lemma trun_count_le r : (N.to_nat (trun_count r) <= length (tr_samples r))%nat.
Proof.
  unfold trun_count, u32, lenN.
  pose proof (N.mod_le (N.of_nat (length (tr_samples r))) 4294967296 ltac:(lia)). lia.
Qed.

Lemma lenN_trun_body r : lenN (aenc_trun_body r) + 8 = trun_size r.
Proof.
  unfold aenc_trun_body, trun_size. rewrite !lenN_app, !lenN_be32, !lenN_if_be32.
  rewrite (lenN_flat_map_const _ _ _ (lenN_enc_sample r)).
  rewrite lenN_firstn by apply trun_count_le. rewrite N2Nat.id. fold (trun_count r). lia.
Qed.

Lemma tfhd_size_ge h : 16 <= tfhd_size h.
Proof. unfold tfhd_size. lia. Qed.
Lemma trun_size_ge r : 16 <= trun_size r.
Proof. unfold trun_size. lia. Qed.

Lemma aenc_tfhd_ok h b : aenc_tfhd h = Ok b -> lenN b = tfhd_size h /\ box_ok b = true.
Proof.
  unfold aenc_tfhd. destruct (enc_hdr TY_TFHD (tfhd_size h)) as [hd| | |] eqn:E; try discriminate.
  cbn [rbind]. intros [= <-]. apply enc_hdr_ok in E. destruct E as [-> Hlt].
  pose proof (lenN_tfhd_body h) as L. pose proof (tfhd_size_ge h) as G.
  assert (Hl : lenN ((be32 (tfhd_size h) ++ TY_TFHD) ++ enc_tfhd_body h) = tfhd_size h).
  { rewrite !lenN_app, lenN_be32. change (lenN TY_TFHD) with 4. lia. }
  split; [exact Hl|]. rewrite <- app_assoc in *. apply box_ok_compact; [reflexivity|exact Hlt|lia|exact Hl].
Qed.

Lemma aenc_tfdt_ok d b : aenc_tfdt d = Ok b -> lenN b = atfdt_size d /\ box_ok b = true.
Proof.
  unfold aenc_tfdt. destruct (enc_hdr TY_TFDT (atfdt_size d)) as [hd| | |] eqn:E; try discriminate.
  cbn [rbind]. intros [= <-]. apply enc_hdr_ok in E. destruct E as [-> Hlt].
  pose proof (lenN_tfdt_body d) as L.
  assert (G : 16 <= atfdt_size d) by (unfold atfdt_size; destruct (td_version d =? 0); lia).
  assert (Hl : lenN ((be32 (atfdt_size d) ++ TY_TFDT) ++ enc_tfdt_body d) = atfdt_size d).
  { rewrite !lenN_app, lenN_be32. change (lenN TY_TFDT) with 4. lia. }
  split; [exact Hl|]. rewrite <- app_assoc in *. apply box_ok_compact; [reflexivity|exact Hlt|lia|exact Hl].
Qed.

Lemma aenc_trun_ok r b : aenc_trun r = Ok b -> lenN b = trun_size r /\ box_ok b = true.
Proof.
  unfold aenc_trun. destruct (enc_hdr TY_TRUN (trun_size r)) as [hd| | |] eqn:E; try discriminate.
  cbn [rbind]. destruct (doff_unset r); [discriminate|]. intros [= <-]. apply enc_hdr_ok in E. destruct E as [-> Hlt].
  pose proof (lenN_trun_body r) as L. pose proof (trun_size_ge r) as G.
  assert (Hl : lenN ((be32 (trun_size r) ++ TY_TRUN) ++ aenc_trun_body r) = trun_size r).
  { rewrite !lenN_app, lenN_be32. change (lenN TY_TRUN) with 4. lia. }
  split; [exact Hl|]. rewrite <- app_assoc in *. apply box_ok_compact; [reflexivity|exact Hlt|lia|exact Hl].
Qed.

Lemma enc_obox_ok o b : enc_obox o = Ok b -> ob_wf o = true -> lenN b = ob_size o /\ box_ok b = true.
Proof.
  unfold enc_obox, ob_wf. destruct (ob_err o); [discriminate|]. intros [= <-] H.
  apply andb_true_iff in H. destruct H as [H1 H2]. apply N.eqb_eq in H1. split; assumption.
Qed.

Lemma enc_mfhd_ok s : s < TWO32 -> lenN (enc_mfhd s) = 16 /\ box_ok (enc_mfhd s) = true.
Proof.
  intros H. split; [reflexivity|]. unfold enc_mfhd.
  apply box_ok_compact; [reflexivity|unfold TWO32; lia|lia|reflexivity].
Qed.

(* ------------------------------------------------------------------ loops over children *)
(* what a loop of child encoders gives when every child writes its Size() and a correct header *)
Lemma enc_list_ok {A} (f : A -> res (list N)) (size : A -> N) (wf : A -> bool) :
  (forall a b, f a = Ok b -> wf a = true -> lenN b = size a /\ box_ok b = true) ->
  forall l bs, enc_list f l = Ok bs -> forallb wf l = true ->
    map (fun b => lenN b) bs = map size l /\ Forall (fun b => box_ok b = true) bs.
Proof.
  intros Hf. induction l as [|a t IH]; intros bs H W.
  - cbn [enc_list] in H. injection H as <-. split; [reflexivity|constructor].
  - cbn [enc_list] in H. cbn [forallb] in W. apply andb_true_iff in W. destruct W as [Wa Wt].
    destruct (f a) as [b| | |] eqn:Ea; try discriminate. cbn [rbind] in H.
    destruct (enc_list f t) as [r| | |] eqn:Et; try discriminate. cbn [rbind] in H. injection H as <-.
    destruct (Hf a b Ea Wa) as [L B]. destruct (IH r eq_refl Wt) as [L' B'].
    split; [cbn [map]; rewrite L, L'; reflexivity|constructor; assumption].
Qed.

(* a container box: compact header whose size field is the length of the box, then the children, each a box
   with a correct header; the length is the header plus the sum of the children *)
Definition tiled_container (ty b : list N) (kids : list (list N)) : Prop :=
  b = be32 (lenN b) ++ ty ++ concat kids /\ Forall (fun k => box_ok k = true) kids /\
  lenN b = 8 + sumN (map (fun k => lenN k) kids) /\ box_ok b = true.

Lemma container_ok (ty : list N) sz (kids : list (list N)) hd :
  lenN ty = 4 -> enc_hdr ty sz = Ok hd -> sz = 8 + sumN (map (fun k => lenN k) kids) ->
  Forall (fun k => box_ok k = true) kids ->
  lenN (hd ++ concat kids) = sz /\ tiled_container ty (hd ++ concat kids) kids.
Proof.
  intros Hty E Hsz Hk. apply enc_hdr_ok in E. destruct E as [-> Hlt].
  assert (Hl : lenN ((be32 sz ++ ty) ++ concat kids) = sz).
  { rewrite !lenN_app, lenN_be32, Hty, lenN_concat. lia. }
  split; [exact Hl|]. unfold tiled_container. rewrite Hl. rewrite <- app_assoc in *.
  repeat split; [exact Hk|exact Hsz|]. apply box_ok_compact; [exact Hty|exact Hlt|lia|exact Hl].
Qed.

(* ------------------------------------------------------------------ traf *)
Lemma tc_enc_ok c b : tc_enc c = Ok b -> tc_wf c = true -> lenN b = tc_size c /\ box_ok b = true.
Proof.
  destruct c as [h|d|r|o]; cbn [tc_enc tc_wf tc_size]; intros H W.
  - apply aenc_tfhd_ok; exact H.
  - apply aenc_tfdt_ok; exact H.
  - apply aenc_trun_ok; exact H.
  - apply enc_obox_ok; assumption.
Qed.

Lemma atraf_enc_ok t b : atraf_enc t = Ok b -> atraf_wf t = true ->
  lenN b = atraf_size t /\ exists kids, enc_list tc_enc t = Ok kids /\ tiled_container TY_TRAF b kids.
Proof.
  unfold atraf_enc. intros H W.
  destruct (enc_hdr TY_TRAF (atraf_size t)) as [hd| | |] eqn:E; try discriminate. cbn [rbind] in H.
  destruct (enc_list tc_enc t) as [cs| | |] eqn:Ec; try discriminate. cbn [rbind] in H. injection H as <-.
  destruct (enc_list_ok tc_enc tc_size tc_wf tc_enc_ok t cs Ec W) as [L B].
  assert (Hsz : atraf_size t = 8 + sumN (map (fun k => lenN k) cs)) by (unfold atraf_size; rewrite L; reflexivity).
  destruct (container_ok TY_TRAF _ cs hd eq_refl E Hsz B) as [Hl T].
  split; [exact Hl|]. exists cs. split; [reflexivity|exact T].
Qed.

Lemma tiled_box_ok ty b kids : tiled_container ty b kids -> box_ok b = true.
Proof. intros (_ & _ & _ & H). exact H. Qed.

(* ------------------------------------------------------------------ moof *)
Lemma mc_enc_ok c b : mc_enc c = Ok b -> mc_wf c = true -> lenN b = mc_size c /\ box_ok b = true.
Proof.
  destruct c as [s|t|o]; cbn [mc_enc mc_wf mc_size]; intros H W.
  - injection H as <-. apply enc_mfhd_ok. apply N.ltb_lt. exact W.
  - destruct (atraf_enc_ok t b H W) as [L (kids & _ & T)]. split; [exact L|]. eapply tiled_box_ok. exact T.
  - apply enc_obox_ok; assumption.
Qed.

Lemma amoof_enc_ok m b : amoof_enc m = Ok b -> amoof_wf m = true ->
  lenN b = amoof_size m /\ exists kids, enc_list mc_enc m = Ok kids /\ tiled_container TY_MOOF b kids.
Proof.
  unfold amoof_enc. intros H W. destruct (existsb doff_unset (amoof_truns m)); [discriminate|].
  destruct (enc_hdr TY_MOOF (amoof_size m)) as [hd| | |] eqn:E; try discriminate. cbn [rbind] in H.
  destruct (enc_list mc_enc m) as [cs| | |] eqn:Ec; try discriminate. cbn [rbind] in H. injection H as <-.
  destruct (enc_list_ok mc_enc mc_size mc_wf mc_enc_ok m cs Ec W) as [L B].
  assert (Hsz : amoof_size m = 8 + sumN (map (fun k => lenN k) cs)) by (unfold amoof_size; rewrite L; reflexivity).
  destruct (container_ok TY_MOOF _ cs hd eq_refl E Hsz B) as [Hl T].
  split; [exact Hl|]. exists cs. split; [reflexivity|exact T].
Qed.

(* every traf inside an encoded moof is itself a tiled container *)
Lemma amoof_trafs_tiled m kids : enc_list mc_enc m = Ok kids -> amoof_wf m = true ->
  Forall2 (fun c k => match c with
                      | McTraf t => lenN k = atraf_size t /\ exists tk, enc_list tc_enc t = Ok tk /\ tiled_container TY_TRAF k tk
                      | _ => lenN k = mc_size c
                      end) m kids.
Proof.
  revert kids. induction m as [|c rest IH]; intros kids H W.
  - cbn [enc_list] in H. injection H as <-. constructor.
  - cbn [enc_list] in H. cbn [amoof_wf forallb] in W. apply andb_true_iff in W. destruct W as [Wc Wr].
    destruct (mc_enc c) as [b| | |] eqn:Ec; try discriminate. cbn [rbind] in H.
    destruct (enc_list mc_enc rest) as [r| | |] eqn:Er; try discriminate. cbn [rbind] in H. injection H as <-.
    constructor; [|apply IH; [reflexivity|exact Wr]].
    destruct c as [s|t|o].
    + apply (mc_enc_ok _ _ Ec Wc).
    + apply (atraf_enc_ok t b Ec Wc).
    + apply (mc_enc_ok _ _ Ec Wc).
Qed.

(* ------------------------------------------------------------------ mdat *)
Lemma md_touch_idem m : md_size_touch (md_size_touch m) = md_size_touch m.
Proof.
  unfold md_size_touch, md_payload, md_data_length. cbn [md_data md_parts md_lazy md_large].
  f_equal. destruct (md_large m); cbn [orb]; [reflexivity|]. apply orb_diag.
Qed.

Lemma md_payload_touch m : md_payload (md_size_touch m) = md_payload m.
Proof. reflexivity. Qed.

Lemma md_size_touch_eq m : md_size (md_size_touch m) = md_size m.
Proof. unfold md_size. rewrite md_touch_idem, md_payload_touch. reflexivity. Qed.

Lemma md_header_touched m : md_header_size (md_size_touch (md_size_touch m)) = md_header_size (md_size_touch m).
Proof. rewrite md_touch_idem. reflexivity. Qed.

Lemma lenN_md_written m : md_lazy m = 0 -> lenN (md_written m) = md_payload m.
Proof.
  intros H. unfold md_payload, md_written, md_data_length. rewrite H. cbn [N.ltb N.compare].
  destruct (md_parts m) as [|p ps]; [reflexivity|]. apply lenN_concat.
Qed.

Lemma md_wf_touch m : md_wf (md_size_touch m) = md_wf m.
Proof. unfold md_wf. rewrite md_size_touch_eq. reflexivity. Qed.

Lemma amd_enc_ok m m' b : amd_enc m = (m', Ok b) -> md_wf m = true ->
  m' = md_size_touch m /\ lenN b = md_size m /\ box_ok b = true.
Proof.
  unfold amd_enc. cbv zeta. intros H W. injection H as Hm H. subst m'. split; [reflexivity|].
  unfold md_wf in W. apply andb_true_iff in W. destruct W as [Wl Ws]. apply N.eqb_eq in Wl. apply N.ltb_lt in Ws.
  set (m1 := md_size_touch m) in *.
  assert (Hp : lenN (md_written m1) = md_payload m) by (apply (lenN_md_written m1); exact Wl).
  assert (Hs : md_size m1 = md_size m) by apply md_size_touch_eq.
  assert (Hd : md_size m = md_header_size m1 + md_payload m) by reflexivity.
  unfold enc_hdr_large in H. rewrite Hs in H.
  change (md_large m || (4294967287 <? md_payload m)) with (md_large m1) in H.
  destruct (negb (md_large m1) && (TWO32 <=? md_size m)) eqn:E; cbn [rbind] in H; [discriminate|]. apply ok_inj in H. subst b.
  unfold md_header_size in Hd.
  destruct (md_large m1) eqn:El.
  - assert (Hl : lenN (be32 1 ++ TY_MDAT ++ be64 (md_size m) ++ md_written m1) = md_size m).
    { rewrite !lenN_app, lenN_be32, lenN_be64. change (lenN TY_MDAT) with 4. lia. }
    rewrite <- !app_assoc. split; [exact Hl|]. apply box_ok_large; [reflexivity|exact Ws|exact Hl].
  - cbn [negb andb] in E. apply N.leb_gt in E.
    assert (Hl : lenN (be32 (md_size m) ++ TY_MDAT ++ md_written m1) = md_size m).
    { rewrite !lenN_app, lenN_be32. change (lenN TY_MDAT) with 4. lia. }
    rewrite <- !app_assoc. split; [exact Hl|]. apply box_ok_compact; [reflexivity|exact E|lia|exact Hl].
Qed.

(* ------------------------------------------------------------------ lists of opaque boxes *)
Lemma enc_oboxes_ok l bs : enc_list enc_obox l = Ok bs -> obs_wf l = true ->
  sumN (map (fun b => lenN b) bs) = obs_size l /\ Forall (fun b => box_ok b = true) bs.
Proof.
  intros H W. destruct (enc_list_ok enc_obox ob_size ob_wf enc_obox_ok l bs H W) as [L B].
  split; [unfold obs_size; rewrite L; reflexivity|exact B].
Qed.

Lemma sumN_lens_app (a b : list (list N)) :
  sumN (map (fun x => lenN x) (a ++ b)) = sumN (map (fun x => lenN x) a) + sumN (map (fun x => lenN x) b).
Proof. rewrite map_app, sumN_app. reflexivity. Qed.
