(* C02AggFileProofs.v — MediaSegment, InitSegment and File: bytes written = Size() afterwards (= beforehand
   without optimisation), the output is tiled, a second Encode changes nothing; histories. *)
From V.lib Require Import Base.
From V.c05 Require Import C05Model C05FragModel C05CodecModel.
From V.c02 Require Import C02AggModel C02AggSizeProofs C02AggOptProofs C02AggFragProofs.

(* ------------------------------------------------------------------ loops over stateful parts *)
Section Seq.
  Variable A : Type.
  Variable enc : A -> A * res (list (list N)).
  Variable size : A -> N.
  Variable wf : A -> bool.
  Variable touch : A -> A.

  Lemma enc_seq_cons_inv a rest l' bs : enc_seq enc (a :: rest) = (l', Ok bs) ->
    exists a' b rest' b2, enc a = (a', Ok b) /\ enc_seq enc rest = (rest', Ok b2) /\ l' = a' :: rest' /\ bs = b ++ b2.
  Proof.
    cbn [enc_seq]. destruct (enc a) as [a' r]. destruct r as [b| | |]; try discriminate.
    destruct (enc_seq enc rest) as [rest' r2]. destruct r2 as [b2| | |]; try discriminate.
    intros [= <- <-]. exists a', b, rest', b2. repeat split.
  Qed.

  Hypothesis enc_ok : forall a a' b, enc a = (a', Ok b) -> wf a = true ->
    lens b = size a' /\ all_ok b /\ wf a' = true.

  Lemma enc_seq_size l : forall l' bs, enc_seq enc l = (l', Ok bs) -> forallb wf l = true ->
    lens bs = sumN (map size l') /\ all_ok bs /\ forallb wf l' = true.
  Proof.
    induction l as [|a rest IH]; intros l' bs H W.
    - injection H as <- <-. repeat split. constructor.
    - destruct (enc_seq_cons_inv a rest l' bs H) as (a' & b & rest' & b2 & Ea & Er & -> & ->).
      cbn [forallb] in W. apply andb_true_iff in W. destruct W as [Wa Wr].
      destruct (enc_ok a a' b Ea Wa) as (L & B & W'). destruct (IH rest' b2 Er Wr) as (L2 & B2 & W2).
      rewrite lens_app. cbn [map sumN forallb]. rewrite L, L2, W', W2. repeat split. apply Forall_app. split; assumption.
  Qed.

  Hypothesis enc_settles : forall a a' b, enc a = (a', Ok b) -> enc a' = (a', Ok b).

  Lemma enc_seq_settles l : forall l' bs, enc_seq enc l = (l', Ok bs) -> enc_seq enc l' = (l', Ok bs).
  Proof.
    induction l as [|a rest IH]; intros l' bs H.
    - injection H as <- <-. reflexivity.
    - destruct (enc_seq_cons_inv a rest l' bs H) as (a' & b & rest' & b2 & Ea & Er & -> & ->).
      cbn [enc_seq]. rewrite (enc_settles a a' b Ea), (IH rest' b2 Er). reflexivity.
  Qed.

  Hypothesis enc_touched : forall a a' b, enc a = (a', Ok b) -> touch a' = a'.

  Lemma enc_seq_touched l : forall l' bs, enc_seq enc l = (l', Ok bs) -> map touch l' = l'.
  Proof.
    induction l as [|a rest IH]; intros l' bs H.
    - injection H as <- <-. reflexivity.
    - destruct (enc_seq_cons_inv a rest l' bs H) as (a' & b & rest' & b2 & Ea & Er & -> & ->).
      cbn [map]. rewrite (enc_touched a a' b Ea), (IH rest' b2 Er). reflexivity.
  Qed.

  (* sizes are kept by the parts that satisfy `quiet` (no optimisation) *)
  Variable quiet : A -> bool.
  Hypothesis enc_quiet : forall a a' b, enc a = (a', Ok b) -> wf a = true -> quiet a = true -> size a = size a'.

  Lemma enc_seq_quiet l : forall l' bs, enc_seq enc l = (l', Ok bs) -> forallb wf l = true -> forallb quiet l = true ->
    sumN (map size l) = sumN (map size l').
  Proof.
    induction l as [|a rest IH]; intros l' bs H W Q.
    - injection H as <- <-. reflexivity.
    - destruct (enc_seq_cons_inv a rest l' bs H) as (a' & b & rest' & b2 & Ea & Er & -> & ->).
      cbn [forallb] in W, Q. apply andb_true_iff in W. destruct W as [Wa Wr]. apply andb_true_iff in Q. destruct Q as [Qa Qr].
      cbn [map sumN]. rewrite (enc_quiet a a' b Ea Wa Qa), (IH rest' b2 Er Wr Qr). reflexivity.
  Qed.
End Seq.

(* ------------------------------------------------------------------ MediaSegment *)
Definition aseg_wf (s : aseg) : bool :=
  oall ob_wf (sg_styp s) && obs_wf (sg_sidxs s) && forallb afrag_wf (sg_frags s).

Lemma afrag_set_opt_wf f o : afrag_wf (af_set_opt f o) = afrag_wf f.
Proof. reflexivity. Qed.
Lemma afrag_set_opt_size f o : afrag_size (af_set_opt f o) = afrag_size f.
Proof. reflexivity. Qed.

Lemma afrag_encode_opt fr fr' boxes : afrag_encode fr = (fr', Ok boxes) -> af_opt fr' = af_opt fr.
Proof.
  intros H. destruct (afrag_encode_inv fr fr' boxes H) as [m m1 md m2 md2 b1 b2 b3 b4 b5 Em Eo Ed Es E1 E2 E3 E4 E5 -> ->].
  reflexivity.
Qed.

Lemma af_set_opt_same f : af_set_opt f (af_opt f) = f.
Proof. destruct f; reflexivity. Qed.

Section SegFrags.
  Variable opt : bool.
  Let enc := fun f => afrag_encode (af_set_opt f opt).

  Lemma sf_ok a a' b : enc a = (a', Ok b) -> afrag_wf a = true -> lens b = afrag_size a' /\ all_ok b /\ afrag_wf a' = true.
  Proof.
    unfold enc. intros H W. destruct (fragment_size _ _ _ H W) as (_ & L & B & _ & W'). repeat split; assumption.
  Qed.

  Lemma sf_same a a' b : enc a = (a', Ok b) -> af_set_opt a' opt = a'.
  Proof.
    unfold enc. intros H. pose proof (afrag_encode_opt _ _ _ H) as O. cbn [af_set_opt af_opt] in O.
    rewrite <- O. apply af_set_opt_same.
  Qed.

  Lemma sf_settles a a' b : enc a = (a', Ok b) -> enc a' = (a', Ok b).
  Proof. intros H. unfold enc. rewrite (sf_same a a' b H). apply (afrag_encode_settles _ _ _ H). Qed.

  Lemma sf_touched a a' b : enc a = (a', Ok b) -> afrag_touch a' = a'.
  Proof. intros H. apply (afrag_touch_settled _ _ _ H). Qed.

  Lemma sf_quiet a a' b : enc a = (a', Ok b) -> afrag_wf a = true -> negb opt = true -> afrag_size a = afrag_size a'.
  Proof.
    unfold enc. intros H W Q. destruct (fragment_size _ _ _ H W) as (_ & _ & _ & S & _).
    rewrite <- S; [reflexivity|]. cbn [af_set_opt af_opt]. destruct opt; [discriminate|reflexivity].
  Qed.
End SegFrags.

Lemma aseg_encode_inv s s' boxes : aseg_encode s = (s', Ok boxes) ->
  exists b1 fs' b2, enc_list enc_obox (opt_list (sg_styp s) ++ sg_sidxs s) = Ok b1 /\
    enc_frags (sg_opt s) (sg_frags s) = (fs', Ok b2) /\ s' = aseg_with_frags s fs' /\ boxes = b1 ++ b2.
Proof.
  unfold aseg_encode. destruct (enc_list enc_obox _) as [b1| | |]; try discriminate.
  destruct (enc_frags (sg_opt s) (sg_frags s)) as [fs' r]. destruct r as [b2| | |]; try discriminate.
  intros [= <- <-]. exists b1, fs', b2. repeat split.
Qed.

Lemma aseg_wf_parts s : aseg_wf s = true ->
  obs_wf (opt_list (sg_styp s) ++ sg_sidxs s) = true /\ forallb afrag_wf (sg_frags s) = true.
Proof.
  unfold aseg_wf. intros H. apply andb_true_iff in H. destruct H as [H W3]. apply andb_true_iff in H. destruct H as [W1 W2].
  split; [|exact W3]. unfold obs_wf. rewrite forallb_app. fold (obs_wf (sg_sidxs s)). rewrite W2.
  destruct (sg_styp s); cbn [opt_list forallb oall] in *; rewrite ?W1; reflexivity.
Qed.

Lemma obs_size_head s : obs_size (opt_list (sg_styp s) ++ sg_sidxs s) = osize ob_size (sg_styp s) + obs_size (sg_sidxs s).
Proof. unfold obs_size. rewrite map_app, sumN_app. destruct (sg_styp s); cbn [opt_list map sumN osize]; lia. Qed.

Theorem segment_size s s' boxes :
  aseg_encode s = (s', Ok boxes) -> aseg_wf s = true ->
  lenN (concat boxes) = aseg_size s' /\ lens boxes = aseg_size s' /\ all_ok boxes /\
  (sg_opt s = false -> aseg_size s = aseg_size s') /\ aseg_wf s' = true.
Proof.
  intros H W. destruct (aseg_encode_inv s s' boxes H) as (b1 & fs' & b2 & E1 & E2 & -> & ->).
  destruct (aseg_wf_parts s W) as [W1 W2].
  destruct (enc_oboxes_ok _ _ E1 W1) as [L1 B1].
  destruct (enc_seq_size _ _ afrag_size afrag_wf (sf_ok (sg_opt s)) _ _ _ E2 W2) as (L2 & B2 & W2').
  assert (Hl : lens (b1 ++ b2) = aseg_size (aseg_with_frags s fs')).
  { rewrite lens_app. unfold aseg_size. cbn [aseg_with_frags sg_styp sg_sidxs sg_frags]. unfold lens at 1.
    rewrite L1, L2, obs_size_head. lia. }
  split; [rewrite lens_concat; exact Hl|]. split; [exact Hl|]. split; [apply Forall_app; split; assumption|]. split.
  - intros Ho. unfold aseg_size. cbn [aseg_with_frags sg_styp sg_sidxs sg_frags]. f_equal.
    apply (enc_seq_quiet _ _ afrag_size afrag_wf (fun _ => negb (sg_opt s)) (sf_quiet (sg_opt s)) _ _ _ E2 W2).
    rewrite Ho. clear. induction (sg_frags s); [reflexivity|exact IHl].
  - unfold aseg_wf in *. cbn [aseg_with_frags sg_styp sg_sidxs sg_frags]. rewrite W2'.
    apply andb_true_iff in W. destruct W as [W _]. rewrite W. reflexivity.
Qed.

Lemma aseg_encode_settles s s' boxes : aseg_encode s = (s', Ok boxes) ->
  aseg_encode s' = (s', Ok boxes) /\ aseg_touch s' = s'.
Proof.
  intros H. destruct (aseg_encode_inv s s' boxes H) as (b1 & fs' & b2 & E1 & E2 & -> & ->).
  pose proof (enc_seq_settles _ _ (sf_settles (sg_opt s)) _ _ _ E2) as S.
  pose proof (enc_seq_touched _ _ afrag_touch (sf_touched (sg_opt s)) _ _ _ E2) as T.
  split.
  - unfold aseg_encode. cbn [aseg_with_frags sg_styp sg_sidxs sg_frags sg_opt]. rewrite E1.
    unfold enc_frags in *. rewrite S. reflexivity.
  - unfold aseg_touch. cbn [aseg_with_frags sg_styp sg_sidxs sg_frags sg_opt]. rewrite T. reflexivity.
Qed.

Lemma step_encode_inv {S} (enc : S -> S * res (list (list N))) s s' boxes :
  (let '(x, r) := enc s in (x, out_of r)) = (s', OutBytes boxes) -> enc s = (s', Ok boxes).
Proof. destruct (enc s) as [x r]. destruct r; cbn [out_of]; intros H; try discriminate. injection H as <- <-. reflexivity. Qed.

Theorem segment_settles s s' boxes o :
  (o = OpEncode \/ o = OpEncodeSW) -> aseg_step s o = (s', OutBytes boxes) -> aseg_wf s = true ->
  settled aseg_step s' boxes (lenN (concat boxes)).
Proof.
  intros Ho H W.
  assert (E : aseg_encode s = (s', Ok boxes)) by (destruct Ho as [-> | ->]; apply step_encode_inv; exact H).
  destruct (aseg_encode_settles s s' boxes E) as [S T]. destruct (segment_size s s' boxes E W) as (L & _).
  unfold settled. cbn [aseg_step]. rewrite S, T, L. cbn [out_of]. repeat split.
Qed.

(* ------------------------------------------------------------------ InitSegment *)
Theorem init_size i boxes : ainit_encode i = Ok boxes -> obs_wf i = true ->
  lenN (concat boxes) = ainit_size i /\ lens boxes = ainit_size i /\ all_ok boxes.
Proof.
  unfold ainit_encode, ainit_size. intros H W. destruct (enc_oboxes_ok _ _ H W) as [L B].
  split; [rewrite lens_concat; exact L|]. split; [exact L|exact B].
Qed.

Theorem init_settles i i' boxes o :
  (o = OpEncode \/ o = OpEncodeSW) -> ainit_step i o = (i', OutBytes boxes) -> obs_wf i = true ->
  i' = i /\ settled ainit_step i boxes (lenN (concat boxes)).
Proof.
  intros Ho H W.
  assert (E : ainit_encode i = Ok boxes /\ i' = i).
  { destruct Ho as [-> | ->]; cbn [ainit_step] in H; destruct (ainit_encode i); cbn [out_of] in H; try discriminate;
      injection H as <- <-; split; reflexivity. }
  destruct E as [E ->]. split; [reflexivity|]. destruct (init_size i boxes E W) as (L & _).
  unfold settled. cbn [ainit_step]. rewrite E, L. cbn [out_of]. repeat split.
Qed.

(* ------------------------------------------------------------------ File *)
Definition fc_wf (c : fchild) : bool :=
  match c with FcMoof m => amoof_wf m | FcMdat md => md_wf md | FcOther o => ob_wf o end.

Definition afile_wf (f : afile) : bool :=
  oall obs_wf (fl_init f) && obs_wf (fl_sidxs f) && forallb aseg_wf (fl_segs f) && oall ob_wf (fl_mfra f)
  && forallb fc_wf (fl_children f).

(* no trun optimisation will be done: neither the file nor a segment asks for it *)
Definition afile_quiet (f : afile) : bool := negb (fl_opt f) && forallb (fun s => negb (sg_opt s)) (fl_segs f).

Lemma fc_ok a a' b : fc_encode a = (a', Ok b) -> fc_wf a = true -> lens b = fc_size a' /\ all_ok b /\ fc_wf a' = true.
Proof.
  destruct a as [m|md|o]; cbn [fc_encode fc_wf].
  - destruct (amoof_enc m) as [x| | |] eqn:E; cbn [rbind]; try discriminate. intros [= <- <-] W.
    destruct (amoof_enc_ok m x E W) as [L (kids & _ & T)]. unfold lens. cbn [map sumN fc_size]. rewrite L.
    repeat split; [lia| |exact W]. constructor; [eapply tiled_box_ok; exact T|constructor].
  - destruct (amd_enc md) as [md' r] eqn:E. destruct r as [x| | |]; cbn [rbind]; try discriminate. intros [= <- <-] W.
    destruct (amd_enc_ok md md' x E W) as (-> & L & B). unfold lens. cbn [map sumN fc_size fc_wf].
    rewrite L, md_size_touch_eq, md_wf_touch. repeat split; [lia| |exact W]. constructor; [exact B|constructor].
  - destruct (enc_obox o) as [x| | |] eqn:E; cbn [rbind]; try discriminate. intros [= <- <-] W.
    destruct (enc_obox_ok o x E W) as [L B]. unfold lens. cbn [map sumN fc_size]. rewrite L.
    repeat split; [lia| |exact W]. constructor; [exact B|constructor].
Qed.

Lemma fc_settles a a' b : fc_encode a = (a', Ok b) -> fc_encode a' = (a', Ok b).
Proof.
  destruct a as [m|md|o]; cbn [fc_encode].
  - destruct (amoof_enc m) as [x| | |] eqn:E; cbn [rbind]; try discriminate. intros [= <- <-]. cbn [fc_encode]. rewrite E. reflexivity.
  - destruct (amd_enc md) as [md' r] eqn:E. destruct r as [x| | |]; cbn [rbind]; try discriminate. intros [= <- <-].
    assert (Hm : md' = md_size_touch md) by (rewrite <- (amd_enc_fst md), E; reflexivity). subst md'.
    cbn [fc_encode]. rewrite (amd_enc_touched md x E). reflexivity.
  - destruct (enc_obox o) as [x| | |] eqn:E; cbn [rbind]; try discriminate. intros [= <- <-]. cbn [fc_encode]. rewrite E. reflexivity.
Qed.

Lemma fc_touched a a' b : fc_encode a = (a', Ok b) -> fc_touch a' = a'.
Proof.
  destruct a as [m|md|o]; cbn [fc_encode].
  - destruct (amoof_enc m); cbn [rbind]; try discriminate. intros [= <- _]. reflexivity.
  - destruct (amd_enc md) as [md' r] eqn:E. destruct r as [x| | |]; cbn [rbind]; try discriminate. intros [= <- _].
    assert (Hm : md' = md_size_touch md) by (rewrite <- (amd_enc_fst md), E; reflexivity). subst md'.
    cbn [fc_touch]. rewrite md_touch_idem. reflexivity.
  - destruct (enc_obox o); cbn [rbind]; try discriminate. intros [= <- _]. reflexivity.
Qed.

Lemma fc_quiet a a' b : fc_encode a = (a', Ok b) -> fc_wf a = true -> true = true -> fc_size a = fc_size a'.
Proof.
  destruct a as [m|md|o]; cbn [fc_encode].
  - destruct (amoof_enc m); cbn [rbind]; try discriminate. intros [= <- _]. reflexivity.
  - destruct (amd_enc md) as [md' r] eqn:E. destruct r as [x| | |]; cbn [rbind]; try discriminate. intros [= <- _] _ _.
    assert (Hm : md' = md_size_touch md) by (rewrite <- (amd_enc_fst md), E; reflexivity). subst md'.
    cbn [fc_size]. rewrite md_size_touch_eq. reflexivity.
  - destruct (enc_obox o); cbn [rbind]; try discriminate. intros [= <- _]. reflexivity.
Qed.

Section FileSegs.
  Variable fopt : bool.
  Let enc := fun s => aseg_encode (if fopt then aseg_set_opt s true else s).

  Lemma aseg_set_opt_wf s o : aseg_wf (aseg_set_opt s o) = aseg_wf s.
  Proof. reflexivity. Qed.

  Lemma fs_ok a a' b : enc a = (a', Ok b) -> aseg_wf a = true -> lens b = aseg_size a' /\ all_ok b /\ aseg_wf a' = true.
  Proof.
    unfold enc. intros H W.
    assert (W' : aseg_wf (if fopt then aseg_set_opt a true else a) = true) by (destruct fopt; exact W).
    destruct (segment_size _ _ _ H W') as (_ & L & B & _ & W2). repeat split; assumption.
  Qed.

  Lemma fs_same a a' b : enc a = (a', Ok b) -> (if fopt then aseg_set_opt a' true else a') = a'.
  Proof.
    unfold enc. intros H. destruct fopt; [|reflexivity].
    destruct (aseg_encode_inv _ _ _ H) as (b1 & fs' & b2 & _ & _ & -> & _). reflexivity.
  Qed.

  Lemma fs_settles a a' b : enc a = (a', Ok b) -> enc a' = (a', Ok b).
  Proof. intros H. unfold enc. rewrite (fs_same a a' b H). apply (aseg_encode_settles _ _ _ H). Qed.

  Lemma fs_touched a a' b : enc a = (a', Ok b) -> aseg_touch a' = a'.
  Proof. intros H. apply (aseg_encode_settles _ _ _ H). Qed.

  Lemma fs_quiet a a' b : enc a = (a', Ok b) -> aseg_wf a = true -> negb fopt && negb (sg_opt a) = true ->
    aseg_size a = aseg_size a'.
  Proof.
    unfold enc. intros H W Q. apply andb_true_iff in Q. destruct Q as [Q1 Q2].
    destruct fopt; [discriminate|]. destruct (segment_size _ _ _ H W) as (_ & _ & _ & S & _).
    apply S. destruct (sg_opt a); [discriminate|reflexivity].
  Qed.
End FileSegs.

Definition init_list (f : afile) : list obox := match fl_init f with Some i => i | None => [] end.

Inductive file_enc_facts (f f' : afile) (boxes : list (list N)) : Prop :=
| FileSeg (b1 : list (list N)) (ss' : list aseg) (b2 b3 : list (list N))
    (fe_mode : afile_seg_mode f = true)
    (fe_head : enc_list enc_obox (init_list f ++ fl_sidxs f) = Ok b1)
    (fe_segs : enc_segs (fl_opt f) (fl_segs f) = (ss', Ok b2))
    (fe_mfra : enc_list enc_obox (opt_list (fl_mfra f)) = Ok b3)
    (fe_state : f' = afile_with f ss' (fl_children f))
    (fe_boxes : boxes = b1 ++ b2 ++ b3)
| FileTree (cs' : list fchild)
    (fe_mode : afile_seg_mode f = false)
    (fe_known : fl_fragmented f && negb (fl_mode f =? 0) && negb (fl_mode f =? 1) = false)
    (fe_children : enc_children (fl_children f) = (cs', Ok boxes))
    (fe_state : f' = afile_with f (fl_segs f) cs').

Lemma afile_encode_inv f f' boxes : afile_encode f = (f', Ok boxes) -> file_enc_facts f f' boxes.
Proof.
  unfold afile_encode. destruct (fl_fragmented f && negb (fl_mode f =? 0) && negb (fl_mode f =? 1)) eqn:K; [discriminate|].
  destruct (afile_seg_mode f) eqn:M.
  - fold (init_list f). destruct (enc_list enc_obox (init_list f ++ fl_sidxs f)) as [b1| | |] eqn:E1; try discriminate.
    destruct (enc_segs (fl_opt f) (fl_segs f)) as [ss' r] eqn:E2. destruct r as [b2| | |]; try discriminate.
    destruct (enc_list enc_obox (opt_list (fl_mfra f))) as [b3| | |] eqn:E3; try discriminate.
    intros [= <- <-]. exact (FileSeg f _ _ b1 ss' b2 b3 M E1 E2 E3 eq_refl eq_refl).
  - destruct (enc_children (fl_children f)) as [cs' r] eqn:E. intros [= <- ->].
    exact (FileTree f _ _ cs' M K E eq_refl).
Qed.

Lemma afile_wf_split f : afile_wf f = true ->
  oall obs_wf (fl_init f) = true /\ obs_wf (fl_sidxs f) = true /\ forallb aseg_wf (fl_segs f) = true /\
  oall ob_wf (fl_mfra f) = true /\ forallb fc_wf (fl_children f) = true.
Proof.
  unfold afile_wf. intros H. apply andb_true_iff in H. destruct H as [H P5]. apply andb_true_iff in H. destruct H as [H P4].
  apply andb_true_iff in H. destruct H as [H P3]. apply andb_true_iff in H. destruct H as [P1 P2]. repeat split; assumption.
Qed.

Lemma afile_wf_with f ss cs : afile_wf (afile_with f ss cs) =
  oall obs_wf (fl_init f) && obs_wf (fl_sidxs f) && forallb aseg_wf ss && oall ob_wf (fl_mfra f) && forallb fc_wf cs.
Proof. reflexivity. Qed.

Lemma afile_wf_parts f : afile_wf f = true ->
  obs_wf (init_list f ++ fl_sidxs f) = true /\ forallb aseg_wf (fl_segs f) = true /\
  obs_wf (opt_list (fl_mfra f)) = true /\ forallb fc_wf (fl_children f) = true.
Proof.
  unfold afile_wf. intros H. repeat (apply andb_true_iff in H; destruct H as [H ?]).
  repeat split; try assumption.
  - unfold obs_wf. rewrite forallb_app. unfold init_list. destruct (fl_init f); cbn [oall] in H; unfold obs_wf in *;
      rewrite ?H; cbn [forallb andb]; assumption.
  - destruct (fl_mfra f); cbn [opt_list obs_wf forallb oall] in *; rewrite ?H1; reflexivity.
Qed.

Lemma obs_size_file_head f :
  obs_size (init_list f ++ fl_sidxs f) = osize ainit_size (fl_init f) + obs_size (fl_sidxs f).
Proof. unfold obs_size, init_list, ainit_size, obs_size. rewrite map_app, sumN_app. destruct (fl_init f); cbn [osize map sumN]; lia. Qed.

Lemma obs_size_mfra f : obs_size (opt_list (fl_mfra f)) = osize ob_size (fl_mfra f).
Proof. unfold obs_size. destruct (fl_mfra f); cbn [opt_list map sumN osize]; lia. Qed.

Lemma afile_seg_mode_with f ss cs : afile_seg_mode (afile_with f ss cs) = afile_seg_mode f.
Proof. reflexivity. Qed.

Theorem file_size f f' boxes :
  afile_encode f = (f', Ok boxes) -> afile_wf f = true ->
  lenN (concat boxes) = afile_size f' /\ lens boxes = afile_size f' /\ all_ok boxes /\
  (afile_quiet f = true -> afile_size f = afile_size f') /\ afile_wf f' = true.
Proof.
  intros H W. destruct (afile_wf_parts f W) as (W1 & W2 & W3 & W4).
  destruct (afile_encode_inv f f' boxes H) as [b1 ss' b2 b3 M E1 E2 E3 -> -> | cs' M K E ->].
  - destruct (enc_oboxes_ok _ _ E1 W1) as [L1 B1]. destruct (enc_oboxes_ok _ _ E3 W3) as [L3 B3].
    destruct (enc_seq_size _ _ aseg_size aseg_wf (fs_ok (fl_opt f)) _ _ _ E2 W2) as (L2 & B2 & W2').
    assert (Hl : lens (b1 ++ b2 ++ b3) = afile_size (afile_with f ss' (fl_children f))).
    { rewrite !lens_app. unfold afile_size. rewrite afile_seg_mode_with, M.
      cbn [afile_with fl_init fl_sidxs fl_segs fl_mfra]. unfold lens at 1 3. rewrite L1, L3, L2, obs_size_file_head, obs_size_mfra. lia. }
    split; [rewrite lens_concat; exact Hl|]. split; [exact Hl|]. split; [repeat (apply Forall_app; split); assumption|]. split.
    + intros Q. unfold afile_quiet in Q. apply andb_true_iff in Q. destruct Q as [Q1 Q2].
      unfold afile_size. rewrite afile_seg_mode_with, M. cbn [afile_with fl_init fl_sidxs fl_segs fl_mfra]. f_equal. f_equal.
      apply (enc_seq_quiet _ _ aseg_size aseg_wf (fun s => negb (fl_opt f) && negb (sg_opt s)) (fs_quiet (fl_opt f)) _ _ _ E2 W2).
      rewrite Q1. cbn [andb]. exact Q2.
    + destruct (afile_wf_split f W) as (P1 & P2 & P3 & P4 & P5). rewrite afile_wf_with, P1, P2, W2', P4, P5. reflexivity.
  - destruct (enc_seq_size _ _ fc_size fc_wf fc_ok _ _ _ E W4) as (L & B & W').
    assert (Hl : lens boxes = afile_size (afile_with f (fl_segs f) cs')).
    { unfold afile_size. rewrite afile_seg_mode_with, M. cbn [afile_with fl_children]. exact L. }
    split; [rewrite lens_concat; exact Hl|]. split; [exact Hl|]. split; [exact B|]. split.
    + intros _. unfold afile_size. rewrite afile_seg_mode_with, M. cbn [afile_with fl_children].
      apply (enc_seq_quiet _ _ fc_size fc_wf (fun _ => true) fc_quiet _ _ _ E W4).
      clear. induction (fl_children f); [reflexivity|exact IHl].
    + destruct (afile_wf_split f W) as (P1 & P2 & P3 & P4 & P5). rewrite afile_wf_with, P1, P2, P3, P4, W'. reflexivity.
Qed.

Lemma afile_encode_settles f f' boxes : afile_encode f = (f', Ok boxes) ->
  afile_encode f' = (f', Ok boxes) /\ afile_touch f' = f' /\ afile_info f' = f'.
Proof.
  intros H. destruct (afile_encode_inv f f' boxes H) as [b1 ss' b2 b3 M E1 E2 E3 -> -> | cs' M K E ->].
  - pose proof (enc_seq_settles _ _ (fs_settles (fl_opt f)) _ _ _ E2) as S.
    pose proof (enc_seq_touched _ _ aseg_touch (fs_touched (fl_opt f)) _ _ _ E2) as T.
    assert (K : fl_fragmented f && negb (fl_mode f =? 0) && negb (fl_mode f =? 1) = false).
    { unfold afile_seg_mode in M. apply andb_true_iff in M. destruct M as [-> ->]. reflexivity. }
    repeat split.
    + unfold afile_encode. rewrite afile_seg_mode_with, M. cbn [afile_with fl_fragmented fl_mode fl_opt fl_init fl_sidxs fl_segs fl_mfra fl_children].
      rewrite K. fold (init_list f). rewrite E1. unfold enc_segs in *. rewrite S, E3. reflexivity.
    + unfold afile_touch. rewrite afile_seg_mode_with, M. unfold afile_with at 1 2.
      cbn [afile_with fl_fragmented fl_mode fl_opt fl_shared fl_init fl_sidxs fl_segs fl_mfra fl_children]. rewrite T. reflexivity.
    + unfold afile_info. rewrite afile_seg_mode_with, M. cbn [afile_with fl_shared]. destruct (fl_shared f); [|reflexivity].
      unfold afile_with at 1 2.
      cbn [afile_with fl_fragmented fl_mode fl_opt fl_shared fl_init fl_sidxs fl_segs fl_mfra fl_children]. rewrite T. reflexivity.
  - pose proof (enc_seq_settles _ _ fc_settles _ _ _ E) as S.
    pose proof (enc_seq_touched _ _ fc_touch fc_touched _ _ _ E) as T.
    repeat split.
    + unfold afile_encode. rewrite afile_seg_mode_with, M. cbn [afile_with fl_fragmented fl_mode fl_opt fl_init fl_sidxs fl_segs fl_mfra fl_children].
      rewrite K. unfold enc_children in *. rewrite S. reflexivity.
    + unfold afile_touch. rewrite afile_seg_mode_with, M. unfold afile_with at 1 2.
      cbn [afile_with fl_fragmented fl_mode fl_opt fl_shared fl_init fl_sidxs fl_segs fl_mfra fl_children]. rewrite T. reflexivity.
    + unfold afile_info. rewrite afile_seg_mode_with, M. unfold afile_with at 1 2.
      cbn [afile_with fl_fragmented fl_mode fl_opt fl_shared fl_init fl_sidxs fl_segs fl_mfra fl_children]. rewrite T. reflexivity.
Qed.

Theorem file_settles f f' boxes o :
  (o = OpEncode \/ o = OpEncodeSW) -> afile_step f o = (f', OutBytes boxes) -> afile_wf f = true ->
  settled afile_step f' boxes (lenN (concat boxes)).
Proof.
  intros Ho H W.
  assert (E : afile_encode f = (f', Ok boxes)) by (destruct Ho as [-> | ->]; apply step_encode_inv; exact H).
  destruct (afile_encode_settles f f' boxes E) as (S & T & I). destruct (file_size f f' boxes E W) as (L & _).
  unfold settled. cbn [afile_step]. rewrite S, T, I, L. cbn [out_of]. repeat split.
Qed.

(* ------------------------------------------------------------------ histories, generically *)
Theorem history_after_encode {S} (step : S -> aop -> S * aout) (wf : S -> bool)
  (settles : forall s s' boxes o, (o = OpEncode \/ o = OpEncodeSW) -> step s o = (s', OutBytes boxes) -> wf s = true ->
             settled step s' boxes (lenN (concat boxes)))
  s ops1 o ops2 s1 s2 boxes :
  snd (run_hist step s ops1) = s1 -> ~ In OutPanic (fst (run_hist step s ops1)) ->
  (o = OpEncode \/ o = OpEncodeSW) -> step s1 o = (s2, OutBytes boxes) -> wf s1 = true ->
  run_hist step s (ops1 ++ o :: ops2) =
    (fst (run_hist step s ops1) ++ OutBytes boxes :: map (expected boxes (lenN (concat boxes))) ops2, s2).
Proof.
  intros H1 Hn Ho Hs W. rewrite run_hist_app by exact Hn. rewrite H1. cbn [run_hist]. rewrite Hs.
  rewrite (run_hist_settled step s2 boxes _ (settles s1 s2 boxes o Ho Hs W)). reflexivity.
Qed.

(* well-formedness is kept by every operation, so `wf s1` above follows from `wf s` *)
Lemma aseg_touch_wf s : aseg_wf (aseg_touch s) = aseg_wf s.
Proof.
  unfold aseg_wf, aseg_touch. cbn [aseg_with_frags sg_styp sg_sidxs sg_frags]. f_equal.
  induction (sg_frags s) as [|a l IH]; [reflexivity|]. cbn [map forallb]. rewrite afrag_touch_wf, IH. reflexivity.
Qed.
