(* C02AggSencProofs.v — SencBox: the flag that Encode / Info set reaches a fixed point; every box built with
   CreateSencBox + AddSample (any history, IVs below 256 bytes) is `senc_ok`; a senc_ok box is left alone by
   Size / Info / Encode / EncodeSW, writes Size() bytes with a correct header on both encode paths, and is
   therefore a well-formed opaque box of the aggregate model; the AddSample text before the repairs is refuted. *)
From V.lib Require Import Base.
From V.c05 Require Import C05CodecModel C05CodecProofs.
From V.c02 Require Import C02AggModel C02AggSizeProofs C02AggSencModel.

Definition has_subs (s : senc) : bool := existsb (fun l => negb (is_nil l)) (sn_subs s).
Definition flag_ok (s : senc) : bool := negb (has_subs s) || sn_use_subs s.

Definition ivs_ok (s : senc) : bool :=
  if 0 <? sn_ivsize s then (lenN (sn_ivs s) =? sn_count s) && forallb (fun iv => lenN iv =? sn_ivsize s) (sn_ivs s)
  else true.
Definition subs_ok (s : senc) : bool := if sn_use_subs s then lenN (sn_subs s) =? sn_count s else is_nil (sn_subs s).

Definition senc_ok (s : senc) : bool :=
  negb (sn_np s) && (sn_read s =? 0) && flag_ok s && ivs_ok s && subs_ok s.

(* ------------------------------------------------------------------ the flag *)
Lemma senc_setflag_idem s : senc_setflag (senc_setflag s) = senc_setflag s.
Proof.
  unfold senc_setflag. destruct (existsb _ (sn_subs s)) eqn:E; [|rewrite E; reflexivity].
  cbn [sn_with_flags sn_subs sn_flags]. rewrite E. unfold sn_with_flags. cbn [sn_version sn_flags sn_count sn_ivsize sn_ivs sn_subs sn_raw sn_np sn_read].
  f_equal. apply N.bits_inj. intros n. rewrite !N.setbit_eqb. destruct (B_SUBS =? n); reflexivity.
Qed.

Lemma senc_eta s : mkSenc (sn_version s) (sn_flags s) (sn_count s) (sn_ivsize s) (sn_ivs s) (sn_subs s) (sn_raw s) (sn_np s) (sn_read s) = s.
Proof. destruct s; reflexivity. Qed.

Lemma setbit_same f k : N.testbit f k = true -> N.setbit f k = f.
Proof.
  intros H. apply N.bits_inj. intros n. rewrite N.setbit_eqb. destruct (k =? n) eqn:E; [|reflexivity].
  apply N.eqb_eq in E. subst n. rewrite H. reflexivity.
Qed.

Lemma flag_ok_fix s : flag_ok s = true -> senc_setflag s = s.
Proof.
  unfold flag_ok, has_subs, senc_setflag, sn_use_subs. destruct (existsb _ (sn_subs s)); cbn [negb orb]; [|reflexivity].
  intros H. unfold sn_with_flags. rewrite (setbit_same _ _ H). apply senc_eta.
Qed.

(* ------------------------------------------------------------------ lengths *)
Lemma lenN_be16 x : lenN (be16 x) = 2.
Proof. reflexivity. Qed.

Lemma lenN_enc_subs l : lenN (enc_subs l) = 2 + 6 * lenN l.
Proof.
  unfold enc_subs. rewrite lenN_app, lenN_be16.
  rewrite (lenN_flat_map_const (fun p : N * N => be16 (fst p) ++ be32 (snd p)) 6); [lia|]. intros a. reflexivity.
Qed.

Lemma lenN_flat_map_sum {A} (g : A -> list N) l : lenN (flat_map g l) = sumN (map (fun a => lenN (g a)) l).
Proof. induction l as [|a t IH]; [reflexivity|]. cbn [flat_map map sumN]. rewrite lenN_app, IH. reflexivity. Qed.

Lemma map_nth_seq {A B} (f : A -> B) (d : A) l : map (fun i => f (nth i l d)) (seq 0 (length l)) = map f l.
Proof.
  induction l as [|a t IH]; [reflexivity|]. cbn [length seq map nth]. f_equal.
  rewrite <- seq_shift, map_map. exact IH.
Qed.

Lemma sumN_add {A} (f g : A -> N) l : sumN (map (fun a => f a + g a) l) = sumN (map f l) + sumN (map g l).
Proof. induction l as [|a t IH]; [reflexivity|]. cbn [map sumN]. rewrite IH. lia. Qed.

Lemma sumN_const {A} (f : A -> N) k l : (forall a, In a l -> f a = k) -> sumN (map f l) = lenN l * k.
Proof.
  intros H. induction l as [|a t IH]; [reflexivity|]. cbn [map sumN]. rewrite lenN_cons, H by (left; reflexivity).
  rewrite IH by (intros x Hx; apply H; right; exact Hx). lia.
Qed.

Lemma firstn_all_N {A} (l : list A) n : lenN l = n -> firstn (N.to_nat n) l = l.
Proof. intros <-. unfold lenN. rewrite Nat2N.id. apply firstn_all. Qed.

(* ------------------------------------------------------------------ a senc_ok box writes Size() bytes *)
Lemma senc_ok_parts s : senc_ok s = true ->
  sn_np s = false /\ sn_read s = 0 /\ flag_ok s = true /\ ivs_ok s = true /\ subs_ok s = true.
Proof.
  unfold senc_ok. intros H. apply andb_true_iff in H. destruct H as [H P5]. apply andb_true_iff in H. destruct H as [H P4].
  apply andb_true_iff in H. destruct H as [H P3]. apply andb_true_iff in H. destruct H as [P1 P2].
  apply negb_true_iff in P1. apply N.eqb_eq in P2. repeat split; assumption.
Qed.

Lemma senc_ok_body s : senc_ok s = true ->
  exists n body, senc_size s = Ok n /\ senc_body s = Ok body /\ lenN body + 16 = n.
Proof.
  intros H. destruct (senc_ok_parts s H) as (Hr & Hd & Hf & Hi & Hs).
  unfold senc_size, senc_calc, senc_body, senc_body_gen, senc_index_bad. rewrite Hr, Hd. cbn [N.ltb N.compare andb]. rewrite andb_false_r.
  destruct ((sn_ivsize s =? 0) && negb (sn_use_subs s)) eqn:E0.
  { exists 16, []. repeat split. }
  unfold ivs_ok in Hi. unfold subs_ok in Hs.
  assert (Hi2 : (0 <? sn_ivsize s) && (lenN (sn_ivs s) <? sn_count s) = false).
  { destruct (0 <? sn_ivsize s); [|reflexivity]. apply andb_true_iff in Hi. destruct Hi as [Hi _]. apply N.eqb_eq in Hi.
    cbn [andb]. apply N.ltb_ge. lia. }
  assert (Hs2 : sn_use_subs s && (lenN (sn_subs s) <? sn_count s) = false).
  { destruct (sn_use_subs s); [|reflexivity]. apply N.eqb_eq in Hs. cbn [andb]. apply N.ltb_ge. lia. }
  rewrite Hi2, Hs2. cbn [orb]. eexists; eexists. split; [reflexivity|]. split; [reflexivity|].
  rewrite lenN_flat_map_sum. unfold senc_sample_bytes.
  set (n := N.to_nat (sn_count s)).
  assert (Hsum : sumN (map (fun i => lenN ((if 0 <? sn_ivsize s then nth i (sn_ivs s) [] else []) ++
                                         (if sn_use_subs s then enc_subs (nth i (sn_subs s) []) else []))) (seq 0 n))
                 = sumN (map (fun i => lenN (if 0 <? sn_ivsize s then nth i (sn_ivs s) [] else [])) (seq 0 n))
                   + sumN (map (fun i => lenN (if sn_use_subs s then enc_subs (nth i (sn_subs s) []) else [])) (seq 0 n))).
  { rewrite <- sumN_add. f_equal. apply map_ext. intros i. apply lenN_app. }
  rewrite Hsum. clear Hsum.
  assert (HA : sumN (map (fun i => lenN (if 0 <? sn_ivsize s then nth i (sn_ivs s) [] else [])) (seq 0 n)) = sn_count s * sn_ivsize s).
  { destruct (0 <? sn_ivsize s) eqn:Ez.
    - apply andb_true_iff in Hi. destruct Hi as [Hl Ha]. apply N.eqb_eq in Hl.
      assert (Hn : n = length (sn_ivs s)) by (unfold n; rewrite <- Hl; unfold lenN; rewrite Nat2N.id; reflexivity).
      rewrite Hn, (map_nth_seq (fun iv => lenN iv) [] (sn_ivs s)).
      rewrite (sumN_const (fun iv : list N => lenN iv) (sn_ivsize s)); [rewrite Hl; reflexivity|].
      intros iv Hin. rewrite forallb_forall in Ha. apply N.eqb_eq. apply Ha. exact Hin.
    - apply N.ltb_ge in Ez. assert (sn_ivsize s = 0) as -> by lia.
      rewrite (sumN_const (fun _ : nat => lenN (@nil N)) 0); [lia|]. reflexivity. }
  assert (HB : sumN (map (fun i => lenN (if sn_use_subs s then enc_subs (nth i (sn_subs s) []) else [])) (seq 0 n))
               = (if sn_use_subs s then sumN (map (fun l => 2 + 6 * lenN l) (firstn n (sn_subs s))) else 0)).
  { destruct (sn_use_subs s) eqn:Eu.
    - apply N.eqb_eq in Hs.
      assert (Hn : n = length (sn_subs s)) by (unfold n; rewrite <- Hs; unfold lenN; rewrite Nat2N.id; reflexivity).
      rewrite Hn, firstn_all, (map_nth_seq (fun l => lenN (enc_subs l)) [] (sn_subs s)). f_equal. apply map_ext. apply lenN_enc_subs.
    - rewrite (sumN_const (fun _ : nat => lenN (@nil N)) 0); [lia|]. reflexivity. }
  rewrite HA, HB. fold n. lia.
Qed.

(* the box as Encode writes it: header, versionAndFlags, sample count, per-sample data *)
Theorem senc_ok_encode s : senc_ok s = true ->
  exists n, senc_size s = Ok n /\
    ((TWO32 <=? n) = true /\ snd (senc_encode_w s) = Err /\ snd (senc_encode_sw s) = Err
     \/ exists b, senc_encode_w s = (s, Ok b) /\ senc_encode_sw s = (s, Ok b) /\ lenN b = n /\ box_ok b = true) /\
    senc_info s = Ok s.
Proof.
  intros H. destruct (senc_ok_parts s H) as (Hr & Hd & Hf & Hi & Hs).
  destruct (senc_ok_body s H) as (n & body & Hn & Hb & Hl). exists n. split; [exact Hn|].
  pose proof (flag_ok_fix s Hf) as Hfix. split.
  - unfold senc_encode_w, senc_encode_sw. rewrite Hfix. unfold senc_all, senc_all_gen. fold senc_body. rewrite Hn, Hb. cbn [rbind].
    unfold enc_hdr. destruct (TWO32 <=? n) eqn:E; cbn [rbind snd]; [left; repeat split|].
    right. apply N.leb_gt in E. cbn [fst snd].
    set (b := (be32 n ++ TY_SENC) ++ be32 (u32 (sn_version s * 16777216 + sn_flags s)) ++ be32 (sn_count s) ++ body).
    assert (Hlen : lenN b = n).
    { unfold b. rewrite !lenN_app, !lenN_be32. change (lenN TY_SENC) with 4. lia. }
    exists b. rewrite Hlen, N.ltb_irrefl. repeat split.
    unfold b in *. rewrite <- app_assoc in *. apply box_ok_compact; [reflexivity|exact E|lia|exact Hlen].
  - unfold senc_info. rewrite Hr, Hfix.
    assert (Hbad : senc_index_bad s = false).
    { unfold senc_index_bad. unfold ivs_ok in Hi. unfold subs_ok in Hs.
      destruct (0 <? sn_ivsize s).
      - apply andb_true_iff in Hi. destruct Hi as [Hi _]. apply N.eqb_eq in Hi. rewrite Hi, N.ltb_irrefl. cbn [andb orb].
        destruct (sn_use_subs s); [|reflexivity]. apply N.eqb_eq in Hs. rewrite Hs, N.ltb_irrefl. reflexivity.
      - cbn [andb orb]. destruct (sn_use_subs s); [|reflexivity]. apply N.eqb_eq in Hs. rewrite Hs, N.ltb_irrefl. reflexivity. }
    rewrite Hbad. reflexivity.
Qed.

(* hence a senc_ok box is a well-formed (stateless, Size() = bytes written = size field) opaque box *)
Theorem senc_ok_obox s : senc_ok s = true -> ob_err (senc_obox s) = false -> ob_wf (senc_obox s) = true.
Proof.
  intros H. destruct (senc_ok_encode s H) as (n & Hn & [(Hbig & Hw & _)|(b & Hw & _ & Hl & Hb)] & _);
    unfold senc_obox; rewrite Hn.
  - rewrite Hw. cbn [ob_err]. discriminate.
  - rewrite Hw. cbn [snd]. intros _. unfold ob_wf. cbn [ob_bytes ob_size]. rewrite Hl, N.eqb_refl, Hb. reflexivity.
Qed.

(* ------------------------------------------------------------------ every box AddSample builds is senc_ok *)
(* what CreateSencBox + AddSample maintain: either no per-sample IVs at all, or one IV of the same length per sample *)
Definition ivs_built (s : senc) : bool :=
  if is_nil (sn_ivs s) then sn_ivsize s =? 0
  else (0 <? sn_ivsize s) && (lenN (sn_ivs s) =? sn_count s) && forallb (fun iv => lenN iv =? sn_ivsize s) (sn_ivs s).

Definition built_ok (s : senc) : bool :=
  negb (sn_np s) && (sn_read s =? 0) && ivs_built s && subs_ok s.

Lemma built_ok_senc_ok s : built_ok s = true -> senc_ok s = true.
Proof.
  unfold built_ok, senc_ok. intros H. apply andb_true_iff in H. destruct H as [H Hs]. apply andb_true_iff in H. destruct H as [H Hi].
  rewrite H, Hs. cbn [andb]. rewrite andb_true_r.
  assert (Hf : flag_ok s = true).
  { unfold flag_ok, has_subs. unfold subs_ok in Hs. destruct (sn_use_subs s); [apply orb_true_r|].
    destruct (sn_subs s); [reflexivity|discriminate]. }
  assert (Hi2 : ivs_ok s = true).
  { unfold ivs_ok, ivs_built in *. destruct (sn_ivs s) as [|x t]; cbn [is_nil] in Hi.
    - apply N.eqb_eq in Hi. rewrite Hi. reflexivity.
    - apply andb_true_iff in Hi. destruct Hi as [Hi Ha]. apply andb_true_iff in Hi. destruct Hi as [Hz Hl]. rewrite Hz, Hl, Ha. reflexivity. }
  rewrite Hf, Hi2. reflexivity.
Qed.

Lemma u8_small x : x < 256 -> u8 x = x.
Proof. intros H. unfold u8. apply N.mod_small. exact H. Qed.

Lemma lenN_repeat {A} (x : A) k : lenN (repeat x k) = N.of_nat k.
Proof. unfold lenN. rewrite repeat_length. reflexivity. Qed.

Lemma senc_add_built s iv subs s' :
  senc_add s iv subs = Ok s' -> built_ok s = true -> lenN iv < 256 -> sn_count s + 1 < 4294967296 ->
  built_ok s' = true /\ sn_count s' = sn_count s + 1.
Proof.
  destruct s as [ver fl cnt ivsz ivl sbs raw np rd]. unfold built_ok, ivs_built, subs_ok, sn_use_subs, senc_add, senc_add_gen.
  cbn [sn_version sn_flags sn_count sn_ivsize sn_ivs sn_subs sn_raw sn_np sn_read andb].
  intros Ha H Hiv Hc. destruct np; [discriminate|]. cbn [negb andb] in H.
  apply andb_true_iff in H. destruct H as [H Hs]. apply andb_true_iff in H. destruct H as [Hrd Hi]. apply N.eqb_eq in Hrd. subst rd.
  assert (Hu : u32 (cnt + 1) = cnt + 1) by (unfold u32; apply N.mod_small; exact Hc).
  (* the sub-sample part, for any s1 that differs from s in the IV fields only *)
  assert (Sub : forall ivsz1 ivl1,
    (if is_nil ivl1 then ivsz1 =? 0 else (0 <? ivsz1) && (lenN ivl1 =? cnt + 1) && forallb (fun x => lenN x =? ivsz1) ivl1) = true ->
    forall s'',
    Ok (let s2 := if negb (is_nil subs) || N.testbit fl B_SUBS
                  then mkSenc ver (if negb (is_nil subs) then N.setbit fl B_SUBS else fl) cnt ivsz1 ivl1
                              ((sbs ++ repeat [] (N.to_nat cnt - length sbs)) ++ [subs]) raw false 0
                  else mkSenc ver fl cnt ivsz1 ivl1 sbs raw false 0 in
        mkSenc (sn_version s2) (sn_flags s2) (u32 (sn_count s2 + 1)) (sn_ivsize s2) (sn_ivs s2) (sn_subs s2) (sn_raw s2) (sn_np s2) (sn_read s2)) = Ok s'' ->
    (negb (sn_np s'') && (sn_read s'' =? 0) &&
     (if is_nil (sn_ivs s'') then sn_ivsize s'' =? 0
      else (0 <? sn_ivsize s'') && (lenN (sn_ivs s'') =? sn_count s'') && forallb (fun x => lenN x =? sn_ivsize s'') (sn_ivs s'')) &&
     (if N.testbit (sn_flags s'') B_SUBS then lenN (sn_subs s'') =? sn_count s'' else is_nil (sn_subs s''))) = true /\
    sn_count s'' = cnt + 1).
  { intros ivsz1 ivl1 Hi1 s'' E. apply ok_inj in E. subst s''.
    destruct (negb (is_nil subs) || N.testbit fl B_SUBS) eqn:Eb;
      cbn [sn_version sn_flags sn_count sn_ivsize sn_ivs sn_subs sn_raw sn_np sn_read negb andb N.eqb]; rewrite Hu, Hi1; cbn [andb]; split; try reflexivity.
    - destruct (N.testbit fl B_SUBS) eqn:Ef.
      + (* flag already set: one entry per sample so far, nothing to pad *)
        apply N.eqb_eq in Hs.
        assert (Hp : (N.to_nat cnt - length sbs)%nat = 0%nat) by (unfold lenN in Hs; lia).
        rewrite Hp. cbn [repeat]. rewrite app_nil_r.
        assert (Hfl : N.testbit (if negb (is_nil subs) then N.setbit fl B_SUBS else fl) B_SUBS = true).
        { destruct (negb (is_nil subs)); [rewrite N.setbit_eqb, N.eqb_refl; reflexivity|exact Ef]. }
        rewrite Hfl. apply N.eqb_eq. rewrite lenN_app, Hs. reflexivity.
      + (* the first sample with sub-samples: the earlier samples get empty entries *)
        rewrite orb_false_r in Eb. rewrite Eb. rewrite N.setbit_eqb, N.eqb_refl. cbn [orb].
        destruct sbs; [|discriminate]. cbn [app length]. rewrite Nat.sub_0_r.
        apply N.eqb_eq. rewrite lenN_app, lenN_repeat, N2Nat.id. reflexivity.
    - apply orb_false_iff in Eb. destruct Eb as [_ Ef]. rewrite Ef in *. exact Hs. }
  destruct iv as [|b0 iv'].
  - destruct (negb (cnt =? 0) && negb (is_nil ivl)) eqn:Em; cbn [rbind] in Ha; [discriminate|].
    apply (Sub ivsz ivl); [|exact Ha].
    destruct ivl as [|x t]; cbn [is_nil] in *; [exact Hi|].
    (* IVs in use and no IV given: refused unless there is no sample yet, which cannot be with IVs present *)
    rewrite andb_true_r in Em. apply negb_false_iff, N.eqb_eq in Em. subst cnt.
    apply andb_true_iff in Hi. destruct Hi as [Hi _]. apply andb_true_iff in Hi. destruct Hi as [_ Hl].
    apply N.eqb_eq in Hl. unfold lenN in Hl. cbn [length] in Hl. lia.
  - destruct (cnt =? 0) eqn:Ec; cbn [rbind] in Ha.
    + apply N.eqb_eq in Ec. subst cnt.
      apply (Sub (u8 (lenN (b0 :: iv'))) (ivl ++ [b0 :: iv'])); [|exact Ha].
      destruct ivl as [|x t]; cbn [is_nil] in Hi.
      * cbn [app is_nil forallb]. rewrite (u8_small _ Hiv). rewrite !N.eqb_refl. cbn [andb].
        rewrite ?andb_true_r. apply N.ltb_lt. rewrite lenN_cons. lia.
      * apply andb_true_iff in Hi. destruct Hi as [Hi _]. apply andb_true_iff in Hi. destruct Hi as [_ Hl].
        apply N.eqb_eq in Hl. unfold lenN in Hl. cbn [length] in Hl. lia.
    + destruct (negb (lenN (b0 :: iv') =? ivsz)) eqn:Em; cbn [rbind] in Ha; [discriminate|].
      apply negb_false_iff, N.eqb_eq in Em.
      apply (Sub ivsz (ivl ++ [b0 :: iv'])); [|exact Ha].
      destruct ivl as [|x t]; cbn [is_nil] in Hi.
      * (* no IVs so far and samples present: ivsize is 0, and a non-empty IV has another length *)
        apply N.eqb_eq in Hi. rewrite Hi in Em. rewrite lenN_cons in Em. lia.
      * apply andb_true_iff in Hi. destruct Hi as [Hi Hall]. apply andb_true_iff in Hi. destruct Hi as [Hz Hl]. apply N.eqb_eq in Hl.
        assert (Hnn : is_nil ((x :: t) ++ [b0 :: iv']) = false) by reflexivity. rewrite Hnn, Hz. cbn [andb].
        rewrite lenN_app, Hl. change (lenN [b0 :: iv']) with 1. rewrite N.eqb_refl. cbn [andb].
        rewrite forallb_app, Hall. cbn [forallb andb]. rewrite Em, N.eqb_refl. reflexivity.
Qed.

Lemma senc_create_built : built_ok senc_create = true.
Proof. reflexivity. Qed.

(* any history of AddSample calls (refused samples included) *)
Theorem senc_adds_built l : forall s,
  built_ok s = true -> Forall (fun p => lenN (fst p) < 256) l -> sn_count s + lenN l < 4294967296 ->
  built_ok (senc_adds senc_add s l) = true.
Proof.
  induction l as [|[iv subs] rest IH]; intros s H Hl Hc; [exact H|].
  cbn [senc_adds]. inversion Hl as [|? ? Hiv Hrest]; subst. cbn [fst] in Hiv. rewrite lenN_cons in Hc.
  destruct (senc_add s iv subs) as [s'| | |] eqn:E.
  - destruct (senc_add_built s iv subs s' E H Hiv ltac:(lia)) as [H' Hc']. apply IH; [exact H'|exact Hrest|lia].
  - apply IH; [exact H|exact Hrest|lia].
  - apply IH; [exact H|exact Hrest|lia].
  - apply IH; [exact H|exact Hrest|lia].
Qed.

(* ------------------------------------------------------------------ the text before the repairs *)
Lemma senc_pinned_size_refuted : exists l, senc_size (senc_adds senc_add_pinned senc_create l) = Panic.
Proof. exists [([], []); ([], [(1, 2)])]. vm_compute. reflexivity. Qed.

Lemma senc_pinned_encode_refuted : exists l n,
  senc_size (senc_adds senc_add_pinned senc_create l) = Ok n /\
  snd (senc_encode_w (senc_adds senc_add_pinned senc_create l)) = Panic.
Proof. exists [([1; 2; 3; 4; 5; 6; 7; 8], []); ([], [])], 32. split; vm_compute; reflexivity. Qed.

(* a box whose flag is not consistent (only reachable by writing the fields directly): Encode changes Size() *)
Lemma senc_flag_refuted : exists s n n',
  senc_size s = Ok n /\ senc_size (fst (senc_encode_w s)) = Ok n' /\ n <> n'.
Proof.
  exists (mkSenc 0 0 1 0 [] [[(1, 2)]] [] false 0), 16, 24. split; [vm_compute; reflexivity|]. split; [vm_compute; reflexivity|discriminate].
Qed.
