(* C02AggProgProofs.v — progressive (non-fragmented) files: File.Encode writes f.Children in order, one box per child;
   nothing but mdat.LargeSize changes (moov with its stco / co64 chunk offsets is an opaque, stateless box: it is
   written as it is); every box has the length Size() reports afterwards, so the file positions computed from
   Size() / HeaderSize() are the positions in the output - in particular where each mdat payload begins, which is what
   the chunk offsets point into.  A file whose mdat boxes already have their LargeSize decided (after one Size(),
   Info or Encode, or decoded with the header it needs) is not changed at all: the offsets stay valid. *)
From V.lib Require Import Base.
From V.c05 Require Import C05Model C05FragModel C05CodecModel.
From V.c02 Require Import C02AggModel C02AggSizeProofs C02AggOptProofs C02AggFragProofs C02AggFileProofs C02AggCapModel.

(* a written box and the child (in the state afterwards) it comes from *)
Definition child_box (c : fchild) (b : list N) : Prop :=
  lenN b = fc_size c /\ box_ok b = true /\
  match c with
  | FcMdat md => exists hd, b = hd ++ md_written md /\ lenN hd = md_header_size md
  | _ => True
  end.

Lemma enc_hdr_large_len ty sz large hd : lenN ty = 4 -> enc_hdr_large ty sz large = Ok hd -> lenN hd = if large then 16 else 8.
Proof.
  intros Ht. unfold enc_hdr_large. destruct (negb large && (TWO32 <=? sz)); [discriminate|]. intros E. apply ok_inj in E. subst hd.
  destruct large; rewrite !lenN_app, ?lenN_be32, ?lenN_be64, Ht; reflexivity.
Qed.

Lemma fc_child_box c c' bs : fc_encode c = (c', Ok bs) -> fc_wf c = true ->
  c' = fc_touch c /\ exists b, bs = [b] /\ child_box c' b.
Proof.
  intros H W. destruct (fc_ok c c' bs H W) as (L & B & _). destruct c as [m|md|o]; cbn [fc_encode fc_touch] in *.
  - destruct (amoof_enc m) as [x| | |]; cbn [rbind] in H; try discriminate. injection H as <- <-.
    split; [reflexivity|]. exists x. split; [reflexivity|]. unfold lens in L. cbn [map sumN] in L.
    inversion B; subst. repeat split; [lia|assumption].
  - destruct (amd_enc md) as [md' r] eqn:E. destruct r as [x| | |]; cbn [rbind] in H; try discriminate. injection H as <- <-.
    assert (Hm : md' = md_size_touch md) by (rewrite <- (amd_enc_fst md), E; reflexivity). subst md'.
    split; [reflexivity|]. exists x. split; [reflexivity|]. unfold lens in L. cbn [map sumN] in L.
    inversion B; subst. split; [lia|]. split; [assumption|].
    unfold amd_enc in E. cbv zeta in E. apply (f_equal snd) in E. cbn [snd] in E.
    destruct (enc_hdr_large TY_MDAT (md_size (md_size_touch md)) (md_large (md_size_touch md))) as [hd| | |] eqn:Eh;
      cbn [rbind] in E; try discriminate. apply ok_inj in E. subst x. exists hd. split; [reflexivity|].
    rewrite (enc_hdr_large_len TY_MDAT _ _ _ (eq_refl : lenN TY_MDAT = 4) Eh). reflexivity.
  - destruct (enc_obox o) as [x| | |]; cbn [rbind] in H; try discriminate. injection H as <- <-.
    split; [reflexivity|]. exists x. split; [reflexivity|]. unfold lens in L. cbn [map sumN] in L.
    inversion B; subst. repeat split; [lia|assumption].
Qed.

Lemma enc_children_boxes cs : forall cs' boxes, enc_seq fc_encode cs = (cs', Ok boxes) -> forallb fc_wf cs = true ->
  cs' = map fc_touch cs /\ Forall2 child_box cs' boxes.
Proof.
  induction cs as [|c rest IH]; intros cs' boxes H W.
  - injection H as <- <-. split; [reflexivity|constructor].
  - cbn [enc_seq] in H. destruct (fc_encode c) as [c' r] eqn:Ec. destruct r as [b| | |]; try (injection H as _ H; discriminate).
    destruct (enc_seq fc_encode rest) as [rest' r2] eqn:Er. destruct r2 as [b2| | |]; try (injection H as _ H; discriminate).
    injection H as <- <-. cbn [forallb] in W. apply andb_true_iff in W. destruct W as [W1 W2].
    destruct (fc_child_box _ _ _ Ec W1) as (-> & x & -> & Hx). destruct (IH _ _ eq_refl W2) as [-> F].
    split; [reflexivity|]. cbn [app]. constructor; assumption.
Qed.

Lemma payload_starts_out cs : forall boxes pos, Forall2 child_box cs boxes ->
  out_payload_starts pos cs boxes = payload_starts pos cs.
Proof.
  induction cs as [|c rest IH]; intros boxes pos F; inversion F as [|? b ? bs Hc Hr]; subst; [reflexivity|].
  destruct Hc as (L & _ & M). destruct c as [m|md|o]; cbn [out_payload_starts payload_starts].
  - rewrite L. cbn [fc_size]. apply IH. exact Hr.
  - destruct M as (hd & -> & Hh). cbn [fc_size] in L. rewrite (IH _ _ Hr), L. f_equal. rewrite <- L, lenN_app. lia.
  - rewrite L. cbn [fc_size]. apply IH. exact Hr.
Qed.

(* where box number k of the output begins: the sum of the Size() values of the children before it *)
Lemma box_lengths cs boxes : Forall2 child_box cs boxes -> map (fun b => lenN b) boxes = map fc_size cs.
Proof. induction 1 as [|c b cs bs H _ IH]; [reflexivity|]. cbn [map]. rewrite IH. destruct H as [-> _]. reflexivity. Qed.

Theorem file_progressive f f' boxes :
  afile_seg_mode f = false -> afile_encode f = (f', Ok boxes) -> afile_wf f = true ->
  f' = afile_with f (fl_segs f) (map fc_touch (fl_children f)) /\
  Forall2 child_box (fl_children f') boxes /\
  map (fun b => lenN b) boxes = map fc_size (fl_children f') /\
  out_payload_starts 0 (fl_children f') boxes = payload_starts 0 (fl_children f') /\
  (Forall (fun c => fc_touch c = c) (fl_children f) -> f' = f /\ payload_starts 0 (fl_children f') = payload_starts 0 (fl_children f)).
Proof.
  intros Hm H W. unfold afile_encode in H. rewrite Hm in H.
  destruct (fl_fragmented f && negb (fl_mode f =? 0) && negb (fl_mode f =? 1)); [discriminate|].
  destruct (enc_children (fl_children f)) as [cs' r] eqn:E. injection H as <- ->. unfold enc_children in E.
  assert (Wc : forallb fc_wf (fl_children f) = true).
  { unfold afile_wf in W. apply andb_true_iff in W. destruct W as [_ W]. exact W. }
  destruct (enc_children_boxes _ _ _ E Wc) as [-> F].
  split; [reflexivity|]. cbn [afile_with fl_children]. split; [exact F|]. split; [apply box_lengths; exact F|].
  split; [apply payload_starts_out; exact F|].
  intros T. assert (Hmap : map fc_touch (fl_children f) = fl_children f).
  { clear - T. induction T as [|c l Hc _ IH]; [reflexivity|]. cbn [map]. rewrite Hc, IH. reflexivity. }
  rewrite Hmap. split; [destruct f; reflexivity|reflexivity].
Qed.

(* a progressive file: ftyp, moov (opaque), mdat with 4 payload bytes, a free box; mdat payload at 8 + 16 + 8 = 32 *)
Definition ex_prog : afile :=
  let ftyp := mkObox [102; 116; 121; 112] 8 [0; 0; 0; 8; 102; 116; 121; 112] false in
  let moov := mkObox [109; 111; 111; 118] 16 [0; 0; 0; 16; 109; 111; 111; 118; 0; 0; 0; 8; 102; 114; 101; 101] false in
  mkAfile false 0 false false None [] [] None [FcOther ftyp; FcOther moov; FcMdat (mkMdat [1; 2; 3; 4] [] 0 false)].

Lemma ex_prog_ok : afile_wf ex_prog = true /\ afile_seg_mode ex_prog = false /\
  exists boxes, afile_encode ex_prog = (ex_prog, Ok boxes) /\ payload_starts 0 (fl_children ex_prog) = [32] /\
    out_payload_starts 0 (fl_children ex_prog) boxes = [32].
Proof. split; [reflexivity|]. split; [reflexivity|]. eexists. split; [vm_compute; reflexivity|]. split; reflexivity. Qed.
