(* C02AggExamples.v — concrete values used by the Examples of C02AggTheorems.v (hypotheses are satisfiable). *)
From V.lib Require Import Base.
From V.c05 Require Import C05Model C05FragModel C05CodecModel.
From V.c02 Require Import C02AggModel.

Definition ex_free : obox := mkObox [102; 114; 101; 101] 9 [0; 0; 0; 9; 102; 114; 101; 101; 7] false.
Definition ex_styp : obox := mkObox [115; 116; 121; 112] 8 [0; 0; 0; 8; 115; 116; 121; 112] false.

Definition ex_sample (fl d z : N) (c : Z) : sample := mkSample fl d z c.
(* two samples with equal durations and no composition offsets: optimisation moves the duration to the tfhd,
   drops the cto column and turns the flags into default flags + first-sample flags *)
Definition ex_trun : trun :=
  mkTrun 1 3841 0 0 [ex_sample 33554432 1024 3 0; ex_sample 16842752 1024 2 0] 0.
Definition ex_traf : atraf := [TcTfhd (create_tfhd 1); TcTfdt (mkTfdt 0 90000); TcTrun ex_trun; TcOther ex_free].
Definition ex_moof : amoof := [McMfhd 1; McTraf ex_traf].
Definition ex_mdat : mdat := mkMdat [1; 2; 3; 4; 5] [] 0 false.
Definition ex_frag (opt : bool) : afrag := mkAfrag [ex_free] (Some ex_moof) [] (Some ex_mdat) [] opt.
Definition ex_seg : aseg := mkAseg (Some ex_styp) [ex_free; ex_free] [ex_frag false; ex_frag false] true.
Definition ex_file : afile :=
  mkAfile true 0 true false (Some [ex_styp]) [ex_free] [ex_seg] None [].
(* box-tree mode writes the moof as it is: its data offset must have been set *)
Definition ex_moof_set : amoof :=
  [McMfhd 1; McTraf [TcTfhd (create_tfhd 1); TcTfdt (mkTfdt 1 4294967296); TcTrun (tr_with_doff ex_trun 120)]].
Definition ex_file_tree : afile :=
  mkAfile true 1 false true None [] [] None [FcOther ex_styp; FcMoof ex_moof_set; FcMdat ex_mdat].
