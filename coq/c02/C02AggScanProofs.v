(* C02AggScanProofs.v — the reader's view of an output: following the size fields from the first byte recovers
   exactly the boxes that were written (no gap, no overlap, nothing left over). *)
From V.lib Require Import Base.
From V.c05 Require Import C05CodecModel.
From V.c02 Require Import C02AggModel C02AggSizeProofs C02AggFragProofs.

(* the length announced by the box header at the start of bs (compact, or size field 1 + 64-bit largesize) *)
Definition box_len (bs : list N) : option N :=
  match rd32 bs with
  | Some (sz, rest) =>
      if sz =? 1 then
        match rest with
        | _ :: _ :: _ :: _ :: r2 => match rd64 r2 with Some (lg, _) => Some lg | None => None end
        | _ => None
        end
      else Some sz
  | None => None
  end.

(* split a byte string into boxes by their size fields; None: a size field below 8 or beyond the end *)
Fixpoint scan (fuel : nat) (bs : list N) : option (list (list N)) :=
  match bs with
  | [] => Some []
  | _ =>
      match fuel with
      | O => None
      | S f =>
          match box_len bs with
          | Some n =>
              if (n <? 8) || (lenN bs <? n) then None
              else match scan f (skipn (N.to_nat n) bs) with
                   | Some r => Some (firstn (N.to_nat n) bs :: r)
                   | None => None
                   end
          | None => None
          end
      end
  end.

Lemma rd32_app b tl v rest : rd32 b = Some (v, rest) -> rd32 (b ++ tl) = Some (v, rest ++ tl).
Proof. destruct b as [|a [|b1 [|c [|d r]]]]; cbn [rd32]; try discriminate. intros [= <- <-]. reflexivity. Qed.

Lemma rd64_app b tl v rest : rd64 b = Some (v, rest) -> rd64 (b ++ tl) = Some (v, rest ++ tl).
Proof.
  unfold rd64. destruct (rd32 b) as [[h l1]|] eqn:E1; [|discriminate]. rewrite (rd32_app _ tl _ _ E1).
  destruct (rd32 l1) as [[lo l2]|] eqn:E2; [|discriminate]. rewrite (rd32_app _ tl _ _ E2). intros [= <- <-]. reflexivity.
Qed.

Lemma box_ok_len b tl : box_ok b = true -> box_len (b ++ tl) = Some (lenN b) /\ 8 <= lenN b.
Proof.
  unfold box_ok, box_len. destruct (rd32 b) as [[sz rest]|] eqn:E; [|discriminate]. rewrite (rd32_app _ tl _ _ E).
  destruct (sz =? 1) eqn:E1.
  - destruct rest as [|t1 [|t2 [|t3 [|t4 r2]]]]; try discriminate. cbn [app].
    destruct (rd64 r2) as [[lg r3]|] eqn:E2; [|discriminate]. rewrite (rd64_app _ tl _ _ E2).
    intros H. apply N.eqb_eq in H. subst lg. split; [reflexivity|].
    (* at least 16 bytes: 4 + 4 + 8 *)
    destruct b as [|a [|b1 [|c [|d r]]]]; cbn [rd32] in E; try discriminate. injection E as _ Er. subst r.
    unfold rd64 in E2. destruct (rd32 r2) as [[h l1]|] eqn:Ea; [|discriminate].
    destruct r2 as [|x1 [|x2 [|x3 [|x4 r5]]]]; cbn [rd32] in Ea; try discriminate.
    unfold lenN. cbn [length]. lia.
  - intros H. apply andb_true_iff in H. destruct H as [H1 H2]. apply N.eqb_eq in H1. apply N.leb_le in H2. subst sz.
    split; [reflexivity|exact H2].
Qed.

Theorem scan_all_ok boxes : all_ok boxes -> scan (length boxes) (concat boxes) = Some boxes.
Proof.
  induction 1 as [|b rest Hb _ IH]; [reflexivity|]. cbn [concat length].
  destruct (box_ok_len b (concat rest) Hb) as [L G].
  assert (Hne : exists x t, b ++ concat rest = x :: t).
  { destruct b as [|x t]; [unfold lenN in G; cbn [length] in G; lia|]. exists x, (t ++ concat rest). reflexivity. }
  destruct Hne as (x & t & Hx). cbn [scan]. rewrite Hx. rewrite <- Hx. rewrite L.
  assert (C1 : (lenN b <? 8) = false) by (apply N.ltb_ge; exact G).
  assert (C2 : (lenN (b ++ concat rest) <? lenN b) = false) by (apply N.ltb_ge; rewrite lenN_app; lia).
  rewrite C1, C2. cbn [orb].
  assert (Hn : N.to_nat (lenN b) = length b) by (unfold lenN; apply Nat2N.id). rewrite Hn.
  rewrite skipn_app, skipn_all, Nat.sub_diag. cbn [skipn app]. rewrite IH.
  rewrite firstn_app, firstn_all, Nat.sub_diag. cbn [firstn]. rewrite app_nil_r. reflexivity.
Qed.

From V.c02 Require Import C02AggFileProofs.

Lemma fragment_scan fr fr' boxes : afrag_encode fr = (fr', Ok boxes) -> afrag_wf fr = true ->
  scan (length boxes) (concat boxes) = Some boxes.
Proof. intros H W. apply scan_all_ok. apply (fragment_size fr fr' boxes H W). Qed.

Lemma segment_scan s s' boxes : aseg_encode s = (s', Ok boxes) -> aseg_wf s = true ->
  scan (length boxes) (concat boxes) = Some boxes.
Proof. intros H W. apply scan_all_ok. apply (segment_size s s' boxes H W). Qed.

Lemma file_scan f f' boxes : afile_encode f = (f', Ok boxes) -> afile_wf f = true ->
  scan (length boxes) (concat boxes) = Some boxes.
Proof. intros H W. apply scan_all_ok. apply (file_size f f' boxes H W). Qed.

(* inside a container: after the 8 header bytes, the size fields recover exactly the children *)
Lemma container_scan ty b kids : lenN ty = 4 -> tiled_container ty b kids -> scan (length kids) (skipn 8 b) = Some kids.
Proof.
  intros Hty (Hb & Hk & _ & _).
  destruct ty as [|t1 [|t2 [|t3 [|t4 [|t5 ty']]]]]; try (unfold lenN in Hty; cbn [length] in Hty; lia).
  rewrite Hb. unfold be32. cbn [app skipn]. apply scan_all_ok. exact Hk.
Qed.
