(* C02AggWfModel.v — DEFINITIONS ONLY: the boolean hypotheses of the aggregate theorems (afrag_wf, aseg_wf, obs_wf, afile_wf of
   C02_fragment / C02_segment / C02_init / C02_file and of the history theorems; senc_ok of C02_senc), written a second time
   in a file without proofs so that the extracted model can EVALUATE them on the structures of every correspondence case
   (the driver reports on how many cases of a run the theorems' hypotheses held).  C02AggWfProofs.v proves each of them equal
   to the definition the theorems are stated with. *)
From V.lib Require Import Base.
From V.c05 Require Import C05Model C05FragModel C05CodecModel.
From V.c02 Require Import C02AggModel C02AggSencModel.

Definition x_oall {A} (f : A -> bool) (o : option A) : bool := match o with Some x => f x | None => true end.
Definition x_obs_wf (l : list obox) : bool := forallb ob_wf l.
Definition x_tc_wf (c : tchild) : bool := match c with TcOther o => ob_wf o | _ => true end.
Definition x_atraf_wf (t : atraf) : bool := forallb x_tc_wf t.
Definition x_mc_wf (c : mchild) : bool :=
  match c with McTraf t => x_atraf_wf t | McOther o => ob_wf o | McMfhd s => s <? TWO32 end.
Definition x_amoof_wf (m : amoof) : bool := forallb x_mc_wf m.
Definition x_md_wf (m : mdat) : bool := (md_lazy m =? 0) && (md_size m <? 18446744073709551616).

Definition x_afrag_wf (fr : afrag) : bool :=
  x_obs_wf (af_pre fr) && x_oall x_amoof_wf (af_moof fr) && x_obs_wf (af_mid fr) && x_oall x_md_wf (af_mdat fr) &&
  x_obs_wf (af_post fr).
Definition x_aseg_wf (s : aseg) : bool :=
  x_oall ob_wf (sg_styp s) && x_obs_wf (sg_sidxs s) && forallb x_afrag_wf (sg_frags s).
Definition x_fc_wf (c : fchild) : bool :=
  match c with FcMoof m => x_amoof_wf m | FcMdat md => x_md_wf md | FcOther o => ob_wf o end.
Definition x_afile_wf (f : afile) : bool :=
  x_oall x_obs_wf (fl_init f) && x_obs_wf (fl_sidxs f) && forallb x_aseg_wf (fl_segs f) && x_oall ob_wf (fl_mfra f)
  && forallb x_fc_wf (fl_children f).

(* SencBox *)
Definition x_has_subs (s : senc) : bool := existsb (fun l => negb (is_nil l)) (sn_subs s).
Definition x_flag_ok (s : senc) : bool := negb (x_has_subs s) || sn_use_subs s.
Definition x_ivs_ok (s : senc) : bool :=
  if 0 <? sn_ivsize s then (lenN (sn_ivs s) =? sn_count s) && forallb (fun iv => lenN iv =? sn_ivsize s) (sn_ivs s)
  else true.
Definition x_subs_ok (s : senc) : bool := if sn_use_subs s then lenN (sn_subs s) =? sn_count s else is_nil (sn_subs s).
Definition x_senc_ok (s : senc) : bool :=
  negb (sn_np s) && (sn_read s =? 0) && x_flag_ok s && x_ivs_ok s && x_subs_ok s.
