(* C02AggTheorems.v — the property theorems of C02 for the aggregates (Fragment, MediaSegment, InitSegment,
   File) over the model of C02AggModel.v.  Each is closed by `exact <lemma>` and followed by Print Assumptions.

   Reading guide.  `afrag_encode fr = (fr', Ok boxes)`: Fragment.Encode / EncodeSW succeeded, left the fragment in
   state fr' and wrote the top-level boxes `boxes` (the output is `concat boxes`).  `all_ok boxes`: the size field
   at the start of every written box equals the length of that box.  `lens boxes` is the sum of the box lengths.
   `*_wf`: every opaque box (anything but tfhd/tfdt/trun/mfhd/mdat/traf/moof) writes Size() bytes and a correct
   header, and no mdat has data the caller writes separately (lazyDataSize = 0). *)
From V.lib Require Import Base.
From V.c05 Require Import C05Model C05FragModel C05CodecModel.
From V.c12 Require C12Model.
From V.c02 Require Import C02AggModel C02AggSizeProofs C02AggOptProofs C02AggFragProofs C02AggFileProofs
  C02AggPureProofs C02AggC12Proofs C02AggC05Proofs C02AggScanProofs C02AggSencModel C02AggSencProofs C02AggExamples
  C02AggCapModel C02AggCapProofs C02AggSencDecProofs C02AggProgProofs C02AggWfModel C02AggWfProofs.

(* ---- bytes written = Size() afterwards = sum of the box lengths; every top-level box header is right;
        Size() beforehand is the same when trun optimisation is off; well-formedness is kept *)
Theorem C02_fragment : forall fr fr' boxes,
  afrag_encode fr = (fr', Ok boxes) -> afrag_wf fr = true ->
  lenN (concat boxes) = afrag_size fr' /\ lens boxes = afrag_size fr' /\ all_ok boxes /\
  (af_opt fr = false -> afrag_size fr = afrag_size fr') /\ afrag_wf fr' = true.
Proof. exact fragment_size. Qed.
Print Assumptions C02_fragment.

(* inside the fragment: the moof written is a container (size field = its length = 8 + sum of its children,
   every child with a correct header) of Size() bytes, and so is every traf in it *)
Theorem C02_fragment_tiled : forall fr fr' boxes,
  afrag_encode fr = (fr', Ok boxes) -> afrag_wf fr = true ->
  exists m2 b2 kids, af_moof fr' = Some m2 /\ In b2 boxes /\ lenN b2 = amoof_size m2 /\
    tiled_container TY_MOOF b2 kids /\
    Forall2 (fun c k => match c with
                        | McTraf t => lenN k = atraf_size t /\
                                      exists tk, enc_list tc_enc t = Ok tk /\ tiled_container TY_TRAF k tk
                        | _ => lenN k = mc_size c
                        end) m2 kids.
Proof. exact fragment_moof_tiled. Qed.
Print Assumptions C02_fragment_tiled.

Theorem C02_segment : forall s s' boxes,
  aseg_encode s = (s', Ok boxes) -> aseg_wf s = true ->
  lenN (concat boxes) = aseg_size s' /\ lens boxes = aseg_size s' /\ all_ok boxes /\
  (sg_opt s = false -> aseg_size s = aseg_size s') /\ aseg_wf s' = true.
Proof. exact segment_size. Qed.
Print Assumptions C02_segment.

Theorem C02_init : forall i boxes, ainit_encode i = Ok boxes -> obs_wf i = true ->
  lenN (concat boxes) = ainit_size i /\ lens boxes = ainit_size i /\ all_ok boxes.
Proof. exact init_size. Qed.
Print Assumptions C02_init.

(* both FragEncModes and progressive files; afile_quiet: neither the file nor a segment asks for optimisation *)
Theorem C02_file : forall f f' boxes,
  afile_encode f = (f', Ok boxes) -> afile_wf f = true ->
  lenN (concat boxes) = afile_size f' /\ lens boxes = afile_size f' /\ all_ok boxes /\
  (afile_quiet f = true -> afile_size f = afile_size f') /\ afile_wf f' = true.
Proof. exact file_size. Qed.
Print Assumptions C02_file.

(* ---- the reader's view: following the size fields from the first byte of the output (`scan`: a size field below 8
        or beyond the end is a failure) recovers exactly the boxes written - no gap, no overlap, nothing left over *)
Theorem C02_scan : forall boxes, all_ok boxes -> scan (length boxes) (concat boxes) = Some boxes.
Proof. exact scan_all_ok. Qed.
Print Assumptions C02_scan.

Theorem C02_fragment_scan : forall fr fr' boxes, afrag_encode fr = (fr', Ok boxes) -> afrag_wf fr = true ->
  scan (length boxes) (concat boxes) = Some boxes.
Proof. exact fragment_scan. Qed.
Print Assumptions C02_fragment_scan.

Theorem C02_segment_scan : forall s s' boxes, aseg_encode s = (s', Ok boxes) -> aseg_wf s = true ->
  scan (length boxes) (concat boxes) = Some boxes.
Proof. exact segment_scan. Qed.
Print Assumptions C02_segment_scan.

Theorem C02_file_scan : forall f f' boxes, afile_encode f = (f', Ok boxes) -> afile_wf f = true ->
  scan (length boxes) (concat boxes) = Some boxes.
Proof. exact file_scan. Qed.
Print Assumptions C02_file_scan.

(* and one level down: behind the 8 header bytes of a written moof / traf, the size fields recover its children *)
Theorem C02_container_scan : forall ty b kids,
  lenN ty = 4 -> tiled_container ty b kids -> scan (length kids) (skipn 8 b) = Some kids.
Proof. exact container_scan. Qed.
Print Assumptions C02_container_scan.

(* ---- the two state changes of Encode reach a fixed point *)
Theorem C02_optimize_idem : forall tf tr tf' tr',
  optimize tf tr = Ok (tf', tr') -> optimize tf' tr' = Ok (tf', tr').
Proof. exact optimize_idem. Qed.
Print Assumptions C02_optimize_idem.

Theorem C02_optimize_moof_idem : forall m m', optimize_moof m = Ok m' -> optimize_moof m' = Ok m'.
Proof. exact optimize_moof_idem. Qed.
Print Assumptions C02_optimize_moof_idem.

Theorem C02_offsets_idem : forall m md m' md', aset_offsets m md = (m', md') -> aset_offsets m' md' = (m', md').
Proof. exact aset_offsets_idem. Qed.
Print Assumptions C02_offsets_idem.

(* ---- Encode does not change any field Size() depends on, other than the listed ones (whatever the outcome):
        data offsets and mdat.LargeSize always; with optimisation also the flags / first-sample-flags of the first
        trun and the flags / defaults of the tfhd of the first traf.  Versions, sample lists, track ids, tfdt, mfhd
        and every opaque box are never touched. *)
Theorem C02_encode_pure : forall fr fr' r, afrag_encode fr = (fr', r) -> frag_fr fr fr'.
Proof. exact afrag_encode_pure. Qed.
Print Assumptions C02_encode_pure.

Theorem C02_encode_pure_noopt : forall fr fr' r, afrag_encode fr = (fr', r) -> af_opt fr = false -> frag_dv fr fr'.
Proof. exact afrag_encode_pure_noopt. Qed.
Print Assumptions C02_encode_pure_noopt.

(* what is kept determines Size(): without optimisation every Size() is unchanged by any operation *)
Theorem C02_pure_size : forall fr fr', frag_dv fr fr' -> afrag_size fr' = afrag_size fr.
Proof. exact frag_dv_size. Qed.
Print Assumptions C02_pure_size.

Theorem C02_step_pure : forall fr o fr' out, afrag_step fr o = (fr', out) -> frag_fr fr fr'.
Proof. exact afrag_step_pure. Qed.
Print Assumptions C02_step_pure.

(* the same one and two levels up: a MediaSegment.Encode additionally overwrites the fragments' EncOptimize, a
   File.Encode the segments'; in box-tree mode / progressive files only mdat.LargeSize changes *)
Theorem C02_encode_pure_segment : forall s s' r, aseg_encode s = (s', r) -> seg_fr s s'.
Proof. exact aseg_encode_pure. Qed.
Print Assumptions C02_encode_pure_segment.

Theorem C02_encode_pure_file : forall f f' r, afile_encode f = (f', r) -> file_fr f f'.
Proof. exact afile_encode_pure. Qed.
Print Assumptions C02_encode_pure_file.

(* ---- encoding twice, with Size / Info in between: after a successful Encode or EncodeSW the structure is
        `settled`: Encode and EncodeSW write the same bytes again, Size() is the number of bytes written, and no
        operation changes the structure any more *)
Theorem C02_encode_twice_fragment : forall fr fr' boxes o,
  (o = OpEncode \/ o = OpEncodeSW) -> afrag_step fr o = (fr', OutBytes boxes) -> afrag_wf fr = true ->
  settled afrag_step fr' boxes (lenN (concat boxes)).
Proof. exact fragment_settles. Qed.
Print Assumptions C02_encode_twice_fragment.

Theorem C02_encode_twice_segment : forall s s' boxes o,
  (o = OpEncode \/ o = OpEncodeSW) -> aseg_step s o = (s', OutBytes boxes) -> aseg_wf s = true ->
  settled aseg_step s' boxes (lenN (concat boxes)).
Proof. exact segment_settles. Qed.
Print Assumptions C02_encode_twice_segment.

Theorem C02_encode_twice_init : forall i i' boxes o,
  (o = OpEncode \/ o = OpEncodeSW) -> ainit_step i o = (i', OutBytes boxes) -> obs_wf i = true ->
  i' = i /\ settled ainit_step i boxes (lenN (concat boxes)).
Proof. exact init_settles. Qed.
Print Assumptions C02_encode_twice_init.

Theorem C02_encode_twice_file : forall f f' boxes o,
  (o = OpEncode \/ o = OpEncodeSW) -> afile_step f o = (f', OutBytes boxes) -> afile_wf f = true ->
  settled afile_step f' boxes (lenN (concat boxes)).
Proof. exact file_settles. Qed.
Print Assumptions C02_encode_twice_file.

(* ---- arbitrary histories of [Size | Info | Encode | EncodeSW]: whatever came before (ops1, no panic), once an
        Encode / EncodeSW succeeds at a well-formed state the rest of the history (ops2, any length, any
        interleaving) is determined: the same bytes, Size() = their number, the state frozen *)
Theorem C02_history_fragment : forall fr ops1 o ops2 fr1 fr2 boxes,
  snd (run_hist afrag_step fr ops1) = fr1 -> ~ In OutPanic (fst (run_hist afrag_step fr ops1)) ->
  (o = OpEncode \/ o = OpEncodeSW) -> afrag_step fr1 o = (fr2, OutBytes boxes) -> afrag_wf fr1 = true ->
  run_hist afrag_step fr (ops1 ++ o :: ops2) =
    (fst (run_hist afrag_step fr ops1) ++ OutBytes boxes :: map (expected boxes (lenN (concat boxes))) ops2, fr2).
Proof. exact (history_after_encode afrag_step afrag_wf fragment_settles). Qed.
Print Assumptions C02_history_fragment.

Theorem C02_history_segment : forall s ops1 o ops2 s1 s2 boxes,
  snd (run_hist aseg_step s ops1) = s1 -> ~ In OutPanic (fst (run_hist aseg_step s ops1)) ->
  (o = OpEncode \/ o = OpEncodeSW) -> aseg_step s1 o = (s2, OutBytes boxes) -> aseg_wf s1 = true ->
  run_hist aseg_step s (ops1 ++ o :: ops2) =
    (fst (run_hist aseg_step s ops1) ++ OutBytes boxes :: map (expected boxes (lenN (concat boxes))) ops2, s2).
Proof. exact (history_after_encode aseg_step aseg_wf segment_settles). Qed.
Print Assumptions C02_history_segment.

Theorem C02_history_file : forall f ops1 o ops2 f1 f2 boxes,
  snd (run_hist afile_step f ops1) = f1 -> ~ In OutPanic (fst (run_hist afile_step f ops1)) ->
  (o = OpEncode \/ o = OpEncodeSW) -> afile_step f1 o = (f2, OutBytes boxes) -> afile_wf f1 = true ->
  run_hist afile_step f (ops1 ++ o :: ops2) =
    (fst (run_hist afile_step f ops1) ++ OutBytes boxes :: map (expected boxes (lenN (concat boxes))) ops2, f2).
Proof. exact (history_after_encode afile_step afile_wf file_settles). Qed.
Print Assumptions C02_history_file.

(* well-formedness before the history is enough: every operation keeps it *)
Theorem C02_history_wf : forall ops fr, afrag_wf fr = true -> afrag_wf (snd (run_hist afrag_step fr ops)) = true.
Proof. exact run_hist_frag_wf. Qed.
Print Assumptions C02_history_wf.

Theorem C02_history_wf_segment : forall ops s, aseg_wf (snd (run_hist aseg_step s ops)) = aseg_wf s.
Proof. exact (run_hist_wf aseg_step aseg_wf aseg_step_wf). Qed.
Print Assumptions C02_history_wf_segment.

Theorem C02_history_wf_file : forall ops f, afile_wf (snd (run_hist afile_step f ops)) = afile_wf f.
Proof. exact (run_hist_wf afile_step afile_wf afile_step_wf). Qed.
Print Assumptions C02_history_wf_file.

(* ---- the fragments of the C05 model (children tfhd, tfdt, truns, no other boxes) sit inside this model with
        the same Size() and the same truns *)
Theorem C02_c05_moof_size : forall seq fr,
  fr_moofx fr = 0 -> Forall (fun t => tf_extra t = 0 /\ td_version (tf_dt t) <= 1) (fr_trafs fr) ->
  amoof_size (of_c05_moof seq fr) = moof_size fr.
Proof. exact of_c05_moof_size. Qed.
Print Assumptions C02_c05_moof_size.

(* SetTrunDataOffsets: with pairwise different write order numbers (what the Add* operations make) this model's
   position-keyed, stably sorted table gives exactly the data offsets of C05FragModel.set_offsets: C05's theorems
   about the offsets (C05_offsets, C05_roundtrip ...) speak about the fragments this model encodes *)
Theorem C02_c05_set_offsets : forall seq fr,
  fr_moofx fr = 0 -> Forall (fun t => tf_extra t = 0 /\ td_version (tf_dt t) <= 1) (fr_trafs fr) ->
  NoDup (map tr_won (all_truns (fr_trafs fr))) ->
  aset_offsets (of_c05_moof seq fr) (fr_mdat fr) = (of_c05_moof seq (set_offsets fr), fr_mdat (set_offsets fr)).
Proof. exact aset_offsets_c05. Qed.
Print Assumptions C02_c05_set_offsets.

(* ---- and C12's model of File.Encode in segment mode (which boxes, in which order) lists, for the structure
        reached after Encode, exactly the boxes written here: same number, same order, Size() = bytes written *)
Theorem C02_c12_order : forall f f' boxes,
  afile_seg_mode f = true -> afile_encode f = (f', Ok boxes) -> afile_wf f = true ->
  exists tbs, C12Model.encode_file (abs_file f') = Ok tbs /\ sizes tbs = blens boxes.
Proof. exact file_c12. Qed.
Print Assumptions C02_c12_order.

(* ---- SencBox, the box whose Encode / EncodeSW / Info set a flag that Size() depends on (opaque in the model above).
        The flag setting is idempotent; every box built by CreateSencBox + AddSample (any history, refused samples
        included, IVs below 256 bytes, fewer than 2^32 samples) is built_ok, hence senc_ok; a senc_ok box is left
        alone by Info, Encode and EncodeSW, which both write the same Size() bytes with a correct size field (or both
        fail because Size() >= 2^32): it is a well-formed, stateless opaque box of the aggregate theorems. *)
Theorem C02_senc_flag_idem : forall s, senc_setflag (senc_setflag s) = senc_setflag s.
Proof. exact senc_setflag_idem. Qed.
Print Assumptions C02_senc_flag_idem.

Theorem C02_senc_built : forall l s,
  built_ok s = true -> Forall (fun p => lenN (fst p) < 256) l -> sn_count s + lenN l < 4294967296 ->
  built_ok (senc_adds senc_add s l) = true.
Proof. exact senc_adds_built. Qed.
Print Assumptions C02_senc_built.

Theorem C02_senc_built_ok : forall s, built_ok s = true -> senc_ok s = true.
Proof. exact built_ok_senc_ok. Qed.
Print Assumptions C02_senc_built_ok.

Theorem C02_senc : forall s, senc_ok s = true ->
  exists n, senc_size s = Ok n /\
    ((TWO32 <=? n) = true /\ snd (senc_encode_w s) = Err /\ snd (senc_encode_sw s) = Err
     \/ exists b, senc_encode_w s = (s, Ok b) /\ senc_encode_sw s = (s, Ok b) /\ lenN b = n /\ box_ok b = true) /\
    senc_info s = Ok s.
Proof. exact senc_ok_encode. Qed.
Print Assumptions C02_senc.

Theorem C02_senc_obox : forall s, senc_ok s = true -> ob_err (senc_obox s) = false -> ob_wf (senc_obox s) = true.
Proof. exact senc_ok_obox. Qed.
Print Assumptions C02_senc_obox.

(* the AddSample text before ecf1460 / 0b086ee: Size() panics, resp. Size() = 32 and Encode panics (C02-F12, C02-F13) *)
Theorem C02_senc_pinned_size_refuted : exists l, senc_size (senc_adds senc_add_pinned senc_create l) = Panic.
Proof. exact senc_pinned_size_refuted. Qed.
Print Assumptions C02_senc_pinned_size_refuted.

Theorem C02_senc_pinned_encode_refuted : exists l n,
  senc_size (senc_adds senc_add_pinned senc_create l) = Ok n /\
  snd (senc_encode_w (senc_adds senc_add_pinned senc_create l)) = Panic.
Proof. exact senc_pinned_encode_refuted. Qed.
Print Assumptions C02_senc_pinned_encode_refuted.

(* without the guard senc_ok (flag not consistent with the sub-samples: only by writing the fields directly) Encode
   changes Size(): 16 before, 24 after *)
Theorem C02_senc_flag_refuted : exists s n n',
  senc_size s = Ok n /\ senc_size (fst (senc_encode_w s)) = Ok n' /\ n <> n'.
Proof. exact senc_flag_refuted. Qed.
Print Assumptions C02_senc_flag_refuted.

(* ---- EncodeSW into a bits.FixedSliceWriter of a given capacity (C02AggCapModel: the remaining room is threaded
        through the boxes; a box that does not fit is an error).  cap_independent: a success with ANY capacity is the
        success of Encode (same state, same boxes), wrote exactly Size() bytes (Size() taken afterwards) and left
        capacity - Size() room; and EVERY capacity >= Size(), the exact one included, gives the same state and boxes.
        False for an encoder that writes more than Size() (C02_encode_sw_capacity_refuted). *)
Theorem C02_encode_sw_capacity_independent : forall fr, afrag_wf fr = true ->
  forall room fr' boxes rest, afrag_encode_sw room fr = (fr', Ok (boxes, rest)) ->
    afrag_encode fr = (fr', Ok boxes) /\ lens boxes = afrag_size fr' /\ room = rest + afrag_size fr' /\
    forall room2, afrag_size fr' <= room2 -> afrag_encode_sw room2 fr = (fr', Ok (boxes, room2 - afrag_size fr')).
Proof. exact fragment_capacity. Qed.
Print Assumptions C02_encode_sw_capacity_independent.

Theorem C02_encode_sw_capacity_segment : forall s, aseg_wf s = true ->
  cap_independent aseg_size aseg_encode aseg_encode_sw s.
Proof. exact segment_capacity. Qed.
Print Assumptions C02_encode_sw_capacity_segment.

Theorem C02_encode_sw_capacity_init : forall i, obs_wf i = true ->
  cap_independent ainit_size (fun i => (i, ainit_encode i)) (fun room i => (i, ainit_encode_sw room i)) i.
Proof. exact init_capacity. Qed.
Print Assumptions C02_encode_sw_capacity_init.

Theorem C02_encode_sw_capacity_file : forall f, afile_wf f = true ->
  cap_independent afile_size afile_encode afile_encode_sw f.
Proof. exact file_capacity. Qed.
Print Assumptions C02_encode_sw_capacity_file.

(* and when Encode succeeds, EncodeSW into Size() bytes or more succeeds with the same outcome *)
Theorem C02_encode_sw_capacity_complete : forall f f' boxes room,
  afile_encode f = (f', Ok boxes) -> afile_wf f = true -> afile_size f' <= room ->
  afile_encode_sw room f = (f', Ok (boxes, room - afile_size f')).
Proof. exact file_capacity_complete. Qed.
Print Assumptions C02_encode_sw_capacity_complete.

Theorem C02_encode_sw_capacity_refuted :
  ob_wf ob_over = false /\ ainit_size [ob_over] = 12 /\
  ainit_encode_sw 12 [ob_over] = Err /\
  exists boxes rest, ainit_encode_sw (12 + 64) [ob_over] = Ok (boxes, rest) /\ lens boxes = 16 /\ rest = 60.
Proof. exact capacity_refuted. Qed.
Print Assumptions C02_encode_sw_capacity_refuted.

(* ---- SencBox as the decoders leave it.  `decoded hsize hlen payload s`: DecodeSenc / DecodeSencSR accept the box
        (header size field hsize, header length hlen, payload) and leave s.  Such a box - parsed or not, also with
        sample_count 0 and bytes after it since 954ff09 - writes exactly Size() bytes with a correct size field on
        both paths and is not changed by Encode / EncodeSW / Info. *)
Theorem C02_senc_decoded : forall hsize hlen payload s, decoded hsize hlen payload s ->
  senc_size s = Ok (sn_read s) /\
  ((TWO32 <=? sn_read s) = true /\ snd (senc_encode_w s) = Err /\ snd (senc_encode_sw s) = Err
   \/ fst (senc_encode_w s) = s /\ fst (senc_encode_sw s) = s /\
      senc_written (snd (senc_encode_w s)) (sn_read s) /\ snd (senc_encode_sw s) = snd (senc_encode_w s)) /\
  senc_info s = Ok s.
Proof. exact senc_decoded_exact. Qed.
Print Assumptions C02_senc_decoded.

(* findings C02-K1 / K2 / K4 (the encoder before 954ff09): Size() 20, 16 bytes written *)
Theorem C02_senc_zero_pinned_refuted : exists hsize hlen payload s b,
  decoded hsize hlen payload s /\ senc_size s = Ok 20 /\
  (do p <- senc_all_gen false s; Ok (snd p)) = Ok b /\ lenN b = 16.
Proof. exact senc_zero_pinned_refuted. Qed.
Print Assumptions C02_senc_zero_pinned_refuted.

(* after the second decoding phase (ParseReadBox with any perSampleIVSize byte, success): Size() is still the
   remembered size, the encoders write calcSize() bytes - never more - under a size field that says Size(); the two
   agree EXACTLY when senc_parse_exact: the sub-sample flag is set (that path refuses left-over bytes) or the IVs
   fill the data *)
Theorem C02_senc_parsed : forall hsize hlen payload s piv0 s',
  decoded hsize hlen payload s -> piv0 < 256 -> senc_parse s piv0 = (s', Ok tt) -> 16 + lenN (sn_raw s') < TWO32 ->
  exists b, senc_encode_w s' = (s', Ok b) /\ senc_encode_sw s' = (s', Ok b) /\
    senc_size s' = Ok (16 + lenN (sn_raw s')) /\ firstn 4 b = be32 (16 + lenN (sn_raw s')) /\
    lenN b <= 16 + lenN (sn_raw s') /\
    (lenN b = 16 + lenN (sn_raw s') <-> senc_parse_exact s' = true).
Proof. exact senc_parsed_exact. Qed.
Print Assumptions C02_senc_parsed.

(* since repo commit 4cf4f8b (ParseReadBox refuses left-over bytes also without sub-samples) the guard always holds:
   every box the two decoding phases accept writes exactly Size() bytes under a size field that says so *)
Theorem C02_senc_parsed_exact : forall hsize hlen payload s piv0 s',
  decoded hsize hlen payload s -> piv0 < 256 -> senc_parse s piv0 = (s', Ok tt) -> 16 + lenN (sn_raw s') < TWO32 ->
  senc_parse_exact s' = true /\
  exists b, senc_encode_w s' = (s', Ok b) /\ senc_encode_sw s' = (s', Ok b) /\
    senc_size s' = Ok (lenN b) /\ firstn 4 b = be32 (lenN b).
Proof. exact senc_parsed_always_exact. Qed.
Print Assumptions C02_senc_parsed_exact.

(* finding C02-K5 (the text before 4cf4f8b, senc_parse_pinned): Size() 33 and 32 bytes written; now refused *)
Theorem C02_senc_parse_trailing_refuted : exists hsize hlen payload s s' b,
  decoded hsize hlen payload s /\ senc_parse_pinned s 0 = (s', Ok tt) /\ senc_parse_exact s' = false /\
  senc_size s' = Ok 33 /\ senc_encode_w s' = (s', Ok b) /\ lenN b = 32 /\ snd (senc_parse s 0) = Err.
Proof. exact senc_parse_trailing_refuted. Qed.
Print Assumptions C02_senc_parse_trailing_refuted.

(* ---- progressive (non-fragmented) files and box-tree mode: one box per child, in order; the state afterwards
        differs in mdat.LargeSize only (moov and its stco / co64 are written as they are); every box has the length
        Size() reports afterwards; the file position at which each mdat payload begins, computed from Size() /
        HeaderSize(), is where it begins in the output; a file whose mdat boxes are settled is not changed at all *)
Theorem C02_file_progressive : forall f f' boxes,
  afile_seg_mode f = false -> afile_encode f = (f', Ok boxes) -> afile_wf f = true ->
  f' = afile_with f (fl_segs f) (map fc_touch (fl_children f)) /\
  Forall2 child_box (fl_children f') boxes /\
  map (fun b => lenN b) boxes = map fc_size (fl_children f') /\
  out_payload_starts 0 (fl_children f') boxes = payload_starts 0 (fl_children f') /\
  (Forall (fun c => fc_touch c = c) (fl_children f) -> f' = f /\ payload_starts 0 (fl_children f') = payload_starts 0 (fl_children f)).
Proof. exact file_progressive. Qed.
Print Assumptions C02_file_progressive.

(* ---- the hypotheses are satisfiable by non-trivial values *)
(* three samples, 8-byte IVs, sub-samples on the second one only: built_ok, 16 + 3*8 + 3*2 + 6 = 52 bytes *)
Example C02_ex_senc :
  let s := senc_adds senc_add senc_create
             [([1; 2; 3; 4; 5; 6; 7; 8], []); ([1; 2; 3; 4; 5; 6; 7; 9], [(10, 1000)]); ([1; 2; 3; 4; 5; 6; 7; 10], [])] in
  built_ok s = true /\ senc_size s = Ok 52 /\ exists b, senc_encode_w s = (s, Ok b) /\ lenN b = 52.
Proof. cbv zeta. split; [reflexivity|]. split; [reflexivity|]. eexists. split; [vm_compute; reflexivity|reflexivity]. Qed.

(* a fragment with an emsg-like box, a traf with an extra box, two samples: optimisation shrinks it from 147 to
   135 bytes at encode time; the bytes written are the 135 *)
Example C02_ex_fragment :
  afrag_wf (ex_frag true) = true /\ afrag_size (ex_frag true) = 147 /\
  exists fr' boxes, afrag_encode (ex_frag true) = (fr', Ok boxes) /\ afrag_size fr' = 135 /\ lens boxes = 135.
Proof. split; [reflexivity|]. split; [reflexivity|]. eexists; eexists. split; [vm_compute; reflexivity|]. split; reflexivity. Qed.

Example C02_ex_segment :
  aseg_wf ex_seg = true /\ aseg_size ex_seg = 320 /\
  exists s' boxes, aseg_encode ex_seg = (s', Ok boxes) /\ aseg_size s' = 296 /\ lens boxes = 296.
Proof. split; [reflexivity|]. split; [reflexivity|]. eexists; eexists. split; [vm_compute; reflexivity|]. split; reflexivity. Qed.

Example C02_ex_file :
  afile_wf ex_file = true /\ exists f' boxes, afile_encode ex_file = (f', Ok boxes) /\ afile_size f' = 313 /\ lens boxes = 313.
Proof. split; [reflexivity|]. eexists; eexists. split; [vm_compute; reflexivity|]. split; reflexivity. Qed.

Example C02_ex_file_tree :
  afile_wf ex_file_tree = true /\ afile_quiet ex_file_tree = true /\
  exists f' boxes, afile_encode ex_file_tree = (f', Ok boxes) /\ afile_size f' = afile_size ex_file_tree.
Proof. split; [reflexivity|]. split; [reflexivity|]. eexists; eexists. split; [vm_compute; reflexivity|]. reflexivity. Qed.

(* a history: Size, Encode (succeeds), then anything *)
Example C02_ex_history :
  exists b, fst (run_hist afrag_step (ex_frag true) [OpSize; OpEncode; OpSize; OpInfo; OpEncodeSW; OpEncode; OpSize]) =
            [OutSize 147; OutBytes b; OutSize 135; OutInfo; OutBytes b; OutBytes b; OutSize 135].
Proof. eexists. vm_compute. reflexivity. Qed.

(* a decoded senc with two samples, 8-byte IVs and sub-samples, parsed without knowing the IV size *)
Example C02_ex_senc_parsed : exists s s',
  decoded 48 8 ([0; 0; 0; 2; 0; 0; 0; 2] ++ [1;2;3;4;5;6;7;8; 0;1; 0;5; 0;0;0;9] ++ [1;2;3;4;5;6;7;9; 0;1; 0;7; 0;0;1;0]) s /\
  senc_parse s 0 = (s', Ok tt) /\ senc_parse_exact s' = true /\ sn_ivsize s' = 8 /\ senc_size s' = Ok 48 /\
  exists b, senc_encode_w s' = (s', Ok b) /\ lenN b = 48.
Proof. exact senc_parsed_example. Qed.

(* ftyp, moov, mdat: the payload begins at 8 + 16 + 8 *)
Example C02_ex_progressive : afile_wf ex_prog = true /\ afile_seg_mode ex_prog = false /\
  exists boxes, afile_encode ex_prog = (ex_prog, Ok boxes) /\ payload_starts 0 (fl_children ex_prog) = [32] /\
    out_payload_starts 0 (fl_children ex_prog) boxes = [32].
Proof. exact ex_prog_ok. Qed.

(* a fragment encoded into a writer of exactly Size() bytes, and of 64 more *)
Example C02_ex_capacity :
  exists fr' boxes, afrag_encode_sw 135 (ex_frag true) = (fr', Ok (boxes, 0)) /\
                    afrag_encode_sw (135 + 64) (ex_frag true) = (fr', Ok (boxes, 64)).
Proof. eexists; eexists. split; vm_compute; reflexivity. Qed.

(* ---- the hypotheses of the theorems above are evaluated on the real structures of every run: the predicates the extracted
        model computes on each correspondence case (C02AggWfModel.v, a file without proofs; the counts are in the evidence:
        coverage.aggregate_correspondence.theorem_hypotheses_evaluated) ARE afrag_wf / aseg_wf / obs_wf / afile_wf / senc_ok *)
Theorem C02_wf_evaluated :
  (forall fr, x_afrag_wf fr = afrag_wf fr) /\ (forall s, x_aseg_wf s = aseg_wf s) /\ (forall i, x_obs_wf i = obs_wf i) /\
  (forall f, x_afile_wf f = afile_wf f) /\ (forall s, x_senc_ok s = senc_ok s).
Proof. exact x_wf_eq. Qed.
Print Assumptions C02_wf_evaluated.
