(* C02AggC12Proofs.v — the link to C12's model of File.Encode in segment mode (coq/c12/C12Model.v, read-only):
   abstracting every box of the aggregate model to C12's `topbox` (kind, Size()), the boxes this model writes
   are, in number, order and length, the boxes C12.encode_file lists for the structure reached after Encode. *)
From V.lib Require Import Base.
From V.c05 Require Import C05Model C05FragModel C05CodecModel.
From V.c12 Require C12Model.
From V.c02 Require Import C02AggModel C02AggSizeProofs C02AggOptProofs C02AggFragProofs C02AggFileProofs.

Definition bytes_eqb (a b : list N) : bool :=
  (length a =? length b)%nat && forallb (fun p => fst p =? snd p) (combine a b).

Definition kind_of_type (ty : list N) : C12Model.kind :=
  if bytes_eqb ty [102; 116; 121; 112] then C12Model.KFtyp
  else if bytes_eqb ty [115; 116; 121; 112] then C12Model.KStyp
  else if bytes_eqb ty [109; 111; 111; 118] then C12Model.KMoov
  else if bytes_eqb ty [115; 105; 100; 120] then C12Model.KSidx
  else if bytes_eqb ty [101; 109; 115; 103] then C12Model.KEmsg
  else if bytes_eqb ty [109; 102; 114; 97] then C12Model.KMfra
  else C12Model.KOther.

Definition tb (k : C12Model.kind) (sz : N) : C12Model.topbox :=
  C12Model.mkBox k 0 sz 0 0 [] false [] false [] [] 0 0 0 0.

Definition abs_obox (o : obox) : C12Model.topbox := tb (kind_of_type (ob_type o)) (ob_size o).
Definition abs_moof (m : amoof) : C12Model.topbox := tb C12Model.KMoof (amoof_size m).
Definition abs_mdat (m : mdat) : C12Model.topbox := tb C12Model.KMdat (md_size m).

Definition abs_frag (fr : afrag) : C12Model.fragment :=
  C12Model.mkFrag 0
    (map abs_obox (af_pre fr) ++ C12Model.opt_list (option_map abs_moof (af_moof fr)) ++ map abs_obox (af_mid fr)
     ++ C12Model.opt_list (option_map abs_mdat (af_mdat fr)) ++ map abs_obox (af_post fr))
    (option_map abs_moof (af_moof fr)) (option_map abs_mdat (af_mdat fr)).

Definition abs_seg (s : aseg) : C12Model.segment :=
  C12Model.mkSeg (option_map abs_obox (sg_styp s)) 0
    (map (fun o => C12Model.mkSidx (abs_obox o) 0) (sg_sidxs s)) (map abs_frag (sg_frags s)).

Definition abs_file (f : afile) : C12Model.file :=
  C12Model.mkFile None None None (option_map (map abs_obox) (fl_init f))
    (map (fun o => C12Model.mkSidx (abs_obox o) 0) (fl_sidxs f)) None (option_map abs_obox (fl_mfra f))
    (map abs_seg (fl_segs f)) [] (fl_fragmented f) false.

Definition sizes (l : list C12Model.topbox) : list N := map C12Model.b_size l.
Definition blens (l : list (list N)) : list N := map (fun b => lenN b) l.

Lemma sizes_app a b : sizes (a ++ b) = sizes a ++ sizes b.
Proof. apply map_app. Qed.
Lemma blens_app a b : blens (a ++ b) = blens a ++ blens b.
Proof. apply map_app. Qed.

Lemma sizes_oboxes l bs : enc_list enc_obox l = Ok bs -> obs_wf l = true -> sizes (map abs_obox l) = blens bs.
Proof.
  intros H W. destruct (enc_list_ok enc_obox ob_size ob_wf enc_obox_ok l bs H W) as [L _].
  unfold sizes, blens. rewrite map_map. cbn [abs_obox tb C12Model.b_size]. symmetry. exact L.
Qed.

Lemma sidx_sizes l : sizes (map C12Model.sx_box (map (fun o => C12Model.mkSidx (abs_obox o) 0) l)) = sizes (map abs_obox l).
Proof. rewrite map_map. reflexivity. Qed.

(* ------------------------------------------------------------------ one fragment *)
Lemma frag_c12 fr fr' boxes : afrag_encode fr = (fr', Ok boxes) -> afrag_wf fr = true ->
  exists tbs, C12Model.encode_fragment (abs_frag fr') = Ok tbs /\ sizes tbs = blens boxes.
Proof.
  intros H W. destruct (afrag_encode_inv fr fr' boxes H) as [m m1 md m2 md2 b1 b2 b3 b4 b5 Em Eo Ed Es E1 E2 E3 E4 E5 -> ->].
  destruct (afrag_wf_parts fr W) as (W1 & W2 & W3 & W4 & W5). rewrite Em in W2. rewrite Ed in W4. cbn [oall] in W2, W4.
  assert (Wm1 : amoof_wf m1 = true).
  { destruct (af_opt fr); [rewrite (optimize_moof_wf m m1 Eo); exact W2|injection Eo as <-; exact W2]. }
  destruct (aset_offsets_dv m1 md m2 md2 Es) as [D Hmd].
  assert (Wm2 : amoof_wf m2 = true) by (rewrite (moof_dv_wf m1 m2 D); exact Wm1).
  destruct (md_wf_after md md2 Hmd W4) as [Wd2 Sd2].
  destruct (amoof_enc_ok m2 b2 E2 Wm2) as [L2 _]. destruct (amd_enc_ok md2 _ b4 E4 Wd2) as (_ & L4 & _).
  unfold abs_frag, C12Model.encode_fragment. cbn [af_set af_pre af_moof af_mid af_mdat af_post option_map C12Model.fr_moof C12Model.fr_mdat C12Model.fr_children].
  eexists. split; [reflexivity|].
  rewrite !sizes_app, !blens_app. rewrite (sizes_oboxes _ _ E1 W1), (sizes_oboxes _ _ E3 W3), (sizes_oboxes _ _ E5 W5).
  cbn [C12Model.opt_list sizes blens map abs_moof abs_mdat tb C12Model.b_size]. rewrite L2, L4, md_size_touch_eq. reflexivity.
Qed.

(* ------------------------------------------------------------------ loops *)
Lemma seq_c12 {A B} (enc : A -> A * res (list (list N))) (wf : A -> bool) (absx : A -> B)
  (cenc : B -> res (list C12Model.topbox)) (cencs : list B -> res (list C12Model.topbox)) :
  (cencs [] = Ok []) ->
  (forall b t, cencs (b :: t) = (do a <- cenc b; do r <- cencs t; Ok (a ++ r))) ->
  (forall a a' bs, enc a = (a', Ok bs) -> wf a = true -> exists tbs, cenc (absx a') = Ok tbs /\ sizes tbs = blens bs) ->
  forall l l' bs, enc_seq enc l = (l', Ok bs) -> forallb wf l = true ->
  exists tbs, cencs (map absx l') = Ok tbs /\ sizes tbs = blens bs.
Proof.
  intros Hnil Hcons Hone. induction l as [|a rest IH]; intros l' bs H W.
  - injection H as <- <-. exists []. split; [exact Hnil|reflexivity].
  - destruct (enc_seq_cons_inv _ enc a rest l' bs H) as (a' & b & rest' & b2 & Ea & Er & -> & ->).
    cbn [forallb] in W. apply andb_true_iff in W. destruct W as [Wa Wr].
    destruct (Hone a a' b Ea Wa) as (t1 & C1 & S1). destruct (IH rest' b2 Er Wr) as (t2 & C2 & S2).
    exists (t1 ++ t2). cbn [map]. rewrite Hcons, C1, C2. cbn [rbind]. split; [reflexivity|].
    rewrite sizes_app, blens_app, S1, S2. reflexivity.
Qed.

Lemma seg_c12 s s' boxes : aseg_encode s = (s', Ok boxes) -> aseg_wf s = true ->
  exists tbs, C12Model.encode_segment (abs_seg s') = Ok tbs /\ sizes tbs = blens boxes.
Proof.
  intros H W. destruct (aseg_encode_inv s s' boxes H) as (b1 & fs' & b2 & E1 & E2 & -> & ->).
  destruct (aseg_wf_parts s W) as [W1 W2].
  destruct (seq_c12 (fun f => afrag_encode (af_set_opt f (sg_opt s))) afrag_wf abs_frag C12Model.encode_fragment
              C12Model.encode_fragments eq_refl (fun _ _ => eq_refl)
              (fun a a' bs Ha Wa => frag_c12 _ a' bs Ha Wa) _ _ _ E2 W2) as (t2 & C2 & S2).
  unfold C12Model.encode_segment, abs_seg. cbn [aseg_with_frags sg_styp sg_sidxs sg_frags C12Model.sg_frags C12Model.sg_styp C12Model.sg_sidxs].
  rewrite C2. cbn [rbind]. eexists. split; [reflexivity|].
  assert (Hh : sizes (map abs_obox (opt_list (sg_styp s) ++ sg_sidxs s)) = blens b1) by (apply sizes_oboxes; assumption).
  rewrite map_app, sizes_app in Hh.
  assert (Ha : sizes (C12Model.opt_list (option_map abs_obox (sg_styp s))) = sizes (map abs_obox (opt_list (sg_styp s))))
    by (destruct (sg_styp s); reflexivity).
  rewrite !sizes_app, blens_app, S2, Ha, sidx_sizes, <- Hh, app_assoc. reflexivity.
Qed.

Lemma aseg_set_opt_abs s o : aseg_wf (aseg_set_opt s o) = aseg_wf s.
Proof. reflexivity. Qed.

(* ------------------------------------------------------------------ the file in segment mode *)
Theorem file_c12 f f' boxes :
  afile_seg_mode f = true -> afile_encode f = (f', Ok boxes) -> afile_wf f = true ->
  exists tbs, C12Model.encode_file (abs_file f') = Ok tbs /\ sizes tbs = blens boxes.
Proof.
  intros M H W. destruct (afile_wf_parts f W) as (W1 & W2 & W3 & W4).
  destruct (afile_encode_inv f f' boxes H) as [b1 ss' b2 b3 _ E1 E2 E3 -> -> | cs' M' _ _ _]; [|congruence].
  destruct (seq_c12 (fun s => aseg_encode (if fl_opt f then aseg_set_opt s true else s)) aseg_wf abs_seg C12Model.encode_segment
              C12Model.encode_segments eq_refl (fun _ _ => eq_refl)
              (fun a a' bs Ha Wa => seg_c12 _ a' bs Ha (eq_trans (match fl_opt f as b return aseg_wf (if b then aseg_set_opt a true else a) = aseg_wf a with true => eq_refl | false => eq_refl end) Wa))
              _ _ _ E2 W2) as (t2 & C2 & S2).
  assert (Fr : fl_fragmented f = true) by (unfold afile_seg_mode in M; apply andb_true_iff in M; tauto).
  unfold C12Model.encode_file, C12Model.encode_segment_mode, abs_file.
  cbn [afile_with fl_fragmented fl_init fl_sidxs fl_segs fl_mfra C12Model.f_fragmented C12Model.f_init C12Model.f_sidxs C12Model.f_segs C12Model.f_mfra].
  rewrite Fr, C2.
  assert (Hh : sizes (map abs_obox (init_list f ++ fl_sidxs f)) = blens b1) by (apply sizes_oboxes; assumption).
  assert (Hm : sizes (map abs_obox (opt_list (fl_mfra f))) = blens b3) by (apply sizes_oboxes; assumption).
  unfold init_list in Hh.
  rewrite map_app, sizes_app in Hh.
  assert (Hb : sizes (C12Model.opt_list (option_map abs_obox (fl_mfra f))) = sizes (map abs_obox (opt_list (fl_mfra f))))
    by (destruct (fl_mfra f); reflexivity).
  destruct (fl_init f) as [i|]; cbn [option_map C12Model.encode_init rbind]; eexists; (split; [reflexivity|]);
    rewrite !sizes_app, !blens_app, S2, sidx_sizes, Hb, Hm, <- Hh, <- !app_assoc; reflexivity.
Qed.
