(* C02AggPureProofs.v — what Size / Info / Encode / EncodeSW may change in a fragment, whatever their outcome:
   data offsets and mdat.LargeSize; with trun optimisation also the flags and first-sample-flags of truns and the
   flags and defaults of tfhds.  Nothing else: versions, sample lists, write order, track ids, base data offsets,
   tfdt, mfhd, the mdat payload and every opaque box stay as they are (`frag_fr`).  Without optimisation only data
   offsets and LargeSize change (`frag_dv`), hence no Size() changes. *)
From V.lib Require Import Base.
From V.c05 Require Import C05Model C05FragModel C05CodecModel C05OptProofs.
From V.c02 Require Import C02AggModel C02AggSizeProofs C02AggOptProofs C02AggFragProofs.

Definition tfhd_fr (h h' : tfhd) : Prop :=
  tf_track h' = tf_track h /\ tf_bdo h' = tf_bdo h /\ tf_sdi h' = tf_sdi h /\
  tf_has_bdo h' = tf_has_bdo h /\ tf_has_sdi h' = tf_has_sdi h.
Definition trun_fr (r r' : trun) : Prop :=
  tr_version r' = tr_version r /\ tr_samples r' = tr_samples r /\ tr_won r' = tr_won r /\ has_doff r' = has_doff r.
Definition tc_fr (c c' : tchild) : Prop :=
  match c, c' with
  | TcTfhd h, TcTfhd h' => tfhd_fr h h'
  | TcTrun r, TcTrun r' => trun_fr r r'
  | _, _ => c' = c
  end.
Definition traf_fr (t t' : atraf) : Prop := Forall2 tc_fr t t'.
Definition mc_fr (c c' : mchild) : Prop :=
  match c, c' with McTraf t, McTraf t' => traf_fr t t' | _, _ => c' = c end.
Definition moof_fr (m m' : amoof) : Prop := Forall2 mc_fr m m'.
Definition md_fr (m m' : mdat) : Prop := m' = m \/ m' = md_size_touch m.
Definition orel {A} (R : A -> A -> Prop) (o o' : option A) : Prop :=
  match o, o' with Some a, Some b => R a b | None, None => True | _, _ => False end.

Definition frag_rel (R : amoof -> amoof -> Prop) (fr fr' : afrag) : Prop :=
  af_pre fr' = af_pre fr /\ af_mid fr' = af_mid fr /\ af_post fr' = af_post fr /\ af_opt fr' = af_opt fr /\
  orel R (af_moof fr) (af_moof fr') /\ orel md_fr (af_mdat fr) (af_mdat fr').
Definition frag_fr := frag_rel moof_fr.
Definition frag_dv := frag_rel moof_dv.

(* ------------------------------------------------------------------ order properties *)
Lemma Forall2_refl {A} (R : A -> A -> Prop) : (forall a, R a a) -> forall l, Forall2 R l l.
Proof. intros H l. induction l; constructor; auto. Qed.

Lemma Forall2_trans {A} (R : A -> A -> Prop) : (forall a b c, R a b -> R b c -> R a c) ->
  forall l1 l2 l3, Forall2 R l1 l2 -> Forall2 R l2 l3 -> Forall2 R l1 l3.
Proof.
  intros H l1 l2 l3 H1. revert l3. induction H1 as [|a b t1 t2 Hab _ IH]; intros l3 H2; inversion H2; subst; constructor; eauto.
Qed.

Lemma tfhd_fr_refl h : tfhd_fr h h. Proof. repeat split. Qed.
Lemma trun_fr_refl r : trun_fr r r. Proof. repeat split. Qed.
Lemma tfhd_fr_trans a b c : tfhd_fr a b -> tfhd_fr b c -> tfhd_fr a c.
Proof. intros (A1 & A2 & A3 & A4 & A5) (B1 & B2 & B3 & B4 & B5). repeat split; congruence. Qed.
Lemma trun_fr_trans a b c : trun_fr a b -> trun_fr b c -> trun_fr a c.
Proof. intros (A1 & A2 & A3 & A4) (B1 & B2 & B3 & B4). repeat split; congruence. Qed.

Lemma tc_fr_refl c : tc_fr c c.
Proof. destruct c; cbn [tc_fr]; try reflexivity; [apply tfhd_fr_refl|apply trun_fr_refl]. Qed.
Lemma tc_fr_trans a b c : tc_fr a b -> tc_fr b c -> tc_fr a c.
Proof.
  destruct a, b; cbn [tc_fr]; intros H1; try discriminate H1; try (injection H1 as H1; subst);
    destruct c; cbn [tc_fr]; intros H2; try discriminate H2; try (injection H2 as H2; subst); try reflexivity.
  - eapply tfhd_fr_trans; eassumption.
  - eapply trun_fr_trans; eassumption.
Qed.
Lemma traf_fr_refl t : traf_fr t t. Proof. apply Forall2_refl, tc_fr_refl. Qed.
Lemma traf_fr_trans a b c : traf_fr a b -> traf_fr b c -> traf_fr a c.
Proof. apply Forall2_trans, tc_fr_trans. Qed.
Lemma mc_fr_refl c : mc_fr c c.
Proof. destruct c; cbn [mc_fr]; try reflexivity. apply traf_fr_refl. Qed.
Lemma mc_fr_trans a b c : mc_fr a b -> mc_fr b c -> mc_fr a c.
Proof.
  destruct a, b; cbn [mc_fr]; intros H1; try discriminate H1; try (injection H1 as H1; subst);
    destruct c; cbn [mc_fr]; intros H2; try discriminate H2; try (injection H2 as H2; subst); try reflexivity.
  eapply traf_fr_trans; eassumption.
Qed.
Lemma moof_fr_refl m : moof_fr m m. Proof. apply Forall2_refl, mc_fr_refl. Qed.
Lemma moof_fr_trans a b c : moof_fr a b -> moof_fr b c -> moof_fr a c.
Proof. apply Forall2_trans, mc_fr_trans. Qed.

(* a change of data offsets is within the frame *)
Lemma dv_fr r r' : dv r r' -> trun_fr r r'.
Proof. intros ->. repeat split. Qed.
Lemma traf_dv_fr t t' : traf_dv t t' -> traf_fr t t'.
Proof.
  induction 1 as [|c c' l l' H _ IH]; constructor; [|exact IH].
  destruct c, c'; cbn [tc_dv] in H; cbn [tc_fr]; try discriminate H; try exact H.
  - injection H as ->. apply tfhd_fr_refl.
  - apply dv_fr. exact H.
Qed.
Lemma moof_dv_fr m m' : moof_dv m m' -> moof_fr m m'.
Proof.
  induction 1 as [|c c' l l' H _ IH]; constructor; [|exact IH].
  destruct c, c'; cbn [mc_dv] in H; cbn [mc_fr]; try discriminate H; try exact H. apply traf_dv_fr. exact H.
Qed.

(* ------------------------------------------------------------------ OptimizeTfhdTrun stays within the frame *)
Lemma tf_set_fr h : forall v, tfhd_fr h (tf_set_ddur h v) /\ tfhd_fr h (tf_set_dsize h v) /\ tfhd_fr h (tf_set_dflags h v).
Proof. intros v. repeat split; bits; reflexivity. Qed.

Lemma opt_dur_tf tf tr : tfhd_fr tf (fst (opt_dur tf tr)).
Proof.
  rewrite opt_dur_alt. destruct (tr_samples tr); [apply tfhd_fr_refl|]. destruct (has_dur tr && _); [|apply tfhd_fr_refl].
  apply tf_set_fr.
Qed.
Lemma opt_size_tf tf tr : tfhd_fr tf (fst (C05Model.opt_size tf tr)).
Proof.
  rewrite opt_size_alt. destruct (tr_samples tr); [apply tfhd_fr_refl|]. destruct (has_size tr && _); [|apply tfhd_fr_refl].
  apply tf_set_fr.
Qed.
Lemma opt_flags_tf tf tr : tfhd_fr tf (fst (opt_flags_gen true tf tr)).
Proof.
  unfold opt_flags_gen. destruct (tr_samples tr) as [|s0 [|s1 l]]; try apply tfhd_fr_refl.
  destruct (has_sflags tr && _); [|apply tfhd_fr_refl]. apply tf_set_fr.
Qed.
Lemma opt_cto_tf tf tr : fst (opt_cto tf tr) = tf.
Proof. unfold opt_cto. destruct (_ && _ && _); reflexivity. Qed.

Lemma step_trun_fr bit r r' : step_ok bit r r' -> trun_fr r r'.
Proof. intros S. repeat split; [apply (so_version _ _ _ S)|apply (so_samples _ _ _ S)|apply (so_won _ _ _ S)|apply (so_hdoff _ _ _ S)]. Qed.

Lemma optimize_fr tf tr tf' tr' : optimize tf tr = Ok (tf', tr') -> tfhd_fr tf tf' /\ trun_fr tr tr'.
Proof.
  unfold optimize, FIXED_FSF, optimize_gen. destruct (tr_samples tr) as [|s0 [|s1 l]]; [discriminate| |].
  - intros [= <- <-]. split; [apply tfhd_fr_refl|apply trun_fr_refl].
  - pose proof (opt_dur_step tf tr) as S1. pose proof (opt_dur_tf tf tr) as T1.
    destruct (opt_dur tf tr) as [tf1 tr1]. cbn [fst snd] in *.
    pose proof (opt_size_step tf1 tr1) as S2. pose proof (opt_size_tf tf1 tr1) as T2.
    destruct (C05Model.opt_size tf1 tr1) as [tf2 tr2]. cbn [fst snd] in *.
    pose proof (opt_flags_step tf2 tr2) as S3. pose proof (opt_flags_tf tf2 tr2) as T3.
    destruct (opt_flags_gen true tf2 tr2) as [tf3 tr3]. cbn [fst snd] in *.
    pose proof (opt_cto_step tf3 tr3) as S4. pose proof (opt_cto_tf tf3 tr3) as T4.
    intros [= H]. rewrite H in S4, T4. cbn [fst snd] in *. subst tf'. split.
    + eapply tfhd_fr_trans; [|exact T3]. eapply tfhd_fr_trans; [exact T1|exact T2].
    + eapply trun_fr_trans; [|exact (step_trun_fr _ _ _ S4)]. eapply trun_fr_trans; [|exact (step_trun_fr _ _ _ S3)].
      eapply trun_fr_trans; [exact (step_trun_fr _ _ _ S1)|exact (step_trun_fr _ _ _ S2)].
Qed.

Lemma upd_first_trun_fr r' t : forall r rs, atraf_truns t = r :: rs -> trun_fr r r' -> traf_fr t (upd_first_trun r' t).
Proof.
  induction t as [|c rest IH]; intros r rs E F; [discriminate|].
  destruct c as [h|d|r0|o]; unfold atraf_truns in E; cbn [flat_map tc_truns app] in E; cbn [upd_first_trun].
  - constructor; [apply tc_fr_refl|eapply IH; eassumption].
  - constructor; [apply tc_fr_refl|eapply IH; eassumption].
  - injection E as -> _. constructor; [exact F|apply traf_fr_refl].
  - constructor; [apply tc_fr_refl|eapply IH; eassumption].
Qed.

Lemma upd_last_tfhd_fr h' t : forall h, last_tfhd t = Some h -> tfhd_fr h h' -> traf_fr t (upd_last_tfhd h' t).
Proof.
  induction t as [|c rest IH]; intros h E F; [discriminate|].
  destruct c as [h0|d|r0|o]; cbn [last_tfhd] in E; cbn [upd_last_tfhd].
  - destruct (last_tfhd rest) as [x|] eqn:L.
    + constructor; [apply tc_fr_refl|eapply IH; eassumption].
    + injection E as ->. constructor; [exact F|apply traf_fr_refl].
  - constructor; [apply tc_fr_refl|eapply IH; eassumption].
  - constructor; [apply tc_fr_refl|eapply IH; eassumption].
  - constructor; [apply tc_fr_refl|eapply IH; eassumption].
Qed.

Lemma optimize_traf_fr t t' : optimize_traf t = Ok t' -> traf_fr t t'.
Proof.
  unfold optimize_traf. destruct (atraf_truns t) as [|r rs] eqn:E; [intros [= <-]; apply traf_fr_refl|].
  destruct (last_tfhd t) as [h|] eqn:L.
  - destruct (optimize h r) as [[h' r']| | |] eqn:O; try discriminate. cbn [rbind fst snd]. intros [= <-].
    destruct (optimize_fr h r h' r' O) as [Fh Fr].
    eapply traf_fr_trans; [eapply upd_first_trun_fr; eassumption|].
    eapply upd_last_tfhd_fr; [rewrite last_tfhd_upd_first_trun; exact L|exact Fh].
  - destruct (optimize NIL_TFHD r) as [[h' r']| | |] eqn:O; try discriminate. cbn [rbind fst snd].
    destruct (tf_flags h' =? 0); [|discriminate]. intros [= <-].
    destruct (optimize_fr _ r h' r' O) as [_ Fr]. eapply upd_first_trun_fr; eassumption.
Qed.

Lemma optimize_moof_fr m : forall m', optimize_moof m = Ok m' -> moof_fr m m'.
Proof.
  induction m as [|c rest IH]; intros m' H.
  - injection H as <-. constructor.
  - destruct c as [s|t|o]; cbn [optimize_moof] in H.
    + destruct (optimize_moof rest) as [r| | |]; try discriminate. cbn [rbind] in H. injection H as <-.
      constructor; [reflexivity|apply IH; reflexivity].
    + destruct (optimize_traf t) as [t'| | |] eqn:O; try discriminate. cbn [rbind] in H. injection H as <-.
      constructor; [apply optimize_traf_fr; exact O|apply moof_fr_refl].
    + destruct (optimize_moof rest) as [r| | |]; try discriminate. cbn [rbind] in H. injection H as <-.
      constructor; [reflexivity|apply IH; reflexivity].
Qed.

(* ------------------------------------------------------------------ the states Encode can leave behind *)
Definition enc_states (fr fr' : afrag) : Prop :=
  fr' = fr \/
  exists m m1, af_moof fr = Some m /\ (if af_opt fr then optimize_moof m else Ok m) = Ok m1 /\
    ((af_mdat fr = None /\ fr' = af_set fr (Some m1) None) \/
     exists md m2 md2, af_mdat fr = Some md /\ aset_offsets m1 md = (m2, md2) /\
       (fr' = af_set fr (Some m2) (Some md2) \/ fr' = af_set fr (Some m2) (Some (md_size_touch md2)))).

Lemma enc_states_intro fr m m1 md m2 md2 fr' :
  af_moof fr = Some m -> (if af_opt fr then optimize_moof m else Ok m) = Ok m1 -> af_mdat fr = Some md ->
  aset_offsets m1 md = (m2, md2) ->
  (fr' = af_set fr (Some m2) (Some md2) \/ fr' = af_set fr (Some m2) (Some (md_size_touch md2))) -> enc_states fr fr'.
Proof.
  intros Em Eo Ed Es H. right. exists m, m1. split; [exact Em|]. split; [exact Eo|]. right. exists md, m2, md2.
  split; [exact Ed|]. split; [exact Es|exact H].
Qed.

Lemma afrag_encode_states fr fr' r : afrag_encode fr = (fr', r) -> enc_states fr fr'.
Proof.
  unfold afrag_encode. destruct (af_moof fr) as [m|] eqn:Em; [|intros [= <- _]; left; reflexivity].
  destruct (if af_opt fr then optimize_moof m else Ok m) as [m1| | |] eqn:Eo; try (intros [= <- _]; left; reflexivity).
  destruct (af_mdat fr) as [md|] eqn:Ed.
  2:{ intros [= <- _]. right. exists m, m1. split; [exact Em|]. split; [exact Eo|]. left. split; [exact Ed|reflexivity]. }
  destruct (aset_offsets m1 md) as [m2 md2] eqn:Es.
  pose proof (enc_states_intro fr m m1 md m2 md2) as A.
  destruct (enc_list enc_obox (af_pre fr)); try (intros [= <- _]; apply A; auto).
  destruct (amoof_enc m2); try (intros [= <- _]; apply A; auto).
  destruct (enc_list enc_obox (af_mid fr)); try (intros [= <- _]; apply A; auto).
  destruct (amd_enc md2) as [md3 r4] eqn:E4.
  assert (Hmd3 : md3 = md_size_touch md2) by (rewrite <- (amd_enc_fst md2), E4; reflexivity). subst md3.
  destruct r4; try (intros [= <- _]; apply A; auto).
  destruct (enc_list enc_obox (af_post fr)); intros [= <- _]; apply A; auto.
Qed.

Lemma md_fr_after md md2 : md_fr md md2 -> md_fr md (md_size_touch md2).
Proof. intros [->| ->]; right; [reflexivity|apply md_touch_idem]. Qed.

Lemma afrag_encode_rel (R : amoof -> amoof -> Prop) fr fr' r :
  (forall m, R m m) -> (forall a b c, R a b -> R b c -> R a c) -> (forall a b, moof_dv a b -> R a b) ->
  (forall m m1, af_moof fr = Some m -> (if af_opt fr then optimize_moof m else Ok m) = Ok m1 -> R m m1) ->
  afrag_encode fr = (fr', r) -> frag_rel R fr fr'.
Proof.
  intros Rrefl Rtrans Rdv Ropt H.
  assert (Hrefl : frag_rel R fr fr).
  { unfold frag_rel. repeat split; [destruct (af_moof fr); cbn [orel]; auto|destruct (af_mdat fr); cbn [orel]; [left; reflexivity|exact I]]. }
  destruct (afrag_encode_states fr fr' r H) as [->|(m & m1 & Em & Eo & [[Ed ->]|(md & m2 & md2 & Ed & Es & Hs)])]; [exact Hrefl| |].
  - unfold frag_rel. cbn [af_set af_pre af_mid af_post af_opt af_moof af_mdat]. rewrite Em, Ed. cbn [orel].
    repeat split. eapply Ropt; eassumption.
  - destruct (aset_offsets_dv m1 md m2 md2 Es) as [D Hmd].
    assert (Rm : R m m2) by (eapply Rtrans; [eapply Ropt; eassumption|apply Rdv; exact D]).
    destruct Hs as [-> | ->]; unfold frag_rel; cbn [af_set af_pre af_mid af_post af_opt af_moof af_mdat]; rewrite Em, Ed; cbn [orel];
      repeat split; try exact Rm; [exact Hmd|apply md_fr_after; exact Hmd].
Qed.

Lemma afrag_encode_pure fr fr' r : afrag_encode fr = (fr', r) -> frag_fr fr fr'.
Proof.
  apply afrag_encode_rel; [apply moof_fr_refl|apply moof_fr_trans|apply moof_dv_fr|].
  intros m m1 _ E. destruct (af_opt fr); [apply optimize_moof_fr; exact E|injection E as <-; apply moof_fr_refl].
Qed.

Lemma moof_dv_trans a b c : moof_dv a b -> moof_dv b c -> moof_dv a c.
Proof.
  apply Forall2_trans. intros x y z. destruct x, y; cbn [mc_dv]; intros H1; try discriminate H1; try (injection H1 as H1; subst);
    destruct z; cbn [mc_dv]; intros H2; try discriminate H2; try (injection H2 as H2; subst); try reflexivity.
  revert H1 H2. apply Forall2_trans. intros p q s. destruct p, q; cbn [tc_dv]; intros H1; try discriminate H1; try (injection H1 as H1; subst);
    destruct s; cbn [tc_dv]; intros H2; try discriminate H2; try (injection H2 as H2; subst); try reflexivity.
  unfold dv in *. rewrite H2, H1. reflexivity.
Qed.

Lemma afrag_encode_pure_noopt fr fr' r : afrag_encode fr = (fr', r) -> af_opt fr = false -> frag_dv fr fr'.
Proof.
  intros H Ho. revert H. apply afrag_encode_rel; [apply moof_dv_refl|apply moof_dv_trans|auto|].
  intros m m1 _ E. rewrite Ho in E. injection E as <-. apply moof_dv_refl.
Qed.

Lemma md_fr_size m m' : md_fr m m' -> md_size m' = md_size m.
Proof. intros [->| ->]; [reflexivity|apply md_size_touch_eq]. Qed.

Lemma frag_dv_size fr fr' : frag_dv fr fr' -> afrag_size fr' = afrag_size fr.
Proof.
  intros (H1 & H2 & H3 & _ & Hm & Hd). unfold afrag_size. rewrite H1, H2, H3.
  destruct (af_moof fr), (af_moof fr'); cbn [orel] in Hm; try contradiction;
    destruct (af_mdat fr), (af_mdat fr'); cbn [orel] in Hd; try contradiction; cbn [osize];
    rewrite ?(moof_dv_size _ _ Hm), ?(md_fr_size _ _ Hd); reflexivity.
Qed.

Lemma afrag_touch_fr (R : amoof -> amoof -> Prop) fr : (forall m, R m m) -> frag_rel R fr (afrag_touch fr).
Proof.
  intros Rrefl. unfold frag_rel, afrag_touch. cbn [af_set af_pre af_mid af_post af_opt af_moof af_mdat]. repeat split.
  - destruct (af_moof fr); cbn [orel]; auto.
  - destruct (af_mdat fr); cbn [option_map orel]; [right; reflexivity|exact I].
Qed.

Lemma afrag_step_pure fr o fr' out : afrag_step fr o = (fr', out) -> frag_fr fr fr'.
Proof.
  destruct o; cbn [afrag_step].
  - intros [= <- _]. apply afrag_touch_fr, moof_fr_refl.
  - intros [= <- _]. apply afrag_touch_fr, moof_fr_refl.
  - destruct (afrag_encode fr) as [f r] eqn:E. intros [= <- _]. eapply afrag_encode_pure. exact E.
  - destruct (afrag_encode fr) as [f r] eqn:E. intros [= <- _]. eapply afrag_encode_pure. exact E.
Qed.

(* ------------------------------------------------------------------ well-formedness is an invariant *)
Lemma traf_fr_wf t t' : traf_fr t t' -> atraf_wf t' = atraf_wf t.
Proof.
  induction 1 as [|c c' l l' H _ IH]; [reflexivity|]. cbn [atraf_wf forallb]. fold (atraf_wf l'). fold (atraf_wf l). rewrite IH. f_equal.
  destruct c, c'; cbn [tc_fr] in H; try discriminate H; try (injection H as H; subst); reflexivity.
Qed.

Lemma moof_fr_wf m m' : moof_fr m m' -> amoof_wf m' = amoof_wf m.
Proof.
  induction 1 as [|c c' l l' H _ IH]; [reflexivity|]. cbn [amoof_wf forallb]. fold (amoof_wf l'). fold (amoof_wf l). rewrite IH. f_equal.
  destruct c, c'; cbn [mc_fr] in H; try discriminate H; try (injection H as H; subst); try reflexivity.
  cbn [mc_wf]. apply traf_fr_wf. exact H.
Qed.

Lemma frag_fr_wf fr fr' : frag_fr fr fr' -> afrag_wf fr' = afrag_wf fr.
Proof.
  intros (H1 & H2 & H3 & _ & Hm & Hd). unfold afrag_wf. rewrite H1, H2, H3.
  destruct (af_moof fr), (af_moof fr'); cbn [orel] in Hm; try contradiction;
    destruct (af_mdat fr), (af_mdat fr'); cbn [orel] in Hd; try contradiction; cbn [oall];
    rewrite ?(moof_fr_wf _ _ Hm); try reflexivity;
    destruct Hd as [->| ->]; rewrite ?md_wf_touch; reflexivity.
Qed.

Lemma run_hist_frag_wf ops : forall fr, afrag_wf fr = true -> afrag_wf (snd (run_hist afrag_step fr ops)) = true.
Proof.
  induction ops as [|o rest IH]; intros fr W; [exact W|]. cbn [run_hist].
  destruct (afrag_step fr o) as [fr' out] eqn:E.
  assert (W' : afrag_wf fr' = true) by (rewrite (frag_fr_wf fr fr' (afrag_step_pure fr o fr' out E)); exact W).
  destruct out; try (specialize (IH fr' W'); destruct (run_hist afrag_step fr' rest); exact IH). exact W'.
Qed.

(* ------------------------------------------------------------------ the same for segments and files *)
From V.c02 Require Import C02AggFileProofs.

Lemma enc_seq_wf {A} (enc : A -> A * res (list (list N))) (wf : A -> bool) :
  (forall a a' r, enc a = (a', r) -> wf a' = wf a) ->
  forall l l' r, enc_seq enc l = (l', r) -> forallb wf l' = forallb wf l.
Proof.
  intros H. induction l as [|a rest IH]; intros l' r E.
  - injection E as <- _. reflexivity.
  - cbn [enc_seq] in E. destruct (enc a) as [a' ra] eqn:Ea. pose proof (H a a' ra Ea) as Wa.
    destruct ra as [b| | |].
    + destruct (enc_seq enc rest) as [rest' r2] eqn:Er. injection E as <- _. cbn [forallb]. rewrite Wa, (IH rest' r2 eq_refl). reflexivity.
    + injection E as <- _. cbn [forallb]. rewrite Wa. reflexivity.
    + injection E as <- _. cbn [forallb]. rewrite Wa. reflexivity.
    + injection E as <- _. cbn [forallb]. rewrite Wa. reflexivity.
Qed.

Lemma afrag_encode_wf fr fr' r : afrag_encode fr = (fr', r) -> afrag_wf fr' = afrag_wf fr.
Proof. intros H. apply frag_fr_wf. eapply afrag_encode_pure. exact H. Qed.

Lemma aseg_encode_wf s s' r : aseg_encode s = (s', r) -> aseg_wf s' = aseg_wf s.
Proof.
  unfold aseg_encode. destruct (enc_list enc_obox _); try (intros [= <- _]; reflexivity).
  destruct (enc_frags (sg_opt s) (sg_frags s)) as [fs' r2] eqn:E. intros [= <- _].
  unfold aseg_wf. cbn [aseg_with_frags sg_styp sg_sidxs sg_frags]. f_equal.
  unfold enc_frags in E. apply (enc_seq_wf _ afrag_wf) in E; [exact E|].
  intros x x' rx Hx. rewrite (afrag_encode_wf _ _ _ Hx). reflexivity.
Qed.

Lemma aseg_step_wf s o s' out : aseg_step s o = (s', out) -> aseg_wf s' = aseg_wf s.
Proof.
  destruct o; cbn [aseg_step].
  - intros [= <- _]. apply aseg_touch_wf.
  - intros [= <- _]. apply aseg_touch_wf.
  - destruct (aseg_encode s) as [x r] eqn:E. intros [= <- _]. eapply aseg_encode_wf. exact E.
  - destruct (aseg_encode s) as [x r] eqn:E. intros [= <- _]. eapply aseg_encode_wf. exact E.
Qed.

Lemma fc_encode_wf c c' r : fc_encode c = (c', r) -> fc_wf c' = fc_wf c.
Proof.
  destruct c as [m|md|o]; cbn [fc_encode].
  - intros [= <- _]. reflexivity.
  - destruct (amd_enc md) as [md' r'] eqn:E. intros [= <- _].
    assert (Hm : md' = md_size_touch md) by (rewrite <- (amd_enc_fst md), E; reflexivity). subst md'.
    cbn [fc_wf]. apply md_wf_touch.
  - intros [= <- _]. reflexivity.
Qed.

Lemma map_touch_wf {A} (touch : A -> A) (wf : A -> bool) : (forall a, wf (touch a) = wf a) ->
  forall l, forallb wf (map touch l) = forallb wf l.
Proof. intros H l. induction l as [|a t IH]; [reflexivity|]. cbn [map forallb]. rewrite H, IH. reflexivity. Qed.

Lemma fc_touch_wf c : fc_wf (fc_touch c) = fc_wf c.
Proof. destruct c; cbn [fc_touch fc_wf]; try reflexivity. apply md_wf_touch. Qed.

Lemma afile_encode_wf f f' r : afile_encode f = (f', r) -> afile_wf f' = afile_wf f.
Proof.
  unfold afile_encode. destruct (fl_fragmented f && negb (fl_mode f =? 0) && negb (fl_mode f =? 1)); [intros [= <- _]; reflexivity|].
  destruct (afile_seg_mode f).
  - destruct (enc_list enc_obox _); try (intros [= <- _]; reflexivity).
    destruct (enc_segs (fl_opt f) (fl_segs f)) as [ss' r2] eqn:E.
    assert (W : forallb aseg_wf ss' = forallb aseg_wf (fl_segs f)).
    { unfold enc_segs in E. apply (enc_seq_wf _ aseg_wf) in E; [exact E|].
      intros x x' rx Hx. rewrite (aseg_encode_wf _ _ _ Hx). destruct (fl_opt f); reflexivity. }
    assert (G : afile_wf (afile_with f ss' (fl_children f)) = afile_wf f) by (rewrite afile_wf_with, W; reflexivity).
    destruct r2; try (intros [= <- _]; exact G).
    destruct (enc_list enc_obox (opt_list (fl_mfra f))); intros [= <- _]; exact G.
  - destruct (enc_children (fl_children f)) as [cs' r2] eqn:E. intros [= <- _].
    unfold enc_children in E. apply (enc_seq_wf _ fc_wf fc_encode_wf) in E. rewrite afile_wf_with, E. reflexivity.
Qed.

Lemma afile_step_wf f o f' out : afile_step f o = (f', out) -> afile_wf f' = afile_wf f.
Proof.
  destruct o; cbn [afile_step].
  - intros [= <- _]. unfold afile_touch. destruct (afile_seg_mode f); rewrite afile_wf_with;
      rewrite ?(map_touch_wf aseg_touch aseg_wf aseg_touch_wf), ?(map_touch_wf fc_touch fc_wf fc_touch_wf); reflexivity.
  - intros [= <- _]. unfold afile_info. destruct (afile_seg_mode f); [destruct (fl_shared f); [|reflexivity]|]; rewrite afile_wf_with;
      rewrite ?(map_touch_wf aseg_touch aseg_wf aseg_touch_wf), ?(map_touch_wf fc_touch fc_wf fc_touch_wf); reflexivity.
  - destruct (afile_encode f) as [x r] eqn:E. intros [= <- _]. eapply afile_encode_wf. exact E.
  - destruct (afile_encode f) as [x r] eqn:E. intros [= <- _]. eapply afile_encode_wf. exact E.
Qed.

(* any history keeps well-formedness *)
Lemma run_hist_wf {S} (step : S -> aop -> S * aout) (wf : S -> bool) :
  (forall s o s' out, step s o = (s', out) -> wf s' = wf s) ->
  forall ops s, wf (snd (run_hist step s ops)) = wf s.
Proof.
  intros H. induction ops as [|o rest IH]; intros s; [reflexivity|]. cbn [run_hist].
  destruct (step s o) as [s' out] eqn:E. pose proof (H s o s' out E) as W.
  destruct out; try (specialize (IH s'); destruct (run_hist step s' rest); cbn [snd] in *; congruence).
Qed.

(* ------------------------------------------------------------------ purity for segments and files *)
(* a fragment inside a segment: as frag_fr, and EncOptimize may have been overwritten by the segment's *)
Definition frag_fr_o (f f' : afrag) : Prop := frag_fr (af_set_opt f (af_opt f')) f'.

Lemma frag_fr_refl f : frag_fr f f.
Proof.
  unfold frag_fr, frag_rel. repeat split; [destruct (af_moof f); cbn [orel]; [apply moof_fr_refl|exact I]|
                                           destruct (af_mdat f); cbn [orel]; [left; reflexivity|exact I]].
Qed.

Lemma frag_fr_o_refl f : frag_fr_o f f.
Proof. unfold frag_fr_o. rewrite af_set_opt_same. apply frag_fr_refl. Qed.

Lemma enc_seq_rel {A} (enc : A -> A * res (list (list N))) (R : A -> A -> Prop) :
  (forall a, R a a) -> (forall a a' r, enc a = (a', r) -> R a a') ->
  forall l l' r, enc_seq enc l = (l', r) -> Forall2 R l l'.
Proof.
  intros Hrefl H. induction l as [|a rest IH]; intros l' r E.
  - injection E as <- _. constructor.
  - cbn [enc_seq] in E. destruct (enc a) as [a' ra] eqn:Ea. pose proof (H a a' ra Ea) as Ra.
    destruct ra as [b| | |].
    + destruct (enc_seq enc rest) as [rest' r2] eqn:Er. injection E as <- _. constructor; [exact Ra|eapply IH; reflexivity].
    + injection E as <- _. constructor; [exact Ra|apply Forall2_refl; exact Hrefl].
    + injection E as <- _. constructor; [exact Ra|apply Forall2_refl; exact Hrefl].
    + injection E as <- _. constructor; [exact Ra|apply Forall2_refl; exact Hrefl].
Qed.

Definition seg_fr (s s' : aseg) : Prop :=
  sg_styp s' = sg_styp s /\ sg_sidxs s' = sg_sidxs s /\ sg_opt s' = sg_opt s /\ Forall2 frag_fr_o (sg_frags s) (sg_frags s').

Lemma seg_fr_refl s : seg_fr s s.
Proof. repeat split. apply Forall2_refl, frag_fr_o_refl. Qed.

Lemma aseg_encode_pure s s' r : aseg_encode s = (s', r) -> seg_fr s s'.
Proof.
  unfold aseg_encode. destruct (enc_list enc_obox _); try (intros [= <- _]; apply seg_fr_refl).
  destruct (enc_frags (sg_opt s) (sg_frags s)) as [fs' r2] eqn:E. intros [= <- _].
  unfold seg_fr. cbn [aseg_with_frags sg_styp sg_sidxs sg_frags sg_opt]. repeat split.
  unfold enc_frags in E. eapply enc_seq_rel; [apply frag_fr_o_refl| |exact E].
  intros x x' rx Hx. unfold frag_fr_o. pose proof (afrag_encode_pure _ _ _ Hx) as P.
  assert (Ho : af_opt x' = sg_opt s) by (destruct P as (_ & _ & _ & O & _); exact O).
  rewrite Ho. exact P.
Qed.

(* a segment inside a file: EncOptimize may have been set by the file's *)
Definition seg_fr_o (s s' : aseg) : Prop := seg_fr (aseg_set_opt s (sg_opt s')) s'.
Definition fc_fr (c c' : fchild) : Prop :=
  match c, c' with FcMdat m, FcMdat m' => md_fr m m' | _, _ => c' = c end.

Lemma seg_fr_o_refl s : seg_fr_o s s.
Proof. unfold seg_fr_o. destruct s; apply seg_fr_refl. Qed.
Lemma fc_fr_refl c : fc_fr c c.
Proof. destruct c; cbn [fc_fr]; try reflexivity. left; reflexivity. Qed.

Definition file_fr (f f' : afile) : Prop :=
  fl_fragmented f' = fl_fragmented f /\ fl_mode f' = fl_mode f /\ fl_opt f' = fl_opt f /\ fl_shared f' = fl_shared f /\
  fl_init f' = fl_init f /\ fl_sidxs f' = fl_sidxs f /\ fl_mfra f' = fl_mfra f /\
  Forall2 seg_fr_o (fl_segs f) (fl_segs f') /\ Forall2 fc_fr (fl_children f) (fl_children f').

Lemma file_fr_refl f : file_fr f f.
Proof. repeat split; [apply Forall2_refl, seg_fr_o_refl|apply Forall2_refl, fc_fr_refl]. Qed.

Lemma fc_encode_pure c c' r : fc_encode c = (c', r) -> fc_fr c c'.
Proof.
  destruct c as [m|md|o]; cbn [fc_encode].
  - intros [= <- _]. reflexivity.
  - destruct (amd_enc md) as [md' r'] eqn:E. intros [= <- _].
    assert (Hm : md' = md_size_touch md) by (rewrite <- (amd_enc_fst md), E; reflexivity). subst md'. right. reflexivity.
  - intros [= <- _]. reflexivity.
Qed.

Lemma afile_encode_pure f f' r : afile_encode f = (f', r) -> file_fr f f'.
Proof.
  unfold afile_encode. destruct (fl_fragmented f && negb (fl_mode f =? 0) && negb (fl_mode f =? 1)); [intros [= <- _]; apply file_fr_refl|].
  destruct (afile_seg_mode f).
  - destruct (enc_list enc_obox _); try (intros [= <- _]; apply file_fr_refl).
    destruct (enc_segs (fl_opt f) (fl_segs f)) as [ss' r2] eqn:E.
    assert (W : Forall2 seg_fr_o (fl_segs f) ss').
    { unfold enc_segs in E. eapply enc_seq_rel; [apply seg_fr_o_refl| |exact E].
      intros x x' rx Hx. unfold seg_fr_o. pose proof (aseg_encode_pure _ _ _ Hx) as P.
      assert (Ho : sg_opt x' = sg_opt (if fl_opt f then aseg_set_opt x true else x)) by (destruct P as (_ & _ & O & _); exact O).
      destruct (fl_opt f); cbn [aseg_set_opt sg_opt] in Ho; rewrite Ho; [exact P|].
      destruct x; exact P. }
    assert (G : file_fr f (afile_with f ss' (fl_children f))).
    { unfold file_fr. cbn [afile_with fl_fragmented fl_mode fl_opt fl_shared fl_init fl_sidxs fl_segs fl_mfra fl_children].
      repeat split; [exact W|apply Forall2_refl, fc_fr_refl]. }
    destruct r2; try (intros [= <- _]; exact G).
    destruct (enc_list enc_obox (opt_list (fl_mfra f))); intros [= <- _]; exact G.
  - destruct (enc_children (fl_children f)) as [cs' r2] eqn:E. intros [= <- _].
    unfold file_fr. cbn [afile_with fl_fragmented fl_mode fl_opt fl_shared fl_init fl_sidxs fl_segs fl_mfra fl_children].
    repeat split; [apply Forall2_refl, seg_fr_o_refl|].
    unfold enc_children in E. eapply enc_seq_rel; [apply fc_fr_refl|apply fc_encode_pure|exact E].
Qed.
