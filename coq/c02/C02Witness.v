(* C02Witness.v — concrete witnesses for the C02 refutations and the non-vacuity example. *)
From V.lib Require Import Base.
From V.c01 Require Import C01Codec C01Model C01Witness.
From V.c02 Require Import C02Proofs.

Definition t_tfdt_v2 : mbox := MLeaf (mkHdr n_tfdt 20 8) (LTfdt 2 0 5) [].
Lemma tfdt_v2_refuted : exists t enc, encode_w t = Ok enc /\ encode_sw t = Ok enc /\ lenN enc < size_box t.
Proof.
  exists t_tfdt_v2, (match encode_w t_tfdt_v2 with Ok e => e | _ => [] end). vm_compute. repeat split.
Qed.

Definition t_sidx_v2 : mbox := MLeaf (mkHdr n_sidx 40 8) (LSidx 2 0 1 1000 0 0 []) [[0;0]].
Lemma sidx_v2_refuted : exists t enc, encode_w t = Ok enc /\ lenN enc < size_box t.
Proof.
  exists t_sidx_v2, (match encode_w t_sidx_v2 with Ok e => e | _ => [] end). vm_compute. repeat split.
Qed.

Definition w_unknown_large : list N := enc_hdr_large [120;120;120;120] 20 ++ [1;2;3;4].
Lemma unknown_large_refuted : exists bs t enc,
  decode bs = Ok (t, []) /\ encode_w t = Ok enc /\ lenN enc < size_box t /\ hdr_size_field enc <> lenN enc.
Proof.
  exists w_unknown_large, (treeof w_unknown_large),
    (match encode_w (treeof w_unknown_large) with Ok e => e | _ => [] end).
  vm_compute. repeat split. discriminate.
Qed.

Definition ex_tree : mbox := ex_moof_tree.
Lemma ex_tree_ok : size_ok ex_tree = true /\ exists enc, raw_box false ex_tree = Ok enc /\ lenN enc = 120.
Proof. split; [vm_compute; reflexivity|]. exists ex_moof_bytes. vm_compute. split; reflexivity. Qed.

Lemma cont_sum h cs : size_box (MCont h cs) = 8 + sumN (map size_box cs).
Proof. reflexivity. Qed.
