(* C02Witness.v — concrete witnesses for the C02 refutations and the non-vacuity example. *)
From V.lib Require Import Base.
From V.c01 Require Import C01Codec C01Model C01Witness C01RealFiles C01RealWitness.
From V.c02 Require Import C02Proofs.

(* witnesses of the Size() defects repaired by repo commits c9514d3 (tfdt 4*Version), ede563a (sidx 8*Version)
   and 6d4574a (unknown box with a large-size header): before the repairs Encode succeeded with fewer bytes
   than Size(); now bytes written = Size() = size field *)
Definition t_tfdt_v2 : mbox := MLeaf (mkHdr n_tfdt 20 8) (LTfdt 2 0 5) [].
Lemma tfdt_v2_fixed : exists enc, encode_w t_tfdt_v2 = Ok enc /\ encode_sw t_tfdt_v2 = Ok enc /\
  lenN enc = size_box t_tfdt_v2 /\ hdr_size_field enc = lenN enc.
Proof. exists (match encode_w t_tfdt_v2 with Ok e => e | _ => [] end). vm_compute. repeat split. Qed.

Definition t_sidx_v2 : mbox := MLeaf (mkHdr n_sidx 40 8) (LSidx 2 0 1 1000 0 0 []) [[0;0]].
Lemma sidx_v2_fixed : exists enc, encode_w t_sidx_v2 = Ok enc /\ lenN enc = size_box t_sidx_v2 /\ hdr_size_field enc = lenN enc.
Proof. exists (match encode_w t_sidx_v2 with Ok e => e | _ => [] end). vm_compute. repeat split. Qed.

Definition w_unknown_large : list N := enc_hdr_large [120;120;120;120] 20 ++ [1;2;3;4].
Lemma unknown_large_fixed : exists t,
  decode w_unknown_large = Ok (t, []) /\ encode_w t = Ok w_unknown_large /\ lenN w_unknown_large = size_box t /\
  hdr_size_field w_unknown_large = size_box t.
Proof. exists (treeof w_unknown_large). vm_compute. repeat split. Qed.

(* finding C02-K3, repaired by repo commit 3502d85: Size() of hdlr assumed a 4-character HandlerType while EncodeSW
   writes the string as it is (reachable through the exported field only, not through the decoder); before the
   repair `lenN enc < size_box t_hdlr_bad` *)
Definition t_hdlr_bad : mbox := MLeaf (mkHdr n_hdlr 0 8) (LHdlr 0 0 0 [118;105] [] false) [zeros 12].
Lemma hdlr_fixed : exists enc, encode_w t_hdlr_bad = Ok enc /\ encode_sw t_hdlr_bad = Ok enc /\
  lenN enc = size_box t_hdlr_bad /\ hdr_size_field enc = lenN enc.
Proof. exists (match encode_w t_hdlr_bad with Ok e => e | _ => [] end). vm_compute. repeat split. Qed.

Definition ex_tree : mbox := ex_moof_tree.
Lemma ex_tree_ok : size_ok ex_tree = true /\ exists enc, raw_box false ex_tree = Ok enc /\ lenN enc = 120.
Proof. split; [vm_compute; reflexivity|]. exists ex_moof_bytes. vm_compute. split; reflexivity. Qed.

Lemma cont_sum h cs : size_box (MCont h cs) = 8 + sumN (map size_box cs).
Proof. reflexivity. Qed.

(* non-vacuity of C02_decoded_tree / C02_decoded_file: a moof{mfhd traf{tfhd tfdt trun}} followed by four more bytes (the
   decoder leaves them), an unknown box with a large-size header (exact; its Size() is the decoded header size) and a real
   media segment of /repo's testdata (styp sidx moof mdat) satisfy the hypotheses *)
Lemma ex_decoded_ok :
  bytes_ok (ex_moof_bytes ++ [0; 0; 0; 9]) = true /\ decode (ex_moof_bytes ++ [0; 0; 0; 9]) = Ok (ex_moof_tree, [0; 0; 0; 9]) /\
  exact_box ex_moof_tree = true /\
  bytes_ok w_unknown_large = true /\ decode w_unknown_large = Ok (treeof w_unknown_large, []) /\
  exact_box (treeof w_unknown_large) = true.
Proof. vm_compute. repeat split. Qed.
Lemma ex_decoded_file_ok :
  bytes_ok rf_media_seg = true /\ decode_file rf_media_seg = Ok (seq_of rf_media_seg) /\
  forallb exact_box (seq_of rf_media_seg) = true /\ map box_name (seq_of rf_media_seg) = [n_styp; n_sidx; n_moof; n_mdat].
Proof. vm_compute. repeat split. Qed.
