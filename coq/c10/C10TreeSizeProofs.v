(* C10TreeSizeProofs.v — the boxes mp4ff-crop encodes have, together, exactly the sizeWithoutMdat that updateChunkOffsets
   used to shift the chunk offsets: replacing the table leaves changes the size of the tree by the difference of the
   table-box sizes, nothing else changes size. *)
From V.lib Require Import Base.
From V.c01 Require Import C01Codec C01Model C01FileModel C01TreeProofs.
From V.c09 Require Import C09Model C09BaseProofs.
From V.c10 Require Import C10Model C10FileModel C10CropProofs C10FullProofs C10TreeModel C10TreeProofs.

(* ---------------------------------------------------------------- which optional tables a track has *)
Definition isS {A} (o : option A) : bool := match o with Some _ => true | None => false end.
Definition shape (tb : tables) : list bool :=
  [isS (t_ctts tb); isS (t_stco tb); isS (t_co64 tb); isS (t_stss tb); isS (t_sdtp tb)].

Lemma crop_tables_shape tb last offs tb' : crop_tables tb last offs = Ok tb' -> shape tb' = shape tb.
Proof.
  unfold crop_tables. intros H.
  destruct (crop_stts (t_stts_count tb) (t_stts_delta tb) last) as [st| | |]; try discriminate. cbn [rbind] in H.
  destruct (t_ctts tb) as [c|] eqn:Ec.
  - destruct (crop_ctts c last) as [c'| | |]; try discriminate. cbn [rbind] in H.
    destruct (crop_stsc (t_stsc tb) last) as [sc| | |]; try discriminate. cbn [rbind] in H.
    destruct (crop_stsz (t_stsz tb) last) as [sz| | |]; try discriminate. cbn [rbind] in H.
    destruct (t_stco tb) as [so|] eqn:Eso.
    + destruct (update_stco offs) as [l| | |]; try discriminate. cbn [rbind] in H. injection H as <-.
      unfold shape. cbn [t_ctts t_stco t_co64 t_stss t_sdtp]. rewrite Ec, Eso.
      destruct (t_co64 tb), (t_stss tb), (t_sdtp tb); reflexivity.
    + cbn [rbind] in H. injection H as <-. unfold shape. cbn [t_ctts t_stco t_co64 t_stss t_sdtp]. rewrite Ec, Eso.
      destruct (t_co64 tb), (t_stss tb), (t_sdtp tb); reflexivity.
  - cbn [rbind] in H.
    destruct (crop_stsc (t_stsc tb) last) as [sc| | |]; try discriminate. cbn [rbind] in H.
    destruct (crop_stsz (t_stsz tb) last) as [sz| | |]; try discriminate. cbn [rbind] in H.
    destruct (t_stco tb) as [so|] eqn:Eso.
    + destruct (update_stco offs) as [l| | |]; try discriminate. cbn [rbind] in H. injection H as <-.
      unfold shape. cbn [t_ctts t_stco t_co64 t_stss t_sdtp]. rewrite Ec, Eso.
      destruct (t_co64 tb), (t_stss tb), (t_sdtp tb); reflexivity.
    + cbn [rbind] in H. injection H as <-. unfold shape. cbn [t_ctts t_stco t_co64 t_stss t_sdtp]. rewrite Ec, Eso.
      destruct (t_co64 tb), (t_stss tb), (t_sdtp tb); reflexivity.
Qed.

Lemma shift_track_shape d tb tb' : shift_track d tb = Ok tb' -> shape tb' = shape tb.
Proof.
  unfold shift_track. intros H. destruct (t_stco tb) as [l|] eqn:Es.
  - destruct (shift_stco d l) as [l'| | |]; try discriminate. cbn [rbind] in H. injection H as <-.
    unfold shape, set_offsets. cbn [t_ctts t_stco t_co64 t_stss t_sdtp]. now rewrite Es.
  - destruct (t_co64 tb) as [l|] eqn:Ec; [|discriminate]. injection H as <-.
    unfold shape, set_offsets. cbn [t_ctts t_stco t_co64 t_stss t_sdtp]. now rewrite Es, Ec.
Qed.
Lemma shift_tracks_shape d : forall tbs tbs', shift_tracks d tbs = Ok tbs' -> map shape tbs' = map shape tbs.
Proof.
  induction tbs as [|tb t IH]; intros tbs' H; cbn [shift_tracks] in H; [injection H as <-; reflexivity|].
  destruct (shift_track d tb) as [tb'| | |] eqn:E; try discriminate. cbn [rbind] in H.
  destruct (shift_tracks d t) as [t'| | |] eqn:Et; try discriminate. cbn [rbind] in H. injection H as <-.
  cbn [map]. now rewrite (shift_track_shape _ _ _ E), (IH _ eq_refl).
Qed.

Lemma crop_all_shape : forall ts tbs, crop_all ts = Ok tbs -> map shape tbs = map shape (map ts_tb ts).
Proof.
  induction ts as [|t r IH]; intros tbs H; cbn [crop_all] in H; [injection H as <-; reflexivity|].
  destruct (crop_tables (ts_tb t) (ts_last_sample t) (ts_offsets t)) as [tb'| | |] eqn:E; try discriminate. cbn [rbind] in H.
  destruct (crop_all r) as [r'| | |] eqn:Er; try discriminate. cbn [rbind] in H. injection H as <-.
  cbn [map]. now rewrite (crop_tables_shape _ _ _ _ E), (IH _ eq_refl).
Qed.

Lemma fill_loop_tbs : forall fuel ts rs fo cur ts' ranges f',
  fill_loop fuel ts rs fo cur = Ok (ts', ranges, f') -> map ts_tb ts' = map ts_tb ts.
Proof.
  induction fuel as [|fuel IH]; intros ts rs fo cur ts' ranges f' H; [discriminate|].
  cbn [fill_loop] in H.
  destruct (pick_min ts 0 (4611686018427387904, 0, 0)) as [[[minOff idMin] iMin]| | |] eqn:Ep; try discriminate.
  cbn [rbind] in H. destruct (idMin =? 0) eqn:Eid.
  - injection H as <- _ _. reflexivity.
  - destruct (fo =? 0); cbv beta iota in H;
      (destruct (idx ts iMin) as [t| | |]; try discriminate; cbn [rbind] in H;
       destruct (stsc_get_chunk (sc_entries (t_stsc (ts_tb t))) (ts_next t)) as [ch| | |]; try discriminate; cbn [rbind] in H;
       destruct (stsz_get_total_sample_size (t_stsz (ts_tb t)) (ch_start ch)
                   (N.min (sub32 (u32 (ch_start ch + ch_n ch)) 1) (ts_last_sample t))) as [sz| | |]; try discriminate;
       cbn [rbind] in H;
       rewrite (IH _ _ _ _ _ _ _ H); apply upd_ts_tbs; reflexivity).
Qed.

Lemma hdr_traks_len nd : forall tks tks', hdr_traks nd tks = Ok tks' -> length tks' = length tks.
Proof.
  induction tks as [|[[prev md] ed] r IH]; intros tks' H; cbn [hdr_traks] in H; [injection H as <-; reflexivity|].
  destruct (prev <? nd); [discriminate|].
  destruct (hdr_traks nd r) as [r'| | |] eqn:E; try discriminate. cbn [rbind] in H. injection H as <-.
  cbn [length]. now rewrite (IH _ eq_refl).
Qed.

Lemma crop_mp4_all_shape hs mvts tks ms rest et ets tbs ranges ks swm nd tks' :
  crop_mp4_all hs mvts tks ms rest = Ok (et, ets, (tbs, ranges, ks, swm), (nd, tks')) ->
  map shape tbs = map shape (map (fun h => ti_tb (th_trak h)) hs) /\ swm = size_without_mdat rest tbs /\
  length tks' = length tks.
Proof.
  unfold crop_mp4_all. intros H.
  destruct (crop_mp4_file hs ms rest) as [[[et0 ets0] x]| | |] eqn:Ef; try discriminate. cbn [rbind] in H.
  destruct (write_upto_mdat_durs et0 ets0 mvts tks) as [[nd0 tks0]| | |] eqn:Ew; try discriminate. cbn [rbind] in H.
  injection H as H1 H2 H3 H4 H5. subst et0 ets0 x nd0 tks0.
  split; [|split].
  - unfold crop_mp4_file in Ef. destruct (find_sync_trak hs) as [rf|]; [|discriminate].
    destruct (find_end_time (ti_tb rf) (ti_ts rf) ms) as [et1| | |]; try discriminate. cbn [rbind] in Ef.
    destruct (crop_to_time_sz (map th_trak hs) et1 (ti_ts rf) rest) as [[[[sh rg] ks0] swm0]| | |] eqn:Ec; try discriminate.
    cbn [rbind] in Ef. injection Ef as _ _ <- _ _ _.
    unfold crop_to_time_sz in Ec.
    destruct (trak_ends (map th_trak hs) et1 (ti_ts rf)) as [ts0| | |] eqn:Ends; try discriminate. cbn [rbind] in Ec.
    destruct (trak_ends_init _ _ _ _ Ends) as [_ [Htb _]].
    destruct (fill_loop (fill_fuel ts0) ts0 [] 0 0) as [[[ts' rg'] first]| | |] eqn:Efl; try discriminate. cbn [rbind] in Ec.
    destruct (crop_all ts') as [cropped| | |] eqn:Eca; try discriminate. cbn [rbind] in Ec.
    destruct (update_chunk_offsets (size_without_mdat rest cropped) first cropped) as [shifted| | |] eqn:Eu; try discriminate.
    cbn [rbind] in Ec. injection Ec as <- _ _ _.
    unfold update_chunk_offsets, update_chunk_offsets_h in Eu.
    rewrite (shift_tracks_shape _ _ _ Eu), (crop_all_shape _ _ Eca), (fill_loop_tbs _ _ _ _ _ _ _ _ Efl), Htb.
    f_equal. now rewrite map_map.
  - unfold crop_mp4_file in Ef. destruct (find_sync_trak hs) as [rf|]; [|discriminate].
    destruct (find_end_time (ti_tb rf) (ti_ts rf) ms) as [et1| | |]; try discriminate. cbn [rbind] in Ef.
    destruct (crop_to_time_sz (map th_trak hs) et1 (ti_ts rf) rest) as [[[[sh rg] ks0] swm0]| | |] eqn:Ec; try discriminate.
    cbn [rbind] in Ef. injection Ef as _ _ <- <- <- <-. exact (proj2 (crop_to_time_sz_ok _ _ _ _ _ _ _ _ Ec)).
  - unfold write_upto_mdat_durs in Ew.
    destruct (div_go (u64 (et * mvts)) ets) as [d| | |]; try discriminate. cbn [rbind] in Ew.
    destruct (hdr_traks d tks) as [t'| | |] eqn:Eh; try discriminate. cbn [rbind] in Ew. injection Ew as _ <-.
    exact (hdr_traks_len _ _ _ Eh).
Qed.

(* cropStts keeps as many deltas as counts *)
Lemma slice_to_len {A} (l : list A) k l' : slice_to l k = Ok l' -> lenN l' = k.
Proof.
  unfold slice_to. destruct (lenN l <? k) eqn:E; [discriminate|]. intros H. injection H as <-.
  apply N.ltb_ge in E. unfold firstnN, lenN in *. rewrite firstn_length. lia.
Qed.
Lemma crop_stts_lens cs ds last r : crop_stts cs ds last = Ok r -> lenN (fst r) = lenN (snd r).
Proof.
  unfold crop_stts. destruct (crop_stts_loop cs last 0 0) as [counted keep]. intros H.
  match type of H with rbind ?x _ = _ => destruct x as [cs1| | |]; try discriminate end. cbn [rbind] in H.
  destruct (slice_to cs1 keep) as [cs2| | |] eqn:E1; try discriminate. cbn [rbind] in H.
  destruct (slice_to ds keep) as [ds2| | |] eqn:E2; try discriminate. cbn [rbind] in H. injection H as <-.
  cbn [fst snd]. now rewrite (slice_to_len _ _ _ E1), (slice_to_len _ _ _ E2).
Qed.
Definition stts_ok (tb : tables) : Prop := lenN (t_stts_count tb) = lenN (t_stts_delta tb).
Lemma crop_tables_stts tb last offs tb' : crop_tables tb last offs = Ok tb' -> stts_ok tb'.
Proof.
  unfold crop_tables. intros H.
  destruct (crop_stts (t_stts_count tb) (t_stts_delta tb) last) as [st| | |] eqn:Es; try discriminate. cbn [rbind] in H.
  match type of H with rbind ?x _ = _ => destruct x as [ct| | |]; try discriminate end. cbn [rbind] in H.
  destruct (crop_stsc (t_stsc tb) last) as [sc| | |]; try discriminate. cbn [rbind] in H.
  destruct (crop_stsz (t_stsz tb) last) as [sz| | |]; try discriminate. cbn [rbind] in H.
  match type of H with rbind ?x _ = _ => destruct x as [so| | |]; try discriminate end. cbn [rbind] in H.
  injection H as <-. unfold stts_ok. cbn [t_stts_count t_stts_delta]. exact (crop_stts_lens _ _ _ _ Es).
Qed.
Lemma shift_track_stts d tb tb' : shift_track d tb = Ok tb' -> stts_ok tb -> stts_ok tb'.
Proof.
  unfold shift_track, stts_ok. intros H. destruct (t_stco tb) as [l|].
  - destruct (shift_stco d l) as [l'| | |]; try discriminate. cbn [rbind] in H. injection H as <-. trivial.
  - destruct (t_co64 tb) as [l|]; [|discriminate]. injection H as <-. trivial.
Qed.
Lemma shift_tracks_stts d : forall tbs tbs', shift_tracks d tbs = Ok tbs' -> Forall stts_ok tbs -> Forall stts_ok tbs'.
Proof.
  induction tbs as [|tb t IH]; intros tbs' H HF; cbn [shift_tracks] in H; [injection H as <-; constructor|].
  destruct (shift_track d tb) as [tb'| | |] eqn:E; try discriminate. cbn [rbind] in H.
  destruct (shift_tracks d t) as [t'| | |] eqn:Et; try discriminate. cbn [rbind] in H. injection H as <-.
  inversion HF; subst. constructor; [eapply shift_track_stts; eassumption|now apply IH].
Qed.
Lemma crop_all_stts : forall ts tbs, crop_all ts = Ok tbs -> Forall stts_ok tbs.
Proof.
  induction ts as [|t r IH]; intros tbs H; cbn [crop_all] in H; [injection H as <-; constructor|].
  destruct (crop_tables (ts_tb t) (ts_last_sample t) (ts_offsets t)) as [tb'| | |] eqn:E; try discriminate. cbn [rbind] in H.
  destruct (crop_all r) as [r'| | |] eqn:Er; try discriminate. cbn [rbind] in H. injection H as <-.
  constructor; [exact (crop_tables_stts _ _ _ _ E)|now apply IH].
Qed.
Lemma crop_mp4_all_stts hs mvts tks ms rest et ets tbs ranges ks swm d :
  crop_mp4_all hs mvts tks ms rest = Ok (et, ets, (tbs, ranges, ks, swm), d) -> Forall stts_ok tbs.
Proof.
  unfold crop_mp4_all. intros H.
  destruct (crop_mp4_file hs ms rest) as [[[et0 ets0] x]| | |] eqn:Ef; try discriminate. cbn [rbind] in H.
  destruct (write_upto_mdat_durs et0 ets0 mvts tks) as [d0| | |]; try discriminate. cbn [rbind] in H.
  injection H as H1 H2 H3 H4. subst.
  unfold crop_mp4_file in Ef. destruct (find_sync_trak hs) as [rf|]; [|discriminate].
  destruct (find_end_time (ti_tb rf) (ti_ts rf) ms) as [et1| | |]; try discriminate. cbn [rbind] in Ef.
  destruct (crop_to_time_sz (map th_trak hs) et1 (ti_ts rf) rest) as [[[[sh rg] ks0] swm0]| | |] eqn:Ec; try discriminate.
  cbn [rbind] in Ef. injection Ef as _ _ <- _ _ _.
  unfold crop_to_time_sz in Ec.
  destruct (trak_ends (map th_trak hs) et1 (ti_ts rf)) as [ts0| | |]; try discriminate. cbn [rbind] in Ec.
  destruct (fill_loop (fill_fuel ts0) ts0 [] 0 0) as [[[ts' rg'] first]| | |]; try discriminate. cbn [rbind] in Ec.
  destruct (crop_all ts') as [cropped| | |] eqn:Eca; try discriminate. cbn [rbind] in Ec.
  destruct (update_chunk_offsets (size_without_mdat rest cropped) first cropped) as [shifted| | |] eqn:Eu; try discriminate.
  cbn [rbind] in Ec. injection Ec as <- _ _ _.
  exact (shift_tracks_stts _ _ _ Eu (crop_all_stts _ _ Eca)).
Qed.

(* ---------------------------------------------------------------- sums over the children of a box *)
Notation ssum l := (sumN (map size_box l)).

Lemma sum_filter_split (p : mbox -> bool) (F : mbox -> N) cs :
  sumN (map F cs) = sumN (map F (filter p cs)) + sumN (map F (filter (fun c => negb (p c)) cs)).
Proof. induction cs as [|c t IH]; [reflexivity|]. cbn [filter map sumN]. destruct (p c); cbn [negb map sumN]; lia. Qed.

Lemma filter_named_neg k k' cs : bytes_eqb k k' = false ->
  filter (named k') (filter (fun c => negb (named k c)) cs) = filter (named k') cs.
Proof.
  intros Hk. induction cs as [|c t IH]; [reflexivity|]. cbn [filter]. destruct (named k c) eqn:E; cbn [negb filter].
  - apply named_name in E. assert (Hn : named k' c = false) by (unfold named; now rewrite E). rewrite Hn. exact IH.
  - destruct (named k' c); [f_equal|]; exact IH.
Qed.

Definition any_named (ks : list (list N)) (c : mbox) : bool := existsb (fun k => named k c) ks.
Fixpoint distinct (ks : list (list N)) : bool :=
  match ks with [] => true | k :: t => forallb (fun k' => negb (bytes_eqb k k')) t && distinct t end.

Lemma filter_any_cons k t cs :
  filter (fun c => negb (any_named t c)) (filter (fun c => negb (named k c)) cs) =
  filter (fun c => negb (any_named (k :: t) c)) cs.
Proof.
  induction cs as [|c r IH]; [reflexivity|]. cbn [filter any_named existsb].
  destruct (named k c); cbn [negb orb filter]; [exact IH|]. fold (any_named t c).
  destruct (negb (any_named t c)); [f_equal|]; exact IH.
Qed.

Lemma partition_by_names (F : mbox -> N) ks : distinct ks = true -> forall cs,
  sumN (map F cs) = sumN (map (fun k => sumN (map F (filter (named k) cs))) ks) +
                    sumN (map F (filter (fun c => negb (any_named ks c)) cs)).
Proof.
  induction ks as [|k t IH]; intros Hd cs.
  - cbn [map sumN any_named existsb negb]. rewrite N.add_0_l.
    assert (Hid : forall l : list mbox, filter (fun _ => true) l = l) by (induction l as [|x l IHl]; [reflexivity|cbn [filter]; now rewrite IHl]).
    now rewrite Hid.
  - cbn [distinct] in Hd. apply andb_true_iff in Hd. destruct Hd as [Hk Ht].
    rewrite (sum_filter_split (named k) F cs). cbn [map sumN]. rewrite (IH Ht (filter (fun c => negb (named k c)) cs)).
    rewrite <- N.add_assoc. f_equal. f_equal.
    + f_equal. apply map_ext_in. intros k' Hin. rewrite filter_named_neg; [reflexivity|].
      apply negb_true_iff. exact (proj1 (forallb_forall _ _) Hk k' Hin).
    + now rewrite filter_any_cons.
Qed.

(* ---------------------------------------------------------------- stbl *)
Definition names8 : list (list N) := [n_stts; n_ctts; n_stsc; n_stsz; n_stco; n_co64; n_stss; n_sdtp].

Lemma the_one_filter n cs x : the_one n cs = Some x -> filter (named n) cs = [x].
Proof. unfold the_one. destruct (filter (named n) cs) as [|a [|b t]]; try discriminate. now intros [= ->]. Qed.
Lemma at_most_one_filter n cs o : at_most_one n cs = Some o ->
  filter (named n) cs = match o with Some x => [x] | None => [] end.
Proof. unfold at_most_one. destruct (filter (named n) cs) as [|a [|b t]]; try discriminate; now intros [= <-]. Qed.

Lemma put_other tb' c : any_named names8 c = false -> put_table vI vU tb' c = c.
Proof.
  intros H. destruct c as [h l r|h cs|h p|h l r cs]; try reflexivity.
  destruct l; try reflexivity; try (cbn in H; discriminate).
  unfold any_named, names8, named in H. cbn [existsb box_name leaf_name] in H.
  apply orb_false_iff in H. destruct H as [_ H]. apply orb_false_iff in H. destruct H as [_ H].
  apply orb_false_iff in H. destruct H as [_ H]. apply orb_false_iff in H. destruct H as [_ H].
  apply orb_false_iff in H. destruct H as [Hco H]. apply orb_false_iff in H. destruct H as [Hc6 H].
  apply orb_false_iff in H. destruct H as [Hss _].
  cbn [put_table]. now rewrite Hco, Hc6, Hss.
Qed.

Lemma sum_ext_filter (F G : mbox -> N) (p : mbox -> bool) cs : (forall c, p c = true -> F c = G c) ->
  sumN (map F (filter p cs)) = sumN (map G (filter p cs)).
Proof. intros H. f_equal. apply map_ext_in. intros c Hin. apply filter_In in Hin. apply H, Hin. Qed.

Lemma tab_items_inv n w o r : tab_items n w o = Some r ->
  match o with
  | None => r = None
  | Some x => exists h v f items rs, x = MLeaf h (LTab n w v f items) rs /\ r = Some items
  end.
Proof.
  unfold tab_items. destruct o as [x|]; [|now intros [= <-]].
  destruct x as [h l rs| | |]; try discriminate. destruct l; try discriminate.
  destruct (bytes_eqb n name && Nat.eqb w w0) eqn:E; [|discriminate]. intros [= <-].
  apply andb_true_iff in E. destruct E as [E1 E2]. apply bytes_eqb_eq in E1. apply Nat.eqb_eq in E2. subst.
  now exists h, version, flags, items, rs.
Qed.

Lemma decode_step_len n es acc sg ids i r st' : stsc_decode_step n (es, acc, sg, ids) i r = Ok st' ->
  length (fst (fst (fst st'))) = S (length es).
Proof.
  unfold stsc_decode_step. destruct r as [[fc sp] sdi]. cbv zeta.
  destruct (sdi =? 0); [discriminate|]. destruct (i =? 0); [intros [= <-]; cbn [fst]; rewrite app_length; cbn; lia|].
  destruct (negb (sdi =? sg)); [|intros [= <-]; cbn [fst]; rewrite app_length; cbn; lia].
  destruct (negb (sg =? 0)); cbv beta iota;
    match goal with |- (if ?c then _ else _) = _ -> _ => destruct c; [discriminate|] end;
    intros [= <-]; cbn [fst]; rewrite app_length; cbn; lia.
Qed.
Lemma decode_loop_len n : forall raw st i st', stsc_decode_loop n st i raw = Ok st' ->
  length (fst (fst (fst st'))) = (length (fst (fst (fst st))) + length raw)%nat.
Proof.
  induction raw as [|r t IH]; intros st i st' H; cbn [stsc_decode_loop] in H.
  - injection H as <-. cbn [length]. lia.
  - destruct st as [[[es acc] sg] ids].
    destruct (stsc_decode_step n (es, acc, sg, ids) i r) as [st1| | |] eqn:E; try discriminate. cbn [rbind] in H.
    rewrite (IH _ _ _ H), (decode_step_len _ _ _ _ _ _ _ _ E). cbn [fst length]. lia.
Qed.
Lemma stsc_decode_len raw sc : stsc_decode raw = Ok sc -> lenN (sc_entries sc) = lenN raw.
Proof.
  unfold stsc_decode. destruct (stsc_decode_loop (lenN raw) ([], 1, 0, []) 0 raw) as [st| | |] eqn:E; try discriminate.
  cbn [rbind]. pose proof (decode_loop_len _ _ _ _ _ E) as Hl. destruct st as [[[es a] sg] ids]. intros [= <-].
  cbn [sc_entries fst length] in *. unfold lenN. lia.
Qed.

Lemma stbl_sizes cs tb tb' : tables_of_stbl cs = Some tb -> shape tb' = shape tb -> stts_ok tb' ->
  ssum (map (put_table vI vU tb') cs) + stbl_var_size tb = ssum cs + stbl_var_size tb'.
Proof.
  intros H Hsh Hst. unfold tables_of_stbl in H.
  destruct (the_one n_stts cs) as [stts|] eqn:E1; [|discriminate]. cbn [obind] in H.
  destruct (at_most_one n_ctts cs) as [ctts|] eqn:E2; [|discriminate]. cbn [obind] in H.
  destruct (the_one n_stsc cs) as [stsc|] eqn:E3; [|discriminate]. cbn [obind] in H.
  destruct (the_one n_stsz cs) as [stsz|] eqn:E4; [|discriminate]. cbn [obind] in H.
  destruct (at_most_one n_stco cs) as [stco|] eqn:E5; [|discriminate]. cbn [obind] in H.
  destruct (at_most_one n_co64 cs) as [co64|] eqn:E6; [|discriminate]. cbn [obind] in H.
  destruct (at_most_one n_stss cs) as [stss|] eqn:E7; [|discriminate]. cbn [obind] in H.
  destruct (at_most_one n_sdtp cs) as [sdtp|] eqn:E8; [|discriminate]. cbn [obind] in H.
  destruct stts as [h1 l1 r1| | |]; try discriminate. destruct l1; try discriminate.
  destruct stsc as [h3 l3 r3| | |]; try discriminate. destruct l3; try discriminate.
  destruct stsz as [h4 l4 r4| | |]; try discriminate. destruct l4; try discriminate.
  match type of H with match ?x with _ => _ end = _ => destruct x as [sc| | |] eqn:Esc; try discriminate end.
  match type of H with obind ?x _ = _ => destruct x as [ct|] eqn:Ect; [|discriminate] end. cbn [obind] in H.
  destruct (tab_items n_stco 4 stco) as [so|] eqn:Eso; [|discriminate]. cbn [obind] in H.
  destruct (tab_items n_co64 8 co64) as [c6|] eqn:Ec6; [|discriminate]. cbn [obind] in H.
  destruct (tab_items n_stss 4 stss) as [sy|] eqn:Esy; [|discriminate]. cbn [obind] in H.
  match type of H with obind ?x _ = _ => destruct x as [sd|] eqn:Esd; [|discriminate] end. cbn [obind] in H.
  injection H as <-.
  apply the_one_filter in E1, E3, E4. apply at_most_one_filter in E2, E5, E6, E7, E8.
  pose proof (tab_items_inv _ _ _ _ Eso) as Iso. pose proof (tab_items_inv _ _ _ _ Ec6) as Ic6.
  pose proof (tab_items_inv _ _ _ _ Esy) as Isy.
  rewrite map_map.
  rewrite (partition_by_names (fun c => size_box (put_table vI vU tb' c)) names8 eq_refl cs).
  rewrite (partition_by_names size_box names8 eq_refl cs).
  rewrite (sum_ext_filter (fun c => size_box (put_table vI vU tb' c)) size_box (fun c => negb (any_named names8 c)) cs)
    by (intros c Hc; apply negb_true_iff in Hc; now rewrite put_other).
  unfold names8. cbn [map sumN]. rewrite E1, E2, E3, E4, E5, E6, E7, E8.
  unfold shape in Hsh. cbn [t_ctts t_stco t_co64 t_stss t_sdtp] in Hsh. injection Hsh as S1 S2 S3 S4 S5.
  unfold stbl_var_size. cbn [t_stts_count t_stts_delta t_ctts t_stsc t_stsz t_stco t_co64 t_stss t_sdtp].
  unfold stts_ok in Hst.
  (* the optional boxes, one by one *)
  assert (Hctts : sumN (map (fun c => size_box (put_table vI vU tb' c)) (match ctts with Some x => [x] | None => [] end))
                  + opt_size ctts_box_size ct
                  = sumN (map size_box (match ctts with Some x => [x] | None => [] end)) + opt_size ctts_box_size (t_ctts tb')).
  { destruct ctts as [x|]; [|injection Ect as <-; cbn [isS] in S1; destruct (t_ctts tb'); [discriminate|reflexivity]].
    destruct x as [hx lx rx| | |]; try discriminate. destruct lx; try discriminate. injection Ect as <-.
    cbn [isS] in S1. destruct (t_ctts tb') as [ct'|] eqn:Ect'; [|discriminate].
    cbn [map sumN put_table]. rewrite Ect'. cbn [size_box mk_leaf size_leaf opt_size]. unfold ctts_box_size, ctts_to_c09, ctts_offs_of.
    cbn [ct_off]. rewrite !lenN_map. lia. }
  assert (Htab : forall n w (o : option mbox) (r r' : option (list N)) (bs : list N -> N),
             (n = n_stco \/ n = n_co64 \/ n = n_stss) ->
             (forall v f items, size_leaf (LTab n w v f items) = bs items) ->
             match o with None => r = None | Some x => exists h v f items rs, x = MLeaf h (LTab n w v f items) rs /\ r = Some items end ->
             isS r' = isS r ->
             (if bytes_eqb n n_stco then t_stco tb' else if bytes_eqb n n_co64 then t_co64 tb'
              else if bytes_eqb n n_stss then t_stss tb' else None) = r' ->
             sumN (map (fun c => size_box (put_table vI vU tb' c)) (match o with Some x => [x] | None => [] end)) + opt_size bs r
             = sumN (map size_box (match o with Some x => [x] | None => [] end)) + opt_size bs r').
  { intros n w o r r' bs Hn Hbs Ho Hs Hsel. destruct o as [x|].
    - destruct Ho as (h & v & f & items & rs & -> & ->). cbn [isS] in Hs. destruct r' as [items'|]; [|discriminate].
      cbn [map sumN put_table]. rewrite Hsel. cbn [size_box mk_leaf opt_size]. rewrite !Hbs. lia.
    - subst r. cbn [isS] in Hs. destruct r'; [discriminate|]. reflexivity. }
  pose proof (Htab n_stco 4%nat stco so (t_stco tb') stco_box_size (or_introl eq_refl) (fun v f items => eq_refl) Iso S2 eq_refl) as Hstco.
  pose proof (Htab n_co64 8%nat co64 c6 (t_co64 tb') co64_box_size (or_intror (or_introl eq_refl)) (fun v f items => eq_refl) Ic6 S3 eq_refl) as Hco64.
  pose proof (Htab n_stss 4%nat stss sy (t_stss tb') stss_box_size (or_intror (or_intror eq_refl)) (fun v f items => eq_refl) Isy S4 eq_refl) as Hstss.
  assert (Hsdtp : sumN (map (fun c => size_box (put_table vI vU tb' c)) (match sdtp with Some x => [x] | None => [] end))
                  + opt_size sdtp_box_size sd
                  = sumN (map size_box (match sdtp with Some x => [x] | None => [] end)) + opt_size sdtp_box_size (t_sdtp tb')).
  { destruct sdtp as [x|]; [|injection Esd as <-; cbn [isS] in S5; destruct (t_sdtp tb'); [discriminate|reflexivity]].
    destruct x as [hx lx rx| | |]; try discriminate. destruct lx; try discriminate. injection Esd as <-.
    cbn [isS] in S5. destruct (t_sdtp tb') as [sd'|] eqn:Esd'; [|discriminate].
    cbn [map sumN put_table]. rewrite Esd'. cbn [size_box mk_leaf size_leaf opt_size]. unfold sdtp_box_size. lia. }
  cbn [map sumN put_table size_box mk_leaf size_leaf].
  unfold stts_box_size, stsc_box_size, stsz_box_size. cbn [sc_entries sz_uniform sz_number].
  assert (Hcomb : lenN (combine (t_stts_count tb') (t_stts_delta tb')) = lenN (t_stts_count tb')).
  { unfold lenN in *. rewrite combine_length. lia. }
  rewrite Hcomb, !lenN_map.
  assert (Hsce : lenN (sc_entries sc) = lenN entries0).
  { rewrite (stsc_decode_len _ _ Esc). apply C10TreeProofs.stsc_raw_len. }
  lia.
Qed.

(* ---------------------------------------------------------------- one rewritten child per level *)
Lemma ssum_map_one n (g : mbox -> mbox) cs x : filter (named n) cs = [x] ->
  (forall c, named n c = false -> size_box (g c) = size_box c) ->
  ssum (map g cs) + size_box x = ssum cs + size_box (g x).
Proof.
  intros Hf Hg. rewrite map_map.
  rewrite (sum_filter_split (named n) (fun c => size_box (g c)) cs), (sum_filter_split (named n) size_box cs), Hf.
  rewrite (sum_ext_filter (fun c => size_box (g c)) size_box (fun c => negb (named n c)) cs)
    by (intros c Hc; apply negb_true_iff in Hc; now apply Hg).
  cbn [map sumN]. lia.
Qed.

Lemma size_upd_cont g h cs : size_box (upd_cont vU g (MCont h cs)) = 8 + ssum (g cs).
Proof. reflexivity. Qed.

Lemma set_segs_len es : forall g, lenN (set_segs es g) = lenN es.
Proof.
  induction es as [|[[[d t] ri] rf] et IH]; intros g; [reflexivity|]. destruct g as [|x gt]; [reflexivity|].
  cbn [set_segs]. now rewrite !lenN_cons, IH.
Qed.
Lemma ssum_put_elsts cs : forall gs, ssum (put_elsts vI vU gs cs) = ssum cs.
Proof.
  induction cs as [|c t IH]; intros gs; [reflexivity|].
  destruct c as [h l r|h cs|h p|h l r cs]; cbn [put_elsts map sumN]; try (now rewrite IH).
  destruct l; cbn [put_elsts map sumN]; try (now rewrite IH).
  destruct gs as [|g gt]; cbn [put_elsts map sumN]; rewrite IH; [reflexivity|].
  cbn [size_box mk_leaf size_leaf]. now rewrite set_segs_len.
Qed.
Lemma size_set_tkhd nd c : size_box (set_tkhd_dur vI vU nd c) = size_box c.
Proof. destruct c as [h l r|h cs|h p|h l r cs]; try reflexivity. destruct l; reflexivity. Qed.
Lemma size_set_mvhd nd c : size_box (set_mvhd_dur vI vU nd c) = size_box c.
Proof. destruct c as [h l r|h cs|h p|h l r cs]; try reflexivity. destruct l; reflexivity. Qed.

Definition var_of (tb : tables) : N := stbl_var_size tb.

(* stbl -> minf -> mdia -> trak *)
Lemma size_stbl tb tb' stbl : (exists h cs, stbl = MCont h cs) -> tables_of_stbl (children_of stbl) = Some tb ->
  shape tb' = shape tb -> stts_ok tb' ->
  size_box (upd_cont vU (map (put_table vI vU tb')) stbl) + var_of tb = size_box stbl + var_of tb'.
Proof.
  intros (h & cs & ->) Ht Hs Hst. cbn [children_of] in Ht. rewrite size_upd_cont. cbn [size_box].
  pose proof (stbl_sizes cs tb tb' Ht Hs Hst). unfold var_of. lia.
Qed.

Lemma size_level n (F : mbox -> mbox) t x d d' : (exists h cs, t = MCont h cs) -> the_one n (children_of t) = Some x ->
  size_box (F x) + d = size_box x + d' ->
  size_box (upd_cont vU (upd_named vU n F) t) + d = size_box t + d'.
Proof.
  intros (h & cs & ->) Ho HF. cbn [children_of] in Ho. rewrite size_upd_cont. cbn [size_box]. unfold upd_named.
  pose proof (ssum_map_one n (fun c => if named n c then F c else c) cs x (the_one_filter _ _ _ Ho)) as H.
  assert (Hx : named n x = true).
  { pose proof (the_one_filter _ _ _ Ho) as Hf. assert (In x (filter (named n) cs)) by (rewrite Hf; now left).
    apply filter_In in H0. apply H0. }
  specialize (H (fun c Hc => ltac:(cbv beta; now rewrite Hc))). cbv beta in H. rewrite Hx in H. lia.
Qed.

Lemma is_cont_dec (t : mbox) : {exists h cs, t = MCont h cs} + {forall h cs, t <> MCont h cs}.
Proof. destruct t; [right|left|right|right]; try (intros; discriminate). now exists h, cs. Qed.

Lemma size_trak tb' x' trak th x : trak_of trak = Some (th, x) ->
  shape tb' = shape (ti_tb (th_trak th)) -> stts_ok tb' ->
  size_box (upd_trak vI vU tb' x' trak) + var_of (ti_tb (th_trak th)) = size_box trak + var_of tb'.
Proof.
  intros H Hs Hst. unfold trak_of in H.
  destruct (the_one n_tkhd (children_of trak)) as [tkhd|] eqn:E1; [|discriminate]. cbn [obind] in H.
  destruct (at_most_one n_edts (children_of trak)) as [edts|] eqn:E2; [|discriminate]. cbn [obind] in H.
  destruct (the_one n_mdia (children_of trak)) as [mdia|] eqn:E3; [|discriminate]. cbn [obind] in H.
  destruct (the_one n_mdhd (children_of mdia)) as [mdhd|] eqn:E4; [|discriminate]. cbn [obind] in H.
  destruct (the_one n_hdlr (children_of mdia)) as [hdlr|] eqn:E5; [|discriminate]. cbn [obind] in H.
  destruct (the_one n_minf (children_of mdia)) as [minf|] eqn:E6; [|discriminate]. cbn [obind] in H.
  destruct (the_one n_stbl (children_of minf)) as [stbl|] eqn:E7; [|discriminate]. cbn [obind] in H.
  destruct (tables_of_stbl (children_of stbl)) as [tb|] eqn:E8; [|discriminate]. cbn [obind] in H.
  match type of H with obind ?o _ = _ => destruct o as [ed|]; [|discriminate] end. cbn [obind] in H.
  destruct tkhd as [h1 l1 r1| | |]; try discriminate. destruct l1; try discriminate.
  destruct mdhd as [h2 l2 r2| | |]; try discriminate. destruct l2; try discriminate.
  destruct hdlr as [h3 l3 r3| | |]; try discriminate. destruct l3; try discriminate.
  destruct trak as [|ht cst| |]; try discriminate. destruct mdia as [|hm csm| |]; try discriminate.
  destruct minf as [|hi csi| |]; try discriminate. destruct stbl as [|hs css| |]; try discriminate.
  injection H as <- <-. cbn [th_trak ti_tb] in *.
  destruct x' as [[nd md] ed']. rewrite upd_trak_enc.
  (* stbl, minf, mdia *)
  pose proof (size_stbl tb tb' (MCont hs css) ltac:(now exists hs, css) E8 Hs Hst) as Hstbl.
  pose proof (size_level n_stbl (upd_cont vU (map (put_table vI vU tb'))) (MCont hi csi) (MCont hs css) _ _
                ltac:(now exists hi, csi) E7 Hstbl) as Hminf.
  pose proof (size_level n_minf (minf_enc tb') (MCont hm csm) (MCont hi csi) _ _ ltac:(now exists hm, csm) E6 Hminf) as Hmdia.
  fold (minf_enc tb') in Hminf. fold (mdia_enc tb') in Hmdia.
  (* trak: tkhd and edts keep their size *)
  rewrite size_upd_cont. cbn [size_box children_of] in *.
  set (g := fun c : mbox => if named n_tkhd c then set_tkhd_dur vI vU nd c
                             else if named n_edts c then upd_cont vU (put_elsts vI vU (match ed' with Some gs => gs | None => [] end)) c
                             else if named n_mdia c then mdia_enc tb' c else c).
  pose proof (ssum_map_one n_mdia g cst (MCont hm csm) (the_one_filter _ _ _ E3)) as Ht.
  assert (Hg : forall c, named n_mdia c = false -> size_box (g c) = size_box c).
  { intros c Hc. unfold g. destruct (named n_tkhd c); [apply size_set_tkhd|].
    destruct (named n_edts c); [|now rewrite Hc].
    destruct c as [|hc csc| |]; try reflexivity. rewrite size_upd_cont. cbn [size_box]. now rewrite ssum_put_elsts. }
  specialize (Ht Hg).
  assert (Hgm : g (MCont hm csm) = mdia_enc tb' (MCont hm csm)).
  { assert (Hn : named n_mdia (MCont hm csm) = true).
    { pose proof (the_one_filter _ _ _ E3) as Hf. assert (Hin : In (MCont hm csm) (filter (named n_mdia) cst)) by (rewrite Hf; now left).
      apply filter_In in Hin. apply Hin. }
    unfold g. pose proof (named_name _ _ Hn) as Hnm. unfold named in *. rewrite Hnm. reflexivity. }
  rewrite Hgm in Ht. fold g. change (size_box (MCont hm csm)) with (8 + ssum csm) in Ht. lia.
Qed.

(* moov *)
Fixpoint vars_in (tr : list (trak_h * hdr_trak)) : N :=
  match tr with [] => 0 | t :: r => var_of (ti_tb (th_trak (fst t))) + vars_in r end.
Fixpoint vars_out (xs : list (tables * hdr_trak)) : N :=
  match xs with [] => 0 | x :: r => var_of (fst x) + vars_out r end.

Lemma size_moov_children nd cs : forall xs tr,
  all_some (map trak_of (filter (named n_trak) cs)) = Some tr ->
  Forall2 (fun t x => shape (fst x) = shape (ti_tb (th_trak (fst t))) /\ stts_ok (fst x)) tr xs ->
  ssum (upd_moov_children vI vU nd xs cs) + vars_in tr = ssum cs + vars_out xs.
Proof.
  induction cs as [|c t IH]; intros xs tr Ha H2.
  - cbn [filter map all_some] in Ha. injection Ha as <-. inversion H2; subst. reflexivity.
  - cbn [filter] in Ha. cbn [upd_moov_children]. destruct (named n_trak c) eqn:En.
    + cbn [map all_some] in Ha. destruct (trak_of c) as [[th x]|] eqn:Et; [|discriminate].
      destruct (all_some (map trak_of (filter (named n_trak) t))) as [tr'|] eqn:Ea; [|discriminate].
      injection Ha as <-. inversion H2 as [|? [tb' x'] ? xt [Hs Hst] H2']; subst. cbn [fst] in *.
      cbn [map sumN vars_in vars_out fst].
      pose proof (size_trak tb' x' c th x Et Hs Hst). pose proof (IH xt tr' eq_refl H2'). lia.
    + cbn [map sumN]. pose proof (IH xs tr Ha H2).
      destruct (named n_mvhd c); [rewrite size_set_mvhd|]; lia.
Qed.

Lemma size_out_moov nd xs tr moov : (exists h cs, moov = MCont h cs) ->
  all_some (map trak_of (filter (named n_trak) (children_of moov))) = Some tr ->
  Forall2 (fun t x => shape (fst x) = shape (ti_tb (th_trak (fst t))) /\ stts_ok (fst x)) tr xs ->
  size_box (out_moov nd xs moov) + vars_in tr = size_box moov + vars_out xs.
Proof.
  intros (h & cs & ->) Ha H2. cbn [children_of] in Ha. unfold out_moov, out_moov_g. rewrite size_upd_cont. cbn [size_box].
  pose proof (size_moov_children nd cs xs tr Ha H2). lia.
Qed.

Lemma size_out_tree nd xs tr ts moov : the_one n_moov ts = Some moov -> (exists h cs, moov = MCont h cs) ->
  all_some (map trak_of (filter (named n_trak) (children_of moov))) = Some tr ->
  Forall2 (fun t x => shape (fst x) = shape (ti_tb (th_trak (fst t))) /\ stts_ok (fst x)) tr xs ->
  ssum (out_tree nd xs ts) + vars_in tr = ssum (non_mdat ts) + vars_out xs.
Proof.
  intros Ho Hm Ha H2. unfold out_tree.
  assert (Hf : filter (named n_moov) (non_mdat ts) = [moov]).
  { unfold non_mdat, is_mdat. rewrite (filter_named_neg n_mdat n_moov ts eq_refl). now apply the_one_filter. }
  pose proof (ssum_map_one n_moov (fun t => if named n_moov t then out_moov nd xs t else t) (non_mdat ts) moov Hf
                (fun c Hc => ltac:(cbv beta; now rewrite Hc))) as H.
  assert (Hn : named n_moov moov = true).
  { assert (Hin : In moov (filter (named n_moov) (non_mdat ts))) by (rewrite Hf; now left). apply filter_In in Hin. apply Hin. }
  cbv beta in H. rewrite Hn in H. pose proof (size_out_moov nd xs tr moov Hm Ha H2). lia.
Qed.

Lemma vars_in_sum tr : vars_in tr = sumN (map (fun t : trak_h * hdr_trak => stbl_var_size (ti_tb (th_trak (fst t)))) tr).
Proof. induction tr as [|t r IH]; [reflexivity|]. cbn [vars_in map sumN]. now rewrite IH. Qed.
Lemma vars_out_sum tbs : forall tks, length tks = length tbs ->
  vars_out (combine tbs tks) = sumN (map stbl_var_size tbs).
Proof.
  induction tbs as [|tb t IH]; intros tks Hl; [reflexivity|]. destruct tks as [|k kt]; [discriminate|].
  cbn [combine vars_out fst map sumN]. cbn [length] in Hl. rewrite IH by lia. reflexivity.
Qed.
Lemma forall2_combine {A B C} (P : A -> B * C -> Prop) (tr : list A) : forall (tbs : list B) (tks : list C),
  length tbs = length tr -> length tks = length tr ->
  (forall i a b c, nth_error tr i = Some a -> nth_error tbs i = Some b -> nth_error tks i = Some c -> P a (b, c)) ->
  Forall2 P tr (combine tbs tks).
Proof.
  induction tr as [|a r IH]; intros tbs tks H1 H2 HP.
  - destruct tbs; [|discriminate]. constructor.
  - destruct tbs as [|b bt]; [discriminate|]. destruct tks as [|c ct]; [discriminate|]. cbn [combine].
    constructor; [exact (HP 0%nat a b c eq_refl eq_refl eq_refl)|].
    apply IH; cbn [length] in *; try lia. intros i a' b' c' Ha Hb Hc. exact (HP (S i) a' b' c' Ha Hb Hc).
Qed.

(* the boxes mp4ff-crop encodes have, together, the sizeWithoutMdat that shifted the chunk offsets (in uint64) *)
Lemma crop_tree_size input ts ci ms out ranges swm : scope input ts = Some ci ->
  crop_tree ts ci ms = Ok (out, ranges, swm) -> swm = u64 (sumN (map size_box out)).
Proof.
  intros Hsc Hct. unfold scope in Hsc.
  destruct (the_one n_moov ts) as [moov|] eqn:E1; [|discriminate]. cbn [obind] in Hsc.
  destruct (the_one n_mdat ts) as [mdat|] eqn:E2; [|discriminate]. cbn [obind] in Hsc.
  destruct (the_one n_mvhd (children_of moov)) as [mvhd|] eqn:E3; [|discriminate]. cbn [obind] in Hsc.
  destruct (all_some (map trak_of (filter (named n_trak) (children_of moov)))) as [tr|] eqn:E4; [|discriminate].
  cbn [obind] in Hsc.
  destruct moov as [|hm csm| |]; try discriminate.
  destruct mvhd as [h1 l1 r1| | |]; try discriminate. destruct l1; try discriminate.
  destruct mdat as [h2 l2 r2| | |]; try discriminate. destruct l2; try discriminate.
  match type of Hsc with (if ?c then _ else _) = _ => destruct c eqn:Ec; [|discriminate] end.
  apply andb_true_iff in Ec. destruct Ec as [_ Hle]. apply N.leb_le in Hle.
  injection Hsc as <-.
  unfold crop_tree in Hct. cbn [ci_hs ci_mvts ci_tks ci_rest] in Hct.
  destruct (file_frag ts); [discriminate|].
  match type of Hct with rbind ?x _ = _ => destruct x as [r| | |] eqn:Er; try discriminate end. cbn [rbind] in Hct.
  destruct r as [[[et ets] [[[tbs rg] kept] sw]] [nd tks']]. injection Hct as <- _ <-.
  destruct (crop_mp4_all_shape _ _ _ _ _ _ _ _ _ _ _ _ _ Er) as (Hshape & -> & Hlen).
  pose proof (crop_mp4_all_stts _ _ _ _ _ _ _ _ _ _ _ _ Er) as Hstts.
  rewrite !map_length in Hlen.
  assert (Hlt : length tbs = length tr).
  { apply (f_equal (@length (list bool))) in Hshape. now rewrite !map_length in Hshape. }
  fold (out_tree nd (combine tbs tks') ts).
  assert (H2 : Forall2 (fun t x => shape (fst x) = shape (ti_tb (th_trak (fst t))) /\ stts_ok (fst x)) tr (combine tbs tks')).
  { apply forall2_combine; try lia. intros i a b c Ha Hb Hc. cbn [fst]. split.
    - assert (Hn : nth_error (map shape tbs) i = Some (shape b)) by (now rewrite nth_error_map, Hb).
      rewrite Hshape in Hn. rewrite !nth_error_map, Ha in Hn. cbn [option_map] in Hn.
      apply (f_equal (fun o : option (list bool) => match o with Some l => l | None => [] end)) in Hn. symmetry. exact Hn.
    - exact (proj1 (Forall_forall _ _) Hstts b (nth_error_In _ _ Hb)). }
  pose proof (size_out_tree nd (combine tbs tks') tr ts (MCont hm csm) E1 ltac:(now exists hm, csm) E4 H2) as Hsz.
  rewrite vars_in_sum in Hsz. rewrite (vars_out_sum tbs tks' ltac:(lia)) in Hsz.
  unfold size_without_mdat. f_equal. lia.
Qed.

(* C10_output_decodes with the position of the new mdat: the encoded boxes are exactly sizeWithoutMdat bytes long *)
Lemma crop_tool_decodes_pos input ms out_bytes :
  bytes_ok input = true -> crop_tool input ms = Some (Ok out_bytes) -> lenN out_bytes < 18446744073709551616 ->
  exists ts ci out ranges swm, decode_file_sr input = FOk ts /\ scope input ts = Some ci /\
    crop_tree ts ci ms = Ok (out, ranges, swm) /\
    (forallb exact_box ts = true -> forallb tree_fits out = true ->
     output_ok input ci ts out ranges out_bytes /\
     exists pre tail, file_encode_w out = Ok pre /\ out_bytes = pre ++ tail /\ lenN pre = swm).
Proof.
  intros Hok Htool Hlen.
  destruct (crop_tool_decodes _ _ _ Hok Htool Hlen) as (ts & ci & out & ranges & swm & Hd & Hs & Hc & H).
  exists ts, ci, out, ranges, swm. split; [assumption|]. split; [assumption|]. split; [assumption|].
  intros Hex Hfits. destruct (H Hex Hfits) as (nd & xs & pre & body & H2 & H3 & H4 & H5 & H6 & H7 & H8 & H9 & H10).
  split; [now exists nd, xs, pre, body|].
  exists pre, (enc_hdr n_mdat (8 + lenN body) ++ body). split; [assumption|]. split; [assumption|].
  rewrite (crop_tree_size _ _ _ _ _ _ _ Hs Hc), <- H5. unfold u64. symmetry. apply N.mod_small.
  rewrite H9, lenN_app in Hlen. lia.
Qed.
