(* C10E2EProofs.v — updateChunkOffsets and the end-to-end statement: in the output file (non-mdat boxes of S bytes, then
   an mdat header of h bytes, then the concatenated byte ranges) every new chunk offset points inside the new mdat payload
   and every kept sample, located through the OUTPUT's cropped and shifted tables, holds the bytes it held in the input. *)
From V.lib Require Import Base.
From V.c09 Require Import C09Model C09Spec C09BaseProofs C09SttsProofs C09StscProofs C09TrakProofs.
From V.c10 Require Import C10Model C10RlProofs C10StscProofs C10ConsProofs C10LayoutProofs C10TermProofs.

(* ---------- small list facts ---------- *)
Lemma nthN_firstnN {A} : forall (l : list A) k i, i < k -> nthN (firstnN l k) i = nthN l i.
Proof.
  unfold firstnN. induction l as [|x t IH]; intros k i H; [rewrite firstn_nil; reflexivity|].
  destruct (N.to_nat k) as [|m] eqn:Ek; [lia|]. cbn [firstn nthN]. destruct (i =? 0) eqn:E; [reflexivity|].
  replace m with (N.to_nat (k - 1)) by lia. apply IH. lia.
Qed.

Lemma sublist_firstnN {A} (l : list A) k a n : a + n <= k -> sublist (firstnN l k) a n = sublist l a n.
Proof.
  intros H. unfold sublist, firstnN. rewrite skipn_firstn_comm, firstn_firstn. f_equal. lia.
Qed.

Lemma In_nthN {A} (l : list A) x : In x l -> exists i, nthN l i = Some x.
Proof.
  induction l as [|y t IH]; intros H; [contradiction|]. destruct H as [->|H].
  - exists 0. reflexivity.
  - destruct (IH H) as [i Hi]. exists (i + 1). rewrite nthN_S. exact Hi.
Qed.

Lemma sumN_firstnN_le l k : sumN (firstnN l k) <= sumN l.
Proof.
  unfold firstnN. rewrite <- (firstn_skipn (N.to_nat k) l) at 2. rewrite sumN_app. lia.
Qed.

Lemma sublist_app_skip {A} (p l : list A) x n : sublist (p ++ l) (lenN p + x) n = sublist l x n.
Proof.
  unfold sublist, lenN. rewrite skipn_app.
  replace (N.to_nat (N.of_nat (length p) + x)) with (length p + N.to_nat x)%nat by lia.
  rewrite skipn_all2 by lia. cbn [app]. f_equal. f_equal. lia.
Qed.

(* ---------- inversion of cropStblChildren on one track ---------- *)
Lemma update_stco_Ok : forall l l', update_stco l = Ok l' -> l' = l /\ forallb is_u32 l = true.
Proof.
  induction l as [|x t IH]; intros l' H; cbn [update_stco] in H.
  - injection H as <-. split; reflexivity.
  - destruct (4294967295 <? x) eqn:E; [discriminate|].
    destruct (update_stco t) as [t'| | |] eqn:Et; try discriminate. cbn [rbind] in H. injection H as <-.
    destruct (IH t' eq_refl) as [-> Hu]. split; [reflexivity|]. cbn [forallb]. rewrite Hu. unfold is_u32. lia.
Qed.

Lemma crop_tables_inv tb k offs tb' : crop_tables tb k offs = Ok tb' ->
  crop_stsc (t_stsc tb) k = Ok (t_stsc tb') /\
  match t_stco tb with Some _ => forallb is_u32 offs = true | None => True end.
Proof.
  unfold crop_tables. intros H.
  destruct (crop_stts (t_stts_count tb) (t_stts_delta tb) k) as [st| | |]; try discriminate. cbn [rbind] in H.
  destruct (match t_ctts tb with None => Ok None | Some c => do c' <- crop_ctts c k; Ok (Some c') end) as [ct| | |];
    try discriminate. cbn [rbind] in H.
  destruct (crop_stsc (t_stsc tb) k) as [sc| | |]; try discriminate. cbn [rbind] in H.
  destruct (crop_stsz (t_stsz tb) k) as [sz| | |]; try discriminate. cbn [rbind] in H.
  destruct (t_stco tb) as [l|].
  - destruct (update_stco offs) as [l'| | |] eqn:Eu; try discriminate. cbn [rbind] in H. injection H as <-.
    cbn [t_stsc]. split; [reflexivity|]. apply (update_stco_Ok offs l' Eu).
  - cbn [rbind] in H. injection H as <-. cbn [t_stsc]. split; [reflexivity|exact I].
Qed.

(* ---------- updateChunkOffsets on one track ---------- *)
Definition new_off (S h first o : N) : N := S + h + (o - first).

Lemma shift_val h S first o : first <= o -> o < 18446744073709551616 -> S + h + (o - first) < 18446744073709551616 ->
  u64 (o + shift_delta h S first) = new_off S h first o.
Proof.
  intros H1 H2 H3. unfold shift_delta, new_off, sub64, u64.
  rewrite (N.mod_small S) by lia. rewrite (N.mod_small (S + h)) by lia. rewrite (N.mod_small first) by lia.
  destruct (N.le_gt_cases first (S + h)) as [L|G].
  - replace (S + h + 18446744073709551616 - first) with ((S + h - first) + 1 * 18446744073709551616) by lia.
    rewrite N.mod_add by discriminate. rewrite (N.mod_small (S + h - first)) by lia.
    replace (o + (S + h - first)) with (S + h + (o - first)) by lia. apply N.mod_small. lia.
  - rewrite (N.mod_small (S + h + 18446744073709551616 - first)) by lia.
    replace (o + (S + h + 18446744073709551616 - first)) with ((S + h + (o - first)) + 1 * 18446744073709551616) by lia.
    rewrite N.mod_add by discriminate. apply N.mod_small. lia.
Qed.

Lemma shift_stco_spec d f : forall l l', (forall o, In o l -> u64 (o + d) = f o) -> shift_stco d l = Ok l' ->
  l' = map f l /\ forallb is_u32 l' = true.
Proof.
  induction l as [|x t IH]; intros l' Hf H; cbn [shift_stco] in H.
  - injection H as <-. split; reflexivity.
  - cbv zeta in H. destruct (4294967296 <=? u64 (x + d)) eqn:E; [discriminate|].
    destruct (shift_stco d t) as [t'| | |] eqn:Et; try discriminate. cbn [rbind] in H. injection H as <-.
    destruct (IH t' (fun o Ho => Hf o (or_intror Ho)) eq_refl) as [-> Hu].
    cbn [map forallb]. rewrite <- (Hf x (or_introl eq_refl)). split; [reflexivity|]. rewrite Hu. unfold is_u32. lia.
Qed.

Lemma shift_co64_spec d f l : (forall o, In o l -> u64 (o + d) = f o) -> shift_co64 d l = map f l.
Proof. intros Hf. unfold shift_co64. apply map_ext_in. exact Hf. Qed.

(* the shifted tables: same tables, offsets mapped *)
Lemma shift_track_spec d f tb tb2 : (forall o, In o (offsets tb) -> u64 (o + d) = f o) ->
  shift_track d tb = Ok tb2 ->
  offsets tb2 = map f (offsets tb) /\ t_stsz tb2 = t_stsz tb /\ t_stsc tb2 = t_stsc tb /\
  t_stts_count tb2 = t_stts_count tb /\ t_stts_delta tb2 = t_stts_delta tb /\ t_ctts tb2 = t_ctts tb /\
  t_stss tb2 = t_stss tb /\ t_sdtp tb2 = t_sdtp tb /\
  match t_stco tb2 with Some l => forallb is_u32 l = true | None => t_co64 tb2 <> None end.
Proof.
  intros Hf H. unfold shift_track in H. unfold offsets in *.
  destruct (t_stco tb) as [l|] eqn:Es.
  - destruct (shift_stco d l) as [l'| | |] eqn:El; try discriminate. cbn [rbind] in H. injection H as <-.
    destruct (shift_stco_spec d f l l' Hf El) as [-> Hu]. cbn [set_offsets t_stco t_co64 t_stsz t_stsc t_stts_count t_stts_delta t_ctts t_stss t_sdtp].
    repeat split; try reflexivity. exact Hu.
  - destruct (t_co64 tb) as [l|] eqn:Ec; [|discriminate]. injection H as <-.
    cbn [set_offsets t_stco t_co64 t_stsz t_stsc t_stts_count t_stts_delta t_ctts t_stss t_sdtp].
    rewrite (shift_co64_spec d f l Hf). repeat split; try reflexivity. discriminate.
Qed.

(* ---------- one track, end to end ---------- *)
Lemma track_end_to_end file out first' S h t pre hdr tb' tb2 :
  static_ok file t -> 1 <= ts_last_sample t <= nsamples (ts_tb t) ->
  S_chunk_of (ts_tb t) (ts_last_sample t) = Some (ts_last_chunk t) ->
  lenN (ts_offsets t) = ts_last_chunk t ->
  (forall c, 1 <= c <= ts_last_chunk t ->
             exists no, nthN (ts_offsets t) (c - 1) = Some no /\ chunk_placed file out first' t c no) ->
  first' + lenN out + sumN (sizes (ts_tb t)) < 18446744073709551616 ->
  lenN pre = S -> lenN hdr = h -> S + h + lenN out < 18446744073709551616 ->
  crop_tables (ts_tb t) (ts_last_sample t) (ts_offsets t) = Ok tb' ->
  shift_track (shift_delta h S first') tb' = Ok tb2 ->
  consistent tb' = true /\ nsamples tb2 = ts_last_sample t /\ nchunks tb2 = ts_last_chunk t /\
  (forall c, 1 <= c <= ts_last_chunk t ->
     exists o, S_chunk_offset tb2 c = Some o /\ S + h <= o /\
               o + csize (ts_tb t) (ts_last_sample t) c <= S + h + lenN out) /\
  (forall n, 1 <= n <= ts_last_sample t ->
     exists off off' sz, S_offset_of (ts_tb t) n = Some off /\ S_size (ts_tb t) n = Some sz /\
                         S_offset_of tb2 n = Some off' /\ S_size tb2 n = Some sz /\
                         sublist (pre ++ hdr ++ out) off' sz = sublist file off sz).
Proof.
  intros Hst Hk Hch Hlen Hpl Hb HS Hh Hb2 Hcrop Hshift.
  set (tb := ts_tb t) in *. set (k := ts_last_sample t) in *. set (C := ts_last_chunk t) in *.
  set (offs := ts_offsets t) in *.
  pose proof Hst as [Hc _].
  destruct (crop_tables_inv tb k offs tb' Hcrop) as [Hsc Hu32].
  (* bounds on the new offsets before the shift *)
  assert (Hno : forall o, In o offs -> first' <= o /\ o - first' <= lenN out).
  { intros o Ho. destruct (In_nthN _ _ Ho) as [i Hi]. pose proof (nthN_Some_lt _ _ _ Hi) as Hil.
    destruct (Hpl (i + 1) ltac:(lia)) as [no [Hn [oo [_ [A [B _]]]]]].
    replace (i + 1 - 1) with i in Hn by lia. rewrite Hi in Hn. injection Hn as <-. lia. }
  assert (Hnok : new_offsets_ok tb k offs = true).
  { unfold new_offsets_ok. rewrite Hch. apply andb_true_intro. split; [apply andb_true_intro; split|].
    - lia.
    - apply forallb_forall. intros o Ho. destruct (Hno o Ho). pose proof (sumN_firstnN_le (sizes tb) k). lia.
    - destruct (t_stco tb); [exact Hu32|reflexivity]. }
  destruct (crop_tables_consistent tb Hc k offs Hk Hnok)
    as [tb1 [Hcrop1 [Hc' [HN' [_ [Hsizes [_ [_ [_ [Hsch Hoffs]]]]]]]]]].
  rewrite Hcrop in Hcrop1. injection Hcrop1 as <-.
  (* the shift *)
  assert (Hf : forall o, In o (offsets tb') -> u64 (o + shift_delta h S first') = new_off S h first' o).
  { intros o Ho. rewrite Hoffs in Ho. destruct (Hno o Ho). apply shift_val; unfold new_off; lia. }
  destruct (shift_track_spec _ _ tb' tb2 Hf Hshift) as [Ho2 [Hz2 [Hs2 _]]].
  rewrite Hoffs in Ho2.
  assert (Hsz2 : sizes tb2 = firstnN (sizes tb) k) by (unfold sizes in *; rewrite Hz2; exact Hsizes).
  assert (HN2 : nsamples tb2 = k) by (unfold nsamples in *; rewrite Hsz2, <- Hsizes; exact HN').
  assert (HC2 : nchunks tb2 = C).
  { unfold nchunks. rewrite Ho2. unfold lenN. rewrite map_length. fold (lenN offs). exact Hlen. }
  assert (HC' : nchunks tb' = C) by (unfold nchunks; rewrite Hoffs; exact Hlen).
  assert (Hcnt2 : counts_of tb2 = counts_of tb') by (unfold counts_of; rewrite Hs2, HC2, HC'; reflexivity).
  (* the first sample of every kept chunk is unchanged *)
  destruct (stsc_crop_correct tb Hc k Hk) as [b' [C' [Hb' [HchC [HCr [Hcc _]]]]]].
  rewrite Hch in HchC. injection HchC as <-. rewrite Hsc in Hb'. injection Hb' as <-.
  destruct (stsc_facts tb Hc) as [_ [_ [_ [_ [_ [_ [_ [_ [HlenC _]]]]]]]]].
  assert (Hfic : forall c, 1 <= c <= C -> S_first_in_chunk tb2 c = S_first_in_chunk tb c).
  { intros c Hcr. unfold S_first_in_chunk. rewrite Hcnt2. unfold counts_of at 1. rewrite HC', Hcc.
    f_equal. f_equal. fold (firstnN (firstnN (counts_of tb) (C - 1) ++ [k + 1 - S_first_in_chunk tb C]) (c - 1)).
    rewrite firstnN_app_l by (rewrite lenN_firstnN; lia).
    unfold firstnN. rewrite firstn_firstn. f_equal. lia. }
  split; [exact Hc'|]. split; [exact HN2|]. split; [exact HC2|]. split.
  - (* chunk offsets inside the new mdat payload *)
    intros c Hcr. destruct (Hpl c Hcr) as [no [Hn [oo [_ [A [B _]]]]]].
    exists (new_off S h first' no). split.
    + unfold S_chunk_offset. destruct (c =? 0) eqn:E; [lia|]. rewrite Ho2, nthN_map, Hn. reflexivity.
    + unfold new_off. subst tb k. lia.
  - (* every kept sample *)
    intros n Hn.
    destruct (chunk_of_sample_correct tb' Hc' n ltac:(lia)) as [c [Hcn [Hcr _]]].
    assert (Hcn0 : S_chunk_of tb n = Some c).
    { unfold S_chunk_of in *. destruct (n =? 0) eqn:E; [lia|]. rewrite Hsch in Hcn. rewrite nthN_firstnN in Hcn by lia. exact Hcn. }
    rewrite HC' in Hcr.
    destruct (Hpl c Hcr) as [no [Hno' Hplaced]].
    destruct (sample_placed file out first' t c no n Hst Hplaced Hcn0 ltac:(fold k; lia) ltac:(fold tb; lia))
      as [off [sz [Hoff [Hsz Hbytes]]]].
    destruct Hplaced as [oo [_ [A [B _]]]].
    exists off, (new_off S h first' no + S_total_size tb (S_first_in_chunk tb c) (n - 1)), sz.
    split; [exact Hoff|]. split; [exact Hsz|].
    assert (Hcn2 : S_chunk_of tb2 n = Some c).
    { unfold S_chunk_of in *. destruct (n =? 0) eqn:E; [lia|]. rewrite Hcnt2. exact Hcn. }
    assert (Htot : S_total_size tb2 (S_first_in_chunk tb c) (n - 1) = S_total_size tb (S_first_in_chunk tb c) (n - 1)).
    { unfold S_total_size. rewrite Hsz2.
      destruct (N.le_gt_cases (S_first_in_chunk tb c) n) as [L|G].
      - rewrite sublist_firstnN; [reflexivity|]. unfold S_first_in_chunk in *. lia.
      - replace (n - 1 + 1 - S_first_in_chunk tb c) with 0 by lia. reflexivity. }
    split; [|split].
    + unfold S_offset_of. rewrite Hcn2. unfold S_chunk_offset. destruct (c =? 0) eqn:E; [lia|].
      rewrite Ho2, nthN_map, Hno'. cbn [option_map]. rewrite (Hfic c Hcr), Htot. reflexivity.
    + unfold S_size in *. destruct (n =? 0) eqn:E; [lia|]. rewrite Hsz2, nthN_firstnN by lia. exact Hsz.
    + rewrite <- Hbytes. unfold new_off. rewrite app_assoc.
      replace (S + h + (no - first') + S_total_size tb (S_first_in_chunk tb c) (n - 1))
        with (lenN (pre ++ hdr) + (no - first' + S_total_size tb (S_first_in_chunk tb c) (n - 1)))
        by (rewrite lenN_app; lia).
      apply sublist_app_skip.
Qed.

(* ---------- all tracks ---------- *)
Lemma P_initial t : ts_next t = 1 -> P t = sumN (sizes (ts_tb t)).
Proof.
  intros H. unfold P. rewrite H. unfold S_first_in_chunk, S_total_size, sublist, nsamples, lenN.
  replace (N.to_nat (1 - 1)) with 0%nat by lia. cbn [firstn sumN].
  replace (N.to_nat (1 + 0 - 1)) with 0%nat by lia. cbn [skipn].
  replace (N.to_nat (N.of_nat (length (sizes (ts_tb t))) + 1 - (1 + 0))) with (length (sizes (ts_tb t))) by lia.
  rewrite firstn_all. reflexivity.
Qed.

Lemma P_In_le_pot ts t : In t ts -> P t <= pot ts.
Proof.
  unfold pot. induction ts as [|x r IH]; intros H; [contradiction|]. cbn [map sumN].
  destruct H as [->|H]; [lia|]. specialize (IH H). lia.
Qed.

Definition cut_ok (t : trak_state) : Prop :=
  1 <= ts_last_sample t <= nsamples (ts_tb t) /\ S_chunk_of (ts_tb t) (ts_last_sample t) = Some (ts_last_chunk t).

Definition track_result (file out pre hdr : list N) (S h first' : N) (t : trak_state) : Prop :=
  forall tb' tb2, crop_tables (ts_tb t) (ts_last_sample t) (ts_offsets t) = Ok tb' ->
  shift_track (shift_delta h S first') tb' = Ok tb2 ->
  consistent tb' = true /\ nsamples tb2 = ts_last_sample t /\ nchunks tb2 = ts_last_chunk t /\
  (forall c, 1 <= c <= ts_last_chunk t ->
     exists o, S_chunk_offset tb2 c = Some o /\ S + h <= o /\
               o + csize (ts_tb t) (ts_last_sample t) c <= S + h + lenN out) /\
  (forall n, 1 <= n <= ts_last_sample t ->
     exists off off' sz, S_offset_of (ts_tb t) n = Some off /\ S_size (ts_tb t) n = Some sz /\
                         S_offset_of tb2 n = Some off' /\ S_size tb2 n = Some sz /\
                         sublist (pre ++ hdr ++ out) off' sz = sublist file off sz).

Lemma samples_end_to_end file ts0 S h pre hdr :
  Forall (static_ok file) ts0 -> Forall (fun t => ts_next t = 1 /\ ts_offsets t = []) ts0 -> Forall cut_ok ts0 ->
  4611686018427387904 + 2 * pot ts0 < 18446744073709551616 ->
  lenN pre = S -> lenN hdr = h -> S + h + pot ts0 < 18446744073709551616 ->
  exists ts' ranges first', fill_loop (fill_fuel ts0) ts0 [] 0 0 = Ok (ts', ranges, first') /\
    map static ts' = map static ts0 /\ Forall (range_in file) ranges /\
    Forall (track_result file (out_bytes file ranges) pre hdr S h first') ts'.
Proof.
  intros Hst Hinit Hcut HB HS Hh HB2.
  destruct (layout_total file ts0 Hst Hinit ltac:(lia)) as [ts' [ranges [first' [Hrun [Hstat Hall]]]]].
  destruct (layout_ranges file ts0 _ ts' ranges first' Hst Hinit ltac:(lia) Hrun) as [Hrin [Hf62 Hlen]].
  exists ts', ranges, first'. split; [exact Hrun|]. split; [exact Hstat|]. split; [exact Hrin|].
  rewrite Forall_forall in *. intros t Hin.
  destruct (Hall t Hin) as [Hs [_ [Hlo Hpl]]].
  (* the initial state of this track *)
  assert (H0 : exists t0, In t0 ts0 /\ static t0 = static t).
  { assert (Hi : In (static t) (map static ts0)) by (rewrite <- Hstat; apply in_map; exact Hin).
    apply in_map_iff in Hi. destruct Hi as [t0 [E I0]]. exists t0. split; assumption. }
  destruct H0 as [t0 [Hin0 Est]]. unfold static in Est. injection Est as Eid Etb Els Elc.
  destruct (Hcut t0 Hin0) as [Hk Hch]. rewrite Etb, Els, Elc in *.
  destruct (Hinit t0 Hin0) as [Hn1 _].
  pose proof (P_In_le_pot ts0 t0 Hin0) as HP. rewrite (P_initial t0 Hn1), Etb in HP.
  intros tb' tb2 Hcrop Hshift.
  apply (track_end_to_end file (out_bytes file ranges) first' S h t pre hdr tb' tb2); try assumption; lia.
Qed.

(* shift_tracks / crop_all succeed track by track *)
Lemma shift_tracks_Forall2 d : forall tbs tbs', shift_tracks d tbs = Ok tbs' ->
  Forall2 (fun a b => shift_track d a = Ok b) tbs tbs'.
Proof.
  induction tbs as [|tb r IH]; intros tbs' H; cbn [shift_tracks] in H.
  - injection H as <-. constructor.
  - destruct (shift_track d tb) as [tb'| | |] eqn:E; try discriminate. cbn [rbind] in H.
    destruct (shift_tracks d r) as [r'| | |] eqn:Er; try discriminate. cbn [rbind] in H. injection H as <-.
    constructor; [exact E|apply IH; reflexivity].
Qed.

Lemma crop_all_Forall2 : forall ts tbs, crop_all ts = Ok tbs ->
  Forall2 (fun t b => crop_tables (ts_tb t) (ts_last_sample t) (ts_offsets t) = Ok b) ts tbs.
Proof.
  induction ts as [|t r IH]; intros tbs H; cbn [crop_all] in H.
  - injection H as <-. constructor.
  - destruct (crop_tables (ts_tb t) (ts_last_sample t) (ts_offsets t)) as [tb'| | |] eqn:E; try discriminate. cbn [rbind] in H.
    destruct (crop_all r) as [r'| | |] eqn:Er; try discriminate. cbn [rbind] in H. injection H as <-.
    constructor; [exact E|apply IH; reflexivity].
Qed.

(* the shift must use the size of the header that is actually written: with the input's 16-byte largesize header size
   in updateChunkOffsets and the 8-byte header writeMdat writes, sample 1 is read 8 bytes too far *)
Definition wx_file : list N := map N.of_nat (seq 0 400).
Definition wx_tb : tables :=
  mkTables [3; 1; 3] [10; 20; 5] None (mkStsc [mkEntry 1 2 1; mkEntry 3 3 5] 0 [1; 2])
           (mkStsz 0 7 [4; 5; 6; 7; 8; 9; 10]) (Some [100; 200; 300]) None None None.
Lemma wrong_header_refuted :
  exists ts' ranges tb' tb8 tb16 pre hdr,
    fill_loop (fill_fuel [mkTS 1 wx_tb 5 3 1 []]) [mkTS 1 wx_tb 5 3 1 []] [] 0 0 = Ok (ts', ranges, 100) /\
    lenN pre = 50 /\ lenN hdr = 8 /\
    crop_all ts' = Ok [tb'] /\
    update_chunk_offsets_h 8 50 100 [tb'] = Ok [tb8] /\ update_chunk_offsets_h 16 50 100 [tb'] = Ok [tb16] /\
    S_offset_of wx_tb 1 = Some 100 /\ S_offset_of tb8 1 = Some 58 /\ S_offset_of tb16 1 = Some 66 /\
    sublist (pre ++ hdr ++ out_bytes wx_file ranges) 58 4 = sublist wx_file 100 4 /\
    sublist (pre ++ hdr ++ out_bytes wx_file ranges) 66 4 <> sublist wx_file 100 4.
Proof.
  eexists _, _, _, _, _, (repeat 0 50), (repeat 0 8).
  split; [vm_compute; reflexivity|]. split; [reflexivity|]. split; [reflexivity|].
  split; [vm_compute; reflexivity|]. split; [vm_compute; reflexivity|]. split; [vm_compute; reflexivity|].
  split; [vm_compute; reflexivity|]. split; [vm_compute; reflexivity|]. split; [vm_compute; reflexivity|].
  split; [vm_compute; reflexivity|]. vm_compute. discriminate.
Qed.

(* the per-sample lists of the OUTPUT tables (after the shift) are the k-prefixes of the input's *)
Definition prefix_lists (tb tb2 : tables) (k : N) : Prop :=
  durs tb2 = firstnN (durs tb) k /\ sizes tb2 = firstnN (sizes tb) k /\
  (forall c, t_ctts tb = Some c -> exists c', t_ctts tb2 = Some c' /\ ctos_of c' = firstnN (ctos_of c) k) /\
  (forall l, t_stss tb = Some l -> t_stss tb2 = Some (filter (fun y => y <=? k) l)) /\
  (forall l, t_sdtp tb = Some l -> t_sdtp tb2 = Some (firstnN l k)) /\
  sample_chunks (counts_of tb2) 1 = firstnN (sample_chunks (counts_of tb) 1) k.

Lemma track_prefix file out first' S h t tb' tb2 :
  static_ok file t -> 1 <= ts_last_sample t <= nsamples (ts_tb t) ->
  S_chunk_of (ts_tb t) (ts_last_sample t) = Some (ts_last_chunk t) ->
  lenN (ts_offsets t) = ts_last_chunk t ->
  (forall c, 1 <= c <= ts_last_chunk t ->
             exists no, nthN (ts_offsets t) (c - 1) = Some no /\ chunk_placed file out first' t c no) ->
  first' + lenN out + sumN (sizes (ts_tb t)) < 18446744073709551616 ->
  S + h + lenN out < 18446744073709551616 ->
  crop_tables (ts_tb t) (ts_last_sample t) (ts_offsets t) = Ok tb' ->
  shift_track (shift_delta h S first') tb' = Ok tb2 ->
  prefix_lists (ts_tb t) tb2 (ts_last_sample t).
Proof.
  intros Hst Hk Hch Hlen Hpl Hb Hb2 Hcrop Hshift.
  pose proof Hst as [Hc _].
  destruct (crop_tables_inv _ _ _ _ Hcrop) as [_ Hu32].
  assert (Hno : forall o, In o (ts_offsets t) -> first' <= o /\ o - first' <= lenN out).
  { intros o Ho. destruct (In_nthN _ _ Ho) as [i Hi]. pose proof (nthN_Some_lt _ _ _ Hi) as Hil.
    destruct (Hpl (i + 1) ltac:(lia)) as [no [Hn [oo [_ [A [B _]]]]]].
    replace (i + 1 - 1) with i in Hn by lia. rewrite Hi in Hn. injection Hn as <-. lia. }
  assert (Hnok : new_offsets_ok (ts_tb t) (ts_last_sample t) (ts_offsets t) = true).
  { unfold new_offsets_ok. rewrite Hch. apply andb_true_intro. split; [apply andb_true_intro; split|].
    - lia.
    - apply forallb_forall. intros o Ho. destruct (Hno o Ho). pose proof (sumN_firstnN_le (sizes (ts_tb t)) (ts_last_sample t)). lia.
    - destruct (t_stco (ts_tb t)); [exact Hu32|reflexivity]. }
  destruct (crop_tables_consistent (ts_tb t) Hc _ _ Hk Hnok)
    as [tb1 [Hcrop1 [_ [_ [Hd [Hsizes [Hct [Hss [Hsd [Hsch Hoffs]]]]]]]]]].
  rewrite Hcrop in Hcrop1. injection Hcrop1 as <-.
  assert (Hf : forall o, In o (offsets tb') -> u64 (o + shift_delta h S first') = new_off S h first' o).
  { intros o Ho. rewrite Hoffs in Ho. destruct (Hno o Ho). apply shift_val; unfold new_off; lia. }
  destruct (shift_track_spec _ _ tb' tb2 Hf Hshift) as [Ho2 [Hz2 [Hs2 [Hc2 [Hd2 [Hct2 [Hss2 [Hsd2 _]]]]]]]].
  assert (HC2 : nchunks tb2 = nchunks tb') by (unfold nchunks; rewrite Ho2; unfold lenN; rewrite map_length; reflexivity).
  unfold prefix_lists. split; [unfold durs in *; rewrite Hc2, Hd2; exact Hd|].
  split; [unfold sizes in *; rewrite Hz2; exact Hsizes|]. rewrite Hct2, Hss2, Hsd2.
  split; [exact Hct|]. split; [exact Hss|]. split; [exact Hsd|].
  unfold counts_of in *. rewrite Hs2, HC2. exact Hsch.
Qed.
