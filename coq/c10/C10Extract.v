(* Extraction of the C10 model for the correspondence check. *)
From V.lib Require Import Base.
From V.c08 Require Import C08Model.
From V.c09 Require Import C09Model C09Spec.
From V.c01 Require Import C01Model C01FileModel.
From V.c10 Require Import C10Model C10FileModel C10TreeModel.
Require Import ExtrOcamlBasic.
Separate Extraction
  C09Model.tables C09Model.stsc_box C09Model.ctts_box C09Model.stsz_box C09Model.chunk trak_state trak_in
  ctts_decode ctts_add stsc_decode stsc_add_entries stsc_chunk_nr_from_sample_nr C09Model.stsc_get_chunk
  crop_stts crop_stss crop_ctts crop_stsc crop_stsc_pinned crop_stsz crop_sdtp update_stco update_co64
  find_end_time find_end_time_pinned find_trak_end fill_loop fill_fuel
  update_chunk_offsets update_chunk_offsets_h shift_stco_pinned shift_delta write_upto_mdat_durs ranges_size write_mdat
  crop_mp4 crop_mp4_file crop_mp4_all find_sync_trak stbl_var_size size_without_mdat trak_h C08Model.mdat_mem C08Model.mdat_lazy
  consistent crop_tool crop_tool_report.
