(* Extraction of the C10 model for the correspondence check. *)
From V.lib Require Import Base.
From V.c09 Require Import C09Model C09Spec.
From V.c10 Require Import C10Model.
Require Import ExtrOcamlBasic.
Separate Extraction
  tables stsc_box ctts_box stsz_box chunk trak_state
  ctts_decode ctts_add stsc_decode stsc_add_entries stsc_chunk_nr_from_sample_nr stsc_get_chunk
  crop_stts crop_stss crop_ctts crop_stsc crop_stsc_pinned crop_stsz crop_sdtp update_stco update_co64
  find_end_time find_end_time_pinned find_trak_end fill_loop
  consistent.
