(* C10SizeProofs.v — the box sizes of C10FileModel.v are the Size() of C01's box model (C01Model.size_leaf, imported
   read-only; tied to the real Size()/Encode by C01's own correspondence), for the table boxes as C09/C10 represent them. *)
From V.lib Require Import Base.
From V.c01 Require C01Model.
From V.c09 Require Import C09Model C09BaseProofs.
From V.c10 Require Import C10Model C10FileModel.

Lemma stts_size_c01 v f (es : list (N * N)) :
  C01Model.size_leaf (C01Model.LStts v f es) = stts_box_size (map fst es).
Proof. unfold stts_box_size. rewrite lenN_map. reflexivity. Qed.

Lemma ctts_size_c01 v f ends offs (zoffs : list Z) : lenN zoffs = lenN offs ->
  C01Model.size_leaf (C01Model.LCtts v f ends offs) = ctts_box_size (mkCtts ends zoffs).
Proof. intros H. unfold ctts_box_size. cbn [ct_off]. rewrite H. reflexivity. Qed.

Lemma stsc_size_c01 v f (es : list (N * N)) single ids (ents : list stsc_entry) : lenN ents = lenN es ->
  C01Model.size_leaf (C01Model.LStsc v f es single ids) = stsc_box_size (mkStsc ents single ids).
Proof. intros H. unfold stsc_box_size. cbn [sc_entries]. rewrite H. reflexivity. Qed.

Lemma stsz_size_c01 v f uni num ss :
  C01Model.size_leaf (C01Model.LStsz v f uni num ss) = stsz_box_size (mkStsz uni num ss).
Proof. reflexivity. Qed.

Lemma sdtp_size_c01 v f es : C01Model.size_leaf (C01Model.LSdtp v f es) = sdtp_box_size es.
Proof. reflexivity. Qed.

(* stco and stss are C01's 4-byte tables, co64 its 8-byte table *)
Lemma stco_size_c01 name v f items : C01Model.size_leaf (C01Model.LTab name 4 v f items) = stco_box_size items.
Proof. reflexivity. Qed.
Lemma stss_size_c01 name v f items : C01Model.size_leaf (C01Model.LTab name 4 v f items) = stss_box_size items.
Proof. reflexivity. Qed.
Lemma co64_size_c01 name v f items : C01Model.size_leaf (C01Model.LTab name 8 v f items) = co64_box_size items.
Proof. reflexivity. Qed.
