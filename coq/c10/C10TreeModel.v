(* C10TreeModel.v — third model file of C10 (DEFINITIONS ONLY): mp4ff-crop as a function from the bytes of the input file
   and the requested milliseconds to the bytes of the output file, on C01's box-tree model (coq/c01/C01Model.v, imported
   read-only):
     run():      mp4.DecodeFile(ifh, lazy mdat)         = decode_file_sr of C01FileModel (the mdat payload stays in the file);
     cropMP4:    IsFragmented refusal; findEndTime; cropToTime  = crop_mp4_all of C10FileModel on the tables / headers READ
                 OUT OF THE TREE (tables_of_stbl, trak_of) -- `rest` is no longer an input: it is the Size() of the non-mdat
                 top-level boxes minus the Size() of the table boxes;
     cropStblChildren / updateChunkOffsets / writeUptoMdat mutate the boxes in place: out_moov is the input tree with the
                 leaves stts ctts stsc stsz stco co64 stss sdtp replaced by the cropped + shifted tables, the Duration of mvhd
                 and of every tkhd set to the new duration and the elst segment durations reduced (mdhd is NOT touched by
                 the code); every box on the path from moov to a changed leaf gets the size the encoder will write;
     writeUptoMdat: `for _, box := range inMP4.Children { if box.Type() != "mdat" { box.Encode(w) } }` = file_encode_w of
                 the non-mdat top-level boxes in their input order;
     writeMdat:  write_mdat of C10Model on the input bytes.
   Outside the modelled structure (None): a moov / trak / mdia / minf / stbl with a missing or repeated mandatory child
   (Go: nil dereference, or the LAST box of a kind shadows the others), several moov or mdat boxes, a top level whose
   announced sizes do not add up to the file length.  The harness never produces such files; the driver reports them. *)
From V.lib Require Import Base.
From V.c01 Require Import C01Codec C01Model C01FileModel.
From V.c08 Require C08Model.
From V.c09 Require Import C09Model.
From V.c10 Require Import C10Model C10FileModel.

(* ---------- reading the tree ---------- *)
Definition hdr_of (t : mbox) : hdr :=
  match t with MLeaf h _ _ => h | MCont h _ => h | MUnknown h _ => h | MPre h _ _ _ => h end.
Definition leaf_of (t : mbox) : option leaf := match t with MLeaf _ l _ => Some l | _ => None end.

(* the child of a kind when there is exactly one / at most one *)
Definition the_one (n : list N) (cs : list mbox) : option mbox :=
  match filter (named n) cs with [x] => Some x | _ => None end.
Definition at_most_one (n : list N) (cs : list mbox) : option (option mbox) :=
  match filter (named n) cs with [] => Some None | [x] => Some (Some x) | _ => None end.

(* CttsBox.SampleOffset is []int32; the crop only slices it: the 32-bit patterns are carried through C09's Z field *)
Definition ctts_to_c09 (ends offs : list N) : ctts_box := mkCtts ends (map Z.of_N offs).
Definition ctts_offs_of (c : ctts_box) : list N := map Z.to_N (ct_off c).

(* (FirstChunk, SamplesPerChunk, SampleDescriptionID) per entry, as StscBox.Encode reads them *)
Fixpoint stsc_raw (es : list (N * N)) (single : N) (ids : list N) : list (N * N * N) :=
  match es with
  | [] => []
  | (fc, sp) :: t => (fc, sp, if negb (single =? 0) then single else hd 0 ids) :: stsc_raw t single (tl ids)
  end.

Definition tab_items (n : list N) (w : nat) (o : option mbox) : option (option (list N)) :=
  match o with
  | None => Some None
  | Some (MLeaf _ (LTab n' w' _ _ items) _) => if bytes_eqb n n' && Nat.eqb w w' then Some (Some items) else None
  | Some _ => None
  end.

(* Stbl.Stts, .Ctts, .Stsc, .Stsz, .Stco, .Co64, .Stss, .Sdtp as C09 tables (FirstSampleNr of the stsc entries is what
   DecodeStscSR computes: stsc_decode) *)
Definition tables_of_stbl (cs : list mbox) : option tables :=
  obind (the_one n_stts cs) (fun stts =>
  obind (at_most_one n_ctts cs) (fun ctts =>
  obind (the_one n_stsc cs) (fun stsc =>
  obind (the_one n_stsz cs) (fun stsz =>
  obind (at_most_one n_stco cs) (fun stco =>
  obind (at_most_one n_co64 cs) (fun co64 =>
  obind (at_most_one n_stss cs) (fun stss =>
  obind (at_most_one n_sdtp cs) (fun sdtp =>
  match stts, stsc, stsz with
  | MLeaf _ (LStts _ _ es) _, MLeaf _ (LStsc _ _ ses single ids) _, MLeaf _ (LStsz _ _ uni num ss) _ =>
    match stsc_decode (stsc_raw ses single ids) with
    | Ok sc =>
      obind (match ctts with
             | None => Some None
             | Some (MLeaf _ (LCtts _ _ ends offs) _) => Some (Some (ctts_to_c09 ends offs))
             | Some _ => None
             end) (fun ct =>
      obind (tab_items n_stco 4 stco) (fun so =>
      obind (tab_items n_co64 8 co64) (fun c6 =>
      obind (tab_items n_stss 4 stss) (fun sy =>
      obind (match sdtp with
             | None => Some None
             | Some (MLeaf _ (LSdtp _ _ es) _) => Some (Some es)
             | Some _ => None
             end) (fun sd =>
      Some (mkTables (map fst es) (map snd es) ct sc (mkStsz uni num ss) so c6 sy sd))))))
    | _ => None
    end
  | _, _, _ => None
  end)))))))).

Definition handler_code (ht : list N) : N :=
  if bytes_eqb ht (name4 118 105 100 101) then 0          (* "vide" *)
  else if bytes_eqb ht (name4 115 111 117 110) then 1     (* "soun" *)
  else 2.

Definition elst_segs (c : mbox) : option (list N) :=
  match c with MLeaf _ (LElst _ _ es) _ => Some (map (fun e => fst (fst (fst e))) es) | _ => None end.
Fixpoint all_some {A} (l : list (option A)) : option (list A) :=
  match l with
  | [] => Some []
  | Some a :: t => match all_some t with Some r => Some (a :: r) | None => None end
  | None :: _ => None
  end.

(* one trak: (handler + id + timescale + tables, header durations) *)
Definition trak_of (trak : mbox) : option (trak_h * hdr_trak) :=
  let cs := children_of trak in
  obind (the_one n_tkhd cs) (fun tkhd =>
  obind (at_most_one n_edts cs) (fun edts =>
  obind (the_one n_mdia cs) (fun mdia =>
  obind (the_one n_mdhd (children_of mdia)) (fun mdhd =>
  obind (the_one n_hdlr (children_of mdia)) (fun hdlr =>
  obind (the_one n_minf (children_of mdia)) (fun minf =>
  obind (the_one n_stbl (children_of minf)) (fun stbl =>
  obind (tables_of_stbl (children_of stbl)) (fun tb =>
  obind (match edts with
         | None => Some None
         | Some e => match all_some (map elst_segs (children_of e)) with Some gs => Some (Some gs) | None => None end
         end) (fun ed =>
  match tkhd, mdhd, hdlr, trak, mdia, minf, stbl with
  | MLeaf _ (LTkhd _ _ _ _ tid tdur _ _ _ _ _) _, MLeaf _ (LMdhd _ _ _ _ ts mdur _) _, MLeaf _ (LHdlr _ _ _ ht _ _) _,
    MCont _ _, MCont _ _, MCont _ _, MCont _ _ =>
      Some (mkTH (handler_code ht) (mkTI tid ts tb), (tdur, mdur, ed))
  | _, _, _, _, _, _, _ => None
  end))))))))).

(* segment durations of an elst box after writeUptoMdat *)
Fixpoint set_segs (es : list (N * N * N * N)) (g : list N) : list (N * N * N * N) :=
  match es, g with
  | (_, t, ri, rf) :: et, d :: gt => (d, t, ri, rf) :: set_segs et gt
  | _, _ => es
  end.

(* ---------- writing the tree ---------- *)
(* a box as the encoder writes it: compact header announcing Size() *)
Definition mk_leaf (l : leaf) : mbox := MLeaf (mkHdr (leaf_name l) (size_leaf l) 8) l (dflt_rsv l).
Definition mk_cont (n : list N) (cs : list mbox) : mbox := MCont (mkHdr n (8 + sumN (map size_box cs)) 8) cs.

(* The rewriting functions are generic in two views: k is applied to every rebuilt leaf, u to every box the crop does
   not touch.  k = u = identity: the boxes in memory when writeUptoMdat encodes them (out_moov).  k = leaf_as_decoded,
   u = norm_box: the tree a decoder builds from those bytes (out_moov_decoded; C10TreeProofs). *)
Section Views.
Context (k : leaf -> leaf) (u : mbox -> mbox).

Definition upd_named (n : list N) (f : mbox -> mbox) (cs : list mbox) : list mbox :=
  map (fun c => if named n c then f c else u c) cs.
Definition upd_cont (f : list mbox -> list mbox) (t : mbox) : mbox :=
  match t with MCont h cs => mk_cont (h_name h) (f cs) | _ => u t end.

(* `for _, ch := range stbl.Children { switch ch.Type() { ... } }` after cropStblChildren and updateChunkOffsets *)
Definition put_table (tb : tables) (c : mbox) : mbox :=
  match c with
  | MLeaf _ (LStts v f _) _ => mk_leaf (k (LStts v f (combine (t_stts_count tb) (t_stts_delta tb))))
  | MLeaf _ (LCtts v f _ _) _ =>
      match t_ctts tb with Some ct => mk_leaf (k (LCtts v f (ct_end ct) (ctts_offs_of ct))) | None => u c end
  | MLeaf _ (LStsc v f _ _ _) _ =>
      mk_leaf (k (LStsc v f (map (fun e => (first_chunk e, spc e)) (sc_entries (t_stsc tb))) (sc_single (t_stsc tb))
                        (sc_ids (t_stsc tb))))
  | MLeaf _ (LStsz v f _ _ _) _ =>
      mk_leaf (k (LStsz v f (sz_uniform (t_stsz tb)) (sz_number (t_stsz tb)) (sz_sizes (t_stsz tb))))
  | MLeaf _ (LTab n w v f _) _ =>
      let o := if bytes_eqb n n_stco then t_stco tb else if bytes_eqb n n_co64 then t_co64 tb
               else if bytes_eqb n n_stss then t_stss tb else None in
      match o with Some items => mk_leaf (k (LTab n w v f items)) | None => u c end
  | MLeaf _ (LSdtp v f _) _ => match t_sdtp tb with Some es => mk_leaf (k (LSdtp v f es)) | None => u c end
  | _ => u c
  end.

Definition set_tkhd_dur (nd : N) (c : mbox) : mbox :=
  match c with
  | MLeaf _ (LTkhd v f ct mt tid _ layer ag vol wd ht) _ => mk_leaf (k (LTkhd v f ct mt tid nd layer ag vol wd ht))
  | _ => u c
  end.
Definition set_mvhd_dur (nd : N) (c : mbox) : mbox :=
  match c with
  | MLeaf _ (LMvhd v f ct mt ts _ rate vol nt) _ => mk_leaf (k (LMvhd v f ct mt ts nd rate vol nt))
  | _ => u c
  end.
Fixpoint put_elsts (gs : list (list N)) (cs : list mbox) : list mbox :=
  match cs with
  | [] => []
  | c :: t => match c, gs with
              | MLeaf _ (LElst v f es) _, g :: gt => mk_leaf (k (LElst v f (set_segs es g))) :: put_elsts gt t
              | _, _ => u c :: put_elsts gs t
              end
  end.

(* one trak after the crop: new tables, new tkhd duration, new edit lists *)
Definition upd_trak (tb : tables) (x : hdr_trak) (trak : mbox) : mbox :=
  let '(nd, _, ed) := x in
  upd_cont (fun cs =>
    map (fun c =>
      if named n_tkhd c then set_tkhd_dur nd c
      else if named n_edts c then upd_cont (put_elsts (match ed with Some gs => gs | None => [] end)) c
      else if named n_mdia c then
        upd_cont (upd_named n_minf (upd_cont (upd_named n_stbl (upd_cont (map (put_table tb)))))) c
      else u c) cs) trak.

Fixpoint upd_moov_children (nd : N) (xs : list (tables * hdr_trak)) (cs : list mbox) : list mbox :=
  match cs with
  | [] => []
  | c :: t =>
    if named n_trak c then
      match xs with
      | (tb, x) :: xt => upd_trak tb x c :: upd_moov_children nd xt t
      | [] => u c :: upd_moov_children nd xs t
      end
    else (if named n_mvhd c then set_mvhd_dur nd c else u c) :: upd_moov_children nd xs t
  end.

Definition out_moov_g (nd : N) (xs : list (tables * hdr_trak)) (moov : mbox) : mbox :=
  upd_cont (upd_moov_children nd xs) moov.
End Views.

Definition out_moov := out_moov_g (fun l => l) (fun t => t).

(* ---------- what a decoder makes of the rebuilt leaves ---------- *)
Definition fitsw (w : nat) (v : N) : bool := v <? 256 ^ N.of_nat w.
Definition vf_fits (v f : N) : bool := (v <? 256) && (f <? 16777216).
(* the sample description ids StscBox.Encode writes *)
Definition stsc_written (es : list (N * N)) (single : N) (ids : list N) : list N := map snd (stsc_raw es single ids).

(* every number of a rebuilt leaf fits the width of its field (the encoders convert with uintN(v): a larger value would be
   cut), version < 256, flags < 2^24, the lengths the count fields announce are the lengths written; other kinds: true *)
Definition leaf_fits (l : leaf) : bool :=
  match l with
  | LStts v f es =>
      vf_fits v f && (lenN es <? 4294967296) && forallb (fun p => fitsw 4 (fst p) && fitsw 4 (snd p)) es
  | LCtts v f ends offs =>
      vf_fits v f && (lenN offs <? 4294967296) && (lenN ends =? 1 + lenN offs) && (hd 1 ends =? 0) &&
      forallb (fitsw 4) ends && forallb (fitsw 4) offs
  | LStsc v f es single ids =>
      vf_fits v f && (lenN es <? 4294967296) && negb ((single =? 0) && (lenN ids <? lenN es)) &&
      forallb (fun p => fitsw 4 (fst p) && fitsw 4 (snd p)) es && forallb (fitsw 4) (stsc_written es single ids) &&
      match stsc_ids 0 0 [] (stsc_written es single ids) with Some _ => true | None => false end
  | LStsz v f uni num ss =>
      vf_fits v f && fitsw 4 uni && fitsw 4 num && (if uni =? 0 then lenN ss =? num else lenN ss =? 0) &&
      forallb (fitsw 4) ss
  | LTab n w v f items =>
      vf_fits v f && (lenN items <? 4294967296) && forallb (fitsw w) items &&
      ((bytes_eqb n n_stco && Nat.eqb w 4) || (bytes_eqb n n_stss && Nat.eqb w 4) || (bytes_eqb n n_co64 && Nat.eqb w 8))
  | LSdtp v f _ => vf_fits v f
  | LElst v f es =>
      vf_fits v f && (v <=? 1) && (lenN es <? 4294967296) &&
      forallb (fun e => match e with (d, t, ri, rf) =>
                 fitsw (if v =? 1 then 8 else 4) d && fitsw (if v =? 1 then 8 else 4) t && fitsw 2 ri && fitsw 2 rf end) es
  | LMvhd v f ct mt ts du rate vol nt =>
      vf_fits v f && fitsw (if v =? 1 then 8 else 4) ct && fitsw (if v =? 1 then 8 else 4) mt && fitsw 4 ts &&
      fitsw (if v =? 1 then 8 else 4) du && fitsw 4 rate && fitsw 2 vol && fitsw 4 nt
  | LTkhd v f ct mt tid du layer ag vol wd ht =>
      vf_fits v f && fitsw (if v =? 1 then 8 else 4) ct && fitsw (if v =? 1 then 8 else 4) mt && fitsw 4 tid &&
      fitsw (if v =? 1 then 8 else 4) du && fitsw 2 layer && fitsw 2 ag && fitsw 2 vol && fitsw 4 wd && fitsw 4 ht
  | _ => true
  end.
Fixpoint tree_fits (t : mbox) : bool :=
  match t with
  | MLeaf _ l _ => leaf_fits l
  | MCont _ cs => forallb tree_fits cs
  | MUnknown _ _ => true
  | MPre _ _ _ cs => forallb tree_fits cs
  end.

(* DecodeStscSR rebuilds (singleSampleDescriptionID, SampleDescriptionID) from the ids it reads: after a crop the slice form
   in memory (e.g. ids [1;1] left of [1;1;2]) and the decoded form (single id 1) can differ; the bytes are the same *)
Definition leaf_as_decoded (l : leaf) : leaf :=
  match l with
  | LStsc v f es single ids =>
      match stsc_ids 0 0 [] (stsc_written es single ids) with Some (s', i') => LStsc v f es s' i' | None => l end
  | _ => l
  end.
Definition out_moov_decoded := out_moov_g leaf_as_decoded norm_box.

(* ---------- the file ---------- *)
Definition is_mdat (t : mbox) : bool := named n_mdat t.
Definition non_mdat (ts : list mbox) : list mbox := filter (fun t => negb (is_mdat t)) ts.

(* start position of the mdat box: the announced sizes of the boxes before it *)
Fixpoint mdat_start (ts : list mbox) (pos : N) : N :=
  match ts with
  | [] => pos
  | t :: r => if is_mdat t then pos else mdat_start r (pos + h_size (hdr_of t))
  end.

Record crop_in := mkCI {
  ci_moov : mbox;
  ci_hs : list trak_h;               (* handler, id, timescale, tables per trak *)
  ci_tks : list hdr_trak;            (* tkhd duration, mdhd duration, edit lists per trak *)
  ci_mvts : N;                       (* mvhd timescale *)
  ci_rest : N;                       (* Size() of the non-mdat boxes minus Size() of the table boxes *)
  ci_mdat : C08Model.mdat            (* the lazily decoded input mdat *)
}.

Definition scope (input : list N) (ts : list mbox) : option crop_in :=
  obind (the_one n_moov ts) (fun moov =>
  obind (the_one n_mdat ts) (fun mdat =>
  obind (the_one n_mvhd (children_of moov)) (fun mvhd =>
  obind (all_some (map trak_of (filter (named n_trak) (children_of moov)))) (fun tr =>
  match moov, mvhd, mdat with
  | MCont _ _, MLeaf _ (LMvhd _ _ _ _ mvts _ _ _ _) _, MLeaf mh (LMdat _ data) _ =>
      let total := sumN (map size_box (non_mdat ts)) in
      let var := sumN (map (fun t => stbl_var_size (ti_tb (th_trak (fst t)))) tr) in
      if (lenN input =? sumN (map (fun t => h_size (hdr_of t)) ts)) && (var <=? total) then
        Some (mkCI moov (map fst tr) (map snd tr) mvts (total - var)
                   (C08Model.mdat_lazy (mdat_start ts 0) (h_len mh =? 16) (lenN data)))
      else None
  | _, _, _ => None
  end)))).

(* the tree mp4ff-crop encodes (the non-mdat top-level boxes, in input order) and the byte ranges it copies *)
Definition crop_tree (ts : list mbox) (ci : crop_in) (ms : N) : res (list mbox * list (N * N) * N) :=
  if file_frag ts then Err                                   (* "only progressive files are supported" *)
  else
    do r <- crop_mp4_all (ci_hs ci) (ci_mvts ci) (ci_tks ci) ms (ci_rest ci);
    let '(_, _, (tbs, ranges, _, swm), (nd, tks')) := r in
    Ok (map (fun t => if named n_moov t then out_moov nd (combine tbs tks') t else t) (non_mdat ts), ranges, swm).

Definition crop_tool_ts (input : list N) (ts : list mbox) (ms : N) : option (res (list N)) :=
  match scope input ts with
  | None => None
  | Some ci =>
    Some (do x <- crop_tree ts ci ms;
          let '(out, ranges, _) := x in
          do pre <- file_encode_w out;
          do mb <- write_mdat input true (ci_mdat ci) ranges;
          Ok (pre ++ mb))
  end.

(* mp4ff-crop -d ms in out : None = outside the modelled structure *)
Definition crop_tool (input : list N) (ms : N) : option (res (list N)) :=
  match decode_file_sr input with
  | FOk ts => crop_tool_ts input ts ms
  | FErr => Some Err                                         (* "error decoding mp4 file" *)
  | FPanic => Some Panic
  | FFuel => None
  | FSencParse => None
  end.

(* what the driver reports beside the outcome, in one pass: the output bytes, the encoded length of the non-mdat boxes and
   the sizeWithoutMdat that shifted the offsets (they must agree), and the hypotheses of C10_output_decodes on this case
   (input boxes exact, rebuilt leaves fit) *)
Definition crop_tool_report (input : list N) (ms : N) : option (res (list N * (N * N) * (bool * bool))) :=
  match decode_file_sr input with
  | FOk ts =>
    match scope input ts with
    | None => None
    | Some ci =>
      Some (do x <- crop_tree ts ci ms;
            let '(out, ranges, swm) := x in
            do pre <- file_encode_w out;
            do mb <- write_mdat input true (ci_mdat ci) ranges;
            Ok (pre ++ mb, (sumN (map size_box out), swm), (forallb exact_box ts, forallb tree_fits out)))
    end
  | FErr => Some Err
  | FPanic => Some Panic
  | FFuel => None
  | FSencParse => None
  end.
