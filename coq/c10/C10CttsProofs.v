(* C10CttsProofs.v — cropSdtp, cropStss, cropCtts. *)
From V.lib Require Import Base.
From V.c09 Require Import C09Model C09Spec C09BaseProofs C09SttsProofs C09CttsProofs.
From V.c10 Require Import C10Model C10RlProofs.

(* ---------- cropSdtp ---------- *)
Lemma sdtp_crop_correct (l : list N) k : k <= lenN l -> crop_sdtp l k = firstnN l k.
Proof.
  intros H. unfold crop_sdtp. destruct (k <? lenN l) eqn:E; [reflexivity|].
  symmetry. apply firstnN_all. lia.
Qed.

(* ---------- cropStss ---------- *)
Lemma filter_le_sorted_nil l k x : sorted_le (x :: l) = true -> k < x -> filter (fun y => y <=? k) (x :: l) = [].
Proof.
  revert x; induction l as [|y t IH]; intros x Hs Hk; cbn [filter].
  - destruct (x <=? k) eqn:E; [lia|reflexivity].
  - destruct (x <=? k) eqn:E; [lia|].
    assert (x <= y) by (cbn [sorted_le] in Hs; apply andb_prop in Hs; lia).
    apply (IH y (sorted_le_tail _ _ Hs)). lia.
Qed.

Lemma stss_crop_correct l k : sorted_le l = true -> crop_stss l k = filter (fun y => y <=? k) l.
Proof.
  induction l as [|x t IH]; intros Hs; [reflexivity|]. cbn [crop_stss].
  destruct (k <? x) eqn:E.
  - symmetry. apply filter_le_sorted_nil; [exact Hs|lia].
  - cbn [filter]. destruct (x <=? k) eqn:E2; [|lia]. f_equal. apply IH. exact (sorted_le_tail _ _ Hs).
Qed.

Lemma sorted_lt_tail a t : sorted_lt (a :: t) = true -> sorted_lt t = true.
Proof. cbn [sorted_lt]. destruct t as [|b t']; [reflexivity|]. intros H. apply andb_prop in H. tauto. Qed.

Lemma stss_crop_ok l n k : sorted_lt l = true -> forallb (fun x => (1 <=? x) && (x <=? n)) l = true -> k <= n ->
  sorted_lt (crop_stss l k) = true /\ forallb (fun x => (1 <=? x) && (x <=? k)) (crop_stss l k) = true.
Proof.
  induction l as [|x t IH]; intros Hs Hr Hk; [split; reflexivity|]. cbn [crop_stss].
  destruct (k <? x) eqn:E; [split; reflexivity|].
  cbn [forallb] in Hr. apply andb_prop in Hr. destruct Hr as [Hx Hr].
  destruct (IH (sorted_lt_tail _ _ Hs) Hr Hk) as [A B]. split.
  - cbn [sorted_lt]. destruct t as [|y t']; [reflexivity|]. cbn [crop_stss] in *.
    destruct (k <? y) eqn:Ey; [reflexivity|].
    assert (x < y) by (cbn [sorted_lt] in Hs; apply andb_prop in Hs; lia).
    apply andb_true_intro. split; [lia|exact A].
  - cbn [forallb]. rewrite B. apply andb_true_intro. split; [|reflexivity]. lia.
Qed.

Lemma last_cons_ne_local {A} (a : A) l d : l <> [] -> last (a :: l) d = last l d.
Proof. destruct l; [congruence|reflexivity]. Qed.

Lemma last_app_ne_local {A} (l1 l2 : list A) d : l2 <> [] -> last (l1 ++ l2) d = last l2 d.
Proof.
  intros H. induction l1 as [|a t IH]; [reflexivity|].
  cbn [app]. destruct (t ++ l2) as [|a0 l] eqn:E.
  - destruct t; [cbn in E; congruence|discriminate].
  - cbn [last]. exact IH.
Qed.

(* ---------- cropCtts ---------- *)
Lemma diffs_cons2 a b t : diffs (a :: b :: t) = (b - a) :: diffs (b :: t).
Proof. reflexivity. Qed.

Lemma diffs_app a l1 b l2 :
  diffs ((a :: l1) ++ b :: l2) = diffs (a :: l1) ++ (b - last (a :: l1) 0) :: diffs (b :: l2).
Proof.
  revert a; induction l1 as [|x l1 IH]; intros a.
  - reflexivity.
  - cbn [app]. rewrite diffs_cons2. change (x :: l1 ++ b :: l2) with ((x :: l1) ++ b :: l2).
    rewrite (IH x). rewrite (diffs_cons2 a x l1). cbn [app].
    rewrite (last_cons_ne_local a (x :: l1)) by discriminate. reflexivity.
Qed.

Lemma lenN_diffs a l : lenN (diffs (a :: l)) = lenN l.
Proof.
  revert a; induction l as [|x l IH]; intros a; [reflexivity|]. rewrite diffs_cons2, !lenN_cons, IH. reflexivity.
Qed.

Lemma sumN_diffs a l : sorted_le (a :: l) = true -> sumN (diffs (a :: l)) = last (a :: l) 0 - a.
Proof.
  revert a; induction l as [|x l IH]; intros a Hs; [cbn; lia|].
  rewrite diffs_cons2. cbn [sumN]. rewrite (IH x (sorted_le_tail _ _ Hs)).
  rewrite (last_cons_ne_local a (x :: l)) by discriminate.
  assert (a <= x) by (cbn [sorted_le] in Hs; apply andb_prop in Hs; lia).
  assert (x <= last (x :: l) 0).
  { pose proof (nthN_last (x :: l) 0 ltac:(discriminate)) as HL.
    apply (sorted_le_nth (x :: l) (sorted_le_tail _ _ Hs) 0 (lenN (x :: l) - 1) x _ ltac:(lia) eq_refl HL). }
  lia.
Qed.

Lemma sorted_le_app_one l k : sorted_le l = true -> last l 0 <= k -> sorted_le (l ++ [k]) = true.
Proof.
  induction l as [|a t IH]; intros Hs Hk; [reflexivity|].
  destruct t as [|b t'].
  - cbn in *. destruct (a <=? k) eqn:E; [reflexivity|lia].
  - cbn [app sorted_le] in *. apply andb_prop in Hs. destruct Hs as [H1 H2].
    rewrite H1. cbn [andb]. apply IH; assumption.
Qed.

Lemma sorted_le_prefix l1 l2 : sorted_le (l1 ++ l2) = true -> sorted_le l1 = true.
Proof.
  induction l1 as [|a t IH]; intros H; [reflexivity|]. destruct t as [|b t']; [reflexivity|].
  cbn [app sorted_le] in *. apply andb_prop in H. destruct H as [H1 H2]. rewrite H1. cbn [andb]. apply IH. exact H2.
Qed.

Lemma nthN_app_last {A} (l1 : list A) x l2 : nthN (l1 ++ x :: l2) (lenN l1) = Some x.
Proof. rewrite nthN_app. destruct (lenN l1 <? lenN l1) eqn:E; [lia|]. rewrite N.sub_diag. reflexivity. Qed.

Lemma ctts_crop_correct tb c : consistent tb = true -> t_ctts tb = Some c -> forall k, 1 <= k <= nsamples tb ->
  exists c', crop_ctts c k = Ok c' /\ ctos_of c' = firstnN (ctos_of c) k /\
             lenN (ct_end c') = lenN (ct_off c') + 1 /\ hd 1 (ct_end c') = 0 /\ sorted_le (ct_end c') = true /\
             last (ct_end c') 0 = k.
Proof.
  intros H Hc k Hk. destruct (consistent_parts tb H) as [_ [_ [Hct _]]]. unfold ctts_ok in Hct. rewrite Hc in Hct.
  apply andb_prop in Hct. destruct Hct as [Hct Hlast].
  apply andb_prop in Hct. destruct Hct as [Hct Hsort].
  apply andb_prop in Hct. destruct Hct as [Hlen Hhd].
  assert (Hne : ct_end c <> []) by (destruct (ct_end c); [rewrite lenN_nil in Hlen; lia|discriminate]).
  assert (H0 : nthN (ct_end c) 0 = Some 0).
  { destruct (ct_end c) as [|a t]; [congruence|]. cbn [hd] in Hhd. cbn [nthN N.eqb]. f_equal. lia. }
  pose proof (nthN_last (ct_end c) 0 Hne) as HL. replace (last (ct_end c) 0) with (nsamples tb) in HL by lia.
  destruct (bsearch_spec (fun v => v <? k) (ct_end c) (lt_prefix_true _ k Hsort) (bsearch_fuel (ct_end c)) 0
                         (lenN (ct_end c))) as [r [Hr [Hb [H1 H2]]]]; [lia|lia|apply bsearch_fuel_ok; lia|].
  assert (R1 : 1 <= r).
  { destruct (N.eq_dec r 0) as [->|]; [|lia]. specialize (H2 0 0 ltac:(lia) H0). lia. }
  assert (R2 : r <= lenN (ct_end c) - 1).
  { destruct (N.eq_dec r (lenN (ct_end c))) as [->|]; [|lia].
    specialize (H1 (lenN (ct_end c) - 1) (nsamples tb) ltac:(lia) HL). lia. }
  (* split End at r, Off at r-1 *)
  destruct (firstnN_split (ct_end c) r ltac:(lia)) as [E1 [E2 [HE [LE1 FE1]]]].
  destruct E2 as [|hi E2]; [rewrite HE, lenN_app, lenN_nil in R2; lia|].
  destruct E1 as [|e0 E1']; [rewrite lenN_nil in LE1; lia|].
  destruct (firstnN_split (ct_off c) (r - 1) ltac:(lia)) as [O1 [O2 [HO [LO1 FO1]]]].
  destruct O2 as [|o O2]; [rewrite HO, lenN_app, lenN_nil in Hlen; rewrite HE, lenN_app, (lenN_cons hi) in Hlen; lia|].
  assert (He0 : e0 = 0) by (rewrite HE in H0; cbn in H0; congruence).
  set (lo := last (e0 :: E1') 0).
  assert (Hlo : lo < k).
  { pose proof (nthN_last (e0 :: E1') 0 ltac:(discriminate)) as HL1.
    assert (nthN (ct_end c) (r - 1) = Some lo).
    { rewrite HE, nthN_app. destruct (r - 1 <? lenN (e0 :: E1')) eqn:E; [|lia]. rewrite <- LE1. exact HL1. }
    specialize (H1 (r - 1) lo ltac:(lia) H3). lia. }
  assert (Hhi : k <= hi).
  { assert (nthN (ct_end c) r = Some hi) by (rewrite HE, <- LE1; apply nthN_app_last).
    specialize (H2 r hi ltac:(lia) H3). lia. }
  assert (Hlohi : lo <= hi) by lia.
  unfold crop_ctts. rewrite Hr. cbn [rbind]. destruct (lenN (ct_end c) <=? r) eqn:E; [lia|].
  assert (HU : updN (ct_end c) r k = ((e0 :: E1') ++ [k]) ++ E2).
  { rewrite HE, <- LE1, updN_app_mid, <- app_assoc. reflexivity. }
  rewrite HU.
  rewrite slice_to_ok by (rewrite !lenN_app, !lenN_cons, lenN_nil; rewrite lenN_cons in LE1; lia). cbn [rbind].
  assert (F1 : firstnN (((e0 :: E1') ++ [k]) ++ E2) (r + 1) = (e0 :: E1') ++ [k]).
  { rewrite firstnN_app_l by (rewrite lenN_app, (lenN_cons k), lenN_nil; lia).
    apply firstnN_all. rewrite lenN_app, (lenN_cons k), lenN_nil. lia. }
  rewrite F1.
  assert (F2 : slice_to (ct_off c) r = Ok (O1 ++ [o])).
  { rewrite slice_to_ok by lia. f_equal. rewrite HO.
    replace (O1 ++ o :: O2) with ((O1 ++ [o]) ++ O2) by (rewrite <- app_assoc; reflexivity).
    rewrite firstnN_app_l by (rewrite lenN_app, lenN_cons, lenN_nil; lia).
    apply firstnN_all. rewrite lenN_app, lenN_cons, lenN_nil. lia. }
  rewrite F2. cbn [rbind].
  eexists. split; [reflexivity|]. unfold ctos_of. cbn [ct_end ct_off].
  assert (Hs1 : sorted_le (e0 :: E1') = true) by (rewrite HE in Hsort; apply (sorted_le_prefix _ _ Hsort)).
  split; [|split; [|split; [|split]]].
  - rewrite HE, HO. rewrite (diffs_app e0 E1' k []), (diffs_app e0 E1' hi E2). fold lo.
    change (diffs [k]) with (@nil N).
    rewrite (expand_rl_cut (diffs (e0 :: E1')) O1 (hi - lo) o (diffs (hi :: E2)) O2 (k - lo)).
    + f_equal. rewrite (sumN_diffs e0 E1' Hs1). fold lo. lia.
    + rewrite lenN_diffs. rewrite lenN_cons in LE1. lia.
    + lia.
  - rewrite !lenN_app, !lenN_cons, !lenN_nil, ?(@lenN_nil Z). rewrite lenN_cons in LE1. lia.
  - cbn [app hd]. exact He0.
  - apply sorted_le_app_one; [exact Hs1|]. fold lo. lia.
  - rewrite last_app_ne_local by discriminate. reflexivity.
Qed.
