(* C10FileTheorems.v — the theorems of C10 about the OUTPUT FILE of mp4ff-crop as bytes, on C01's box-tree model
   (C10TreeModel.v: crop_tool = decode the input file -> read the tables and headers out of the tree -> cropMP4 ->
   rebuild the boxes -> encode them -> writeMdat).  Kept apart from C10Theorems.v because this file depends on the
   whole of C01's development (a C01 rebuild only re-checks this file).  Each theorem is closed by `exact <lemma>`
   (C10TreeProofs.v) and followed by Print Assumptions. *)
From V.lib Require Import Base.
From V.c01 Require Import C01Codec C01Model C01FileModel C01FileExamples.
From V.c08 Require C08Model.
From V.c10 Require Import C10Model C10FileModel C10TreeModel C10TreeProofs C10TreeSizeProofs.

(* C01's decoder needs no more fuel than the structure of its result (need: one unit per nesting level and per sibling):
   a result obtained with any fuel is obtained with every fuel >= need.  (C01's fixed-point theorem re-decodes with the fuel of
   the input; the cropped file is SHORTER than its input, so this is what makes its decoding a theorem.) *)
Theorem C10_decoder_fuel_irrelevant : forall f bs t r, decode_box f bs = Ok (t, r) ->
  forall f', (need t <= f')%nat -> decode_box f' bs = Ok (t, r).
Proof. exact (fun f => proj1 (fuel_indep f)). Qed.
Print Assumptions C10_decoder_fuel_irrelevant.

(* every leaf the crop REBUILDS (stts ctts stsc stsz stco co64 stss sdtp elst mvhd tkhd) prints and parses: when its numbers
   fit their fields (leaf_fits) and its Size() is below 2^32, the encoder's bytes are Size() many and the decoder -- whatever
   follows them -- returns the same leaf (for stsc: with the sample description ids in the decoder's form, leaf_as_decoded) *)
Theorem C10_rebuilt_leaf_prints_and_parses : forall l, rebuilt l = true -> leaf_fits l = true -> size_leaf l < 4294967296 ->
  ppr (mk_leaf l) (mk_leaf (leaf_as_decoded l)).
Proof. exact ppr_rebuilt. Qed.
Print Assumptions C10_rebuilt_leaf_prints_and_parses.

(* C10_output_file_bytes: for EVERY input file (bytes) and every duration on which the tool model succeeds with output
   out_bytes -- no other hypothesis --: the input decodes (DecodeFileSR with its File-level rules) to boxes ts inside the
   modelled structure (scope); cropMP4 yields the boxes `out` = the non-mdat input boxes in input order (ftyp/moov/mdat and
   mdat-before-moov layouts alike) with the moov replaced by out_moov (out_tree), the byte ranges and sizeWithoutMdat; and
     out_bytes = pre ++ (32-bit size, "mdat") ++ body,
   pre = Box.Encode of the boxes of `out` in order (file_encode_w; the same bytes as encode_seq), body = what writeMdat
   copies, |body| = byteRanges.size(), 8 + |body| < 2^32. *)
Theorem C10_output_file_bytes : forall input ms out_bytes,
  crop_tool input ms = Some (Ok out_bytes) -> lenN out_bytes < 18446744073709551616 ->
  exists ts ci out ranges swm nd xs pre body,
    decode_file_sr input = FOk ts /\ scope input ts = Some ci /\ crop_tree ts ci ms = Ok (out, ranges, swm) /\
    out = out_tree nd xs ts /\ file_encode_w out = Ok pre /\ encode_seq false out = Ok pre /\
    write_mdat input true (ci_mdat ci) ranges = Ok (enc_hdr n_mdat (8 + lenN body) ++ body) /\
    lenN body = ranges_size ranges 0 /\ 8 + lenN body < 4294967296 /\
    out_bytes = pre ++ enc_hdr n_mdat (8 + lenN body) ++ body.
Proof. exact crop_tool_file_bytes. Qed.
Print Assumptions C10_output_file_bytes.

(* C10_output_size: the boxes mp4ff-crop encodes have, TOGETHER, exactly the sizeWithoutMdat that updateChunkOffsets used to
   shift the chunk offsets (as a uint64; no hypothesis beyond the modelled structure): replacing the table leaves changes the
   Size() of the tree by the difference of the table-box sizes (the optional tables of the output are those of the input, cropStts
   keeps as many deltas as counts), tkhd / mvhd / elst keep theirs, nothing else is touched.  With C10_output_file_bytes and
   |pre| = the sum of the Size() (C10_output_decodes): the new mdat payload starts at byte swm + 8 of the file written, the
   position the chunk offsets of C10_crop_end_to_end are relative to -- `rest` of that theorem is (Size() of the non-mdat input
   boxes) - (Size() of the input's table boxes), computed by scope. *)
Theorem C10_output_size : forall input ts ci ms out ranges swm, scope input ts = Some ci ->
  crop_tree ts ci ms = Ok (out, ranges, swm) -> swm = u64 (sumN (map size_box out)).
Proof. exact crop_tree_size. Qed.
Print Assumptions C10_output_size.

(* C10_output_decodes ("its output is a decodable progressive file"): when moreover the input boxes are exact (compact headers
   announcing Size(): C01's exact_box; every file the tools of the library write) and the numbers of the rebuilt leaves fit their
   fields (tree_fits, a boolean the check evaluates on every correspondence case): |pre| = the sum of the Size() of `out`, and
   C01's model of the box loop of DecodeFileSR, run on the bytes the tool wrote, returns exactly the boxes the tool encoded -- in the
   decoder's view (out_tree_decoded: captured reserved bytes = the encoder's values, stsc ids in the decoder's form) -- followed by
   ONE mdat box holding the copied bytes (output_ok, C10TreeProofs.v).  Uses C10_decoder_fuel_irrelevant, C01's stable_all for the
   boxes the crop does not touch, C10_rebuilt_leaf_prints_and_parses for the others (ppr_out_moov: the whole moov). *)
Theorem C10_output_decodes : forall input ms out_bytes,
  bytes_ok input = true -> crop_tool input ms = Some (Ok out_bytes) -> lenN out_bytes < 18446744073709551616 ->
  exists ts ci out ranges swm, decode_file_sr input = FOk ts /\ scope input ts = Some ci /\
    crop_tree ts ci ms = Ok (out, ranges, swm) /\
    (forallb exact_box ts = true -> forallb tree_fits out = true ->
     output_ok input ci ts out ranges out_bytes /\
     (* with C10_output_size: the boxes encoded are exactly sizeWithoutMdat bytes, the new mdat starts right there *)
     exists pre tail, file_encode_w out = Ok pre /\ out_bytes = pre ++ tail /\ lenN pre = swm).
Proof. exact crop_tool_decodes_pos. Qed.
Print Assumptions C10_output_decodes.

(* what the correspondence check runs (crop_tool_report: one pass, also returns the observables the driver compares) is crop_tool *)
Theorem C10_report_is_tool : forall input ms,
  crop_tool input ms =
  match crop_tool_report input ms with
  | None => None
  | Some r => Some (match r with Ok x => Ok (fst (fst x)) | Err => Err | Panic => Panic | OutOfFuel => OutOfFuel end)
  end.
Proof. exact report_is_tool. Qed.
Print Assumptions C10_report_is_tool.

(* the hypotheses are satisfiable, on both layouts: C01's progressive example files (ftyp moov free mdat / ftyp mdat moov,
   one audio track of five samples) cropped at 50 ms keep three samples; the input boxes are exact, the rebuilt leaves fit,
   and decoding the output gives the rebuilt tree followed by the new mdat *)
Definition ex_ok (input : list N) : bool :=
  match decode_file_sr input, crop_tool input 50 with
  | FOk ts, Some (Ok out_bytes) =>
    match scope input ts with
    | Some ci =>
      match crop_tree ts ci 50 with
      | Ok (out, ranges, swm) =>
        forallb exact_box ts && forallb tree_fits out && (sumN (map size_box out) =? swm) &&
        match decode_file out_bytes with
        | Ok ts' => (Nat.eqb (length ts') (S (length out))) && (lenN out_bytes <? lenN input)
        | _ => false
        end
      | _ => false
      end
    | None => false
    end
  | _, _ => false
  end.
Example ex_output_moov_first : bytes_ok fx_prog_moov_first = true /\ ex_ok fx_prog_moov_first = true.
Proof. split; vm_compute; reflexivity. Qed.
Example ex_output_mdat_first : bytes_ok fx_prog_mdat_first = true /\ ex_ok fx_prog_mdat_first = true.
Proof. split; vm_compute; reflexivity. Qed.
