(* C10OutProofs.v — what is written besides the tables: header durations (writeUptoMdat) and the new mdat (writeMdat). *)
From V.lib Require Import Base.
From V.c08 Require C08Model C08ReadProofs.
From V.c09 Require Import C09Model C09Spec C09BaseProofs.
From V.c10 Require Import C10Model C10LayoutProofs.

(* ---------- writeUptoMdat: header durations do not exceed the originals ---------- *)
Definition tk_dur (t : hdr_trak) : N := fst (fst t).
Definition md_dur (t : hdr_trak) : N := snd (fst t).
Definition tk_elst (t : hdr_trak) : option (list (list N)) := snd t.

Definition elst_le (new old : option (list (list N))) : Prop :=
  match new, old with
  | Some gn, Some go => Forall2 (Forall2 N.le) gn go
  | None, None => True
  | _, _ => False
  end.

Lemma sub64_le a b : b <= a -> sub64 a b <= a.
Proof. intros H. unfold sub64. lia. Qed.

Lemma upd_seg_le diff d : upd_seg diff d <= d.
Proof. unfold upd_seg. destruct (diff <? d) eqn:E; [apply sub64_le; lia|lia]. Qed.

Lemma map_upd_seg_le diff l : Forall2 N.le (map (upd_seg diff) l) l.
Proof. induction l as [|x t IH]; cbn [map]; constructor; [apply upd_seg_le|exact IH]. Qed.

Lemma hdr_traks_le nd : forall tks tks', hdr_traks nd tks = Ok tks' ->
  Forall2 (fun old new => tk_dur new = nd /\ nd <= tk_dur old /\ md_dur new = md_dur old /\ elst_le (tk_elst new) (tk_elst old))
          tks tks'.
Proof.
  induction tks as [|[[prev md] ed] r IH]; intros tks' H; cbn [hdr_traks] in H.
  - injection H as <-. constructor.
  - destruct (prev <? nd) eqn:E; [discriminate|].
    destruct (hdr_traks nd r) as [r'| | |] eqn:Er; try discriminate. cbn [rbind] in H. injection H as <-.
    constructor; [|apply IH; reflexivity].
    unfold tk_dur, md_dur, tk_elst. cbn [fst snd]. split; [reflexivity|]. split; [lia|]. split; [reflexivity|].
    destruct ed as [gs|]; [|exact I]. cbn [elst_le].
    induction gs as [|g gt IHg]; cbn [map]; constructor; [apply map_upd_seg_le|exact IHg].
Qed.

Lemma header_durations et ets mvts tks nd tks' :
  write_upto_mdat_durs et ets mvts tks = Ok (nd, tks') ->
  Forall2 (fun old new => tk_dur new = nd /\ nd <= tk_dur old /\ md_dur new = md_dur old /\ elst_le (tk_elst new) (tk_elst old))
          tks tks' /\
  (forall mv, (exists t, In t tks /\ tk_dur t <= mv) -> nd <= mv).
Proof.
  unfold write_upto_mdat_durs. intros H.
  destruct (div_go (u64 (et * mvts)) ets) as [nd0| | |] eqn:Ed; try discriminate. cbn [rbind] in H.
  destruct (hdr_traks nd0 tks) as [tk0| | |] eqn:Eh; try discriminate. cbn [rbind] in H. injection H as <- <-.
  pose proof (hdr_traks_le nd0 tks tk0 Eh) as HF. split; [exact HF|].
  intros mv [t [Hin Hle]]. clear Eh Ed.
  induction HF as [|o n lo ln Hon HF' IH]; [contradiction|].
  destruct Hin as [->|Hin]; [lia|apply IH, Hin].
Qed.

(* the original mvhd duration is not compared with anything: a witness where the output's mvhd duration exceeds it *)
Lemma mvhd_duration_refuted :
  exists et ets mvts mv tks nd tks', write_upto_mdat_durs et ets mvts tks = Ok (nd, tks') /\ mv < nd /\
    Forall (fun t => mv < tk_dur t) tks.
Proof.
  exists 2602, 1000, 1000, 1739, [(3000, 7, None)], 2602, [(2602, 7, None)].
  split; [vm_compute; reflexivity|]. split; [lia|]. constructor; [unfold tk_dur; cbn [fst]; lia|constructor].
Qed.

(* ---------- writeMdat: an 8-byte header + exactly the bytes of the ranges ---------- *)
Definition range_len (r : N * N) : N := snd r + 1 - fst r.
Definition ranges_len (rs : list (N * N)) : N := sumN (map range_len rs).

Lemma sub64_range s e : s <= e + 1 -> e + 1 < 18446744073709551616 -> u64 (sub64 e s + 1) = e + 1 - s.
Proof. intros H1 H2. unfold sub64, u64. lia. Qed.

Lemma ranges_size_sum file : forall rs acc, Forall (range_in file) rs -> lenN file < 9223372036854775808 ->
  acc + ranges_len rs < 18446744073709551616 -> ranges_size rs acc = acc + ranges_len rs.
Proof.
  induction rs as [|[s e] t IH]; intros acc Hall Hf Hb; [unfold ranges_len; cbn; lia|].
  inversion Hall as [|? ? H0 Ht]; subst. unfold range_in in H0. cbn [fst snd] in H0.
  unfold ranges_len in *. cbn [map sumN] in *. unfold range_len at 1 in Hb. unfold range_len at 1. cbn [fst snd] in *.
  cbn [ranges_size]. rewrite sub64_range by lia. rewrite (u64_small (acc + (e + 1 - s))) by lia.
  rewrite IH by (try assumption; lia). lia.
Qed.

Lemma out_bytes_len file : forall rs, Forall (range_in file) rs -> lenN (out_bytes file rs) = ranges_len rs.
Proof.
  induction rs as [|[s e] t IH]; intros Hall; [reflexivity|].
  inversion Hall as [|? ? H0 Ht]; subst. unfold range_in in H0. cbn [fst snd] in H0.
  change (out_bytes file ((s, e) :: t)) with (sublist file s (e + 1 - s) ++ out_bytes file t).
  rewrite lenN_app, (IH Ht), lenN_sublist by lia. unfold ranges_len. cbn [map sumN]. reflexivity.
Qed.

Lemma copy_ranges_ok file zeof startPos large payloadLen : 0 < payloadLen -> lenN file < 9223372036854775808 ->
  forall rs, Forall (range_in file) rs ->
  copy_ranges file zeof (C08Model.mdat_lazy startPos large payloadLen) rs = Ok (out_bytes file rs).
Proof.
  intros Hp Hf. induction rs as [|[s e] t IH]; intros Hall; [reflexivity|].
  inversion Hall as [|? ? H0 Ht]; subst. unfold range_in in H0. cbn [fst snd] in H0.
  cbn [copy_ranges]. rewrite sub64_range by lia.
  unfold C08Model.mdat_lazy in *. unfold C08Model.copy_data. cbn [C08Model.lazyDataSize].
  destruct (0 <? payloadLen) eqn:E; [|lia].
  assert (Hs : C08Model.i64n s = Z.of_N s) by (unfold C08Model.i64n; destruct (s <? 9223372036854775808) eqn:E1; [reflexivity|lia]).
  assert (Hn : C08Model.i64n (e + 1 - s) = Z.of_N (e + 1 - s))
    by (unfold C08Model.i64n; destruct (e + 1 - s <? 9223372036854775808) eqn:E1; [reflexivity|lia]).
  rewrite Hs, Hn. unfold C08Model.rs_seek_start. destruct (Z.of_N s <? 0)%Z eqn:E2; [lia|]. cbn [rbind C08Model.rorc].
  rewrite N2Z.id.
  destruct (C08ReadProofs.copy_n_ok file zeof (C08Model.mkRS s []) (Z.of_N (e + 1 - s))) as [orc' Hc];
    [lia|cbn [C08Model.rpos]; lia|].
  rewrite Hc. cbn [rbind C08Model.rpos]. rewrite N2Z.id. rewrite (IH Ht). cbn [rbind].
  reflexivity.
Qed.

Lemma write_mdat_correct file zeof startPos large payloadLen rs :
  0 < payloadLen -> lenN file < 9223372036854775808 -> Forall (range_in file) rs ->
  ranges_len rs + 8 < 4294967296 ->
  write_mdat file zeof (C08Model.mdat_lazy startPos large payloadLen) rs
  = Ok (C08Model.be32 (ranges_len rs + 8) ++ C08Model.name_mdat ++ out_bytes file rs) /\
  lenN (C08Model.be32 (ranges_len rs + 8) ++ C08Model.name_mdat) = mdat_out_hdr /\
  lenN (out_bytes file rs) = ranges_len rs.
Proof.
  intros Hp Hf Hall Hb. unfold write_mdat.
  rewrite (ranges_size_sum file rs 0 Hall Hf) by lia. rewrite N.add_0_l.
  rewrite (u64_small (ranges_len rs + 8)) by lia.
  destruct (4294967296 <=? ranges_len rs + 8) eqn:E; [lia|].
  unfold C08Model.encode_header_with_size. cbn [negb andb]. rewrite E. cbn [rbind].
  rewrite (copy_ranges_ok file zeof startPos large payloadLen Hp Hf rs Hall). cbn [rbind].
  rewrite (out_bytes_len file rs Hall). rewrite N.eqb_refl.
  rewrite (u32_small (ranges_len rs + 8)) by lia. rewrite <- app_assoc.
  split; [reflexivity|]. split; [reflexivity|reflexivity].
Qed.
