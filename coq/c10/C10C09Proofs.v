(* C10C09Proofs.v — the shifted tables of the output are consistent, so the C09 theorems apply to the OUTPUT file:
   TrakBox.GetRangesForSampleInterval (C09's trak_get_ranges) on the output tables returns, for every kept sample, the
   one byte range that holds the input's bytes of that sample. *)
From V.lib Require Import Base.
From V.c09 Require Import C09Model C09Spec C09BaseProofs C09SttsProofs C09StscProofs C09TrakProofs.
From V.c10 Require Import C10Model C10RlProofs C10StscProofs C10ConsProofs C10LayoutProofs C10TermProofs C10E2EProofs.

Lemma shift_track_consistent d f tb tb2 : consistent tb = true ->
  (forall o, In o (offsets tb) -> u64 (o + d) = f o) ->
  (forall o, In o (offsets tb) -> f o + sumN (sizes tb) < 18446744073709551616) ->
  shift_track d tb = Ok tb2 -> consistent tb2 = true.
Proof.
  intros Hcons Hf Hb H.
  destruct (shift_track_spec d f tb tb2 Hf H) as [Ho [Hz [Hs [Hc [Hd [Hct [Hss [Hsd Hk]]]]]]]].
  assert (Hsz : sizes tb2 = sizes tb) by (unfold sizes; rewrite Hz; reflexivity).
  assert (HN : nsamples tb2 = nsamples tb) by (unfold nsamples; rewrite Hsz; reflexivity).
  assert (HC : nchunks tb2 = nchunks tb) by (unfold nchunks; rewrite Ho; unfold lenN; rewrite map_length; reflexivity).
  assert (Hcn : counts_of tb2 = counts_of tb) by (unfold counts_of; rewrite Hs, HC; reflexivity).
  destruct (consistent_parts tb Hcons) as [P1 [P2 [P3 [P4 [P5 [P6 [P7 P8]]]]]]].
  assert (G2 : stts_ok tb2 = true) by (unfold stts_ok in *; rewrite Hc, Hd, HN; exact P2).
  assert (G3 : ctts_ok tb2 = true) by (unfold ctts_ok in *; rewrite Hct, HN; exact P3).
  assert (G4 : stsc_ok tb2 = true) by (unfold stsc_ok in *; rewrite Hs, HC, Hcn, HN; exact P4).
  assert (G5 : stsz_ok tb2 = true) by (unfold stsz_ok in *; rewrite Hz; exact P5).
  assert (G7 : stss_ok tb2 = true) by (unfold stss_ok in *; rewrite Hss, HN; exact P7).
  assert (G8 : sdtp_ok tb2 = true) by (unfold sdtp_ok in *; rewrite Hsd, HN; exact P8).
  assert (G6 : offsets_ok tb2 = true).
  { unfold offsets_ok in *. apply andb_prop in P6. destruct P6 as [P6 P6c]. rewrite HC, Hsz, Ho, P6c.
    assert (Hfb : forallb (fun o => o + sumN (sizes tb) <? 18446744073709551616) (map f (offsets tb)) = true).
    { apply forallb_forall. intros x Hx. apply in_map_iff in Hx. destruct Hx as [o [<- Hin]]. specialize (Hb o Hin). lia. }
    rewrite Hfb. destruct (t_stco tb2) as [l|].
    - rewrite Hk. reflexivity.
    - destruct (t_co64 tb2); [reflexivity|contradiction]. }
  unfold consistent. rewrite HN, P1, G2, G3, G4, G5, G6, G7, G8. reflexivity.
Qed.

(* a pure C09 fact: the ranges of the one-sample interval [n,n] *)
Lemma single_sample_range tb n : consistent tb = true -> 1 <= n <= nsamples tb ->
  exists off sz, S_offset_of tb n = Some off /\ S_size tb n = Some sz /\ trak_get_ranges tb n n = Ok [mkRange off sz].
Proof.
  intros H Hn.
  destruct (ranges_correct tb H n n ltac:(lia) ltac:(lia) ltac:(lia)) as [rl [Hrl Hsr]].
  destruct (chunk_of_sample_correct tb H n Hn) as [c [Hc [Hcr [Hfn [[cnt [Hcnt Hlast]] _]]]]].
  destruct (get_offset_correct tb H c Hcr) as [o [Ho _]].
  destruct (size_correct tb H n Hn) as [sz [Hsz _]].
  assert (Hone : S_total_size tb n n = sz).
  { unfold S_total_size, sublist. unfold S_size in Hsz. destruct (n =? 0) eqn:E0; [lia|].
    replace (n + 1 - n) with 1 by lia.
    rewrite (skipn_nthN _ _ _ Hsz). change (N.to_nat 1) with 1%nat. cbn [firstn sumN]. lia. }
  exists (o + S_total_size tb (S_first_in_chunk tb c) (n - 1)), sz.
  split; [unfold S_offset_of; rewrite Hc, Ho; reflexivity|]. split; [exact Hsz|].
  unfold S_ranges in Hsr. rewrite Hc in Hsr. replace (N.to_nat (c + 1 - c)) with 1%nat in Hsr by lia.
  cbn [seqN map] in Hsr. unfold S_range in Hsr. rewrite Ho, Hcnt in Hsr.
  rewrite N.max_l in Hsr by lia. rewrite N.min_l in Hsr by lia. rewrite Hone in Hsr.
  injection Hsr as Hsr. destruct rl as [|r [|r2 rest]]; cbn [map] in Hsr; try discriminate.
  injection Hsr as <-. exact Hrl.
Qed.

(* one track: the output tables are consistent and GetRangesForSampleInterval(n, n) on them yields the range holding the
   input's bytes of sample n *)
Lemma track_readable file out first' S h t pre hdr tb' tb2 :
  static_ok file t -> 1 <= ts_last_sample t <= nsamples (ts_tb t) ->
  S_chunk_of (ts_tb t) (ts_last_sample t) = Some (ts_last_chunk t) ->
  lenN (ts_offsets t) = ts_last_chunk t ->
  (forall c, 1 <= c <= ts_last_chunk t ->
             exists no, nthN (ts_offsets t) (c - 1) = Some no /\ chunk_placed file out first' t c no) ->
  first' + lenN out + sumN (sizes (ts_tb t)) < 18446744073709551616 ->
  lenN pre = S -> lenN hdr = h -> S + h + lenN out + sumN (sizes (ts_tb t)) < 18446744073709551616 ->
  crop_tables (ts_tb t) (ts_last_sample t) (ts_offsets t) = Ok tb' ->
  shift_track (shift_delta h S first') tb' = Ok tb2 ->
  consistent tb2 = true /\
  (forall n, 1 <= n <= ts_last_sample t ->
     exists off off' sz, S_offset_of (ts_tb t) n = Some off /\ S_size (ts_tb t) n = Some sz /\
                         trak_get_ranges tb2 n n = Ok [mkRange off' sz] /\
                         sublist (pre ++ hdr ++ out) off' sz = sublist file off sz).
Proof.
  intros Hst Hk Hch Hlen Hpl Hb HS Hh Hb2 Hcrop Hshift.
  destruct (track_end_to_end file out first' S h t pre hdr tb' tb2 Hst Hk Hch Hlen Hpl Hb HS Hh ltac:(lia) Hcrop Hshift)
    as [Hc' [HN2 [HC2 [_ Hsamples]]]].
  pose proof Hst as [Hc _].
  destruct (crop_tables_inv _ _ _ _ Hcrop) as [_ Hu32].
  assert (Hno : forall o, In o (ts_offsets t) -> first' <= o /\ o - first' <= lenN out).
  { intros o Ho. destruct (In_nthN _ _ Ho) as [i Hi]. pose proof (nthN_Some_lt _ _ _ Hi) as Hil.
    destruct (Hpl (i + 1) ltac:(lia)) as [no [Hn [oo [_ [A [B _]]]]]].
    replace (i + 1 - 1) with i in Hn by lia. rewrite Hi in Hn. injection Hn as <-. lia. }
  assert (Hnok : new_offsets_ok (ts_tb t) (ts_last_sample t) (ts_offsets t) = true).
  { unfold new_offsets_ok. rewrite Hch. apply andb_true_intro. split; [apply andb_true_intro; split|].
    - lia.
    - apply forallb_forall. intros o Ho. destruct (Hno o Ho). pose proof (sumN_firstnN_le (sizes (ts_tb t)) (ts_last_sample t)). lia.
    - destruct (t_stco (ts_tb t)); [exact Hu32|reflexivity]. }
  destruct (crop_tables_consistent (ts_tb t) Hc _ _ Hk Hnok) as [tb1 [Hcrop1 [_ [_ [_ [Hsizes [_ [_ [_ [_ Hoffs]]]]]]]]]].
  rewrite Hcrop in Hcrop1. injection Hcrop1 as <-.
  assert (Hcons2 : consistent tb2 = true).
  { apply (shift_track_consistent (shift_delta h S first') (new_off S h first') tb' tb2 Hc'); [| |exact Hshift].
    - intros o Ho. rewrite Hoffs in Ho. destruct (Hno o Ho). apply shift_val; unfold new_off; lia.
    - intros o Ho. rewrite Hoffs in Ho. destruct (Hno o Ho). unfold new_off. rewrite Hsizes.
      pose proof (sumN_firstnN_le (sizes (ts_tb t)) (ts_last_sample t)). lia. }
  split; [exact Hcons2|]. intros n Hn.
  destruct (Hsamples n Hn) as [off [off' [sz [A [B [C [D E]]]]]]].
  destruct (single_sample_range tb2 n Hcons2 ltac:(lia)) as [off2 [sz2 [C2 [D2 R]]]].
  rewrite C in C2. injection C2 as <-. rewrite D in D2. injection D2 as <-.
  exists off, off', sz. repeat split; assumption.
Qed.

(* all tracks *)
Lemma output_readable file ts0 S h pre hdr :
  Forall (static_ok file) ts0 -> Forall (fun t => ts_next t = 1 /\ ts_offsets t = []) ts0 -> Forall cut_ok ts0 ->
  4611686018427387904 + 2 * pot ts0 < 18446744073709551616 ->
  lenN pre = S -> lenN hdr = h -> S + h + 2 * pot ts0 < 18446744073709551616 ->
  exists ts' ranges first', fill_loop (fill_fuel ts0) ts0 [] 0 0 = Ok (ts', ranges, first') /\
    map static ts' = map static ts0 /\
    Forall (fun t => forall tb' tb2, crop_tables (ts_tb t) (ts_last_sample t) (ts_offsets t) = Ok tb' ->
      shift_track (shift_delta h S first') tb' = Ok tb2 ->
      consistent tb2 = true /\
      (forall n, 1 <= n <= ts_last_sample t ->
         exists off off' sz, S_offset_of (ts_tb t) n = Some off /\ S_size (ts_tb t) n = Some sz /\
                             trak_get_ranges tb2 n n = Ok [mkRange off' sz] /\
                             sublist (pre ++ hdr ++ out_bytes file ranges) off' sz = sublist file off sz)) ts'.
Proof.
  intros Hst Hinit Hcut HB HS Hh HB2.
  destruct (layout_total file ts0 Hst Hinit ltac:(lia)) as [ts' [ranges [first' [Hrun [Hstat Hall]]]]].
  destruct (layout_ranges file ts0 _ ts' ranges first' Hst Hinit ltac:(lia) Hrun) as [Hrin [Hf62 Hlen]].
  exists ts', ranges, first'. split; [exact Hrun|]. split; [exact Hstat|].
  rewrite Forall_forall in *. intros t Hin.
  destruct (Hall t Hin) as [Hs [_ [Hlo Hpl]]].
  assert (H0 : exists t0, In t0 ts0 /\ static t0 = static t).
  { assert (Hi : In (static t) (map static ts0)) by (rewrite <- Hstat; apply in_map; exact Hin).
    apply in_map_iff in Hi. destruct Hi as [t0 [E I0]]. exists t0. split; assumption. }
  destruct H0 as [t0 [Hin0 Est]]. unfold static in Est. injection Est as Eid Etb Els Elc.
  destruct (Hcut t0 Hin0) as [Hk Hch]. rewrite Etb, Els, Elc in *.
  destruct (Hinit t0 Hin0) as [Hn1 _].
  pose proof (P_In_le_pot ts0 t0 Hin0) as HP. rewrite (P_initial t0 Hn1), Etb in HP.
  intros tb' tb2 Hcrop Hshift.
  apply (track_readable file (out_bytes file ranges) first' S h t pre hdr tb' tb2); try assumption; lia.
Qed.
