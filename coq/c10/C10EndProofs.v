(* C10EndProofs.v — findTrakEnds: the number of kept samples is the number of samples starting before the
   (rescaled) end time; the end of the track and the last chunk are those of sample k. *)
From V.lib Require Import Base.
From V.c09 Require Import C09Model C09Spec C09BaseProofs C09SttsProofs C09CttsProofs C09StscProofs C09TimeProofs.
From V.c10 Require Import C10Model C10RlProofs.

Lemma lenN_filter_le {A} (f : A -> bool) l : lenN (filter f l) <= lenN l.
Proof.
  induction l as [|x t IH]; [cbn; lia|]. cbn [filter]. destruct (f x); rewrite ?lenN_cons; lia.
Qed.

Lemma start_plus_dur_le l : forall acc j t d, nthN (starts l acc) j = Some t -> nthN l j = Some d ->
  t + d <= acc + sumN l.
Proof.
  induction l as [|x r IH]; intros acc j t d Ht Hd; [discriminate|].
  cbn [starts nthN sumN] in *. destruct (j =? 0).
  - injection Ht as <-. injection Hd as <-. lia.
  - specialize (IH (acc + x) (j - 1) t d Ht Hd). lia.
Qed.

Lemma trak_end_correct tb : consistent tb = true ->
  deltas_positive (t_stts_count tb) (t_stts_delta tb) = true -> forall ts et ets tet,
  (if negb (ts =? u32 ets) then div_go (u64 (et * ts)) ets else Ok et) = Ok tet ->
  tet < sumN (durs tb) ->
  1 <= lenN (filter (fun s => s <? tet) (starts (durs tb) 0)) ->
  exists k t d c cnt, k = lenN (filter (fun s => s <? tet) (starts (durs tb) 0)) /\ k <= nsamples tb /\
    S_decode_time tb k = Some t /\ S_dur tb k = Some d /\ S_chunk_of tb k = Some c /\ S_chunk_count tb c = Some cnt /\
    find_trak_end tb ts et ets = Ok (k, t + d, mkChunk c (S_first_in_chunk tb c) cnt).
Proof.
  intros H Hp ts et ets tet Htet Hlt Hk1.
  destruct (stts_facts tb H) as [L [S [B [T LD]]]].
  destruct (stsc_facts tb H) as [_ [_ [_ [_ [_ [_ [HN [HC _]]]]]]]].
  set (k := lenN (filter (fun s => s <? tet) (starts (durs tb) 0))) in *.
  assert (HkN : k <= nsamples tb).
  { unfold k. pose proof (lenN_filter_le (fun s => s <? tet) (starts (durs tb) 0)). rewrite lenN_starts in H0. lia. }
  pose proof (sample_at_time_correct tb H Hp ltac:(lia) tet) as Hsat.
  unfold S_sample_at_time in Hsat. destruct (tet <? sumN (durs tb)) eqn:E; [|lia]. fold k in Hsat.
  destruct (decode_time_correct tb H k ltac:(lia)) as [t [d [Ht [Hd Hdt]]]].
  destruct (chunk_of_sample_correct tb H k ltac:(lia)) as [c [Hc [HcR [_ [_ Hcn]]]]].
  destruct (get_chunk_correct tb H c HcR) as [cnt [Hcnt [_ [_ Hgc]]]].
  exists k, t, d, c, cnt. split; [reflexivity|]. split; [exact HkN|]. split; [exact Ht|]. split; [exact Hd|].
  split; [exact Hc|]. split; [exact Hcnt|].
  unfold find_trak_end. rewrite Htet. cbn [rbind]. rewrite Hsat. cbn [rbind].
  rewrite sub32_small by lia. replace (1 + k - 1) with k by lia.
  destruct (k =? 0) eqn:Ek0; [lia|]. rewrite Hdt. cbn [rbind fst snd]. rewrite Hcn. cbn [rbind fst].
  rewrite (u32_small c) by lia. rewrite Hgc. cbn [rbind].
  assert (t + d <= sumN (durs tb)).
  { unfold S_decode_time, S_dur in Ht, Hd. destruct (k =? 0); [discriminate|].
    pose proof (start_plus_dur_le (durs tb) 0 (k - 1) t d Ht Hd). lia. }
  rewrite u64_small by lia. reflexivity.
Qed.

(* ---------- findEndTime ---------- *)
Lemma nthN_In {A} (l : list A) i x : nthN l i = Some x -> In x l.
Proof.
  revert i; induction l as [|y t IH]; intros i Hi; [discriminate|].
  cbn [nthN] in Hi. destruct (i =? 0); [injection Hi as ->; left; reflexivity|right; eapply IH; eauto].
Qed.

Lemma sync_scan_ok l : sorted_le l = true -> forall n nr, 1 <= nr -> nr + N.of_nat n < 4294967296 ->
  (exists j, nr <= j < nr + N.of_nat n /\ S_is_sync l j = true /\
             (forall j', nr <= j' < j -> S_is_sync l j' = false) /\ sync_scan l n nr = Ok (Some (j - 1))) \/
  ((forall j', nr <= j' < nr + N.of_nat n -> S_is_sync l j' = false) /\ sync_scan l n nr = Ok None).
Proof.
  intros Hs. induction n as [|n IH]; intros nr H1 Hb.
  - right. split; [intros; lia|reflexivity].
  - cbn [sync_scan]. rewrite (is_sync_correct l nr Hs). cbn [rbind].
    destruct (S_is_sync l nr) eqn:E.
    + left. exists nr. split; [lia|]. split; [exact E|]. split; [intros; lia|].
      rewrite sub32_small by lia. reflexivity.
    + rewrite u32_small by lia. destruct (IH (nr + 1) ltac:(lia) ltac:(lia)) as [[j [A [B [C D]]]]|[A B]].
      * left. exists j. split; [lia|]. split; [exact B|]. split; [|exact D].
        intros j' Hj'. destruct (N.eq_dec j' nr) as [->|]; [exact E|]. apply C. lia.
      * right. split; [|exact B]. intros j' Hj'. destruct (N.eq_dec j' nr) as [->|]; [exact E|]. apply A. lia.
Qed.

Lemma starts_succ l : forall acc i t d, nthN (starts l acc) i = Some t -> nthN l i = Some d -> i + 1 < lenN l ->
  nthN (starts l acc) (i + 1) = Some (t + d).
Proof.
  induction l as [|x r IH]; intros acc i t d Ht Hd Hl; [discriminate|].
  rewrite lenN_cons in Hl. cbn [starts] in *. rewrite nthN_S. cbn [nthN] in Ht, Hd.
  destruct (i =? 0) eqn:E.
  - injection Ht as <-. injection Hd as <-. replace i with 0 by lia.
    destruct r as [|y r']; [rewrite lenN_nil in Hl; lia|]. reflexivity.
  - replace i with (i - 1 + 1) at 1 by lia. apply IH; [exact Ht|exact Hd|lia].
Qed.

(* with stss: the end time is the start of the first sync sample at or after the request
   (lastNr = first sample starting at or after the request, C09_sample_at_time) *)
Lemma end_time_stss tb l : consistent tb = true ->
  deltas_positive (t_stts_count tb) (t_stts_delta tb) = true -> t_stss tb = Some l ->
  forall ts ms lastNr, u64 (ms * ts) / 1000 < sumN (durs tb) ->
  S_sample_at_time tb (u64 (ms * ts) / 1000) = Some lastNr ->
  (exists j t, lastNr <= j /\ 2 <= j <= nsamples tb /\ S_is_sync l j = true /\
               (forall j', lastNr <= j' < j -> S_is_sync l j' = false) /\
               S_decode_time tb j = Some t /\ find_end_time tb ts ms = Ok t) \/
  ((forall j', lastNr <= j' -> S_is_sync l j' = false) /\ find_end_time tb ts ms = Err) \/
  (lastNr = 1 /\ S_is_sync l 1 = true /\ find_end_time tb ts ms = Err).
Proof.
  intros H Hp Hl ts ms lastNr Hlt Hsat.
  destruct (stts_facts tb H) as [L [S [B [T LD]]]].
  destruct (consistent_parts tb H) as [HN1 [_ [_ [_ [_ [_ [Hss _]]]]]]]. unfold is_u32 in HN1.
  unfold stss_ok in Hss. rewrite Hl in Hss. apply andb_prop in Hss. destruct Hss as [Hsort Hrange].
  pose proof (sorted_lt_le _ Hsort) as Hsle.
  assert (HN : 1 <= nsamples tb).
  { destruct (N.eq_dec (nsamples tb) 0) as [E|]; [|lia].
    rewrite <- LD in E. destruct (durs tb) eqn:Ed; [cbn in Hlt; lia|rewrite lenN_cons in E; lia]. }
  pose proof (sample_at_time_correct tb H Hp HN (u64 (ms * ts) / 1000)) as Hm. rewrite Hsat in Hm.
  assert (HlastR : 1 <= lastNr <= nsamples tb + 1).
  { unfold S_sample_at_time in Hsat. destruct (u64 (ms * ts) / 1000 <? sumN (durs tb)) eqn:E; [|lia].
    assert (Hln : lastNr = 1 + lenN (filter (fun s => s <? u64 (ms * ts) / 1000) (starts (durs tb) 0))) by congruence.
    pose proof (lenN_filter_le (fun s => s <? u64 (ms * ts) / 1000) (starts (durs tb) 0)) as Hfl.
    rewrite lenN_starts in Hfl. lia. }
  unfold find_end_time. rewrite Hm. cbn [rbind]. rewrite Hl.
  destruct (lenN l =? 0) eqn:El.
  - right. left. split; [|reflexivity]. intros j' _. destruct l; [reflexivity|rewrite lenN_cons in El; lia].
  - assert (Hne : l <> []) by (destruct l; [rewrite lenN_nil in El; lia|discriminate]).
    pose proof (nthN_last l 0 Hne) as Hhi. set (hi := last l 0) in *.
    rewrite (idx_m1_Some l (lenN l) hi ltac:(lia) Hhi). cbn [rbind].
    assert (HhiR : 1 <= hi <= nsamples tb).
    { rewrite forallb_forall in Hrange. pose proof (nthN_In _ _ _ Hhi) as Hin. specialize (Hrange hi Hin). lia. }
    assert (Hhis : S_is_sync l hi = true) by (apply (existsb_nthN_true _ l (lenN l - 1) hi Hhi); lia).
    assert (Hbeyond : forall j', hi < j' -> S_is_sync l j' = false).
    { intros j' Hj'. apply existsb_nthN_false. intros i v Hv.
      pose proof (nthN_Some_lt _ _ _ Hv).
      pose proof (sorted_le_nth l Hsle i (lenN l - 1) v hi ltac:(lia) Hv Hhi). lia. }
    destruct (sync_scan_ok l Hsle (N.to_nat (hi + 1 - lastNr)) lastNr ltac:(lia) ltac:(lia)) as [[j [A [Bj [C D]]]]|[A D]];
      rewrite D; cbn [rbind].
    + destruct (j - 1 =? 0) eqn:Ej.
      * (* the first sync sample at/after the request is sample 1: nothing left *)
        right. right. assert (j = 1) by lia. subst j. split; [lia|]. split; [exact Bj|reflexivity].
      * left. destruct (decode_time_correct tb H (j - 1) ltac:(lia)) as [t [d [Ht [Hd Hdt]]]].
        exists j, (t + d). split; [lia|]. split; [lia|]. split; [exact Bj|]. split; [exact C|].
        rewrite Hdt. cbn [rbind fst snd]. split.
        -- unfold S_decode_time, S_dur in *. rewrite Ej in Ht, Hd. destruct (j =? 0) eqn:Ej0; [lia|].
           replace (j - 1) with (j - 1 - 1 + 1) by lia.
           apply starts_succ; [exact Ht|exact Hd|]. fold (durs tb). lia.
        -- assert (t + d <= sumN (durs tb)).
           { unfold S_decode_time, S_dur in Ht, Hd. rewrite Ej in Ht, Hd.
             pose proof (start_plus_dur_le (durs tb) 0 (j - 1 - 1) t d Ht Hd). lia. }
           rewrite u64_small by lia. reflexivity.
    + right. left. split; [|reflexivity]. intros j' Hlj.
      destruct (N.le_gt_cases j' hi) as [Le|Gt]; [apply A; lia|apply Hbeyond; exact Gt].
Qed.

(* without stss every sample is a sync sample: the end time is the end of the sample before the first sample
   starting at or after the request, i.e. the start of that sample (repaired text) *)
Lemma end_time_nostss tb : consistent tb = true ->
  deltas_positive (t_stts_count tb) (t_stts_delta tb) = true -> t_stss tb = None ->
  forall ts ms lastNr, u64 (ms * ts) / 1000 < sumN (durs tb) ->
  S_sample_at_time tb (u64 (ms * ts) / 1000) = Some lastNr -> 2 <= lastNr ->
  exists t d, S_decode_time tb (lastNr - 1) = Some t /\ S_dur tb (lastNr - 1) = Some d /\
              (lastNr <= nsamples tb -> S_decode_time tb lastNr = Some (t + d)) /\
              find_end_time tb ts ms = Ok (t + d).
Proof.
  intros H Hp Hl ts ms lastNr Hlt Hsat H2.
  destruct (stts_facts tb H) as [L [S [B [T LD]]]].
  assert (HlastR : lastNr <= nsamples tb + 1).
  { unfold S_sample_at_time in Hsat. destruct (u64 (ms * ts) / 1000 <? sumN (durs tb)) eqn:E; [|lia].
    assert (Hln : lastNr = 1 + lenN (filter (fun s => s <? u64 (ms * ts) / 1000) (starts (durs tb) 0))) by congruence.
    pose proof (lenN_filter_le (fun s => s <? u64 (ms * ts) / 1000) (starts (durs tb) 0)) as Hfl.
    rewrite lenN_starts in Hfl. lia. }
  pose proof (sample_at_time_correct tb H Hp ltac:(lia) (u64 (ms * ts) / 1000)) as Hm. rewrite Hsat in Hm.
  destruct (decode_time_correct tb H (lastNr - 1) ltac:(lia)) as [t [d [Ht [Hd Hdt]]]].
  exists t, d. split; [exact Ht|]. split; [exact Hd|].
  assert (Hle : t + d <= sumN (durs tb)).
  { unfold S_decode_time, S_dur in Ht, Hd. destruct (lastNr - 1 =? 0) eqn:E; [discriminate|].
    pose proof (start_plus_dur_le (durs tb) 0 (lastNr - 1 - 1) t d Ht Hd). lia. }
  split.
  - intros HlN. unfold S_decode_time, S_dur in *. destruct (lastNr - 1 =? 0) eqn:E; [discriminate|].
    destruct (lastNr =? 0) eqn:E0; [lia|]. replace (lastNr - 1) with (lastNr - 1 - 1 + 1) by lia.
    apply starts_succ; [exact Ht|exact Hd|]. fold (durs tb). lia.
  - unfold find_end_time. rewrite Hm. cbn [rbind]. rewrite Hl. cbn [rbind].
    destruct (consistent_parts tb H) as [HN1 _]. unfold is_u32 in HN1.
    rewrite sub32_small by lia. destruct (lastNr - 1 =? 0) eqn:E; [lia|].
    rewrite Hdt. cbn [rbind fst snd]. rewrite u64_small by lia. reflexivity.
Qed.
