(* C10EndProofs.v — findTrakEnds: the number of kept samples is the number of samples starting before the
   (rescaled) end time; the end of the track and the last chunk are those of sample k. *)
From V.lib Require Import Base.
From V.c09 Require Import C09Model C09Spec C09BaseProofs C09SttsProofs C09CttsProofs C09StscProofs C09TimeProofs.
From V.c10 Require Import C10Model C10RlProofs.

Lemma lenN_filter_le {A} (f : A -> bool) l : lenN (filter f l) <= lenN l.
Proof.
  induction l as [|x t IH]; [cbn; lia|]. cbn [filter]. destruct (f x); rewrite ?lenN_cons; lia.
Qed.

Lemma start_plus_dur_le l : forall acc j t d, nthN (starts l acc) j = Some t -> nthN l j = Some d ->
  t + d <= acc + sumN l.
Proof.
  induction l as [|x r IH]; intros acc j t d Ht Hd; [discriminate|].
  cbn [starts nthN sumN] in *. destruct (j =? 0).
  - injection Ht as <-. injection Hd as <-. lia.
  - specialize (IH (acc + x) (j - 1) t d Ht Hd). lia.
Qed.

Lemma trak_end_correct tb : consistent tb = true ->
  deltas_positive (t_stts_count tb) (t_stts_delta tb) = true -> forall ts et ets tet,
  (if negb (ts =? u32 ets) then div_go (u64 (et * ts)) ets else Ok et) = Ok tet ->
  tet < sumN (durs tb) ->
  1 <= lenN (filter (fun s => s <? tet) (starts (durs tb) 0)) ->
  exists k t d c cnt, k = lenN (filter (fun s => s <? tet) (starts (durs tb) 0)) /\ k <= nsamples tb /\
    S_decode_time tb k = Some t /\ S_dur tb k = Some d /\ S_chunk_of tb k = Some c /\ S_chunk_count tb c = Some cnt /\
    find_trak_end tb ts et ets = Ok (k, t + d, mkChunk c (S_first_in_chunk tb c) cnt).
Proof.
  intros H Hp ts et ets tet Htet Hlt Hk1.
  destruct (stts_facts tb H) as [L [S [B [T LD]]]].
  destruct (stsc_facts tb H) as [_ [_ [_ [_ [_ [_ [HN [HC _]]]]]]]].
  set (k := lenN (filter (fun s => s <? tet) (starts (durs tb) 0))) in *.
  assert (HkN : k <= nsamples tb).
  { unfold k. pose proof (lenN_filter_le (fun s => s <? tet) (starts (durs tb) 0)). rewrite lenN_starts in H0. lia. }
  pose proof (sample_at_time_correct tb H Hp ltac:(lia) tet) as Hsat.
  unfold S_sample_at_time in Hsat. destruct (tet <? sumN (durs tb)) eqn:E; [|lia]. fold k in Hsat.
  destruct (decode_time_correct tb H k ltac:(lia)) as [t [d [Ht [Hd Hdt]]]].
  destruct (chunk_of_sample_correct tb H k ltac:(lia)) as [c [Hc [HcR [_ [_ Hcn]]]]].
  destruct (get_chunk_correct tb H c HcR) as [cnt [Hcnt [_ [_ Hgc]]]].
  exists k, t, d, c, cnt. split; [reflexivity|]. split; [exact HkN|]. split; [exact Ht|]. split; [exact Hd|].
  split; [exact Hc|]. split; [exact Hcnt|].
  unfold find_trak_end. rewrite Htet. cbn [rbind]. rewrite Hsat. cbn [rbind].
  rewrite sub32_small by lia. replace (1 + k - 1) with k by lia.
  destruct (k =? 0) eqn:Ek0; [lia|]. rewrite Hdt. cbn [rbind fst snd]. rewrite Hcn. cbn [rbind fst].
  rewrite (u32_small c) by lia. rewrite Hgc. cbn [rbind].
  assert (t + d <= sumN (durs tb)).
  { unfold S_decode_time, S_dur in Ht, Hd. destruct (k =? 0); [discriminate|].
    pose proof (start_plus_dur_le (durs tb) 0 (k - 1) t d Ht Hd). lia. }
  rewrite u64_small by lia. reflexivity.
Qed.
