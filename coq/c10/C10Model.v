(* C10Model.v — executable Gallina transcription of the table-cropping routines of cmd/mp4ff-crop/main.go
   (cropStts, cropStss, cropCtts, cropStsc, cropStsz, cropSdtp, updateStco, updateCo64, findEndTime,
   findTrakEnds, fillTrakOutsAndByteRanges) on the C09 table model.  DEFINITIONS ONLY.
   The text mirrored is the repaired one (see known_findings/C10.json); the `_pinned` variants mirror f87a9e4
   where a repair changed a routine. *)
From V.lib Require Import Base.
From V.c08 Require C08Model.
From V.c09 Require Import C09Model.

Definition firstnN {A} (l : list A) (k : N) : list A := firstn (N.to_nat k) l.

(* Go `s[:k]` on a slice whose capacity equals its length *)
Definition slice_to {A} (l : list A) (k : N) : res (list A) :=
  if lenN l <? k then Panic else Ok (firstnN l k).

(* ---------- cropStts ---------- *)
(* the loop: returns (countedSamples, lastEntry+1) *)
Fixpoint crop_stts_loop (cs : list N) (last counted keep : N) : N * N :=
  match cs with
  | [] => (counted, keep)
  | c :: t =>
    let keep' := if counted <? last then keep + 1 else keep in
    if last <=? u32 (counted + c) then (counted, keep')
    else crop_stts_loop t last (u32 (counted + c)) keep'
  end.

Definition crop_stts (cs ds : list N) (last : N) : res (list N * list N) :=
  let '(counted, keep) := crop_stts_loop cs last 0 0 in
  let remaining := sub32 last counted in
  do cs1 <- (if 0 <? remaining
             then (if (keep =? 0) || (lenN cs <? keep) then Panic else Ok (updN cs (keep - 1) remaining))
             else Ok cs);
  do cs2 <- slice_to cs1 keep;
  do ds2 <- slice_to ds keep;
  Ok (cs2, ds2).

(* ---------- cropStss ---------- *)
Fixpoint crop_stss (l : list N) (last : N) : list N :=
  match l with
  | [] => []
  | x :: t => if last <? x then [] else x :: crop_stss t last
  end.

(* ---------- cropCtts ---------- *)
Definition crop_ctts (b : ctts_box) (last : N) : res ctts_box :=
  do i <- bsearch (fun v => v <? last) (ct_end b) (bsearch_fuel (ct_end b)) 0 (lenN (ct_end b));
  if lenN (ct_end b) <=? i then Panic
  else
    do e2 <- slice_to (updN (ct_end b) i last) (i + 1);
    do o2 <- slice_to (ct_off b) i;
    Ok (mkCtts e2 o2).

(* ---------- cropStsc ---------- *)
Fixpoint set_last_spc (es : list stsc_entry) (v : N) : list stsc_entry :=
  match es with
  | [] => []
  | e :: t => match t with
              | [] => [mkEntry (first_chunk e) v (first_sample e)]
              | _ => e :: set_last_spc t v
              end
  end.

Definition crop_stsc (b : stsc_box) (last : N) : res stsc_box :=
  do ei <- stsc_find_entry_for_sample (sc_entries b) last 0;
  do le <- idx (sc_entries b) ei;
  do es1 <- slice_to (sc_entries b) (ei + 1);
  do ids1 <- (if 0 <? lenN (sc_ids b) then slice_to (sc_ids b) (ei + 1) else Ok (sc_ids b));
  let b1 := mkStsc es1 (sc_single b) ids1 in
  let samplesLeft := u32 (sub32 last (first_sample le) + 1) in
  do nch <- div_go samplesLeft (spc le);
  let nrLeft := sub32 samplesLeft (u32 (nch * spc le)) in
  if 0 <? nrLeft then
    if nch =? 0 then Ok (mkStsc (set_last_spc es1 nrLeft) (sc_single b) ids1)
    else
      do sdid <- stsc_get_sample_description_id b1 (first_chunk le);
      stsc_add_entry b1 (u32 (first_chunk le + nch)) nrLeft sdid
  else Ok b1.

(* as pinned (f87a9e4): the id slice is not cropped, the remainder always goes through AddEntry (which can emit
   a second entry with the same first chunk), the id comes from the pinned GetSampleDescriptionID *)
Definition crop_stsc_pinned (b : stsc_box) (last : N) : res stsc_box :=
  do ei <- stsc_find_entry_for_sample (sc_entries b) last 0;
  do le <- idx (sc_entries b) ei;
  do es1 <- slice_to (sc_entries b) (ei + 1);
  let b1 := mkStsc es1 (sc_single b) (sc_ids b) in
  let samplesLeft := u32 (sub32 last (first_sample le) + 1) in
  do nch <- div_go samplesLeft (spc le);
  let nrLeft := sub32 samplesLeft (u32 (nch * spc le)) in
  if 0 <? nrLeft then
    do sdid <- stsc_get_sample_description_id_pinned b1 (first_chunk le);
    stsc_add_entry b1 (u32 (first_chunk le + nch)) nrLeft sdid
  else Ok b1.

(* ---------- cropStsz / cropSdtp / updateStco / updateCo64 ---------- *)
Definition crop_stsz (z : stsz_box) (last : N) : res stsz_box :=
  if sz_uniform z =? 0 then
    do s2 <- slice_to (sz_sizes z) last; Ok (mkStsz (sz_uniform z) last s2)
  else Ok (mkStsz (sz_uniform z) last (sz_sizes z)).

Definition crop_sdtp (l : list N) (last : N) : list N :=
  if last <? lenN l then firstnN l last else l.

(* updateStco (repaired text, 864f0da): an offset that does not fit in 32 bits is an error; it was truncated *)
Fixpoint update_stco (offs : list N) : res (list N) :=
  match offs with
  | [] => Ok []
  | o :: t => if 4294967295 <? o then Err else do t' <- update_stco t; Ok (o :: t')
  end.
Definition update_stco_pinned (offs : list N) : list N := map u32 offs.
Definition update_co64 (offs : list N) : list N := offs.

(* cropStblChildren for one track, given the new chunk offsets *)
Definition crop_tables (tb : tables) (last : N) (new_offsets : list N) : res tables :=
  do st <- crop_stts (t_stts_count tb) (t_stts_delta tb) last;
  do ct <- match t_ctts tb with None => Ok None | Some c => do c' <- crop_ctts c last; Ok (Some c') end;
  do sc <- crop_stsc (t_stsc tb) last;
  do sz <- crop_stsz (t_stsz tb) last;
  do so <- match t_stco tb with Some _ => do l <- update_stco new_offsets; Ok (Some l) | None => Ok None end;
  Ok (mkTables (fst st) (snd st) ct sc sz so
               (match t_co64 tb with Some _ => Some (update_co64 new_offsets) | None => None end)
               (match t_stss tb with Some l => Some (crop_stss l last) | None => None end)
               (match t_sdtp tb with Some l => Some (crop_sdtp l last) | None => None end)).

(* ---------- findEndTime ---------- *)
(* `for sampleNr := last; sampleNr <= stss[len-1]; sampleNr++ { if IsSyncSample(sampleNr) {...; break} }` *)
Fixpoint sync_scan (l : list N) (n : nat) (nr : N) : res (option N) :=
  match n with
  | O => Ok None
  | S n' => do s <- stss_is_sync l nr;
            if s then Ok (Some (sub32 nr 1)) else sync_scan l n' (u32 (nr + 1))
  end.

(* (endTime, endTimescale) from the reference track's tables, its timescale and the requested milliseconds *)
Definition find_end_time (tb : tables) (timescale ms : N) : res N :=
  let endTime := u64 (ms * timescale) / 1000 in
  do lastNr <- stts_get_sample_nr_at_time (t_stts_count tb) (t_stts_delta tb) endTime;
  do lastNr' <- match t_stss tb with
                | Some l =>
                  if lenN l =? 0 then Err                (* repaired: stss without entries *)
                  else
                    do hi <- idx_m1 l (lenN l);
                    do r <- sync_scan l (N.to_nat (hi + 1 - lastNr)) lastNr;
                    match r with Some x => Ok x | None => Err end
                | None => Ok (sub32 lastNr 1)            (* repaired: crop just before that sample *)
                end;
  if lastNr' =? 0 then Err                               (* repaired: nothing left *)
  else
    do td <- stts_get_decode_time (t_stts_count tb) (t_stts_delta tb) lastNr';
    Ok (u64 (fst td + snd td)).

(* as pinned: without stss the sample found is kept (and N+1 is passed to GetDecodeTime when the time falls inside
   the last sample); lastNr' = 0 goes on to GetDecodeTime(0) *)
Definition find_end_time_pinned (tb : tables) (timescale ms : N) : res N :=
  let endTime := u64 (ms * timescale) / 1000 in
  do lastNr <- stts_get_sample_nr_at_time (t_stts_count tb) (t_stts_delta tb) endTime;
  do lastNr' <- match t_stss tb with
                | Some l =>
                  do hi <- idx_m1 l (lenN l);
                  do r <- sync_scan l (N.to_nat (hi + 1 - lastNr)) lastNr;
                  match r with Some x => Ok x | None => Err end
                | None => Ok lastNr
                end;
  do td <- stts_get_decode_time (t_stts_count tb) (t_stts_delta tb) lastNr';
  Ok (u64 (fst td + snd td)).

(* ---------- findTrakEnds, one track: (lastSampleNr, trackEndTime, lastChunk) ---------- *)
Definition find_trak_end (tb : tables) (timescale endTime endTimescale : N) : res (N * N * chunk) :=
  do tet <- (if negb (timescale =? u32 endTimescale)
             then div_go (u64 (endTime * timescale)) endTimescale else Ok endTime);
  do nr <- stts_get_sample_nr_at_time (t_stts_count tb) (t_stts_delta tb) tet;
  let k := sub32 nr 1 in
  if k =? 0 then Err                                     (* repaired: nothing left of this track *)
  else
    do td <- stts_get_decode_time (t_stts_count tb) (t_stts_delta tb) k;
    do cn <- stsc_chunk_nr_from_sample_nr (sc_entries (t_stsc tb)) k;
    do ch <- stsc_get_chunk (sc_entries (t_stsc tb)) (u32 (fst cn));
    Ok (k, u64 (fst td + snd td), ch).

(* ---------- fillTrakOutsAndByteRanges ---------- *)
Record trak_state := mkTS {
  ts_id : N;                (* track id *)
  ts_tb : tables;
  ts_last_sample : N;
  ts_last_chunk : N;        (* lastChunk.ChunkNr *)
  ts_next : N;              (* nextInChunkNr *)
  ts_offsets : list N       (* chunkOffsets, in order *)
}.

(* the inner `for _, trak := range traks` : (minChunkOffset, trakIDMin, index of that track) *)
Fixpoint pick_min (ts : list trak_state) (i : N) (best : N * N * N) : res (N * N * N) :=
  match ts with
  | [] => Ok best
  | t :: rest =>
    if ts_last_chunk t <? ts_next t then pick_min rest (i + 1) best
    else
      do off <- (match t_stco (ts_tb t) with
                 | Some l => get_offset l (ts_next t)
                 | None => match t_co64 (ts_tb t) with Some l => get_offset l (ts_next t) | None => Panic end
                 end);
      if off <? fst (fst best) then pick_min rest (i + 1) (off, ts_id t, i) else pick_min rest (i + 1) best
  end.

Fixpoint upd_ts (ts : list trak_state) (i : N) (f : trak_state -> trak_state) : list trak_state :=
  match ts with
  | [] => []
  | t :: rest => if i =? 0 then f t :: rest else t :: upd_ts rest (i - 1) f
  end.

(* byteRanges.addRange(start, end) on the list of (start, end) kept in reverse order *)
Definition add_range (rs : list (N * N)) (s e : N) : list (N * N) :=
  match rs with
  | (s0, e0) :: t => if u64 (e0 + 1) =? s then (s0, e) :: t else (s, e) :: rs
  | [] => [(s, e)]
  end.

(* state: tracks, reversed ranges, firstOffset, currentOutOffset *)
Fixpoint fill_loop (fuel : nat) (ts : list trak_state) (rs : list (N * N)) (firstOff cur : N)
  : res (list trak_state * list (N * N) * N) :=
  match fuel with
  | O => OutOfFuel
  | S f =>
    do m <- pick_min ts 0 (4611686018427387904, 0, 0);
    let '(minOff, idMin, iMin) := m in
    if idMin =? 0 then Ok (ts, rev rs, firstOff)
    else
      let '(firstOff', cur') := if firstOff =? 0 then (minOff, minOff) else (firstOff, cur) in
      do t <- idx ts iMin;
      do ch <- stsc_get_chunk (sc_entries (t_stsc (ts_tb t))) (ts_next t);
      let lastIn := sub32 (u32 (ch_start ch + ch_n ch)) 1 in
      let endNr := N.min lastIn (ts_last_sample t) in
      (* `outChunkSize, _ := GetTotalSampleSize(...)`: the error is dropped, the size is then 0 *)
      let size := match stsz_get_total_sample_size (t_stsz (ts_tb t)) (ch_start ch) endNr with
                  | Ok s => Ok s | Err => Ok 0 | Panic => Panic | OutOfFuel => OutOfFuel end in
      do sz <- size;
      let rs' := add_range rs minOff (sub64 (u64 (minOff + sz)) 1) in
      let ts' := upd_ts ts iMin (fun t => mkTS (ts_id t) (ts_tb t) (ts_last_sample t) (ts_last_chunk t)
                                               (u32 (ts_next t + 1)) (ts_offsets t ++ [cur'])) in
      fill_loop f ts' rs' firstOff' (u64 (cur' + sz))
  end.

(* the fuel handed to the loop by the theorems and by the extracted driver: one iteration per kept chunk + the final one *)
Definition fill_fuel (ts : list trak_state) : nat := S (N.to_nat (sumN (map ts_last_chunk ts))).

(* ---------- updateChunkOffsets ---------- *)
(* swm = sizeWithoutMdat (sum of the sizes of the non-mdat top-level boxes, after cropping), h = the header size the
   code assumes for the mdat box it is going to write (the Go text has the literal 8), first = firstOffset.
   deltaOffset := int64(mdatStart + h) - int64(firstOffset), as a 64-bit pattern *)
Definition shift_delta (h swm first : N) : N := sub64 (u64 (u64 swm + h)) first.

(* stco (repaired text, 864f0da): newOffset := int64(o) + delta; newOffset < 0 || newOffset > MaxUint32 is an error.
   As a 64-bit pattern: the sum, reduced mod 2^64, is >= 2^32 *)
Fixpoint shift_stco (delta : N) (offs : list N) : res (list N) :=
  match offs with
  | [] => Ok []
  | o :: t => let v := u64 (o + delta) in
              if 4294967296 <=? v then Err else do t' <- shift_stco delta t; Ok (v :: t')
  end.
(* as pinned (f87a9e4): uint32(int64(o) + delta) *)
Definition shift_stco_pinned (delta : N) (offs : list N) : list N := map (fun o => u32 (u64 (o + delta))) offs.
Definition shift_co64 (delta : N) (offs : list N) : list N := map (fun o => u64 (o + delta)) offs.

Definition set_offsets (tb : tables) (stco co64 : option (list N)) : tables :=
  mkTables (t_stts_count tb) (t_stts_delta tb) (t_ctts tb) (t_stsc tb) (t_stsz tb) stco co64 (t_stss tb) (t_sdtp tb).

Definition shift_track (delta : N) (tb : tables) : res tables :=
  match t_stco tb with
  | Some l => do l' <- shift_stco delta l; Ok (set_offsets tb (Some l') (t_co64 tb))
  | None => match t_co64 tb with
            | Some l => Ok (set_offsets tb None (Some (shift_co64 delta l)))
            | None => Panic                                (* co64 == nil: nil dereference *)
            end
  end.

Fixpoint shift_tracks (delta : N) (tbs : list tables) : res (list tables) :=
  match tbs with
  | [] => Ok []
  | tb :: t => do tb' <- shift_track delta tb; do t' <- shift_tracks delta t; Ok (tb' :: t')
  end.

Definition mdat_out_hdr : N := 8.       (* `mdatPayloadStart := mdatStart + 8`; writeMdat writes EncodeHeaderWithSize(.., false) *)
Definition update_chunk_offsets_h (h swm first : N) (tbs : list tables) : res (list tables) :=
  shift_tracks (shift_delta h swm first) tbs.
Definition update_chunk_offsets := update_chunk_offsets_h mdat_out_hdr.

(* ---------- writeUptoMdat: the duration arithmetic ---------- *)
(* one track = (tkhd duration, mdhd duration, edts: None | Some (one list of segment durations per elst box)) *)
Definition hdr_trak := (N * N * option (list (list N)))%type.

Definition upd_seg (durDiff d : N) : N := if durDiff <? d then sub64 d durDiff else d.

Fixpoint hdr_traks (newDur : N) (tks : list hdr_trak) : res (list hdr_trak) :=
  match tks with
  | [] => Ok []
  | (prev, md, ed) :: r =>
    if prev <? newDur then Err
    else
      let diff := sub64 prev newDur in
      do r' <- hdr_traks newDur r;
      Ok ((newDur, md, match ed with Some gs => Some (map (map (upd_seg diff)) gs) | None => None end) :: r')
  end.

(* (new mvhd duration, tracks) *)
Definition write_upto_mdat_durs (endTime endTimescale mvTimescale : N) (tks : list hdr_trak) : res (N * list hdr_trak) :=
  do nd <- div_go (u64 (endTime * mvTimescale)) endTimescale;
  do tks' <- hdr_traks nd tks;
  Ok (nd, tks').

(* ---------- writeMdat ---------- *)
(* byteRanges.size() *)
Fixpoint ranges_size (rs : list (N * N)) (tot : N) : N :=
  match rs with
  | [] => tot
  | (s, e) :: t => ranges_size t (u64 (tot + u64 (sub64 e s + 1)))
  end.

(* the loop over the ranges: mdatIn.CopyData(int64(start), int64(end-start+1), ifh, w) (C08's model of CopyData) *)
Fixpoint copy_ranges (file : list N) (zeof : bool) (m : C08Model.mdat) (rs : list (N * N)) : res (list N) :=
  match rs with
  | [] => Ok []
  | (s, e) :: t =>
    do d <- C08Model.copy_data true file zeof m (C08Model.i64n s) (C08Model.i64n (u64 (sub64 e s + 1)))
                               (Some (C08Model.mkRS 0 []));
    do rest <- copy_ranges file zeof m t;
    Ok (d ++ rest)
  end.

(* the bytes written: header + payload *)
Definition write_mdat (file : list N) (zeof : bool) (m : C08Model.mdat) (rs : list (N * N)) : res (list N) :=
  let psz := ranges_size rs 0 in
  if 4294967296 <=? u64 (psz + 8) then Err
  else
    do h <- C08Model.encode_header_with_size (u64 (psz + 8)) false;
    do body <- copy_ranges file zeof m rs;
    if lenN body =? psz then Ok (h ++ body) else Err.

(* ---------- cropToTime without the box encoding: tables, byte ranges, firstOffset ---------- *)
Record trak_in := mkTI { ti_id : N; ti_ts : N; ti_tb : tables }.

(* findTrakEnds over the tracks (repaired text, /repo 4fe9823): the per-track state lives in a map keyed by track ID; a track
   ID seen before is an error (as pinned, two tracks with the same ID silently shared one state).  seen = the IDs in the map *)
Fixpoint trak_ends_from (seen : list N) (traks : list trak_in) (endTime endTimescale : N) : res (list trak_state) :=
  match traks with
  | [] => Ok []
  | t :: r =>
    if existsb (N.eqb (ti_id t)) seen then Err
    else
      do e <- find_trak_end (ti_tb t) (ti_ts t) endTime endTimescale;
      do r' <- trak_ends_from (ti_id t :: seen) r endTime endTimescale;
      Ok (mkTS (ti_id t) (ti_tb t) (fst (fst e)) (ch_nr (snd e)) 1 [] :: r')
  end.
Definition trak_ends (traks : list trak_in) (endTime endTimescale : N) : res (list trak_state) :=
  trak_ends_from [] traks endTime endTimescale.

Fixpoint crop_all (ts : list trak_state) : res (list tables) :=
  match ts with
  | [] => Ok []
  | t :: r => do tb' <- crop_tables (ts_tb t) (ts_last_sample t) (ts_offsets t); do r' <- crop_all r; Ok (tb' :: r')
  end.

(* result: (new tables per track, byte ranges, samples kept per track) *)
Definition crop_to_time (traks : list trak_in) (endTime endTimescale swm : N)
  : res (list tables * list (N * N) * list N) :=
  do ts0 <- trak_ends traks endTime endTimescale;
  do r <- fill_loop (fill_fuel ts0) ts0 [] 0 0;
  let '(ts', ranges, first) := r in
  do cropped <- crop_all ts';
  do shifted <- update_chunk_offsets swm first cropped;
  Ok (shifted, ranges, map ts_last_sample ts').

(* cropMP4: ref = the reference track (first video track, else first audio track) *)
Definition crop_mp4 (ref : trak_in) (traks : list trak_in) (ms swm : N) : res (N * (list tables * list (N * N) * list N)) :=
  do et <- find_end_time (ti_tb ref) (ti_ts ref) ms;
  do r <- crop_to_time traks et (ti_ts ref) swm;
  Ok (et, r).
