(* C10TermProofs.v — fillTrakOutsAndByteRanges terminates: with fuel = 1 + (number of chunks still to place) the model
   loop never runs out of fuel and never fails on consistent tables, so C10_layout holds unconditionally. *)
From V.lib Require Import Base.
From V.c09 Require Import C09Model C09Spec C09BaseProofs C09SttsProofs C09CttsProofs C09StscProofs C09TrakProofs.
From V.c10 Require Import C10Model C10RlProofs C10LayoutProofs.

(* chunks of a track still to be placed *)
Definition remaining (t : trak_state) : N := ts_last_chunk t + 1 - ts_next t.
Definition meas (ts : list trak_state) : N := sumN (map remaining ts).
Definition next_ok (t : trak_state) : Prop := 1 <= ts_next t <= ts_last_chunk t + 1.

Lemma meas_upd_ts ts i f t : nthN ts i = Some t -> meas (upd_ts ts i f) + remaining t = meas ts + remaining (f t).
Proof.
  unfold meas. revert i; induction ts as [|x rest IH]; intros i Hi; [discriminate|].
  cbn [upd_ts nthN] in *. destruct (i =? 0).
  - injection Hi as ->. cbn [map sumN]. lia.
  - cbn [map sumN]. specialize (IH (i - 1) Hi). lia.
Qed.

Lemma nthN_In {A} (l : list A) i x : nthN l i = Some x -> In x l.
Proof.
  revert i; induction l as [|y r IH]; intros i H; [discriminate|].
  cbn [nthN] in H. destruct (i =? 0); [injection H as ->; left; reflexivity|right; eapply IH; eauto].
Qed.

Lemma fill_loop_total file : forall fuel ts rs first cur,
  Forall (static_ok file) ts -> Forall next_ok ts -> (N.to_nat (meas ts) < fuel)%nat ->
  exists r, fill_loop fuel ts rs first cur = Ok r.
Proof.
  induction fuel as [|fuel IH]; intros ts rs first cur Hst Hnx Hfuel; [lia|].
  cbn [fill_loop].
  assert (Hn1 : Forall (fun t => 1 <= ts_next t) ts).
  { eapply Forall_impl; [|exact Hnx]. intros t [A _]. exact A. }
  destruct (pick_min_spec file ts Hst Hn1 0 (4611686018427387904, 0, 0)) as [best' [Hpm [Hcase _]]].
  rewrite Hpm. cbn [rbind].
  destruct Hcase as [->|[j [t [o [Hj [Hel [Ho [-> Hlt]]]]]]]].
  - cbn [N.eqb]. eexists. reflexivity.
  - replace (0 + j) with j by lia.
    pose proof (nthN_In _ _ _ Hj) as Hin.
    pose proof Hst as Hst'. rewrite Forall_forall in Hst'. destruct (Hst' t Hin) as [Hc [Hid [Hlc [Hoff Hfile]]]].
    pose proof Hnx as Hnx'. rewrite Forall_forall in Hnx'. destruct (Hnx' t Hin) as [Hn1t Hn2t].
    unfold eligible in Hel.
    destruct (ts_id t =? 0) eqn:Eid; [lia|].
    set (fc := if first =? 0 then (o, o) else (first, cur)). destruct fc as [first2 cur1].
    rewrite (idx_Some _ _ _ Hj). cbn [rbind].
    destruct (get_chunk_correct (ts_tb t) Hc (ts_next t) ltac:(lia)) as [cnt [Hcnt [Hc1 [Hbd Hgc]]]].
    rewrite Hgc. cbn [rbind ch_start ch_n].
    destruct (stsc_facts (ts_tb t) Hc) as [_ [_ [_ [_ [_ [_ [HN [HC _]]]]]]]].
    set (fic := S_first_in_chunk (ts_tb t) (ts_next t)) in *.
    assert (Hfic1 : 1 <= fic) by (unfold fic, S_first_in_chunk; lia).
    rewrite (u32_small (fic + cnt)) by lia. rewrite (sub32_small (fic + cnt)) by lia.
    rewrite (total_size_correct (ts_tb t) Hc fic (N.min (fic + cnt - 1) (ts_last_sample t)) Hfic1 ltac:(lia)).
    cbn [rbind].
    assert (Hnext32 : u32 (ts_next t + 1) = ts_next t + 1) by (apply u32_small; lia).
    apply IH.
    + apply (Forall_upd_ts (static_ok file) (static_ok file) ts j _ t Hst Hj); [auto|].
      unfold static_ok. cbn [ts_tb ts_id ts_last_chunk]. split; [exact Hc|]. split; [exact Hid|]. split; [exact Hlc|]. split; [exact Hoff|exact Hfile].
    + apply (Forall_upd_ts next_ok next_ok ts j _ t Hnx Hj); [auto|].
      unfold next_ok. cbn [ts_next ts_last_chunk]. rewrite Hnext32. lia.
    + pose proof (meas_upd_ts ts j (fun t => mkTS (ts_id t) (ts_tb t) (ts_last_sample t) (ts_last_chunk t)
                                                  (u32 (ts_next t + 1)) (ts_offsets t ++ [cur1])) t Hj) as Hm.
      cbn beta in Hm. unfold remaining in Hm. cbn [ts_next ts_last_chunk] in Hm. rewrite Hnext32 in Hm. lia.
Qed.

Lemma meas_initial ts : Forall (fun t => ts_next t = 1 /\ ts_offsets t = []) ts -> meas ts = sumN (map ts_last_chunk ts).
Proof.
  unfold meas. induction ts as [|t r IH]; intros H; [reflexivity|].
  inversion H as [|? ? [Ht _] Hr]; subst. cbn [map sumN]. rewrite (IH Hr). unfold remaining. rewrite Ht. lia.
Qed.

(* the loop returns, with the stated fuel *)
Lemma fill_terminates file ts0 :
  Forall (static_ok file) ts0 -> Forall (fun t => ts_next t = 1 /\ ts_offsets t = []) ts0 ->
  exists ts' ranges first', fill_loop (fill_fuel ts0) ts0 [] 0 0 = Ok (ts', ranges, first').
Proof.
  intros Hst Hinit.
  destruct (fill_loop_total file (fill_fuel ts0) ts0 [] 0 0 Hst) as [[[ts' ranges] first'] Hr].
  - eapply Forall_impl; [|exact Hinit]. intros t [A _]. unfold next_ok. rewrite A. lia.
  - rewrite (meas_initial ts0 Hinit). unfold fill_fuel. lia.
  - exists ts', ranges, first'. exact Hr.
Qed.

(* C10_layout without the hypothesis that the loop returns *)
Lemma layout_total file ts0 :
  Forall (static_ok file) ts0 -> Forall (fun t => ts_next t = 1 /\ ts_offsets t = []) ts0 ->
  4611686018427387904 + pot ts0 < 18446744073709551616 ->
  exists ts' ranges first', fill_loop (fill_fuel ts0) ts0 [] 0 0 = Ok (ts', ranges, first') /\
  map static ts' = map static ts0 /\
  Forall (fun t => static_ok file t /\ ts_next t = ts_last_chunk t + 1 /\ lenN (ts_offsets t) = ts_last_chunk t /\
                   forall c, 1 <= c <= ts_last_chunk t ->
                             exists no, nthN (ts_offsets t) (c - 1) = Some no /\
                                        chunk_placed file (out_bytes file ranges) first' t c no) ts'.
Proof.
  intros Hst Hinit HB. destruct (fill_terminates file ts0 Hst Hinit) as [ts' [ranges [first' Hr]]].
  exists ts', ranges, first'. split; [exact Hr|].
  exact (layout_correct file ts0 (fill_fuel ts0) ts' ranges first' Hst Hinit HB Hr).
Qed.

(* ---------- a boolean form of static_ok, so that the hypotheses of the layout theorems can be computed ---------- *)
Definition static_okb (file : list N) (t : trak_state) : bool :=
  consistent (ts_tb t) && negb (ts_id t =? 0) && (ts_last_chunk t <=? nchunks (ts_tb t))
  && forallb (fun o => (1 <=? o) && (o <? 4611686018427387904)) (offsets (ts_tb t))
  && forallb (fun c => match S_chunk_offset (ts_tb t) c, S_chunk_count (ts_tb t) c with
                       | Some o, Some cnt =>
                         o + S_total_size (ts_tb t) (S_first_in_chunk (ts_tb t) c) (S_first_in_chunk (ts_tb t) c + cnt - 1)
                         <=? lenN file
                       | _, _ => true
                       end) (seqN 1 (N.to_nat (nchunks (ts_tb t)))).

Lemma In_seqN : forall len s c, s <= c < s + N.of_nat len -> In c (seqN s len).
Proof.
  induction len as [|len IH]; intros s c H; [lia|].
  cbn [seqN]. destruct (N.eq_dec s c) as [->|Hne]; [left; reflexivity|right; apply IH; lia].
Qed.

Lemma static_okb_ok file t : static_okb file t = true -> static_ok file t.
Proof.
  unfold static_okb. intros H.
  apply andb_prop in H. destruct H as [H H5]. apply andb_prop in H. destruct H as [H H4].
  apply andb_prop in H. destruct H as [H H3]. apply andb_prop in H. destruct H as [H1 H2].
  rewrite forallb_forall in H4, H5.
  assert (Hin : forall c o, S_chunk_offset (ts_tb t) c = Some o -> 1 <= c <= nchunks (ts_tb t) /\ In o (offsets (ts_tb t))).
  { intros c o Ho. unfold S_chunk_offset in Ho. destruct (c =? 0) eqn:E; [discriminate|].
    pose proof (nthN_Some_lt _ _ _ Ho). pose proof (nthN_In _ _ _ Ho). unfold nchunks. split; [lia|assumption]. }
  split; [exact H1|]. split; [lia|]. split; [lia|]. split.
  - intros c o Ho. destruct (Hin c o Ho) as [_ Hi]. specialize (H4 o Hi). lia.
  - intros c o cnt Ho Hcnt. destruct (Hin c o Ho) as [Hc _].
    assert (Hs : In c (seqN 1 (N.to_nat (nchunks (ts_tb t))))) by (apply In_seqN; lia).
    specialize (H5 c Hs). rewrite Ho, Hcnt in H5. lia.
Qed.
