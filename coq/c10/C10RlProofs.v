(* C10RlProofs.v — run-length lemmas and the simple tables: cropStts, cropStsz, cropSdtp, cropStss. *)
From V.lib Require Import Base.
From V.c09 Require Import C09Model C09Spec C09BaseProofs C09SttsProofs C09CttsProofs.
From V.c10 Require Import C10Model.

Lemma firstnN_all {A} (l : list A) k : lenN l <= k -> firstnN l k = l.
Proof. unfold firstnN, lenN. intros. apply firstn_all2. lia. Qed.

Lemma firstnN_app_l {A} (l1 l2 : list A) k : k <= lenN l1 -> firstnN (l1 ++ l2) k = firstnN l1 k.
Proof.
  unfold firstnN, lenN. intros. rewrite firstn_app.
  replace (N.to_nat k - length l1)%nat with 0%nat by lia. cbn [firstn]. apply app_nil_r.
Qed.

Lemma firstnN_app_r {A} (l1 l2 : list A) k : lenN l1 <= k -> firstnN (l1 ++ l2) k = l1 ++ firstnN l2 (k - lenN l1).
Proof.
  unfold firstnN, lenN. intros. rewrite firstn_app, firstn_all2 by lia. f_equal. f_equal. lia.
Qed.

Lemma firstnN_repeat {A} (x : A) m k : k <= N.of_nat m -> firstnN (repeat x m) k = repeat x (N.to_nat k).
Proof. unfold firstnN. intros. rewrite firstn_repeat'. f_equal. lia. Qed.

Lemma lenN_firstnN {A} (l : list A) k : k <= lenN l -> lenN (firstnN l k) = k.
Proof. unfold firstnN, lenN. intros. rewrite firstn_length. lia. Qed.

Lemma slice_to_ok {A} (l : list A) k : k <= lenN l -> slice_to l k = Ok (firstnN l k).
Proof. unfold slice_to. intros. destruct (lenN l <? k) eqn:E; [lia|reflexivity]. Qed.

Lemma expand_rl_app {A} p : forall (vp : list A) q vq, lenN p = lenN vp ->
  expand_rl (p ++ q) (vp ++ vq) = expand_rl p vp ++ expand_rl q vq.
Proof.
  induction p as [|c p IH]; intros vp q vq H.
  - destruct vp; [reflexivity|rewrite lenN_cons, lenN_nil in H; lia].
  - destruct vp as [|v vp]; [rewrite lenN_cons, lenN_nil in H; lia|].
    rewrite !lenN_cons in H. cbn [app expand_rl]. rewrite IH by lia. apply app_assoc.
Qed.

(* cutting a run-length list inside entry (c, v): keep p, then rem <= c of the entry *)
Lemma expand_rl_cut {A} p : forall (vp : list A) c v rest vrest rem, lenN p = lenN vp -> rem <= c ->
  expand_rl (p ++ [rem]) (vp ++ [v]) = firstnN (expand_rl (p ++ c :: rest) (vp ++ v :: vrest)) (sumN p + rem).
Proof.
  intros vp c v rest vrest rem H Hr.
  rewrite !expand_rl_app by exact H. cbn [expand_rl]. rewrite app_nil_r.
  rewrite firstnN_app_r by (rewrite lenN_expand by exact H; lia).
  rewrite lenN_expand by exact H. f_equal.
  replace (sumN p + rem - sumN p) with rem by lia.
  rewrite firstnN_app_l by (rewrite lenN_repeat; lia).
  rewrite firstnN_repeat by lia. reflexivity.
Qed.

Lemma updN_app_mid (p : list N) c rest v : updN (p ++ c :: rest) (lenN p) v = p ++ v :: rest.
Proof.
  induction p as [|x p IH]; [reflexivity|]. rewrite lenN_cons. cbn [app updN].
  destruct (1 + lenN p =? 0) eqn:E; [lia|]. replace (1 + lenN p - 1) with (lenN p) by lia. rewrite IH. reflexivity.
Qed.

Lemma firstnN_split {A} (l : list A) k : k <= lenN l ->
  exists a b, l = a ++ b /\ lenN a = k /\ firstnN l k = a.
Proof.
  intros H. exists (firstnN l k), (skipn (N.to_nat k) l). split; [unfold firstnN; symmetry; apply firstn_skipn|].
  split; [apply lenN_firstnN; exact H|reflexivity].
Qed.

Lemma In_firstn_local {A} (x : A) l n : In x (firstn n l) -> In x l.
Proof. revert l; induction n as [|n IH]; intros l H; [contradiction|]. destruct l as [|y t]; [contradiction|].
  destruct H as [->|H]; [left; reflexivity|right; apply IH, H]. Qed.

(* ---------- cropStts ---------- *)
Lemma crop_stts_loop_ok cs : forall last counted keep,
  counted < last -> last <= counted + sumN cs -> counted + sumN cs < 4294967296 ->
  exists p c rest, cs = p ++ c :: rest /\ counted + sumN p < last /\ last <= counted + sumN p + c /\
                   crop_stts_loop cs last counted keep = (counted + sumN p, keep + lenN p + 1).
Proof.
  induction cs as [|c cs IH]; intros last counted keep H1 H2 H3; [cbn in H2; lia|].
  cbn [sumN] in H2, H3. cbn [crop_stts_loop]. destruct (counted <? last) eqn:E; [|lia].
  rewrite u32_small by lia. destruct (last <=? counted + c) eqn:E2.
  - exists [], c, cs. cbn [app sumN]. change (lenN (@nil N)) with 0. split; [reflexivity|]. split; [lia|]. split; [lia|].
    f_equal; lia.
  - destruct (IH last (counted + c) (keep + 1) ltac:(lia) ltac:(lia) ltac:(lia)) as [p [c' [rest [Hc [A [B D]]]]]].
    exists (c :: p), c', rest. cbn [app sumN]. rewrite lenN_cons. split; [f_equal; exact Hc|].
    split; [lia|]. split; [lia|]. rewrite D. f_equal; lia.
Qed.

Lemma stts_crop_correct tb : consistent tb = true -> forall k, 1 <= k <= nsamples tb ->
  exists cs' ds', crop_stts (t_stts_count tb) (t_stts_delta tb) k = Ok (cs', ds') /\
    expand_rl cs' ds' = firstnN (durs tb) k /\
    lenN cs' = lenN ds' /\ sumN cs' = k /\ forallb is_u32 cs' = true /\ forallb is_u32 ds' = true.
Proof.
  intros H k Hk. destruct (stts_facts tb H) as [L [S [B [T LD]]]].
  destruct (consistent_parts tb H) as [_ [Hs _]]. unfold stts_ok in Hs.
  apply andb_prop in Hs. destruct Hs as [Hs _]. apply andb_prop in Hs. destruct Hs as [Hs Hd32].
  apply andb_prop in Hs. destruct Hs as [_ Hc32].
  destruct (crop_stts_loop_ok (t_stts_count tb) k 0 0 ltac:(lia) ltac:(lia) ltac:(lia))
    as [p [c [rest [Hcs [A [Bd D]]]]]].
  unfold crop_stts, durs. rewrite D. cbn [N.add] in *.
  rewrite sub32_small by lia. destruct (0 <? k - sumN p) eqn:E; [|lia].
  rewrite Hcs in *. rewrite lenN_app, lenN_cons in L.
  destruct (firstnN_split (t_stts_delta tb) (lenN p) ltac:(lia)) as [vp [vq [Hds [Lvp _]]]].
  destruct vq as [|v vrest]; [rewrite Hds, lenN_app, lenN_nil in L; lia|].
  rewrite Hds in *.
  assert (Hk0 : (lenN p + 1 =? 0) = false) by lia. rewrite Hk0.
  destruct (lenN (p ++ c :: rest) <? lenN p + 1) eqn:E2; [rewrite lenN_app, lenN_cons in E2; lia|]. cbn [orb rbind].
  replace (lenN p + 1 - 1) with (lenN p) by lia. rewrite updN_app_mid.
  replace (p ++ (k - sumN p) :: rest) with ((p ++ [k - sumN p]) ++ rest) by (rewrite <- app_assoc; reflexivity).
  replace (vp ++ v :: vrest) with ((vp ++ [v]) ++ vrest) by (rewrite <- app_assoc; reflexivity).
  rewrite !slice_to_ok by (rewrite !lenN_app, !lenN_cons, !lenN_nil; lia). cbn [rbind].
  assert (F1 : firstnN ((p ++ [k - sumN p]) ++ rest) (lenN p + 1) = p ++ [k - sumN p]).
  { rewrite firstnN_app_l by (rewrite lenN_app, lenN_cons, lenN_nil; lia).
    apply firstnN_all. rewrite lenN_app, lenN_cons, lenN_nil. lia. }
  assert (F2 : firstnN ((vp ++ [v]) ++ vrest) (lenN p + 1) = vp ++ [v]).
  { rewrite firstnN_app_l by (rewrite lenN_app, lenN_cons, lenN_nil; lia).
    apply firstnN_all. rewrite lenN_app, lenN_cons, lenN_nil. lia. }
  rewrite F1, F2.
  exists (p ++ [k - sumN p]), (vp ++ [v]). split; [reflexivity|].
  rewrite <- !app_assoc. cbn [app].
  split; [|split; [|split; [|split]]].
  - rewrite (expand_rl_cut p vp c v rest vrest (k - sumN p)) by lia. f_equal. lia.
  - rewrite !lenN_app, !lenN_cons, !lenN_nil. lia.
  - rewrite sumN_app. cbn [sumN]. lia.
  - rewrite forallb_app in *. cbn [forallb] in *. apply andb_prop in Hc32. destruct Hc32 as [Hp _]. rewrite Hp.
    unfold is_u32. cbn [andb]. destruct (k - sumN p <? 4294967296) eqn:E3; [reflexivity|lia].
  - rewrite forallb_app in *. cbn [forallb] in *.
    apply andb_prop in Hd32. destruct Hd32 as [Hp Hv]. apply andb_prop in Hv. destruct Hv as [Hv _].
    rewrite Hp, Hv. reflexivity.
Qed.

(* ---------- cropStsz ---------- *)
Lemma stsz_crop_correct tb : consistent tb = true -> forall k, 1 <= k <= nsamples tb ->
  exists z', crop_stsz (t_stsz tb) k = Ok z' /\ sizes_of z' = firstnN (sizes tb) k /\
             sz_number z' = k /\ sz_uniform z' = sz_uniform (t_stsz tb) /\
             (if sz_uniform z' =? 0 then sz_number z' =? lenN (sz_sizes z') else lenN (sz_sizes z') =? 0) = true /\
             forallb is_u32 (sz_sizes z') = true.
Proof.
  intros H k Hk. destruct (stsz_facts tb H) as [[[U [Nn S]]|[U [Sz S]]] [HN [B [Bu Bs]]]];
    unfold crop_stsz, sizes_of; rewrite S.
  - rewrite U. cbn [N.eqb]. rewrite slice_to_ok by lia. cbn [rbind]. eexists. split; [reflexivity|].
    cbn [sz_uniform sz_sizes sz_number N.eqb]. split; [reflexivity|]. split; [reflexivity|]. split; [reflexivity|].
    split; [rewrite lenN_firstnN by lia; lia|].
    unfold firstnN. rewrite forallb_forall in *. intros x Hx. apply Bs. eapply In_firstn_local; eauto.
  - destruct (sz_uniform (t_stsz tb) =? 0) eqn:E; [lia|]. eexists. split; [reflexivity|].
    cbn [sz_uniform sz_sizes sz_number]. rewrite E. split.
    + rewrite firstnN_repeat by lia. reflexivity.
    + rewrite Sz, lenN_nil. repeat split.
Qed.
