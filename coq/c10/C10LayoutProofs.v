(* C10LayoutProofs.v — fillTrakOutsAndByteRanges: for any number of tracks with arbitrary chunk interleaving, the new
   mdat payload (the concatenation of the byte ranges) holds, at every new chunk offset, exactly the bytes of the kept
   (possibly truncated) chunk of the input file. *)
From V.lib Require Import Base.
From V.c09 Require Import C09Model C09Spec C09BaseProofs C09SttsProofs C09CttsProofs C09StscProofs C09TrakProofs.
From V.c10 Require Import C10Model C10RlProofs.

(* ---------- bytes ---------- *)
Definition out_bytes (file : list N) (ranges : list (N * N)) : list N :=
  concat (map (fun r => sublist file (fst r) (snd r + 1 - fst r)) ranges).

Lemma skipn_skipn_local {A} (l : list A) a b : skipn a (skipn b l) = skipn (a + b) l.
Proof.
  revert l; induction b as [|b IH]; intros l; [rewrite Nat.add_0_r; reflexivity|].
  destruct l as [|x t]; [rewrite !skipn_nil; reflexivity|].
  rewrite Nat.add_succ_r. cbn [skipn]. apply IH.
Qed.

Lemma sublist_add {A} (l : list A) s a b : sublist l s (a + b) = sublist l s a ++ sublist l (s + a) b.
Proof.
  unfold sublist. replace (N.to_nat (a + b)) with (N.to_nat a + N.to_nat b)%nat by lia.
  replace (N.to_nat (s + a)) with (N.to_nat a + N.to_nat s)%nat by lia.
  rewrite <- skipn_skipn_local. generalize (skipn (N.to_nat s) l) as m. intros m.
  rewrite <- (firstn_skipn (N.to_nat a) m) at 1.
  rewrite firstn_app. rewrite firstn_length.
  destruct (Nat.le_gt_cases (N.to_nat a) (length m)) as [Hle|Hgt].
  - rewrite Nat.min_l by lia. replace (N.to_nat a + N.to_nat b - N.to_nat a)%nat with (N.to_nat b) by lia.
    f_equal. rewrite firstn_firstn. f_equal. lia.
  - rewrite Nat.min_r by lia. rewrite (skipn_all2 m) by lia. rewrite !firstn_nil, !app_nil_r.
    rewrite firstn_firstn. f_equal. lia.
Qed.

Lemma lenN_sublist {A} (l : list A) s n : s + n <= lenN l -> lenN (sublist l s n) = n.
Proof. unfold sublist, lenN. intros. rewrite firstn_length, skipn_length. lia. Qed.

Lemma sublist_app_l {A} (l1 l2 : list A) s n : s + n <= lenN l1 -> sublist (l1 ++ l2) s n = sublist l1 s n.
Proof.
  unfold sublist, lenN. intros H. rewrite skipn_app, firstn_app, skipn_length.
  replace (N.to_nat n - (length l1 - N.to_nat s))%nat with 0%nat by lia. rewrite firstn_O, app_nil_r. reflexivity.
Qed.

Lemma sublist_app_r {A} (l1 l2 : list A) n : sublist (l1 ++ l2) (lenN l1) n = firstnN l2 n.
Proof.
  unfold sublist, lenN, firstnN. rewrite Nat2N.id, skipn_app, skipn_all, Nat.sub_diag. reflexivity.
Qed.

Lemma firstnN_sublist {A} (l : list A) s n : firstnN (sublist l s n) n = sublist l s n.
Proof. unfold firstnN, sublist. rewrite firstn_firstn. f_equal. lia. Qed.

Lemma out_bytes_app file r1 r2 : out_bytes file (r1 ++ r2) = out_bytes file r1 ++ out_bytes file r2.
Proof. unfold out_bytes. rewrite map_app, concat_app. reflexivity. Qed.

(* addRange appends the bytes of the new range, whether it is merged into the previous range or not *)
Lemma add_range_bytes file rs s sz : 1 <= s -> s + sz < 18446744073709551616 ->
  (forall s0 e0 t, rs = (s0, e0) :: t -> s0 <= e0 + 1 /\ e0 + 1 < 18446744073709551616) ->
  out_bytes file (rev (add_range rs s (s + sz - 1))) = out_bytes file (rev rs) ++ sublist file s sz /\
  (forall s0 e0 t, add_range rs s (s + sz - 1) = (s0, e0) :: t -> s0 <= e0 + 1 /\ e0 + 1 < 18446744073709551616).
Proof.
  intros Hs Hb Hlast. unfold add_range. destruct rs as [|[s0 e0] t].
  - split.
    + cbn [rev app]. unfold out_bytes. cbn [map concat fst snd]. rewrite app_nil_r.
      replace (s + sz - 1 + 1 - s) with sz by lia. reflexivity.
    + intros s1 e1 t1 E. injection E as <- <- <-. lia.
  - destruct (Hlast s0 e0 t eq_refl) as [H0 H1]. rewrite u64_small by lia.
    destruct (e0 + 1 =? s) eqn:E.
    + split.
      * cbn [rev]. rewrite !out_bytes_app. rewrite <- app_assoc. f_equal.
        unfold out_bytes. cbn [map concat fst snd]. rewrite !app_nil_r.
        replace (s + sz - 1 + 1 - s0) with ((e0 + 1 - s0) + sz) by lia.
        rewrite sublist_add. do 2 f_equal. lia.
      * intros s1 e1 t1 E1. injection E1 as <- <- <-. lia.
    + split.
      * cbn [rev]. rewrite out_bytes_app. f_equal. unfold out_bytes. cbn [map concat fst snd]. rewrite app_nil_r.
        replace (s + sz - 1 + 1 - s) with sz by lia. reflexivity.
      * intros s1 e1 t1 E1. injection E1 as <- <- <-. lia.
Qed.

(* every byte range lies in the file (start >= 1, possibly empty: end = start - 1) *)
Definition range_in (file : list N) (r : N * N) : Prop := 1 <= fst r /\ fst r <= snd r + 1 /\ snd r + 1 <= lenN file.

Lemma add_range_in file rs s sz : 1 <= s -> s + sz <= lenN file -> s + sz < 18446744073709551616 ->
  (forall s0 e0 t, rs = (s0, e0) :: t -> s0 <= e0 + 1 /\ e0 + 1 < 18446744073709551616) ->
  Forall (range_in file) rs -> Forall (range_in file) (add_range rs s (s + sz - 1)).
Proof.
  intros Hs Hf Hb Hlast Hall. unfold add_range. destruct rs as [|[s0 e0] t].
  - constructor; [|constructor]. unfold range_in. cbn [fst snd]. lia.
  - inversion Hall as [|? ? H0 Ht]; subst. unfold range_in in H0. cbn [fst snd] in H0.
    destruct (Hlast s0 e0 t eq_refl) as [_ Hl]. rewrite u64_small by lia.
    destruct (e0 + 1 =? s) eqn:E.
    + constructor; [|exact Ht]. unfold range_in. cbn [fst snd]. lia.
    + constructor; [|exact Hall]. unfold range_in. cbn [fst snd]. lia.
Qed.

(* ---------- sizes ---------- *)
Lemma total_size_split tb a b n : 1 <= a -> a <= b + 1 -> b <= n ->
  S_total_size tb a n = S_total_size tb a b + S_total_size tb (b + 1) n.
Proof.
  intros Ha Hab Hbn. unfold S_total_size.
  replace (n + 1 - a) with ((b + 1 - a) + (n - b)) by lia. rewrite sublist_add, sumN_app.
  replace (a - 1 + (b + 1 - a)) with b by lia. replace (b + 1 - 1) with b by lia.
  replace (n + 1 - (b + 1)) with (n - b) by lia. reflexivity.
Qed.

Lemma total_size_mono tb a b b' : 1 <= a -> a <= b + 1 -> b <= b' -> S_total_size tb a b <= S_total_size tb a b'.
Proof. intros. rewrite (total_size_split tb a b b') by lia. lia. Qed.

(* ---------- tracks ---------- *)
Definition eligible (t : trak_state) : bool := ts_next t <=? ts_last_chunk t.
Definition next_off (t : trak_state) : option N := S_chunk_offset (ts_tb t) (ts_next t).

Definition static_ok (file : list N) (t : trak_state) : Prop :=
  consistent (ts_tb t) = true /\ ts_id t <> 0 /\ ts_last_chunk t <= nchunks (ts_tb t) /\
  (forall c o, S_chunk_offset (ts_tb t) c = Some o -> 1 <= o < 4611686018427387904) /\
  (forall c o cnt, S_chunk_offset (ts_tb t) c = Some o -> S_chunk_count (ts_tb t) c = Some cnt ->
                   o + S_total_size (ts_tb t) (S_first_in_chunk (ts_tb t) c) (S_first_in_chunk (ts_tb t) c + cnt - 1)
                   <= lenN file).

(* size of the kept part of chunk c of a track cut at sample ls *)
Definition csize (tb : tables) (ls c : N) : N :=
  match S_chunk_count tb c with
  | Some cnt => S_total_size tb (S_first_in_chunk tb c) (N.min (S_first_in_chunk tb c + cnt - 1) ls)
  | None => 0
  end.

Lemma track_offset_expr tb c : consistent tb = true -> 1 <= c <= nchunks tb ->
  exists o, S_chunk_offset tb c = Some o /\
    match t_stco tb with
    | Some l => get_offset l c
    | None => match t_co64 tb with Some l => get_offset l c | None => Panic end
    end = Ok o.
Proof.
  intros H Hc. destruct (get_offset_correct tb H c Hc) as [o [Ho1 Ho2]]. exists o. split; [exact Ho1|].
  unfold trak_chunk_offset in Ho2. destruct (consistent_parts tb H) as [_ [_ [_ [_ [_ [Hof _]]]]]].
  unfold offsets_ok in Hof. destruct (t_stco tb); [exact Ho2|]. destruct (t_co64 tb); [exact Ho2|discriminate].
Qed.

Lemma pick_min_spec file ts : Forall (static_ok file) ts -> Forall (fun t => 1 <= ts_next t) ts -> forall i best,
  exists best', pick_min ts i best = Ok best' /\
    (best' = best \/ exists j t o, nthN ts j = Some t /\ eligible t = true /\ next_off t = Some o /\
                                    best' = (o, ts_id t, i + j) /\ o < fst (fst best)) /\
    (forall j t o, nthN ts j = Some t -> eligible t = true -> next_off t = Some o -> fst (fst best') <= o) /\
    fst (fst best') <= fst (fst best).
Proof.
  induction ts as [|t rest IH]; intros Hst Hn i best.
  - exists best. split; [reflexivity|]. split; [left; reflexivity|]. split; [intros; discriminate|lia].
  - inversion Hst as [|? ? Ht Hrest]; subst. inversion Hn as [|? ? Hnt Hnrest]; subst.
    cbn [pick_min]. unfold eligible in *. destruct (ts_last_chunk t <? ts_next t) eqn:E.
    + destruct (IH Hrest Hnrest (i + 1) best) as [b' [A [B [C D]]]]. exists b'. split; [exact A|]. split.
      * destruct B as [B|[j [t' [o [B1 [B2 [B3 [B4 B5]]]]]]]]; [left; exact B|].
        right. exists (j + 1), t', o. rewrite nthN_S. repeat split; try assumption. rewrite B4. f_equal. lia.
      * split; [|exact D]. intros j t' o Hj He Ho. cbn [nthN] in Hj. destruct (j =? 0) eqn:Ej.
        -- injection Hj as <-. lia.
        -- apply (C (j - 1) t' o Hj He Ho).
    + destruct Ht as [Hc [Hid [Hlc [Hoff Hfile]]]].
      destruct (track_offset_expr (ts_tb t) (ts_next t) Hc ltac:(lia)) as [o [Ho1 Ho2]]. rewrite Ho2. cbn [rbind].
      destruct (o <? fst (fst best)) eqn:Eo.
      * destruct (IH Hrest Hnrest (i + 1) (o, ts_id t, i)) as [b' [A [B [C D]]]]. cbn [fst] in *.
        exists b'. split; [exact A|]. split.
        -- right. destruct B as [B|[j [t' [o' [B1 [B2 [B3 [B4 B5]]]]]]]].
           ++ exists 0, t, o. cbn [nthN N.eqb]. unfold next_off. repeat split; try assumption; try lia.
              rewrite B. f_equal. lia.
           ++ exists (j + 1), t', o'. rewrite nthN_S. repeat split; try assumption; [|lia]. rewrite B4. f_equal. lia.
        -- split; [|lia]. intros j t' o' Hj He Ho'. cbn [nthN] in Hj. destruct (j =? 0) eqn:Ej.
           ++ injection Hj as <-. unfold next_off in Ho'. rewrite Ho1 in Ho'. injection Ho' as <-. exact D.
           ++ apply (C (j - 1) t' o' Hj He Ho').
      * destruct (IH Hrest Hnrest (i + 1) best) as [b' [A [B [C D]]]].
        exists b'. split; [exact A|]. split.
        -- destruct B as [B|[j [t' [o' [B1 [B2 [B3 [B4 B5]]]]]]]]; [left; exact B|].
           right. exists (j + 1), t', o'. rewrite nthN_S. repeat split; try assumption. rewrite B4. f_equal. lia.
        -- split; [|exact D]. intros j t' o' Hj He Ho'. cbn [nthN] in Hj. destruct (j =? 0) eqn:Ej.
           ++ injection Hj as <-. unfold next_off in Ho'. rewrite Ho1 in Ho'. injection Ho' as <-. lia.
           ++ apply (C (j - 1) t' o' Hj He Ho').
Qed.

Lemma total_size_mono' tb a b b' : 1 <= a -> b <= b' -> S_total_size tb a b <= S_total_size tb a b'.
Proof.
  intros Ha Hb. destruct (N.le_gt_cases a (b + 1)) as [L|G]; [apply total_size_mono; lia|].
  unfold S_total_size at 1. replace (b + 1 - a) with 0 by lia. cbn. lia.
Qed.

(* ---------- the loop invariant ---------- *)
Definition P (t : trak_state) : N :=
  S_total_size (ts_tb t) (S_first_in_chunk (ts_tb t) (ts_next t)) (nsamples (ts_tb t)).
Definition pot (ts : list trak_state) : N := sumN (map P ts).

Definition static (t : trak_state) : N * tables * N * N := (ts_id t, ts_tb t, ts_last_sample t, ts_last_chunk t).

Definition chunk_placed (file out : list N) (first : N) (t : trak_state) (c no : N) : Prop :=
  exists oo, S_chunk_offset (ts_tb t) c = Some oo /\ first <= no /\
    no - first + csize (ts_tb t) (ts_last_sample t) c <= lenN out /\
    sublist out (no - first) (csize (ts_tb t) (ts_last_sample t) c)
    = sublist file oo (csize (ts_tb t) (ts_last_sample t) c).

Definition dyn_ok (file out : list N) (first : N) (t : trak_state) : Prop :=
  1 <= ts_next t <= ts_last_chunk t + 1 /\ lenN (ts_offsets t) + 1 = ts_next t /\
  forall i no, nthN (ts_offsets t) i = Some no -> chunk_placed file out first t (i + 1) no.

Lemma chunk_placed_extend file out x first t c no :
  chunk_placed file out first t c no -> chunk_placed file (out ++ x) first t c no.
Proof.
  intros [oo [A [B [C D]]]]. exists oo. split; [exact A|]. split; [exact B|]. split.
  - rewrite lenN_app. lia.
  - rewrite sublist_app_l by lia. exact D.
Qed.

Lemma dyn_ok_extend file out x first first' t :
  dyn_ok file out first t -> (first' = first \/ ts_offsets t = []) -> dyn_ok file (out ++ x) first' t.
Proof.
  intros [A [B C]] Hf. split; [exact A|]. split; [exact B|]. intros i no Hi.
  destruct Hf as [->|He]; [apply chunk_placed_extend, C, Hi|rewrite He in Hi; discriminate].
Qed.

Lemma nthN_upd_ts ts i f : forall j, nthN (upd_ts ts i f) j = if j =? i then option_map f (nthN ts j) else nthN ts j.
Proof.
  revert i; induction ts as [|t rest IH]; intros i j; [cbn; destruct (j =? i); reflexivity|].
  cbn [upd_ts]. destruct (i =? 0) eqn:Ei.
  - cbn [nthN]. destruct (j =? 0) eqn:Ej.
    + destruct (j =? i) eqn:E; [reflexivity|lia].
    + destruct (j =? i) eqn:E; [lia|reflexivity].
  - cbn [nthN]. destruct (j =? 0) eqn:Ej.
    + destruct (j =? i) eqn:E; [lia|reflexivity].
    + rewrite IH. destruct (j - 1 =? i - 1) eqn:E1, (j =? i) eqn:E2; try lia; reflexivity.
Qed.

Lemma Forall_upd_ts (Q Q' : trak_state -> Prop) ts i f t :
  Forall Q ts -> nthN ts i = Some t -> (forall x, Q x -> Q' x) -> Q' (f t) -> Forall Q' (upd_ts ts i f).
Proof.
  revert i; induction ts as [|x rest IH]; intros i HF Hi Himp Hf; [constructor|].
  inversion HF as [|? ? Hx Hrest]; subst. cbn [upd_ts nthN] in *. destruct (i =? 0).
  - injection Hi as ->. constructor; [exact Hf|]. eapply Forall_impl; [exact Himp|exact Hrest].
  - constructor; [apply Himp, Hx|]. apply (IH (i - 1)); assumption.
Qed.

Lemma Forall_upd_ts_others (Q Q' : trak_state -> Prop) ts i f t :
  Forall Q ts -> nthN ts i = Some t -> (forall j x, nthN ts j = Some x -> j <> i -> Q x -> Q' x) -> Q' (f t) ->
  Forall Q' (upd_ts ts i f).
Proof.
  revert i; induction ts as [|x rest IH]; intros i HF Hi Himp Hf; [constructor|].
  inversion HF as [|? ? Hx Hrest]; subst. cbn [upd_ts] in *. cbn [nthN] in Hi. destruct (i =? 0) eqn:Ei.
  - injection Hi as ->. constructor; [exact Hf|].
    clear - Hrest Himp Ei. assert (forall j y, nthN rest j = Some y -> Q y -> Q' y).
    { intros j y Hj. apply (Himp (j + 1) y); [rewrite nthN_S; exact Hj|lia]. }
    clear Himp. induction Hrest as [|y r Hy Hr IHr]; [constructor|]. constructor.
    + apply (H 0 y eq_refl Hy).
    + apply IHr. intros j z Hj. apply (H (j + 1) z). rewrite nthN_S. exact Hj.
  - constructor.
    + apply (Himp 0 x eq_refl); [lia|exact Hx].
    + apply (IH (i - 1)); try assumption. intros j y Hj Hne. apply (Himp (j + 1) y); [rewrite nthN_S; exact Hj|lia].
Qed.

Lemma pot_upd_ts ts i f t : nthN ts i = Some t -> pot (upd_ts ts i f) + P t = pot ts + P (f t).
Proof.
  unfold pot. revert i; induction ts as [|x rest IH]; intros i Hi; [discriminate|].
  cbn [upd_ts nthN] in *. destruct (i =? 0).
  - injection Hi as ->. cbn [map sumN]. lia.
  - cbn [map sumN]. specialize (IH (i - 1) Hi). lia.
Qed.

Lemma map_static_upd ts i f : (forall t, static (f t) = static t) -> map static (upd_ts ts i f) = map static ts.
Proof.
  intros Hf. revert i; induction ts as [|x rest IH]; intros i; [reflexivity|].
  cbn [upd_ts]. destruct (i =? 0); cbn [map]; [rewrite Hf; reflexivity|rewrite IH; reflexivity].
Qed.

Lemma P_le_pot ts i t : nthN ts i = Some t -> P t <= pot ts.
Proof.
  unfold pot. revert i; induction ts as [|x rest IH]; intros i Hi; [discriminate|].
  cbn [nthN] in Hi. cbn [map sumN]. destruct (i =? 0); [injection Hi as ->; lia|]. specialize (IH (i - 1) Hi). lia.
Qed.

Lemma fill_loop_inv file B : 4611686018427387904 + B < 18446744073709551616 ->
  forall fuel ts rs first cur ts' ranges first',
  Forall (static_ok file) ts ->
  Forall (dyn_ok file (out_bytes file (rev rs)) first) ts ->
  (first = 0 -> rs = [] /\ Forall (fun t => ts_offsets t = []) ts) ->
  (first <> 0 -> cur = first + lenN (out_bytes file (rev rs)) /\ first < 4611686018427387904) ->
  (forall s0 e0 t, rs = (s0, e0) :: t -> s0 <= e0 + 1 /\ e0 + 1 < 18446744073709551616) ->
  lenN (out_bytes file (rev rs)) + pot ts <= B ->
  Forall (range_in file) rs ->
  fill_loop fuel ts rs first cur = Ok (ts', ranges, first') ->
  Forall (static_ok file) ts' /\ Forall (dyn_ok file (out_bytes file ranges) first') ts' /\
  Forall (fun t => ts_next t = ts_last_chunk t + 1) ts' /\ map static ts' = map static ts /\
  Forall (range_in file) ranges /\ first' < 4611686018427387904 /\ lenN (out_bytes file ranges) <= B.
Proof.
  intros HB. induction fuel as [|fuel IH]; intros ts rs first cur ts' ranges first' Hst Hdy Hf0 Hf1 Hlast Hpot Hrin Hrun;
    [discriminate|].
  cbn [fill_loop] in Hrun.
  assert (Hn1 : Forall (fun t => 1 <= ts_next t) ts).
  { eapply Forall_impl; [|exact Hdy]. intros t [A _]. lia. }
  destruct (pick_min_spec file ts Hst Hn1 0 (4611686018427387904, 0, 0)) as [best' [Hpm [Hcase [Hmin _]]]].
  rewrite Hpm in Hrun. cbn [rbind] in Hrun. destruct best' as [[minOff idMin] iMin].
  destruct Hcase as [Hsame|[j [t [o [Hj [Hel [Ho [Hb' Hlt]]]]]]]].
  - (* no track has a chunk left *)
    injection Hsame as -> -> ->. cbn [N.eqb] in Hrun. injection Hrun as <- <- <-.
    split; [exact Hst|]. split; [exact Hdy|].
    assert (Hextra : Forall (range_in file) (rev rs) /\ first < 4611686018427387904 /\ lenN (out_bytes file (rev rs)) <= B).
    { split; [apply Forall_rev; exact Hrin|]. split; [|lia].
      destruct (N.eq_dec first 0) as [->|Hne]; [lia|]. destruct (Hf1 Hne). assumption. }
    split; [|split; [reflexivity|exact Hextra]].
    clear Hextra. rewrite Forall_forall in *. intros t Hin.
    destruct (In_nth_error _ _ Hin) as [n Hn].
    assert (Hnt : nthN ts (N.of_nat n) = Some t).
    { clear - Hn. revert n Hn. induction ts as [|x r IHr]; intros n Hn; [destruct n; discriminate|].
      destruct n as [|n]; cbn [nth_error] in Hn.
      - injection Hn as ->. reflexivity.
      - specialize (IHr n Hn). replace (N.of_nat (S n)) with (N.of_nat n + 1) by lia. rewrite nthN_S. exact IHr. }
    destruct (Hdy t Hin) as [A _]. destruct (Hst t Hin) as [Hc [_ [Hlc [Hoff _]]]].
    destruct (eligible t) eqn:E; [|unfold eligible in E; lia].
    unfold eligible in E.
    destruct (track_offset_expr (ts_tb t) (ts_next t) Hc ltac:(lia)) as [o [Ho1 _]].
    specialize (Hmin _ t o Hnt ltac:(unfold eligible; exact E) Ho1). cbn [fst] in Hmin.
    specialize (Hoff _ o Ho1). lia.
  - (* the track with the smallest next chunk offset *)
    injection Hb' as -> -> ->. cbn [fst] in Hlt. replace (0 + j) with j in * by lia.
    pose proof Hst as Hst'. rewrite Forall_forall in Hst'.
    assert (Hin : In t ts).
    { clear - Hj. revert j Hj. induction ts as [|x r IHr]; intros j Hj; [discriminate|].
      cbn [nthN] in Hj. destruct (j =? 0); [injection Hj as ->; left; reflexivity|right; eapply IHr; eauto]. }
    destruct (Hst' t Hin) as [Hc [Hid [Hlc [Hoff Hfile]]]].
    pose proof Hdy as Hdy'. rewrite Forall_forall in Hdy'. destruct (Hdy' t Hin) as [Hnx [Hlo Hpl]].
    unfold eligible in Hel. unfold next_off in Ho.
    destruct (ts_id t =? 0) eqn:Eid; [lia|].
    rewrite (idx_Some _ _ _ Hj) in Hrun. cbn [rbind] in Hrun.
    destruct (get_chunk_correct (ts_tb t) Hc (ts_next t) ltac:(lia)) as [cnt [Hcnt [Hc1 [Hbd Hgc]]]].
    rewrite Hgc in Hrun. cbn [rbind ch_start ch_n] in Hrun.
    destruct (stsc_facts (ts_tb t) Hc) as [_ [_ [_ [_ [_ [_ [HN _]]]]]]].
    set (fic := S_first_in_chunk (ts_tb t) (ts_next t)) in *.
    assert (Hfic1 : 1 <= fic) by (unfold fic, S_first_in_chunk; lia).
    rewrite (u32_small (fic + cnt)) in Hrun by lia. rewrite (sub32_small (fic + cnt)) in Hrun by lia.
    set (endNr := N.min (fic + cnt - 1) (ts_last_sample t)) in *.
    rewrite (total_size_correct (ts_tb t) Hc fic endNr Hfic1 ltac:(unfold endNr; lia)) in Hrun. cbn [rbind] in Hrun.
    set (sz := S_total_size (ts_tb t) fic endNr) in *.
    assert (Hcs : csize (ts_tb t) (ts_last_sample t) (ts_next t) = sz) by (unfold csize; rewrite Hcnt; reflexivity).
    destruct (Hoff _ o Ho) as [Ho1 Ho2].
    assert (Hszfull : sz <= S_total_size (ts_tb t) fic (fic + cnt - 1))
      by (apply total_size_mono'; [exact Hfic1|unfold endNr; lia]).
    pose proof (Hfile _ o cnt Ho Hcnt) as Hinfile. fold fic in Hinfile.
    (* potential *)
    set (first2 := if first =? 0 then o else first) in *.
    set (cur1 := if first =? 0 then o else cur) in *.
    set (t2 := mkTS (ts_id t) (ts_tb t) (ts_last_sample t) (ts_last_chunk t) (u32 (ts_next t + 1))
                    (ts_offsets t ++ [cur1])).
    assert (HC32 : nchunks (ts_tb t) + 1 < 4294967296).
    { destruct (stsc_facts (ts_tb t) Hc) as [_ [_ [_ [_ [_ [_ [_ [HC _]]]]]]]]. exact HC. }
    assert (Hnext32 : u32 (ts_next t + 1) = ts_next t + 1) by (apply u32_small; lia).
    assert (HP : P t2 + sz <= P t).
    { unfold P, t2. cbn [ts_tb ts_next]. rewrite Hnext32.
      rewrite (fic_succ (ts_tb t) (ts_next t) cnt ltac:(lia) Hcnt). fold fic.
      rewrite (total_size_split (ts_tb t) fic (fic + cnt - 1) (nsamples (ts_tb t))) by lia.
      replace (fic + cnt - 1 + 1) with (fic + cnt) by lia. lia. }
    pose proof (P_le_pot ts j t Hj) as HPle.
    set (out := out_bytes file (rev rs)) in *.
    assert (Hosz : o + sz < 18446744073709551616) by lia.
    rewrite (u64_small (o + sz)) in Hrun by lia. rewrite sub64_small in Hrun by lia.
    destruct (add_range_bytes file rs o sz Ho1 Hosz Hlast) as [Hbytes Hlast2].
    (* first / cur *)
    assert (Hfc : (if first =? 0 then (o, o) else (first, cur)) = (first2, cur1))
      by (unfold first2, cur1; destruct (first =? 0); reflexivity).
    rewrite Hfc in Hrun.
    assert (Hcur1 : cur1 = first2 + lenN out /\ first2 <> 0 /\ first2 < 4611686018427387904).
    { unfold cur1, first2. destruct (first =? 0) eqn:E0.
      - destruct (Hf0 ltac:(lia)) as [Hrs _]. unfold out. rewrite Hrs. cbn. lia.
      - destruct (Hf1 ltac:(lia)). lia. }
    destruct Hcur1 as [Hcur1 [Hf2 Hf2b]].
    assert (Hlen2 : lenN (sublist file o sz) = sz) by (apply lenN_sublist; lia).
    rewrite (u64_small (cur1 + sz)) in Hrun by lia.
    fold t2 in Hrun.
    apply (IH _ _ _ _ _ _ _) in Hrun.
    + destruct Hrun as [R1 [R2 [R3 [R4 R5]]]]. split; [exact R1|]. split; [exact R2|]. split; [exact R3|].
      split; [|exact R5]. rewrite R4. apply map_static_upd. intros x. reflexivity.
    + (* static *)
      apply (Forall_upd_ts (static_ok file) (static_ok file) ts j _ t Hst Hj); [auto|].
      unfold static_ok. cbn [ts_tb ts_id ts_last_chunk]. split; [exact Hc|]. split; [exact Hid|]. split; [exact Hlc|]. split; [exact Hoff|exact Hfile].
    + (* dynamic *)
      rewrite Hbytes. fold out.
      apply (Forall_upd_ts_others (dyn_ok file out first) _ ts j _ t Hdy Hj).
      * intros j' x Hx Hne Hd. apply (dyn_ok_extend file out _ first first2 x); [exact Hd|]. unfold first2. destruct (first =? 0) eqn:E0; [|left; reflexivity].
        right. destruct (Hf0 ltac:(lia)) as [_ Hemp]. rewrite Forall_forall in Hemp. apply Hemp.
        clear - Hx. revert j' Hx. induction ts as [|y r IHr]; intros j' Hx; [discriminate|].
        cbn [nthN] in Hx. destruct (j' =? 0); [injection Hx as ->; left; reflexivity|right; eapply IHr; eauto].
      * split; [cbn [ts_next ts_last_chunk]; rewrite Hnext32; lia|]. split.
        { cbn [ts_offsets ts_next]. rewrite lenN_app, lenN_cons, (@lenN_nil N), Hnext32. lia. }
        intros i no Hi. cbn [ts_offsets] in Hi. rewrite nthN_app in Hi.
        destruct (i <? lenN (ts_offsets t)) eqn:Ei.
        -- assert (Hold : chunk_placed file out first t (i + 1) no) by (apply Hpl; exact Hi).
           assert (first2 = first).
           { unfold first2. destruct (first =? 0) eqn:E0; [|reflexivity].
             destruct (Hf0 ltac:(lia)) as [_ Hemp]. rewrite Forall_forall in Hemp. rewrite (Hemp t Hin) in Ei.
             rewrite lenN_nil in Ei. lia. }
           rewrite H. apply (chunk_placed_extend file out _ first t (i + 1) no Hold).
        -- cbn [nthN] in Hi. destruct (i - lenN (ts_offsets t) =? 0) eqn:Ei2; [|discriminate]. injection Hi as <-.
           replace (i + 1) with (ts_next t) by lia.
           exists o. cbn [ts_tb ts_last_sample]. rewrite Hcs. split; [exact Ho|]. split; [lia|]. split.
           ++ rewrite lenN_app, Hlen2. lia.
           ++ replace (cur1 - first2) with (lenN out) by lia. rewrite sublist_app_r. apply firstnN_sublist.
    + intros E. lia.
    + intros _. rewrite Hbytes. fold out. rewrite lenN_app, Hlen2. split; [lia|exact Hf2b].
    + exact Hlast2.
    + rewrite Hbytes. fold out. rewrite lenN_app, Hlen2.
      pose proof (pot_upd_ts ts j (fun t => mkTS (ts_id t) (ts_tb t) (ts_last_sample t) (ts_last_chunk t)
                                                 (u32 (ts_next t + 1)) (ts_offsets t ++ [cur1])) t Hj) as Hpu.
      cbn beta in Hpu. fold t2 in Hpu. lia.
    + apply add_range_in; try assumption; lia.
Qed.

(* ---------- the layout theorem ---------- *)
Lemma layout_correct file ts0 fuel ts' ranges first' :
  Forall (static_ok file) ts0 -> Forall (fun t => ts_next t = 1 /\ ts_offsets t = []) ts0 ->
  4611686018427387904 + pot ts0 < 18446744073709551616 ->
  fill_loop fuel ts0 [] 0 0 = Ok (ts', ranges, first') ->
  map static ts' = map static ts0 /\
  Forall (fun t => static_ok file t /\ ts_next t = ts_last_chunk t + 1 /\ lenN (ts_offsets t) = ts_last_chunk t /\
                   forall c, 1 <= c <= ts_last_chunk t ->
                             exists no, nthN (ts_offsets t) (c - 1) = Some no /\
                                        chunk_placed file (out_bytes file ranges) first' t c no) ts'.
Proof.
  intros Hst Hinit HB Hrun.
  destruct (fill_loop_inv file (pot ts0) HB fuel ts0 [] 0 0 ts' ranges first' Hst) as [R1 [R2 [R3 [R4 _]]]].
  - rewrite Forall_forall in *. intros t Hin. destruct (Hinit t Hin) as [A B]. split; [lia|]. split.
    + rewrite B, lenN_nil. lia.
    + intros i no Hi. rewrite B in Hi. discriminate.
  - intros _. split; [reflexivity|]. eapply Forall_impl; [|exact Hinit]. intros t [_ A]. exact A.
  - intros E. lia.
  - intros s0 e0 t E. discriminate.
  - cbn. lia.
  - constructor.
  - exact Hrun.
  - split; [exact R4|]. rewrite Forall_forall in *. intros t Hin.
    destruct (R2 t Hin) as [A [B C]]. pose proof (R3 t Hin) as D. cbn beta in D.
    split; [apply R1, Hin|]. split; [exact D|]. split; [lia|].
    intros c Hc. destruct (nthN_lt_Some (ts_offsets t) (c - 1)) as [no Hno]; [lia|].
    exists no. split; [exact Hno|]. replace c with (c - 1 + 1) at 1 by lia. apply C, Hno.
Qed.

(* the byte ranges lie in the file, firstOffset < 2^62 and the new payload is no longer than the sample bytes of the tracks *)
Lemma layout_ranges file ts0 fuel ts' ranges first' :
  Forall (static_ok file) ts0 -> Forall (fun t => ts_next t = 1 /\ ts_offsets t = []) ts0 ->
  4611686018427387904 + pot ts0 < 18446744073709551616 ->
  fill_loop fuel ts0 [] 0 0 = Ok (ts', ranges, first') ->
  Forall (range_in file) ranges /\ first' < 4611686018427387904 /\ lenN (out_bytes file ranges) <= pot ts0.
Proof.
  intros Hst Hinit HB Hrun.
  destruct (fill_loop_inv file (pot ts0) HB fuel ts0 [] 0 0 ts' ranges first' Hst) as [_ [_ [_ [_ R5]]]].
  - rewrite Forall_forall in *. intros t Hin. destruct (Hinit t Hin) as [A B]. split; [lia|]. split.
    + rewrite B, lenN_nil. lia.
    + intros i no Hi. rewrite B in Hi. discriminate.
  - intros _. split; [reflexivity|]. eapply Forall_impl; [|exact Hinit]. intros t [_ A]. exact A.
  - intros E. lia.
  - intros s0 e0 t E. discriminate.
  - cbn. lia.
  - constructor.
  - exact Hrun.
  - exact R5.
Qed.

Lemma sublist_sublist {A} (l : list A) s n a b : a + b <= n -> sublist (sublist l s n) a b = sublist l (s + a) b.
Proof.
  intros H. unfold sublist. rewrite skipn_firstn_comm, firstn_firstn.
  rewrite skipn_skipn_local. f_equal; [lia|]. f_equal. lia.
Qed.

(* every kept sample: its bytes are found in the new mdat at (new chunk offset + sizes of the chunk's earlier samples),
   unchanged from the input file at (old chunk offset + the same sum) = S_offset_of *)
Lemma sample_placed file out first t c no n : static_ok file t ->
  chunk_placed file out first t c no -> S_chunk_of (ts_tb t) n = Some c -> 1 <= n <= ts_last_sample t ->
  n <= nsamples (ts_tb t) ->
  exists off sz, S_offset_of (ts_tb t) n = Some off /\ S_size (ts_tb t) n = Some sz /\
    sublist out (no - first + S_total_size (ts_tb t) (S_first_in_chunk (ts_tb t) c) (n - 1)) sz = sublist file off sz.
Proof.
  intros [Hc _] [oo [Hoo [Hfirst [Hlen Heq]]]] Hch Hn HnN.
  destruct (chunk_of_sample_correct (ts_tb t) Hc n ltac:(lia)) as [c' [Hc' [HcR [Hfn [[cnt [Hcnt Hlast]] _]]]]].
  rewrite Hch in Hc'. injection Hc' as <-.
  destruct (size_correct (ts_tb t) Hc n ltac:(lia)) as [sz [Hsz _]].
  set (fic := S_first_in_chunk (ts_tb t) c) in *.
  assert (Hfic1 : 1 <= fic) by (unfold fic, S_first_in_chunk; lia).
  exists (oo + S_total_size (ts_tb t) fic (n - 1)), sz.
  split; [unfold S_offset_of; rewrite Hch, Hoo; reflexivity|]. split; [exact Hsz|].
  (* size of sample n as a one-sample total *)
  assert (Hone : S_total_size (ts_tb t) n n = sz).
  { unfold S_total_size, sublist. unfold S_size in Hsz. destruct (n =? 0) eqn:E0; [lia|].
    replace (n + 1 - n) with 1 by lia.
    rewrite (skipn_nthN _ _ _ Hsz). change (N.to_nat 1) with 1%nat. cbn [firstn sumN]. lia. }
  assert (Hsplit : S_total_size (ts_tb t) fic n = S_total_size (ts_tb t) fic (n - 1) + sz).
  { rewrite (total_size_split (ts_tb t) fic (n - 1) n) by lia. replace (n - 1 + 1) with n by lia. rewrite Hone. reflexivity. }
  assert (Hcs : S_total_size (ts_tb t) fic n <= csize (ts_tb t) (ts_last_sample t) c).
  { unfold csize. rewrite Hcnt. fold fic. apply total_size_mono'; [exact Hfic1|]. lia. }
  rewrite <- (sublist_sublist out (no - first) (csize (ts_tb t) (ts_last_sample t) c)) by lia.
  rewrite Heq. rewrite sublist_sublist by lia. reflexivity.
Qed.
