(* C10CropProofs.v — the end-to-end statement about crop_to_time itself (the model function that the `virt`
   correspondence ties to cropMP4/cropToTime of cmd/mp4ff-crop). *)
From V.lib Require Import Base.
From V.c09 Require Import C09Model C09Spec C09BaseProofs C09SttsProofs C09StscProofs C09TrakProofs.
From V.c10 Require Import C10Model C10RlProofs C10StscProofs C10ConsProofs C10LayoutProofs C10TermProofs C10E2EProofs
  C10C09Proofs C10EndProofs.

Lemma trak_ends_from_init : forall traks seen et ets ts0, trak_ends_from seen traks et ets = Ok ts0 ->
  Forall (fun t => ts_next t = 1 /\ ts_offsets t = []) ts0 /\ map ts_tb ts0 = map ti_tb traks /\ map ts_id ts0 = map ti_id traks.
Proof.
  induction traks as [|t r IH]; intros seen et ets ts0 H; cbn [trak_ends_from] in H.
  - injection H as <-. repeat split; constructor.
  - destruct (existsb (N.eqb (ti_id t)) seen); [discriminate|].
    destruct (find_trak_end (ti_tb t) (ti_ts t) et ets) as [e| | |]; try discriminate. cbn [rbind] in H.
    destruct (trak_ends_from (ti_id t :: seen) r et ets) as [r'| | |] eqn:Er; try discriminate. cbn [rbind] in H. injection H as <-.
    destruct (IH _ et ets r' Er) as [A [B C]]. split; [constructor; [split; reflexivity|exact A]|].
    cbn [map ts_tb ts_id]. rewrite B, C. split; reflexivity.
Qed.

Lemma trak_ends_init : forall traks et ets ts0, trak_ends traks et ets = Ok ts0 ->
  Forall (fun t => ts_next t = 1 /\ ts_offsets t = []) ts0 /\ map ts_tb ts0 = map ti_tb traks /\ map ts_id ts0 = map ti_id traks.
Proof. intros traks. exact (trak_ends_from_init traks []). Qed.

(* findTrakEnds succeeded: the track IDs are pairwise distinct (repaired text) *)
Lemma trak_ends_from_nodup : forall traks seen et ets ts0, trak_ends_from seen traks et ets = Ok ts0 ->
  NoDup (map ti_id traks) /\ forall x, In x (map ti_id traks) -> ~ In x seen.
Proof.
  induction traks as [|t r IH]; intros seen et ets ts0 H; cbn [trak_ends_from] in H.
  - split; [constructor|intros x []].
  - destruct (existsb (N.eqb (ti_id t)) seen) eqn:Ex; [discriminate|].
    destruct (find_trak_end (ti_tb t) (ti_ts t) et ets) as [e| | |]; try discriminate. cbn [rbind] in H.
    destruct (trak_ends_from (ti_id t :: seen) r et ets) as [r'| | |] eqn:Er; try discriminate.
    destruct (IH _ et ets r' Er) as [A B].
    assert (Hns : ~ In (ti_id t) seen).
    { intros Hin. assert (existsb (N.eqb (ti_id t)) seen = true); [|congruence].
      apply existsb_exists. exists (ti_id t). split; [exact Hin|apply N.eqb_refl]. }
    cbn [map]. split.
    + constructor; [|exact A]. intros Hin. apply (B _ Hin). left. reflexivity.
    + intros x [<-|Hx]; [exact Hns|]. intros Hin. apply (B _ Hx). right. exact Hin.
Qed.

Lemma trak_ends_distinct traks et ets ts0 : trak_ends traks et ets = Ok ts0 -> NoDup (map ti_id traks).
Proof. intros H. exact (proj1 (trak_ends_from_nodup traks [] et ets ts0 H)). Qed.

(* what holds of one track of the output *)
Definition track_out (file outf : list N) (S h : N) (payload_len : N) (st : N * tables * N * N) (tb2 : tables) : Prop :=
  let '(_, tb, k, C) := st in
  consistent tb2 = true /\ nsamples tb2 = k /\ nchunks tb2 = C /\ prefix_lists tb tb2 k /\
  (forall c, 1 <= c <= C -> exists o, S_chunk_offset tb2 c = Some o /\ S + h <= o /\
                                      o + csize tb k c <= S + h + payload_len) /\
  (forall n, 1 <= n <= k ->
     exists off off' sz, S_offset_of tb n = Some off /\ S_size tb n = Some sz /\
                         S_offset_of tb2 n = Some off' /\ S_size tb2 n = Some sz /\
                         trak_get_ranges tb2 n n = Ok [mkRange off' sz] /\
                         sublist outf off' sz = sublist file off sz).

Lemma Forall2_compose {A B C} (R1 : A -> B -> Prop) (R2 : B -> C -> Prop) (P : A -> Prop) (Q : A -> C -> Prop) :
  (forall a b c, P a -> R1 a b -> R2 b c -> Q a c) ->
  forall la lb lc, Forall P la -> Forall2 R1 la lb -> Forall2 R2 lb lc -> Forall2 Q la lc.
Proof.
  intros HQ la lb lc HP H1. revert lc HP. induction H1 as [|a b la lb Hab H1 IH]; intros lc HP H2.
  - inversion H2; subst. constructor.
  - inversion H2 as [|? c ? lc' Hbc H2']; subst. inversion HP as [|? ? Pa HP']; subst.
    constructor; [eapply HQ; eauto|apply IH; assumption].
Qed.

Lemma Forall2_map_l {A B C} (f : A -> B) (Q : B -> C -> Prop) : forall la lc,
  Forall2 (fun a c => Q (f a) c) la lc <-> Forall2 Q (map f la) lc.
Proof.
  induction la as [|a la IH]; intros lc; split; intros H; inversion H; subst; cbn [map]; constructor;
    try assumption; apply IH; assumption.
Qed.

Lemma output_prefix file ts0 S h :
  Forall (static_ok file) ts0 -> Forall (fun t => ts_next t = 1 /\ ts_offsets t = []) ts0 -> Forall cut_ok ts0 ->
  4611686018427387904 + 2 * pot ts0 < 18446744073709551616 -> S + h + pot ts0 < 18446744073709551616 ->
  exists ts' ranges first', fill_loop (fill_fuel ts0) ts0 [] 0 0 = Ok (ts', ranges, first') /\
    Forall (fun t => forall tb' tb2, crop_tables (ts_tb t) (ts_last_sample t) (ts_offsets t) = Ok tb' ->
      shift_track (shift_delta h S first') tb' = Ok tb2 -> prefix_lists (ts_tb t) tb2 (ts_last_sample t)) ts'.
Proof.
  intros Hst Hinit Hcut HB HB2.
  destruct (layout_total file ts0 Hst Hinit ltac:(lia)) as [ts' [ranges [first' [Hrun [Hstat Hall]]]]].
  destruct (layout_ranges file ts0 _ ts' ranges first' Hst Hinit ltac:(lia) Hrun) as [Hrin [Hf62 Hlen]].
  exists ts', ranges, first'. split; [exact Hrun|].
  rewrite Forall_forall in *. intros t Hin.
  destruct (Hall t Hin) as [Hs [_ [Hlo Hpl]]].
  assert (H0 : exists t0, In t0 ts0 /\ static t0 = static t).
  { assert (Hi : In (static t) (map static ts0)) by (rewrite <- Hstat; apply in_map; exact Hin).
    apply in_map_iff in Hi. destruct Hi as [t0 [E I0]]. exists t0. split; assumption. }
  destruct H0 as [t0 [Hin0 Est]]. unfold static in Est. injection Est as Eid Etb Els Elc.
  destruct (Hcut t0 Hin0) as [Hk Hch]. rewrite Etb, Els, Elc in *.
  destruct (Hinit t0 Hin0) as [Hn1 _].
  pose proof (P_In_le_pot ts0 t0 Hin0) as HP. rewrite (P_initial t0 Hn1), Etb in HP.
  intros tb' tb2 Hcrop Hshift.
  apply (track_prefix file (out_bytes file ranges) first' S h t tb' tb2); try assumption; lia.
Qed.

Lemma crop_to_time_correct file traks et ets S pre hdr ts0 shifted ranges ks :
  trak_ends traks et ets = Ok ts0 -> Forall (static_ok file) ts0 -> Forall cut_ok ts0 ->
  4611686018427387904 + 2 * pot ts0 < 18446744073709551616 ->
  lenN pre = S -> lenN hdr = mdat_out_hdr -> S + mdat_out_hdr + 2 * pot ts0 < 18446744073709551616 ->
  crop_to_time traks et ets S = Ok (shifted, ranges, ks) ->
  ks = map ts_last_sample ts0 /\ Forall (range_in file) ranges /\
  Forall2 (track_out file (pre ++ hdr ++ out_bytes file ranges) S mdat_out_hdr (lenN (out_bytes file ranges)))
          (map static ts0) shifted.
Proof.
  intros Hends Hst Hcut HB HS Hh HB2 Hrun.
  destruct (trak_ends_init traks et ets ts0 Hends) as [Hinit _].
  unfold crop_to_time in Hrun. rewrite Hends in Hrun. cbn [rbind] in Hrun.
  destruct (samples_end_to_end file ts0 S mdat_out_hdr pre hdr Hst Hinit Hcut HB HS Hh ltac:(lia))
    as [ts' [ranges' [first' [Hfill [Hstat [Hrin Hres]]]]]].
  destruct (output_readable file ts0 S mdat_out_hdr pre hdr Hst Hinit Hcut HB HS Hh HB2)
    as [ts2 [ranges2 [first2 [Hfill2 [_ Hread]]]]].
  rewrite Hfill in Hfill2. injection Hfill2 as <- <- <-.
  destruct (output_prefix file ts0 S mdat_out_hdr Hst Hinit Hcut HB ltac:(lia)) as [ts3 [ranges3 [first3 [Hfill3 Hpre]]]].
  rewrite Hfill in Hfill3. injection Hfill3 as <- <- <-.
  rewrite Hfill in Hrun. cbn [rbind] in Hrun.
  destruct (crop_all ts') as [cropped| | |] eqn:Ec; try discriminate. cbn [rbind] in Hrun.
  destruct (update_chunk_offsets S first' cropped) as [sh| | |] eqn:Eu; try discriminate. cbn [rbind] in Hrun.
  injection Hrun as <- <- <-.
  split.
  { apply (f_equal (map (fun x : N * tables * N * N => snd (fst x)))) in Hstat. rewrite !map_map in Hstat. exact Hstat. }
  split; [exact Hrin|].
  rewrite <- Hstat.
  apply (proj1 (Forall2_map_l static (track_out file (pre ++ hdr ++ out_bytes file ranges') S mdat_out_hdr
                                                (lenN (out_bytes file ranges'))) ts' sh)).
  assert (Hboth : Forall (fun t => track_result file (out_bytes file ranges') pre hdr S mdat_out_hdr first' t /\
                    (forall tb' tb2, crop_tables (ts_tb t) (ts_last_sample t) (ts_offsets t) = Ok tb' ->
                       shift_track (shift_delta mdat_out_hdr S first') tb' = Ok tb2 ->
                       consistent tb2 = true /\
                       (forall n, 1 <= n <= ts_last_sample t ->
                          exists off off' sz, S_offset_of (ts_tb t) n = Some off /\ S_size (ts_tb t) n = Some sz /\
                            trak_get_ranges tb2 n n = Ok [mkRange off' sz] /\
                            sublist (pre ++ hdr ++ out_bytes file ranges') off' sz = sublist file off sz)) /\
                    (forall tb' tb2, crop_tables (ts_tb t) (ts_last_sample t) (ts_offsets t) = Ok tb' ->
                       shift_track (shift_delta mdat_out_hdr S first') tb' = Ok tb2 ->
                       prefix_lists (ts_tb t) tb2 (ts_last_sample t))) ts').
  { rewrite Forall_forall in *. intros t Hin. split; [apply Hres, Hin|]. split; [apply Hread, Hin|apply Hpre, Hin]. }
  refine (Forall2_compose _ _ _ _ _ ts' cropped sh Hboth (crop_all_Forall2 ts' cropped Ec)
                          (shift_tracks_Forall2 _ cropped sh Eu)).
  intros t tb' tb2 Hp H1 H2. cbv beta in H1, H2.
  destruct Hp as [Hr1 [Hr2 Hr3]]. destruct (Hr1 tb' tb2 H1 H2) as [_ [A [B [Cc D]]]]. destruct (Hr2 tb' tb2 H1 H2) as [E F].
  unfold track_out, static. split; [exact E|]. split; [exact A|]. split; [exact B|]. split; [exact (Hr3 tb' tb2 H1 H2)|].
  split; [exact Cc|].
  intros n Hn. destruct (D n Hn) as [off [off' [sz [D1 [D2 [D3 [D4 D5]]]]]]].
  destruct (F n Hn) as [off2 [off2' [sz2 [F1 [F2 [F3 F4]]]]]].
  rewrite D1 in F1. injection F1 as <-. rewrite D2 in F2. injection F2 as <-.
  destruct (single_sample_range tb2 n E ltac:(lia)) as [o3 [s3 [G1 [G2 G3]]]].
  rewrite D3 in G1. injection G1 as <-. rewrite D4 in G2. injection G2 as <-.
  exists off, off', sz. repeat split; assumption.
Qed.

(* ---------- from the input tracks: findTrakEnds gives states that satisfy cut_ok, k = the number of samples starting
   before the (rescaled) end time ---------- *)
Definition track_tet (t : trak_in) (et ets : N) : res N :=
  if negb (ti_ts t =? u32 ets) then div_go (u64 (et * ti_ts t)) ets else Ok et.
Definition k_of (tb : tables) (tet : N) : N := lenN (filter (fun s => s <? tet) (starts (durs tb) 0)).

Definition trak_pre (file : list N) (et ets : N) (t : trak_in) : Prop :=
  static_ok file (mkTS (ti_id t) (ti_tb t) 0 0 1 []) /\
  deltas_positive (t_stts_count (ti_tb t)) (t_stts_delta (ti_tb t)) = true /\
  exists tet, track_tet t et ets = Ok tet /\ tet < sumN (durs (ti_tb t)) /\ 1 <= k_of (ti_tb t) tet.

Definition state_of (et ets : N) (t : trak_in) (s : trak_state) : Prop :=
  ts_id s = ti_id t /\ ts_tb s = ti_tb t /\
  exists tet, track_tet t et ets = Ok tet /\ ts_last_sample s = k_of (ti_tb t) tet.

Lemma trak_ends_from_ok file : forall traks seen et ets ts0, Forall (trak_pre file et ets) traks ->
  trak_ends_from seen traks et ets = Ok ts0 ->
  Forall (static_ok file) ts0 /\ Forall cut_ok ts0 /\ Forall2 (state_of et ets) traks ts0.
Proof.
  induction traks as [|t r IH]; intros seen et ets ts0 Hpre H; cbn [trak_ends_from] in H.
  - injection H as <-. repeat split; constructor.
  - destruct (existsb (N.eqb (ti_id t)) seen); [discriminate|].
    inversion Hpre as [|? ? [Hst [Hdp [tet [Htet [Hlt Hk1]]]]] Hpre']; subst.
    pose proof Hst as [Hc [Hid [_ [Hoff Hfile]]]]. cbn [ts_tb ts_id] in *.
    destruct (trak_end_correct (ti_tb t) Hc Hdp (ti_ts t) et ets tet Htet Hlt Hk1)
      as [k [td [d [c [cnt [Hk [HkN [_ [_ [Hch [_ Hfe]]]]]]]]]]].
    rewrite Hfe in H. cbn [rbind fst snd ch_nr] in H.
    destruct (trak_ends_from (ti_id t :: seen) r et ets) as [r'| | |] eqn:Er; try discriminate. cbn [rbind] in H. injection H as <-.
    destruct (IH _ et ets r' Hpre' Er) as [A [B C]].
    assert (Hk1' : 1 <= k) by (rewrite Hk; exact Hk1).
    destruct (chunk_of_sample_correct (ti_tb t) Hc k ltac:(lia)) as [c' [Hc' [Hcr _]]].
    rewrite Hch in Hc'. injection Hc' as <-.
    split; [|split].
    + constructor; [|exact A]. unfold static_ok. cbn [ts_tb ts_id ts_last_chunk].
      split; [exact Hc|]. split; [exact Hid|]. split; [lia|]. split; [exact Hoff|exact Hfile].
    + constructor; [|exact B]. unfold cut_ok. cbn [ts_tb ts_last_sample ts_last_chunk]. split; [lia|exact Hch].
    + constructor; [|exact C]. unfold state_of. cbn [ts_id ts_tb ts_last_sample]. split; [reflexivity|]. split; [reflexivity|].
      exists tet. split; [exact Htet|exact Hk].
Qed.

Lemma trak_ends_ok file : forall traks et ets ts0, Forall (trak_pre file et ets) traks -> trak_ends traks et ets = Ok ts0 ->
  Forall (static_ok file) ts0 /\ Forall cut_ok ts0 /\ Forall2 (state_of et ets) traks ts0.
Proof. intros traks. exact (trak_ends_from_ok file traks []). Qed.

Definition total_bytes (traks : list trak_in) : N := sumN (map (fun t => sumN (sizes (ti_tb t))) traks).

Lemma pot_initial : forall ts0, Forall (fun t => ts_next t = 1 /\ ts_offsets t = []) ts0 ->
  pot ts0 = sumN (map (fun t => sumN (sizes (ts_tb t))) ts0).
Proof.
  unfold pot. induction ts0 as [|t r IH]; intros H; [reflexivity|].
  inversion H as [|? ? [Ht _] Hr]; subst. cbn [map sumN]. rewrite (IH Hr), (P_initial t Ht). reflexivity.
Qed.

(* the composed statement about crop_to_time on the input tracks *)
Lemma crop_to_time_full file traks et ets S pre hdr shifted ranges ks :
  Forall (trak_pre file et ets) traks ->
  4611686018427387904 + 2 * total_bytes traks < 18446744073709551616 ->
  lenN pre = S -> lenN hdr = mdat_out_hdr -> S + mdat_out_hdr + 2 * total_bytes traks < 18446744073709551616 ->
  crop_to_time traks et ets S = Ok (shifted, ranges, ks) ->
  Forall (range_in file) ranges /\
  exists ts0, Forall2 (state_of et ets) traks ts0 /\ Forall cut_ok ts0 /\ ks = map ts_last_sample ts0 /\
    Forall2 (track_out file (pre ++ hdr ++ out_bytes file ranges) S mdat_out_hdr (lenN (out_bytes file ranges)))
            (map static ts0) shifted.
Proof.
  intros Hpre HB HS Hh HB2 Hrun.
  destruct (trak_ends traks et ets) as [ts0| | |] eqn:Ends;
    try (unfold crop_to_time in Hrun; rewrite Ends in Hrun; discriminate).
  destruct (trak_ends_ok file traks et ets ts0 Hpre Ends) as [Hst [Hcut Hstate]].
  destruct (trak_ends_init traks et ets ts0 Ends) as [Hinit [Htb _]].
  assert (Hpot : pot ts0 = total_bytes traks).
  { rewrite (pot_initial ts0 Hinit). unfold total_bytes. rewrite <- (map_map ts_tb (fun tb => sumN (sizes tb))), Htb, map_map. reflexivity. }
  destruct (crop_to_time_correct file traks et ets S pre hdr ts0 shifted ranges ks Ends Hst Hcut
              ltac:(rewrite Hpot; exact HB) HS Hh ltac:(rewrite Hpot; exact HB2) Hrun) as [A [B C]].
  split; [exact B|]. exists ts0. repeat split; assumption.
Qed.
