(* C10TreeProofs.v — print-then-parse for the tree mp4ff-crop encodes (C10TreeModel.v), on C01's box model.
   C01's fixed-point theorem is about trees that were DECODED; the output moov of the crop is the decoded input moov with
   some leaves replaced and every container on the way re-sized, so it is not a decoded tree.  This file proves
     * the fuel of C01's decoder is irrelevant above a structural bound (need);
     * pp t ("prints and parses"): the encoder's bytes of t have Size() bytes and decode -- whatever follows them -- to
       norm_box t; it holds of every decoded exact tree (C01's stable_all), of the leaves the crop rebuilds when their
       values fit their fields, and of a container whose children all have it. *)
From V.lib Require Import Base.
From V.c01 Require Import C01Codec C01Model C01FileModel C01TreeProofs C01LeafProofs C01SizeProofs C01LocalProofs
  C01StableProofs C01WhyProofs C01FixProofs.
From V.c10 Require Import C10TreeModel.

(* ---------------------------------------------------------------- fuel *)
Definition needs_with (need : mbox -> nat) (cs : list mbox) : nat :=
  fold_right (fun c acc => S (Nat.max (need c) acc)) 1%nat cs.
Fixpoint need (t : mbox) : nat :=
  match t with
  | MLeaf _ _ _ => 1
  | MUnknown _ _ => 1
  | MCont _ cs => S (fold_right (fun c acc => S (Nat.max (need c) acc)) 1%nat cs)
  | MPre _ _ _ cs => S (fold_right (fun c acc => S (Nat.max (need c) acc)) 1%nat cs)
  end.
Definition needs (cs : list mbox) : nat := needs_with need cs.

Lemma needs_cons c t : needs (c :: t) = S (Nat.max (need c) (needs t)).
Proof. reflexivity. Qed.
Lemma need_cont h cs : need (MCont h cs) = S (needs cs).
Proof. reflexivity. Qed.
Lemma need_pre h l r cs : need (MPre h l r cs) = S (needs cs).
Proof. reflexivity. Qed.
Lemma need_pos t : (1 <= need t)%nat.
Proof. destruct t; cbn [need]; lia. Qed.
Lemma needs_pos cs : (1 <= needs cs)%nat.
Proof. destruct cs; [cbn; lia|rewrite needs_cons; lia]. Qed.

Definition fi_box (f : nat) : Prop :=
  forall bs t r, decode_box f bs = Ok (t, r) -> forall f', (need t <= f')%nat -> decode_box f' bs = Ok (t, r).
Definition fi_children (f : nat) : Prop :=
  forall tgt pos used bs cs r, decode_children f tgt pos used bs = Ok (cs, r) ->
    forall f', (needs cs <= f')%nat -> decode_children f' tgt pos used bs = Ok (cs, r).
Definition fi_entries (f : nat) : Prop :=
  forall tgt pos bs cs r, decode_entries f tgt pos bs = Ok (cs, r) ->
    forall f', (needs cs <= f')%nat -> decode_entries f' tgt pos bs = Ok (cs, r).

Lemma fuel_indep f : fi_box f /\ fi_children f /\ fi_entries f.
Proof.
  induction f as [|f (IHb & IHc & IHe)].
  - repeat split; intros until 1; discriminate.
  - split; [|split].
    + intros bs t r H f' Hn. destruct f' as [|f'']; [pose proof (need_pos t); lia|].
      cbn [decode_box] in H |- *.
      destruct (dec_hdr bs) as [[h r0]| | |]; try discriminate.
      destruct ((lenN r0 + h_len h <? h_size h) && negb (bytes_eqb (h_name h) n_mdat)); try discriminate.
      destruct (lookup (h_name h) leaf_table) as [d|].
      * destruct (d h r0) as [[[l rsv] r']| | |]; try discriminate. exact H.
      * destruct (pre_lookup h r0) as [[d lk]|].
        -- destruct (d h r0) as [[[l rsv] r1]| | |]; try discriminate.
           destruct lk as [off|start].
           ++ destruct (h_size h <? off); try discriminate.
              destruct (decode_children f (h_size h - off) 0 0 r1) as [[cs r']| | |] eqn:E; try discriminate.
              destruct (pre_count_ok l (lenN cs)) eqn:Ep; try discriminate. injection H as <- <-.
              rewrite need_pre in Hn. rewrite (IHc _ _ _ _ _ _ E f'') by lia. now rewrite Ep.
           ++ destruct (decode_entries f (h_size h) start r1) as [[cs r']| | |] eqn:E; try discriminate.
              injection H as <- <-. rewrite need_pre in Hn. now rewrite (IHe _ _ _ _ _ E f'') by lia.
        -- destruct (cont_like h r0).
           ++ destruct (decode_children f (h_size h - 8) 0 0 r0) as [[cs r']| | |] eqn:E; try discriminate.
              destruct (bytes_eqb (h_name h) n_edts && negb (edts_ok cs)) eqn:Ee; try discriminate.
              injection H as <- <-. rewrite need_cont in Hn. rewrite (IHc _ _ _ _ _ _ E f'') by lia. now rewrite Ee.
           ++ destruct (rdB (payload_len h) r0) as [[p r']| | |]; try discriminate. exact H.
    + intros tgt pos used bs cs r H f' Hn. destruct f' as [|f'']; [pose proof (needs_pos cs); lia|].
      cbn [decode_children] in H |- *.
      destruct (tgt <? pos); try discriminate.
      destruct (pos =? tgt); [exact H|].
      destruct (decode_box f bs) as [[c r1]| | |] eqn:Eb; try discriminate.
      destruct (negb (pos + size_box c =? used + (lenN bs - lenN r1))) eqn:Echk; try discriminate.
      destruct (decode_children f tgt (pos + size_box c) (used + (lenN bs - lenN r1)) r1) as [[cs' r']| | |] eqn:Ec;
        try discriminate.
      injection H as <- <-. rewrite needs_cons in Hn.
      rewrite (IHb _ _ _ Eb f'') by lia. rewrite Echk. now rewrite (IHc _ _ _ _ _ _ Ec f'') by lia.
    + intros tgt pos bs cs r H f' Hn. destruct f' as [|f'']; [pose proof (needs_pos cs); lia|].
      cbn [decode_entries] in H |- *.
      destruct (tgt <=? pos); [exact H|].
      destruct (decode_box f bs) as [[c r1]| | |] eqn:Eb; try discriminate.
      destruct (decode_entries f tgt (pos + size_box c) r1) as [[cs' r']| | |] eqn:Ec; try discriminate.
      injection H as <- <-. rewrite needs_cons in Hn.
      rewrite (IHb _ _ _ Eb f'') by lia. now rewrite (IHe _ _ _ _ _ Ec f'') by lia.
Qed.

Lemma need_norm t : need (norm_box t) = need t.
Proof.
  induction t as [h l r|h cs IH|h p|h l r cs IH] using mbox_rect2; cbn [norm_box need]; try reflexivity.
  - f_equal. induction IH as [|c t Hc _ IHt]; [reflexivity|]. cbn [map fold_right]. now rewrite Hc, IHt.
  - f_equal. induction IH as [|c t Hc _ IHt]; [reflexivity|]. cbn [map fold_right]. now rewrite Hc, IHt.
Qed.

(* ---------------------------------------------------------------- prints and parses *)
(* ppr t t': the encoder's bytes of t are Size() many and decode -- whatever follows them -- to t' (for a decoded tree
   t' = norm_box t; for a rebuilt stsc leaf t' carries the sample description ids in the form the decoder builds) *)
Definition ppr (t t' : mbox) : Prop :=
  exists enc, raw_box false t = Ok enc /\ lenN enc = size_box t /\ size_box t' = size_box t /\
    box_name t' = box_name t /\ (need t' <= length enc)%nat /\
    forall f r2, (need t' <= f)%nat -> decode_box f (enc ++ r2) = Ok (t', r2).
Definition pp (t : mbox) : Prop := ppr t (norm_box t).

(* the fuel a tree needs is at most the number of bytes it is encoded in *)
Lemma needs_le_sum cs : forall encs enc, Forall2 (fun c e => e = raw_box false c) cs (map snd encs) ->
  Forall (fun c => forall e, raw_box false c = Ok e -> (need c <= length e)%nat) cs ->
  cat_encs encs = Ok enc -> (needs cs <= S (length enc))%nat.
Proof.
  induction cs as [|c t IH]; intros encs enc H2 HF Hc.
  - cbn. lia.
  - destruct encs as [|e0 et]; [inversion H2|]. cbn [map] in H2. inversion H2 as [|? ? ? ? He0 Het]; subst.
    inversion HF as [|? ? Hc0 Hct]; subst.
    cbn [cat_encs fold_right] in Hc. fold (cat_encs et) in Hc. rewrite He0 in Hc.
    destruct (rcat_ok _ _ _ Hc) as (x & y & Hx & Hy & ->).
    specialize (IH et y Het Hct Hy). specialize (Hc0 x Hx). pose proof (need_pos c).
    rewrite needs_cons, app_length. lia.
Qed.
Lemma genc_snd cs : Forall2 (fun c e => e = raw_box false c) cs (map snd (map (genc false) cs)).
Proof. induction cs as [|c t IH]; [constructor|]. cbn [map genc snd]. constructor; [reflexivity|exact IH]. Qed.

Lemma need_le_raw t : exact_box t = true -> forall enc, raw_box false t = Ok enc -> (need t <= length enc)%nat.
Proof.
  induction t as [h l r|h cs IH|h p|h l r cs IH] using mbox_rect2; intros Hex enc He.
  - cbn [raw_box] in He. unfold raw_leaf in He. destruct (body_leaf l (dflt_rsv l)) as [b| | |]; try discriminate.
    injection He as <-. cbn [need]. rewrite app_length. unfold leaf_hdr, enc_hdr, enc_hdr_large.
    destruct (leaf_large l); rewrite !app_length, length_be_enc; lia.
  - cbn [exact_box] in Hex.
    apply andb_true_iff in Hex. destruct Hex as [Hex _].
    apply andb_true_iff in Hex. destruct Hex as [Hex Hmoov].
    apply andb_true_iff in Hex. destruct Hex as [_ Hcs].
    rewrite raw_box_cont in He. cbv zeta in He.
    assert (Hord : (if bytes_eqb (h_name h) n_moov then moov_order fst (map (genc false) cs) else map (genc false) cs)
                   = map (genc false) cs).
    { destruct (bytes_eqb (h_name h) n_moov); [|reflexivity]. cbn [negb orb] in Hmoov.
      unfold moov_order. rewrite moov_stable_id; [reflexivity|].
      change (@nil (bool * res (list N))) with (map (genc false) []).
      rewrite (moov_stable_map is_trak_box (genc false)); [assumption|reflexivity]. }
    rewrite Hord in He.
    assert (Hall : exists body, cat_encs (map (genc false) cs) = Ok body /\
                     enc = enc_hdr (h_name h) (8 + sumN (map size_box cs)) ++ body).
    { destruct (cat_encs (map (genc false) cs)) as [body| | |] eqn:Eb; cbn [rcat] in He;
        try (destruct (bytes_eqb (h_name h) n_moof); [destruct (moof_pre cs)|]; discriminate).
      exists body. split; [reflexivity|].
      destruct (bytes_eqb (h_name h) n_moof); [destruct (moof_pre cs); try discriminate|]; now injection He as <-. }
    destruct Hall as (body & Hb & ->). rewrite need_cont, app_length. unfold enc_hdr. rewrite app_length, length_be_enc.
    assert (HF : Forall (fun c => forall e, raw_box false c = Ok e -> (need c <= length e)%nat) cs).
    { apply Forall_forall. intros c Hin e Hce. apply (proj1 (Forall_forall _ _) IH c Hin); [|exact Hce].
      exact (proj1 (forallb_forall _ _) Hcs c Hin). }
    pose proof (needs_le_sum cs _ body (genc_snd cs) HF Hb). lia.
  - cbn [raw_box] in He. injection He as <-. cbn [need]. rewrite app_length.
    destruct (8 <? h_len h); unfold enc_hdr, enc_hdr_large; rewrite !app_length, length_be_enc; lia.
  - cbn [exact_box] in Hex.
    apply andb_true_iff in Hex. destruct Hex as [Hex Hcs].
    rewrite raw_box_pre in He.
    destruct (rcat_ok _ _ _ He) as (x & y & Hx & Hy & ->). injection Hx as <-.
    destruct (rcat_ok _ _ _ Hy) as (b & body & _ & Hb & ->).
    rewrite need_pre, !app_length. unfold enc_hdr. rewrite app_length, length_be_enc.
    assert (HF : Forall (fun c => forall e, raw_box false c = Ok e -> (need c <= length e)%nat) cs).
    { apply Forall_forall. intros c Hin e Hce. apply (proj1 (Forall_forall _ _) IH c Hin); [|exact Hce].
      exact (proj1 (forallb_forall _ _) Hcs c Hin). }
    pose proof (needs_le_sum cs _ body (genc_snd cs) HF Hb). lia.
Qed.

(* every decoded exact tree (C01's stable_all), at every fuel the structure needs *)
Lemma pp_decoded f bs t rest : bytes_ok bs = true -> decode_box f bs = Ok (t, rest) -> exact_box t = true -> pp t.
Proof.
  intros Hok H Hex. destruct (proj1 (stable_all f) bs t rest Hok H Hex) as (enc & He & _ & Hs & Hrep).
  exists enc. split; [exact He|]. split; [exact Hs|]. split; [apply size_norm|]. split; [apply name_norm|].
  split; [rewrite need_norm; now apply need_le_raw|].
  intros f' r2 Hn. exact (proj1 (fuel_indep f) _ _ _ (Hrep r2) f' Hn).
Qed.

Lemma ppr_size_pos t t' : ppr t t' -> 0 < size_box t.
Proof.
  intros (enc & _ & Hl & _ & _ & _ & Hrep). specialize (Hrep (need t') [] (le_n _)). rewrite app_nil_r in Hrep.
  destruct enc as [|b e]; [|rewrite <- Hl, lenN_cons; lia].
  exfalso. pose proof (need_pos t') as Hp. destruct (need t'); [lia|]. cbn in Hrep. discriminate.
Qed.

Lemma ppr_children cs cs' : Forall2 ppr cs cs' ->
  exists enc, cat_encs (map (genc false) cs) = Ok enc /\ lenN enc = sumN (map size_box cs) /\
    map size_box cs' = map size_box cs /\ map box_name cs' = map box_name cs /\ (needs cs' <= S (length enc))%nat /\
    forall f pos r2, (needs cs' <= f)%nat ->
      decode_children f (pos + sumN (map size_box cs)) pos pos (enc ++ r2) = Ok (cs', r2).
Proof.
  induction 1 as [|c c' t t' Hc _ (e2 & He2 & Hl2 & Hs2 & Hn2 & Hb2 & Hrep2)].
  - exists []. do 4 (split; [reflexivity|]). split; [cbn; lia|]. intros f pos r2 Hn. destruct f; [cbn in Hn; lia|].
    cbn [decode_children map sumN app]. rewrite N.add_0_r, N.ltb_irrefl, N.eqb_refl. reflexivity.
  - pose proof (ppr_size_pos _ _ Hc) as Hpos. destruct Hc as (e1 & He1 & Hl1 & Hs1 & Hn1 & Hb1 & Hrep1).
    exists (e1 ++ e2). cbn [map cat_encs fold_right genc snd sumN]. fold (cat_encs (map (genc false) t)).
    rewrite He1, He2. cbn [rcat]. split; [reflexivity|]. split; [rewrite lenN_app; lia|].
    split; [now rewrite Hs1, Hs2|]. split; [now rewrite Hn1, Hn2|].
    split; [rewrite needs_cons, app_length; pose proof (need_pos c'); lia|].
    intros f pos r2 Hn. rewrite needs_cons in Hn. destruct f as [|f]; [lia|]. cbn [decode_children].
    replace (pos + (size_box c + sumN (map size_box t)) <? pos) with false by (symmetry; apply N.ltb_ge; lia).
    replace (pos =? pos + (size_box c + sumN (map size_box t))) with false by (symmetry; apply N.eqb_neq; lia).
    rewrite <- app_assoc, Hrep1 by lia. rewrite Hs1.
    replace (pos + (lenN (e1 ++ e2 ++ r2) - lenN (e2 ++ r2))) with (pos + size_box c) by (rewrite !lenN_app; lia).
    rewrite N.eqb_refl. cbn [negb].
    replace (pos + (size_box c + sumN (map size_box t))) with (pos + size_box c + sumN (map size_box t)) by lia.
    rewrite Hrep2 by lia. reflexivity.
Qed.

Lemma edts_ok_names cs cs' : map box_name cs' = map box_name cs -> edts_ok cs' = edts_ok cs.
Proof.
  unfold edts_ok. revert cs'. induction cs as [|c t IH]; intros [|c' t'] H; try discriminate; [reflexivity|].
  cbn [map] in H. injection H as H1 H2. cbn [forallb]. now rewrite H1, (IH _ H2).
Qed.

(* a plain container (moov trak mdia minf stbl edts ...) whose children print and parse *)
Lemma ppr_cont n cs cs' :
  lenN n = 4 -> lookup n leaf_table = None -> lookup n pre_table = None -> is_cont n = true ->
  bytes_eqb n n_moof = false ->
  (bytes_eqb n n_moov = true -> moov_stable_from is_trak_box [] cs = true) ->
  (bytes_eqb n n_edts = true -> edts_ok cs = true) ->
  8 + sumN (map size_box cs) < 4294967296 ->
  Forall2 ppr cs cs' -> ppr (mk_cont n cs) (mk_cont n cs').
Proof.
  intros Hn4 Hleaf Hpre Hcont Hmoof Hmoov Hedts Hfit Hcs.
  destruct (ppr_children cs cs' Hcs) as (enc & Henc & Hl & Hss & Hnn & Hbd & Hrep).
  exists (enc_hdr n (8 + sumN (map size_box cs)) ++ enc). unfold mk_cont. rewrite raw_box_cont. cbv zeta. cbn [h_name].
  assert (Hord : (if bytes_eqb n n_moov then moov_order fst (map (genc false) cs) else map (genc false) cs)
                 = map (genc false) cs).
  { destruct (bytes_eqb n n_moov); [|reflexivity].
    unfold moov_order. rewrite moov_stable_id; [reflexivity|].
    change (@nil (bool * res (list N))) with (map (genc false) []).
    rewrite (moov_stable_map is_trak_box (genc false)); [now apply Hmoov|reflexivity]. }
  rewrite Hord, Henc, Hmoof. cbn [rcat]. split; [reflexivity|].
  split. { cbn [size_box]. unfold enc_hdr. rewrite !lenN_app, lenN_be_enc, Hn4, Hl. reflexivity. }
  split. { cbn [size_box]. now rewrite Hss. }
  split; [reflexivity|].
  split. { rewrite need_cont. unfold enc_hdr. rewrite !app_length, length_be_enc. lia. }
  intros f r2 Hn. rewrite need_cont in Hn. destruct f as [|f]; [lia|]. cbn [decode_box].
  rewrite <- app_assoc, header_rt by (try assumption; lia). cbn [h_size h_len h_name].
  replace (lenN (enc ++ r2) + 8 <? 8 + sumN (map size_box cs)) with false
    by (symmetry; apply N.ltb_ge; rewrite lenN_app; lia).
  cbn [andb]. rewrite Hleaf. unfold pre_lookup. cbn [h_name]. rewrite Hpre.
  replace (if meta_qt _ _ then None else None) with (@None ((hdr -> parser (leaf * rsvT)) * loopkind))
    by (now destruct (meta_qt _ _)).
  unfold cont_like. cbn [h_name]. rewrite Hcont. cbn [orb].
  replace (8 + sumN (map size_box cs) - 8) with (0 + sumN (map size_box cs)) by lia.
  rewrite Hrep by lia. rewrite (edts_ok_names _ _ Hnn), Hss.
  destruct (bytes_eqb n n_edts) eqn:Ee; [rewrite Hedts by reflexivity|]; cbn [negb andb]; reflexivity.
Qed.

(* a leaf whose decoder reads back what its encoder writes *)
Lemma ppr_leaf l l' d b :
  lookup (leaf_name l) leaf_table = Some d -> leaf_large l = false -> lenN (leaf_name l) = 4 ->
  8 <= size_leaf l < 4294967296 -> leaf_name l' = leaf_name l -> size_leaf l' = size_leaf l -> dflt_rsv l' = dflt_rsv l ->
  body_leaf l (dflt_rsv l) = Ok b -> lenN b + 8 = size_leaf l ->
  (forall r2, d (mkHdr (leaf_name l) (size_leaf l) 8) (b ++ r2) = Ok ((l', dflt_rsv l), r2)) ->
  ppr (mk_leaf l) (mk_leaf l').
Proof.
  intros Hd Hlarge Hn4 Hsz Hnm Hsl Hrsv Hb Hlen Hrep.
  exists (enc_hdr (leaf_name l) (size_leaf l) ++ b). unfold mk_leaf. cbn [raw_box]. unfold raw_leaf, leaf_hdr.
  rewrite Hb, Hlarge. split; [reflexivity|].
  split. { cbn [size_box]. unfold enc_hdr. rewrite !lenN_app, lenN_be_enc, Hn4. lia. }
  split; [cbn [size_box]; exact Hsl|]. split; [cbn [box_name]; exact Hnm|].
  split. { cbn [need]. unfold enc_hdr. rewrite !app_length, length_be_enc. lia. }
  intros f r2 Hn. cbn [need] in Hn. destruct f as [|f]; [lia|]. cbn [decode_box].
  rewrite <- app_assoc, header_rt by (try assumption; lia). cbn [h_size h_len h_name].
  replace (lenN (b ++ r2) + 8 <? size_leaf l) with false by (symmetry; apply N.ltb_ge; rewrite lenN_app; lia).
  cbn [andb]. rewrite Hd, Hrep, Hnm, Hsl, Hrsv. reflexivity.
Qed.

(* ---------------------------------------------------------------- the leaves the crop rebuilds *)
Lemma rd_many_print_P {A} (p : parser A) (e : A -> list N) (P : A -> Prop) :
  (forall a r, P a -> p (e a ++ r) = Ok (a, r)) ->
  forall l r fuel, Forall P l -> (length l <= fuel)%nat -> rd_many fuel (lenN l) p (flat_map e l ++ r) = Ok (l, r).
Proof.
  intros Hp. induction l as [|a t IH]; intros r fuel HP Hf.
  - destruct fuel; reflexivity.
  - destruct fuel as [|f]; [cbn in Hf; lia|]. cbn [rd_many flat_map]. rewrite lenN_cons.
    replace (1 + lenN t =? 0) with false by (symmetry; apply N.eqb_neq; lia).
    inversion HP as [|? ? Ha Ht]; subst.
    rewrite <- app_assoc, Hp by assumption. replace (1 + lenN t - 1) with (lenN t) by lia.
    rewrite IH by (try assumption; cbn in Hf; lia). reflexivity.
Qed.

Lemma vf_join_lt v f : vf_join v f < 256 ^ N.of_nat 4.
Proof. unfold vf_join, u32. change (256 ^ N.of_nat 4) with 4294967296. apply N.mod_lt. discriminate. Qed.
Lemma vf_split v f : vf_fits v f = true -> vf_version (vf_join v f) = v /\ vf_flags (vf_join v f) = f.
Proof.
  unfold vf_fits. intros H. apply andb_true_iff in H. destruct H as [Hv Hf]. apply N.ltb_lt in Hv, Hf.
  unfold vf_version, vf_flags, vf_join, u32. rewrite (N.mod_small (v * 16777216 + f)) by lia.
  split.
  - rewrite N.div_add_l by discriminate. rewrite N.div_small by assumption. lia.
  - rewrite N.add_comm, N.mod_add by discriminate. now apply N.mod_small.
Qed.
Lemma fitsw_lt w v : fitsw w v = true -> v < 256 ^ N.of_nat w.
Proof. unfold fitsw. apply N.ltb_lt. Qed.
Lemma forallb_Forall {A} (f : A -> bool) l : forallb f l = true -> Forall (fun a => f a = true) l.
Proof. intros H. apply Forall_forall. intros a Ha. exact (proj1 (forallb_forall f l) H a Ha). Qed.
Lemma flat_len_ge {A} (e : A -> list N) (w : nat) l : (1 <= w)%nat -> (forall a, length (e a) = w) ->
  (length l <= length (flat_map e l))%nat.
Proof.
  intros Hw He. induction l as [|a t IH]; [cbn; lia|]. cbn [flat_map length]. rewrite app_length, He. lia.
Qed.

Ltac split_fits H :=
  repeat match type of H with
         | (_ && _) = true => let H1 := fresh "Hf" in apply andb_true_iff in H; destruct H as [H H1]
         end.

Lemma ppr_stts v f es : leaf_fits (LStts v f es) = true -> size_leaf (LStts v f es) < 4294967296 ->
  ppr (mk_leaf (LStts v f es)) (mk_leaf (LStts v f es)).
Proof.
  intros Hfit Hsz. cbn [leaf_fits] in Hfit. split_fits Hfit. apply N.ltb_lt in Hf0.
  destruct (vf_split _ _ Hfit) as [Hv Hfl].
  cbn [size_leaf] in Hsz. unfold u32 in Hsz. rewrite N.mod_small in Hsz by lia.
  eapply (ppr_leaf _ _ dec_stts); try reflexivity.
  - cbn [size_leaf]. unfold u32. rewrite N.mod_small by lia. lia.
  - cbn [size_leaf]. unfold u32. rewrite N.mod_small by lia.
    rewrite !lenN_app, !lenN_be_enc, (lenN_flat_map_const wr_pair 8) by apply lenN_wr_pair. lia.
  - intros r2. unfold dec_stts, pbind. cbn [h_size size_leaf]. unfold u32. rewrite (N.mod_small (lenN es)) by lia.
    rewrite <- !app_assoc. rewrite rd_enc by apply vf_join_lt.
    rewrite rd_enc by (change (256 ^ N.of_nat 4) with 4294967296; lia).
    rewrite N.eqb_refl. cbn [negb].
    rewrite (rd_many_print_P rd_pair wr_pair (fun p => (fitsw 4 (fst p) && fitsw 4 (snd p)) = true)).
    + unfold pret. now rewrite Hv, Hfl.
    + intros [a b] r Hab. cbn [fst snd] in Hab. apply andb_true_iff in Hab. destruct Hab as [Ha Hb].
      unfold rd_pair, wr_pair, pbind. cbn [fst snd]. rewrite <- app_assoc.
      rewrite !rd_enc by now apply fitsw_lt. reflexivity.
    + now apply forallb_Forall.
    + rewrite app_length. pose proof (flat_len_ge wr_pair 8 es ltac:(lia)) as Hg.
      assert (forall a, length (wr_pair a) = 8%nat) as H8
        by (intros a; unfold wr_pair; now rewrite app_length, !length_be_enc).
      specialize (Hg H8). lia.
Qed.

Lemma u32_small x : x < 4294967296 -> u32 x = x.
Proof. intros H. unfold u32. now apply N.mod_small. Qed.

Lemma ppr_tab n w v f items : leaf_fits (LTab n w v f items) = true -> size_leaf (LTab n w v f items) < 4294967296 ->
  ppr (mk_leaf (LTab n w v f items)) (mk_leaf (LTab n w v f items)).
Proof.
  intros Hfit Hsz. cbn [leaf_fits] in Hfit. split_fits Hfit. apply N.ltb_lt in Hf1.
  destruct (vf_split _ _ Hfit) as [Hv Hfl].
  cbn [size_leaf] in Hsz. rewrite u32_small in Hsz by assumption.
  assert (Hnw : (n = n_stco /\ w = 4%nat) \/ (n = n_stss /\ w = 4%nat) \/ (n = n_co64 /\ w = 8%nat)).
  { apply orb_true_iff in Hf. destruct Hf as [Hf|Hf]; [apply orb_true_iff in Hf; destruct Hf as [Hf|Hf]|];
      apply andb_true_iff in Hf; destruct Hf as [Ha Hb]; apply bytes_eqb_eq in Ha; apply Nat.eqb_eq in Hb; auto. }
  assert (Hw : (1 <= w)%nat) by (destruct Hnw as [[_ ->]|[[_ ->]|[_ ->]]]; lia).
  assert (Hlk : lookup n leaf_table = Some (dec_tab w)) by (destruct Hnw as [[-> ->]|[[-> ->]|[-> ->]]]; reflexivity).
  assert (Hn4 : lenN n = 4) by (destruct Hnw as [[-> _]|[[-> _]|[-> _]]]; reflexivity).
  eapply (ppr_leaf _ _ (dec_tab w)); try reflexivity; try assumption.
  - cbn [size_leaf]. rewrite u32_small by assumption. lia.
  - cbn [size_leaf]. rewrite u32_small by assumption.
    rewrite !lenN_app, !lenN_be_enc, (lenN_flat_map_const (be_enc w) (N.of_nat w)) by (intros; apply lenN_be_enc). lia.
  - intros r2. unfold dec_tab, pbind. cbn [h_size h_name size_leaf leaf_name]. rewrite u32_small by assumption.
    rewrite <- !app_assoc. rewrite rd_enc by apply vf_join_lt.
    rewrite rd_enc by (change (256 ^ N.of_nat 4) with 4294967296; lia).
    rewrite N.eqb_refl. cbn [negb].
    rewrite (rd_many_print_P (rd w) (be_enc w) (fun a => fitsw w a = true)).
    + unfold pret. now rewrite Hv, Hfl.
    + intros a r Ha. apply rd_enc. now apply fitsw_lt.
    + now apply forallb_Forall.
    + rewrite app_length. pose proof (flat_len_ge (be_enc w) w items Hw (length_be_enc w)). lia.
Qed.

Lemma ppr_sdtp v f es : leaf_fits (LSdtp v f es) = true -> size_leaf (LSdtp v f es) < 4294967296 ->
  ppr (mk_leaf (LSdtp v f es)) (mk_leaf (LSdtp v f es)).
Proof.
  intros Hfit Hsz. cbn [leaf_fits] in Hfit. destruct (vf_split _ _ Hfit) as [Hv Hfl]. cbn [size_leaf] in Hsz.
  eapply (ppr_leaf _ _ dec_sdtp); try reflexivity.
  - cbn [size_leaf]. lia.
  - cbn [size_leaf]. rewrite !lenN_app, !lenN_be_enc. lia.
  - intros r2. unfold dec_sdtp, pbind, payload_len. cbn [h_size h_len size_leaf].
    rewrite <- !app_assoc. rewrite rd_enc by apply vf_join_lt.
    replace (12 + lenN es - 8 <? 4) with false by (symmetry; apply N.ltb_ge; lia).
    replace (12 + lenN es - 8 - 4) with (lenN es) by lia. rewrite rdB_app. unfold pret. now rewrite Hv, Hfl.
Qed.

Lemma ppr_stsz v f uni num ss : leaf_fits (LStsz v f uni num ss) = true -> size_leaf (LStsz v f uni num ss) < 4294967296 ->
  ppr (mk_leaf (LStsz v f uni num ss)) (mk_leaf (LStsz v f uni num ss)).
Proof.
  intros Hfit Hsz. cbn [leaf_fits] in Hfit. split_fits Hfit.
  destruct (vf_split _ _ Hfit) as [Hv Hfl]. apply fitsw_lt in Hf1, Hf2. cbn [size_leaf] in Hsz.
  assert (Hbody : body_leaf (LStsz v f uni num ss) (dflt_rsv (LStsz v f uni num ss)) =
                  Ok (be_enc 4 (vf_join v f) ++ be_enc 4 uni ++ be_enc 4 num ++ flat_map (be_enc 4) ss)).
  { cbn [body_leaf]. destruct (lenN ss =? 0) eqn:E0.
    - apply N.eqb_eq in E0. destruct ss; [|rewrite lenN_cons in E0; lia]. cbn [flat_map]. now rewrite app_nil_r.
    - destruct (uni =? 0); [apply N.eqb_eq in Hf0; now rewrite Hf0|discriminate]. }
  assert (Hlen : lenN (flat_map (be_enc 4) ss) = 4 * lenN ss)
    by (apply lenN_flat_map_const; intros; apply lenN_be_enc).
  eapply (ppr_leaf _ _ dec_stsz (be_enc 4 (vf_join v f) ++ be_enc 4 uni ++ be_enc 4 num ++ flat_map (be_enc 4) ss));
    try exact Hbody; try reflexivity.
  - cbn [size_leaf]. destruct (0 <? uni); lia.
  - cbn [size_leaf]. rewrite !lenN_app, !lenN_be_enc, Hlen.
    destruct (uni =? 0) eqn:Eu; apply N.eqb_eq in Hf0.
    + apply N.eqb_eq in Eu. subst uni. cbn [N.ltb N.compare]. lia.
    + apply N.eqb_neq in Eu. replace (0 <? uni) with true by (symmetry; apply N.ltb_lt; lia). lia.
  - intros r2. unfold dec_stsz, pbind. cbn [h_size size_leaf].
    rewrite <- !app_assoc. rewrite rd_enc by apply vf_join_lt. rewrite !rd_enc by assumption.
    rewrite N.eqb_refl. cbn [negb].
    destruct (uni =? 0) eqn:Eu; apply N.eqb_eq in Hf0.
    + rewrite <- Hf0. rewrite (rd_many_print_P (rd 4) (be_enc 4) (fun a => fitsw 4 a = true)).
      * unfold pret. now rewrite Hv, Hfl.
      * intros a r Ha. apply rd_enc. now apply fitsw_lt.
      * now apply forallb_Forall.
      * rewrite app_length. pose proof (flat_len_ge (be_enc 4) 4 ss ltac:(lia) (length_be_enc 4)). lia.
    + destruct ss; [|rewrite lenN_cons in Hf0; lia]. cbn [flat_map app]. unfold pret. now rewrite Hv, Hfl.
Qed.

(* ctts: the (count, offset) pairs CttsBox.Encode writes *)
Fixpoint ctts_pairs (ends offs : list N) : list (N * N) :=
  match offs, ends with
  | o :: ot, e0 :: ((e1 :: _) as et) => (u32 (e1 + 4294967296 - e0), o) :: ctts_pairs et ot
  | _, _ => []
  end.
Lemma wr_ctts_pairs offs : forall ends, wr_ctts ends offs = flat_map wr_pair (ctts_pairs ends offs).
Proof.
  induction offs as [|o ot IH]; intros ends; [destruct ends; reflexivity|].
  destruct ends as [|e0 [|e1 et]]; try reflexivity.
  change (wr_ctts (e0 :: e1 :: et) (o :: ot))
    with (be_enc 4 (u32 (e1 + 4294967296 - e0)) ++ be_enc 4 o ++ wr_ctts (e1 :: et) ot).
  change (ctts_pairs (e0 :: e1 :: et) (o :: ot)) with ((u32 (e1 + 4294967296 - e0), o) :: ctts_pairs (e1 :: et) ot).
  cbn [flat_map]. unfold wr_pair at 1. cbn [fst snd]. rewrite IH. now rewrite <- app_assoc.
Qed.
Lemma ctts_pairs_spec offs : forall e0 et, lenN et = lenN offs -> forallb (fitsw 4) (e0 :: et) = true ->
  C01Model.ctts_ends e0 (ctts_pairs (e0 :: et) offs) = et /\ map snd (ctts_pairs (e0 :: et) offs) = offs /\
  lenN (ctts_pairs (e0 :: et) offs) = lenN offs.
Proof.
  induction offs as [|o ot IH]; intros e0 et Hl Hf.
  - destruct et; [now repeat split|unfold lenN in Hl; cbn [length] in Hl; lia].
  - destruct et as [|e1 et]; [unfold lenN in Hl; cbn [length] in Hl; lia|].
    rewrite !lenN_cons in Hl. cbn [forallb] in Hf. apply andb_true_iff in Hf. destruct Hf as [H0 Hf].
    pose proof Hf as Hf'. cbn [forallb] in Hf'. apply andb_true_iff in Hf'. destruct Hf' as [H1 _].
    apply fitsw_lt in H0, H1. change (256 ^ N.of_nat 4) with 4294967296 in H0, H1.
    destruct (IH e1 et ltac:(lia) Hf) as (Ha & Hb & Hc).
    change (ctts_pairs (e0 :: e1 :: et) (o :: ot)) with ((u32 (e1 + 4294967296 - e0), o) :: ctts_pairs (e1 :: et) ot).
    cbn [C01Model.ctts_ends map snd].
    assert (He : u32 (e0 + u32 (e1 + 4294967296 - e0)) = e1).
    { unfold u32. destruct (N.le_gt_cases e0 e1).
      - replace (e1 + 4294967296 - e0) with ((e1 - e0) + 1 * 4294967296) by lia.
        rewrite N.mod_add by discriminate. rewrite (N.mod_small (e1 - e0)) by lia.
        replace (e0 + (e1 - e0)) with e1 by lia. now apply N.mod_small.
      - rewrite (N.mod_small (e1 + 4294967296 - e0)) by lia.
        replace (e0 + (e1 + 4294967296 - e0)) with (e1 + 1 * 4294967296) by lia.
        rewrite N.mod_add by discriminate. now apply N.mod_small. }
    rewrite He, Ha, Hb. repeat split. rewrite !lenN_cons. lia.
Qed.

Lemma ctts_pairs_count_fits offs : forall es a b, In (a, b) (ctts_pairs es offs) -> fitsw 4 a = true.
Proof.
  induction offs as [|o ot IH]; intros es a b Hin; destruct es as [|x [|y es]]; try (now destruct Hin).
  change (ctts_pairs (x :: y :: es) (o :: ot)) with ((u32 (y + 4294967296 - x), o) :: ctts_pairs (y :: es) ot) in Hin.
  destruct Hin as [Hin|Hin].
  - injection Hin as <- _. unfold fitsw, u32. apply N.ltb_lt. change (256 ^ N.of_nat 4) with 4294967296.
    apply N.mod_lt. discriminate.
  - exact (IH _ _ _ Hin).
Qed.

Lemma ppr_ctts v f ends offs : leaf_fits (LCtts v f ends offs) = true -> size_leaf (LCtts v f ends offs) < 4294967296 ->
  ppr (mk_leaf (LCtts v f ends offs)) (mk_leaf (LCtts v f ends offs)).
Proof.
  intros Hfit Hsz. cbn [leaf_fits] in Hfit. split_fits Hfit. apply N.ltb_lt in Hf3. apply N.eqb_eq in Hf2, Hf1.
  destruct (vf_split _ _ Hfit) as [Hv Hfl].
  cbn [size_leaf] in Hsz. rewrite u32_small in Hsz by assumption.
  destruct ends as [|e0 et]; [cbn in Hf1; discriminate|]. cbn [hd] in Hf1. subst e0.
  rewrite lenN_cons in Hf2.
  destruct (ctts_pairs_spec offs 0 et ltac:(lia) Hf0) as (Ha & Hb & Hc).
  assert (Hbody : body_leaf (LCtts v f (0 :: et) offs) (dflt_rsv (LCtts v f (0 :: et) offs)) =
                  Ok (be_enc 4 (vf_join v f) ++ be_enc 4 (lenN offs) ++ flat_map wr_pair (ctts_pairs (0 :: et) offs))).
  { cbn [body_leaf]. rewrite lenN_cons. replace (1 + lenN et =? 1 + lenN offs) with true by (symmetry; apply N.eqb_eq; lia).
    cbn [negb]. now rewrite wr_ctts_pairs. }
  eapply (ppr_leaf _ _ dec_ctts _); try exact Hbody; try reflexivity.
  - cbn [size_leaf]. rewrite u32_small by assumption. lia.
  - cbn [size_leaf]. rewrite u32_small by assumption.
    rewrite !lenN_app, !lenN_be_enc, (lenN_flat_map_const wr_pair 8) by apply lenN_wr_pair. rewrite Hc. lia.
  - intros r2. unfold dec_ctts, pbind. cbn [h_size size_leaf]. rewrite u32_small by assumption.
    rewrite <- !app_assoc. rewrite rd_enc by apply vf_join_lt.
    rewrite rd_enc by (change (256 ^ N.of_nat 4) with 4294967296; lia).
    rewrite N.eqb_refl. cbn [negb]. rewrite <- Hc.
    rewrite (rd_many_print_P rd_pair wr_pair (fun p => (fitsw 4 (fst p) && fitsw 4 (snd p)) = true)).
    + unfold pret. now rewrite Hv, Hfl, Ha, Hb.
    + intros [a b] r Hab. cbn [fst snd] in Hab. apply andb_true_iff in Hab. destruct Hab as [Ha' Hb'].
      unfold rd_pair, wr_pair, pbind. cbn [fst snd]. rewrite <- app_assoc.
      rewrite !rd_enc by now apply fitsw_lt. reflexivity.
    + apply Forall_forall. intros [a b] Hin. cbn [fst snd]. apply andb_true_iff. split.
      * exact (ctts_pairs_count_fits _ _ _ _ Hin).
      * assert (Hin' : In b (map snd (ctts_pairs (0 :: et) offs))) by (apply in_map_iff; now exists (a, b)).
        rewrite Hb in Hin'. exact (proj1 (forallb_forall _ _) Hf b Hin').
    + rewrite app_length. pose proof (flat_len_ge wr_pair 8 (ctts_pairs (0 :: et) offs) ltac:(lia)) as Hg.
      assert (forall a, length (wr_pair a) = 8%nat) as H8
        by (intros a; unfold wr_pair; now rewrite app_length, !length_be_enc).
      specialize (Hg H8). lia.
Qed.

Lemma ppr_elst v f es : leaf_fits (LElst v f es) = true -> size_leaf (LElst v f es) < 4294967296 ->
  ppr (mk_leaf (LElst v f es)) (mk_leaf (LElst v f es)).
Proof.
  intros Hfit Hsz. cbn [leaf_fits] in Hfit. split_fits Hfit. apply N.ltb_lt in Hf0. apply N.leb_le in Hf1.
  destruct (vf_split _ _ Hfit) as [Hv Hfl].
  cbn [size_leaf] in Hsz. rewrite u32_small in Hsz by assumption.
  set (w := if v =? 1 then 8%nat else 4%nat) in *.
  assert (Hww : forall e, lenN (wr_elst w e) = (if v =? 1 then 20 else 12)).
  { intros e. rewrite lenN_wr_elst. unfold w. destruct (v =? 1); reflexivity. }
  eapply (ppr_leaf _ _ dec_elst); try reflexivity.
  - cbn [size_leaf]. rewrite u32_small by assumption. lia.
  - cbn [size_leaf]. rewrite u32_small by assumption. fold w.
    rewrite !lenN_app, !lenN_be_enc, (lenN_flat_map_const (wr_elst w) _ es Hww). lia.
  - intros r2. unfold dec_elst, pbind. cbn [h_size size_leaf]. rewrite u32_small by assumption.
    rewrite <- !app_assoc. rewrite rd_enc by apply vf_join_lt.
    rewrite rd_enc by (change (256 ^ N.of_nat 4) with 4294967296; lia).
    cbv zeta. rewrite Hv, Hfl. rewrite N.eqb_refl. cbn [negb].
    replace (1 <? v) with false by (symmetry; apply N.ltb_ge; lia). fold w.
    rewrite (rd_many_print_P (rd_elst w) (wr_elst w)
               (fun e => match e with (d, t, ri, rf) => fitsw w d && fitsw w t && fitsw 2 ri && fitsw 2 rf end = true)).
    + reflexivity.
    + intros [[[d t] ri] rf] r He. split_fits He.
      unfold rd_elst, wr_elst, pbind. rewrite <- !app_assoc. rewrite !rd_enc by now apply fitsw_lt. reflexivity.
    + now apply forallb_Forall.
    + rewrite app_length.
      assert (Hw1 : (1 <= (if (v =? 1)%N then 20%nat else 12%nat))%nat) by (destruct (v =? 1); lia).
      pose proof (flat_len_ge (wr_elst w) _ es Hw1) as Hg.
      assert (forall a, length (wr_elst w a) = (if (v =? 1)%N then 20%nat else 12%nat)) as H8.
      { intros [[[d t] ri] rf]. unfold wr_elst. rewrite !app_length, !length_be_enc. unfold w. destruct (v =? 1); reflexivity. }
      specialize (Hg H8). lia.
Qed.

(* stsc *)
Lemma wr_stsc_raw es single : forall ids, wr_stsc es single ids = flat_map wr_triple (stsc_raw es single ids).
Proof.
  induction es as [|[fc sp] t IH]; intros ids; [reflexivity|].
  cbn [wr_stsc stsc_raw flat_map]. unfold wr_triple at 1. cbn [fst snd]. rewrite IH. now rewrite <- !app_assoc.
Qed.
Lemma stsc_raw_fst es single : forall ids, map fst (stsc_raw es single ids) = es.
Proof. induction es as [|[fc sp] t IH]; intros ids; [reflexivity|]. cbn [stsc_raw map fst]. now rewrite IH. Qed.
Lemma stsc_raw_len es single : forall ids, lenN (stsc_raw es single ids) = lenN es.
Proof. induction es as [|[fc sp] t IH]; intros ids; [reflexivity|]. cbn [stsc_raw]. now rewrite !lenN_cons, IH. Qed.

Lemma ppr_stsc v f es single ids : leaf_fits (LStsc v f es single ids) = true ->
  size_leaf (LStsc v f es single ids) < 4294967296 ->
  ppr (mk_leaf (LStsc v f es single ids)) (mk_leaf (leaf_as_decoded (LStsc v f es single ids))).
Proof.
  intros Hfit Hsz. cbn [leaf_fits] in Hfit. split_fits Hfit. apply N.ltb_lt in Hf3. apply negb_true_iff in Hf2.
  destruct (vf_split _ _ Hfit) as [Hv Hfl]. cbn [size_leaf] in Hsz.
  cbn [leaf_as_decoded].
  destruct (stsc_ids 0 0 [] (stsc_written es single ids)) as [[s' i']|] eqn:Eids; [|discriminate].
  assert (Hbody : body_leaf (LStsc v f es single ids) (dflt_rsv (LStsc v f es single ids)) =
                  Ok (be_enc 4 (vf_join v f) ++ be_enc 4 (lenN es) ++ flat_map wr_triple (stsc_raw es single ids))).
  { cbn [body_leaf]. rewrite Hf2. now rewrite wr_stsc_raw. }
  eapply (ppr_leaf _ _ dec_stsc _); try exact Hbody; try reflexivity.
  - cbn [size_leaf]. lia.
  - cbn [size_leaf]. rewrite !lenN_app, !lenN_be_enc, (lenN_flat_map_const wr_triple 12) by apply lenN_wr_triple.
    rewrite stsc_raw_len. lia.
  - intros r2. unfold dec_stsc, pbind. cbn [h_size size_leaf].
    rewrite <- !app_assoc. rewrite rd_enc by apply vf_join_lt.
    rewrite rd_enc by (change (256 ^ N.of_nat 4) with 4294967296; lia).
    rewrite N.eqb_refl. cbn [negb]. rewrite <- (stsc_raw_len es single ids).
    rewrite (rd_many_print_P rd_triple wr_triple
               (fun t => (fitsw 4 (fst (fst t)) && fitsw 4 (snd (fst t)) && fitsw 4 (snd t)) = true)).
    + fold (stsc_written es single ids). rewrite Eids. unfold pret. now rewrite Hv, Hfl, stsc_raw_fst.
    + intros [[a b] c] r Habc. cbn [fst snd] in Habc. split_fits Habc.
      unfold rd_triple, wr_triple, pbind. cbn [fst snd]. rewrite <- !app_assoc.
      rewrite !rd_enc by now apply fitsw_lt. reflexivity.
    + apply Forall_forall. intros [[a b] c] Hin. cbn [fst snd].
      assert (H1 : In (a, b) es) by (rewrite <- (stsc_raw_fst es single ids); apply in_map_iff; now exists (a, b, c)).
      assert (H2 : In c (stsc_written es single ids)) by (apply in_map_iff; now exists (a, b, c)).
      pose proof (proj1 (forallb_forall _ _) Hf1 _ H1) as Hab. cbn [fst snd] in Hab.
      pose proof (proj1 (forallb_forall _ _) Hf0 _ H2) as Hc. now rewrite Hab, Hc.
    + rewrite app_length. pose proof (flat_len_ge wr_triple 12 (stsc_raw es single ids) ltac:(lia)) as Hg.
      assert (forall a, length (wr_triple a) = 12%nat) as H8
        by (intros a; unfold wr_triple; now rewrite !app_length, !length_be_enc).
      specialize (Hg H8). lia.
Qed.

(* mvhd / tkhd: the reserved places hold the encoder's values *)
Lemma ppr_mvhd v f ct mt ts du rate vol nt : leaf_fits (LMvhd v f ct mt ts du rate vol nt) = true ->
  ppr (mk_leaf (LMvhd v f ct mt ts du rate vol nt)) (mk_leaf (LMvhd v f ct mt ts du rate vol nt)).
Proof.
  intros Hfit. cbn [leaf_fits] in Hfit. split_fits Hfit. destruct (vf_split _ _ Hfit) as [Hv Hfl].
  eapply (ppr_leaf _ _ dec_mvhd); try reflexivity.
  - cbn [size_leaf]. destruct (v =? 1); lia.
  - cbn [size_leaf body_leaf dflt_rsv chunk nth]. destruct (v =? 1); lensolve.
  - intros r2. unfold dec_mvhd, pbind. cbn [chunk nth dflt_rsv]. rewrite <- !app_assoc.
    rewrite rd_enc by apply vf_join_lt. cbv zeta. rewrite Hv, Hfl.
    destruct (v =? 1); apply fitsw_lt in Hf, Hf0, Hf1, Hf2, Hf3, Hf4, Hf5;
      rewrite !rd_enc by assumption;
      rewrite (rdB_lit (zeros 10) 10) by apply lenN_zeros; rewrite (rdB_lit unity_matrix 36) by apply lenN_unity;
      rewrite (rdB_lit (zeros 24) 24) by apply lenN_zeros; rewrite rd_enc by assumption; reflexivity.
Qed.

Lemma ppr_tkhd v f ct mt tid du layer ag vol wd ht : leaf_fits (LTkhd v f ct mt tid du layer ag vol wd ht) = true ->
  ppr (mk_leaf (LTkhd v f ct mt tid du layer ag vol wd ht)) (mk_leaf (LTkhd v f ct mt tid du layer ag vol wd ht)).
Proof.
  intros Hfit. cbn [leaf_fits] in Hfit. split_fits Hfit. destruct (vf_split _ _ Hfit) as [Hv Hfl].
  eapply (ppr_leaf _ _ dec_tkhd); try reflexivity.
  - cbn [size_leaf]. destruct (v =? 1); lia.
  - cbn [size_leaf body_leaf dflt_rsv chunk nth]. destruct (v =? 1); lensolve.
  - intros r2. unfold dec_tkhd, pbind. cbn [chunk nth dflt_rsv]. rewrite <- !app_assoc.
    rewrite rd_enc by apply vf_join_lt. cbv zeta. rewrite Hv, Hfl.
    destruct (v =? 1); apply fitsw_lt in Hf, Hf0, Hf1, Hf2, Hf3, Hf4, Hf5, Hf6, Hf7;
      rewrite !rd_enc by assumption;
      rewrite (rdB_lit (zeros 4) 4) by apply lenN_zeros; rewrite rd_enc by assumption;
      rewrite (rdB_lit (zeros 8) 8) by apply lenN_zeros; rewrite !rd_enc by assumption;
      rewrite (rdB_lit (zeros 2) 2) by apply lenN_zeros; rewrite (rdB_lit unity_matrix 36) by apply lenN_unity;
      rewrite !rd_enc by assumption; reflexivity.
Qed.

Definition rebuilt (l : leaf) : bool :=
  match l with
  | LStts _ _ _ | LCtts _ _ _ _ | LStsc _ _ _ _ _ | LStsz _ _ _ _ _ | LTab _ _ _ _ _ | LSdtp _ _ _ | LElst _ _ _
  | LMvhd _ _ _ _ _ _ _ _ _ | LTkhd _ _ _ _ _ _ _ _ _ _ _ => true
  | _ => false
  end.
Lemma ppr_rebuilt l : rebuilt l = true -> leaf_fits l = true -> size_leaf l < 4294967296 ->
  ppr (mk_leaf l) (mk_leaf (leaf_as_decoded l)).
Proof.
  destruct l; try discriminate; intros _ Hf Hs.
  - now apply ppr_mvhd. - now apply ppr_tkhd. - now apply ppr_stts. - now apply ppr_stsc. - now apply ppr_stsz.
  - now apply ppr_tab. - now apply ppr_sdtp. - now apply ppr_ctts. - now apply ppr_elst.
Qed.

(* ---------------------------------------------------------------- decoded exact trees and their children *)
Definition dx (t : mbox) : Prop :=
  exists f bs rest, bytes_ok bs = true /\ decode_box f bs = Ok (t, rest) /\ exact_box t = true.

Lemma dx_pp t : dx t -> pp t.
Proof. intros (f & bs & rest & Hok & H & Hex). exact (pp_decoded f bs t rest Hok H Hex). Qed.

Lemma dx_of_children f : forall tgt pos used bs cs r, bytes_ok bs = true ->
  decode_children f tgt pos used bs = Ok (cs, r) -> forallb exact_box cs = true -> Forall dx cs.
Proof.
  induction f as [|f IH]; intros tgt pos used bs cs r Hok H Hex; [discriminate|].
  cbn [decode_children] in H.
  destruct (tgt <? pos); try discriminate.
  destruct (pos =? tgt); [injection H as <- <-; constructor|].
  destruct (decode_box f bs) as [[c r1]| | |] eqn:Eb; try discriminate.
  destruct (negb (pos + size_box c =? used + (lenN bs - lenN r1))); try discriminate.
  destruct (decode_children f tgt (pos + size_box c) (used + (lenN bs - lenN r1)) r1) as [[cs' r']| | |] eqn:Ec;
    try discriminate.
  injection H as <- <-. cbn [forallb] in Hex. apply andb_true_iff in Hex. destruct Hex as [Hc Hcs].
  destruct (proj1 (tree_both f) _ _ _ Hok Eb Hc) as (_ & _ & _ & Hokr).
  constructor; [now exists f, bs, r1|]. exact (IH _ _ _ _ _ _ Hokr Ec Hcs).
Qed.

Lemma dx_cont h cs : dx (MCont h cs) ->
  Forall dx cs /\ (bytes_eqb (h_name h) n_edts = true -> edts_ok cs = true) /\
  (bytes_eqb (h_name h) n_moov = true -> moov_stable_from is_trak_box [] cs = true).
Proof.
  intros (f & bs & rest & Hok & H & Hex). destruct f as [|f]; [discriminate|].
  cbn [exact_box] in Hex.
  apply andb_true_iff in Hex. destruct Hex as [Hex _].
  apply andb_true_iff in Hex. destruct Hex as [Hex Hmoov].
  apply andb_true_iff in Hex. destruct Hex as [_ Hcs].
  cbn [decode_box] in H.
  destruct (dec_hdr bs) as [[h0 r0]| | |] eqn:Eh; try discriminate.
  destruct (dec_hdr_spec _ _ _ Hok Eh) as (Hokr0 & _).
  destruct ((lenN r0 + h_len h0 <? h_size h0) && negb (bytes_eqb (h_name h0) n_mdat)); try discriminate.
  destruct (lookup (h_name h0) leaf_table) as [d|].
  { destruct (d h0 r0) as [[[l rsv] r']| | |]; discriminate. }
  destruct (pre_lookup h0 r0) as [[d lk]|].
  { destruct (d h0 r0) as [[[l rsv] r1]| | |]; try discriminate. destruct lk as [off|start].
    - destruct (h_size h0 <? off); try discriminate.
      destruct (decode_children f (h_size h0 - off) 0 0 r1) as [[cs0 r']| | |]; try discriminate.
      destruct (pre_count_ok l (lenN cs0)); discriminate.
    - destruct (decode_entries f (h_size h0) start r1) as [[cs0 r']| | |]; discriminate. }
  destruct (cont_like h0 r0).
  - destruct (decode_children f (h_size h0 - 8) 0 0 r0) as [[cs0 r']| | |] eqn:Ec; try discriminate.
    destruct (bytes_eqb (h_name h0) n_edts && negb (edts_ok cs0)) eqn:Ee; try discriminate.
    injection H as -> -> <-.
    split; [exact (dx_of_children f _ _ _ _ _ _ Hokr0 Ec Hcs)|]. split.
    + intros Hn. rewrite Hn in Ee. cbn [andb] in Ee. now apply negb_false_iff in Ee.
    + intros Hn. rewrite Hn in Hmoov. exact Hmoov.
  - destruct (rdB (payload_len h0) r0) as [[p r']| | |]; discriminate.
Qed.

(* ---------------------------------------------------------------- the rebuilt moov *)
Notation vI := (fun l : leaf => l).
Notation vU := (fun t : mbox => t).

Lemma named_name n t : named n t = true -> box_name t = n.
Proof. unfold named. apply bytes_eqb_eq. Qed.

Lemma moov_stable_names cs cs' : map box_name cs' = map box_name cs ->
  moov_stable_from is_trak_box [] cs' = moov_stable_from is_trak_box [] cs.
Proof.
  intros Hn. pose (g := fun c : mbox => (is_trak_box c, tt)).
  rewrite <- (moov_stable_map is_trak_box g (fun a => eq_refl) cs' []).
  rewrite <- (moov_stable_map is_trak_box g (fun a => eq_refl) cs []).
  f_equal. unfold g, is_trak_box.
  rewrite <- (map_map box_name (fun n => (bytes_eqb n n_trak, tt)) cs'), Hn, map_map. reflexivity.
Qed.

Lemma ppr_map_children (g g' : mbox -> mbox) cs :
  Forall dx cs -> forallb enc_fits (map g cs) = true -> forallb tree_fits (map g cs) = true ->
  (forall c, dx c -> enc_fits (g c) = true -> tree_fits (g c) = true -> ppr (g c) (g' c)) ->
  Forall2 ppr (map g cs) (map g' cs).
Proof.
  intros Hdx He Ht Hg. induction Hdx as [|c t Hc _ IH]; [constructor|].
  cbn [map forallb] in *. apply andb_true_iff in He, Ht. destruct He as [He1 He2], Ht as [Ht1 Ht2].
  constructor; [now apply Hg|now apply IH].
Qed.

Lemma name_upd_cont g t : box_name (upd_cont vU g t) = box_name t.
Proof. destruct t; reflexivity. Qed.

Definition six_names : list (list N) := [n_moov; n_trak; n_mdia; n_minf; n_stbl; n_edts].

Lemma ppr_upd_cont n g g' t : In n six_names -> named n t = true -> dx t ->
  enc_fits (upd_cont vU g t) = true -> tree_fits (upd_cont vU g t) = true ->
  (forall cs, Forall dx cs -> forallb enc_fits (g cs) = true -> forallb tree_fits (g cs) = true ->
              Forall2 ppr (g cs) (g' cs)) ->
  (forall cs, map box_name (g cs) = map box_name cs) ->
  ppr (upd_cont vU g t) (upd_cont norm_box g' t).
Proof.
  intros Hin Hnm Hdx He Ht Hg Hnames. destruct t as [h l r|h cs|h p|h l r cs]; try exact (dx_pp _ Hdx).
  apply named_name in Hnm. cbn [box_name] in Hnm. cbn [upd_cont] in *. rewrite Hnm in *.
  destruct (dx_cont h cs Hdx) as (Hcs & Hedts & Hmoov). rewrite Hnm in Hedts, Hmoov.
  unfold mk_cont in He, Ht. cbn [enc_fits tree_fits] in He, Ht.
  apply andb_true_iff in He. destruct He as [Hsz He]. apply N.ltb_lt in Hsz.
  specialize (Hg cs Hcs He Ht).
  assert (Hside : lenN n = 4 /\ lookup n leaf_table = None /\ lookup n pre_table = None /\ is_cont n = true /\
                  bytes_eqb n n_moof = false).
  { unfold six_names in Hin. cbn [In] in Hin.
    destruct Hin as [<-|[<-|[<-|[<-|[<-|[<-|[]]]]]]]; repeat split; reflexivity. }
  destruct Hside as (H4 & Hl & Hp & Hc & Hm).
  apply ppr_cont; try assumption.
  - intros Hn. rewrite (moov_stable_names cs (g cs) (Hnames cs)). now apply Hmoov.
  - intros Hn. rewrite (edts_ok_names cs (g cs) (Hnames cs)). now apply Hedts.
Qed.

Lemma fits_leaf l : enc_fits (mk_leaf l) = true -> leaf_large l = false -> size_leaf l < 4294967296.
Proof. unfold mk_leaf. cbn [enc_fits]. intros H Hl. rewrite Hl in H. cbn [orb] in H. now apply N.ltb_lt. Qed.

Ltac rebuilt_leaf :=
  match goal with
  | He : enc_fits (mk_leaf ?l) = true, Ht : tree_fits (mk_leaf ?l) = true |- ppr (mk_leaf ?l) _ =>
      apply (ppr_rebuilt l eq_refl); [exact Ht|exact (fits_leaf l He eq_refl)]
  end.

Lemma ppr_put_table tb c : dx c -> enc_fits (put_table vI vU tb c) = true -> tree_fits (put_table vI vU tb c) = true ->
  ppr (put_table vI vU tb c) (put_table leaf_as_decoded norm_box tb c).
Proof.
  intros Hdx He Ht. destruct c as [h l r|h cs|h p|h l r cs]; try exact (dx_pp _ Hdx).
  destruct l; try exact (dx_pp _ Hdx); cbn [put_table] in *.
  - rebuilt_leaf.
  - rebuilt_leaf.
  - rebuilt_leaf.
  - match goal with |- context [match ?o with Some _ => _ | None => _ end] => destruct o end;
      [rebuilt_leaf|exact (dx_pp _ Hdx)].
  - match goal with |- context [match ?o with Some _ => _ | None => _ end] => destruct o end;
      [rebuilt_leaf|exact (dx_pp _ Hdx)].
  - match goal with |- context [match ?o with Some _ => _ | None => _ end] => destruct o end;
      [rebuilt_leaf|exact (dx_pp _ Hdx)].
Qed.

Lemma name_put_table tb c : box_name (put_table vI vU tb c) = box_name c.
Proof.
  destruct c as [h l r|h cs|h p|h l r cs]; try reflexivity. destruct l; try reflexivity; cbn [put_table].
  - match goal with |- context [match ?o with Some _ => _ | None => _ end] => destruct o end; reflexivity.
  - match goal with |- context [match ?o with Some _ => _ | None => _ end] => destruct o end; reflexivity.
  - match goal with |- context [match ?o with Some _ => _ | None => _ end] => destruct o end; reflexivity.
Qed.

Lemma names_map (g : mbox -> mbox) cs : (forall c, box_name (g c) = box_name c) -> map box_name (map g cs) = map box_name cs.
Proof. intros H. rewrite map_map. apply map_ext. exact H. Qed.

Lemma ppr_set_tkhd nd c : dx c -> enc_fits (set_tkhd_dur vI vU nd c) = true -> tree_fits (set_tkhd_dur vI vU nd c) = true ->
  ppr (set_tkhd_dur vI vU nd c) (set_tkhd_dur leaf_as_decoded norm_box nd c).
Proof.
  intros Hdx He Ht. destruct c as [h l r|h cs|h p|h l r cs]; try exact (dx_pp _ Hdx).
  destruct l; try exact (dx_pp _ Hdx); cbn [set_tkhd_dur] in *. rebuilt_leaf.
Qed.
Lemma ppr_set_mvhd nd c : dx c -> enc_fits (set_mvhd_dur vI vU nd c) = true -> tree_fits (set_mvhd_dur vI vU nd c) = true ->
  ppr (set_mvhd_dur vI vU nd c) (set_mvhd_dur leaf_as_decoded norm_box nd c).
Proof.
  intros Hdx He Ht. destruct c as [h l r|h cs|h p|h l r cs]; try exact (dx_pp _ Hdx).
  destruct l; try exact (dx_pp _ Hdx); cbn [set_mvhd_dur] in *. rebuilt_leaf.
Qed.
Lemma name_set_tkhd nd c : box_name (set_tkhd_dur vI vU nd c) = box_name c.
Proof. destruct c as [h l r|h cs|h p|h l r cs]; try reflexivity. destruct l; reflexivity. Qed.
Lemma name_set_mvhd nd c : box_name (set_mvhd_dur vI vU nd c) = box_name c.
Proof. destruct c as [h l r|h cs|h p|h l r cs]; try reflexivity. destruct l; reflexivity. Qed.

Lemma ppr_put_elsts cs : forall gs, Forall dx cs ->
  forallb enc_fits (put_elsts vI vU gs cs) = true -> forallb tree_fits (put_elsts vI vU gs cs) = true ->
  Forall2 ppr (put_elsts vI vU gs cs) (put_elsts leaf_as_decoded norm_box gs cs).
Proof.
  induction cs as [|c t IH]; intros gs Hdx He Ht; [constructor|].
  inversion Hdx as [|? ? Hc Hdt]; subst.
  assert (Hdef : forall gs', forallb enc_fits (put_elsts vI vU gs' t) = true ->
                             forallb tree_fits (put_elsts vI vU gs' t) = true ->
            Forall2 ppr (c :: put_elsts vI vU gs' t) (norm_box c :: put_elsts leaf_as_decoded norm_box gs' t)).
  { intros gs' He' Ht'. constructor; [exact (dx_pp _ Hc)|now apply IH]. }
  destruct c as [h l r|h cs|h p|h l r cs]; cbn [put_elsts forallb] in *;
    try (apply andb_true_iff in He, Ht; destruct He as [_ He], Ht as [_ Ht]; now apply Hdef).
  destruct l; try (apply andb_true_iff in He, Ht; destruct He as [_ He], Ht as [_ Ht]; now apply Hdef).
  destruct gs as [|g gt]; cbn [forallb] in *; apply andb_true_iff in He, Ht; destruct He as [He1 He], Ht as [Ht1 Ht];
    [now apply Hdef|].
  constructor; [rebuilt_leaf|now apply IH].
Qed.
Lemma names_put_elsts cs : forall gs, map box_name (put_elsts vI vU gs cs) = map box_name cs.
Proof.
  induction cs as [|c t IH]; intros gs; [reflexivity|].
  destruct c as [h l r|h cs|h p|h l r cs]; cbn [put_elsts map]; try (now rewrite IH).
  destruct l; cbn [put_elsts map]; try (now rewrite IH). destruct gs; cbn [put_elsts map]; now rewrite IH.
Qed.

Lemma in_six n : In n six_names <-> (n = n_moov \/ n = n_trak \/ n = n_mdia \/ n = n_minf \/ n = n_stbl \/ n = n_edts).
Proof. unfold six_names. cbn [In]. intuition. Qed.

(* stbl *)
Lemma ppr_stbl tb t : named n_stbl t = true -> dx t ->
  enc_fits (upd_cont vU (map (put_table vI vU tb)) t) = true -> tree_fits (upd_cont vU (map (put_table vI vU tb)) t) = true ->
  ppr (upd_cont vU (map (put_table vI vU tb)) t) (upd_cont norm_box (map (put_table leaf_as_decoded norm_box tb)) t).
Proof.
  intros Hn Hdx He Ht. apply (ppr_upd_cont n_stbl); try assumption; [apply in_six; tauto| |].
  - intros cs Hcs He' Ht'. apply ppr_map_children; try assumption. intros c. apply ppr_put_table.
  - intros cs. apply names_map. apply name_put_table.
Qed.

(* a level whose only rewritten child is the one named n *)
Lemma ppr_named_level n m (F F' : mbox -> mbox) t :
  In n six_names -> named n t = true -> dx t ->
  (forall c, named m c = true -> dx c -> enc_fits (F c) = true -> tree_fits (F c) = true -> ppr (F c) (F' c)) ->
  (forall c, box_name (F c) = box_name c) ->
  enc_fits (upd_cont vU (upd_named vU m F) t) = true -> tree_fits (upd_cont vU (upd_named vU m F) t) = true ->
  ppr (upd_cont vU (upd_named vU m F) t) (upd_cont norm_box (upd_named norm_box m F') t).
Proof.
  intros Hin Hn Hdx HF HnF He Ht. apply (ppr_upd_cont n); try assumption.
  - intros cs Hcs He' Ht'. unfold upd_named in *. apply ppr_map_children; try assumption.
    intros c Hc Hec Htc. destruct (named m c) eqn:Em; [now apply HF|exact (dx_pp _ Hc)].
  - intros cs. unfold upd_named. apply names_map. intros c. destruct (named m c); [apply HnF|reflexivity].
Qed.

Definition minf_enc tb := upd_cont vU (upd_named vU n_stbl (upd_cont vU (map (put_table vI vU tb)))).
Definition minf_dec tb := upd_cont norm_box (upd_named norm_box n_stbl (upd_cont norm_box (map (put_table leaf_as_decoded norm_box tb)))).
Lemma ppr_minf tb t : named n_minf t = true -> dx t -> enc_fits (minf_enc tb t) = true -> tree_fits (minf_enc tb t) = true ->
  ppr (minf_enc tb t) (minf_dec tb t).
Proof.
  intros Hn Hdx He Ht. apply (ppr_named_level n_minf n_stbl); try assumption; [apply in_six; tauto| |].
  - intros c Hc Hd. now apply ppr_stbl.
  - intros c. apply name_upd_cont.
Qed.

Definition mdia_enc tb := upd_cont vU (upd_named vU n_minf (minf_enc tb)).
Definition mdia_dec tb := upd_cont norm_box (upd_named norm_box n_minf (minf_dec tb)).
Lemma ppr_mdia tb t : named n_mdia t = true -> dx t -> enc_fits (mdia_enc tb t) = true -> tree_fits (mdia_enc tb t) = true ->
  ppr (mdia_enc tb t) (mdia_dec tb t).
Proof.
  intros Hn Hdx He Ht. apply (ppr_named_level n_mdia n_minf); try assumption; [apply in_six; tauto| |].
  - intros c Hc Hd. now apply ppr_minf.
  - intros c. apply name_upd_cont.
Qed.

Lemma ppr_edts gs t : named n_edts t = true -> dx t ->
  enc_fits (upd_cont vU (put_elsts vI vU gs) t) = true -> tree_fits (upd_cont vU (put_elsts vI vU gs) t) = true ->
  ppr (upd_cont vU (put_elsts vI vU gs) t) (upd_cont norm_box (put_elsts leaf_as_decoded norm_box gs) t).
Proof.
  intros Hn Hdx He Ht. apply (ppr_upd_cont n_edts); try assumption; [apply in_six; tauto| |].
  - intros cs Hcs He' Ht'. now apply ppr_put_elsts.
  - intros cs. apply names_put_elsts.
Qed.

(* trak *)
Lemma upd_trak_enc tb nd md ed t :
  upd_trak vI vU tb (nd, md, ed) t =
  upd_cont vU (map (fun c => if named n_tkhd c then set_tkhd_dur vI vU nd c
                             else if named n_edts c then upd_cont vU (put_elsts vI vU (match ed with Some gs => gs | None => [] end)) c
                             else if named n_mdia c then mdia_enc tb c else c)) t.
Proof. reflexivity. Qed.
Lemma upd_trak_dec tb nd md ed t :
  upd_trak leaf_as_decoded norm_box tb (nd, md, ed) t =
  upd_cont norm_box (map (fun c => if named n_tkhd c then set_tkhd_dur leaf_as_decoded norm_box nd c
                             else if named n_edts c then upd_cont norm_box (put_elsts leaf_as_decoded norm_box (match ed with Some gs => gs | None => [] end)) c
                             else if named n_mdia c then mdia_dec tb c else norm_box c)) t.
Proof. reflexivity. Qed.

Lemma ppr_trak tb x t : named n_trak t = true -> dx t ->
  enc_fits (upd_trak vI vU tb x t) = true -> tree_fits (upd_trak vI vU tb x t) = true ->
  ppr (upd_trak vI vU tb x t) (upd_trak leaf_as_decoded norm_box tb x t).
Proof.
  destruct x as [[nd md] ed]. rewrite upd_trak_enc, upd_trak_dec. intros Hn Hdx He Ht.
  apply (ppr_upd_cont n_trak); try assumption; [apply in_six; tauto| |].
  - intros cs Hcs He' Ht'. apply ppr_map_children; try assumption.
    intros c Hc Hec Htc.
    destruct (named n_tkhd c); [now apply ppr_set_tkhd|].
    destruct (named n_edts c) eqn:Ee; [now apply ppr_edts|].
    destruct (named n_mdia c) eqn:Em; [now apply ppr_mdia|]. exact (dx_pp _ Hc).
  - intros cs. apply names_map. intros c.
    destruct (named n_tkhd c); [apply name_set_tkhd|].
    destruct (named n_edts c); [apply name_upd_cont|].
    destruct (named n_mdia c); [apply name_upd_cont|reflexivity].
Qed.
Lemma name_upd_trak tb x t : box_name (upd_trak vI vU tb x t) = box_name t.
Proof. destruct x as [[nd md] ed]. rewrite upd_trak_enc. apply name_upd_cont. Qed.

(* moov *)
Lemma ppr_moov_children nd cs : forall xs, Forall dx cs ->
  forallb enc_fits (upd_moov_children vI vU nd xs cs) = true -> forallb tree_fits (upd_moov_children vI vU nd xs cs) = true ->
  Forall2 ppr (upd_moov_children vI vU nd xs cs) (upd_moov_children leaf_as_decoded norm_box nd xs cs).
Proof.
  induction cs as [|c t IH]; intros xs Hdx He Ht; [constructor|].
  inversion Hdx as [|? ? Hc Hdt]; subst. cbn [upd_moov_children] in *.
  destruct (named n_trak c) eqn:Etr.
  - destruct xs as [|[tb x] xt]; cbn [forallb] in *; apply andb_true_iff in He, Ht;
      destruct He as [He1 He], Ht as [Ht1 Ht].
    + constructor; [exact (dx_pp _ Hc)|now apply IH].
    + constructor; [now apply ppr_trak|now apply IH].
  - cbn [forallb] in *. apply andb_true_iff in He, Ht. destruct He as [He1 He], Ht as [Ht1 Ht].
    constructor; [|now apply IH].
    destruct (named n_mvhd c); [now apply ppr_set_mvhd|exact (dx_pp _ Hc)].
Qed.
Lemma names_moov_children nd cs : forall xs, map box_name (upd_moov_children vI vU nd xs cs) = map box_name cs.
Proof.
  induction cs as [|c t IH]; intros xs; [reflexivity|]. cbn [upd_moov_children].
  destruct (named n_trak c).
  - destruct xs as [|[tb x] xt]; cbn [map]; rewrite IH; [reflexivity|now rewrite name_upd_trak].
  - cbn [map]. rewrite IH. destruct (named n_mvhd c); [now rewrite name_set_mvhd|reflexivity].
Qed.

(* the moov mp4ff-crop encodes prints and parses: decoding its bytes gives out_moov_decoded *)
Lemma ppr_out_moov nd xs moov : named n_moov moov = true -> dx moov ->
  enc_fits (out_moov nd xs moov) = true -> tree_fits (out_moov nd xs moov) = true ->
  ppr (out_moov nd xs moov) (out_moov_decoded nd xs moov).
Proof.
  unfold out_moov, out_moov_decoded, out_moov_g. intros Hn Hdx He Ht.
  apply (ppr_upd_cont n_moov); try assumption; [apply in_six; tauto| |].
  - intros cs Hcs He' Ht'. now apply ppr_moov_children.
  - intros cs. apply names_moov_children.
Qed.

(* ---------------------------------------------------------------- the file *)
Lemma decode_seq_mono f : forall bs ts k, decode_seq f bs = Ok ts -> decode_seq (f + k) bs = Ok ts.
Proof.
  induction f as [|f IH]; intros bs ts k H; [discriminate|]. cbn [decode_seq Nat.add] in *.
  destruct bs as [|b bs']; [exact H|].
  destruct (decode (b :: bs')) as [[t r]| | |]; try discriminate.
  destruct (decode_seq f r) as [ts'| | |] eqn:E; try discriminate. now rewrite (IH _ _ k E).
Qed.

Lemma ppr_seq ts ts' : Forall2 ppr ts ts' ->
  exists enc, encode_seq false ts = Ok enc /\ lenN enc = sumN (map size_box ts) /\ (length ts <= length enc)%nat /\
    forall tail tts ft, decode_seq ft tail = Ok tts -> decode_seq (length ts + ft) (enc ++ tail) = Ok (ts' ++ tts).
Proof.
  induction 1 as [|c c' t t' Hc _ (e2 & He2 & Hl2 & Hn2 & Hrep2)].
  - exists []. repeat split; try reflexivity. intros tail tts ft H. exact H.
  - pose proof (ppr_size_pos _ _ Hc) as Hpos. destruct Hc as (e1 & He1 & Hl1 & Hs1 & Hn1 & Hb1 & Hrep1).
    assert (He1n : (1 <= length e1)%nat) by (unfold lenN in Hl1; lia).
    exists (e1 ++ e2). cbn [encode_seq map sumN]. rewrite He1, He2. cbn [rcat].
    split; [reflexivity|]. split; [rewrite lenN_app; lia|]. split; [rewrite app_length; cbn [length]; lia|].
    intros tail tts ft H. cbn [length Nat.add decode_seq].
    destruct ((e1 ++ e2) ++ tail) as [|b bs'] eqn:Ebs.
    { exfalso. apply (f_equal (@length N)) in Ebs. rewrite !app_length in Ebs. cbn [length] in Ebs. lia. }
    rewrite <- Ebs. unfold decode. rewrite <- app_assoc.
    rewrite Hrep1 by (rewrite app_length; lia). rewrite (Hrep2 _ _ _ H). reflexivity.
Qed.

Lemma dx_of_seq f : forall bs ts, bytes_ok bs = true -> decode_seq f bs = Ok ts -> forallb exact_box ts = true ->
  Forall dx ts.
Proof.
  induction f as [|f IH]; intros bs ts Hok H Hex; [discriminate|]. cbn [decode_seq] in H.
  destruct bs as [|b bs']; [injection H as <-; constructor|].
  unfold decode in H.
  destruct (decode_box (S (length (b :: bs'))) (b :: bs')) as [[t r]| | |] eqn:Eb; try discriminate.
  destruct (decode_seq f r) as [ts'| | |] eqn:Es; try discriminate. injection H as <-.
  cbn [forallb] in Hex. apply andb_true_iff in Hex. destruct Hex as [Ht Hts].
  destruct (proj1 (tree_both _) _ _ _ Hok Eb Ht) as (_ & _ & _ & Hokr).
  constructor; [now exists (S (length (b :: bs'))), (b :: bs'), r|]. exact (IH _ _ Hokr Es Hts).
Qed.

Lemma few_inv ts : forall pre, file_encode_w ts = Ok pre -> forallb enc_fits ts = true /\ encode_seq false ts = Ok pre.
Proof.
  induction ts as [|t r IH]; intros pre H; [now split|]. cbn [file_encode_w encode_seq forallb] in *.
  destruct (rcat_ok _ _ _ H) as (x & y & Hx & Hy & ->). destruct (IH _ Hy) as [Hf Hs].
  unfold encode_w in Hx. destruct (raw_box false t) as [b| | |]; try discriminate.
  destruct (enc_fits t && caps_ok t) eqn:E; try discriminate. injection Hx as <-.
  apply andb_true_iff in E. destruct E as [E _]. rewrite E, Hf, Hs. now split.
Qed.

(* C08's four-byte big endian = C01's *)
Lemma be32_be_enc x : x < 4294967296 -> C08Model.be32 x = be_enc 4 x.
Proof.
  intros Hx. Transparent be_enc. unfold be_enc, C08Model.be32. cbn [le_enc rev app]. Opaque be_enc.
  rewrite !N.div_div by discriminate. cbn [N.mul Pos.mul].
  rewrite (N.mod_small (x / 16777216)) by (apply N.div_lt_upper_bound; [discriminate|exact Hx]).
  reflexivity.
Qed.

Definition mdat_box (body : list N) : mbox := MLeaf (mkHdr n_mdat (8 + lenN body) 8) (LMdat false body) [].
Lemma mdat_decodes body : 8 + lenN body < 4294967296 ->
  decode_seq 2 (enc_hdr n_mdat (8 + lenN body) ++ body) = Ok [mdat_box body].
Proof.
  intros Hb. cbn [decode_seq].
  destruct (enc_hdr n_mdat (8 + lenN body) ++ body) as [|b bs'] eqn:Ebs.
  { exfalso. apply (f_equal (@length N)) in Ebs. unfold enc_hdr in Ebs. rewrite !app_length, length_be_enc in Ebs.
    cbn [length] in Ebs. lia. }
  rewrite <- Ebs. unfold decode. cbn [decode_box].
  rewrite header_rt by (try reflexivity; lia). cbn [h_size h_len h_name].
  replace (bytes_eqb n_mdat n_mdat) with true by reflexivity. rewrite andb_false_r.
  replace (lookup n_mdat leaf_table) with (Some dec_mdat) by reflexivity.
  unfold dec_mdat, payload_len. cbn [h_size h_len]. replace (8 + lenN body - 8) with (lenN body) by lia.
  assert (Hr : rdB (lenN body) body = Ok (body, [])) by (rewrite <- (app_nil_r body) at 2; apply rdB_app).
  rewrite Hr. reflexivity.
Qed.

(* ---------------------------------------------------------------- mp4ff-crop *)
From V.c10 Require Import C10Model C10FileModel.

Lemma write_mdat_shape file zeof m rs mb : write_mdat file zeof m rs = Ok mb ->
  exists body, u64 (ranges_size rs 0 + 8) < 4294967296 /\ lenN body = ranges_size rs 0 /\
    mb = C08Model.be32 (u32 (u64 (ranges_size rs 0 + 8))) ++ C08Model.name_mdat ++ body.
Proof.
  unfold write_mdat. intros H.
  destruct (4294967296 <=? u64 (ranges_size rs 0 + 8)) eqn:E; [discriminate|]. apply N.leb_gt in E.
  unfold C08Model.encode_header_with_size in H. cbn [negb andb] in H.
  replace (4294967296 <=? u64 (ranges_size rs 0 + 8)) with false in H by (symmetry; now apply N.leb_gt).
  cbn [rbind] in H.
  destruct (copy_ranges file zeof m rs) as [body| | |]; try discriminate. cbn [rbind] in H.
  destruct (lenN body =? ranges_size rs 0) eqn:El; [|discriminate]. injection H as <-.
  exists body. apply N.eqb_eq in El. split; [assumption|]. split; [assumption|]. reflexivity.
Qed.

Definition out_tree (nd : N) (xs : list (C09Model.tables * hdr_trak)) (ts : list mbox) : list mbox :=
  map (fun t => if named n_moov t then out_moov nd xs t else t) (non_mdat ts).
Definition out_tree_decoded (nd : N) (xs : list (C09Model.tables * hdr_trak)) (ts : list mbox) : list mbox :=
  map (fun t => if named n_moov t then out_moov_decoded nd xs t else norm_box t) (non_mdat ts).

Lemma crop_tree_shape ts ci ms out ranges swm : crop_tree ts ci ms = Ok (out, ranges, swm) ->
  exists nd xs, out = out_tree nd xs ts.
Proof.
  unfold crop_tree. destruct (file_frag ts); [discriminate|].
  destruct (crop_mp4_all (ci_hs ci) (ci_mvts ci) (ci_tks ci) ms (ci_rest ci)) as [r| | |]; try discriminate.
  cbn [rbind]. destruct r as [[[et ets] [[[tbs rg] kept] sw]] [nd tks']]. intros H. injection H as <- _ _.
  now exists nd, (combine tbs tks').
Qed.

Lemma crop_output_decodes input ts ci ms out ranges swm out_bytes :
  bytes_ok input = true -> decode_file input = Ok ts -> forallb exact_box ts = true ->
  scope input ts = Some ci -> crop_tree ts ci ms = Ok (out, ranges, swm) ->
  crop_tool_ts input ts ms = Some (Ok out_bytes) ->
  forallb tree_fits out = true -> lenN out_bytes < 18446744073709551616 ->
  exists nd xs pre body,
    out = out_tree nd xs ts /\
    file_encode_w out = Ok pre /\ encode_seq false out = Ok pre /\ lenN pre = sumN (map size_box out) /\
    write_mdat input true (ci_mdat ci) ranges = Ok (enc_hdr n_mdat (8 + lenN body) ++ body) /\
    lenN body = ranges_size ranges 0 /\ 8 + lenN body < 4294967296 /\
    out_bytes = pre ++ enc_hdr n_mdat (8 + lenN body) ++ body /\
    decode_file out_bytes = Ok (out_tree_decoded nd xs ts ++ [mdat_box body]).
Proof.
  intros Hok Hdec Hex Hsc Hct Htool Hfits Hlen.
  destruct (crop_tree_shape _ _ _ _ _ _ Hct) as (nd & xs & Hout).
  unfold crop_tool_ts in Htool. rewrite Hsc, Hct in Htool. cbn [rbind] in Htool.
  destruct (file_encode_w out) as [pre| | |] eqn:Epre; try discriminate. cbn [rbind] in Htool.
  destruct (write_mdat input true (ci_mdat ci) ranges) as [mb| | |] eqn:Emb; try discriminate. cbn [rbind] in Htool.
  injection Htool as <-.
  destruct (few_inv _ _ Epre) as [Hef Hseq].
  destruct (write_mdat_shape _ _ _ _ _ Emb) as (body & Hpsz & Hbl & ->).
  rewrite lenN_app in Hlen. rewrite !lenN_app in Hlen.
  assert (Hb4 : lenN (C08Model.be32 (u32 (u64 (ranges_size ranges 0 + 8)))) = 4) by reflexivity.
  assert (Hn4 : lenN C08Model.name_mdat = 4) by reflexivity.
  assert (Hsmall : ranges_size ranges 0 + 8 < 18446744073709551616) by lia.
  assert (Hu : u64 (ranges_size ranges 0 + 8) = 8 + lenN body) by (unfold u64; rewrite N.mod_small by lia; lia).
  rewrite Hu in *. rewrite (u32_small _ Hpsz) in *. rewrite (be32_be_enc _ Hpsz) in *.
  change C08Model.name_mdat with n_mdat in *.
  change (be_enc 4 (8 + lenN body) ++ n_mdat ++ body) with (be_enc 4 (8 + lenN body) ++ (n_mdat ++ body)) in *.
  rewrite (app_assoc (be_enc 4 (8 + lenN body)) n_mdat body) in *. fold (enc_hdr n_mdat (8 + lenN body)) in *.
  (* every non-mdat box prints and parses *)
  pose proof (dx_of_seq _ _ _ Hok Hdec Hex) as Hdx.
  assert (H2 : Forall2 ppr (out_tree nd xs ts) (out_tree_decoded nd xs ts)).
  { rewrite Hout in Hef, Hfits. unfold out_tree, out_tree_decoded in *.
    apply ppr_map_children with (g := fun t => if named n_moov t then out_moov nd xs t else t)
                                (g' := fun t => if named n_moov t then out_moov_decoded nd xs t else norm_box t);
      try assumption.
    - unfold non_mdat. apply Forall_forall. intros t Hin. apply filter_In in Hin.
      exact (proj1 (Forall_forall _ _) Hdx t (proj1 Hin)).
    - intros c Hc Hec Htc. destruct (named n_moov c) eqn:En; [now apply ppr_out_moov|exact (dx_pp _ Hc)]. }
  destruct (ppr_seq _ _ H2) as (enc & Henc & Hl & Hcount & Hrep).
  rewrite <- Hout in Henc, Hl. rewrite Hseq in Henc. injection Henc as <-.
  exists nd, xs, pre, body. repeat split; try assumption; try reflexivity.
  unfold decode_file. specialize (Hrep _ _ 2%nat (mdat_decodes body Hpsz)).
  replace (S (length (pre ++ enc_hdr n_mdat (8 + lenN body) ++ body)))
    with ((length (out_tree nd xs ts) + 2) + (S (length (pre ++ enc_hdr n_mdat (8 + lenN body) ++ body)) - (length (out_tree nd xs ts) + 2)))%nat.
  - apply decode_seq_mono. exact Hrep.
  - rewrite !app_length. unfold enc_hdr. rewrite app_length, length_be_enc. cbn [length]. lia.
Qed.

From V.c01 Require Import C01FileProofs.

Lemma crop_tool_inv input ms out_bytes : crop_tool input ms = Some (Ok out_bytes) ->
  exists ts ci out ranges swm, decode_file_sr input = FOk ts /\ scope input ts = Some ci /\
    crop_tree ts ci ms = Ok (out, ranges, swm) /\ crop_tool_ts input ts ms = Some (Ok out_bytes).
Proof.
  unfold crop_tool. destruct (decode_file_sr input) as [ts| | | |] eqn:Ed; try discriminate. intros H.
  pose proof H as H'. unfold crop_tool_ts in H. destruct (scope input ts) as [ci|] eqn:Es; [|discriminate].
  injection H as H. destruct (crop_tree ts ci ms) as [[[out ranges] swm]| | |] eqn:Ec; try discriminate.
  now exists ts, ci, out, ranges, swm.
Qed.

(* the statement of C10_output_file_bytes + C10_output_decodes *)
Definition output_ok (input : list N) (ci : crop_in) (ts out : list mbox) (ranges : list (N * N)) (out_bytes : list N) : Prop :=
  exists nd xs pre body,
    out = out_tree nd xs ts /\
    file_encode_w out = Ok pre /\ encode_seq false out = Ok pre /\ lenN pre = sumN (map size_box out) /\
    write_mdat input true (ci_mdat ci) ranges = Ok (enc_hdr n_mdat (8 + lenN body) ++ body) /\
    lenN body = ranges_size ranges 0 /\ 8 + lenN body < 4294967296 /\
    out_bytes = pre ++ enc_hdr n_mdat (8 + lenN body) ++ body /\
    decode_file out_bytes = Ok (out_tree_decoded nd xs ts ++ [mdat_box body]).

Lemma crop_tool_decodes input ms out_bytes :
  bytes_ok input = true -> crop_tool input ms = Some (Ok out_bytes) -> lenN out_bytes < 18446744073709551616 ->
  exists ts ci out ranges swm, decode_file_sr input = FOk ts /\ scope input ts = Some ci /\
    crop_tree ts ci ms = Ok (out, ranges, swm) /\
    (forallb exact_box ts = true -> forallb tree_fits out = true -> output_ok input ci ts out ranges out_bytes).
Proof.
  intros Hok Htool Hlen. destruct (crop_tool_inv _ _ _ Htool) as (ts & ci & out & ranges & swm & Hd & Hs & Hc & Ht).
  exists ts, ci, out, ranges, swm. repeat split; try assumption. intros Hex Hfits.
  assert (Hdf : decode_file input = Ok ts).
  { unfold decode_file_sr in Hd. exact (proj1 (loop_sound _ _ _ _ Hd (exact_no_trunc _ Hex))). }
  exact (crop_output_decodes input ts ci ms out ranges swm out_bytes Hok Hdf Hex Hs Hc Ht Hfits Hlen).
Qed.

(* the bytes alone: no hypothesis on the input boxes *)
Lemma crop_tool_file_bytes input ms out_bytes :
  crop_tool input ms = Some (Ok out_bytes) -> lenN out_bytes < 18446744073709551616 ->
  exists ts ci out ranges swm nd xs pre body,
    decode_file_sr input = FOk ts /\ scope input ts = Some ci /\ crop_tree ts ci ms = Ok (out, ranges, swm) /\
    out = out_tree nd xs ts /\ file_encode_w out = Ok pre /\ encode_seq false out = Ok pre /\
    write_mdat input true (ci_mdat ci) ranges = Ok (enc_hdr n_mdat (8 + lenN body) ++ body) /\
    lenN body = ranges_size ranges 0 /\ 8 + lenN body < 4294967296 /\
    out_bytes = pre ++ enc_hdr n_mdat (8 + lenN body) ++ body.
Proof.
  intros Htool Hlen. destruct (crop_tool_inv _ _ _ Htool) as (ts & ci & out & ranges & swm & Hd & Hsc & Hct & Ht).
  destruct (crop_tree_shape _ _ _ _ _ _ Hct) as (nd & xs & Hout).
  unfold crop_tool_ts in Ht. rewrite Hsc, Hct in Ht. cbn [rbind] in Ht.
  destruct (file_encode_w out) as [pre| | |] eqn:Epre; try discriminate. cbn [rbind] in Ht.
  destruct (write_mdat input true (ci_mdat ci) ranges) as [mb| | |] eqn:Emb; try discriminate. cbn [rbind] in Ht.
  injection Ht as <-.
  destruct (few_inv _ _ Epre) as [Hef Hseq].
  destruct (write_mdat_shape _ _ _ _ _ Emb) as (body & Hpsz & Hbl & ->).
  rewrite !lenN_app in Hlen.
  assert (Hb4 : lenN (C08Model.be32 (u32 (u64 (ranges_size ranges 0 + 8)))) = 4) by reflexivity.
  assert (Hn4 : lenN C08Model.name_mdat = 4) by reflexivity.
  assert (Hu : u64 (ranges_size ranges 0 + 8) = 8 + lenN body) by (unfold u64; rewrite N.mod_small by lia; lia).
  rewrite Hu in *. rewrite (u32_small _ Hpsz) in *. rewrite (be32_be_enc _ Hpsz) in *.
  change C08Model.name_mdat with n_mdat in *.
  rewrite (app_assoc (be_enc 4 (8 + lenN body)) n_mdat body) in *. fold (enc_hdr n_mdat (8 + lenN body)) in *.
  exists ts, ci, out, ranges, swm, nd, xs, pre, body. repeat split; assumption || reflexivity.
Qed.

(* the function the driver runs (one pass, with the extra observables) computes crop_tool *)
Lemma report_is_tool input ms :
  crop_tool input ms =
  match crop_tool_report input ms with
  | None => None
  | Some r => Some (match r with Ok x => Ok (fst (fst x)) | Err => Err | Panic => Panic | OutOfFuel => OutOfFuel end)
  end.
Proof.
  unfold crop_tool, crop_tool_report, crop_tool_ts. destruct (decode_file_sr input) as [ts| | | |]; try reflexivity.
  destruct (scope input ts) as [ci|]; [|reflexivity].
  destruct (crop_tree ts ci ms) as [[[out ranges] swm]| | |]; try reflexivity. cbn [rbind].
  destruct (file_encode_w out) as [pre| | |]; try reflexivity. cbn [rbind].
  destruct (write_mdat input true (ci_mdat ci) ranges) as [mb| | |]; reflexivity.
Qed.
