(* C10TreeProofs.v — print-then-parse for the tree mp4ff-crop encodes (C10TreeModel.v), on C01's box model.
   C01's fixed-point theorem is about trees that were DECODED; the output moov of the crop is the decoded input moov with
   some leaves replaced and every container on the way re-sized, so it is not a decoded tree.  This file proves
     * the fuel of C01's decoder is irrelevant above a structural bound (need);
     * pp t ("prints and parses"): the encoder's bytes of t have Size() bytes and decode -- whatever follows them -- to
       norm_box t; it holds of every decoded exact tree (C01's stable_all), of the leaves the crop rebuilds when their
       values fit their fields, and of a container whose children all have it. *)
From V.lib Require Import Base.
From V.c01 Require Import C01Codec C01Model C01FileModel C01TreeProofs C01LeafProofs C01SizeProofs C01LocalProofs
  C01StableProofs C01WhyProofs C01FixProofs.

(* ---------------------------------------------------------------- fuel *)
Definition needs_with (need : mbox -> nat) (cs : list mbox) : nat :=
  fold_right (fun c acc => S (Nat.max (need c) acc)) 1%nat cs.
Fixpoint need (t : mbox) : nat :=
  match t with
  | MLeaf _ _ _ => 1
  | MUnknown _ _ => 1
  | MCont _ cs => S (fold_right (fun c acc => S (Nat.max (need c) acc)) 1%nat cs)
  | MPre _ _ _ cs => S (fold_right (fun c acc => S (Nat.max (need c) acc)) 1%nat cs)
  end.
Definition needs (cs : list mbox) : nat := needs_with need cs.

Lemma needs_cons c t : needs (c :: t) = S (Nat.max (need c) (needs t)).
Proof. reflexivity. Qed.
Lemma need_cont h cs : need (MCont h cs) = S (needs cs).
Proof. reflexivity. Qed.
Lemma need_pre h l r cs : need (MPre h l r cs) = S (needs cs).
Proof. reflexivity. Qed.
Lemma need_pos t : (1 <= need t)%nat.
Proof. destruct t; cbn [need]; lia. Qed.
Lemma needs_pos cs : (1 <= needs cs)%nat.
Proof. destruct cs; [cbn; lia|rewrite needs_cons; lia]. Qed.

Definition fi_box (f : nat) : Prop :=
  forall bs t r, decode_box f bs = Ok (t, r) -> forall f', (need t <= f')%nat -> decode_box f' bs = Ok (t, r).
Definition fi_children (f : nat) : Prop :=
  forall tgt pos used bs cs r, decode_children f tgt pos used bs = Ok (cs, r) ->
    forall f', (needs cs <= f')%nat -> decode_children f' tgt pos used bs = Ok (cs, r).
Definition fi_entries (f : nat) : Prop :=
  forall tgt pos bs cs r, decode_entries f tgt pos bs = Ok (cs, r) ->
    forall f', (needs cs <= f')%nat -> decode_entries f' tgt pos bs = Ok (cs, r).

Lemma fuel_indep f : fi_box f /\ fi_children f /\ fi_entries f.
Proof.
  induction f as [|f (IHb & IHc & IHe)].
  - repeat split; intros until 1; discriminate.
  - split; [|split].
    + intros bs t r H f' Hn. destruct f' as [|f'']; [pose proof (need_pos t); lia|].
      cbn [decode_box] in H |- *.
      destruct (dec_hdr bs) as [[h r0]| | |]; try discriminate.
      destruct ((lenN r0 + h_len h <? h_size h) && negb (bytes_eqb (h_name h) n_mdat)); try discriminate.
      destruct (lookup (h_name h) leaf_table) as [d|].
      * destruct (d h r0) as [[[l rsv] r']| | |]; try discriminate. exact H.
      * destruct (pre_lookup h r0) as [[d lk]|].
        -- destruct (d h r0) as [[[l rsv] r1]| | |]; try discriminate.
           destruct lk as [off|start].
           ++ destruct (h_size h <? off); try discriminate.
              destruct (decode_children f (h_size h - off) 0 0 r1) as [[cs r']| | |] eqn:E; try discriminate.
              destruct (pre_count_ok l (lenN cs)) eqn:Ep; try discriminate. injection H as <- <-.
              rewrite need_pre in Hn. rewrite (IHc _ _ _ _ _ _ E f'') by lia. now rewrite Ep.
           ++ destruct (decode_entries f (h_size h) start r1) as [[cs r']| | |] eqn:E; try discriminate.
              injection H as <- <-. rewrite need_pre in Hn. now rewrite (IHe _ _ _ _ _ E f'') by lia.
        -- destruct (cont_like h r0).
           ++ destruct (decode_children f (h_size h - 8) 0 0 r0) as [[cs r']| | |] eqn:E; try discriminate.
              destruct (bytes_eqb (h_name h) n_edts && negb (edts_ok cs)) eqn:Ee; try discriminate.
              injection H as <- <-. rewrite need_cont in Hn. rewrite (IHc _ _ _ _ _ _ E f'') by lia. now rewrite Ee.
           ++ destruct (rdB (payload_len h) r0) as [[p r']| | |]; try discriminate. exact H.
    + intros tgt pos used bs cs r H f' Hn. destruct f' as [|f'']; [pose proof (needs_pos cs); lia|].
      cbn [decode_children] in H |- *.
      destruct (tgt <? pos); try discriminate.
      destruct (pos =? tgt); [exact H|].
      destruct (decode_box f bs) as [[c r1]| | |] eqn:Eb; try discriminate.
      destruct (negb (pos + size_box c =? used + (lenN bs - lenN r1))) eqn:Echk; try discriminate.
      destruct (decode_children f tgt (pos + size_box c) (used + (lenN bs - lenN r1)) r1) as [[cs' r']| | |] eqn:Ec;
        try discriminate.
      injection H as <- <-. rewrite needs_cons in Hn.
      rewrite (IHb _ _ _ Eb f'') by lia. rewrite Echk. now rewrite (IHc _ _ _ _ _ _ Ec f'') by lia.
    + intros tgt pos bs cs r H f' Hn. destruct f' as [|f'']; [pose proof (needs_pos cs); lia|].
      cbn [decode_entries] in H |- *.
      destruct (tgt <=? pos); [exact H|].
      destruct (decode_box f bs) as [[c r1]| | |] eqn:Eb; try discriminate.
      destruct (decode_entries f tgt (pos + size_box c) r1) as [[cs' r']| | |] eqn:Ec; try discriminate.
      injection H as <- <-. rewrite needs_cons in Hn.
      rewrite (IHb _ _ _ Eb f'') by lia. now rewrite (IHe _ _ _ _ _ Ec f'') by lia.
Qed.

Lemma need_norm t : need (norm_box t) = need t.
Proof.
  induction t as [h l r|h cs IH|h p|h l r cs IH] using mbox_rect2; cbn [norm_box need]; try reflexivity.
  - f_equal. induction IH as [|c t Hc _ IHt]; [reflexivity|]. cbn [map fold_right]. now rewrite Hc, IHt.
  - f_equal. induction IH as [|c t Hc _ IHt]; [reflexivity|]. cbn [map fold_right]. now rewrite Hc, IHt.
Qed.

(* ---------------------------------------------------------------- prints and parses *)
(* ppr t t': the encoder's bytes of t are Size() many and decode -- whatever follows them -- to t' (for a decoded tree
   t' = norm_box t; for a rebuilt stsc leaf t' carries the sample description ids in the form the decoder builds) *)
Definition ppr (t t' : mbox) : Prop :=
  exists enc, raw_box false t = Ok enc /\ lenN enc = size_box t /\ size_box t' = size_box t /\
    box_name t' = box_name t /\
    forall f r2, (need t' <= f)%nat -> decode_box f (enc ++ r2) = Ok (t', r2).
Definition pp (t : mbox) : Prop := ppr t (norm_box t).

(* every decoded exact tree (C01's stable_all), at every fuel the structure needs *)
Lemma pp_decoded f bs t rest : bytes_ok bs = true -> decode_box f bs = Ok (t, rest) -> exact_box t = true -> pp t.
Proof.
  intros Hok H Hex. destruct (proj1 (stable_all f) bs t rest Hok H Hex) as (enc & He & _ & Hs & Hrep).
  exists enc. split; [exact He|]. split; [exact Hs|]. split; [apply size_norm|]. split; [apply name_norm|].
  intros f' r2 Hn. exact (proj1 (fuel_indep f) _ _ _ (Hrep r2) f' Hn).
Qed.

Lemma ppr_size_pos t t' : ppr t t' -> 0 < size_box t.
Proof.
  intros (enc & _ & Hl & _ & _ & Hrep). specialize (Hrep (need t') [] (le_n _)). rewrite app_nil_r in Hrep.
  destruct enc as [|b e]; [|rewrite <- Hl, lenN_cons; lia].
  exfalso. pose proof (need_pos t') as Hp. destruct (need t'); [lia|]. cbn in Hrep. discriminate.
Qed.

Lemma ppr_children cs cs' : Forall2 ppr cs cs' ->
  exists enc, cat_encs (map (genc false) cs) = Ok enc /\ lenN enc = sumN (map size_box cs) /\
    map size_box cs' = map size_box cs /\ map box_name cs' = map box_name cs /\
    forall f pos r2, (needs cs' <= f)%nat ->
      decode_children f (pos + sumN (map size_box cs)) pos pos (enc ++ r2) = Ok (cs', r2).
Proof.
  induction 1 as [|c c' t t' Hc _ (e2 & He2 & Hl2 & Hs2 & Hn2 & Hrep2)].
  - exists []. repeat split; try reflexivity. intros f pos r2 Hn. destruct f; [cbn in Hn; lia|].
    cbn [decode_children map sumN app]. rewrite N.add_0_r, N.ltb_irrefl, N.eqb_refl. reflexivity.
  - pose proof (ppr_size_pos _ _ Hc) as Hpos. destruct Hc as (e1 & He1 & Hl1 & Hs1 & Hn1 & Hrep1).
    exists (e1 ++ e2). cbn [map cat_encs fold_right genc snd sumN]. fold (cat_encs (map (genc false) t)).
    rewrite He1, He2. cbn [rcat]. split; [reflexivity|]. split; [rewrite lenN_app; lia|].
    split; [now rewrite Hs1, Hs2|]. split; [now rewrite Hn1, Hn2|].
    intros f pos r2 Hn. rewrite needs_cons in Hn. destruct f as [|f]; [lia|]. cbn [decode_children].
    replace (pos + (size_box c + sumN (map size_box t)) <? pos) with false by (symmetry; apply N.ltb_ge; lia).
    replace (pos =? pos + (size_box c + sumN (map size_box t))) with false by (symmetry; apply N.eqb_neq; lia).
    rewrite <- app_assoc, Hrep1 by lia. rewrite Hs1.
    replace (pos + (lenN (e1 ++ e2 ++ r2) - lenN (e2 ++ r2))) with (pos + size_box c) by (rewrite !lenN_app; lia).
    rewrite N.eqb_refl. cbn [negb].
    replace (pos + (size_box c + sumN (map size_box t))) with (pos + size_box c + sumN (map size_box t)) by lia.
    rewrite Hrep2 by lia. reflexivity.
Qed.

Definition mk_cont (n : list N) (cs : list mbox) : mbox := MCont (mkHdr n (8 + sumN (map size_box cs)) 8) cs.

Lemma edts_ok_names cs cs' : map box_name cs' = map box_name cs -> edts_ok cs' = edts_ok cs.
Proof.
  unfold edts_ok. revert cs'. induction cs as [|c t IH]; intros [|c' t'] H; try discriminate; [reflexivity|].
  cbn [map] in H. injection H as H1 H2. cbn [forallb]. now rewrite H1, (IH _ H2).
Qed.

(* a plain container (moov trak mdia minf stbl edts ...) whose children print and parse *)
Lemma ppr_cont n cs cs' :
  lenN n = 4 -> lookup n leaf_table = None -> lookup n pre_table = None -> is_cont n = true ->
  bytes_eqb n n_moof = false ->
  (bytes_eqb n n_moov = true -> moov_stable_from is_trak_box [] cs = true) ->
  (bytes_eqb n n_edts = true -> edts_ok cs = true) ->
  8 + sumN (map size_box cs) < 4294967296 ->
  Forall2 ppr cs cs' -> ppr (mk_cont n cs) (mk_cont n cs').
Proof.
  intros Hn4 Hleaf Hpre Hcont Hmoof Hmoov Hedts Hfit Hcs.
  destruct (ppr_children cs cs' Hcs) as (enc & Henc & Hl & Hss & Hnn & Hrep).
  exists (enc_hdr n (8 + sumN (map size_box cs)) ++ enc). unfold mk_cont. rewrite raw_box_cont. cbv zeta. cbn [h_name].
  assert (Hord : (if bytes_eqb n n_moov then moov_order fst (map (genc false) cs) else map (genc false) cs)
                 = map (genc false) cs).
  { destruct (bytes_eqb n n_moov); [|reflexivity].
    unfold moov_order. rewrite moov_stable_id; [reflexivity|].
    change (@nil (bool * res (list N))) with (map (genc false) []).
    rewrite (moov_stable_map is_trak_box (genc false)); [now apply Hmoov|reflexivity]. }
  rewrite Hord, Henc, Hmoof. cbn [rcat]. split; [reflexivity|].
  split. { cbn [size_box]. unfold enc_hdr. rewrite !lenN_app, lenN_be_enc, Hn4, Hl. reflexivity. }
  split. { cbn [size_box]. now rewrite Hss. }
  split; [reflexivity|].
  intros f r2 Hn. rewrite need_cont in Hn. destruct f as [|f]; [lia|]. cbn [decode_box].
  rewrite <- app_assoc, header_rt by (try assumption; lia). cbn [h_size h_len h_name].
  replace (lenN (enc ++ r2) + 8 <? 8 + sumN (map size_box cs)) with false
    by (symmetry; apply N.ltb_ge; rewrite lenN_app; lia).
  cbn [andb]. rewrite Hleaf. unfold pre_lookup. cbn [h_name]. rewrite Hpre.
  replace (if meta_qt _ _ then None else None) with (@None ((hdr -> parser (leaf * rsvT)) * loopkind))
    by (now destruct (meta_qt _ _)).
  unfold cont_like. cbn [h_name]. rewrite Hcont. cbn [orb].
  replace (8 + sumN (map size_box cs) - 8) with (0 + sumN (map size_box cs)) by lia.
  rewrite Hrep by lia. rewrite (edts_ok_names _ _ Hnn), Hss.
  destruct (bytes_eqb n n_edts) eqn:Ee; [rewrite Hedts by reflexivity|]; cbn [negb andb]; reflexivity.
Qed.

Definition mk_leaf (l : leaf) : mbox := MLeaf (mkHdr (leaf_name l) (size_leaf l) 8) l (dflt_rsv l).

(* a leaf whose decoder reads back what its encoder writes *)
Lemma ppr_leaf l l' d b :
  lookup (leaf_name l) leaf_table = Some d -> leaf_large l = false -> lenN (leaf_name l) = 4 ->
  8 <= size_leaf l < 4294967296 -> leaf_name l' = leaf_name l -> size_leaf l' = size_leaf l -> dflt_rsv l' = dflt_rsv l ->
  body_leaf l (dflt_rsv l) = Ok b -> lenN b + 8 = size_leaf l ->
  (forall r2, d (mkHdr (leaf_name l) (size_leaf l) 8) (b ++ r2) = Ok ((l', dflt_rsv l), r2)) ->
  ppr (mk_leaf l) (mk_leaf l').
Proof.
  intros Hd Hlarge Hn4 Hsz Hnm Hsl Hrsv Hb Hlen Hrep.
  exists (enc_hdr (leaf_name l) (size_leaf l) ++ b). unfold mk_leaf. cbn [raw_box]. unfold raw_leaf, leaf_hdr.
  rewrite Hb, Hlarge. split; [reflexivity|].
  split. { cbn [size_box]. unfold enc_hdr. rewrite !lenN_app, lenN_be_enc, Hn4. lia. }
  split; [cbn [size_box]; exact Hsl|]. split; [cbn [box_name]; exact Hnm|].
  intros f r2 Hn. cbn [need] in Hn. destruct f as [|f]; [lia|]. cbn [decode_box].
  rewrite <- app_assoc, header_rt by (try assumption; lia). cbn [h_size h_len h_name].
  replace (lenN (b ++ r2) + 8 <? size_leaf l) with false by (symmetry; apply N.ltb_ge; rewrite lenN_app; lia).
  cbn [andb]. rewrite Hd, Hrep, Hnm, Hsl, Hrsv. reflexivity.
Qed.
